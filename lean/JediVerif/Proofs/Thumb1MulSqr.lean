/-
`square768part1` / `part2` / `part3` of /repo/src/core/arch/armv6_m/multiply.s composed (the off-diagonal triangle, its doubling, the
diagonal), and the routine `embedded_pairing_core_arch_armv6_m_bigint_768_square`.

Statements and proof scripts are written by an authoring script; nothing depends on it.
-/
import JediVerif.Proofs.Thumb1MulSqrRows
import JediVerif.Proofs.Thumb1MulMul

set_option linter.unusedSimpArgs false
set_option exponentiation.threshold 800

namespace Jedi.Thumb1
open Jedi.Impl (val WF val_cons val_nil val_lt val_inj val_append)
open Jedi.X86 (Hide Hide.mk Hide.out)
open Jedi.Gen.AsmV6M

/-- `Σ a[k]² · B^(2k)` -/
def diagSum (B : Nat) (l : List Nat) : Nat := val (B * B) (l.map fun x => x * x)

theorem diagSum_concat (B : Nat) (l : List Nat) (y : Nat) : diagSum B (l ++ [y]) = diagSum B l + (B * B) ^ l.length * (y * y) := by
  unfold diagSum
  rw [List.map_append, val_append, List.length_map]
  simp

/-- one more row of the triangle: with `X = tmp[1..2j+1)` holding the cross products of `a[0..j]`, after row `j+1` the words
`tmp[1..2j+3)` hold those of `a[0..j+1]`; stated as `2·B·X + Σ a[k]²B^(2k) = (Σ a[k]B^k)²`. -/
theorem sq_step (j : Nat) (m0 m m' : Nat → Word) (pa S : Nat)
    (hda : pa + 48 ≤ S ∨ S + 96 ≤ pa) (hj : j + 1 < 12)
    (hfr : ∀ k, ¬(S ≤ k ∧ k < S + 96) → m k = m0 k)
    (hinv : val (2 ^ 32) (limbs32 m (S + 4) (j + j)) * (2 * 2 ^ 32) + diagSum (2 ^ 32) (limbs32 m0 pa (j + 1))
      = val (2 ^ 32) (limbs32 m0 pa (j + 1)) ^ 2)
    (hfr' : ∀ k, ¬(S + 4 * (j + 1) ≤ k ∧ k < S + 4 * (2 * (j + 1) + 1)) → m' k = m k)
    (hrow : val (2 ^ 32) (limbs32 m' (S + 4 * (j + 1)) (j + 1 + 1))
      = (m (pa + 4 * (j + 1))).toNat * val (2 ^ 32) (limbs32 m pa (j + 1)) + val (2 ^ 32) (limbs32 m (S + 4 * (j + 1)) (j + 1 - 1))) :
    (∀ k, ¬(S ≤ k ∧ k < S + 96) → m' k = m0 k) ∧
    val (2 ^ 32) (limbs32 m' (S + 4) (j + 1 + (j + 1))) * (2 * 2 ^ 32) + diagSum (2 ^ 32) (limbs32 m0 pa (j + 1 + 1))
      = val (2 ^ 32) (limbs32 m0 pa (j + 1 + 1)) ^ 2 := by
  refine ⟨fun k hk => by rw [hfr' k (by omega), hfr k hk], ?_⟩
  have eb : limbs32 m pa (j + 1) = limbs32 m0 pa (j + 1) := limbs32_congr _ _ _ _ (fun t ht => hfr _ (by omega))
  have ea : m (pa + 4 * (j + 1)) = m0 (pa + 4 * (j + 1)) := hfr _ (by omega)
  have e1 : limbs32 m' (S + 4) (j + 1 + (j + 1)) = limbs32 m' (S + 4) j ++ limbs32 m' (S + 4 * (j + 1)) (j + 1 + 1) := by
    rw [show j + 1 + (j + 1) = j + (j + 1 + 1) by omega, limbs32_add, show S + 4 + 4 * j = S + 4 * (j + 1) by omega]
  have e2 : limbs32 m' (S + 4) j = limbs32 m (S + 4) j := limbs32_congr _ _ _ _ (fun t ht => hfr' _ (by omega))
  have e3 : limbs32 m (S + 4) (j + j) = limbs32 m (S + 4) j ++ limbs32 m (S + 4 * (j + 1)) j := by
    rw [limbs32_add, show S + 4 + 4 * j = S + 4 * (j + 1) by omega]
  have e4 : limbs32 m0 pa (j + 1 + 1) = limbs32 m0 pa (j + 1) ++ [(m0 (pa + 4 * (j + 1))).toNat] := by
    rw [limbs32_add, limbs32_one]
  rw [e3, val_append] at hinv
  rw [e1, val_append, e2, hrow, ea, eb, e4, val_append, diagSum_concat, limbs32_length, limbs32_length, show j + 1 - 1 = j by omega]
  simp only [val_cons, val_nil, limbs32_length] at hinv ⊢
  generalize (2 : ℕ) ^ 32 = B at *
  linear_combination hinv

/-- one more diagonal term -/
theorem sqdiag_step (j : Nat) (m0 mp m m' : Nat → Word) (pa S : Nat) (c c' : Nat)
    (hda : pa + 48 ≤ S ∨ S + 96 ≤ pa) (hj : j + 1 < 12)
    (hp : ∀ k, ¬(S ≤ k ∧ k < S + 96) → mp k = m0 k)
    (hfr : ∀ k, ¬(S ≤ k ∧ k < S + 8 * (j + 1)) → m k = mp k)
    (hinv : val (2 ^ 32) (limbs32 m S (2 * (j + 1))) + (2 ^ 32) ^ (2 * (j + 1)) * c
      = val (2 ^ 32) (limbs32 mp S (2 * (j + 1))) + diagSum (2 ^ 32) (limbs32 m0 pa (j + 1)))
    (hfr' : ∀ k, ¬(S + 8 * (j + 1) ≤ k ∧ k < S + 8 * (j + 1) + 8) → m' k = m k)
    (hrow : val (2 ^ 32) (limbs32 m' (S + 8 * (j + 1)) 2) + 2 ^ 64 * c'
      = (m (pa + 4 * (j + 1))).toNat * (m (pa + 4 * (j + 1))).toNat + val (2 ^ 32) (limbs32 m (S + 8 * (j + 1)) 2) + c) :
    (∀ k, ¬(S ≤ k ∧ k < S + 8 * (j + 1 + 1)) → m' k = mp k) ∧
    val (2 ^ 32) (limbs32 m' S (2 * (j + 1 + 1))) + (2 ^ 32) ^ (2 * (j + 1 + 1)) * c'
      = val (2 ^ 32) (limbs32 mp S (2 * (j + 1 + 1))) + diagSum (2 ^ 32) (limbs32 m0 pa (j + 1 + 1)) := by
  refine ⟨fun k hk => by rw [hfr' k (by omega), hfr k (by omega)], ?_⟩
  have ea : m (pa + 4 * (j + 1)) = m0 (pa + 4 * (j + 1)) := by rw [hfr _ (by omega), hp _ (by omega)]
  have e1 : limbs32 m' S (2 * (j + 1 + 1)) = limbs32 m' S (2 * (j + 1)) ++ limbs32 m' (S + 8 * (j + 1)) 2 := by
    rw [show 2 * (j + 1 + 1) = 2 * (j + 1) + 2 by omega, limbs32_add, show S + 4 * (2 * (j + 1)) = S + 8 * (j + 1) by omega]
  have e2 : limbs32 m' S (2 * (j + 1)) = limbs32 m S (2 * (j + 1)) := limbs32_congr _ _ _ _ (fun t ht => hfr' _ (by omega))
  have e3 : limbs32 mp S (2 * (j + 1 + 1)) = limbs32 mp S (2 * (j + 1)) ++ limbs32 mp (S + 8 * (j + 1)) 2 := by
    rw [show 2 * (j + 1 + 1) = 2 * (j + 1) + 2 by omega, limbs32_add, show S + 4 * (2 * (j + 1)) = S + 8 * (j + 1) by omega]
  have e5 : limbs32 m (S + 8 * (j + 1)) 2 = limbs32 mp (S + 8 * (j + 1)) 2 := limbs32_congr _ _ _ _ (fun t ht => hfr _ (by omega))
  have e4 : limbs32 m0 pa (j + 1 + 1) = limbs32 m0 pa (j + 1) ++ [(m0 (pa + 4 * (j + 1))).toNat] := by
    rw [limbs32_add, limbs32_one]
  rw [e5, ea] at hrow
  rw [e1, val_append, e2, e3, val_append, e4, diagSum_concat, limbs32_length, limbs32_length, limbs32_length]
  have h64 : (2 : ℕ) ^ 64 = 2 ^ 32 * 2 ^ 32 := by norm_num
  rw [h64] at hrow
  generalize (2 : ℕ) ^ 32 = B at *
  have hp2 : B ^ (2 * (j + 1 + 1)) = B ^ (2 * (j + 1)) * (B * B) := by rw [show 2 * (j + 1 + 1) = 2 * (j + 1) + 2 by omega, pow_add]; ring
  have hp3 : (B * B) ^ (j + 1) = B ^ (2 * (j + 1)) := by rw [← pow_two, ← pow_mul]
  rw [hp2, hp3]
  linear_combination hinv + B ^ (2 * (j + 1)) * hrow

set_option maxHeartbeats 1600000 in
/-- `square768part1`: afterwards `X = tmp[1..23)` holds the cross products: `2·2^32·X + Σ a[k]²·2^(64k) = a²` -/
theorem square768part1_run (st : State) (hst : st.status = .running)
    (ha : Span st.readable st.writable st.r1.toNat 12 false) (ht : Span st.readable st.writable st.sp.toNat 24 true)
    (hda : st.r1.toNat + 48 ≤ st.sp.toNat ∨ st.sp.toNat + 96 ≤ st.r1.toNat) :
    ∃ (x0 x2 x3 x4 x5 x6 x7 : Word) (n z c v : Option Bool) (m' : Nat → Word),
      runL Code.square768part1 st = { st with r0 := x0, r2 := x2, r3 := x3, r4 := x4, r5 := x5, r6 := x6, r7 := x7, nf := n, zf := z, cf := c, vf := v, mem := m', pc := st.pc + 1552 } ∧
      (∀ k, ¬(st.sp.toNat ≤ k ∧ k < st.sp.toNat + 96) → m' k = st.mem k) ∧
      val (2 ^ 32) (limbs32 m' (st.sp.toNat + 4) 22) * (2 * 2 ^ 32) + diagSum (2 ^ 32) (limbs32 st.mem st.r1.toNat 12)
        = val (2 ^ 32) (limbs32 st.mem st.r1.toNat 12) ^ 2 := by
  obtain ⟨r0, r1, r2, r3, r4, r5, r6, r7, r8, r9, r10, r11, r12, sp, lr, nf, zf, cf, vf, m, rd, wr, pc, status, csm⟩ := st
  simp only at hst ha ht hda ⊢
  subst hst
  unfold Code.square768part1
  simp only [runL_append]
  obtain ⟨x0_1, x3_1, x4_1, x5_1, x6_1, x7_1, n_1, z_1, c_1, v_1, m_1, e1, f1, v1⟩ := sqRow1_run r0 r1 r2 r3 r4 r5 r6 r7 r8 r9 r10 r11 r12 sp lr nf zf cf vf m rd wr pc csm ha ht hda
  rw [e1]; clear e1
  have inv1 : (∀ k, ¬(sp.toNat ≤ k ∧ k < sp.toNat + 96) → m_1 k = m k) ∧ val (2 ^ 32) (limbs32 m_1 (sp.toNat + 4) (0 + 1 + (0 + 1))) * (2 * 2 ^ 32) + diagSum (2 ^ 32) (limbs32 m r1.toNat (0 + 1 + 1)) = val (2 ^ 32) (limbs32 m r1.toNat (0 + 1 + 1)) ^ 2 := by
    refine ⟨fun k hk => f1 k (by omega), ?_⟩
    rw [show (0 + 1 + (0 + 1)) = 2 from rfl, v1, limbs32_n1, limbs32_n2]
    simp only [diagSum, List.map_cons, List.map_nil, val_cons, val_nil, Nat.add_zero]; ring
  clear f1 v1
  obtain ⟨x0_2, x3_2, x4_2, x5_2, x6_2, x7_2, n_2, z_2, c_2, v_2, m_2, e2, f2, v2⟩ := sqRow2_run x0_1 r1 (m (BitVec.toNat r1 + 4)) x3_1 x4_1 x5_1 x6_1 x7_1 r8 r9 r10 r11 r12 sp lr n_1 z_1 c_1 v_1 m_1 rd wr (pc + 22) csm ha ht hda
  rw [e2]; clear e2
  have inv2 := sq_step 1 m m_1 m_2 r1.toNat sp.toNat hda (by decide) inv1.1 inv1.2 f2 v2
  clear f2 v2 inv1
  obtain ⟨x0_3, x3_3, x4_3, x5_3, x6_3, x7_3, n_3, z_3, c_3, v_3, m_3, e3, f3, v3⟩ := sqRow3_run x0_2 r1 (m_1 (BitVec.toNat r1 + 8)) x3_2 x4_2 x5_2 x6_2 x7_2 r8 r9 r10 r11 r12 sp lr n_2 z_2 c_2 v_2 m_2 rd wr (pc + 67) csm ha ht hda
  rw [e3]; clear e3
  have inv3 := sq_step 2 m m_2 m_3 r1.toNat sp.toNat hda (by decide) inv2.1 inv2.2 f3 v3
  clear f3 v3 inv2
  obtain ⟨x0_4, x3_4, x4_4, x5_4, x6_4, x7_4, n_4, z_4, c_4, v_4, m_4, e4, f4, v4⟩ := sqRow4_run x0_3 r1 (m_2 (BitVec.toNat r1 + 12)) x3_3 x4_3 x5_3 x6_3 x7_3 r8 r9 r10 r11 r12 sp lr n_3 z_3 c_3 v_3 m_3 rd wr (pc + 136) csm ha ht hda
  rw [e4]; clear e4
  have inv4 := sq_step 3 m m_3 m_4 r1.toNat sp.toNat hda (by decide) inv3.1 inv3.2 f4 v4
  clear f4 v4 inv3
  obtain ⟨x0_5, x3_5, x4_5, x5_5, x6_5, x7_5, n_5, z_5, c_5, v_5, m_5, e5, f5, v5⟩ := sqRow5_run x0_4 r1 (m_3 (BitVec.toNat r1 + 16)) x3_4 x4_4 x5_4 x6_4 x7_4 r8 r9 r10 r11 r12 sp lr n_4 z_4 c_4 v_4 m_4 rd wr (pc + 229) csm ha ht hda
  rw [e5]; clear e5
  have inv5 := sq_step 4 m m_4 m_5 r1.toNat sp.toNat hda (by decide) inv4.1 inv4.2 f5 v5
  clear f5 v5 inv4
  obtain ⟨x0_6, x3_6, x4_6, x5_6, x6_6, x7_6, n_6, z_6, c_6, v_6, m_6, e6, f6, v6⟩ := sqRow6_run x0_5 r1 (m_4 (BitVec.toNat r1 + 20)) x3_5 x4_5 x5_5 x6_5 x7_5 r8 r9 r10 r11 r12 sp lr n_5 z_5 c_5 v_5 m_5 rd wr (pc + 346) csm ha ht hda
  rw [e6]; clear e6
  have inv6 := sq_step 5 m m_5 m_6 r1.toNat sp.toNat hda (by decide) inv5.1 inv5.2 f6 v6
  clear f6 v6 inv5
  obtain ⟨x0_7, x3_7, x4_7, x5_7, x6_7, x7_7, n_7, z_7, c_7, v_7, m_7, e7, f7, v7⟩ := sqRow7_run x0_6 r1 (m_5 (BitVec.toNat r1 + 24)) x3_6 x4_6 x5_6 x6_6 x7_6 r8 r9 r10 r11 r12 sp lr n_6 z_6 c_6 v_6 m_6 rd wr (pc + 487) csm ha ht hda
  rw [e7]; clear e7
  have inv7 := sq_step 6 m m_6 m_7 r1.toNat sp.toNat hda (by decide) inv6.1 inv6.2 f7 v7
  clear f7 v7 inv6
  obtain ⟨x0_8, x3_8, x4_8, x5_8, x6_8, x7_8, n_8, z_8, c_8, v_8, m_8, e8, f8, v8⟩ := sqRow8_run x0_7 r1 (m_6 (BitVec.toNat r1 + 28)) x3_7 x4_7 x5_7 x6_7 x7_7 r8 r9 r10 r11 r12 sp lr n_7 z_7 c_7 v_7 m_7 rd wr (pc + 652) csm ha ht hda
  rw [e8]; clear e8
  have inv8 := sq_step 7 m m_7 m_8 r1.toNat sp.toNat hda (by decide) inv7.1 inv7.2 f8 v8
  clear f8 v8 inv7
  obtain ⟨x0_9, x3_9, x4_9, x5_9, x6_9, x7_9, n_9, z_9, c_9, v_9, m_9, e9, f9, v9⟩ := sqRow9_run x0_8 r1 (m_7 (BitVec.toNat r1 + 32)) x3_8 x4_8 x5_8 x6_8 x7_8 r8 r9 r10 r11 r12 sp lr n_8 z_8 c_8 v_8 m_8 rd wr (pc + 841) csm ha ht hda
  rw [e9]; clear e9
  have inv9 := sq_step 8 m m_8 m_9 r1.toNat sp.toNat hda (by decide) inv8.1 inv8.2 f9 v9
  clear f9 v9 inv8
  obtain ⟨x0_10, x3_10, x4_10, x5_10, x6_10, x7_10, n_10, z_10, c_10, v_10, m_10, e10, f10, v10⟩ := sqRow10_run x0_9 r1 (m_8 (BitVec.toNat r1 + 36)) x3_9 x4_9 x5_9 x6_9 x7_9 r8 r9 r10 r11 r12 sp lr n_9 z_9 c_9 v_9 m_9 rd wr (pc + 1054) csm ha ht hda
  rw [e10]; clear e10
  have inv10 := sq_step 9 m m_9 m_10 r1.toNat sp.toNat hda (by decide) inv9.1 inv9.2 f10 v10
  clear f10 v10 inv9
  obtain ⟨x0_11, x3_11, x4_11, x5_11, x6_11, x7_11, n_11, z_11, c_11, v_11, m_11, e11, f11, v11⟩ := sqRow11_run x0_10 r1 (m_9 (BitVec.toNat r1 + 40)) x3_10 x4_10 x5_10 x6_10 x7_10 r8 r9 r10 r11 r12 sp lr n_10 z_10 c_10 v_10 m_10 rd wr (pc + 1291) csm ha ht hda
  rw [e11]; clear e11
  have inv11 := sq_step 10 m m_10 m_11 r1.toNat sp.toNat hda (by decide) inv10.1 inv10.2 f11 v11
  clear f11 v11 inv10
  exact ⟨_, _, _, _, _, _, _, _, _, _, _, _, rfl, inv11.1, inv11.2⟩

set_option maxHeartbeats 1600000 in
/-- `square768part3`: `tmp[0..24) : r0 := tmp[0..24) + Σ a[k]²·2^(64k)`, `r0 ≤ 1` -/
theorem square768part3_run (st : State) (hst : st.status = .running)
    (ha : Span st.readable st.writable st.r1.toNat 12 false) (ht : Span st.readable st.writable st.sp.toNat 24 true)
    (hda : st.r1.toNat + 48 ≤ st.sp.toNat ∨ st.sp.toNat + 96 ≤ st.r1.toNat) :
    ∃ (x0 x2 x4 x5 x6 x7 : Word) (n z c v : Option Bool) (m' : Nat → Word),
      runL Code.square768part3 st = { st with r0 := x0, r2 := x2, r4 := x4, r5 := x5, r6 := x6, r7 := x7, nf := n, zf := z, cf := c, vf := v, mem := m', pc := st.pc + 310 } ∧
      (∀ k, ¬(st.sp.toNat ≤ k ∧ k < st.sp.toNat + 96) → m' k = st.mem k) ∧ x0.toNat ≤ 1 ∧
      val (2 ^ 32) (limbs32 m' st.sp.toNat 24) + (2 ^ 32) ^ 24 * x0.toNat
        = val (2 ^ 32) (limbs32 st.mem st.sp.toNat 24) + diagSum (2 ^ 32) (limbs32 st.mem st.r1.toNat 12) := by
  obtain ⟨r0, r1, r2, r3, r4, r5, r6, r7, r8, r9, r10, r11, r12, sp, lr, nf, zf, cf, vf, m, rd, wr, pc, status, csm⟩ := st
  simp only at hst ha ht hda ⊢
  subst hst
  unfold Code.square768part3
  simp only [runL_append]
  obtain ⟨x0_0, x2_0, x4_0, x5_0, x6_0, x7_0, n_0, z_0, c_0, v_0, m_0, e0, f0, b0, v0⟩ := sqDiag0_run r0 r1 r2 r3 r4 r5 r6 r7 r8 r9 r10 r11 r12 sp lr nf zf cf vf m rd wr pc csm (ha.sub 0 1 (by decide)) (ht.sub 0 2 (by decide))
  rw [e0]; clear e0
  have hp : ∀ k, ¬(sp.toNat ≤ k ∧ k < sp.toNat + 96) → m k = m k := fun _ _ => rfl
  have inv0 : (∀ k, ¬(sp.toNat ≤ k ∧ k < sp.toNat + 8 * (0 + 1)) → m_0 k = m k) ∧ val (2 ^ 32) (limbs32 m_0 sp.toNat (2 * (0 + 1))) + (2 ^ 32) ^ (2 * (0 + 1)) * x0_0.toNat = val (2 ^ 32) (limbs32 m sp.toNat (2 * (0 + 1))) + diagSum (2 ^ 32) (limbs32 m r1.toNat (0 + 1)) := by
    refine ⟨fun k hk => f0 k (by omega), ?_⟩
    rw [show (2 * (0 + 1)) = 2 from rfl, show (0 + 1) = 1 from rfl, limbs32_n1]
    simp only [diagSum, List.map_cons, List.map_nil, val_cons, val_nil, Nat.add_zero]
    rw [show ((2 : ℕ) ^ 32) ^ 2 = 2 ^ 64 by norm_num]; linear_combination v0
  clear f0 v0
  obtain ⟨x0_1, x2_1, x4_1, x5_1, x6_1, x7_1, n_1, z_1, c_1, v_1, m_1, e1, f1, b1, v1⟩ := sqDiag_run 4 8 x0_0 r1 x2_0 r3 x4_0 x5_0 x6_0 x7_0 r8 r9 r10 r11 r12 sp lr n_0 z_0 c_0 v_0 m_0 rd wr (pc + 24) csm (ha.sub 1 1 (by decide)) (ht.sub 2 2 (by decide))
  rw [e1]; clear e1
  have inv1 := sqdiag_step 0 m m m_0 m_1 r1.toNat sp.toNat x0_0.toNat x0_1.toNat hda (by decide) hp inv0.1 inv0.2 f1 v1
  clear f1 v1 inv0
  obtain ⟨x0_2, x2_2, x4_2, x5_2, x6_2, x7_2, n_2, z_2, c_2, v_2, m_2, e2, f2, b2, v2⟩ := sqDiag_run 8 16 x0_1 r1 x2_1 r3 x4_1 x5_1 x6_1 x7_1 r8 r9 r10 r11 r12 sp lr n_1 z_1 c_1 v_1 m_1 rd wr (pc + 50) csm (ha.sub 2 1 (by decide)) (ht.sub 4 2 (by decide))
  rw [e2]; clear e2
  have inv2 := sqdiag_step 1 m m m_1 m_2 r1.toNat sp.toNat x0_1.toNat x0_2.toNat hda (by decide) hp inv1.1 inv1.2 f2 v2
  clear f2 v2 inv1
  obtain ⟨x0_3, x2_3, x4_3, x5_3, x6_3, x7_3, n_3, z_3, c_3, v_3, m_3, e3, f3, b3, v3⟩ := sqDiag_run 12 24 x0_2 r1 x2_2 r3 x4_2 x5_2 x6_2 x7_2 r8 r9 r10 r11 r12 sp lr n_2 z_2 c_2 v_2 m_2 rd wr (pc + 76) csm (ha.sub 3 1 (by decide)) (ht.sub 6 2 (by decide))
  rw [e3]; clear e3
  have inv3 := sqdiag_step 2 m m m_2 m_3 r1.toNat sp.toNat x0_2.toNat x0_3.toNat hda (by decide) hp inv2.1 inv2.2 f3 v3
  clear f3 v3 inv2
  obtain ⟨x0_4, x2_4, x4_4, x5_4, x6_4, x7_4, n_4, z_4, c_4, v_4, m_4, e4, f4, b4, v4⟩ := sqDiag_run 16 32 x0_3 r1 x2_3 r3 x4_3 x5_3 x6_3 x7_3 r8 r9 r10 r11 r12 sp lr n_3 z_3 c_3 v_3 m_3 rd wr (pc + 102) csm (ha.sub 4 1 (by decide)) (ht.sub 8 2 (by decide))
  rw [e4]; clear e4
  have inv4 := sqdiag_step 3 m m m_3 m_4 r1.toNat sp.toNat x0_3.toNat x0_4.toNat hda (by decide) hp inv3.1 inv3.2 f4 v4
  clear f4 v4 inv3
  obtain ⟨x0_5, x2_5, x4_5, x5_5, x6_5, x7_5, n_5, z_5, c_5, v_5, m_5, e5, f5, b5, v5⟩ := sqDiag_run 20 40 x0_4 r1 x2_4 r3 x4_4 x5_4 x6_4 x7_4 r8 r9 r10 r11 r12 sp lr n_4 z_4 c_4 v_4 m_4 rd wr (pc + 128) csm (ha.sub 5 1 (by decide)) (ht.sub 10 2 (by decide))
  rw [e5]; clear e5
  have inv5 := sqdiag_step 4 m m m_4 m_5 r1.toNat sp.toNat x0_4.toNat x0_5.toNat hda (by decide) hp inv4.1 inv4.2 f5 v5
  clear f5 v5 inv4
  obtain ⟨x0_6, x2_6, x4_6, x5_6, x6_6, x7_6, n_6, z_6, c_6, v_6, m_6, e6, f6, b6, v6⟩ := sqDiag_run 24 48 x0_5 r1 x2_5 r3 x4_5 x5_5 x6_5 x7_5 r8 r9 r10 r11 r12 sp lr n_5 z_5 c_5 v_5 m_5 rd wr (pc + 154) csm (ha.sub 6 1 (by decide)) (ht.sub 12 2 (by decide))
  rw [e6]; clear e6
  have inv6 := sqdiag_step 5 m m m_5 m_6 r1.toNat sp.toNat x0_5.toNat x0_6.toNat hda (by decide) hp inv5.1 inv5.2 f6 v6
  clear f6 v6 inv5
  obtain ⟨x0_7, x2_7, x4_7, x5_7, x6_7, x7_7, n_7, z_7, c_7, v_7, m_7, e7, f7, b7, v7⟩ := sqDiag_run 28 56 x0_6 r1 x2_6 r3 x4_6 x5_6 x6_6 x7_6 r8 r9 r10 r11 r12 sp lr n_6 z_6 c_6 v_6 m_6 rd wr (pc + 180) csm (ha.sub 7 1 (by decide)) (ht.sub 14 2 (by decide))
  rw [e7]; clear e7
  have inv7 := sqdiag_step 6 m m m_6 m_7 r1.toNat sp.toNat x0_6.toNat x0_7.toNat hda (by decide) hp inv6.1 inv6.2 f7 v7
  clear f7 v7 inv6
  obtain ⟨x0_8, x2_8, x4_8, x5_8, x6_8, x7_8, n_8, z_8, c_8, v_8, m_8, e8, f8, b8, v8⟩ := sqDiag_run 32 64 x0_7 r1 x2_7 r3 x4_7 x5_7 x6_7 x7_7 r8 r9 r10 r11 r12 sp lr n_7 z_7 c_7 v_7 m_7 rd wr (pc + 206) csm (ha.sub 8 1 (by decide)) (ht.sub 16 2 (by decide))
  rw [e8]; clear e8
  have inv8 := sqdiag_step 7 m m m_7 m_8 r1.toNat sp.toNat x0_7.toNat x0_8.toNat hda (by decide) hp inv7.1 inv7.2 f8 v8
  clear f8 v8 inv7
  obtain ⟨x0_9, x2_9, x4_9, x5_9, x6_9, x7_9, n_9, z_9, c_9, v_9, m_9, e9, f9, b9, v9⟩ := sqDiag_run 36 72 x0_8 r1 x2_8 r3 x4_8 x5_8 x6_8 x7_8 r8 r9 r10 r11 r12 sp lr n_8 z_8 c_8 v_8 m_8 rd wr (pc + 232) csm (ha.sub 9 1 (by decide)) (ht.sub 18 2 (by decide))
  rw [e9]; clear e9
  have inv9 := sqdiag_step 8 m m m_8 m_9 r1.toNat sp.toNat x0_8.toNat x0_9.toNat hda (by decide) hp inv8.1 inv8.2 f9 v9
  clear f9 v9 inv8
  obtain ⟨x0_10, x2_10, x4_10, x5_10, x6_10, x7_10, n_10, z_10, c_10, v_10, m_10, e10, f10, b10, v10⟩ := sqDiag_run 40 80 x0_9 r1 x2_9 r3 x4_9 x5_9 x6_9 x7_9 r8 r9 r10 r11 r12 sp lr n_9 z_9 c_9 v_9 m_9 rd wr (pc + 258) csm (ha.sub 10 1 (by decide)) (ht.sub 20 2 (by decide))
  rw [e10]; clear e10
  have inv10 := sqdiag_step 9 m m m_9 m_10 r1.toNat sp.toNat x0_9.toNat x0_10.toNat hda (by decide) hp inv9.1 inv9.2 f10 v10
  clear f10 v10 inv9
  obtain ⟨x0_11, x2_11, x4_11, x5_11, x6_11, x7_11, n_11, z_11, c_11, v_11, m_11, e11, f11, b11, v11⟩ := sqDiag_run 44 88 x0_10 r1 x2_10 r3 x4_10 x5_10 x6_10 x7_10 r8 r9 r10 r11 r12 sp lr n_10 z_10 c_10 v_10 m_10 rd wr (pc + 284) csm (ha.sub 11 1 (by decide)) (ht.sub 22 2 (by decide))
  rw [e11]; clear e11
  have inv11 := sqdiag_step 10 m m m_10 m_11 r1.toNat sp.toNat x0_10.toNat x0_11.toNat hda (by decide) hp inv10.1 inv10.2 f11 v11
  clear f11 v11 inv10
  exact ⟨_, _, _, _, _, _, _, _, _, _, _, rfl, inv11.1, b11, inv11.2⟩


/-! ### the parts, applied to the state an equation `runL … st = st'` names (so that `st` is found by unification) -/

theorem multiply768_run' {st st' : State} (h : runL Code.multiply768 st = st') (hst : st.status = .running)
    (ha : Span st.readable st.writable st.r1.toNat 12 false) (hb : Span st.readable st.writable st.r2.toNat 12 false)
    (ht : Span st.readable st.writable st.sp.toNat 24 true)
    (hda : st.r1.toNat + 48 ≤ st.sp.toNat ∨ st.sp.toNat + 96 ≤ st.r1.toNat)
    (hdb : st.r2.toNat + 48 ≤ st.sp.toNat ∨ st.sp.toNat + 96 ≤ st.r2.toNat) :
    ∃ (x0 x3 x4 x5 x6 x7 x10 : Word) (n z c v : Option Bool) (m' : Nat → Word),
      st' = { st with r0 := x0, r3 := x3, r4 := x4, r5 := x5, r6 := x6, r7 := x7, r10 := x10, nf := n, zf := z, cf := c, vf := v, mem := m', pc := st.pc + 3565 } ∧
      (∀ k, ¬(st.sp.toNat ≤ k ∧ k < st.sp.toNat + 96) → m' k = st.mem k) ∧
      val (2 ^ 32) (limbs32 m' st.sp.toNat 24) = val (2 ^ 32) (limbs32 st.mem st.r1.toNat 12) * val (2 ^ 32) (limbs32 st.mem st.r2.toNat 12) := by
  obtain ⟨x0, x3, x4, x5, x6, x7, x10, n, z, c, v, m', e, r⟩ := multiply768_run st hst ha hb ht hda hdb
  exact ⟨x0, x3, x4, x5, x6, x7, x10, n, z, c, v, m', h ▸ e, r⟩

theorem square768part1_run' {st st' : State} (h : runL Code.square768part1 st = st') (hst : st.status = .running)
    (ha : Span st.readable st.writable st.r1.toNat 12 false) (ht : Span st.readable st.writable st.sp.toNat 24 true)
    (hda : st.r1.toNat + 48 ≤ st.sp.toNat ∨ st.sp.toNat + 96 ≤ st.r1.toNat) :
    ∃ (x0 x2 x3 x4 x5 x6 x7 : Word) (n z c v : Option Bool) (m' : Nat → Word),
      st' = { st with r0 := x0, r2 := x2, r3 := x3, r4 := x4, r5 := x5, r6 := x6, r7 := x7, nf := n, zf := z, cf := c, vf := v, mem := m', pc := st.pc + 1552 } ∧
      (∀ k, ¬(st.sp.toNat ≤ k ∧ k < st.sp.toNat + 96) → m' k = st.mem k) ∧
      val (2 ^ 32) (limbs32 m' (st.sp.toNat + 4) 22) * (2 * 2 ^ 32) + diagSum (2 ^ 32) (limbs32 st.mem st.r1.toNat 12)
        = val (2 ^ 32) (limbs32 st.mem st.r1.toNat 12) ^ 2 := by
  obtain ⟨x0, x2, x3, x4, x5, x6, x7, n, z, c, v, m', e, r⟩ := square768part1_run st hst ha ht hda
  exact ⟨x0, x2, x3, x4, x5, x6, x7, n, z, c, v, m', h ▸ e, r⟩

theorem sqPart2_run' {st st' : State} (h : runL Code.square768part2 st = st') (hst : st.status = .running)
    (ht : Span st.readable st.writable st.sp.toNat 24 true) :
    ∃ (x0 x1 x2 x3 x4 x5 x6 x7 : Word) (n z c v : Option Bool) (m' : Nat → Word),
      st' = { st with r0 := x0, r1 := x1, r2 := x2, r3 := x3, r4 := x4, r5 := x5, r6 := x6, r7 := x7, nf := n, zf := z, cf := c, vf := v, mem := m', pc := st.pc + 35 } ∧
      (∀ k, ¬(st.sp.toNat ≤ k ∧ k < st.sp.toNat + 96) → m' k = st.mem k) ∧
      val (2 ^ 32) (limbs32 m' st.sp.toNat 24) = 2 * (2 ^ 32 * val (2 ^ 32) (limbs32 st.mem (st.sp.toNat + 4) 22)) := by
  obtain ⟨r0, r1, r2, r3, r4, r5, r6, r7, r8, r9, r10, r11, r12, sp, lr, nf, zf, cf, vf, m, rd, wr, pc, status, csm⟩ := st
  simp only at hst ht ⊢
  subst hst
  obtain ⟨x0, x1, x2, x3, x4, x5, x6, x7, n, z, c, v, m', e, r⟩ := sqPart2_run r0 r1 r2 r3 r4 r5 r6 r7 r8 r9 r10 r11 r12 sp lr nf zf cf vf m rd wr pc csm ht
  exact ⟨x0, x1, x2, x3, x4, x5, x6, x7, n, z, c, v, m', h ▸ e, r⟩

theorem square768part3_run' {st st' : State} (h : runL Code.square768part3 st = st') (hst : st.status = .running)
    (ha : Span st.readable st.writable st.r1.toNat 12 false) (ht : Span st.readable st.writable st.sp.toNat 24 true)
    (hda : st.r1.toNat + 48 ≤ st.sp.toNat ∨ st.sp.toNat + 96 ≤ st.r1.toNat) :
    ∃ (x0 x2 x4 x5 x6 x7 : Word) (n z c v : Option Bool) (m' : Nat → Word),
      st' = { st with r0 := x0, r2 := x2, r4 := x4, r5 := x5, r6 := x6, r7 := x7, nf := n, zf := z, cf := c, vf := v, mem := m', pc := st.pc + 310 } ∧
      (∀ k, ¬(st.sp.toNat ≤ k ∧ k < st.sp.toNat + 96) → m' k = st.mem k) ∧ x0.toNat ≤ 1 ∧
      val (2 ^ 32) (limbs32 m' st.sp.toNat 24) + (2 ^ 32) ^ 24 * x0.toNat
        = val (2 ^ 32) (limbs32 st.mem st.sp.toNat 24) + diagSum (2 ^ 32) (limbs32 st.mem st.r1.toNat 12) := by
  obtain ⟨x0, x2, x4, x5, x6, x7, n, z, c, v, m', e, r⟩ := square768part3_run st hst ha ht hda
  exact ⟨x0, x2, x4, x5, x6, x7, n, z, c, v, m', h ▸ e, r⟩

/-- triangle, doubled, plus diagonal = square; the carry out of the last diagonal iteration is 0 -/
theorem square_finish (X T2 T3 Q A c : Nat) (h1 : X * (2 * 2 ^ 32) + Q = A ^ 2) (h2 : T2 = 2 * (2 ^ 32 * X))
    (h3 : T3 + (2 ^ 32) ^ 24 * c = T2 + Q) (hA : A < (2 ^ 32) ^ 12) : T3 + (2 ^ 32) ^ 24 * c = A * A := by
  rw [h3, h2, ← pow_two, ← h1]; ring

theorem square_nocarry (T3 A c : Nat) (h : T3 + (2 ^ 32) ^ 24 * c = A * A) (hA : A < (2 ^ 32) ^ 12) : T3 = A * A := by
  have h2 : A * A < (2 ^ 32) ^ 12 * (2 ^ 32) ^ 12 := Nat.mul_lt_mul'' hA hA
  have h3 : ((2 : ℕ) ^ 32) ^ 12 * (2 ^ 32) ^ 12 = (2 ^ 32) ^ 24 := by rw [← pow_add]
  rw [h3] at h2
  rcases Nat.eq_zero_or_pos c with hc | hc
  · subst hc; omega
  · have : (2 ^ 32) ^ 24 * 1 ≤ (2 ^ 32) ^ 24 * c := Nat.mul_le_mul_left _ hc
    omega

theorem limbs32_lt12 (m : Nat → Word) (p : Nat) : val (2 ^ 32) (limbs32 m p 12) < (2 ^ 32) ^ 12 := by
  have := val_lt (limbs32_WF m p 12); rwa [limbs32_length] at this

set_option maxHeartbeats 1600000 in
/-- `void bigint_768_square(res, a)`: `res` (24 words) `= a²`; `res` may overlap `a` in any way. -/
theorem bigint_768_square_run (s : State) (pr pa : Word)
    (hst : s.status = .running) (hpc : s.pc = 0) (h0 : s.r0 = pr) (h1 : s.r1 = pa) (hlr : s.lr.toNat % 2 = 1)
    (hr : Buf s pr 24 true) (ha : Buf s pa 12 false)
    (hstk : Stack s 32) (hrs : OffStack s 32 pr 24) (has : OffStack s 32 pa 12) :
    ∃ s', run embedded_pairing_core_arch_armv6_m_bigint_768_square s 1925 = s' ∧ Returned s s' ∧
      val (2 ^ 32) (limbs32 s'.mem pr.toNat 24) = val (2 ^ 32) (limbs32 s.mem pa.toNat 12) * val (2 ^ 32) (limbs32 s.mem pa.toNat 12) ∧
      (∀ k, ¬(pr.toNat ≤ k ∧ k < pr.toNat + 96) → ¬(s.sp.toNat - 128 ≤ k ∧ k < s.sp.toNat) → s'.mem k = s.mem k) := by
  refine ⟨_, rfl, ?_⟩
  obtain ⟨B, hB, hBlt, hsp⟩ := hstk.base (by decide)
  have hS := hstk.span B.toNat hsp
  have hR := hr.span
  have hA := ha.span
  have k_lt0 : B.toNat < 2 ^ 32 := hS.lt_0 (by decide)
  have k_al0 : (B.toNat) % 4 = 0 := hS.aligned
  have k_rd0 : s.readable (B.toNat) = true := hS.rd_0 (by decide)
  have k_wr0 : s.writable (B.toNat) = true := hS.wr_0 (by decide)
  have k_lt1 : B.toNat + 4 < 2 ^ 32 := hS.lt_k 4 (by decide)
  have k_al1 : (B.toNat + 4) % 4 = 0 := hS.al_k 4 (by decide)
  have k_rd1 : s.readable (B.toNat + 4) = true := hS.rd_k 4 (by decide) (by decide)
  have k_wr1 : s.writable (B.toNat + 4) = true := hS.wr_k 4 (by decide) (by decide)
  have k_lt2 : B.toNat + 8 < 2 ^ 32 := hS.lt_k 8 (by decide)
  have k_al2 : (B.toNat + 8) % 4 = 0 := hS.al_k 8 (by decide)
  have k_rd2 : s.readable (B.toNat + 8) = true := hS.rd_k 8 (by decide) (by decide)
  have k_wr2 : s.writable (B.toNat + 8) = true := hS.wr_k 8 (by decide) (by decide)
  have k_lt3 : B.toNat + 12 < 2 ^ 32 := hS.lt_k 12 (by decide)
  have k_al3 : (B.toNat + 12) % 4 = 0 := hS.al_k 12 (by decide)
  have k_rd3 : s.readable (B.toNat + 12) = true := hS.rd_k 12 (by decide) (by decide)
  have k_wr3 : s.writable (B.toNat + 12) = true := hS.wr_k 12 (by decide) (by decide)
  have k_lt4 : B.toNat + 16 < 2 ^ 32 := hS.lt_k 16 (by decide)
  have k_al4 : (B.toNat + 16) % 4 = 0 := hS.al_k 16 (by decide)
  have k_rd4 : s.readable (B.toNat + 16) = true := hS.rd_k 16 (by decide) (by decide)
  have k_wr4 : s.writable (B.toNat + 16) = true := hS.wr_k 16 (by decide) (by decide)
  have k_lt5 : B.toNat + 20 < 2 ^ 32 := hS.lt_k 20 (by decide)
  have k_al5 : (B.toNat + 20) % 4 = 0 := hS.al_k 20 (by decide)
  have k_rd5 : s.readable (B.toNat + 20) = true := hS.rd_k 20 (by decide) (by decide)
  have k_wr5 : s.writable (B.toNat + 20) = true := hS.wr_k 20 (by decide) (by decide)
  have k_lt6 : B.toNat + 24 < 2 ^ 32 := hS.lt_k 24 (by decide)
  have k_al6 : (B.toNat + 24) % 4 = 0 := hS.al_k 24 (by decide)
  have k_rd6 : s.readable (B.toNat + 24) = true := hS.rd_k 24 (by decide) (by decide)
  have k_wr6 : s.writable (B.toNat + 24) = true := hS.wr_k 24 (by decide) (by decide)
  have k_lt7 : B.toNat + 28 < 2 ^ 32 := hS.lt_k 28 (by decide)
  have k_al7 : (B.toNat + 28) % 4 = 0 := hS.al_k 28 (by decide)
  have k_rd7 : s.readable (B.toNat + 28) = true := hS.rd_k 28 (by decide) (by decide)
  have k_wr7 : s.writable (B.toNat + 28) = true := hS.wr_k 28 (by decide) (by decide)
  have k_lt8 : B.toNat + 32 < 2 ^ 32 := hS.lt_k 32 (by decide)
  have k_al8 : (B.toNat + 32) % 4 = 0 := hS.al_k 32 (by decide)
  have k_rd8 : s.readable (B.toNat + 32) = true := hS.rd_k 32 (by decide) (by decide)
  have k_wr8 : s.writable (B.toNat + 32) = true := hS.wr_k 32 (by decide) (by decide)
  have k_lt9 : B.toNat + 36 < 2 ^ 32 := hS.lt_k 36 (by decide)
  have k_al9 : (B.toNat + 36) % 4 = 0 := hS.al_k 36 (by decide)
  have k_rd9 : s.readable (B.toNat + 36) = true := hS.rd_k 36 (by decide) (by decide)
  have k_wr9 : s.writable (B.toNat + 36) = true := hS.wr_k 36 (by decide) (by decide)
  have k_lt10 : B.toNat + 40 < 2 ^ 32 := hS.lt_k 40 (by decide)
  have k_al10 : (B.toNat + 40) % 4 = 0 := hS.al_k 40 (by decide)
  have k_rd10 : s.readable (B.toNat + 40) = true := hS.rd_k 40 (by decide) (by decide)
  have k_wr10 : s.writable (B.toNat + 40) = true := hS.wr_k 40 (by decide) (by decide)
  have k_lt11 : B.toNat + 44 < 2 ^ 32 := hS.lt_k 44 (by decide)
  have k_al11 : (B.toNat + 44) % 4 = 0 := hS.al_k 44 (by decide)
  have k_rd11 : s.readable (B.toNat + 44) = true := hS.rd_k 44 (by decide) (by decide)
  have k_wr11 : s.writable (B.toNat + 44) = true := hS.wr_k 44 (by decide) (by decide)
  have k_lt12 : B.toNat + 48 < 2 ^ 32 := hS.lt_k 48 (by decide)
  have k_al12 : (B.toNat + 48) % 4 = 0 := hS.al_k 48 (by decide)
  have k_rd12 : s.readable (B.toNat + 48) = true := hS.rd_k 48 (by decide) (by decide)
  have k_wr12 : s.writable (B.toNat + 48) = true := hS.wr_k 48 (by decide) (by decide)
  have k_lt13 : B.toNat + 52 < 2 ^ 32 := hS.lt_k 52 (by decide)
  have k_al13 : (B.toNat + 52) % 4 = 0 := hS.al_k 52 (by decide)
  have k_rd13 : s.readable (B.toNat + 52) = true := hS.rd_k 52 (by decide) (by decide)
  have k_wr13 : s.writable (B.toNat + 52) = true := hS.wr_k 52 (by decide) (by decide)
  have k_lt14 : B.toNat + 56 < 2 ^ 32 := hS.lt_k 56 (by decide)
  have k_al14 : (B.toNat + 56) % 4 = 0 := hS.al_k 56 (by decide)
  have k_rd14 : s.readable (B.toNat + 56) = true := hS.rd_k 56 (by decide) (by decide)
  have k_wr14 : s.writable (B.toNat + 56) = true := hS.wr_k 56 (by decide) (by decide)
  have k_lt15 : B.toNat + 60 < 2 ^ 32 := hS.lt_k 60 (by decide)
  have k_al15 : (B.toNat + 60) % 4 = 0 := hS.al_k 60 (by decide)
  have k_rd15 : s.readable (B.toNat + 60) = true := hS.rd_k 60 (by decide) (by decide)
  have k_wr15 : s.writable (B.toNat + 60) = true := hS.wr_k 60 (by decide) (by decide)
  have k_lt16 : B.toNat + 64 < 2 ^ 32 := hS.lt_k 64 (by decide)
  have k_al16 : (B.toNat + 64) % 4 = 0 := hS.al_k 64 (by decide)
  have k_rd16 : s.readable (B.toNat + 64) = true := hS.rd_k 64 (by decide) (by decide)
  have k_wr16 : s.writable (B.toNat + 64) = true := hS.wr_k 64 (by decide) (by decide)
  have k_lt17 : B.toNat + 68 < 2 ^ 32 := hS.lt_k 68 (by decide)
  have k_al17 : (B.toNat + 68) % 4 = 0 := hS.al_k 68 (by decide)
  have k_rd17 : s.readable (B.toNat + 68) = true := hS.rd_k 68 (by decide) (by decide)
  have k_wr17 : s.writable (B.toNat + 68) = true := hS.wr_k 68 (by decide) (by decide)
  have k_lt18 : B.toNat + 72 < 2 ^ 32 := hS.lt_k 72 (by decide)
  have k_al18 : (B.toNat + 72) % 4 = 0 := hS.al_k 72 (by decide)
  have k_rd18 : s.readable (B.toNat + 72) = true := hS.rd_k 72 (by decide) (by decide)
  have k_wr18 : s.writable (B.toNat + 72) = true := hS.wr_k 72 (by decide) (by decide)
  have k_lt19 : B.toNat + 76 < 2 ^ 32 := hS.lt_k 76 (by decide)
  have k_al19 : (B.toNat + 76) % 4 = 0 := hS.al_k 76 (by decide)
  have k_rd19 : s.readable (B.toNat + 76) = true := hS.rd_k 76 (by decide) (by decide)
  have k_wr19 : s.writable (B.toNat + 76) = true := hS.wr_k 76 (by decide) (by decide)
  have k_lt20 : B.toNat + 80 < 2 ^ 32 := hS.lt_k 80 (by decide)
  have k_al20 : (B.toNat + 80) % 4 = 0 := hS.al_k 80 (by decide)
  have k_rd20 : s.readable (B.toNat + 80) = true := hS.rd_k 80 (by decide) (by decide)
  have k_wr20 : s.writable (B.toNat + 80) = true := hS.wr_k 80 (by decide) (by decide)
  have k_lt21 : B.toNat + 84 < 2 ^ 32 := hS.lt_k 84 (by decide)
  have k_al21 : (B.toNat + 84) % 4 = 0 := hS.al_k 84 (by decide)
  have k_rd21 : s.readable (B.toNat + 84) = true := hS.rd_k 84 (by decide) (by decide)
  have k_wr21 : s.writable (B.toNat + 84) = true := hS.wr_k 84 (by decide) (by decide)
  have k_lt22 : B.toNat + 88 < 2 ^ 32 := hS.lt_k 88 (by decide)
  have k_al22 : (B.toNat + 88) % 4 = 0 := hS.al_k 88 (by decide)
  have k_rd22 : s.readable (B.toNat + 88) = true := hS.rd_k 88 (by decide) (by decide)
  have k_wr22 : s.writable (B.toNat + 88) = true := hS.wr_k 88 (by decide) (by decide)
  have k_lt23 : B.toNat + 92 < 2 ^ 32 := hS.lt_k 92 (by decide)
  have k_al23 : (B.toNat + 92) % 4 = 0 := hS.al_k 92 (by decide)
  have k_rd23 : s.readable (B.toNat + 92) = true := hS.rd_k 92 (by decide) (by decide)
  have k_wr23 : s.writable (B.toNat + 92) = true := hS.wr_k 92 (by decide) (by decide)
  have k_lt24 : B.toNat + 96 < 2 ^ 32 := hS.lt_k 96 (by decide)
  have k_al24 : (B.toNat + 96) % 4 = 0 := hS.al_k 96 (by decide)
  have k_rd24 : s.readable (B.toNat + 96) = true := hS.rd_k 96 (by decide) (by decide)
  have k_wr24 : s.writable (B.toNat + 96) = true := hS.wr_k 96 (by decide) (by decide)
  have k_lt25 : B.toNat + 100 < 2 ^ 32 := hS.lt_k 100 (by decide)
  have k_al25 : (B.toNat + 100) % 4 = 0 := hS.al_k 100 (by decide)
  have k_rd25 : s.readable (B.toNat + 100) = true := hS.rd_k 100 (by decide) (by decide)
  have k_wr25 : s.writable (B.toNat + 100) = true := hS.wr_k 100 (by decide) (by decide)
  have k_lt26 : B.toNat + 104 < 2 ^ 32 := hS.lt_k 104 (by decide)
  have k_al26 : (B.toNat + 104) % 4 = 0 := hS.al_k 104 (by decide)
  have k_rd26 : s.readable (B.toNat + 104) = true := hS.rd_k 104 (by decide) (by decide)
  have k_wr26 : s.writable (B.toNat + 104) = true := hS.wr_k 104 (by decide) (by decide)
  have k_lt27 : B.toNat + 108 < 2 ^ 32 := hS.lt_k 108 (by decide)
  have k_al27 : (B.toNat + 108) % 4 = 0 := hS.al_k 108 (by decide)
  have k_rd27 : s.readable (B.toNat + 108) = true := hS.rd_k 108 (by decide) (by decide)
  have k_wr27 : s.writable (B.toNat + 108) = true := hS.wr_k 108 (by decide) (by decide)
  have k_lt28 : B.toNat + 112 < 2 ^ 32 := hS.lt_k 112 (by decide)
  have k_al28 : (B.toNat + 112) % 4 = 0 := hS.al_k 112 (by decide)
  have k_rd28 : s.readable (B.toNat + 112) = true := hS.rd_k 112 (by decide) (by decide)
  have k_wr28 : s.writable (B.toNat + 112) = true := hS.wr_k 112 (by decide) (by decide)
  have k_lt29 : B.toNat + 116 < 2 ^ 32 := hS.lt_k 116 (by decide)
  have k_al29 : (B.toNat + 116) % 4 = 0 := hS.al_k 116 (by decide)
  have k_rd29 : s.readable (B.toNat + 116) = true := hS.rd_k 116 (by decide) (by decide)
  have k_wr29 : s.writable (B.toNat + 116) = true := hS.wr_k 116 (by decide) (by decide)
  have k_lt30 : B.toNat + 120 < 2 ^ 32 := hS.lt_k 120 (by decide)
  have k_al30 : (B.toNat + 120) % 4 = 0 := hS.al_k 120 (by decide)
  have k_rd30 : s.readable (B.toNat + 120) = true := hS.rd_k 120 (by decide) (by decide)
  have k_wr30 : s.writable (B.toNat + 120) = true := hS.wr_k 120 (by decide) (by decide)
  have k_lt31 : B.toNat + 124 < 2 ^ 32 := hS.lt_k 124 (by decide)
  have k_al31 : (B.toNat + 124) % 4 = 0 := hS.al_k 124 (by decide)
  have k_rd31 : s.readable (B.toNat + 124) = true := hS.rd_k 124 (by decide) (by decide)
  have k_wr31 : s.writable (B.toNat + 124) = true := hS.wr_k 124 (by decide) (by decide)
  have q_lt0 : pr.toNat < 2 ^ 32 := hR.lt_0 (by decide)
  have q_al0 : (pr.toNat) % 4 = 0 := hR.aligned
  have q_wr0 : s.writable (pr.toNat) = true := hR.wr_0 (by decide)
  have q_lt1 : pr.toNat + 4 < 2 ^ 32 := hR.lt_k 4 (by decide)
  have q_al1 : (pr.toNat + 4) % 4 = 0 := hR.al_k 4 (by decide)
  have q_wr1 : s.writable (pr.toNat + 4) = true := hR.wr_k 4 (by decide) (by decide)
  have q_lt2 : pr.toNat + 8 < 2 ^ 32 := hR.lt_k 8 (by decide)
  have q_al2 : (pr.toNat + 8) % 4 = 0 := hR.al_k 8 (by decide)
  have q_wr2 : s.writable (pr.toNat + 8) = true := hR.wr_k 8 (by decide) (by decide)
  have q_lt3 : pr.toNat + 12 < 2 ^ 32 := hR.lt_k 12 (by decide)
  have q_al3 : (pr.toNat + 12) % 4 = 0 := hR.al_k 12 (by decide)
  have q_wr3 : s.writable (pr.toNat + 12) = true := hR.wr_k 12 (by decide) (by decide)
  have q_lt4 : pr.toNat + 16 < 2 ^ 32 := hR.lt_k 16 (by decide)
  have q_al4 : (pr.toNat + 16) % 4 = 0 := hR.al_k 16 (by decide)
  have q_wr4 : s.writable (pr.toNat + 16) = true := hR.wr_k 16 (by decide) (by decide)
  have q_lt5 : pr.toNat + 20 < 2 ^ 32 := hR.lt_k 20 (by decide)
  have q_al5 : (pr.toNat + 20) % 4 = 0 := hR.al_k 20 (by decide)
  have q_wr5 : s.writable (pr.toNat + 20) = true := hR.wr_k 20 (by decide) (by decide)
  have q_lt6 : pr.toNat + 24 < 2 ^ 32 := hR.lt_k 24 (by decide)
  have q_al6 : (pr.toNat + 24) % 4 = 0 := hR.al_k 24 (by decide)
  have q_wr6 : s.writable (pr.toNat + 24) = true := hR.wr_k 24 (by decide) (by decide)
  have q_lt7 : pr.toNat + 28 < 2 ^ 32 := hR.lt_k 28 (by decide)
  have q_al7 : (pr.toNat + 28) % 4 = 0 := hR.al_k 28 (by decide)
  have q_wr7 : s.writable (pr.toNat + 28) = true := hR.wr_k 28 (by decide) (by decide)
  have q_lt8 : pr.toNat + 32 < 2 ^ 32 := hR.lt_k 32 (by decide)
  have q_al8 : (pr.toNat + 32) % 4 = 0 := hR.al_k 32 (by decide)
  have q_wr8 : s.writable (pr.toNat + 32) = true := hR.wr_k 32 (by decide) (by decide)
  have q_lt9 : pr.toNat + 36 < 2 ^ 32 := hR.lt_k 36 (by decide)
  have q_al9 : (pr.toNat + 36) % 4 = 0 := hR.al_k 36 (by decide)
  have q_wr9 : s.writable (pr.toNat + 36) = true := hR.wr_k 36 (by decide) (by decide)
  have q_lt10 : pr.toNat + 40 < 2 ^ 32 := hR.lt_k 40 (by decide)
  have q_al10 : (pr.toNat + 40) % 4 = 0 := hR.al_k 40 (by decide)
  have q_wr10 : s.writable (pr.toNat + 40) = true := hR.wr_k 40 (by decide) (by decide)
  have q_lt11 : pr.toNat + 44 < 2 ^ 32 := hR.lt_k 44 (by decide)
  have q_al11 : (pr.toNat + 44) % 4 = 0 := hR.al_k 44 (by decide)
  have q_wr11 : s.writable (pr.toNat + 44) = true := hR.wr_k 44 (by decide) (by decide)
  have q_lt12 : pr.toNat + 48 < 2 ^ 32 := hR.lt_k 48 (by decide)
  have q_al12 : (pr.toNat + 48) % 4 = 0 := hR.al_k 48 (by decide)
  have q_wr12 : s.writable (pr.toNat + 48) = true := hR.wr_k 48 (by decide) (by decide)
  have q_lt13 : pr.toNat + 52 < 2 ^ 32 := hR.lt_k 52 (by decide)
  have q_al13 : (pr.toNat + 52) % 4 = 0 := hR.al_k 52 (by decide)
  have q_wr13 : s.writable (pr.toNat + 52) = true := hR.wr_k 52 (by decide) (by decide)
  have q_lt14 : pr.toNat + 56 < 2 ^ 32 := hR.lt_k 56 (by decide)
  have q_al14 : (pr.toNat + 56) % 4 = 0 := hR.al_k 56 (by decide)
  have q_wr14 : s.writable (pr.toNat + 56) = true := hR.wr_k 56 (by decide) (by decide)
  have q_lt15 : pr.toNat + 60 < 2 ^ 32 := hR.lt_k 60 (by decide)
  have q_al15 : (pr.toNat + 60) % 4 = 0 := hR.al_k 60 (by decide)
  have q_wr15 : s.writable (pr.toNat + 60) = true := hR.wr_k 60 (by decide) (by decide)
  have q_lt16 : pr.toNat + 64 < 2 ^ 32 := hR.lt_k 64 (by decide)
  have q_al16 : (pr.toNat + 64) % 4 = 0 := hR.al_k 64 (by decide)
  have q_wr16 : s.writable (pr.toNat + 64) = true := hR.wr_k 64 (by decide) (by decide)
  have q_lt17 : pr.toNat + 68 < 2 ^ 32 := hR.lt_k 68 (by decide)
  have q_al17 : (pr.toNat + 68) % 4 = 0 := hR.al_k 68 (by decide)
  have q_wr17 : s.writable (pr.toNat + 68) = true := hR.wr_k 68 (by decide) (by decide)
  have q_lt18 : pr.toNat + 72 < 2 ^ 32 := hR.lt_k 72 (by decide)
  have q_al18 : (pr.toNat + 72) % 4 = 0 := hR.al_k 72 (by decide)
  have q_wr18 : s.writable (pr.toNat + 72) = true := hR.wr_k 72 (by decide) (by decide)
  have q_lt19 : pr.toNat + 76 < 2 ^ 32 := hR.lt_k 76 (by decide)
  have q_al19 : (pr.toNat + 76) % 4 = 0 := hR.al_k 76 (by decide)
  have q_wr19 : s.writable (pr.toNat + 76) = true := hR.wr_k 76 (by decide) (by decide)
  have q_lt20 : pr.toNat + 80 < 2 ^ 32 := hR.lt_k 80 (by decide)
  have q_al20 : (pr.toNat + 80) % 4 = 0 := hR.al_k 80 (by decide)
  have q_wr20 : s.writable (pr.toNat + 80) = true := hR.wr_k 80 (by decide) (by decide)
  have q_lt21 : pr.toNat + 84 < 2 ^ 32 := hR.lt_k 84 (by decide)
  have q_al21 : (pr.toNat + 84) % 4 = 0 := hR.al_k 84 (by decide)
  have q_wr21 : s.writable (pr.toNat + 84) = true := hR.wr_k 84 (by decide) (by decide)
  have q_lt22 : pr.toNat + 88 < 2 ^ 32 := hR.lt_k 88 (by decide)
  have q_al22 : (pr.toNat + 88) % 4 = 0 := hR.al_k 88 (by decide)
  have q_wr22 : s.writable (pr.toNat + 88) = true := hR.wr_k 88 (by decide) (by decide)
  have q_lt23 : pr.toNat + 92 < 2 ^ 32 := hR.lt_k 92 (by decide)
  have q_al23 : (pr.toNat + 92) % 4 = 0 := hR.al_k 92 (by decide)
  have q_wr23 : s.writable (pr.toNat + 92) = true := hR.wr_k 92 (by decide) (by decide)
  simp only [OffStack] at hrs has
  have hrs' : pr.toNat + 96 ≤ B.toNat ∨ B.toNat + 128 ≤ pr.toNat := by clear * - hrs hsp; omega
  have has' : pa.toNat + 48 ≤ B.toNat ∨ B.toNat + 128 ≤ pa.toNat := by clear * - has hsp; omega
  have hda : pa.toNat + 48 ≤ B.toNat ∨ B.toNat + 96 ≤ pa.toNat := by clear * - has'; omega
  have hT : Span s.readable s.writable B.toNat 24 true := hS.sub 0 24 (by decide)
  clear hrs has hr ha hstk
  replace hrs' := Hide.mk hrs'
  generalize hfin : run embedded_pairing_core_arch_armv6_m_bigint_768_square s 1925 = s'
  rw [run_bigint_768_square s hpc, State.eta s] at hfin
  simp only [Code.bigint_768_square, runL_append, hst, h0, h1, hB] at hfin
  generalize hst1 : runL [Instr.push [.r4, .r5, .r6, .r7] false, Instr.movHi .r4 .r8, Instr.movHi .r5 .r9, Instr.movHi .r6 .r10, Instr.movHi .r7 .r11, Instr.push [.r4, .r5, .r6, .r7] false, Instr.movHi .r8 .r0, Instr.movHi .r9 .r1, Instr.decSp 96] _ = st1 at hfin
  generalize hst2 : runL Code.square768part1 st1 = st2 at hfin
  generalize hst3 : runL Code.square768part2 st2 = st3 at hfin
  generalize hst4 : runL [Instr.movHi .r1 .r9] st3 = st4 at hfin
  generalize hst5 : runL Code.square768part3 st4 = st5 at hfin
  t1m_sym [] at hst1
  subst hst1
  obtain ⟨y0, y2, y3, y4, y5, y6, y7, n1, z1, c1, v1, m1, e1, f1, w1⟩ := square768part1_run' hst2 rfl hA hT hda
  subst e1
  simp only [] at f1 w1 hst3
  obtain ⟨u0, u1, u2, u3, u4, u5, u6, u7, n2, z2, c2, v2, m2, e2, f2, w2⟩ := sqPart2_run' hst3 rfl hT
  subst e2
  simp only [] at f2 w2 hst4
  t1m_sym [] at hst4
  subst hst4
  obtain ⟨g0, g2, g4, g5, g6, g7, n3, z3, c3, v3, m3, e3, f3, b3, w3⟩ := square768part3_run' hst5 rfl hA hT hda
  subst e3
  simp only [] at f3 w3 hfin
  have sv96 : m3 (B.toNat + 96) = s.r8 := by
    rw [f3 _ (by clear * -; omega), f2 _ (by clear * -; omega), f1 _ (by clear * -; omega)]; simp (disch := (clear * -; omega)) only [setMem_eq, setMem_ne]
  have sv100 : m3 (B.toNat + 100) = s.r9 := by
    rw [f3 _ (by clear * -; omega), f2 _ (by clear * -; omega), f1 _ (by clear * -; omega)]; simp (disch := (clear * -; omega)) only [setMem_eq, setMem_ne]
  have sv104 : m3 (B.toNat + 104) = s.r10 := by
    rw [f3 _ (by clear * -; omega), f2 _ (by clear * -; omega), f1 _ (by clear * -; omega)]; simp (disch := (clear * -; omega)) only [setMem_eq, setMem_ne]
  have sv108 : m3 (B.toNat + 108) = s.r11 := by
    rw [f3 _ (by clear * -; omega), f2 _ (by clear * -; omega), f1 _ (by clear * -; omega)]; simp (disch := (clear * -; omega)) only [setMem_eq, setMem_ne]
  have sv112 : m3 (B.toNat + 112) = s.r4 := by
    rw [f3 _ (by clear * -; omega), f2 _ (by clear * -; omega), f1 _ (by clear * -; omega)]; simp (disch := (clear * -; omega)) only [setMem_eq, setMem_ne]
  have sv116 : m3 (B.toNat + 116) = s.r5 := by
    rw [f3 _ (by clear * -; omega), f2 _ (by clear * -; omega), f1 _ (by clear * -; omega)]; simp (disch := (clear * -; omega)) only [setMem_eq, setMem_ne]
  have sv120 : m3 (B.toNat + 120) = s.r6 := by
    rw [f3 _ (by clear * -; omega), f2 _ (by clear * -; omega), f1 _ (by clear * -; omega)]; simp (disch := (clear * -; omega)) only [setMem_eq, setMem_ne]
  have sv124 : m3 (B.toNat + 124) = s.r7 := by
    rw [f3 _ (by clear * -; omega), f2 _ (by clear * -; omega), f1 _ (by clear * -; omega)]; simp (disch := (clear * -; omega)) only [setMem_eq, setMem_ne]
  t1m_sym [Code.copy24, Code.copy6, Code.restoreRegs, sv96, sv100, sv104, sv108, sv112, sv116, sv120, sv124, hlr] at hfin
  subst hfin
  refine ⟨⟨rfl, rfl, hB.symm, rfl, rfl, rfl, rfl, rfl, rfl, rfl, rfl⟩, ?_, ?_⟩
  · simp only [limbs32_24, nat_add_add, Nat.reduceAdd, Nat.add_zero]
    simp (disch := (clear * -; omega)) only [setMem_eq, setMem_ne]
    rw [limbs32_congr s.mem _ pa.toNat 12 (fun i hi => by simp (disch := (clear * - hi has'; omega)) only [setMem_ne])] at w1
    rw [limbs32_congr s.mem m2 pa.toNat 12 (fun i hi => by rw [f2 _ (by clear * - hi hda; omega), f1 _ (by clear * - hi hda; omega)]; simp (disch := (clear * - hi has'; omega)) only [setMem_ne])] at w3
    have fin := square_nocarry _ _ _ (square_finish _ _ _ _ _ _ w1 w2 w3 (limbs32_lt12 _ _)) (limbs32_lt12 _ _)
    simp only [limbs32_24, Nat.add_zero] at fin
    exact fin
  · intro k hk1 hk2
    simp only []
    simp (disch := (clear * - hk1; omega)) only [setMem_ne]
    rw [f3 _ (by clear * - hk2 hsp; omega), f2 _ (by clear * - hk2 hsp; omega), f1 _ (by clear * - hk2 hsp; omega)]
    simp (disch := (clear * - hk2 hsp; omega)) only [setMem_ne]

end Jedi.Thumb1
