/-
C04/C07 — Granger–Scott cyclotomic squaring and the "easy part" map into the cyclotomic subgroup.

Write an element of Q12 = Q2[w]/(w⁶ − ξ) as  a = g0 + g1·w + g2·w²  over the quadratic sub-extension
Q4 = Q2[s]/(s² − ξ), s = w³:
    g0 = a.c0.c0 + a.c1.c1·s,   g1 = a.c1.c0 + a.c0.c2·s,   g2 = a.c0.c1 + a.c1.c2·s.
`adj4 a` is the adjugate of `a` for the cubic extension Q12/Q4 (the product of the two other conjugates of
`a` over Q4; it is a polynomial map with integer coefficients, defined over every commutative ring):
    adj4 a = (g0² − s·g1·g2) + (s·g2² − g0·g1)·w + (g1² − g0·g2)·w².
The Granger–Scott condition is `adj4 a = conj a` (`IsCyclotomic`); over Fq12 it says a^(q⁴) · a^(q⁸) = a^(q⁶),
i.e. a = 0 or a^(q⁴ − q² + 1) = 1.  The generated `Fq12.square_cyclotomic` satisfies, for EVERY a,
    square_cyclotomic a = a·a + 2·(adj4 a − conj a),
so it is the square exactly on `IsCyclotomic` elements (in every ring where 2 is cancellable).

Contents (R any commutative ring unless said otherwise):
* `square_cyclotomic_general`, `square_cyclotomic_eq`, `square_cyclotomic_eq_iff` (weakest hypothesis), `_oa` variant;
* `IsCyclotomic` is a submonoid closed under `conj`, `w ↦ h·w` (h⁶ = 1) and every table-driven Frobenius map
  (`isCyclotomic_one`, `IsCyclotomic.mul/.pow/.conj/.twist/.frobenius_map`); invertible members have inverse `conj`
  (`IsCyclotomic.mul_conj_eq_one`);
* meaning: for a primitive 6th root of unity `h`, `IsCyclotomic a ↔ a · a^(σ²) = a^σ` (`isCyclotomic_iff_twist`), hence
  `a^(n⁴+1) = a^(n²)` ⇒ `IsCyclotomic a` when the q²-Frobenius is the n²-th power (`isCyclotomic_of_pow`);
* `isCyclotomic_map_to_cyclotomic`: every output of the generated `map_to_cyclotomic` on an invertible input is
  `IsCyclotomic` (table facts `FrobTwoFacts`, closed facts for the concrete tables: `frobTwoFacts_Fq`);
* `map_to_cyclotomic_eq` (+ `_mul_pow`, `_eq'`, `_eq_zpow`): `map_to_cyclotomic a = a^((n⁶−1)(n²+1))`;
* non-vacuity: kernel-evaluated examples over the concrete Fq12 (`generator_pairing`) and over a toy tower on F₁₉.
The `linear_combination` certificates were computed with sympy (polynomial division by the hypothesis polynomial).
-/
import JediVerif.Gen.TowerThms
import JediVerif.Proofs.LawfulFrob
import Mathlib.Tactic.Ring
import Mathlib.Tactic.LinearCombination
import Mathlib.Algebra.Group.Units.Basic
import Mathlib.Data.ZMod.Defs
import JediVerif.Impl.ConstsFq
import JediVerif.Proofs.Pow

set_option linter.unusedSimpArgs false
set_option linter.unnecessarySeqFocus false

namespace Jedi.Cyclotomic
open Jedi Jedi.Gen

section Generic
variable {R : Type} [CommRing R]

theorem conj_c0 (a : Q12 R) : (Q12.conj a).c0 = a.c0 := rfl
theorem conj_c1 (a : Q12 R) : (Q12.conj a).c1 = -a.c1 := rfl
attribute [local simp] conj_c0 conj_c1

/-- The adjugate of `a` for the cubic extension Q12/Q4 (see the header), in Q2-coordinates. -/
def adj4 (a : Q12 R) : Q12 R :=
  ⟨⟨a.c0.c0 * a.c0.c0 + Q2.xi * (a.c1.c1 * a.c1.c1) - Q2.xi * (a.c1.c0 * a.c1.c2 + a.c0.c2 * a.c0.c1),
    a.c1.c0 * a.c1.c0 + Q2.xi * (a.c0.c2 * a.c0.c2) - a.c0.c0 * a.c0.c1 - Q2.xi * (a.c1.c1 * a.c1.c2),
    a.c0.c1 * a.c0.c1 + Q2.xi * (a.c1.c2 * a.c1.c2) - a.c0.c0 * a.c0.c2 - a.c1.c1 * a.c1.c0⟩,
   ⟨Q2.xi * (a.c0.c1 * a.c1.c2 + a.c0.c1 * a.c1.c2) - a.c0.c0 * a.c1.c0 - Q2.xi * (a.c1.c1 * a.c0.c2),
    (a.c0.c0 * a.c1.c1 + a.c0.c0 * a.c1.c1) - a.c1.c0 * a.c0.c1 - Q2.xi * (a.c0.c2 * a.c1.c2),
    (a.c1.c0 * a.c0.c2 + a.c1.c0 * a.c0.c2) - a.c0.c0 * a.c1.c2 - a.c1.c1 * a.c0.c1⟩⟩

/-- The Granger–Scott equations, coordinate by coordinate (`adj4 a = conj a`). -/
structure IsCyclotomic (a : Q12 R) : Prop where
  e00 : a.c0.c0 * a.c0.c0 + Q2.xi * (a.c1.c1 * a.c1.c1) - Q2.xi * (a.c1.c0 * a.c1.c2 + a.c0.c2 * a.c0.c1) = a.c0.c0
  e01 : a.c1.c0 * a.c1.c0 + Q2.xi * (a.c0.c2 * a.c0.c2) - a.c0.c0 * a.c0.c1 - Q2.xi * (a.c1.c1 * a.c1.c2) = a.c0.c1
  e02 : a.c0.c1 * a.c0.c1 + Q2.xi * (a.c1.c2 * a.c1.c2) - a.c0.c0 * a.c0.c2 - a.c1.c1 * a.c1.c0 = a.c0.c2
  e10 : Q2.xi * (a.c0.c1 * a.c1.c2 + a.c0.c1 * a.c1.c2) - a.c0.c0 * a.c1.c0 - Q2.xi * (a.c1.c1 * a.c0.c2) = -a.c1.c0
  e11 : (a.c0.c0 * a.c1.c1 + a.c0.c0 * a.c1.c1) - a.c1.c0 * a.c0.c1 - Q2.xi * (a.c0.c2 * a.c1.c2) = -a.c1.c1
  e12 : (a.c1.c0 * a.c0.c2 + a.c1.c0 * a.c0.c2) - a.c0.c0 * a.c1.c2 - a.c1.c1 * a.c0.c1 = -a.c1.c2

theorem isCyclotomic_iff_adj4 (a : Q12 R) : IsCyclotomic a ↔ adj4 a = Q12.conj a := by
  constructor
  · intro h
    ext1 <;> ext1
    · exact h.e00
    · exact h.e01
    · exact h.e02
    · exact h.e10
    · exact h.e11
    · exact h.e12
  · intro h
    have h0 := congrArg Q12.c0 h
    have h1 := congrArg Q12.c1 h
    exact ⟨congrArg Q6.c0 h0, congrArg Q6.c1 h0, congrArg Q6.c2 h0,
           congrArg Q6.c0 h1, congrArg Q6.c1 h1, congrArg Q6.c2 h1⟩

/-- The generated Granger–Scott squaring, for EVERY input: the ordinary square plus twice the defect
`adj4 a − conj a`. -/
instance [DecidableEq R] (a : Q12 R) : Decidable (IsCyclotomic a) :=
  decidable_of_iff _ (isCyclotomic_iff_adj4 a).symm

theorem square_cyclotomic_general (a : Q12 R) :
    Fq12.square_cyclotomic a = a * a + ((adj4 a - Q12.conj a) + (adj4 a - Q12.conj a)) := by
  simp only [Fq12.square_cyclotomic, tower_spec, Q2.mulXi_eq]
  ext1 <;> ext1 <;> simp [adj4] <;> ring

/-- **Cyclotomic squaring is squaring** on every element satisfying the Granger–Scott equations
(any commutative ring of coefficients). -/
theorem square_cyclotomic_eq (a : Q12 R) (h : IsCyclotomic a) : Fq12.square_cyclotomic a = a * a := by
  rw [square_cyclotomic_general, (isCyclotomic_iff_adj4 a).1 h]; simp

/-- … and only there: when 2 is cancellable in `R` (e.g. a field of characteristic ≠ 2), `IsCyclotomic` is
exactly the set on which the fast squaring is correct, so the hypothesis of `square_cyclotomic_eq` is the weakest possible. -/
theorem square_cyclotomic_eq_iff (h2 : ∀ x : R, x + x = 0 → x = 0) (a : Q12 R) :
    Fq12.square_cyclotomic a = a * a ↔ IsCyclotomic a := by
  refine ⟨fun h => ?_, square_cyclotomic_eq a⟩
  rw [square_cyclotomic_general] at h
  have hd : (adj4 a - Q12.conj a) + (adj4 a - Q12.conj a) = 0 := by
    have := congrArg (fun x => x - a * a) h
    simpa using this
  have h2' : ∀ x : Q2 R, x + x = 0 → x = 0 := fun x hx => by
    ext
    · exact h2 _ (by simpa using congrArg Q2.c0 hx)
    · exact h2 _ (by simpa using congrArg Q2.c1 hx)
  have key : adj4 a - Q12.conj a = 0 := by
    have h0 := congrArg Q12.c0 hd
    have h1 := congrArg Q12.c1 hd
    ext1 <;> ext1
    · exact h2' _ (by simpa using congrArg Q6.c0 h0)
    · exact h2' _ (by simpa using congrArg Q6.c1 h0)
    · exact h2' _ (by simpa using congrArg Q6.c2 h0)
    · exact h2' _ (by simpa using congrArg Q6.c0 h1)
    · exact h2' _ (by simpa using congrArg Q6.c1 h1)
    · exact h2' _ (by simpa using congrArg Q6.c2 h1)
  exact (isCyclotomic_iff_adj4 a).2 (sub_eq_zero.1 key)

theorem square_cyclotomic_oa_eq (a : Q12 R) (h : IsCyclotomic a) : Fq12.square_cyclotomic_oa a = a * a := by
  rw [Fq12.square_cyclotomic_oa_alias, square_cyclotomic_eq a h]

/-! ### `IsCyclotomic` is a submonoid -/

theorem conj_mul (a b : Q12 R) : Q12.conj (a * b) = Q12.conj a * Q12.conj b := by
  ext1 <;> simp <;> ring
theorem conj_one : Q12.conj (1 : Q12 R) = 1 := by
  ext1 <;> simp
theorem conj_conj (a : Q12 R) : Q12.conj (Q12.conj a) = a := by
  ext1 <;> simp

/-- the adjugate is multiplicative (a polynomial identity). -/
theorem adj4_mul (a b : Q12 R) : adj4 (a * b) = adj4 a * adj4 b := by
  ext1 <;> ext1 <;> simp [adj4] <;> ring
theorem adj4_one : adj4 (1 : Q12 R) = 1 := by
  ext1 <;> ext1 <;> simp [adj4]

theorem isCyclotomic_one : IsCyclotomic (1 : Q12 R) := by
  rw [isCyclotomic_iff_adj4, adj4_one, conj_one]

theorem IsCyclotomic.mul {a b : Q12 R} (ha : IsCyclotomic a) (hb : IsCyclotomic b) : IsCyclotomic (a * b) := by
  rw [isCyclotomic_iff_adj4] at *
  rw [adj4_mul, conj_mul, ha, hb]

theorem IsCyclotomic.pow {a : Q12 R} (ha : IsCyclotomic a) (n : Nat) : IsCyclotomic (a ^ n) := by
  induction n with
  | zero => simpa using isCyclotomic_one
  | succ n ih => rw [pow_succ]; exact ih.mul ha

theorem conj_adj4 (a : Q12 R) : Q12.conj (adj4 a) = adj4 (Q12.conj a) := by
  ext1 <;> ext1 <;> simp [adj4] <;> ring

theorem IsCyclotomic.conj {a : Q12 R} (ha : IsCyclotomic a) : IsCyclotomic (Q12.conj a) := by
  rw [isCyclotomic_iff_adj4] at *
  rw [← conj_adj4, ha]

/-! ### Invertible `IsCyclotomic` elements have relative norm 1: the inverse is `conj` -/

/-- for `a` satisfying the Granger–Scott equations, `N = a · conj a` is an idempotent (it lies in Q2 = Q4 ∩ Q6 and
`adj4 N = N²`, while multiplicativity gives `adj4 N = N`); so `N = 1` as soon as `a` is invertible and `N = 0` for `a = 0`. -/
theorem IsCyclotomic.mul_conj_idem {a : Q12 R} (ha : IsCyclotomic a) :
    (a * Q12.conj a) * (a * Q12.conj a) = a * Q12.conj a := by
  have ha' := (isCyclotomic_iff_adj4 a).1 ha
  have hc1 : (a * Q12.conj a).c1 = 0 := by ext1 <;> simp <;> ring
  have h01 : (a * adj4 a).c0.c1 = 0 := by simp [adj4]; ring
  have h02 : (a * adj4 a).c0.c2 = 0 := by simp [adj4]; ring
  rw [ha'] at h01 h02
  have hN : a * Q12.conj a = ⟨⟨(a * Q12.conj a).c0.c0, 0, 0⟩, 0⟩ := by
    ext1
    · ext1
      · rfl
      · exact h01
      · exact h02
    · exact hc1
  have hadj : adj4 (a * Q12.conj a) = a * Q12.conj a := by
    rw [adj4_mul, ← conj_adj4, ha', conj_conj, mul_comm]
  have hsq : ∀ n : Q2 R, adj4 (⟨⟨n, 0, 0⟩, 0⟩ : Q12 R) = (⟨⟨n, 0, 0⟩, 0⟩ : Q12 R) * ⟨⟨n, 0, 0⟩, 0⟩ := by
    intro n; ext1 <;> ext1 <;> simp [adj4]
  rw [hN, ← hsq, ← hN, hadj]

/-- **on invertible `IsCyclotomic` elements the inverse is the conjugate** (the library's GT inversion). -/
theorem IsCyclotomic.mul_conj_eq_one {a b : Q12 R} (ha : IsCyclotomic a) (hab : a * b = 1) :
    a * Q12.conj a = 1 := by
  have hu : (a * Q12.conj a) * (b * Q12.conj b) = 1 := by
    calc (a * Q12.conj a) * (b * Q12.conj b) = (a * b) * Q12.conj (a * b) := by rw [conj_mul]; ring
      _ = 1 := by rw [hab, conj_one, mul_one]
  calc a * Q12.conj a = (a * Q12.conj a) * ((a * Q12.conj a) * (b * Q12.conj b)) := by rw [hu, mul_one]
    _ = ((a * Q12.conj a) * (a * Q12.conj a)) * (b * Q12.conj b) := by ring
    _ = 1 := by rw [ha.mul_conj_idem, hu]

/-! ### The substitution `w ↦ h·w`

For `h : Q2 R` with `h⁶ = 1` the substitution `w ↦ h·w` is a ring endomorphism of `Q12 R = Q2 R[w]/(w⁶ − ξ)`.
With the library's tables, `Fq12.frobenius_map · 2` is this map for `h = fq12_frobenius_coeff_c1[2]`, a primitive
6th root of unity (`h² − h + 1 = 0`). -/

/-- `w ↦ h·w`. -/
def twist (h : Q2 R) (a : Q12 R) : Q12 R :=
  ⟨⟨a.c0.c0, h ^ 2 * a.c0.c1, h ^ 4 * a.c0.c2⟩, ⟨h * a.c1.c0, h ^ 3 * a.c1.c1, h ^ 5 * a.c1.c2⟩⟩

theorem twist_mul {h : Q2 R} (h6 : h ^ 6 = 1) (a b : Q12 R) : twist h (a * b) = twist h a * twist h b := by
  ext1 <;> ext1 <;> simp [twist]
  · linear_combination (-Q2.xi*(a.c1.c0*b.c1.c2 + a.c0.c1*b.c0.c2 + a.c1.c1*b.c1.c1 + a.c0.c2*b.c0.c1 + a.c1.c2*b.c1.c0)) * h6
  · linear_combination (-h^2*Q2.xi*(a.c1.c1*b.c1.c2 + a.c0.c2*b.c0.c2 + a.c1.c2*b.c1.c1)) * h6
  · linear_combination (-a.c1.c2*b.c1.c2*h^4*Q2.xi) * h6
  · linear_combination (-h*Q2.xi*(a.c0.c1*b.c1.c2 + a.c1.c1*b.c0.c2 + a.c0.c2*b.c1.c1 + a.c1.c2*b.c0.c1)) * h6
  · linear_combination (-h^3*Q2.xi*(a.c0.c2*b.c1.c2 + a.c1.c2*b.c0.c2)) * h6
  · ring

theorem twist_one (h : Q2 R) : twist h (1 : Q12 R) = 1 := by
  ext1 <;> ext1 <;> simp [twist]

theorem twist_twist (h k : Q2 R) (a : Q12 R) : twist h (twist k a) = twist (h * k) a := by
  ext1 <;> ext1 <;> simp [twist] <;> ring

theorem twist_one_left (a : Q12 R) : twist 1 a = a := by
  ext1 <;> ext1 <;> simp [twist]

theorem twist_neg_one (a : Q12 R) : twist (-1) a = Q12.conj a := by
  ext1 <;> ext1 <;> simp [twist] <;> ring

theorem conj_twist (h : Q2 R) (a : Q12 R) : Q12.conj (twist h a) = twist h (Q12.conj a) := by
  ext1 <;> ext1 <;> simp [twist]

/-- the adjugate commutes with `w ↦ h·w`. -/
theorem adj4_twist {h : Q2 R} (h6 : h ^ 6 = 1) (a : Q12 R) : adj4 (twist h a) = twist h (adj4 a) := by
  ext1 <;> ext1 <;> simp [twist, adj4]
  · linear_combination (-Q2.xi*(a.c1.c0*a.c1.c2 + a.c0.c1*a.c0.c2 - a.c1.c1^2)) * h6
  · linear_combination (-h^2*Q2.xi*(a.c1.c1*a.c1.c2 - a.c0.c2^2)) * h6
  · linear_combination (a.c1.c2^2*h^4*Q2.xi) * h6
  · linear_combination (h*Q2.xi*(2*a.c0.c1*a.c1.c2 - a.c1.c1*a.c0.c2)) * h6
  · linear_combination (-a.c0.c2*a.c1.c2*h^3*Q2.xi) * h6
  · ring

theorem IsCyclotomic.twist {h : Q2 R} (h6 : h ^ 6 = 1) {a : Q12 R} (ha : IsCyclotomic a) :
    IsCyclotomic (twist h a) := by
  rw [isCyclotomic_iff_adj4] at *
  rw [adj4_twist h6, ha, conj_twist]

/-- `a · adj4 a` (the norm of `a` down to Q4 = Q2[w³]) lies in Q4, where `w ↦ h·w` with `h³ = −1` acts as `conj`. -/
theorem twist_norm4 {h : Q2 R} (h3 : h ^ 3 = -1) (a : Q12 R) :
    twist h (a * adj4 a) = Q12.conj (a * adj4 a) := by
  ext1 <;> ext1 <;> simp [twist, adj4, h3] <;> ring

/-- **Key lemma for the easy part**: for `f` of relative norm 1 over Q6 (`f · conj f = 1`, i.e. `f^(q⁶+1) = 1`) and
`h³ = −1`, the element `f · f^σ` (σ : w ↦ h·w, the q²-Frobenius) satisfies the Granger–Scott equations. -/
theorem isCyclotomic_mul_twist {h : Q2 R} (h3 : h ^ 3 = -1) {f : Q12 R} (hf : f * Q12.conj f = 1) :
    IsCyclotomic (f * twist h f) := by
  have h6 : h ^ 6 = 1 := by linear_combination (h ^ 3 - 1) * h3
  rw [isCyclotomic_iff_adj4, adj4_mul, adj4_twist h6, conj_mul, conj_twist]
  -- N = f · adj4 f is in Q4, so N · σ(N) = N · conj N = adj4 (f · conj f) = 1
  have hN : (f * adj4 f) * twist h (f * adj4 f) = 1 := by
    rw [twist_norm4 h3, conj_mul, conj_adj4]
    calc f * adj4 f * (Q12.conj f * adj4 (Q12.conj f))
        = (f * Q12.conj f) * adj4 (f * Q12.conj f) := by rw [adj4_mul]; ring
      _ = 1 := by rw [hf, adj4_one, mul_one]
  have hC : (f * Q12.conj f) * twist h (f * Q12.conj f) = 1 := by rw [hf, twist_one, mul_one]
  rw [twist_mul h6] at hN hC
  linear_combination (Q12.conj f * twist h (Q12.conj f)) * hN - (adj4 f * twist h (adj4 f)) * hC

/-- the two non-trivial conjugates of `a` over Q4, for a primitive cube root of unity `z`. -/
theorem adj4_eq_conjugates {z : Q2 R} (hz : z ^ 2 + z + 1 = 0) (a : Q12 R) :
    adj4 a = (⟨⟨a.c0.c0, z ^ 2 * a.c0.c1, z * a.c0.c2⟩, ⟨z * a.c1.c0, a.c1.c1, z ^ 2 * a.c1.c2⟩⟩ : Q12 R) *
             ⟨⟨a.c0.c0, z * a.c0.c1, z ^ 2 * a.c0.c2⟩, ⟨z ^ 2 * a.c1.c0, a.c1.c1, z * a.c1.c2⟩⟩ := by
  ext1 <;> ext1 <;> simp [adj4]
  · linear_combination (-a.c1.c0*a.c1.c2*Q2.xi - a.c0.c1*a.c0.c2*Q2.xi + z^2*(-a.c1.c0*a.c1.c2*Q2.xi - a.c0.c1*a.c0.c2*Q2.xi) + z*(a.c1.c0*a.c1.c2*Q2.xi + a.c0.c1*a.c0.c2*Q2.xi)) * hz
  · linear_combination (-a.c0.c0*a.c0.c1 + a.c1.c0^2 - a.c1.c1*a.c1.c2*Q2.xi + a.c0.c2^2*Q2.xi + z*(-a.c1.c0^2 - a.c0.c2^2*Q2.xi)) * hz
  · linear_combination (-a.c0.c0*a.c0.c2 - a.c1.c0*a.c1.c1 + a.c0.c1^2 + a.c1.c2^2*Q2.xi + z*(-a.c0.c1^2 - a.c1.c2^2*Q2.xi)) * hz
  · linear_combination (-a.c0.c0*a.c1.c0 - 2*a.c0.c1*a.c1.c2*Q2.xi*z + 2*a.c0.c1*a.c1.c2*Q2.xi - a.c1.c1*a.c0.c2*Q2.xi) * hz
  · linear_combination (-a.c1.c0*a.c0.c1 - a.c0.c2*a.c1.c2*Q2.xi + z^2*(-a.c1.c0*a.c0.c1 - a.c0.c2*a.c1.c2*Q2.xi) + z*(a.c1.c0*a.c0.c1 + a.c0.c2*a.c1.c2*Q2.xi)) * hz
  · linear_combination (-a.c0.c0*a.c1.c2 - 2*a.c1.c0*a.c0.c2*z + 2*a.c1.c0*a.c0.c2 - a.c0.c1*a.c1.c1) * hz

/-- for a primitive 6th root of unity `h`, `adj4 a = a^(σ²) · a^(σ⁴)` with σ : w ↦ h·w. -/
theorem adj4_eq_twist {h : Q2 R} (hh : h ^ 2 - h + 1 = 0) (a : Q12 R) :
    adj4 a = twist (h ^ 2) a * twist (h ^ 4) a := by
  have h6 : h ^ 6 = 1 := by linear_combination (h ^ 3 - 1) * (h + 1) * hh
  have hz : (h ^ 2) ^ 2 + h ^ 2 + 1 = 0 := by linear_combination (h ^ 2 + h + 1) * hh
  rw [adj4_eq_conjugates hz a]
  congr 1 <;> (ext1 <;> ext1 <;> simp [twist])
  · linear_combination (-h ^ 2 * a.c0.c2) * h6
  · linear_combination (-a.c1.c1) * h6
  · linear_combination (-h ^ 4 * a.c1.c2) * h6
  · linear_combination (-h ^ 2 * a.c0.c1) * h6
  · linear_combination (-h ^ 4 * (h ^ 6 + 1) * a.c0.c2) * h6
  · ring
  · linear_combination (-(h ^ 6 + 1) * a.c1.c1) * h6
  · linear_combination (-h ^ 2 * (h ^ 12 + h ^ 6 + 1) * a.c1.c2) * h6

/-- **Meaning of `IsCyclotomic`**: for a primitive 6th root of unity `h` and σ : w ↦ h·w (the q²-Frobenius of the
library's tower), the Granger–Scott equations say exactly `a · a^(σ²) = a^σ`, i.e. a^(q⁴ + 1) = a^(q²). -/
theorem isCyclotomic_iff_twist {h : Q2 R} (hh : h ^ 2 - h + 1 = 0) (a : Q12 R) :
    IsCyclotomic a ↔ a * twist (h ^ 2) a = twist h a := by
  have h3 : h ^ 3 = -1 := by linear_combination (h + 1) * hh
  have h6 : h ^ 6 = 1 := by linear_combination (h ^ 3 - 1) * h3
  have e2 : (h ^ 2) ^ 6 = 1 := by linear_combination (h ^ 6 + 1) * h6
  have e4 : (h ^ 4) ^ 6 = 1 := by linear_combination (h ^ 18 + h ^ 12 + h ^ 6 + 1) * h6
  rw [isCyclotomic_iff_adj4, adj4_eq_twist hh, ← twist_neg_one, ← h3]
  constructor
  · intro H
    have := congrArg (twist (h ^ 4)) H
    rw [twist_mul e4, twist_twist, twist_twist, twist_twist] at this
    have p1 : h ^ 4 * h ^ 2 = 1 := by linear_combination h6
    have p2 : h ^ 4 * h ^ 4 = h ^ 2 := by linear_combination h ^ 2 * h6
    have p3 : h ^ 4 * h ^ 3 = h := by linear_combination h * h6
    rwa [p1, p2, p3, twist_one_left] at this
  · intro H
    have := congrArg (twist (h ^ 2)) H
    rw [twist_mul e2, twist_twist, twist_twist] at this
    have p1 : h ^ 2 * h ^ 2 = h ^ 4 := by ring
    have p2 : h ^ 2 * h = h ^ 3 := by ring
    rwa [p1, p2] at this

/-! ### Every table-driven Frobenius map preserves `IsCyclotomic`

Under `LawfulFrob`, `Fq12.frobenius_map · k` has the shape "apply κ : u ↦ e·u to every Fq2-coordinate, then
`w ↦ g·w`" with `e² = 1` and `g⁶·ξ = κ(ξ)`. -/

/-- `κ : c0 + c1·u ↦ c0 + e·c1·u` (what `Fq2.frobenius_map` does). -/
def kap (e : R) (c : Q2 R) : Q2 R := ⟨c.c0, c.c1 * e⟩

theorem kap_mul {e : R} (he : e ^ 2 = 1) (x y : Q2 R) : kap e (x * y) = kap e x * kap e y := by
  ext <;> simp [kap]
  · linear_combination (-(x.c1 * y.c1)) * he
  · ring
theorem kap_add (e : R) (x y : Q2 R) : kap e (x + y) = kap e x + kap e y := by
  ext <;> simp [kap]; ring
theorem kap_sub (e : R) (x y : Q2 R) : kap e (x - y) = kap e x - kap e y := by
  ext <;> simp [kap]; ring
theorem kap_neg (e : R) (x : Q2 R) : kap e (-x) = -kap e x := by
  ext <;> simp [kap]

/-- the shape of a table-driven Frobenius map. -/
def frobForm (e : R) (g : Q2 R) (a : Q12 R) : Q12 R :=
  ⟨⟨kap e a.c0.c0, g ^ 2 * kap e a.c0.c1, g ^ 4 * kap e a.c0.c2⟩,
   ⟨g * kap e a.c1.c0, g ^ 3 * kap e a.c1.c1, g ^ 5 * kap e a.c1.c2⟩⟩

theorem adj4_frobForm {e : R} (he : e ^ 2 = 1) {g : Q2 R} (hg : g ^ 6 * Q2.xi = kap e Q2.xi) (a : Q12 R) :
    adj4 (frobForm e g a) = frobForm e g (adj4 a) := by
  ext1 <;> ext1 <;> simp only [adj4, frobForm, kap_mul he, kap_add, kap_sub]
  · linear_combination (-(kap e a.c1.c0 * kap e a.c1.c2) - kap e a.c0.c1 * kap e a.c0.c2 + kap e a.c1.c1 ^ 2) * hg
  · linear_combination (-g ^ 2 * (kap e a.c1.c1 * kap e a.c1.c2 - kap e a.c0.c2 ^ 2)) * hg
  · linear_combination (g ^ 4 * kap e a.c1.c2 ^ 2) * hg
  · linear_combination (g * (2 * kap e a.c0.c1 * kap e a.c1.c2 - kap e a.c1.c1 * kap e a.c0.c2)) * hg
  · linear_combination (-g ^ 3 * kap e a.c0.c2 * kap e a.c1.c2) * hg
  · ring

theorem conj_frobForm (e : R) (g : Q2 R) (a : Q12 R) :
    Q12.conj (frobForm e g a) = frobForm e g (Q12.conj a) := by
  ext1 <;> ext1 <;> simp [frobForm, kap_neg]

theorem IsCyclotomic.frobForm {e : R} (he : e ^ 2 = 1) {g : Q2 R} (hg : g ^ 6 * Q2.xi = kap e Q2.xi)
    {a : Q12 R} (ha : IsCyclotomic a) : IsCyclotomic (frobForm e g a) := by
  rw [isCyclotomic_iff_adj4] at *
  rw [adj4_frobForm he hg, ha, conj_frobForm]

end Generic

/-! ## The generated `map_to_cyclotomic` -/
section Map
variable {R : Type} [CommRing R] [TowerConsts R]


theorem frobenius_map_eq_frobForm (L : LawfulFrob R) (a : Q12 R) (k : Nat) :
    Fq12.frobenius_map a k =
      frobForm (TowerConsts.fq2_frobenius_coeff (k &&& 1)) (TowerConsts.fq12_frobenius_coeff_c1 (k % 12)) a := by
  have i6 : (if decide (k < 6) then k else k % 6 : Nat) = k % 6 := by
    by_cases h : k < 6 <;> simp [h, Nat.mod_eq_of_lt]
  have i12 : (if decide (k < 12) then k else k % 12 : Nat) = k % 12 := by
    by_cases h : k < 12 <;> simp [h, Nat.mod_eq_of_lt]
  have e : ∀ c : Q2 R, Fq2.frobenius_map c k = kap (TowerConsts.fq2_frobenius_coeff (k &&& 1)) c := fun c => rfl
  simp only [Fq12.frobenius_map, Fq6.frobenius_map, e, i6, i12, tower_spec, L.g2_eq k, ← L.g12_sq k]
  ext1 <;> ext1 <;> simp [frobForm] <;> ring

/-- **`IsCyclotomic` is preserved by every table-driven Frobenius map** (all powers `k`). -/
theorem IsCyclotomic.frobenius_map (L : LawfulFrob R) {a : Q12 R} (ha : IsCyclotomic a) (k : Nat) :
    IsCyclotomic (Fq12.frobenius_map a k) := by
  rw [frobenius_map_eq_frobForm L]
  refine ha.frobForm (L.c2_sq k) ?_
  have h1 := L.g1_cube k
  rw [← L.g12_sq k] at h1
  have hx : kap (TowerConsts.fq2_frobenius_coeff (k &&& 1)) (Q2.xi : Q2 R)
      = ⟨1, TowerConsts.fq2_frobenius_coeff (k &&& 1)⟩ := by ext <;> simp [kap]
  rw [hx, ← h1]
  show _ * Q2.xi = _ * Q2.xi
  ring

theorem IsCyclotomic.frobenius_map_oa (L : LawfulFrob R) {a : Q12 R} (ha : IsCyclotomic a) (k : Nat) :
    IsCyclotomic (Fq12.frobenius_map_oa a k) := by
  rw [Fq12.frobenius_map_oa_alias]; exact ha.frobenius_map L k

/-- The facts about the constant tables used below (entry 2 of each Frobenius table; closed facts for the
concrete tables, see `frobTwoFacts_Fq`).  `h = fq12_frobenius_coeff_c1[2]` is a primitive 6th root of unity, the
Fq6 tables hold its 2nd and 4th power, and the q²-Frobenius fixes Fq2. -/
structure FrobTwoFacts (R : Type) [CommRing R] [TowerConsts R] : Prop where
  c2_zero : (TowerConsts.fq2_frobenius_coeff 0 : R) = 1
  g1_two : (TowerConsts.fq6_frobenius_coeff_c1 2 : Q2 R) = TowerConsts.fq12_frobenius_coeff_c1 2 ^ 2
  g2_two : (TowerConsts.fq6_frobenius_coeff_c2 2 : Q2 R) = TowerConsts.fq12_frobenius_coeff_c1 2 ^ 4
  h_prim6 : (TowerConsts.fq12_frobenius_coeff_c1 2 : Q2 R) ^ 2 - TowerConsts.fq12_frobenius_coeff_c1 2 + 1 = 0

/-- under `LawfulFrob` only two closed facts remain. -/
theorem FrobTwoFacts.of_lawful (L : LawfulFrob R) (h0 : (TowerConsts.fq2_frobenius_coeff 0 : R) = 1)
    (hh : (TowerConsts.fq12_frobenius_coeff_c1 2 : Q2 R) ^ 2 - TowerConsts.fq12_frobenius_coeff_c1 2 + 1 = 0) :
    FrobTwoFacts R where
  c2_zero := h0
  g1_two := (L.g12_sq 2).symm
  g2_two := by rw [show (4 : Nat) = 2 * 2 from rfl, pow_mul]; exact (L.g2_eq 2).trans (by rw [← L.g12_sq 2])
  h_prim6 := hh

/-- the generated q²-Frobenius is the substitution `w ↦ h·w`. -/
theorem frobenius_map_two (T : FrobTwoFacts R) (a : Q12 R) :
    Fq12.frobenius_map a 2 = twist (TowerConsts.fq12_frobenius_coeff_c1 2) a := by
  have e : ∀ c : Q2 R, Fq2.frobenius_map c 2 = c := fun c => by
    have e : (2 &&& 1 : Nat) = 0 := rfl
    ext <;> simp [Fq2.frobenius_map, e, T.c2_zero]
  have i6 : (if decide (2 < 6) then 2 else 2 % 6 : Nat) = 2 := rfl
  have i12 : (if decide (2 < 12) then 2 else 2 % 12 : Nat) = 2 := rfl
  simp only [Fq12.frobenius_map, Fq6.frobenius_map, e, i6, i12, tower_spec, T.g1_two, T.g2_two]
  ext1 <;> ext1 <;> simp [twist] <;> ring

/-- **the cyclotomic subgroup is inside `IsCyclotomic`**: if the q²-Frobenius is the power `x ↦ x^(n²)` on `a` and on
`a^(n²)`, then `a^(n⁴+1) = a^(n²)` (for invertible `a`: `a^(n⁴−n²+1) = 1`) implies the Granger–Scott equations, hence
`square_cyclotomic a = a·a`. -/
theorem isCyclotomic_of_pow (T : FrobTwoFacts R) (n : Nat) (a : Q12 R)
    (hF1 : Fq12.frobenius_map a 2 = a ^ (n ^ 2))
    (hF2 : Fq12.frobenius_map (a ^ (n ^ 2)) 2 = (a ^ (n ^ 2)) ^ (n ^ 2))
    (ha : a ^ (n ^ 4 + 1) = a ^ (n ^ 2)) : IsCyclotomic a := by
  rw [isCyclotomic_iff_twist T.h_prim6]
  have t1 : twist (TowerConsts.fq12_frobenius_coeff_c1 2) a = a ^ (n ^ 2) := by rw [← frobenius_map_two T, hF1]
  have t2 : twist (TowerConsts.fq12_frobenius_coeff_c1 2 ^ 2) a = (a ^ (n ^ 2)) ^ (n ^ 2) := by
    rw [sq, ← twist_twist, t1, ← frobenius_map_two T, hF2]
  rw [t1, t2, ← pow_mul, ← pow_succ', ← ha]
  congr 1
  ring

variable [Inv R]

/-- the generated easy-part map, in ring notation: `f · f^σ` with `f = conj a · inverse a`. -/
theorem map_to_cyclotomic_def (a : Q12 R) :
    Fq12.map_to_cyclotomic a =
      (Q12.conj a * Fq12.inverse a) * Fq12.frobenius_map (Q12.conj a * Fq12.inverse a) 2 := by
  simp only [Fq12.map_to_cyclotomic, tower_spec]

/-- **Every output of `map_to_cyclotomic` on an invertible input satisfies the Granger–Scott equations**, so the
fast squaring is correct on it (and on all products/powers of such outputs). -/
theorem isCyclotomic_map_to_cyclotomic (T : FrobTwoFacts R) (a : Q12 R) (ha : a * Fq12.inverse a = 1) :
    IsCyclotomic (Fq12.map_to_cyclotomic a) := by
  have h3 : (TowerConsts.fq12_frobenius_coeff_c1 2 : Q2 R) ^ 3 = -1 := by
    linear_combination (TowerConsts.fq12_frobenius_coeff_c1 2 + 1) * T.h_prim6
  rw [map_to_cyclotomic_def, frobenius_map_two T]
  apply isCyclotomic_mul_twist h3
  rw [conj_mul, conj_conj]
  calc Q12.conj a * Fq12.inverse a * (a * Q12.conj (Fq12.inverse a))
      = (a * Fq12.inverse a) * Q12.conj (a * Fq12.inverse a) := by rw [conj_mul]; ring
    _ = 1 := by rw [ha, conj_one, mul_one]

theorem square_cyclotomic_map_to_cyclotomic (T : FrobTwoFacts R) (a : Q12 R) (ha : a * Fq12.inverse a = 1) :
    Fq12.square_cyclotomic (Fq12.map_to_cyclotomic a) = Fq12.map_to_cyclotomic a * Fq12.map_to_cyclotomic a :=
  square_cyclotomic_eq _ (isCyclotomic_map_to_cyclotomic T a ha)

/-- the same for `_oa` (output aliasing the input) variants. -/
theorem isCyclotomic_map_to_cyclotomic_oa (T : FrobTwoFacts R) (a : Q12 R) (ha : a * Fq12.inverse a = 1) :
    IsCyclotomic (Fq12.map_to_cyclotomic_oa a) := by
  rw [Fq12.map_to_cyclotomic_oa_alias]; exact isCyclotomic_map_to_cyclotomic T a ha

/-! ### `map_to_cyclotomic a = a ^ ((n⁶ − 1)(n² + 1))`

`n` plays the role of `q`.  The hypotheses are stated for the one element each is used on (so they can be
checked on examples); `map_to_cyclotomic_eq'` has the uniform "Frobenius maps are powers" form. -/

/-- division-free form, any `n`. -/
theorem map_to_cyclotomic_mul_pow (n : Nat) (a : Q12 R) (hinv : a * Fq12.inverse a = 1)
    (hconj : Q12.conj a = a ^ (n ^ 6))
    (hF : Fq12.frobenius_map (Q12.conj a * Fq12.inverse a) 2 = (Q12.conj a * Fq12.inverse a) ^ (n ^ 2)) :
    Fq12.map_to_cyclotomic a * a ^ (n ^ 2 + 1) = a ^ (n ^ 6 * (n ^ 2 + 1)) := by
  rw [map_to_cyclotomic_def, hF, ← pow_succ', ← mul_pow, hconj, pow_mul]
  congr 1
  calc a ^ n ^ 6 * Fq12.inverse a * a = a ^ n ^ 6 * (a * Fq12.inverse a) := by ring
    _ = a ^ n ^ 6 := by rw [hinv, mul_one]

/-- **the easy part is the power `(n⁶ − 1)(n² + 1)`** (natural-number exponent; `n ≥ 1`). -/
theorem map_to_cyclotomic_eq (n : Nat) (hn : 0 < n) (a : Q12 R) (hinv : a * Fq12.inverse a = 1)
    (hconj : Q12.conj a = a ^ (n ^ 6))
    (hF : Fq12.frobenius_map (Q12.conj a * Fq12.inverse a) 2 = (Q12.conj a * Fq12.inverse a) ^ (n ^ 2)) :
    Fq12.map_to_cyclotomic a = a ^ ((n ^ 6 - 1) * (n ^ 2 + 1)) := by
  have hf : Q12.conj a * Fq12.inverse a = a ^ (n ^ 6 - 1) := by
    have e : n ^ 6 = (n ^ 6 - 1) + 1 := (Nat.sub_add_cancel (Nat.pow_pos hn)).symm
    rw [hconj]
    conv_lhs => rw [e, pow_succ]
    rw [mul_assoc, hinv, mul_one]
  rw [map_to_cyclotomic_def, hF, ← pow_succ', hf, pow_mul]

/-- the form with the uniform hypothesis "the table-driven Frobenius maps are the powers `x ↦ x^(n^k)`". -/
theorem map_to_cyclotomic_eq' (n : Nat) (hn : 0 < n)
    (hFrob : ∀ (x : Q12 R) (k : Nat), Fq12.frobenius_map x k = x ^ (n ^ k))
    (a : Q12 R) (hinv : a * Fq12.inverse a = 1) (hconj : Q12.conj a = a ^ (n ^ 6)) :
    Fq12.map_to_cyclotomic a = a ^ ((n ^ 6 - 1) * (n ^ 2 + 1)) :=
  map_to_cyclotomic_eq n hn a hinv hconj (hFrob _ 2)

/-- the same identity in the unit group, with the integer exponent `(n⁶ − 1)(n² + 1)` (any `n`). -/
theorem map_to_cyclotomic_eq_zpow (n : Nat) (a : Q12 R) (hinv : a * Fq12.inverse a = 1)
    (hconj : Q12.conj a = a ^ (n ^ 6))
    (hF : Fq12.frobenius_map (Q12.conj a * Fq12.inverse a) 2 = (Q12.conj a * Fq12.inverse a) ^ (n ^ 2)) :
    Fq12.map_to_cyclotomic a =
      ((Units.mkOfMulEqOne a (Fq12.inverse a) hinv ^ (((n : ℤ) ^ 6 - 1) * ((n : ℤ) ^ 2 + 1)) : (Q12 R)ˣ) : Q12 R) := by
  set u := Units.mkOfMulEqOne a (Fq12.inverse a) hinv with hu
  have hua : (u : Q12 R) = a := rfl
  have key := map_to_cyclotomic_mul_pow n a hinv hconj hF
  have e : (((n : ℤ) ^ 6 - 1) * ((n : ℤ) ^ 2 + 1)) = ((n ^ 6 * (n ^ 2 + 1) : Nat) : ℤ) - ((n ^ 2 + 1 : Nat) : ℤ) := by
    push_cast; ring
  rw [e, zpow_sub, zpow_natCast, zpow_natCast, Units.val_mul, Units.val_pow_eq_pow_val, hua, ← key,
    mul_assoc, ← hua, ← Units.val_pow_eq_pow_val, Units.mul_inv, mul_one]

end Map
/-! ## The concrete field `Fq = Fin q` with the library's tables (`instTowerConstsFq`) -/
section Concrete
attribute [local instance] Fin.instCommRing

/-- the four closed facts about entry 2 of the regenerated Frobenius tables, evaluated by the kernel. -/
theorem frobTwoFacts_Fq : FrobTwoFacts Fq where
  c2_zero := by decide +kernel
  g1_two := by decide +kernel
  g2_two := by decide +kernel
  h_prim6 := by decide +kernel

/-- C04, concrete: on every output of the library's `map_to_cyclotomic` (invertible input) the fast cyclotomic
squaring is the ordinary squaring, over the very operations the driver executes. -/
theorem isCyclotomic_map_to_cyclotomic_Fq (a : Fq12) (ha : a * Fq12.inverse a = 1) :
    IsCyclotomic (Fq12.map_to_cyclotomic a) :=
  isCyclotomic_map_to_cyclotomic frobTwoFacts_Fq a ha

theorem square_cyclotomic_map_to_cyclotomic_Fq (a : Fq12) (ha : a * Fq12.inverse a = 1) :
    Fq12.square_cyclotomic (Fq12.map_to_cyclotomic a) = Fq12.map_to_cyclotomic a * Fq12.map_to_cyclotomic a :=
  square_cyclotomic_eq _ (isCyclotomic_map_to_cyclotomic_Fq a ha)

/-- an Fq12 element from the 12 Montgomery-form coefficients in memory order. -/
def fq12OfList (l : List Nat) : Fq12 :=
  let c (i : Nat) : Fq := unmontC (l.getD i 0)
  ⟨⟨⟨c 0, c 1⟩, ⟨c 2, c 3⟩, ⟨c 4, c 5⟩⟩, ⟨⟨c 6, c 7⟩, ⟨c 8, c 9⟩, ⟨c 10, c 11⟩⟩⟩

/-- the library's exported `generator_pairing` = e(G1 generator, G2 generator). -/
def gtGen : Fq12 := fq12OfList Jedi.Gen.Consts.generator_pairing

/-- an arbitrary element outside the cyclotomic subgroup. -/
def sample : Fq12 := ⟨⟨⟨1, 2⟩, ⟨3, 4⟩, ⟨5, 6⟩⟩, ⟨⟨7, 8⟩, ⟨9, 10⟩, ⟨11, 12⟩⟩⟩

/-! Non-vacuity: `IsCyclotomic` holds for the non-trivial element `generator_pairing` and for the image of `sample`
under `map_to_cyclotomic` (the hypothesis `a · inverse a = 1` holds for it), and fails for `sample` itself — where
indeed the fast squaring is wrong. -/
example : IsCyclotomic gtGen ∧ gtGen ≠ 1 := by decide +kernel
example : sample * Fq12.inverse sample = 1 := by decide +kernel
example : IsCyclotomic (Fq12.map_to_cyclotomic sample) ∧ Fq12.map_to_cyclotomic sample ≠ 1 := by decide +kernel
example : ¬ IsCyclotomic sample ∧ Fq12.square_cyclotomic sample ≠ sample * sample := by decide +kernel
example : Fq12.square_cyclotomic gtGen = gtGen * gtGen := square_cyclotomic_eq _ (by decide +kernel)
example : Fq12.conjugate gtGen * gtGen = 1 := by decide +kernel

end Concrete
/-! ## Non-vacuity of the power-form theorems: a toy tower over F₁₉

19 ≡ 3 (mod 4) and ξ = 1 + u is neither a square nor a cube in F₁₉[u]/(u²+1), so the same tower construction gives the
field with 19¹² elements; the tables are computed from their definition `ξ^((19^k − 1)/d)`.  All hypotheses of
`map_to_cyclotomic_eq` and `isCyclotomic_of_pow` hold for a concrete element (kernel evaluation; powers through the
structurally recursive `npow`). -/
section Toy
attribute [local instance] Fin.instCommRing

abbrev F19 := Fin 19
local instance : Inv F19 := ⟨finInv⟩

local instance toyConsts : TowerConsts F19 where
  fq2_frobenius_coeff i := if i % 2 = 0 then 1 else -1
  fq6_frobenius_coeff_c1 i := npow (⟨1, 1⟩ : Q2 F19) ((19 ^ i - 1) / 3)
  fq6_frobenius_coeff_c2 i := npow (⟨1, 1⟩ : Q2 F19) (2 * ((19 ^ i - 1) / 3))
  fq12_frobenius_coeff_c1 i := npow (⟨1, 1⟩ : Q2 F19) ((19 ^ i - 1) / 6)
  g1_endomorphism_beta := 0
  uplusonetotheqminusoneoversix := npow (⟨1, 1⟩ : Q2 F19) 3

def a19 : Q12 F19 := ⟨⟨⟨1, 2⟩, ⟨3, 4⟩, ⟨5, 6⟩⟩, ⟨⟨7, 8⟩, ⟨9, 10⟩, ⟨11, 12⟩⟩⟩

theorem frobTwoFacts_F19 : FrobTwoFacts F19 where
  c2_zero := by decide +kernel
  g1_two := by decide +kernel
  g2_two := by decide +kernel
  h_prim6 := by decide +kernel

example : Fq12.map_to_cyclotomic a19 = a19 ^ ((19 ^ 6 - 1) * (19 ^ 2 + 1)) :=
  map_to_cyclotomic_eq 19 (by decide) a19 (by decide +kernel)
    (by rw [← npow_eq_pow a19]; decide +kernel)
    (by rw [← npow_eq_pow (Q12.conj a19 * Fq12.inverse a19)]; decide +kernel)

example : IsCyclotomic (Fq12.map_to_cyclotomic a19) ∧ Fq12.map_to_cyclotomic a19 ≠ 1 := by decide +kernel

/-- the route through the exponent: `m^(19⁴+1) = m^(19²)` ⇒ `IsCyclotomic m` ⇒ fast squaring correct. -/
example : Fq12.square_cyclotomic (Fq12.map_to_cyclotomic a19) = Fq12.map_to_cyclotomic a19 * Fq12.map_to_cyclotomic a19 :=
  square_cyclotomic_eq _ <| isCyclotomic_of_pow frobTwoFacts_F19 19 (Fq12.map_to_cyclotomic a19)
    (by rw [← npow_eq_pow (Fq12.map_to_cyclotomic a19)]; decide +kernel)
    (by rw [← npow_eq_pow (Fq12.map_to_cyclotomic a19), ← npow_eq_pow (npow (Fq12.map_to_cyclotomic a19) (19 ^ 2))]
        decide +kernel)
    (by rw [← npow_eq_pow (Fq12.map_to_cyclotomic a19), ← npow_eq_pow (Fq12.map_to_cyclotomic a19)]; decide +kernel)

end Toy
end Jedi.Cyclotomic
