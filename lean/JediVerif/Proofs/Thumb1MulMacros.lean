/-
The multiply macros of /repo/src/core/arch/armv6_m/multiply.s (`multiply32`, `mulcarry32`, `muladd32`, `muladdcarry32`,
`squareadd32`, `squareaddcarry32`: a 32×32→64 multiplication built from four 16×16 `muls`, with the additions of a
memory word and/or a carry word folded in) as STATE TRANSFORMERS with a Nat contract.

For each macro there is
  * a pure function `mac… : Word → … → MacOut` that mirrors the data flow of the macro (what ends up in r4–r7, in the
    "scratch" register that receives the high word, and in the flags),
  * the arithmetic contract `mac…_spec`: `lo + 2^32·hi = a·b (+ d) (+ c)` — never a lost carry, for ALL inputs,
  * one state lemma per register instantiation that occurs in the sources: running the macro's instruction list from ANY
    running state (explicit `State.mk`, every component a variable) gives the same state with r4–r7, the scratch
    register, the flags and the pc replaced as `mac…` says; memory is only read (the word at `[sp, #off]`).
The state lemmas are equations, used as rewrite rules by `simp` when rows are composed.

The statements of the state lemmas are written by an authoring script; nothing depends on the script.
-/
import JediVerif.Proofs.Thumb1MulCode

set_option linter.unusedSimpArgs false

namespace Jedi.Thumb1
open Jedi.Impl (val WF val_cons val_nil val_lt val_inj)

/-- what a multiply macro leaves behind: r4–r7, the high word (in the macro's scratch register), and the flags of its last `adcs` -/
structure MacOut where
  r4 : Word
  r5 : Word
  r6 : Word
  r7 : Word
  hi : Word
  fl : ArithRes

theorem lo16_toNat (x : Word) : (lo16 x).toNat = x.toNat % 2 ^ 16 := by
  simp only [lo16, BitVec.toNat_ofNat]; have := x.isLt; omega
theorem shrw_toNat (x : Word) (k : Nat) : (shrw x k).toNat = x.toNat / 2 ^ k := by
  simp only [shrw, BitVec.toNat_ofNat]
  exact Nat.mod_eq_of_lt (Nat.lt_of_le_of_lt (Nat.div_le_self _ _) x.isLt)
theorem shlw_toNat (x : Word) (k : Nat) : (shlw x k).toNat = x.toNat * 2 ^ k % 2 ^ 32 := by
  simp only [shlw, BitVec.toNat_ofNat]
theorem mulw_toNat (x y : Word) : (mulw x y).toNat = x.toNat * y.toNat % 2 ^ 32 := by
  simp only [mulw, BitVec.toNat_ofNat]

theorem testBit16_carry {c : Bool} {m : ArithRes} (hm : m = addWithCarry (0#32) (0#32) c) : m.val.toNat.testBit 16 = false := by
  have := carry_word hm
  have h : m.val.toNat < 2 ^ 16 := by have := Bool.toNat_le c; omega
  exact Nat.testBit_lt_two_pow h

/-- the four 16×16 products of `multiply32part1` -/
theorem parts_spec (a b : Word) :
    ∃ q00 q01 q10 q11 : Nat, (mulw (lo16 b) (lo16 a)).toNat = q00 ∧ (mulw (lo16 a) (shrw b 16)).toNat = q01 ∧
      (mulw (shrw b 16) (shrw a 16)).toNat = q11 ∧ (mulw (shrw a 16) (lo16 b)).toNat = q10 ∧
      a.toNat * b.toNat = q00 + 2 ^ 16 * (q01 + q10) + 2 ^ 32 * q11 ∧
      q00 ≤ (2 ^ 16 - 1) * (2 ^ 16 - 1) ∧ q01 ≤ (2 ^ 16 - 1) * (2 ^ 16 - 1) ∧ q10 ≤ (2 ^ 16 - 1) * (2 ^ 16 - 1) ∧ q11 ≤ (2 ^ 16 - 1) * (2 ^ 16 - 1) := by
  have ha := a.isLt; have hb := b.isLt
  obtain ⟨a0, ha0⟩ : ∃ x, x = a.toNat % 2 ^ 16 := ⟨_, rfl⟩
  obtain ⟨a1, ha1⟩ : ∃ x, x = a.toNat / 2 ^ 16 := ⟨_, rfl⟩
  obtain ⟨b0, hb0⟩ : ∃ x, x = b.toNat % 2 ^ 16 := ⟨_, rfl⟩
  obtain ⟨b1, hb1⟩ : ∃ x, x = b.toNat / 2 ^ 16 := ⟨_, rfl⟩
  have la0 : a0 ≤ 2 ^ 16 - 1 := by omega
  have la1 : a1 ≤ 2 ^ 16 - 1 := by omega
  have lb0 : b0 ≤ 2 ^ 16 - 1 := by omega
  have lb1 : b1 ≤ 2 ^ 16 - 1 := by omega
  have ea : a.toNat = a0 + 2 ^ 16 * a1 := by omega
  have eb : b.toNat = b0 + 2 ^ 16 * b1 := by omega
  have m00 := Nat.mul_le_mul lb0 la0
  have m01 := Nat.mul_le_mul la0 lb1
  have m11 := Nat.mul_le_mul lb1 la1
  have m10 := Nat.mul_le_mul la1 lb0
  refine ⟨b0 * a0, a0 * b1, a1 * b0, b1 * a1, ?_, ?_, ?_, ?_, ?_, m00, m01, m10, m11⟩
  · rw [mulw_toNat, lo16_toNat, lo16_toNat, ← ha0, ← hb0]; omega
  · rw [mulw_toNat, lo16_toNat, shrw_toNat, ← ha0, ← hb1]; omega
  · rw [mulw_toNat, shrw_toNat, shrw_toNat, ← ha1, ← hb1]; omega
  · rw [mulw_toNat, shrw_toNat, lo16_toNat, ← ha1, ← hb0]; omega
  · rw [ea, eb]; ring

/-- the three 16×16 products of `square32part1` -/
theorem sqparts_spec (a : Word) :
    ∃ q00 q01 q11 : Nat, (mulw (lo16 a) (lo16 a)).toNat = q00 ∧ (mulw (lo16 a) (shrw a 16)).toNat = q01 ∧
      (mulw (shrw a 16) (shrw a 16)).toNat = q11 ∧
      a.toNat * a.toNat = q00 + 2 ^ 16 * (q01 + q01) + 2 ^ 32 * q11 ∧
      q00 ≤ (2 ^ 16 - 1) * (2 ^ 16 - 1) ∧ q01 ≤ (2 ^ 16 - 1) * (2 ^ 16 - 1) ∧ q11 ≤ (2 ^ 16 - 1) * (2 ^ 16 - 1) := by
  have ha := a.isLt
  obtain ⟨a0, ha0⟩ : ∃ x, x = a.toNat % 2 ^ 16 := ⟨_, rfl⟩
  obtain ⟨a1, ha1⟩ : ∃ x, x = a.toNat / 2 ^ 16 := ⟨_, rfl⟩
  have la0 : a0 ≤ 2 ^ 16 - 1 := by omega
  have la1 : a1 ≤ 2 ^ 16 - 1 := by omega
  have ea : a.toNat = a0 + 2 ^ 16 * a1 := by omega
  have m00 := Nat.mul_le_mul la0 la0
  have m01 := Nat.mul_le_mul la0 la1
  have m11 := Nat.mul_le_mul la1 la1
  refine ⟨a0 * a0, a0 * a1, a1 * a1, ?_, ?_, ?_, ?_, m00, m01, m11⟩
  · rw [mulw_toNat, lo16_toNat, ← ha0]; omega
  · rw [mulw_toNat, lo16_toNat, shrw_toNat, ← ha0, ← ha1]; omega
  · rw [mulw_toNat, shrw_toNat, ← ha1]; omega
  · rw [ea]; ring

/-! ## the data flow of the macros -/

/-- `multiply32 a, b, s`: `r6 : s := a·b` -/
def macMul (a b : Word) : MacOut :=
  let p00 := mulw (lo16 b) (lo16 a)
  let p01 := mulw (lo16 a) (shrw b 16)
  let p11 := mulw (shrw b 16) (shrw a 16)
  let p10 := mulw (shrw a 16) (lo16 b)
  let mid := addWithCarry p10 p01 false
  let cw := addWithCarry (0#32) (0#32) mid.c
  let t1 := addWithCarry p11 (shlw cw.val 16) (cw.val.toNat.testBit 16)
  let t2 := addWithCarry p00 (shlw mid.val 16) false
  let t3 := addWithCarry t1.val (shrw mid.val 16) t2.c
  { r4 := shrw mid.val 16, r5 := shlw mid.val 16, r6 := t2.val, r7 := (lo16 b), hi := t3.val, fl := t3 }

/-- `mulcarry32 a, b, s, c`: `r6 : s := a·b + c` -/
def macMulC (a b c : Word) : MacOut :=
  let p00 := mulw (lo16 b) (lo16 a)
  let p01 := mulw (lo16 a) (shrw b 16)
  let p11 := mulw (shrw b 16) (shrw a 16)
  let p10 := mulw (shrw a 16) (lo16 b)
  let mid := addWithCarry p10 p01 false
  let cw := addWithCarry (0#32) (0#32) mid.c
  let t0 := addWithCarry p00 c false
  let t1 := addWithCarry p11 (shlw cw.val 16) t0.c
  let t2 := addWithCarry t0.val (shlw mid.val 16) false
  let t3 := addWithCarry t1.val (shrw mid.val 16) t2.c
  { r4 := shrw mid.val 16, r5 := shlw mid.val 16, r6 := t2.val, r7 := (lo16 b), hi := t3.val, fl := t3 }

/-- `muladd32 a, b, off, s`: `r6 : s := a·b + d`, `d` the word at `[sp, #off]` -/
def macMulA (a b d : Word) : MacOut :=
  let p00 := mulw (lo16 b) (lo16 a)
  let p01 := mulw (lo16 a) (shrw b 16)
  let p11 := mulw (shrw b 16) (shrw a 16)
  let p10 := mulw (shrw a 16) (lo16 b)
  let mid := addWithCarry p10 p01 false
  let cw := addWithCarry (0#32) (0#32) mid.c
  let t0 := addWithCarry p00 d false
  let t1 := addWithCarry p11 (shlw cw.val 16) t0.c
  let t2 := addWithCarry t0.val (shlw mid.val 16) false
  let t3 := addWithCarry t1.val (shrw mid.val 16) t2.c
  { r4 := shrw mid.val 16, r5 := shlw mid.val 16, r6 := t2.val, r7 := d, hi := t3.val, fl := t3 }

/-- `muladdcarry32 a, b, off, s, c`: `r6 : s := a·b + d + c` -/
def macMulAC (a b d c : Word) : MacOut :=
  let p00 := mulw (lo16 b) (lo16 a)
  let p01 := mulw (lo16 a) (shrw b 16)
  let p11 := mulw (shrw b 16) (shrw a 16)
  let p10 := mulw (shrw a 16) (lo16 b)
  let mid := addWithCarry p10 p01 false
  let cw := addWithCarry (0#32) (0#32) mid.c
  let t0 := addWithCarry p00 c false
  let u := addWithCarry (shlw cw.val 15) (shlw cw.val 15) t0.c
  let t0' := addWithCarry t0.val d false
  let t1 := addWithCarry p11 u.val t0'.c
  let t2 := addWithCarry t0'.val (shlw mid.val 16) false
  let t3 := addWithCarry t1.val (shrw mid.val 16) t2.c
  { r4 := shrw mid.val 16, r5 := shlw mid.val 16, r6 := t2.val, r7 := d, hi := t3.val, fl := t3 }

/-- `squareadd32 a, off, s`: `r6 : s := a² + d` -/
def macSqA (a d : Word) : MacOut :=
  let p00 := mulw (lo16 a) (lo16 a)
  let p01 := mulw (lo16 a) (shrw a 16)
  let p11 := mulw (shrw a 16) (shrw a 16)
  let mid := addWithCarry p01 p01 false
  let cw := addWithCarry (0#32) (0#32) mid.c
  let t0 := addWithCarry p00 d false
  let t1 := addWithCarry p11 (shlw cw.val 16) t0.c
  let t2 := addWithCarry t0.val (shlw mid.val 16) false
  let t3 := addWithCarry t1.val (shrw mid.val 16) t2.c
  { r4 := shrw mid.val 16, r5 := shlw mid.val 16, r6 := t2.val, r7 := d, hi := t3.val, fl := t3 }

/-- `squareaddcarry32 a, off, s, c`: `r6 : s := a² + d + c` -/
def macSqAC (a d c : Word) : MacOut :=
  let p00 := mulw (lo16 a) (lo16 a)
  let p01 := mulw (lo16 a) (shrw a 16)
  let p11 := mulw (shrw a 16) (shrw a 16)
  let mid := addWithCarry p01 p01 false
  let cw := addWithCarry (0#32) (0#32) mid.c
  let t0 := addWithCarry p00 c false
  let u := addWithCarry (shlw cw.val 15) (shlw cw.val 15) t0.c
  let t0' := addWithCarry t0.val d false
  let t1 := addWithCarry p11 u.val t0'.c
  let t2 := addWithCarry t0'.val (shlw mid.val 16) false
  let t3 := addWithCarry t1.val (shrw mid.val 16) t2.c
  { r4 := shrw mid.val 16, r5 := shlw mid.val 16, r6 := t2.val, r7 := d, hi := t3.val, fl := t3 }

/-! ## arithmetic -/

section
variable {a b d c p00 p01 p11 p10 : Word} {mid cw t0 u t0' t1 t2 t3 : ArithRes}

set_option maxHeartbeats 1600000 in
theorem macMul_arith (h00 : p00 = mulw (lo16 b) (lo16 a)) (h01 : p01 = mulw (lo16 a) (shrw b 16)) (h11 : p11 = mulw (shrw b 16) (shrw a 16)) (h10 : p10 = mulw (shrw a 16) (lo16 b)) (hmid : mid = addWithCarry p10 p01 false) (hcw : cw = addWithCarry (0#32) (0#32) mid.c) (ht1 : t1 = addWithCarry p11 (shlw cw.val 16) (cw.val.toNat.testBit 16)) (ht2 : t2 = addWithCarry p00 (shlw mid.val 16) false) (ht3 : t3 = addWithCarry t1.val (shrw mid.val 16) t2.c) :
    t2.val.toNat + 2 ^ 32 * t3.val.toNat = a.toNat * b.toNat := by
  obtain ⟨q00, q01, q10, q11, e00, e01, e11, e10, eab, l00, l01, l10, l11⟩ := parts_spec a b
  rw [← h00] at e00; rw [← h01] at e01; rw [← h11] at e11; rw [← h10] at e10
  have emid := awc_spec p10 p01 false; rw [← hmid] at emid
  have ecw := carry_word hcw
  have e1 := awc_spec p11 (shlw cw.val 16) (cw.val.toNat.testBit 16); rw [← ht1, shlw_toNat, testBit16_carry hcw] at e1
  have e2 := awc_spec p00 (shlw mid.val 16) false; rw [← ht2, shlw_toNat] at e2
  have e3 := awc_spec t1.val (shrw mid.val 16) t2.c; rw [← ht3, shrw_toNat] at e3
  rw [eab]
  have := mid.val.isLt; have := t1.val.isLt; have := t2.val.isLt; have := t3.val.isLt
  have := Bool.toNat_le mid.c; have := Bool.toNat_le t1.c; have := Bool.toNat_le t2.c; have := Bool.toNat_le t3.c
  simp only [Bool.toNat_false, Nat.add_zero] at emid e1 e2
  subst e00 e01 e11 e10
  generalize p00.toNat = x00 at *; generalize p01.toNat = x01 at *; generalize p11.toNat = x11 at *; generalize p10.toNat = x10 at *
  omega
end

/-- the contract of `macMul`: nothing is lost -/
theorem macMul_spec (a b : Word) :
    (macMul a b).r6.toNat + 2 ^ 32 * (macMul a b).hi.toNat = a.toNat * b.toNat :=
  macMul_arith rfl rfl rfl rfl rfl rfl rfl rfl rfl

section
variable {a b d c p00 p01 p11 p10 : Word} {mid cw t0 u t0' t1 t2 t3 : ArithRes}

set_option maxHeartbeats 1600000 in
theorem macMulC_arith (h00 : p00 = mulw (lo16 b) (lo16 a)) (h01 : p01 = mulw (lo16 a) (shrw b 16)) (h11 : p11 = mulw (shrw b 16) (shrw a 16)) (h10 : p10 = mulw (shrw a 16) (lo16 b)) (hmid : mid = addWithCarry p10 p01 false) (hcw : cw = addWithCarry (0#32) (0#32) mid.c) (ht0 : t0 = addWithCarry p00 c false) (ht1 : t1 = addWithCarry p11 (shlw cw.val 16) t0.c) (ht2 : t2 = addWithCarry t0.val (shlw mid.val 16) false) (ht3 : t3 = addWithCarry t1.val (shrw mid.val 16) t2.c) :
    t2.val.toNat + 2 ^ 32 * t3.val.toNat = a.toNat * b.toNat + c.toNat := by
  obtain ⟨q00, q01, q10, q11, e00, e01, e11, e10, eab, l00, l01, l10, l11⟩ := parts_spec a b
  rw [← h00] at e00; rw [← h01] at e01; rw [← h11] at e11; rw [← h10] at e10
  have emid := awc_spec p10 p01 false; rw [← hmid] at emid
  have ecw := carry_word hcw
  have e0 := awc_spec p00 c false; rw [← ht0] at e0
  have e1 := awc_spec p11 (shlw cw.val 16) t0.c; rw [← ht1, shlw_toNat] at e1
  have e2 := awc_spec t0.val (shlw mid.val 16) false; rw [← ht2, shlw_toNat] at e2
  have e3 := awc_spec t1.val (shrw mid.val 16) t2.c; rw [← ht3, shrw_toNat] at e3
  rw [eab]
  have := c.isLt; have := t0.val.isLt
  have := mid.val.isLt; have := t1.val.isLt; have := t2.val.isLt; have := t3.val.isLt
  have := Bool.toNat_le mid.c; have := Bool.toNat_le t1.c; have := Bool.toNat_le t2.c; have := Bool.toNat_le t3.c
  have := Bool.toNat_le t0.c
  simp only [Bool.toNat_false, Nat.add_zero] at emid e0 e2
  subst e00 e01 e11 e10
  generalize p00.toNat = x00 at *; generalize p01.toNat = x01 at *; generalize p11.toNat = x11 at *; generalize p10.toNat = x10 at *
  omega
end

/-- the contract of `macMulC`: nothing is lost -/
theorem macMulC_spec (a b c : Word) :
    (macMulC a b c).r6.toNat + 2 ^ 32 * (macMulC a b c).hi.toNat = a.toNat * b.toNat + c.toNat :=
  macMulC_arith rfl rfl rfl rfl rfl rfl rfl rfl rfl rfl

section
variable {a b d c p00 p01 p11 p10 : Word} {mid cw t0 u t0' t1 t2 t3 : ArithRes}

set_option maxHeartbeats 1600000 in
theorem macMulA_arith (h00 : p00 = mulw (lo16 b) (lo16 a)) (h01 : p01 = mulw (lo16 a) (shrw b 16)) (h11 : p11 = mulw (shrw b 16) (shrw a 16)) (h10 : p10 = mulw (shrw a 16) (lo16 b)) (hmid : mid = addWithCarry p10 p01 false) (hcw : cw = addWithCarry (0#32) (0#32) mid.c) (ht0 : t0 = addWithCarry p00 d false) (ht1 : t1 = addWithCarry p11 (shlw cw.val 16) t0.c) (ht2 : t2 = addWithCarry t0.val (shlw mid.val 16) false) (ht3 : t3 = addWithCarry t1.val (shrw mid.val 16) t2.c) :
    t2.val.toNat + 2 ^ 32 * t3.val.toNat = a.toNat * b.toNat + d.toNat := by
  obtain ⟨q00, q01, q10, q11, e00, e01, e11, e10, eab, l00, l01, l10, l11⟩ := parts_spec a b
  rw [← h00] at e00; rw [← h01] at e01; rw [← h11] at e11; rw [← h10] at e10
  have emid := awc_spec p10 p01 false; rw [← hmid] at emid
  have ecw := carry_word hcw
  have e0 := awc_spec p00 d false; rw [← ht0] at e0
  have e1 := awc_spec p11 (shlw cw.val 16) t0.c; rw [← ht1, shlw_toNat] at e1
  have e2 := awc_spec t0.val (shlw mid.val 16) false; rw [← ht2, shlw_toNat] at e2
  have e3 := awc_spec t1.val (shrw mid.val 16) t2.c; rw [← ht3, shrw_toNat] at e3
  rw [eab]
  have := d.isLt; have := t0.val.isLt
  have := mid.val.isLt; have := t1.val.isLt; have := t2.val.isLt; have := t3.val.isLt
  have := Bool.toNat_le mid.c; have := Bool.toNat_le t1.c; have := Bool.toNat_le t2.c; have := Bool.toNat_le t3.c
  have := Bool.toNat_le t0.c
  simp only [Bool.toNat_false, Nat.add_zero] at emid e0 e2
  subst e00 e01 e11 e10
  generalize p00.toNat = x00 at *; generalize p01.toNat = x01 at *; generalize p11.toNat = x11 at *; generalize p10.toNat = x10 at *
  omega
end

/-- the contract of `macMulA`: nothing is lost -/
theorem macMulA_spec (a b d : Word) :
    (macMulA a b d).r6.toNat + 2 ^ 32 * (macMulA a b d).hi.toNat = a.toNat * b.toNat + d.toNat :=
  macMulA_arith rfl rfl rfl rfl rfl rfl rfl rfl rfl rfl

section
variable {a b d c p00 p01 p11 p10 : Word} {mid cw t0 u t0' t1 t2 t3 : ArithRes}

set_option maxHeartbeats 1600000 in
theorem macMulAC_arith (h00 : p00 = mulw (lo16 b) (lo16 a)) (h01 : p01 = mulw (lo16 a) (shrw b 16)) (h11 : p11 = mulw (shrw b 16) (shrw a 16)) (h10 : p10 = mulw (shrw a 16) (lo16 b)) (hmid : mid = addWithCarry p10 p01 false) (hcw : cw = addWithCarry (0#32) (0#32) mid.c) (ht0 : t0 = addWithCarry p00 c false) (hu : u = addWithCarry (shlw cw.val 15) (shlw cw.val 15) t0.c) (ht0' : t0' = addWithCarry t0.val d false) (ht1 : t1 = addWithCarry p11 u.val t0'.c) (ht2 : t2 = addWithCarry t0'.val (shlw mid.val 16) false) (ht3 : t3 = addWithCarry t1.val (shrw mid.val 16) t2.c) :
    t2.val.toNat + 2 ^ 32 * t3.val.toNat = a.toNat * b.toNat + d.toNat + c.toNat := by
  obtain ⟨q00, q01, q10, q11, e00, e01, e11, e10, eab, l00, l01, l10, l11⟩ := parts_spec a b
  rw [← h00] at e00; rw [← h01] at e01; rw [← h11] at e11; rw [← h10] at e10
  have emid := awc_spec p10 p01 false; rw [← hmid] at emid
  have ecw := carry_word hcw
  have e0 := awc_spec p00 c false; rw [← ht0] at e0
  have eu := awc_spec (shlw cw.val 15) (shlw cw.val 15) t0.c; rw [← hu, shlw_toNat] at eu
  have e0' := awc_spec t0.val d false; rw [← ht0'] at e0'
  have e1 := awc_spec p11 u.val t0'.c; rw [← ht1] at e1
  have e2 := awc_spec t0'.val (shlw mid.val 16) false; rw [← ht2, shlw_toNat] at e2
  have e3 := awc_spec t1.val (shrw mid.val 16) t2.c; rw [← ht3, shrw_toNat] at e3
  rw [eab]
  have := d.isLt; have := c.isLt; have := t0.val.isLt; have := u.val.isLt; have := t0'.val.isLt
  have := mid.val.isLt; have := t1.val.isLt; have := t2.val.isLt; have := t3.val.isLt
  have := Bool.toNat_le mid.c; have := Bool.toNat_le t1.c; have := Bool.toNat_le t2.c; have := Bool.toNat_le t3.c
  have := Bool.toNat_le t0.c; have := Bool.toNat_le u.c; have := Bool.toNat_le t0'.c
  simp only [Bool.toNat_false, Nat.add_zero] at emid e0 e0' e2
  subst e00 e01 e11 e10
  generalize p00.toNat = x00 at *; generalize p01.toNat = x01 at *; generalize p11.toNat = x11 at *; generalize p10.toNat = x10 at *
  omega
end

/-- the contract of `macMulAC`: nothing is lost -/
theorem macMulAC_spec (a b d c : Word) :
    (macMulAC a b d c).r6.toNat + 2 ^ 32 * (macMulAC a b d c).hi.toNat = a.toNat * b.toNat + d.toNat + c.toNat :=
  macMulAC_arith rfl rfl rfl rfl rfl rfl rfl rfl rfl rfl rfl rfl

section
variable {a d c p00 p01 p11 : Word} {mid cw t0 u t0' t1 t2 t3 : ArithRes}

set_option maxHeartbeats 1600000 in
theorem macSqA_arith (h00 : p00 = mulw (lo16 a) (lo16 a)) (h01 : p01 = mulw (lo16 a) (shrw a 16)) (h11 : p11 = mulw (shrw a 16) (shrw a 16)) (hmid : mid = addWithCarry p01 p01 false) (hcw : cw = addWithCarry (0#32) (0#32) mid.c) (ht0 : t0 = addWithCarry p00 d false) (ht1 : t1 = addWithCarry p11 (shlw cw.val 16) t0.c) (ht2 : t2 = addWithCarry t0.val (shlw mid.val 16) false) (ht3 : t3 = addWithCarry t1.val (shrw mid.val 16) t2.c) :
    t2.val.toNat + 2 ^ 32 * t3.val.toNat = a.toNat * a.toNat + d.toNat := by
  obtain ⟨q00, q01, q11, e00, e01, e11, eab, l00, l01, l11⟩ := sqparts_spec a
  rw [← h00] at e00; rw [← h01] at e01; rw [← h11] at e11
  have emid := awc_spec p01 p01 false; rw [← hmid] at emid
  have ecw := carry_word hcw
  have e0 := awc_spec p00 d false; rw [← ht0] at e0
  have e1 := awc_spec p11 (shlw cw.val 16) t0.c; rw [← ht1, shlw_toNat] at e1
  have e2 := awc_spec t0.val (shlw mid.val 16) false; rw [← ht2, shlw_toNat] at e2
  have e3 := awc_spec t1.val (shrw mid.val 16) t2.c; rw [← ht3, shrw_toNat] at e3
  rw [eab]
  have := d.isLt; have := t0.val.isLt
  have := mid.val.isLt; have := t1.val.isLt; have := t2.val.isLt; have := t3.val.isLt
  have := Bool.toNat_le mid.c; have := Bool.toNat_le t1.c; have := Bool.toNat_le t2.c; have := Bool.toNat_le t3.c
  have := Bool.toNat_le t0.c
  simp only [Bool.toNat_false, Nat.add_zero] at emid e0 e2
  subst e00 e01 e11
  generalize p00.toNat = x00 at *; generalize p01.toNat = x01 at *; generalize p11.toNat = x11 at *
  omega
end

/-- the contract of `macSqA`: nothing is lost -/
theorem macSqA_spec (a d : Word) :
    (macSqA a d).r6.toNat + 2 ^ 32 * (macSqA a d).hi.toNat = a.toNat * a.toNat + d.toNat :=
  macSqA_arith rfl rfl rfl rfl rfl rfl rfl rfl rfl

section
variable {a d c p00 p01 p11 : Word} {mid cw t0 u t0' t1 t2 t3 : ArithRes}

set_option maxHeartbeats 1600000 in
theorem macSqAC_arith (h00 : p00 = mulw (lo16 a) (lo16 a)) (h01 : p01 = mulw (lo16 a) (shrw a 16)) (h11 : p11 = mulw (shrw a 16) (shrw a 16)) (hmid : mid = addWithCarry p01 p01 false) (hcw : cw = addWithCarry (0#32) (0#32) mid.c) (ht0 : t0 = addWithCarry p00 c false) (hu : u = addWithCarry (shlw cw.val 15) (shlw cw.val 15) t0.c) (ht0' : t0' = addWithCarry t0.val d false) (ht1 : t1 = addWithCarry p11 u.val t0'.c) (ht2 : t2 = addWithCarry t0'.val (shlw mid.val 16) false) (ht3 : t3 = addWithCarry t1.val (shrw mid.val 16) t2.c) :
    t2.val.toNat + 2 ^ 32 * t3.val.toNat = a.toNat * a.toNat + d.toNat + c.toNat := by
  obtain ⟨q00, q01, q11, e00, e01, e11, eab, l00, l01, l11⟩ := sqparts_spec a
  rw [← h00] at e00; rw [← h01] at e01; rw [← h11] at e11
  have emid := awc_spec p01 p01 false; rw [← hmid] at emid
  have ecw := carry_word hcw
  have e0 := awc_spec p00 c false; rw [← ht0] at e0
  have eu := awc_spec (shlw cw.val 15) (shlw cw.val 15) t0.c; rw [← hu, shlw_toNat] at eu
  have e0' := awc_spec t0.val d false; rw [← ht0'] at e0'
  have e1 := awc_spec p11 u.val t0'.c; rw [← ht1] at e1
  have e2 := awc_spec t0'.val (shlw mid.val 16) false; rw [← ht2, shlw_toNat] at e2
  have e3 := awc_spec t1.val (shrw mid.val 16) t2.c; rw [← ht3, shrw_toNat] at e3
  rw [eab]
  have := d.isLt; have := c.isLt; have := t0.val.isLt; have := u.val.isLt; have := t0'.val.isLt
  have := mid.val.isLt; have := t1.val.isLt; have := t2.val.isLt; have := t3.val.isLt
  have := Bool.toNat_le mid.c; have := Bool.toNat_le t1.c; have := Bool.toNat_le t2.c; have := Bool.toNat_le t3.c
  have := Bool.toNat_le t0.c; have := Bool.toNat_le u.c; have := Bool.toNat_le t0'.c
  simp only [Bool.toNat_false, Nat.add_zero] at emid e0 e0' e2
  subst e00 e01 e11
  generalize p00.toNat = x00 at *; generalize p01.toNat = x01 at *; generalize p11.toNat = x11 at *
  omega
end

/-- the contract of `macSqAC`: nothing is lost -/
theorem macSqAC_spec (a d c : Word) :
    (macSqAC a d c).r6.toNat + 2 ^ 32 * (macSqAC a d c).hi.toNat = a.toNat * a.toNat + d.toNat + c.toNat :=
  macSqAC_arith rfl rfl rfl rfl rfl rfl rfl rfl rfl rfl rfl

/-! ## the macros as state transformers (one lemma per register instantiation that occurs) -/

theorem multiply32_r4_r3 (r0 r1 r2 r3 r4 r5 r6 r7 r8 r9 r10 r11 r12 sp lr : Word) (nf zf cf vf : Option Bool)
    (m : Nat → Word) (rd wr : Nat → Bool) (pc : Nat) (csm : Bool) :
    runL (Code.multiply32 .r4 .r3 .r3) ⟨r0, r1, r2, r3, r4, r5, r6, r7, r8, r9, r10, r11, r12, sp, lr, nf, zf, cf, vf, m, rd, wr, pc, .running, csm⟩
      = ⟨r0, r1, r2, (macMul r4 r3).hi, (macMul r4 r3).r4, (macMul r4 r3).r5, (macMul r4 r3).r6, (macMul r4 r3).r7, r8, r9, r10, r11, r12, sp, lr, some (macMul r4 r3).fl.n, some (macMul r4 r3).fl.z, some (macMul r4 r3).fl.c, some (macMul r4 r3).fl.v, m, rd, wr, pc + 18, .running, csm⟩ := by
  generalize hfin : runL _ _ = s'
  t1m_sym [Code.multiply32, Code.part1, Code.part2, Code.part3] at hfin
  subst hfin
  simp only [macMul]

theorem mulcarry32_r4_r0 (r0 r1 r2 r3 r4 r5 r6 r7 r8 r9 r10 r11 r12 sp lr : Word) (nf zf cf vf : Option Bool)
    (m : Nat → Word) (rd wr : Nat → Bool) (pc : Nat) (csm : Bool) :
    runL (Code.mulcarry32 .r4 .r0 .r0 .r3) ⟨r0, r1, r2, r3, r4, r5, r6, r7, r8, r9, r10, r11, r12, sp, lr, nf, zf, cf, vf, m, rd, wr, pc, .running, csm⟩
      = ⟨(macMulC r4 r0 r3).hi, r1, r2, r3, (macMulC r4 r0 r3).r4, (macMulC r4 r0 r3).r5, (macMulC r4 r0 r3).r6, (macMulC r4 r0 r3).r7, r8, r9, r10, r11, r12, sp, lr, some (macMulC r4 r0 r3).fl.n, some (macMulC r4 r0 r3).fl.z, some (macMulC r4 r0 r3).fl.c, some (macMulC r4 r0 r3).fl.v, m, rd, wr, pc + 19, .running, csm⟩ := by
  generalize hfin : runL _ _ = s'
  t1m_sym [Code.mulcarry32, Code.part1, Code.part2, Code.part3] at hfin
  subst hfin
  simp only [macMulC]

theorem mulcarry32_r4_r3 (r0 r1 r2 r3 r4 r5 r6 r7 r8 r9 r10 r11 r12 sp lr : Word) (nf zf cf vf : Option Bool)
    (m : Nat → Word) (rd wr : Nat → Bool) (pc : Nat) (csm : Bool) :
    runL (Code.mulcarry32 .r4 .r3 .r3 .r0) ⟨r0, r1, r2, r3, r4, r5, r6, r7, r8, r9, r10, r11, r12, sp, lr, nf, zf, cf, vf, m, rd, wr, pc, .running, csm⟩
      = ⟨r0, r1, r2, (macMulC r4 r3 r0).hi, (macMulC r4 r3 r0).r4, (macMulC r4 r3 r0).r5, (macMulC r4 r3 r0).r6, (macMulC r4 r3 r0).r7, r8, r9, r10, r11, r12, sp, lr, some (macMulC r4 r3 r0).fl.n, some (macMulC r4 r3 r0).fl.z, some (macMulC r4 r3 r0).fl.c, some (macMulC r4 r3 r0).fl.v, m, rd, wr, pc + 19, .running, csm⟩ := by
  generalize hfin : runL _ _ = s'
  t1m_sym [Code.mulcarry32, Code.part1, Code.part2, Code.part3] at hfin
  subst hfin
  simp only [macMulC]

theorem muladd32_r4_r3 (r0 r1 r2 r3 r4 r5 r6 r7 r8 r9 r10 r11 r12 sp lr : Word) (nf zf cf vf : Option Bool)
    (m : Nat → Word) (rd wr : Nat → Bool) (pc : Nat) (csm : Bool) (off : Nat)
    (h1 : sp.toNat + off < 2 ^ 32) (h2 : (sp.toNat + off) % 4 = 0) (h3 : rd (sp.toNat + off) = true) :
    runL (Code.muladd32 .r4 .r3 off .r3) ⟨r0, r1, r2, r3, r4, r5, r6, r7, r8, r9, r10, r11, r12, sp, lr, nf, zf, cf, vf, m, rd, wr, pc, .running, csm⟩
      = ⟨r0, r1, r2, (macMulA r4 r3 (m (sp.toNat + off))).hi, (macMulA r4 r3 (m (sp.toNat + off))).r4, (macMulA r4 r3 (m (sp.toNat + off))).r5, (macMulA r4 r3 (m (sp.toNat + off))).r6, (macMulA r4 r3 (m (sp.toNat + off))).r7, r8, r9, r10, r11, r12, sp, lr, some (macMulA r4 r3 (m (sp.toNat + off))).fl.n, some (macMulA r4 r3 (m (sp.toNat + off))).fl.z, some (macMulA r4 r3 (m (sp.toNat + off))).fl.c, some (macMulA r4 r3 (m (sp.toNat + off))).fl.v, m, rd, wr, pc + 20, .running, csm⟩ := by
  generalize hfin : runL _ _ = s'
  t1m_sym [Code.muladd32, Code.part1, Code.part2, Code.part3] at hfin
  subst hfin
  simp only [macMulA]

theorem muladdcarry32_r4_r0 (r0 r1 r2 r3 r4 r5 r6 r7 r8 r9 r10 r11 r12 sp lr : Word) (nf zf cf vf : Option Bool)
    (m : Nat → Word) (rd wr : Nat → Bool) (pc : Nat) (csm : Bool) (off : Nat)
    (h1 : sp.toNat + off < 2 ^ 32) (h2 : (sp.toNat + off) % 4 = 0) (h3 : rd (sp.toNat + off) = true) :
    runL (Code.muladdcarry32 .r4 .r0 off .r0 .r3) ⟨r0, r1, r2, r3, r4, r5, r6, r7, r8, r9, r10, r11, r12, sp, lr, nf, zf, cf, vf, m, rd, wr, pc, .running, csm⟩
      = ⟨(macMulAC r4 r0 (m (sp.toNat + off)) r3).hi, r1, r2, r3, (macMulAC r4 r0 (m (sp.toNat + off)) r3).r4, (macMulAC r4 r0 (m (sp.toNat + off)) r3).r5, (macMulAC r4 r0 (m (sp.toNat + off)) r3).r6, (macMulAC r4 r0 (m (sp.toNat + off)) r3).r7, r8, r9, r10, r11, r12, sp, lr, some (macMulAC r4 r0 (m (sp.toNat + off)) r3).fl.n, some (macMulAC r4 r0 (m (sp.toNat + off)) r3).fl.z, some (macMulAC r4 r0 (m (sp.toNat + off)) r3).fl.c, some (macMulAC r4 r0 (m (sp.toNat + off)) r3).fl.v, m, rd, wr, pc + 22, .running, csm⟩ := by
  generalize hfin : runL _ _ = s'
  t1m_sym [Code.muladdcarry32, Code.part1, Code.part3] at hfin
  subst hfin
  simp only [macMulAC]

theorem muladdcarry32_r4_r3 (r0 r1 r2 r3 r4 r5 r6 r7 r8 r9 r10 r11 r12 sp lr : Word) (nf zf cf vf : Option Bool)
    (m : Nat → Word) (rd wr : Nat → Bool) (pc : Nat) (csm : Bool) (off : Nat)
    (h1 : sp.toNat + off < 2 ^ 32) (h2 : (sp.toNat + off) % 4 = 0) (h3 : rd (sp.toNat + off) = true) :
    runL (Code.muladdcarry32 .r4 .r3 off .r3 .r0) ⟨r0, r1, r2, r3, r4, r5, r6, r7, r8, r9, r10, r11, r12, sp, lr, nf, zf, cf, vf, m, rd, wr, pc, .running, csm⟩
      = ⟨r0, r1, r2, (macMulAC r4 r3 (m (sp.toNat + off)) r0).hi, (macMulAC r4 r3 (m (sp.toNat + off)) r0).r4, (macMulAC r4 r3 (m (sp.toNat + off)) r0).r5, (macMulAC r4 r3 (m (sp.toNat + off)) r0).r6, (macMulAC r4 r3 (m (sp.toNat + off)) r0).r7, r8, r9, r10, r11, r12, sp, lr, some (macMulAC r4 r3 (m (sp.toNat + off)) r0).fl.n, some (macMulAC r4 r3 (m (sp.toNat + off)) r0).fl.z, some (macMulAC r4 r3 (m (sp.toNat + off)) r0).fl.c, some (macMulAC r4 r3 (m (sp.toNat + off)) r0).fl.v, m, rd, wr, pc + 22, .running, csm⟩ := by
  generalize hfin : runL _ _ = s'
  t1m_sym [Code.muladdcarry32, Code.part1, Code.part3] at hfin
  subst hfin
  simp only [macMulAC]

theorem multiply32_r2_r3 (r0 r1 r2 r3 r4 r5 r6 r7 r8 r9 r10 r11 r12 sp lr : Word) (nf zf cf vf : Option Bool)
    (m : Nat → Word) (rd wr : Nat → Bool) (pc : Nat) (csm : Bool) :
    runL (Code.multiply32 .r2 .r3 .r3) ⟨r0, r1, r2, r3, r4, r5, r6, r7, r8, r9, r10, r11, r12, sp, lr, nf, zf, cf, vf, m, rd, wr, pc, .running, csm⟩
      = ⟨r0, r1, r2, (macMul r2 r3).hi, (macMul r2 r3).r4, (macMul r2 r3).r5, (macMul r2 r3).r6, (macMul r2 r3).r7, r8, r9, r10, r11, r12, sp, lr, some (macMul r2 r3).fl.n, some (macMul r2 r3).fl.z, some (macMul r2 r3).fl.c, some (macMul r2 r3).fl.v, m, rd, wr, pc + 18, .running, csm⟩ := by
  generalize hfin : runL _ _ = s'
  t1m_sym [Code.multiply32, Code.part1, Code.part2, Code.part3] at hfin
  subst hfin
  simp only [macMul]

theorem mulcarry32_r2_r0 (r0 r1 r2 r3 r4 r5 r6 r7 r8 r9 r10 r11 r12 sp lr : Word) (nf zf cf vf : Option Bool)
    (m : Nat → Word) (rd wr : Nat → Bool) (pc : Nat) (csm : Bool) :
    runL (Code.mulcarry32 .r2 .r0 .r0 .r3) ⟨r0, r1, r2, r3, r4, r5, r6, r7, r8, r9, r10, r11, r12, sp, lr, nf, zf, cf, vf, m, rd, wr, pc, .running, csm⟩
      = ⟨(macMulC r2 r0 r3).hi, r1, r2, r3, (macMulC r2 r0 r3).r4, (macMulC r2 r0 r3).r5, (macMulC r2 r0 r3).r6, (macMulC r2 r0 r3).r7, r8, r9, r10, r11, r12, sp, lr, some (macMulC r2 r0 r3).fl.n, some (macMulC r2 r0 r3).fl.z, some (macMulC r2 r0 r3).fl.c, some (macMulC r2 r0 r3).fl.v, m, rd, wr, pc + 19, .running, csm⟩ := by
  generalize hfin : runL _ _ = s'
  t1m_sym [Code.mulcarry32, Code.part1, Code.part2, Code.part3] at hfin
  subst hfin
  simp only [macMulC]

theorem mulcarry32_r2_r3 (r0 r1 r2 r3 r4 r5 r6 r7 r8 r9 r10 r11 r12 sp lr : Word) (nf zf cf vf : Option Bool)
    (m : Nat → Word) (rd wr : Nat → Bool) (pc : Nat) (csm : Bool) :
    runL (Code.mulcarry32 .r2 .r3 .r3 .r0) ⟨r0, r1, r2, r3, r4, r5, r6, r7, r8, r9, r10, r11, r12, sp, lr, nf, zf, cf, vf, m, rd, wr, pc, .running, csm⟩
      = ⟨r0, r1, r2, (macMulC r2 r3 r0).hi, (macMulC r2 r3 r0).r4, (macMulC r2 r3 r0).r5, (macMulC r2 r3 r0).r6, (macMulC r2 r3 r0).r7, r8, r9, r10, r11, r12, sp, lr, some (macMulC r2 r3 r0).fl.n, some (macMulC r2 r3 r0).fl.z, some (macMulC r2 r3 r0).fl.c, some (macMulC r2 r3 r0).fl.v, m, rd, wr, pc + 19, .running, csm⟩ := by
  generalize hfin : runL _ _ = s'
  t1m_sym [Code.mulcarry32, Code.part1, Code.part2, Code.part3] at hfin
  subst hfin
  simp only [macMulC]

theorem muladd32_r2_r3 (r0 r1 r2 r3 r4 r5 r6 r7 r8 r9 r10 r11 r12 sp lr : Word) (nf zf cf vf : Option Bool)
    (m : Nat → Word) (rd wr : Nat → Bool) (pc : Nat) (csm : Bool) (off : Nat)
    (h1 : sp.toNat + off < 2 ^ 32) (h2 : (sp.toNat + off) % 4 = 0) (h3 : rd (sp.toNat + off) = true) :
    runL (Code.muladd32 .r2 .r3 off .r3) ⟨r0, r1, r2, r3, r4, r5, r6, r7, r8, r9, r10, r11, r12, sp, lr, nf, zf, cf, vf, m, rd, wr, pc, .running, csm⟩
      = ⟨r0, r1, r2, (macMulA r2 r3 (m (sp.toNat + off))).hi, (macMulA r2 r3 (m (sp.toNat + off))).r4, (macMulA r2 r3 (m (sp.toNat + off))).r5, (macMulA r2 r3 (m (sp.toNat + off))).r6, (macMulA r2 r3 (m (sp.toNat + off))).r7, r8, r9, r10, r11, r12, sp, lr, some (macMulA r2 r3 (m (sp.toNat + off))).fl.n, some (macMulA r2 r3 (m (sp.toNat + off))).fl.z, some (macMulA r2 r3 (m (sp.toNat + off))).fl.c, some (macMulA r2 r3 (m (sp.toNat + off))).fl.v, m, rd, wr, pc + 20, .running, csm⟩ := by
  generalize hfin : runL _ _ = s'
  t1m_sym [Code.muladd32, Code.part1, Code.part2, Code.part3] at hfin
  subst hfin
  simp only [macMulA]

theorem muladdcarry32_r2_r0 (r0 r1 r2 r3 r4 r5 r6 r7 r8 r9 r10 r11 r12 sp lr : Word) (nf zf cf vf : Option Bool)
    (m : Nat → Word) (rd wr : Nat → Bool) (pc : Nat) (csm : Bool) (off : Nat)
    (h1 : sp.toNat + off < 2 ^ 32) (h2 : (sp.toNat + off) % 4 = 0) (h3 : rd (sp.toNat + off) = true) :
    runL (Code.muladdcarry32 .r2 .r0 off .r0 .r3) ⟨r0, r1, r2, r3, r4, r5, r6, r7, r8, r9, r10, r11, r12, sp, lr, nf, zf, cf, vf, m, rd, wr, pc, .running, csm⟩
      = ⟨(macMulAC r2 r0 (m (sp.toNat + off)) r3).hi, r1, r2, r3, (macMulAC r2 r0 (m (sp.toNat + off)) r3).r4, (macMulAC r2 r0 (m (sp.toNat + off)) r3).r5, (macMulAC r2 r0 (m (sp.toNat + off)) r3).r6, (macMulAC r2 r0 (m (sp.toNat + off)) r3).r7, r8, r9, r10, r11, r12, sp, lr, some (macMulAC r2 r0 (m (sp.toNat + off)) r3).fl.n, some (macMulAC r2 r0 (m (sp.toNat + off)) r3).fl.z, some (macMulAC r2 r0 (m (sp.toNat + off)) r3).fl.c, some (macMulAC r2 r0 (m (sp.toNat + off)) r3).fl.v, m, rd, wr, pc + 22, .running, csm⟩ := by
  generalize hfin : runL _ _ = s'
  t1m_sym [Code.muladdcarry32, Code.part1, Code.part3] at hfin
  subst hfin
  simp only [macMulAC]

theorem muladdcarry32_r2_r3 (r0 r1 r2 r3 r4 r5 r6 r7 r8 r9 r10 r11 r12 sp lr : Word) (nf zf cf vf : Option Bool)
    (m : Nat → Word) (rd wr : Nat → Bool) (pc : Nat) (csm : Bool) (off : Nat)
    (h1 : sp.toNat + off < 2 ^ 32) (h2 : (sp.toNat + off) % 4 = 0) (h3 : rd (sp.toNat + off) = true) :
    runL (Code.muladdcarry32 .r2 .r3 off .r3 .r0) ⟨r0, r1, r2, r3, r4, r5, r6, r7, r8, r9, r10, r11, r12, sp, lr, nf, zf, cf, vf, m, rd, wr, pc, .running, csm⟩
      = ⟨r0, r1, r2, (macMulAC r2 r3 (m (sp.toNat + off)) r0).hi, (macMulAC r2 r3 (m (sp.toNat + off)) r0).r4, (macMulAC r2 r3 (m (sp.toNat + off)) r0).r5, (macMulAC r2 r3 (m (sp.toNat + off)) r0).r6, (macMulAC r2 r3 (m (sp.toNat + off)) r0).r7, r8, r9, r10, r11, r12, sp, lr, some (macMulAC r2 r3 (m (sp.toNat + off)) r0).fl.n, some (macMulAC r2 r3 (m (sp.toNat + off)) r0).fl.z, some (macMulAC r2 r3 (m (sp.toNat + off)) r0).fl.c, some (macMulAC r2 r3 (m (sp.toNat + off)) r0).fl.v, m, rd, wr, pc + 22, .running, csm⟩ := by
  generalize hfin : runL _ _ = s'
  t1m_sym [Code.muladdcarry32, Code.part1, Code.part3] at hfin
  subst hfin
  simp only [macMulAC]

theorem squareadd32_r2 (r0 r1 r2 r3 r4 r5 r6 r7 r8 r9 r10 r11 r12 sp lr : Word) (nf zf cf vf : Option Bool)
    (m : Nat → Word) (rd wr : Nat → Bool) (pc : Nat) (csm : Bool) (off : Nat)
    (h1 : sp.toNat + off < 2 ^ 32) (h2 : (sp.toNat + off) % 4 = 0) (h3 : rd (sp.toNat + off) = true) :
    runL (Code.squareadd32 .r2 off .r2) ⟨r0, r1, r2, r3, r4, r5, r6, r7, r8, r9, r10, r11, r12, sp, lr, nf, zf, cf, vf, m, rd, wr, pc, .running, csm⟩
      = ⟨r0, r1, (macSqA r2 (m (sp.toNat + off))).hi, r3, (macSqA r2 (m (sp.toNat + off))).r4, (macSqA r2 (m (sp.toNat + off))).r5, (macSqA r2 (m (sp.toNat + off))).r6, (macSqA r2 (m (sp.toNat + off))).r7, r8, r9, r10, r11, r12, sp, lr, some (macSqA r2 (m (sp.toNat + off))).fl.n, some (macSqA r2 (m (sp.toNat + off))).fl.z, some (macSqA r2 (m (sp.toNat + off))).fl.c, some (macSqA r2 (m (sp.toNat + off))).fl.v, m, rd, wr, pc + 17, .running, csm⟩ := by
  generalize hfin : runL _ _ = s'
  t1m_sym [Code.squareadd32, Code.sqpart1, Code.part2, Code.part3] at hfin
  subst hfin
  simp only [macSqA]

theorem squareaddcarry32_r2 (r0 r1 r2 r3 r4 r5 r6 r7 r8 r9 r10 r11 r12 sp lr : Word) (nf zf cf vf : Option Bool)
    (m : Nat → Word) (rd wr : Nat → Bool) (pc : Nat) (csm : Bool) (off : Nat)
    (h1 : sp.toNat + off < 2 ^ 32) (h2 : (sp.toNat + off) % 4 = 0) (h3 : rd (sp.toNat + off) = true) :
    runL (Code.squareaddcarry32 .r2 off .r2 .r0) ⟨r0, r1, r2, r3, r4, r5, r6, r7, r8, r9, r10, r11, r12, sp, lr, nf, zf, cf, vf, m, rd, wr, pc, .running, csm⟩
      = ⟨r0, r1, (macSqAC r2 (m (sp.toNat + off)) r0).hi, r3, (macSqAC r2 (m (sp.toNat + off)) r0).r4, (macSqAC r2 (m (sp.toNat + off)) r0).r5, (macSqAC r2 (m (sp.toNat + off)) r0).r6, (macSqAC r2 (m (sp.toNat + off)) r0).r7, r8, r9, r10, r11, r12, sp, lr, some (macSqAC r2 (m (sp.toNat + off)) r0).fl.n, some (macSqAC r2 (m (sp.toNat + off)) r0).fl.z, some (macSqAC r2 (m (sp.toNat + off)) r0).fl.c, some (macSqAC r2 (m (sp.toNat + off)) r0).fl.v, m, rd, wr, pc + 19, .running, csm⟩ := by
  generalize hfin : runL _ _ = s'
  t1m_sym [Code.squareaddcarry32, Code.sqpart1, Code.part3] at hfin
  subst hfin
  simp only [macSqAC]

end Jedi.Thumb1
