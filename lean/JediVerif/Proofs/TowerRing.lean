/-
The Spec tower types are commutative rings over any commutative ring of coefficients,
with exactly the Spec operations as ring operations (so `ring` talks about the Spec).
-/
import JediVerif.Spec.Tower
import Mathlib.Tactic.Ring
import Mathlib.Algebra.Ring.Defs

namespace Jedi
open Jedi

section Q2
variable {R : Type} [CommRing R]

@[simp] theorem Q2.add_c0 (a b : Q2 R) : (a + b).c0 = a.c0 + b.c0 := rfl
@[simp] theorem Q2.add_c1 (a b : Q2 R) : (a + b).c1 = a.c1 + b.c1 := rfl
@[simp] theorem Q2.sub_c0 (a b : Q2 R) : (a - b).c0 = a.c0 - b.c0 := rfl
@[simp] theorem Q2.sub_c1 (a b : Q2 R) : (a - b).c1 = a.c1 - b.c1 := rfl
@[simp] theorem Q2.neg_c0 (a : Q2 R) : (-a).c0 = -a.c0 := rfl
@[simp] theorem Q2.neg_c1 (a : Q2 R) : (-a).c1 = -a.c1 := rfl
@[simp] theorem Q2.negf_c0 (a : Q2 R) : (Q2.neg a).c0 = -a.c0 := rfl
@[simp] theorem Q2.negf_c1 (a : Q2 R) : (Q2.neg a).c1 = -a.c1 := rfl
@[simp] theorem Q2.addf_c0 (a b : Q2 R) : (Q2.add a b).c0 = a.c0 + b.c0 := rfl
@[simp] theorem Q2.addf_c1 (a b : Q2 R) : (Q2.add a b).c1 = a.c1 + b.c1 := rfl
@[simp] theorem Q2.subf_c0 (a b : Q2 R) : (Q2.sub a b).c0 = a.c0 - b.c0 := rfl
@[simp] theorem Q2.subf_c1 (a b : Q2 R) : (Q2.sub a b).c1 = a.c1 - b.c1 := rfl
@[simp] theorem Q2.mulf_c0 (a b : Q2 R) : (Q2.mul a b).c0 = a.c0 * b.c0 - a.c1 * b.c1 := rfl
@[simp] theorem Q2.mulf_c1 (a b : Q2 R) : (Q2.mul a b).c1 = a.c0 * b.c1 + a.c1 * b.c0 := rfl
@[simp] theorem Q2.mul_c0 (a b : Q2 R) : (a * b).c0 = a.c0 * b.c0 - a.c1 * b.c1 := rfl
@[simp] theorem Q2.mul_c1 (a b : Q2 R) : (a * b).c1 = a.c0 * b.c1 + a.c1 * b.c0 := rfl
@[simp] theorem Q2.zero_c0 : (0 : Q2 R).c0 = 0 := rfl
@[simp] theorem Q2.zero_c1 : (0 : Q2 R).c1 = 0 := rfl
@[simp] theorem Q2.one_c0 : (1 : Q2 R).c0 = 1 := rfl
@[simp] theorem Q2.one_c1 : (1 : Q2 R).c1 = 0 := rfl
@[simp] theorem Q2.zerof_c0 : (Q2.zero : Q2 R).c0 = 0 := rfl
@[simp] theorem Q2.zerof_c1 : (Q2.zero : Q2 R).c1 = 0 := rfl
@[simp] theorem Q2.onef_c0 : (Q2.one : Q2 R).c0 = 1 := rfl
@[simp] theorem Q2.onef_c1 : (Q2.one : Q2 R).c1 = 0 := rfl
@[simp] theorem Q2.mulXi_c0 (a : Q2 R) : (Q2.mulXi a).c0 = a.c0 - a.c1 := rfl
@[simp] theorem Q2.mulXi_c1 (a : Q2 R) : (Q2.mulXi a).c1 = a.c0 + a.c1 := rfl

instance : CommRing (Q2 R) where
  add := Q2.add
  zero := Q2.zero
  neg := Q2.neg
  mul := Q2.mul
  one := Q2.one
  sub := Q2.sub
  nsmul := nsmulRec
  zsmul := zsmulRec
  add_assoc a b c := by ext <;> simp <;> ring
  zero_add a := by ext <;> simp
  add_zero a := by ext <;> simp
  add_comm a b := by ext <;> simp <;> ring
  neg_add_cancel a := by ext <;> simp
  sub_eq_add_neg a b := by ext <;> simp <;> ring_nf
  mul_assoc a b c := by ext <;> simp <;> ring
  one_mul a := by ext <;> simp
  mul_one a := by ext <;> simp
  left_distrib a b c := by ext <;> simp <;> ring
  right_distrib a b c := by ext <;> simp <;> ring
  zero_mul a := by ext <;> simp
  mul_zero a := by ext <;> simp
  mul_comm a b := by ext <;> simp <;> ring

/-- ξ = 1 + u. -/
def Q2.xi : Q2 R := ⟨1, 1⟩
@[simp] theorem Q2.xi_c0 : (Q2.xi : Q2 R).c0 = 1 := rfl
@[simp] theorem Q2.xi_c1 : (Q2.xi : Q2 R).c1 = 1 := rfl
theorem Q2.mulXi_eq (a : Q2 R) : Q2.mulXi a = Q2.xi * a := by
  ext <;> simp [Q2.xi] <;> ring
end Q2

section Q6
variable {R : Type} [CommRing R]

@[simp] theorem Q6.addf_c0 (a b : Q6 R) : (Q6.add a b).c0 = a.c0 + b.c0 := rfl
@[simp] theorem Q6.addf_c1 (a b : Q6 R) : (Q6.add a b).c1 = a.c1 + b.c1 := rfl
@[simp] theorem Q6.addf_c2 (a b : Q6 R) : (Q6.add a b).c2 = a.c2 + b.c2 := rfl
@[simp] theorem Q6.subf_c0 (a b : Q6 R) : (Q6.sub a b).c0 = a.c0 - b.c0 := rfl
@[simp] theorem Q6.subf_c1 (a b : Q6 R) : (Q6.sub a b).c1 = a.c1 - b.c1 := rfl
@[simp] theorem Q6.subf_c2 (a b : Q6 R) : (Q6.sub a b).c2 = a.c2 - b.c2 := rfl
@[simp] theorem Q6.negf_c0 (a : Q6 R) : (Q6.neg a).c0 = -a.c0 := rfl
@[simp] theorem Q6.negf_c1 (a : Q6 R) : (Q6.neg a).c1 = -a.c1 := rfl
@[simp] theorem Q6.negf_c2 (a : Q6 R) : (Q6.neg a).c2 = -a.c2 := rfl
@[simp] theorem Q6.mulf_c0 (a b : Q6 R) : (Q6.mul a b).c0 = a.c0 * b.c0 + Q2.xi * (a.c1 * b.c2 + a.c2 * b.c1) := by
  simp [Q6.mul, Q2.mulXi_eq]
@[simp] theorem Q6.mulf_c1 (a b : Q6 R) : (Q6.mul a b).c1 = a.c0 * b.c1 + a.c1 * b.c0 + Q2.xi * (a.c2 * b.c2) := by
  simp [Q6.mul, Q2.mulXi_eq]
@[simp] theorem Q6.mulf_c2 (a b : Q6 R) : (Q6.mul a b).c2 = a.c0 * b.c2 + a.c1 * b.c1 + a.c2 * b.c0 := rfl
@[simp] theorem Q6.add_c0 (a b : Q6 R) : (a + b).c0 = a.c0 + b.c0 := rfl
@[simp] theorem Q6.add_c1 (a b : Q6 R) : (a + b).c1 = a.c1 + b.c1 := rfl
@[simp] theorem Q6.add_c2 (a b : Q6 R) : (a + b).c2 = a.c2 + b.c2 := rfl
@[simp] theorem Q6.sub_c0 (a b : Q6 R) : (a - b).c0 = a.c0 - b.c0 := rfl
@[simp] theorem Q6.sub_c1 (a b : Q6 R) : (a - b).c1 = a.c1 - b.c1 := rfl
@[simp] theorem Q6.sub_c2 (a b : Q6 R) : (a - b).c2 = a.c2 - b.c2 := rfl
@[simp] theorem Q6.neg_c0 (a : Q6 R) : (-a).c0 = -a.c0 := rfl
@[simp] theorem Q6.neg_c1 (a : Q6 R) : (-a).c1 = -a.c1 := rfl
@[simp] theorem Q6.neg_c2 (a : Q6 R) : (-a).c2 = -a.c2 := rfl
@[simp] theorem Q6.mul_c0 (a b : Q6 R) : (a * b).c0 = a.c0 * b.c0 + Q2.xi * (a.c1 * b.c2 + a.c2 * b.c1) := Q6.mulf_c0 a b
@[simp] theorem Q6.mul_c1 (a b : Q6 R) : (a * b).c1 = a.c0 * b.c1 + a.c1 * b.c0 + Q2.xi * (a.c2 * b.c2) := Q6.mulf_c1 a b
@[simp] theorem Q6.mul_c2 (a b : Q6 R) : (a * b).c2 = a.c0 * b.c2 + a.c1 * b.c1 + a.c2 * b.c0 := rfl
@[simp] theorem Q6.zero_c0 : (0 : Q6 R).c0 = 0 := rfl
@[simp] theorem Q6.zero_c1 : (0 : Q6 R).c1 = 0 := rfl
@[simp] theorem Q6.zero_c2 : (0 : Q6 R).c2 = 0 := rfl
@[simp] theorem Q6.one_c0 : (1 : Q6 R).c0 = 1 := rfl
@[simp] theorem Q6.one_c1 : (1 : Q6 R).c1 = 0 := rfl
@[simp] theorem Q6.one_c2 : (1 : Q6 R).c2 = 0 := rfl
@[simp] theorem Q6.zerof_c0 : (Q6.zero : Q6 R).c0 = 0 := rfl
@[simp] theorem Q6.zerof_c1 : (Q6.zero : Q6 R).c1 = 0 := rfl
@[simp] theorem Q6.zerof_c2 : (Q6.zero : Q6 R).c2 = 0 := rfl
@[simp] theorem Q6.onef_c0 : (Q6.one : Q6 R).c0 = 1 := rfl
@[simp] theorem Q6.onef_c1 : (Q6.one : Q6 R).c1 = 0 := rfl
@[simp] theorem Q6.onef_c2 : (Q6.one : Q6 R).c2 = 0 := rfl
@[simp] theorem Q6.mulV_c0 (a : Q6 R) : (Q6.mulV a).c0 = Q2.xi * a.c2 := Q2.mulXi_eq _
@[simp] theorem Q6.mulV_c1 (a : Q6 R) : (Q6.mulV a).c1 = a.c0 := rfl
@[simp] theorem Q6.mulV_c2 (a : Q6 R) : (Q6.mulV a).c2 = a.c1 := rfl

instance : CommRing (Q6 R) where
  add := Q6.add
  zero := Q6.zero
  neg := Q6.neg
  mul := Q6.mul
  one := Q6.one
  sub := Q6.sub
  nsmul := nsmulRec
  zsmul := zsmulRec
  add_assoc a b c := by ext1 <;> simp <;> ring
  zero_add a := by ext1 <;> simp
  add_zero a := by ext1 <;> simp
  add_comm a b := by ext1 <;> simp <;> ring
  neg_add_cancel a := by ext1 <;> simp
  sub_eq_add_neg a b := by ext1 <;> simp <;> ring
  mul_assoc a b c := by ext1 <;> simp <;> ring
  one_mul a := by ext1 <;> simp
  mul_one a := by ext1 <;> simp
  left_distrib a b c := by ext1 <;> simp <;> ring
  right_distrib a b c := by ext1 <;> simp <;> ring
  zero_mul a := by ext1 <;> simp
  mul_zero a := by ext1 <;> simp
  mul_comm a b := by ext1 <;> simp <;> ring

/-- the generator v of Q6 over Q2. -/
def Q6.v : Q6 R := ⟨0, 1, 0⟩
@[simp] theorem Q6.v_c0 : (Q6.v : Q6 R).c0 = 0 := rfl
@[simp] theorem Q6.v_c1 : (Q6.v : Q6 R).c1 = 1 := rfl
@[simp] theorem Q6.v_c2 : (Q6.v : Q6 R).c2 = 0 := rfl
theorem Q6.mulV_eq (a : Q6 R) : Q6.mulV a = Q6.v * a := by
  ext1 <;> simp [Q6.v]
end Q6

section Q12
variable {R : Type} [CommRing R]

@[simp] theorem Q12.addf_c0 (a b : Q12 R) : (Q12.add a b).c0 = a.c0 + b.c0 := rfl
@[simp] theorem Q12.addf_c1 (a b : Q12 R) : (Q12.add a b).c1 = a.c1 + b.c1 := rfl
@[simp] theorem Q12.subf_c0 (a b : Q12 R) : (Q12.sub a b).c0 = a.c0 - b.c0 := rfl
@[simp] theorem Q12.subf_c1 (a b : Q12 R) : (Q12.sub a b).c1 = a.c1 - b.c1 := rfl
@[simp] theorem Q12.negf_c0 (a : Q12 R) : (Q12.neg a).c0 = -a.c0 := rfl
@[simp] theorem Q12.negf_c1 (a : Q12 R) : (Q12.neg a).c1 = -a.c1 := rfl
@[simp] theorem Q12.mulf_c0 (a b : Q12 R) : (Q12.mul a b).c0 = a.c0 * b.c0 + Q6.v * (a.c1 * b.c1) := by
  simp [Q12.mul, Q6.mulV_eq]
@[simp] theorem Q12.mulf_c1 (a b : Q12 R) : (Q12.mul a b).c1 = a.c0 * b.c1 + a.c1 * b.c0 := rfl
@[simp] theorem Q12.add_c0 (a b : Q12 R) : (a + b).c0 = a.c0 + b.c0 := rfl
@[simp] theorem Q12.add_c1 (a b : Q12 R) : (a + b).c1 = a.c1 + b.c1 := rfl
@[simp] theorem Q12.sub_c0 (a b : Q12 R) : (a - b).c0 = a.c0 - b.c0 := rfl
@[simp] theorem Q12.sub_c1 (a b : Q12 R) : (a - b).c1 = a.c1 - b.c1 := rfl
@[simp] theorem Q12.neg_c0 (a : Q12 R) : (-a).c0 = -a.c0 := rfl
@[simp] theorem Q12.neg_c1 (a : Q12 R) : (-a).c1 = -a.c1 := rfl
@[simp] theorem Q12.mul_c0 (a b : Q12 R) : (a * b).c0 = a.c0 * b.c0 + Q6.v * (a.c1 * b.c1) := Q12.mulf_c0 a b
@[simp] theorem Q12.mul_c1 (a b : Q12 R) : (a * b).c1 = a.c0 * b.c1 + a.c1 * b.c0 := rfl
@[simp] theorem Q12.zero_c0 : (0 : Q12 R).c0 = 0 := rfl
@[simp] theorem Q12.zero_c1 : (0 : Q12 R).c1 = 0 := rfl
@[simp] theorem Q12.one_c0 : (1 : Q12 R).c0 = 1 := rfl
@[simp] theorem Q12.one_c1 : (1 : Q12 R).c1 = 0 := rfl
@[simp] theorem Q12.zerof_c0 : (Q12.zero : Q12 R).c0 = 0 := rfl
@[simp] theorem Q12.zerof_c1 : (Q12.zero : Q12 R).c1 = 0 := rfl
@[simp] theorem Q12.onef_c0 : (Q12.one : Q12 R).c0 = 1 := rfl
@[simp] theorem Q12.onef_c1 : (Q12.one : Q12 R).c1 = 0 := rfl

instance : CommRing (Q12 R) where
  add := Q12.add
  zero := Q12.zero
  neg := Q12.neg
  mul := Q12.mul
  one := Q12.one
  sub := Q12.sub
  nsmul := nsmulRec
  zsmul := zsmulRec
  add_assoc a b c := by ext1 <;> simp <;> ring
  zero_add a := by ext1 <;> simp
  add_zero a := by ext1 <;> simp
  add_comm a b := by ext1 <;> simp <;> ring
  neg_add_cancel a := by ext1 <;> simp
  sub_eq_add_neg a b := by ext1 <;> simp <;> ring
  mul_assoc a b c := by ext1 <;> simp <;> ring
  one_mul a := by ext1 <;> simp
  mul_one a := by ext1 <;> simp
  left_distrib a b c := by ext1 <;> simp <;> ring
  right_distrib a b c := by ext1 <;> simp <;> ring
  zero_mul a := by ext1 <;> simp
  mul_zero a := by ext1 <;> simp
  mul_comm a b := by ext1 <;> simp <;> ring
end Q12

end Jedi
