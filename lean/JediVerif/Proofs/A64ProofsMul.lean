/-
Theorems about the AArch64 assembly of /repo/src/core/arch/aarch64/multiply.s (as regenerated into
`JediVerif/Gen/AsmA64.lean`, executed by the machine model of `JediVerif/Impl/A64.lean`): this file has the
macro lemmas shared by all multiplication-like routines and `bigint_768_multiply`.

Method (as in `AsmMulProofs.lean` for x86-64).  The symbolic execution is cut into pieces: for consecutive
instruction ranges a lemma `…_part k` states `run P (state after k pieces) n = (state after k+1 pieces)` where
both states are explicit records over the entry state `s` and over named intermediates (every `mulLo`/`mulHi`/
`addWithCarry` result is a variable with a defining hypothesis).  The pieces are chained with `run_chain`.  The
arithmetic is then done on the named intermediates alone: one Nat equation per macro instance, and one
`linear_combination` of the 42 equations with weights `2^(64(i+j))`.

The statements and the part lemmas are written by an authoring script from the generated program (a symbolic
executor that mirrors `Impl/A64.lean`); nothing in this file depends on the script: if the assembly changes, the
generated program changes and the part lemmas no longer check.
-/
import JediVerif.Proofs.A64Proofs

set_option linter.unusedSimpArgs false

namespace Jedi.A64
open Lean Meta Simp
open Jedi.Impl (val WF val_cons val_nil val_lt val_inj)
open Jedi.X86 (limbs limbs_six limbs_twelve limbs_length limbs_WF Hide Hide.mk Hide.out ea_toNat)

/-! ### the macros of multiply.s, as Nat equations over the named intermediates

"The carry status flag is implicitly part of carry_in and carry_out" (multiply.s): every macro takes a carry as a
pair (register, flag) with `register + flag ≤ 2^64 − 1` and hands on such a pair; that invariant is what makes the
`adcs carry, carry, xzr` inside `muladdcarry64` and at the end of each row lose nothing. -/

theorem awc_zero_c : (addWithCarry (0 : Word) (0 : Word) false).c = false := by decide

section macros
variable {a b cin dst lo hi r : Word} {cf : Bool} {t t1 t2 t3 : ArithRes}

/-- `multiply64`: `dst:carry := a·b` -/
theorem multiply64_spec (hlo : lo = mulLo a b) (hhi : hi = mulHi a b) :
    lo.toNat + 2 ^ 64 * hi.toNat = a.toNat * b.toNat ∧ hi.toNat ≤ 2 ^ 64 - 2 := by
  have hm := mul_spec a b; rw [← hlo, ← hhi] at hm
  have hb := mul_lt a b
  have := lo.isLt
  generalize a.toNat * b.toNat = p at *
  omega

/-- `mulcarry64`: `dst:(carry_out, flag) := a·b + (carry_in, flag)` -/
theorem mulcarry64_spec (hlo : lo = mulLo a b) (hhi : hi = mulHi a b) (ht : t = addWithCarry lo cin cf)
    (hinv : cin.toNat + cf.toNat ≤ 2 ^ 64 - 1) :
    t.val.toNat + 2 ^ 64 * (hi.toNat + t.c.toNat) = a.toNat * b.toNat + (cin.toNat + cf.toNat) ∧
    hi.toNat + t.c.toNat ≤ 2 ^ 64 - 1 := by
  have hm := mul_spec a b; rw [← hlo, ← hhi] at hm
  have hb := mul_lt a b
  have e1 := awc_spec lo cin cf; rw [← ht] at e1
  have := lo.isLt; have := hi.isLt; have := t.val.isLt; have := Bool.toNat_le t.c
  generalize a.toNat * b.toNat = p at *
  omega

/-- `muladd64`: `dst:(carry_out, flag) := a·b + dst` -/
theorem muladd64_spec (hlo : lo = mulLo a b) (hhi : hi = mulHi a b) (ht : t = addWithCarry dst lo false) :
    t.val.toNat + 2 ^ 64 * (hi.toNat + t.c.toNat) = a.toNat * b.toNat + dst.toNat ∧
    hi.toNat + t.c.toNat ≤ 2 ^ 64 - 1 := by
  have hm := mul_spec a b; rw [← hlo, ← hhi] at hm
  have hb := mul_lt a b
  have e1 := awc_spec dst lo false; rw [← ht] at e1
  have := lo.isLt; have := hi.isLt; have := dst.isLt; have := t.val.isLt; have := Bool.toNat_le t.c
  simp only [Bool.toNat_false] at e1
  generalize a.toNat * b.toNat = p at *
  omega

/-- `muladdcarry64`: `dst:(carry_out, flag) := a·b + dst + (carry_in, flag)` -/
theorem muladdcarry64_spec (hlo : lo = mulLo a b) (hhi : hi = mulHi a b) (ht1 : t1 = addWithCarry dst lo cf)
    (ht2 : t2 = addWithCarry hi (0 : Word) t1.c) (ht3 : t3 = addWithCarry t1.val cin false)
    (hinv : cin.toNat + cf.toNat ≤ 2 ^ 64 - 1) :
    t3.val.toNat + 2 ^ 64 * (t2.val.toNat + t3.c.toNat)
      = a.toNat * b.toNat + dst.toNat + (cin.toNat + cf.toNat) ∧
    t2.val.toNat + t3.c.toNat ≤ 2 ^ 64 - 1 := by
  have hm := mul_spec a b; rw [← hlo, ← hhi] at hm
  have hb := mul_lt a b
  have e1 := awc_spec dst lo cf; rw [← ht1] at e1
  have e2 := awc_spec hi (0 : Word) t1.c; rw [← ht2] at e2
  have e3 := awc_spec t1.val cin false; rw [← ht3] at e3
  have h0 : (0 : Word).toNat = 0 := rfl
  have := lo.isLt; have := hi.isLt; have := cin.isLt; have := dst.isLt
  have := t1.val.isLt; have := t2.val.isLt; have := t3.val.isLt
  have := Bool.toNat_le t1.c; have := Bool.toNat_le t2.c; have := Bool.toNat_le t3.c; have := Bool.toNat_le cf
  simp only [Bool.toNat_false, h0] at e2 e3
  generalize a.toNat * b.toNat = p at *
  omega

/-- `adcs r, r, xzr` at the end of a row: the carry pair is folded into one register, nothing is lost -/
theorem rowend_spec (ht : t = addWithCarry r (0 : Word) cf) (hinv : r.toNat + cf.toNat ≤ 2 ^ 64 - 1) :
    t.val.toNat = r.toNat + cf.toNat := by
  have e1 := awc_spec r (0 : Word) cf; rw [← ht] at e1
  have h0 : (0 : Word).toNat = 0 := rfl
  have := t.val.isLt; have := Bool.toNat_le t.c
  rw [h0] at e1
  omega

end macros

open Jedi.Gen.AsmA64

/-! ## `bigint_768_multiply`: symbolic execution, cut into pieces -/

set_option maxHeartbeats 1600000 in
theorem mul768_part0 (s : State) (pr pa pb : Word)
    (hr : Buf s pr 12 true) (ha : Buf s pa 6 false) (hb : Buf s pb 6 false)
    (hstk : Stack s 5) (hrs : OffStack s 5 pr 12) (has : OffStack s 5 pa 6) (hbs : OffStack s 5 pb 6) {a0 a1 a2 a3 a4 a5 b0 b1 b2 b3 b4 b5 h12 h15 h18 h21 h24 h27 l13 l14 l17 l20 l23 l26 : Word} {t11 t16 t19 t22 t25 t28 t29 : ArithRes}
    (hst : s.status = .running) (hpc : s.pc = 0) (h0 : s.x0 = pr) (h1 : s.x1 = pa) (h2 : s.x2 = pb) (ha0 : a0 = s.mem pa.toNat) (ha1 : a1 = s.mem (pa.toNat + 8)) (ha2 : a2 = s.mem (pa.toNat + 16))
    (ha3 : a3 = s.mem (pa.toNat + 24)) (ha4 : a4 = s.mem (pa.toNat + 32)) (ha5 : a5 = s.mem (pa.toNat + 40))
    (hb0 : b0 = s.mem pb.toNat) (hb1 : b1 = s.mem (pb.toNat + 8)) (hb2 : b2 = s.mem (pb.toNat + 16))
    (hb3 : b3 = s.mem (pb.toNat + 24)) (hb4 : b4 = s.mem (pb.toNat + 32)) (hb5 : b5 = s.mem (pb.toNat + 40))
    (ht11 : t11 = addWithCarry (0 : Word) (0 : Word) false) (hh12 : h12 = mulHi a0 b0) (hl13 : l13 = mulLo a0 b0)
    (hl14 : l14 = mulLo a0 b1) (hh15 : h15 = mulHi a0 b1) (ht16 : t16 = addWithCarry l14 h12 t11.c)
    (hl17 : l17 = mulLo a0 b2) (hh18 : h18 = mulHi a0 b2) (ht19 : t19 = addWithCarry l17 h15 t16.c)
    (hl20 : l20 = mulLo a0 b3) (hh21 : h21 = mulHi a0 b3) (ht22 : t22 = addWithCarry l20 h18 t19.c)
    (hl23 : l23 = mulLo a0 b4) (hh24 : h24 = mulHi a0 b4) (ht25 : t25 = addWithCarry l23 h21 t22.c)
    (hl26 : l26 = mulLo a0 b5) (hh27 : h27 = mulHi a0 b5) (ht28 : t28 = addWithCarry l26 h24 t25.c)
    (ht29 : t29 = addWithCarry h27 (0 : Word) t28.c) :
    run embedded_pairing_core_arch_aarch64_bigint_768_multiply s 30
      = ({ x0 := pr, x1 := l13, x2 := a0, x3 := a1, x4 := a2, x5 := a3, x6 := a4, x7 := a5, x8 := s.x8, x9 := b0, x10 := b1, x11 := b2, x12 := b3, x13 := b4, x14 := b5, x15 := t16.val, x16 := s.x16, x17 := s.x17, x18 := s.x18, x19 := t19.val, x20 := t22.val, x21 := t25.val, x22 := t28.val, x23 := t29.val, x24 := s.x24, x25 := s.x25, x26 := s.x26, x27 := s.x27, x28 := h24, x29 := s.x29, x30 := s.x30, sp := s.sp - 16#64 - 16#64 - 16#64 - 16#64 - 16#64, nf := some t29.n, zf := some t29.z, cf := some t29.c, vf := some t29.v, mem := setMem (setMem (setMem (setMem (setMem (setMem (setMem (setMem (setMem (setMem (s.mem) (s.sp.toNat - 16) s.x19) (s.sp.toNat - 16 + 8) s.x20) (s.sp.toNat - 16 - 16) s.x21) (s.sp.toNat - 16 - 16 + 8) s.x22) (s.sp.toNat - 16 - 16 - 16) s.x23) (s.sp.toNat - 16 - 16 - 16 + 8) s.x24) (s.sp.toNat - 16 - 16 - 16 - 16) s.x25) (s.sp.toNat - 16 - 16 - 16 - 16 + 8) s.x26) (s.sp.toNat - 16 - 16 - 16 - 16 - 16) s.x27) (s.sp.toNat - 16 - 16 - 16 - 16 - 16 + 8) s.x28, readable := s.readable, writable := s.writable, pc := 30, status := .running } : State) := by
  obtain ⟨ra0, ra1, ra2, ra3, ra4, ra5⟩ := ha.r6
  obtain ⟨⟨alra0, alra1, alra2, alra3, alra4, alra5⟩, fra1, fra2, fra3, fra4, fra5⟩ := ha.addr6
  obtain ⟨rb0, rb1, rb2, rb3, rb4, rb5⟩ := hb.r6
  obtain ⟨⟨alrb0, alrb1, alrb2, alrb3, alrb4, alrb5⟩, frb1, frb2, frb3, frb4, frb5⟩ := hb.addr6
  obtain ⟨rr0, rr1, rr2, rr3, rr4, rr5, rr6, rr7, rr8, rr9, rr10, rr11⟩ := hr.r12
  obtain ⟨wr0, wr1, wr2, wr3, wr4, wr5, wr6, wr7, wr8, wr9, wr10, wr11⟩ := hr.w12
  obtain ⟨⟨alrr0, alrr1, alrr2, alrr3, alrr4, alrr5, alrr6, alrr7, alrr8, alrr9, alrr10, alrr11⟩, frr1, frr2, frr3, frr4, frr5, frr6, frr7, frr8, frr9, frr10, frr11⟩ := hr.addr12
  have als0 := hstk.aligned
  obtain ⟨room1, als1, alq1a, alq1b, sr1a, sr1b, sw1a, sw1b⟩ := hstk.f1 (by omega)
  obtain ⟨room2, als2, alq2a, alq2b, sr2a, sr2b, sw2a, sw2b⟩ := hstk.f2 (by omega)
  obtain ⟨room3, als3, alq3a, alq3b, sr3a, sr3b, sw3a, sw3b⟩ := hstk.f3 (by omega)
  obtain ⟨room4, als4, alq4a, alq4b, sr4a, sr4b, sw4a, sw4b⟩ := hstk.f4 (by omega)
  obtain ⟨room5, als5, alq5a, alq5b, sr5a, sr5b, sw5a, sw5b⟩ := hstk.f5 (by omega)
  replace hrs := Hide.mk (And.intro room5 hrs); replace has := Hide.mk (And.intro room5 has)
  replace hbs := Hide.mk (And.intro room5 hbs)
  simp only [OffStack] at hrs has hbs
  clear ha hb hr hstk
  rw [State.eta s]
  a64_sym [hst, hpc, h0, h1, h2, ← ha0, ← ha1, ← ha2, ← ha3, ← ha4, ← ha5, ← hb0, ← hb1, ← hb2, ← hb3, ← hb4, ← hb5, ← ht11, ← hh12, ← hl13, ← hl14, ← hh15, ← ht16, ← hl17, ← hh18, ← ht19, ← hl20, ← hh21, ← ht22, ← hl23, ← hh24, ← ht25, ← hl26, ← hh27, ← ht28, ← ht29]

set_option maxHeartbeats 1600000 in
theorem mul768_part1 (s : State) (pr pa pb : Word)
    (hr : Buf s pr 12 true) (ha : Buf s pa 6 false) (hb : Buf s pb 6 false)
    (hstk : Stack s 5) (hrs : OffStack s 5 pr 12) (has : OffStack s 5 pa 6) (hbs : OffStack s 5 pb 6) {a0 a1 a2 a3 a4 a5 b0 b1 b2 b3 b4 b5 h24 h31 h34 h39 h44 h49 h54 l13 l30 l33 l38 l43 l48 l53 : Word} {t16 t19 t22 t25 t28 t29 t32 t35 t36 t37 t40 t41 t42 t45 t46 t47 t50 t51 t52 t55 t56 t57 t58 : ArithRes}
    (hl30 : l30 = mulLo a1 b0) (hh31 : h31 = mulHi a1 b0) (ht32 : t32 = addWithCarry t16.val l30 false)
    (hl33 : l33 = mulLo a1 b1) (hh34 : h34 = mulHi a1 b1) (ht35 : t35 = addWithCarry t19.val l33 t32.c)
    (ht36 : t36 = addWithCarry h34 (0 : Word) t35.c) (ht37 : t37 = addWithCarry t35.val h31 false)
    (hl38 : l38 = mulLo a1 b2) (hh39 : h39 = mulHi a1 b2) (ht40 : t40 = addWithCarry t22.val l38 t37.c)
    (ht41 : t41 = addWithCarry h39 (0 : Word) t40.c) (ht42 : t42 = addWithCarry t40.val t36.val false)
    (hl43 : l43 = mulLo a1 b3) (hh44 : h44 = mulHi a1 b3) (ht45 : t45 = addWithCarry t25.val l43 t42.c)
    (ht46 : t46 = addWithCarry h44 (0 : Word) t45.c) (ht47 : t47 = addWithCarry t45.val t41.val false)
    (hl48 : l48 = mulLo a1 b4) (hh49 : h49 = mulHi a1 b4) (ht50 : t50 = addWithCarry t28.val l48 t47.c)
    (ht51 : t51 = addWithCarry h49 (0 : Word) t50.c) (ht52 : t52 = addWithCarry t50.val t46.val false)
    (hl53 : l53 = mulLo a1 b5) (hh54 : h54 = mulHi a1 b5) (ht55 : t55 = addWithCarry t29.val l53 t52.c)
    (ht56 : t56 = addWithCarry h54 (0 : Word) t55.c) (ht57 : t57 = addWithCarry t55.val t51.val false)
    (ht58 : t58 = addWithCarry t56.val (0 : Word) t57.c) :
    run embedded_pairing_core_arch_aarch64_bigint_768_multiply ({ x0 := pr, x1 := l13, x2 := a0, x3 := a1, x4 := a2, x5 := a3, x6 := a4, x7 := a5, x8 := s.x8, x9 := b0, x10 := b1, x11 := b2, x12 := b3, x13 := b4, x14 := b5, x15 := t16.val, x16 := s.x16, x17 := s.x17, x18 := s.x18, x19 := t19.val, x20 := t22.val, x21 := t25.val, x22 := t28.val, x23 := t29.val, x24 := s.x24, x25 := s.x25, x26 := s.x26, x27 := s.x27, x28 := h24, x29 := s.x29, x30 := s.x30, sp := s.sp - 16#64 - 16#64 - 16#64 - 16#64 - 16#64, nf := some t29.n, zf := some t29.z, cf := some t29.c, vf := some t29.v, mem := setMem (setMem (setMem (setMem (setMem (setMem (setMem (setMem (setMem (setMem (s.mem) (s.sp.toNat - 16) s.x19) (s.sp.toNat - 16 + 8) s.x20) (s.sp.toNat - 16 - 16) s.x21) (s.sp.toNat - 16 - 16 + 8) s.x22) (s.sp.toNat - 16 - 16 - 16) s.x23) (s.sp.toNat - 16 - 16 - 16 + 8) s.x24) (s.sp.toNat - 16 - 16 - 16 - 16) s.x25) (s.sp.toNat - 16 - 16 - 16 - 16 + 8) s.x26) (s.sp.toNat - 16 - 16 - 16 - 16 - 16) s.x27) (s.sp.toNat - 16 - 16 - 16 - 16 - 16 + 8) s.x28, readable := s.readable, writable := s.writable, pc := 30, status := .running } : State) 29
      = ({ x0 := pr, x1 := l13, x2 := l53, x3 := a1, x4 := a2, x5 := a3, x6 := a4, x7 := a5, x8 := s.x8, x9 := b0, x10 := b1, x11 := b2, x12 := b3, x13 := b4, x14 := b5, x15 := t32.val, x16 := s.x16, x17 := s.x17, x18 := s.x18, x19 := t37.val, x20 := t42.val, x21 := t47.val, x22 := t52.val, x23 := t57.val, x24 := t58.val, x25 := s.x25, x26 := s.x26, x27 := s.x27, x28 := t51.val, x29 := s.x29, x30 := s.x30, sp := s.sp - 16#64 - 16#64 - 16#64 - 16#64 - 16#64, nf := some t58.n, zf := some t58.z, cf := some t58.c, vf := some t58.v, mem := setMem (setMem (setMem (setMem (setMem (setMem (setMem (setMem (setMem (setMem (s.mem) (s.sp.toNat - 16) s.x19) (s.sp.toNat - 16 + 8) s.x20) (s.sp.toNat - 16 - 16) s.x21) (s.sp.toNat - 16 - 16 + 8) s.x22) (s.sp.toNat - 16 - 16 - 16) s.x23) (s.sp.toNat - 16 - 16 - 16 + 8) s.x24) (s.sp.toNat - 16 - 16 - 16 - 16) s.x25) (s.sp.toNat - 16 - 16 - 16 - 16 + 8) s.x26) (s.sp.toNat - 16 - 16 - 16 - 16 - 16) s.x27) (s.sp.toNat - 16 - 16 - 16 - 16 - 16 + 8) s.x28, readable := s.readable, writable := s.writable, pc := 59, status := .running } : State) := by
  obtain ⟨ra0, ra1, ra2, ra3, ra4, ra5⟩ := ha.r6
  obtain ⟨⟨alra0, alra1, alra2, alra3, alra4, alra5⟩, fra1, fra2, fra3, fra4, fra5⟩ := ha.addr6
  obtain ⟨rb0, rb1, rb2, rb3, rb4, rb5⟩ := hb.r6
  obtain ⟨⟨alrb0, alrb1, alrb2, alrb3, alrb4, alrb5⟩, frb1, frb2, frb3, frb4, frb5⟩ := hb.addr6
  obtain ⟨rr0, rr1, rr2, rr3, rr4, rr5, rr6, rr7, rr8, rr9, rr10, rr11⟩ := hr.r12
  obtain ⟨wr0, wr1, wr2, wr3, wr4, wr5, wr6, wr7, wr8, wr9, wr10, wr11⟩ := hr.w12
  obtain ⟨⟨alrr0, alrr1, alrr2, alrr3, alrr4, alrr5, alrr6, alrr7, alrr8, alrr9, alrr10, alrr11⟩, frr1, frr2, frr3, frr4, frr5, frr6, frr7, frr8, frr9, frr10, frr11⟩ := hr.addr12
  have als0 := hstk.aligned
  obtain ⟨room1, als1, alq1a, alq1b, sr1a, sr1b, sw1a, sw1b⟩ := hstk.f1 (by omega)
  obtain ⟨room2, als2, alq2a, alq2b, sr2a, sr2b, sw2a, sw2b⟩ := hstk.f2 (by omega)
  obtain ⟨room3, als3, alq3a, alq3b, sr3a, sr3b, sw3a, sw3b⟩ := hstk.f3 (by omega)
  obtain ⟨room4, als4, alq4a, alq4b, sr4a, sr4b, sw4a, sw4b⟩ := hstk.f4 (by omega)
  obtain ⟨room5, als5, alq5a, alq5b, sr5a, sr5b, sw5a, sw5b⟩ := hstk.f5 (by omega)
  replace hrs := Hide.mk (And.intro room5 hrs); replace has := Hide.mk (And.intro room5 has)
  replace hbs := Hide.mk (And.intro room5 hbs)
  simp only [OffStack] at hrs has hbs
  clear ha hb hr hstk
  a64_sym [← hl30, ← hh31, ← ht32, ← hl33, ← hh34, ← ht35, ← ht36, ← ht37, ← hl38, ← hh39, ← ht40, ← ht41, ← ht42, ← hl43, ← hh44, ← ht45, ← ht46, ← ht47, ← hl48, ← hh49, ← ht50, ← ht51, ← ht52, ← hl53, ← hh54, ← ht55, ← ht56, ← ht57, ← ht58]

set_option maxHeartbeats 1600000 in
theorem mul768_part2 (s : State) (pr pa pb : Word)
    (hr : Buf s pr 12 true) (ha : Buf s pa 6 false) (hb : Buf s pb 6 false)
    (hstk : Stack s 5) (hrs : OffStack s 5 pr 12) (has : OffStack s 5 pa 6) (hbs : OffStack s 5 pb 6) {a1 a2 a3 a4 a5 b0 b1 b2 b3 b4 b5 h60 h63 h68 h73 h78 h83 l13 l53 l59 l62 l67 l72 l77 l82 : Word} {t32 t37 t42 t47 t51 t52 t57 t58 t61 t64 t65 t66 t69 t70 t71 t74 t75 t76 t79 t80 t81 t84 t85 t86 t87 : ArithRes}
    (hl59 : l59 = mulLo a2 b0) (hh60 : h60 = mulHi a2 b0) (ht61 : t61 = addWithCarry t37.val l59 false)
    (hl62 : l62 = mulLo a2 b1) (hh63 : h63 = mulHi a2 b1) (ht64 : t64 = addWithCarry t42.val l62 t61.c)
    (ht65 : t65 = addWithCarry h63 (0 : Word) t64.c) (ht66 : t66 = addWithCarry t64.val h60 false)
    (hl67 : l67 = mulLo a2 b2) (hh68 : h68 = mulHi a2 b2) (ht69 : t69 = addWithCarry t47.val l67 t66.c)
    (ht70 : t70 = addWithCarry h68 (0 : Word) t69.c) (ht71 : t71 = addWithCarry t69.val t65.val false)
    (hl72 : l72 = mulLo a2 b3) (hh73 : h73 = mulHi a2 b3) (ht74 : t74 = addWithCarry t52.val l72 t71.c)
    (ht75 : t75 = addWithCarry h73 (0 : Word) t74.c) (ht76 : t76 = addWithCarry t74.val t70.val false)
    (hl77 : l77 = mulLo a2 b4) (hh78 : h78 = mulHi a2 b4) (ht79 : t79 = addWithCarry t57.val l77 t76.c)
    (ht80 : t80 = addWithCarry h78 (0 : Word) t79.c) (ht81 : t81 = addWithCarry t79.val t75.val false)
    (hl82 : l82 = mulLo a2 b5) (hh83 : h83 = mulHi a2 b5) (ht84 : t84 = addWithCarry t58.val l82 t81.c)
    (ht85 : t85 = addWithCarry h83 (0 : Word) t84.c) (ht86 : t86 = addWithCarry t84.val t80.val false)
    (ht87 : t87 = addWithCarry t85.val (0 : Word) t86.c) :
    run embedded_pairing_core_arch_aarch64_bigint_768_multiply ({ x0 := pr, x1 := l13, x2 := l53, x3 := a1, x4 := a2, x5 := a3, x6 := a4, x7 := a5, x8 := s.x8, x9 := b0, x10 := b1, x11 := b2, x12 := b3, x13 := b4, x14 := b5, x15 := t32.val, x16 := s.x16, x17 := s.x17, x18 := s.x18, x19 := t37.val, x20 := t42.val, x21 := t47.val, x22 := t52.val, x23 := t57.val, x24 := t58.val, x25 := s.x25, x26 := s.x26, x27 := s.x27, x28 := t51.val, x29 := s.x29, x30 := s.x30, sp := s.sp - 16#64 - 16#64 - 16#64 - 16#64 - 16#64, nf := some t58.n, zf := some t58.z, cf := some t58.c, vf := some t58.v, mem := setMem (setMem (setMem (setMem (setMem (setMem (setMem (setMem (setMem (setMem (s.mem) (s.sp.toNat - 16) s.x19) (s.sp.toNat - 16 + 8) s.x20) (s.sp.toNat - 16 - 16) s.x21) (s.sp.toNat - 16 - 16 + 8) s.x22) (s.sp.toNat - 16 - 16 - 16) s.x23) (s.sp.toNat - 16 - 16 - 16 + 8) s.x24) (s.sp.toNat - 16 - 16 - 16 - 16) s.x25) (s.sp.toNat - 16 - 16 - 16 - 16 + 8) s.x26) (s.sp.toNat - 16 - 16 - 16 - 16 - 16) s.x27) (s.sp.toNat - 16 - 16 - 16 - 16 - 16 + 8) s.x28, readable := s.readable, writable := s.writable, pc := 59, status := .running } : State) 29
      = ({ x0 := pr, x1 := l13, x2 := l82, x3 := t80.val, x4 := a2, x5 := a3, x6 := a4, x7 := a5, x8 := s.x8, x9 := b0, x10 := b1, x11 := b2, x12 := b3, x13 := b4, x14 := b5, x15 := t32.val, x16 := s.x16, x17 := s.x17, x18 := s.x18, x19 := t61.val, x20 := t66.val, x21 := t71.val, x22 := t76.val, x23 := t81.val, x24 := t86.val, x25 := t87.val, x26 := s.x26, x27 := s.x27, x28 := t51.val, x29 := s.x29, x30 := s.x30, sp := s.sp - 16#64 - 16#64 - 16#64 - 16#64 - 16#64, nf := some t87.n, zf := some t87.z, cf := some t87.c, vf := some t87.v, mem := setMem (setMem (setMem (setMem (setMem (setMem (setMem (setMem (setMem (setMem (s.mem) (s.sp.toNat - 16) s.x19) (s.sp.toNat - 16 + 8) s.x20) (s.sp.toNat - 16 - 16) s.x21) (s.sp.toNat - 16 - 16 + 8) s.x22) (s.sp.toNat - 16 - 16 - 16) s.x23) (s.sp.toNat - 16 - 16 - 16 + 8) s.x24) (s.sp.toNat - 16 - 16 - 16 - 16) s.x25) (s.sp.toNat - 16 - 16 - 16 - 16 + 8) s.x26) (s.sp.toNat - 16 - 16 - 16 - 16 - 16) s.x27) (s.sp.toNat - 16 - 16 - 16 - 16 - 16 + 8) s.x28, readable := s.readable, writable := s.writable, pc := 88, status := .running } : State) := by
  obtain ⟨ra0, ra1, ra2, ra3, ra4, ra5⟩ := ha.r6
  obtain ⟨⟨alra0, alra1, alra2, alra3, alra4, alra5⟩, fra1, fra2, fra3, fra4, fra5⟩ := ha.addr6
  obtain ⟨rb0, rb1, rb2, rb3, rb4, rb5⟩ := hb.r6
  obtain ⟨⟨alrb0, alrb1, alrb2, alrb3, alrb4, alrb5⟩, frb1, frb2, frb3, frb4, frb5⟩ := hb.addr6
  obtain ⟨rr0, rr1, rr2, rr3, rr4, rr5, rr6, rr7, rr8, rr9, rr10, rr11⟩ := hr.r12
  obtain ⟨wr0, wr1, wr2, wr3, wr4, wr5, wr6, wr7, wr8, wr9, wr10, wr11⟩ := hr.w12
  obtain ⟨⟨alrr0, alrr1, alrr2, alrr3, alrr4, alrr5, alrr6, alrr7, alrr8, alrr9, alrr10, alrr11⟩, frr1, frr2, frr3, frr4, frr5, frr6, frr7, frr8, frr9, frr10, frr11⟩ := hr.addr12
  have als0 := hstk.aligned
  obtain ⟨room1, als1, alq1a, alq1b, sr1a, sr1b, sw1a, sw1b⟩ := hstk.f1 (by omega)
  obtain ⟨room2, als2, alq2a, alq2b, sr2a, sr2b, sw2a, sw2b⟩ := hstk.f2 (by omega)
  obtain ⟨room3, als3, alq3a, alq3b, sr3a, sr3b, sw3a, sw3b⟩ := hstk.f3 (by omega)
  obtain ⟨room4, als4, alq4a, alq4b, sr4a, sr4b, sw4a, sw4b⟩ := hstk.f4 (by omega)
  obtain ⟨room5, als5, alq5a, alq5b, sr5a, sr5b, sw5a, sw5b⟩ := hstk.f5 (by omega)
  replace hrs := Hide.mk (And.intro room5 hrs); replace has := Hide.mk (And.intro room5 has)
  replace hbs := Hide.mk (And.intro room5 hbs)
  simp only [OffStack] at hrs has hbs
  clear ha hb hr hstk
  a64_sym [← hl59, ← hh60, ← ht61, ← hl62, ← hh63, ← ht64, ← ht65, ← ht66, ← hl67, ← hh68, ← ht69, ← ht70, ← ht71, ← hl72, ← hh73, ← ht74, ← ht75, ← ht76, ← hl77, ← hh78, ← ht79, ← ht80, ← ht81, ← hl82, ← hh83, ← ht84, ← ht85, ← ht86, ← ht87]

set_option maxHeartbeats 1600000 in
theorem mul768_part3 (s : State) (pr pa pb : Word)
    (hr : Buf s pr 12 true) (ha : Buf s pa 6 false) (hb : Buf s pb 6 false)
    (hstk : Stack s 5) (hrs : OffStack s 5 pr 12) (has : OffStack s 5 pa 6) (hbs : OffStack s 5 pb 6) {a2 a3 a4 a5 b0 b1 b2 b3 b4 b5 h89 h92 h97 l13 l82 l88 l91 l96 h102 h107 h112 l101 l106 l111 : Word} {t32 t51 t61 t66 t71 t76 t80 t81 t86 t87 t90 t93 t94 t95 t98 t99 t100 t103 t104 t105 t108 t109 t110 t113 t114 t115 t116 : ArithRes}
    (hl88 : l88 = mulLo a3 b0) (hh89 : h89 = mulHi a3 b0) (ht90 : t90 = addWithCarry t66.val l88 false)
    (hl91 : l91 = mulLo a3 b1) (hh92 : h92 = mulHi a3 b1) (ht93 : t93 = addWithCarry t71.val l91 t90.c)
    (ht94 : t94 = addWithCarry h92 (0 : Word) t93.c) (ht95 : t95 = addWithCarry t93.val h89 false)
    (hl96 : l96 = mulLo a3 b2) (hh97 : h97 = mulHi a3 b2) (ht98 : t98 = addWithCarry t76.val l96 t95.c)
    (ht99 : t99 = addWithCarry h97 (0 : Word) t98.c) (ht100 : t100 = addWithCarry t98.val t94.val false)
    (hl101 : l101 = mulLo a3 b3) (hh102 : h102 = mulHi a3 b3) (ht103 : t103 = addWithCarry t81.val l101 t100.c)
    (ht104 : t104 = addWithCarry h102 (0 : Word) t103.c) (ht105 : t105 = addWithCarry t103.val t99.val false)
    (hl106 : l106 = mulLo a3 b4) (hh107 : h107 = mulHi a3 b4) (ht108 : t108 = addWithCarry t86.val l106 t105.c)
    (ht109 : t109 = addWithCarry h107 (0 : Word) t108.c) (ht110 : t110 = addWithCarry t108.val t104.val false)
    (hl111 : l111 = mulLo a3 b5) (hh112 : h112 = mulHi a3 b5) (ht113 : t113 = addWithCarry t87.val l111 t110.c)
    (ht114 : t114 = addWithCarry h112 (0 : Word) t113.c) (ht115 : t115 = addWithCarry t113.val t109.val false)
    (ht116 : t116 = addWithCarry t114.val (0 : Word) t115.c) :
    run embedded_pairing_core_arch_aarch64_bigint_768_multiply ({ x0 := pr, x1 := l13, x2 := l82, x3 := t80.val, x4 := a2, x5 := a3, x6 := a4, x7 := a5, x8 := s.x8, x9 := b0, x10 := b1, x11 := b2, x12 := b3, x13 := b4, x14 := b5, x15 := t32.val, x16 := s.x16, x17 := s.x17, x18 := s.x18, x19 := t61.val, x20 := t66.val, x21 := t71.val, x22 := t76.val, x23 := t81.val, x24 := t86.val, x25 := t87.val, x26 := s.x26, x27 := s.x27, x28 := t51.val, x29 := s.x29, x30 := s.x30, sp := s.sp - 16#64 - 16#64 - 16#64 - 16#64 - 16#64, nf := some t87.n, zf := some t87.z, cf := some t87.c, vf := some t87.v, mem := setMem (setMem (setMem (setMem (setMem (setMem (setMem (setMem (setMem (setMem (s.mem) (s.sp.toNat - 16) s.x19) (s.sp.toNat - 16 + 8) s.x20) (s.sp.toNat - 16 - 16) s.x21) (s.sp.toNat - 16 - 16 + 8) s.x22) (s.sp.toNat - 16 - 16 - 16) s.x23) (s.sp.toNat - 16 - 16 - 16 + 8) s.x24) (s.sp.toNat - 16 - 16 - 16 - 16) s.x25) (s.sp.toNat - 16 - 16 - 16 - 16 + 8) s.x26) (s.sp.toNat - 16 - 16 - 16 - 16 - 16) s.x27) (s.sp.toNat - 16 - 16 - 16 - 16 - 16 + 8) s.x28, readable := s.readable, writable := s.writable, pc := 88, status := .running } : State) 29
      = ({ x0 := pr, x1 := l13, x2 := l111, x3 := t109.val, x4 := a2, x5 := a3, x6 := a4, x7 := a5, x8 := s.x8, x9 := b0, x10 := b1, x11 := b2, x12 := b3, x13 := b4, x14 := b5, x15 := t32.val, x16 := s.x16, x17 := s.x17, x18 := s.x18, x19 := t61.val, x20 := t90.val, x21 := t95.val, x22 := t100.val, x23 := t105.val, x24 := t110.val, x25 := t115.val, x26 := t116.val, x27 := s.x27, x28 := t51.val, x29 := s.x29, x30 := s.x30, sp := s.sp - 16#64 - 16#64 - 16#64 - 16#64 - 16#64, nf := some t116.n, zf := some t116.z, cf := some t116.c, vf := some t116.v, mem := setMem (setMem (setMem (setMem (setMem (setMem (setMem (setMem (setMem (setMem (s.mem) (s.sp.toNat - 16) s.x19) (s.sp.toNat - 16 + 8) s.x20) (s.sp.toNat - 16 - 16) s.x21) (s.sp.toNat - 16 - 16 + 8) s.x22) (s.sp.toNat - 16 - 16 - 16) s.x23) (s.sp.toNat - 16 - 16 - 16 + 8) s.x24) (s.sp.toNat - 16 - 16 - 16 - 16) s.x25) (s.sp.toNat - 16 - 16 - 16 - 16 + 8) s.x26) (s.sp.toNat - 16 - 16 - 16 - 16 - 16) s.x27) (s.sp.toNat - 16 - 16 - 16 - 16 - 16 + 8) s.x28, readable := s.readable, writable := s.writable, pc := 117, status := .running } : State) := by
  obtain ⟨ra0, ra1, ra2, ra3, ra4, ra5⟩ := ha.r6
  obtain ⟨⟨alra0, alra1, alra2, alra3, alra4, alra5⟩, fra1, fra2, fra3, fra4, fra5⟩ := ha.addr6
  obtain ⟨rb0, rb1, rb2, rb3, rb4, rb5⟩ := hb.r6
  obtain ⟨⟨alrb0, alrb1, alrb2, alrb3, alrb4, alrb5⟩, frb1, frb2, frb3, frb4, frb5⟩ := hb.addr6
  obtain ⟨rr0, rr1, rr2, rr3, rr4, rr5, rr6, rr7, rr8, rr9, rr10, rr11⟩ := hr.r12
  obtain ⟨wr0, wr1, wr2, wr3, wr4, wr5, wr6, wr7, wr8, wr9, wr10, wr11⟩ := hr.w12
  obtain ⟨⟨alrr0, alrr1, alrr2, alrr3, alrr4, alrr5, alrr6, alrr7, alrr8, alrr9, alrr10, alrr11⟩, frr1, frr2, frr3, frr4, frr5, frr6, frr7, frr8, frr9, frr10, frr11⟩ := hr.addr12
  have als0 := hstk.aligned
  obtain ⟨room1, als1, alq1a, alq1b, sr1a, sr1b, sw1a, sw1b⟩ := hstk.f1 (by omega)
  obtain ⟨room2, als2, alq2a, alq2b, sr2a, sr2b, sw2a, sw2b⟩ := hstk.f2 (by omega)
  obtain ⟨room3, als3, alq3a, alq3b, sr3a, sr3b, sw3a, sw3b⟩ := hstk.f3 (by omega)
  obtain ⟨room4, als4, alq4a, alq4b, sr4a, sr4b, sw4a, sw4b⟩ := hstk.f4 (by omega)
  obtain ⟨room5, als5, alq5a, alq5b, sr5a, sr5b, sw5a, sw5b⟩ := hstk.f5 (by omega)
  replace hrs := Hide.mk (And.intro room5 hrs); replace has := Hide.mk (And.intro room5 has)
  replace hbs := Hide.mk (And.intro room5 hbs)
  simp only [OffStack] at hrs has hbs
  clear ha hb hr hstk
  a64_sym [← hl88, ← hh89, ← ht90, ← hl91, ← hh92, ← ht93, ← ht94, ← ht95, ← hl96, ← hh97, ← ht98, ← ht99, ← ht100, ← hl101, ← hh102, ← ht103, ← ht104, ← ht105, ← hl106, ← hh107, ← ht108, ← ht109, ← ht110, ← hl111, ← hh112, ← ht113, ← ht114, ← ht115, ← ht116]

set_option maxHeartbeats 1600000 in
theorem mul768_part4 (s : State) (pr pa pb : Word)
    (hr : Buf s pr 12 true) (ha : Buf s pa 6 false) (hb : Buf s pb 6 false)
    (hstk : Stack s 5) (hrs : OffStack s 5 pr 12) (has : OffStack s 5 pa 6) (hbs : OffStack s 5 pb 6) {a2 a3 a4 a5 b0 b1 b2 b3 b4 b5 l13 h118 h121 h126 h131 h136 h141 l111 l117 l120 l125 l130 l135 l140 : Word} {t32 t51 t61 t90 t95 t100 t105 t109 t110 t115 t116 t119 t122 t123 t124 t127 t128 t129 t132 t133 t134 t137 t138 t139 t142 t143 t144 t145 : ArithRes}
    (hl117 : l117 = mulLo a4 b0) (hh118 : h118 = mulHi a4 b0) (ht119 : t119 = addWithCarry t95.val l117 false)
    (hl120 : l120 = mulLo a4 b1) (hh121 : h121 = mulHi a4 b1) (ht122 : t122 = addWithCarry t100.val l120 t119.c)
    (ht123 : t123 = addWithCarry h121 (0 : Word) t122.c) (ht124 : t124 = addWithCarry t122.val h118 false)
    (hl125 : l125 = mulLo a4 b2) (hh126 : h126 = mulHi a4 b2) (ht127 : t127 = addWithCarry t105.val l125 t124.c)
    (ht128 : t128 = addWithCarry h126 (0 : Word) t127.c) (ht129 : t129 = addWithCarry t127.val t123.val false)
    (hl130 : l130 = mulLo a4 b3) (hh131 : h131 = mulHi a4 b3) (ht132 : t132 = addWithCarry t110.val l130 t129.c)
    (ht133 : t133 = addWithCarry h131 (0 : Word) t132.c) (ht134 : t134 = addWithCarry t132.val t128.val false)
    (hl135 : l135 = mulLo a4 b4) (hh136 : h136 = mulHi a4 b4) (ht137 : t137 = addWithCarry t115.val l135 t134.c)
    (ht138 : t138 = addWithCarry h136 (0 : Word) t137.c) (ht139 : t139 = addWithCarry t137.val t133.val false)
    (hl140 : l140 = mulLo a4 b5) (hh141 : h141 = mulHi a4 b5) (ht142 : t142 = addWithCarry t116.val l140 t139.c)
    (ht143 : t143 = addWithCarry h141 (0 : Word) t142.c) (ht144 : t144 = addWithCarry t142.val t138.val false)
    (ht145 : t145 = addWithCarry t143.val (0 : Word) t144.c) :
    run embedded_pairing_core_arch_aarch64_bigint_768_multiply ({ x0 := pr, x1 := l13, x2 := l111, x3 := t109.val, x4 := a2, x5 := a3, x6 := a4, x7 := a5, x8 := s.x8, x9 := b0, x10 := b1, x11 := b2, x12 := b3, x13 := b4, x14 := b5, x15 := t32.val, x16 := s.x16, x17 := s.x17, x18 := s.x18, x19 := t61.val, x20 := t90.val, x21 := t95.val, x22 := t100.val, x23 := t105.val, x24 := t110.val, x25 := t115.val, x26 := t116.val, x27 := s.x27, x28 := t51.val, x29 := s.x29, x30 := s.x30, sp := s.sp - 16#64 - 16#64 - 16#64 - 16#64 - 16#64, nf := some t116.n, zf := some t116.z, cf := some t116.c, vf := some t116.v, mem := setMem (setMem (setMem (setMem (setMem (setMem (setMem (setMem (setMem (setMem (s.mem) (s.sp.toNat - 16) s.x19) (s.sp.toNat - 16 + 8) s.x20) (s.sp.toNat - 16 - 16) s.x21) (s.sp.toNat - 16 - 16 + 8) s.x22) (s.sp.toNat - 16 - 16 - 16) s.x23) (s.sp.toNat - 16 - 16 - 16 + 8) s.x24) (s.sp.toNat - 16 - 16 - 16 - 16) s.x25) (s.sp.toNat - 16 - 16 - 16 - 16 + 8) s.x26) (s.sp.toNat - 16 - 16 - 16 - 16 - 16) s.x27) (s.sp.toNat - 16 - 16 - 16 - 16 - 16 + 8) s.x28, readable := s.readable, writable := s.writable, pc := 117, status := .running } : State) 29
      = ({ x0 := pr, x1 := l13, x2 := l140, x3 := t138.val, x4 := a2, x5 := a3, x6 := a4, x7 := a5, x8 := s.x8, x9 := b0, x10 := b1, x11 := b2, x12 := b3, x13 := b4, x14 := b5, x15 := t32.val, x16 := s.x16, x17 := s.x17, x18 := s.x18, x19 := t61.val, x20 := t90.val, x21 := t119.val, x22 := t124.val, x23 := t129.val, x24 := t134.val, x25 := t139.val, x26 := t144.val, x27 := t145.val, x28 := t51.val, x29 := s.x29, x30 := s.x30, sp := s.sp - 16#64 - 16#64 - 16#64 - 16#64 - 16#64, nf := some t145.n, zf := some t145.z, cf := some t145.c, vf := some t145.v, mem := setMem (setMem (setMem (setMem (setMem (setMem (setMem (setMem (setMem (setMem (s.mem) (s.sp.toNat - 16) s.x19) (s.sp.toNat - 16 + 8) s.x20) (s.sp.toNat - 16 - 16) s.x21) (s.sp.toNat - 16 - 16 + 8) s.x22) (s.sp.toNat - 16 - 16 - 16) s.x23) (s.sp.toNat - 16 - 16 - 16 + 8) s.x24) (s.sp.toNat - 16 - 16 - 16 - 16) s.x25) (s.sp.toNat - 16 - 16 - 16 - 16 + 8) s.x26) (s.sp.toNat - 16 - 16 - 16 - 16 - 16) s.x27) (s.sp.toNat - 16 - 16 - 16 - 16 - 16 + 8) s.x28, readable := s.readable, writable := s.writable, pc := 146, status := .running } : State) := by
  obtain ⟨ra0, ra1, ra2, ra3, ra4, ra5⟩ := ha.r6
  obtain ⟨⟨alra0, alra1, alra2, alra3, alra4, alra5⟩, fra1, fra2, fra3, fra4, fra5⟩ := ha.addr6
  obtain ⟨rb0, rb1, rb2, rb3, rb4, rb5⟩ := hb.r6
  obtain ⟨⟨alrb0, alrb1, alrb2, alrb3, alrb4, alrb5⟩, frb1, frb2, frb3, frb4, frb5⟩ := hb.addr6
  obtain ⟨rr0, rr1, rr2, rr3, rr4, rr5, rr6, rr7, rr8, rr9, rr10, rr11⟩ := hr.r12
  obtain ⟨wr0, wr1, wr2, wr3, wr4, wr5, wr6, wr7, wr8, wr9, wr10, wr11⟩ := hr.w12
  obtain ⟨⟨alrr0, alrr1, alrr2, alrr3, alrr4, alrr5, alrr6, alrr7, alrr8, alrr9, alrr10, alrr11⟩, frr1, frr2, frr3, frr4, frr5, frr6, frr7, frr8, frr9, frr10, frr11⟩ := hr.addr12
  have als0 := hstk.aligned
  obtain ⟨room1, als1, alq1a, alq1b, sr1a, sr1b, sw1a, sw1b⟩ := hstk.f1 (by omega)
  obtain ⟨room2, als2, alq2a, alq2b, sr2a, sr2b, sw2a, sw2b⟩ := hstk.f2 (by omega)
  obtain ⟨room3, als3, alq3a, alq3b, sr3a, sr3b, sw3a, sw3b⟩ := hstk.f3 (by omega)
  obtain ⟨room4, als4, alq4a, alq4b, sr4a, sr4b, sw4a, sw4b⟩ := hstk.f4 (by omega)
  obtain ⟨room5, als5, alq5a, alq5b, sr5a, sr5b, sw5a, sw5b⟩ := hstk.f5 (by omega)
  replace hrs := Hide.mk (And.intro room5 hrs); replace has := Hide.mk (And.intro room5 has)
  replace hbs := Hide.mk (And.intro room5 hbs)
  simp only [OffStack] at hrs has hbs
  clear ha hb hr hstk
  a64_sym [← hl117, ← hh118, ← ht119, ← hl120, ← hh121, ← ht122, ← ht123, ← ht124, ← hl125, ← hh126, ← ht127, ← ht128, ← ht129, ← hl130, ← hh131, ← ht132, ← ht133, ← ht134, ← hl135, ← hh136, ← ht137, ← ht138, ← ht139, ← hl140, ← hh141, ← ht142, ← ht143, ← ht144, ← ht145]

set_option maxHeartbeats 1600000 in
theorem mul768_part5 (s : State) (pr pa pb : Word)
    (hr : Buf s pr 12 true) (ha : Buf s pa 6 false) (hb : Buf s pb 6 false)
    (hstk : Stack s 5) (hrs : OffStack s 5 pr 12) (has : OffStack s 5 pa 6) (hbs : OffStack s 5 pb 6) {a2 a3 a4 a5 b0 b1 b2 b3 b4 b5 l13 h147 h150 h155 h160 h165 h170 l140 l146 l149 l154 l159 l164 l169 : Word} {t32 t51 t61 t90 t119 t124 t129 t134 t138 t139 t144 t145 t148 t151 t152 t153 t156 t157 t158 t161 t162 t163 t166 t167 t168 t171 t172 t173 t174 : ArithRes}
    (hl146 : l146 = mulLo a5 b0) (hh147 : h147 = mulHi a5 b0) (ht148 : t148 = addWithCarry t124.val l146 false)
    (hl149 : l149 = mulLo a5 b1) (hh150 : h150 = mulHi a5 b1) (ht151 : t151 = addWithCarry t129.val l149 t148.c)
    (ht152 : t152 = addWithCarry h150 (0 : Word) t151.c) (ht153 : t153 = addWithCarry t151.val h147 false)
    (hl154 : l154 = mulLo a5 b2) (hh155 : h155 = mulHi a5 b2) (ht156 : t156 = addWithCarry t134.val l154 t153.c)
    (ht157 : t157 = addWithCarry h155 (0 : Word) t156.c) (ht158 : t158 = addWithCarry t156.val t152.val false)
    (hl159 : l159 = mulLo a5 b3) (hh160 : h160 = mulHi a5 b3) (ht161 : t161 = addWithCarry t139.val l159 t158.c)
    (ht162 : t162 = addWithCarry h160 (0 : Word) t161.c) (ht163 : t163 = addWithCarry t161.val t157.val false)
    (hl164 : l164 = mulLo a5 b4) (hh165 : h165 = mulHi a5 b4) (ht166 : t166 = addWithCarry t144.val l164 t163.c)
    (ht167 : t167 = addWithCarry h165 (0 : Word) t166.c) (ht168 : t168 = addWithCarry t166.val t162.val false)
    (hl169 : l169 = mulLo a5 b5) (hh170 : h170 = mulHi a5 b5) (ht171 : t171 = addWithCarry t145.val l169 t168.c)
    (ht172 : t172 = addWithCarry h170 (0 : Word) t171.c) (ht173 : t173 = addWithCarry t171.val t167.val false)
    (ht174 : t174 = addWithCarry t172.val (0 : Word) t173.c) :
    run embedded_pairing_core_arch_aarch64_bigint_768_multiply ({ x0 := pr, x1 := l13, x2 := l140, x3 := t138.val, x4 := a2, x5 := a3, x6 := a4, x7 := a5, x8 := s.x8, x9 := b0, x10 := b1, x11 := b2, x12 := b3, x13 := b4, x14 := b5, x15 := t32.val, x16 := s.x16, x17 := s.x17, x18 := s.x18, x19 := t61.val, x20 := t90.val, x21 := t119.val, x22 := t124.val, x23 := t129.val, x24 := t134.val, x25 := t139.val, x26 := t144.val, x27 := t145.val, x28 := t51.val, x29 := s.x29, x30 := s.x30, sp := s.sp - 16#64 - 16#64 - 16#64 - 16#64 - 16#64, nf := some t145.n, zf := some t145.z, cf := some t145.c, vf := some t145.v, mem := setMem (setMem (setMem (setMem (setMem (setMem (setMem (setMem (setMem (setMem (s.mem) (s.sp.toNat - 16) s.x19) (s.sp.toNat - 16 + 8) s.x20) (s.sp.toNat - 16 - 16) s.x21) (s.sp.toNat - 16 - 16 + 8) s.x22) (s.sp.toNat - 16 - 16 - 16) s.x23) (s.sp.toNat - 16 - 16 - 16 + 8) s.x24) (s.sp.toNat - 16 - 16 - 16 - 16) s.x25) (s.sp.toNat - 16 - 16 - 16 - 16 + 8) s.x26) (s.sp.toNat - 16 - 16 - 16 - 16 - 16) s.x27) (s.sp.toNat - 16 - 16 - 16 - 16 - 16 + 8) s.x28, readable := s.readable, writable := s.writable, pc := 146, status := .running } : State) 29
      = ({ x0 := pr, x1 := l13, x2 := l169, x3 := t167.val, x4 := a2, x5 := a3, x6 := a4, x7 := a5, x8 := s.x8, x9 := b0, x10 := b1, x11 := b2, x12 := b3, x13 := b4, x14 := b5, x15 := t32.val, x16 := s.x16, x17 := s.x17, x18 := s.x18, x19 := t61.val, x20 := t90.val, x21 := t119.val, x22 := t148.val, x23 := t153.val, x24 := t158.val, x25 := t163.val, x26 := t168.val, x27 := t173.val, x28 := t174.val, x29 := s.x29, x30 := s.x30, sp := s.sp - 16#64 - 16#64 - 16#64 - 16#64 - 16#64, nf := some t174.n, zf := some t174.z, cf := some t174.c, vf := some t174.v, mem := setMem (setMem (setMem (setMem (setMem (setMem (setMem (setMem (setMem (setMem (s.mem) (s.sp.toNat - 16) s.x19) (s.sp.toNat - 16 + 8) s.x20) (s.sp.toNat - 16 - 16) s.x21) (s.sp.toNat - 16 - 16 + 8) s.x22) (s.sp.toNat - 16 - 16 - 16) s.x23) (s.sp.toNat - 16 - 16 - 16 + 8) s.x24) (s.sp.toNat - 16 - 16 - 16 - 16) s.x25) (s.sp.toNat - 16 - 16 - 16 - 16 + 8) s.x26) (s.sp.toNat - 16 - 16 - 16 - 16 - 16) s.x27) (s.sp.toNat - 16 - 16 - 16 - 16 - 16 + 8) s.x28, readable := s.readable, writable := s.writable, pc := 175, status := .running } : State) := by
  obtain ⟨ra0, ra1, ra2, ra3, ra4, ra5⟩ := ha.r6
  obtain ⟨⟨alra0, alra1, alra2, alra3, alra4, alra5⟩, fra1, fra2, fra3, fra4, fra5⟩ := ha.addr6
  obtain ⟨rb0, rb1, rb2, rb3, rb4, rb5⟩ := hb.r6
  obtain ⟨⟨alrb0, alrb1, alrb2, alrb3, alrb4, alrb5⟩, frb1, frb2, frb3, frb4, frb5⟩ := hb.addr6
  obtain ⟨rr0, rr1, rr2, rr3, rr4, rr5, rr6, rr7, rr8, rr9, rr10, rr11⟩ := hr.r12
  obtain ⟨wr0, wr1, wr2, wr3, wr4, wr5, wr6, wr7, wr8, wr9, wr10, wr11⟩ := hr.w12
  obtain ⟨⟨alrr0, alrr1, alrr2, alrr3, alrr4, alrr5, alrr6, alrr7, alrr8, alrr9, alrr10, alrr11⟩, frr1, frr2, frr3, frr4, frr5, frr6, frr7, frr8, frr9, frr10, frr11⟩ := hr.addr12
  have als0 := hstk.aligned
  obtain ⟨room1, als1, alq1a, alq1b, sr1a, sr1b, sw1a, sw1b⟩ := hstk.f1 (by omega)
  obtain ⟨room2, als2, alq2a, alq2b, sr2a, sr2b, sw2a, sw2b⟩ := hstk.f2 (by omega)
  obtain ⟨room3, als3, alq3a, alq3b, sr3a, sr3b, sw3a, sw3b⟩ := hstk.f3 (by omega)
  obtain ⟨room4, als4, alq4a, alq4b, sr4a, sr4b, sw4a, sw4b⟩ := hstk.f4 (by omega)
  obtain ⟨room5, als5, alq5a, alq5b, sr5a, sr5b, sw5a, sw5b⟩ := hstk.f5 (by omega)
  replace hrs := Hide.mk (And.intro room5 hrs); replace has := Hide.mk (And.intro room5 has)
  replace hbs := Hide.mk (And.intro room5 hbs)
  simp only [OffStack] at hrs has hbs
  clear ha hb hr hstk
  a64_sym [← hl146, ← hh147, ← ht148, ← hl149, ← hh150, ← ht151, ← ht152, ← ht153, ← hl154, ← hh155, ← ht156, ← ht157, ← ht158, ← hl159, ← hh160, ← ht161, ← ht162, ← ht163, ← hl164, ← hh165, ← ht166, ← ht167, ← ht168, ← hl169, ← hh170, ← ht171, ← ht172, ← ht173, ← ht174]

set_option maxHeartbeats 1600000 in
theorem mul768_part6 (s : State) (pr pa pb : Word)
    (hr : Buf s pr 12 true) (ha : Buf s pa 6 false) (hb : Buf s pb 6 false)
    (hstk : Stack s 5) (hrs : OffStack s 5 pr 12) (has : OffStack s 5 pa 6) (hbs : OffStack s 5 pb 6) {a2 a3 a4 a5 b0 b1 b2 b3 b4 b5 l13 l169 : Word} {t32 t61 t90 t119 t148 t153 t158 t163 t167 t168 t173 t174 : ArithRes}
     :
    run embedded_pairing_core_arch_aarch64_bigint_768_multiply ({ x0 := pr, x1 := l13, x2 := l169, x3 := t167.val, x4 := a2, x5 := a3, x6 := a4, x7 := a5, x8 := s.x8, x9 := b0, x10 := b1, x11 := b2, x12 := b3, x13 := b4, x14 := b5, x15 := t32.val, x16 := s.x16, x17 := s.x17, x18 := s.x18, x19 := t61.val, x20 := t90.val, x21 := t119.val, x22 := t148.val, x23 := t153.val, x24 := t158.val, x25 := t163.val, x26 := t168.val, x27 := t173.val, x28 := t174.val, x29 := s.x29, x30 := s.x30, sp := s.sp - 16#64 - 16#64 - 16#64 - 16#64 - 16#64, nf := some t174.n, zf := some t174.z, cf := some t174.c, vf := some t174.v, mem := setMem (setMem (setMem (setMem (setMem (setMem (setMem (setMem (setMem (setMem (s.mem) (s.sp.toNat - 16) s.x19) (s.sp.toNat - 16 + 8) s.x20) (s.sp.toNat - 16 - 16) s.x21) (s.sp.toNat - 16 - 16 + 8) s.x22) (s.sp.toNat - 16 - 16 - 16) s.x23) (s.sp.toNat - 16 - 16 - 16 + 8) s.x24) (s.sp.toNat - 16 - 16 - 16 - 16) s.x25) (s.sp.toNat - 16 - 16 - 16 - 16 + 8) s.x26) (s.sp.toNat - 16 - 16 - 16 - 16 - 16) s.x27) (s.sp.toNat - 16 - 16 - 16 - 16 - 16 + 8) s.x28, readable := s.readable, writable := s.writable, pc := 175, status := .running } : State) 12
      = ({ x0 := pr + 96#64, x1 := l13, x2 := l169, x3 := t167.val, x4 := a2, x5 := a3, x6 := a4, x7 := a5, x8 := s.x8, x9 := b0, x10 := b1, x11 := b2, x12 := b3, x13 := b4, x14 := b5, x15 := t32.val, x16 := s.x16, x17 := s.x17, x18 := s.x18, x19 := s.x19, x20 := s.x20, x21 := s.x21, x22 := s.x22, x23 := s.x23, x24 := s.x24, x25 := s.x25, x26 := s.x26, x27 := s.x27, x28 := s.x28, x29 := s.x29, x30 := s.x30, sp := s.sp, nf := some t174.n, zf := some t174.z, cf := some t174.c, vf := some t174.v, mem := setMem (setMem (setMem (setMem (setMem (setMem (setMem (setMem (setMem (setMem (setMem (setMem (setMem (setMem (setMem (setMem (setMem (setMem (setMem (setMem (setMem (setMem (s.mem) (s.sp.toNat - 16) s.x19) (s.sp.toNat - 16 + 8) s.x20) (s.sp.toNat - 16 - 16) s.x21) (s.sp.toNat - 16 - 16 + 8) s.x22) (s.sp.toNat - 16 - 16 - 16) s.x23) (s.sp.toNat - 16 - 16 - 16 + 8) s.x24) (s.sp.toNat - 16 - 16 - 16 - 16) s.x25) (s.sp.toNat - 16 - 16 - 16 - 16 + 8) s.x26) (s.sp.toNat - 16 - 16 - 16 - 16 - 16) s.x27) (s.sp.toNat - 16 - 16 - 16 - 16 - 16 + 8) s.x28) pr.toNat l13) (pr.toNat + 8) t32.val) (pr.toNat + 16) t61.val) (pr.toNat + 24) t90.val) (pr.toNat + 32) t119.val) (pr.toNat + 40) t148.val) (pr.toNat + 48) t153.val) (pr.toNat + 56) t158.val) (pr.toNat + 64) t163.val) (pr.toNat + 72) t168.val) (pr.toNat + 80) t173.val) (pr.toNat + 88) t174.val, readable := s.readable, writable := s.writable, pc := s.x30.toNat, status := .halted } : State) := by
  obtain ⟨ra0, ra1, ra2, ra3, ra4, ra5⟩ := ha.r6
  obtain ⟨⟨alra0, alra1, alra2, alra3, alra4, alra5⟩, fra1, fra2, fra3, fra4, fra5⟩ := ha.addr6
  obtain ⟨rb0, rb1, rb2, rb3, rb4, rb5⟩ := hb.r6
  obtain ⟨⟨alrb0, alrb1, alrb2, alrb3, alrb4, alrb5⟩, frb1, frb2, frb3, frb4, frb5⟩ := hb.addr6
  obtain ⟨rr0, rr1, rr2, rr3, rr4, rr5, rr6, rr7, rr8, rr9, rr10, rr11⟩ := hr.r12
  obtain ⟨wr0, wr1, wr2, wr3, wr4, wr5, wr6, wr7, wr8, wr9, wr10, wr11⟩ := hr.w12
  obtain ⟨⟨alrr0, alrr1, alrr2, alrr3, alrr4, alrr5, alrr6, alrr7, alrr8, alrr9, alrr10, alrr11⟩, frr1, frr2, frr3, frr4, frr5, frr6, frr7, frr8, frr9, frr10, frr11⟩ := hr.addr12
  have als0 := hstk.aligned
  obtain ⟨room1, als1, alq1a, alq1b, sr1a, sr1b, sw1a, sw1b⟩ := hstk.f1 (by omega)
  obtain ⟨room2, als2, alq2a, alq2b, sr2a, sr2b, sw2a, sw2b⟩ := hstk.f2 (by omega)
  obtain ⟨room3, als3, alq3a, alq3b, sr3a, sr3b, sw3a, sw3b⟩ := hstk.f3 (by omega)
  obtain ⟨room4, als4, alq4a, alq4b, sr4a, sr4b, sw4a, sw4b⟩ := hstk.f4 (by omega)
  obtain ⟨room5, als5, alq5a, alq5b, sr5a, sr5b, sw5a, sw5b⟩ := hstk.f5 (by omega)
  replace hrs := Hide.mk (And.intro room5 hrs); replace has := Hide.mk (And.intro room5 has)
  replace hbs := Hide.mk (And.intro room5 hbs)
  simp only [OffStack] at hrs has hbs
  clear ha hb hr hstk
  a64_sym []


set_option maxHeartbeats 1600000 in
set_option exponentiation.threshold 800 in
/-- `void bigint_768_multiply(res, a, b)`: the twelve limbs of `res` are `a · b`.  All loads precede all stores, so
`res` may overlap `a` and `b` in any way. -/
theorem bigint_768_multiply_run (s : State) (pr pa pb : Word)
    (hst : s.status = .running) (hpc : s.pc = 0) (h0 : s.x0 = pr) (h1 : s.x1 = pa) (h2 : s.x2 = pb)
    (hr : Buf s pr 12 true) (ha : Buf s pa 6 false) (hb : Buf s pb 6 false)
    (hstk : Stack s 5) (hrs : OffStack s 5 pr 12) (has : OffStack s 5 pa 6) (hbs : OffStack s 5 pb 6) :
    ∃ s', run embedded_pairing_core_arch_aarch64_bigint_768_multiply s 187 = s' ∧ Returned s s' ∧
      val (2 ^ 64) (limbs s'.mem pr.toNat 12)
        = val (2 ^ 64) (limbs s.mem pa.toNat 6) * val (2 ^ 64) (limbs s.mem pb.toNat 6) ∧
      (∀ k, ¬(pr.toNat ≤ k ∧ k < pr.toNat + 96) → ¬(s.sp.toNat - 80 ≤ k ∧ k < s.sp.toNat) → s'.mem k = s.mem k) := by
  refine ⟨_, rfl, ?_⟩
  simp only [limbs_six, limbs_twelve, Nat.add_zero]
  obtain ⟨a0, ha0⟩ : ∃ x, x = s.mem pa.toNat := ⟨_, rfl⟩
  obtain ⟨a1, ha1⟩ : ∃ x, x = s.mem (pa.toNat + 8) := ⟨_, rfl⟩
  obtain ⟨a2, ha2⟩ : ∃ x, x = s.mem (pa.toNat + 16) := ⟨_, rfl⟩
  obtain ⟨a3, ha3⟩ : ∃ x, x = s.mem (pa.toNat + 24) := ⟨_, rfl⟩
  obtain ⟨a4, ha4⟩ : ∃ x, x = s.mem (pa.toNat + 32) := ⟨_, rfl⟩
  obtain ⟨a5, ha5⟩ : ∃ x, x = s.mem (pa.toNat + 40) := ⟨_, rfl⟩
  obtain ⟨b0, hb0⟩ : ∃ x, x = s.mem pb.toNat := ⟨_, rfl⟩
  obtain ⟨b1, hb1⟩ : ∃ x, x = s.mem (pb.toNat + 8) := ⟨_, rfl⟩
  obtain ⟨b2, hb2⟩ : ∃ x, x = s.mem (pb.toNat + 16) := ⟨_, rfl⟩
  obtain ⟨b3, hb3⟩ : ∃ x, x = s.mem (pb.toNat + 24) := ⟨_, rfl⟩
  obtain ⟨b4, hb4⟩ : ∃ x, x = s.mem (pb.toNat + 32) := ⟨_, rfl⟩
  obtain ⟨b5, hb5⟩ : ∃ x, x = s.mem (pb.toNat + 40) := ⟨_, rfl⟩
  simp only [← ha0, ← ha1, ← ha2, ← ha3, ← ha4, ← ha5, ← hb0, ← hb1, ← hb2, ← hb3, ← hb4, ← hb5]
  obtain ⟨t11, ht11⟩ : ∃ x, x = addWithCarry (0 : Word) (0 : Word) false := ⟨_, rfl⟩
  obtain ⟨h12, hh12⟩ : ∃ x, x = mulHi a0 b0 := ⟨_, rfl⟩
  obtain ⟨l13, hl13⟩ : ∃ x, x = mulLo a0 b0 := ⟨_, rfl⟩
  obtain ⟨l14, hl14⟩ : ∃ x, x = mulLo a0 b1 := ⟨_, rfl⟩
  obtain ⟨h15, hh15⟩ : ∃ x, x = mulHi a0 b1 := ⟨_, rfl⟩
  obtain ⟨t16, ht16⟩ : ∃ x, x = addWithCarry l14 h12 t11.c := ⟨_, rfl⟩
  obtain ⟨l17, hl17⟩ : ∃ x, x = mulLo a0 b2 := ⟨_, rfl⟩
  obtain ⟨h18, hh18⟩ : ∃ x, x = mulHi a0 b2 := ⟨_, rfl⟩
  obtain ⟨t19, ht19⟩ : ∃ x, x = addWithCarry l17 h15 t16.c := ⟨_, rfl⟩
  obtain ⟨l20, hl20⟩ : ∃ x, x = mulLo a0 b3 := ⟨_, rfl⟩
  obtain ⟨h21, hh21⟩ : ∃ x, x = mulHi a0 b3 := ⟨_, rfl⟩
  obtain ⟨t22, ht22⟩ : ∃ x, x = addWithCarry l20 h18 t19.c := ⟨_, rfl⟩
  obtain ⟨l23, hl23⟩ : ∃ x, x = mulLo a0 b4 := ⟨_, rfl⟩
  obtain ⟨h24, hh24⟩ : ∃ x, x = mulHi a0 b4 := ⟨_, rfl⟩
  obtain ⟨t25, ht25⟩ : ∃ x, x = addWithCarry l23 h21 t22.c := ⟨_, rfl⟩
  obtain ⟨l26, hl26⟩ : ∃ x, x = mulLo a0 b5 := ⟨_, rfl⟩
  obtain ⟨h27, hh27⟩ : ∃ x, x = mulHi a0 b5 := ⟨_, rfl⟩
  obtain ⟨t28, ht28⟩ : ∃ x, x = addWithCarry l26 h24 t25.c := ⟨_, rfl⟩
  obtain ⟨t29, ht29⟩ : ∃ x, x = addWithCarry h27 (0 : Word) t28.c := ⟨_, rfl⟩
  obtain ⟨l30, hl30⟩ : ∃ x, x = mulLo a1 b0 := ⟨_, rfl⟩
  obtain ⟨h31, hh31⟩ : ∃ x, x = mulHi a1 b0 := ⟨_, rfl⟩
  obtain ⟨t32, ht32⟩ : ∃ x, x = addWithCarry t16.val l30 false := ⟨_, rfl⟩
  obtain ⟨l33, hl33⟩ : ∃ x, x = mulLo a1 b1 := ⟨_, rfl⟩
  obtain ⟨h34, hh34⟩ : ∃ x, x = mulHi a1 b1 := ⟨_, rfl⟩
  obtain ⟨t35, ht35⟩ : ∃ x, x = addWithCarry t19.val l33 t32.c := ⟨_, rfl⟩
  obtain ⟨t36, ht36⟩ : ∃ x, x = addWithCarry h34 (0 : Word) t35.c := ⟨_, rfl⟩
  obtain ⟨t37, ht37⟩ : ∃ x, x = addWithCarry t35.val h31 false := ⟨_, rfl⟩
  obtain ⟨l38, hl38⟩ : ∃ x, x = mulLo a1 b2 := ⟨_, rfl⟩
  obtain ⟨h39, hh39⟩ : ∃ x, x = mulHi a1 b2 := ⟨_, rfl⟩
  obtain ⟨t40, ht40⟩ : ∃ x, x = addWithCarry t22.val l38 t37.c := ⟨_, rfl⟩
  obtain ⟨t41, ht41⟩ : ∃ x, x = addWithCarry h39 (0 : Word) t40.c := ⟨_, rfl⟩
  obtain ⟨t42, ht42⟩ : ∃ x, x = addWithCarry t40.val t36.val false := ⟨_, rfl⟩
  obtain ⟨l43, hl43⟩ : ∃ x, x = mulLo a1 b3 := ⟨_, rfl⟩
  obtain ⟨h44, hh44⟩ : ∃ x, x = mulHi a1 b3 := ⟨_, rfl⟩
  obtain ⟨t45, ht45⟩ : ∃ x, x = addWithCarry t25.val l43 t42.c := ⟨_, rfl⟩
  obtain ⟨t46, ht46⟩ : ∃ x, x = addWithCarry h44 (0 : Word) t45.c := ⟨_, rfl⟩
  obtain ⟨t47, ht47⟩ : ∃ x, x = addWithCarry t45.val t41.val false := ⟨_, rfl⟩
  obtain ⟨l48, hl48⟩ : ∃ x, x = mulLo a1 b4 := ⟨_, rfl⟩
  obtain ⟨h49, hh49⟩ : ∃ x, x = mulHi a1 b4 := ⟨_, rfl⟩
  obtain ⟨t50, ht50⟩ : ∃ x, x = addWithCarry t28.val l48 t47.c := ⟨_, rfl⟩
  obtain ⟨t51, ht51⟩ : ∃ x, x = addWithCarry h49 (0 : Word) t50.c := ⟨_, rfl⟩
  obtain ⟨t52, ht52⟩ : ∃ x, x = addWithCarry t50.val t46.val false := ⟨_, rfl⟩
  obtain ⟨l53, hl53⟩ : ∃ x, x = mulLo a1 b5 := ⟨_, rfl⟩
  obtain ⟨h54, hh54⟩ : ∃ x, x = mulHi a1 b5 := ⟨_, rfl⟩
  obtain ⟨t55, ht55⟩ : ∃ x, x = addWithCarry t29.val l53 t52.c := ⟨_, rfl⟩
  obtain ⟨t56, ht56⟩ : ∃ x, x = addWithCarry h54 (0 : Word) t55.c := ⟨_, rfl⟩
  obtain ⟨t57, ht57⟩ : ∃ x, x = addWithCarry t55.val t51.val false := ⟨_, rfl⟩
  obtain ⟨t58, ht58⟩ : ∃ x, x = addWithCarry t56.val (0 : Word) t57.c := ⟨_, rfl⟩
  obtain ⟨l59, hl59⟩ : ∃ x, x = mulLo a2 b0 := ⟨_, rfl⟩
  obtain ⟨h60, hh60⟩ : ∃ x, x = mulHi a2 b0 := ⟨_, rfl⟩
  obtain ⟨t61, ht61⟩ : ∃ x, x = addWithCarry t37.val l59 false := ⟨_, rfl⟩
  obtain ⟨l62, hl62⟩ : ∃ x, x = mulLo a2 b1 := ⟨_, rfl⟩
  obtain ⟨h63, hh63⟩ : ∃ x, x = mulHi a2 b1 := ⟨_, rfl⟩
  obtain ⟨t64, ht64⟩ : ∃ x, x = addWithCarry t42.val l62 t61.c := ⟨_, rfl⟩
  obtain ⟨t65, ht65⟩ : ∃ x, x = addWithCarry h63 (0 : Word) t64.c := ⟨_, rfl⟩
  obtain ⟨t66, ht66⟩ : ∃ x, x = addWithCarry t64.val h60 false := ⟨_, rfl⟩
  obtain ⟨l67, hl67⟩ : ∃ x, x = mulLo a2 b2 := ⟨_, rfl⟩
  obtain ⟨h68, hh68⟩ : ∃ x, x = mulHi a2 b2 := ⟨_, rfl⟩
  obtain ⟨t69, ht69⟩ : ∃ x, x = addWithCarry t47.val l67 t66.c := ⟨_, rfl⟩
  obtain ⟨t70, ht70⟩ : ∃ x, x = addWithCarry h68 (0 : Word) t69.c := ⟨_, rfl⟩
  obtain ⟨t71, ht71⟩ : ∃ x, x = addWithCarry t69.val t65.val false := ⟨_, rfl⟩
  obtain ⟨l72, hl72⟩ : ∃ x, x = mulLo a2 b3 := ⟨_, rfl⟩
  obtain ⟨h73, hh73⟩ : ∃ x, x = mulHi a2 b3 := ⟨_, rfl⟩
  obtain ⟨t74, ht74⟩ : ∃ x, x = addWithCarry t52.val l72 t71.c := ⟨_, rfl⟩
  obtain ⟨t75, ht75⟩ : ∃ x, x = addWithCarry h73 (0 : Word) t74.c := ⟨_, rfl⟩
  obtain ⟨t76, ht76⟩ : ∃ x, x = addWithCarry t74.val t70.val false := ⟨_, rfl⟩
  obtain ⟨l77, hl77⟩ : ∃ x, x = mulLo a2 b4 := ⟨_, rfl⟩
  obtain ⟨h78, hh78⟩ : ∃ x, x = mulHi a2 b4 := ⟨_, rfl⟩
  obtain ⟨t79, ht79⟩ : ∃ x, x = addWithCarry t57.val l77 t76.c := ⟨_, rfl⟩
  obtain ⟨t80, ht80⟩ : ∃ x, x = addWithCarry h78 (0 : Word) t79.c := ⟨_, rfl⟩
  obtain ⟨t81, ht81⟩ : ∃ x, x = addWithCarry t79.val t75.val false := ⟨_, rfl⟩
  obtain ⟨l82, hl82⟩ : ∃ x, x = mulLo a2 b5 := ⟨_, rfl⟩
  obtain ⟨h83, hh83⟩ : ∃ x, x = mulHi a2 b5 := ⟨_, rfl⟩
  obtain ⟨t84, ht84⟩ : ∃ x, x = addWithCarry t58.val l82 t81.c := ⟨_, rfl⟩
  obtain ⟨t85, ht85⟩ : ∃ x, x = addWithCarry h83 (0 : Word) t84.c := ⟨_, rfl⟩
  obtain ⟨t86, ht86⟩ : ∃ x, x = addWithCarry t84.val t80.val false := ⟨_, rfl⟩
  obtain ⟨t87, ht87⟩ : ∃ x, x = addWithCarry t85.val (0 : Word) t86.c := ⟨_, rfl⟩
  obtain ⟨l88, hl88⟩ : ∃ x, x = mulLo a3 b0 := ⟨_, rfl⟩
  obtain ⟨h89, hh89⟩ : ∃ x, x = mulHi a3 b0 := ⟨_, rfl⟩
  obtain ⟨t90, ht90⟩ : ∃ x, x = addWithCarry t66.val l88 false := ⟨_, rfl⟩
  obtain ⟨l91, hl91⟩ : ∃ x, x = mulLo a3 b1 := ⟨_, rfl⟩
  obtain ⟨h92, hh92⟩ : ∃ x, x = mulHi a3 b1 := ⟨_, rfl⟩
  obtain ⟨t93, ht93⟩ : ∃ x, x = addWithCarry t71.val l91 t90.c := ⟨_, rfl⟩
  obtain ⟨t94, ht94⟩ : ∃ x, x = addWithCarry h92 (0 : Word) t93.c := ⟨_, rfl⟩
  obtain ⟨t95, ht95⟩ : ∃ x, x = addWithCarry t93.val h89 false := ⟨_, rfl⟩
  obtain ⟨l96, hl96⟩ : ∃ x, x = mulLo a3 b2 := ⟨_, rfl⟩
  obtain ⟨h97, hh97⟩ : ∃ x, x = mulHi a3 b2 := ⟨_, rfl⟩
  obtain ⟨t98, ht98⟩ : ∃ x, x = addWithCarry t76.val l96 t95.c := ⟨_, rfl⟩
  obtain ⟨t99, ht99⟩ : ∃ x, x = addWithCarry h97 (0 : Word) t98.c := ⟨_, rfl⟩
  obtain ⟨t100, ht100⟩ : ∃ x, x = addWithCarry t98.val t94.val false := ⟨_, rfl⟩
  obtain ⟨l101, hl101⟩ : ∃ x, x = mulLo a3 b3 := ⟨_, rfl⟩
  obtain ⟨h102, hh102⟩ : ∃ x, x = mulHi a3 b3 := ⟨_, rfl⟩
  obtain ⟨t103, ht103⟩ : ∃ x, x = addWithCarry t81.val l101 t100.c := ⟨_, rfl⟩
  obtain ⟨t104, ht104⟩ : ∃ x, x = addWithCarry h102 (0 : Word) t103.c := ⟨_, rfl⟩
  obtain ⟨t105, ht105⟩ : ∃ x, x = addWithCarry t103.val t99.val false := ⟨_, rfl⟩
  obtain ⟨l106, hl106⟩ : ∃ x, x = mulLo a3 b4 := ⟨_, rfl⟩
  obtain ⟨h107, hh107⟩ : ∃ x, x = mulHi a3 b4 := ⟨_, rfl⟩
  obtain ⟨t108, ht108⟩ : ∃ x, x = addWithCarry t86.val l106 t105.c := ⟨_, rfl⟩
  obtain ⟨t109, ht109⟩ : ∃ x, x = addWithCarry h107 (0 : Word) t108.c := ⟨_, rfl⟩
  obtain ⟨t110, ht110⟩ : ∃ x, x = addWithCarry t108.val t104.val false := ⟨_, rfl⟩
  obtain ⟨l111, hl111⟩ : ∃ x, x = mulLo a3 b5 := ⟨_, rfl⟩
  obtain ⟨h112, hh112⟩ : ∃ x, x = mulHi a3 b5 := ⟨_, rfl⟩
  obtain ⟨t113, ht113⟩ : ∃ x, x = addWithCarry t87.val l111 t110.c := ⟨_, rfl⟩
  obtain ⟨t114, ht114⟩ : ∃ x, x = addWithCarry h112 (0 : Word) t113.c := ⟨_, rfl⟩
  obtain ⟨t115, ht115⟩ : ∃ x, x = addWithCarry t113.val t109.val false := ⟨_, rfl⟩
  obtain ⟨t116, ht116⟩ : ∃ x, x = addWithCarry t114.val (0 : Word) t115.c := ⟨_, rfl⟩
  obtain ⟨l117, hl117⟩ : ∃ x, x = mulLo a4 b0 := ⟨_, rfl⟩
  obtain ⟨h118, hh118⟩ : ∃ x, x = mulHi a4 b0 := ⟨_, rfl⟩
  obtain ⟨t119, ht119⟩ : ∃ x, x = addWithCarry t95.val l117 false := ⟨_, rfl⟩
  obtain ⟨l120, hl120⟩ : ∃ x, x = mulLo a4 b1 := ⟨_, rfl⟩
  obtain ⟨h121, hh121⟩ : ∃ x, x = mulHi a4 b1 := ⟨_, rfl⟩
  obtain ⟨t122, ht122⟩ : ∃ x, x = addWithCarry t100.val l120 t119.c := ⟨_, rfl⟩
  obtain ⟨t123, ht123⟩ : ∃ x, x = addWithCarry h121 (0 : Word) t122.c := ⟨_, rfl⟩
  obtain ⟨t124, ht124⟩ : ∃ x, x = addWithCarry t122.val h118 false := ⟨_, rfl⟩
  obtain ⟨l125, hl125⟩ : ∃ x, x = mulLo a4 b2 := ⟨_, rfl⟩
  obtain ⟨h126, hh126⟩ : ∃ x, x = mulHi a4 b2 := ⟨_, rfl⟩
  obtain ⟨t127, ht127⟩ : ∃ x, x = addWithCarry t105.val l125 t124.c := ⟨_, rfl⟩
  obtain ⟨t128, ht128⟩ : ∃ x, x = addWithCarry h126 (0 : Word) t127.c := ⟨_, rfl⟩
  obtain ⟨t129, ht129⟩ : ∃ x, x = addWithCarry t127.val t123.val false := ⟨_, rfl⟩
  obtain ⟨l130, hl130⟩ : ∃ x, x = mulLo a4 b3 := ⟨_, rfl⟩
  obtain ⟨h131, hh131⟩ : ∃ x, x = mulHi a4 b3 := ⟨_, rfl⟩
  obtain ⟨t132, ht132⟩ : ∃ x, x = addWithCarry t110.val l130 t129.c := ⟨_, rfl⟩
  obtain ⟨t133, ht133⟩ : ∃ x, x = addWithCarry h131 (0 : Word) t132.c := ⟨_, rfl⟩
  obtain ⟨t134, ht134⟩ : ∃ x, x = addWithCarry t132.val t128.val false := ⟨_, rfl⟩
  obtain ⟨l135, hl135⟩ : ∃ x, x = mulLo a4 b4 := ⟨_, rfl⟩
  obtain ⟨h136, hh136⟩ : ∃ x, x = mulHi a4 b4 := ⟨_, rfl⟩
  obtain ⟨t137, ht137⟩ : ∃ x, x = addWithCarry t115.val l135 t134.c := ⟨_, rfl⟩
  obtain ⟨t138, ht138⟩ : ∃ x, x = addWithCarry h136 (0 : Word) t137.c := ⟨_, rfl⟩
  obtain ⟨t139, ht139⟩ : ∃ x, x = addWithCarry t137.val t133.val false := ⟨_, rfl⟩
  obtain ⟨l140, hl140⟩ : ∃ x, x = mulLo a4 b5 := ⟨_, rfl⟩
  obtain ⟨h141, hh141⟩ : ∃ x, x = mulHi a4 b5 := ⟨_, rfl⟩
  obtain ⟨t142, ht142⟩ : ∃ x, x = addWithCarry t116.val l140 t139.c := ⟨_, rfl⟩
  obtain ⟨t143, ht143⟩ : ∃ x, x = addWithCarry h141 (0 : Word) t142.c := ⟨_, rfl⟩
  obtain ⟨t144, ht144⟩ : ∃ x, x = addWithCarry t142.val t138.val false := ⟨_, rfl⟩
  obtain ⟨t145, ht145⟩ : ∃ x, x = addWithCarry t143.val (0 : Word) t144.c := ⟨_, rfl⟩
  obtain ⟨l146, hl146⟩ : ∃ x, x = mulLo a5 b0 := ⟨_, rfl⟩
  obtain ⟨h147, hh147⟩ : ∃ x, x = mulHi a5 b0 := ⟨_, rfl⟩
  obtain ⟨t148, ht148⟩ : ∃ x, x = addWithCarry t124.val l146 false := ⟨_, rfl⟩
  obtain ⟨l149, hl149⟩ : ∃ x, x = mulLo a5 b1 := ⟨_, rfl⟩
  obtain ⟨h150, hh150⟩ : ∃ x, x = mulHi a5 b1 := ⟨_, rfl⟩
  obtain ⟨t151, ht151⟩ : ∃ x, x = addWithCarry t129.val l149 t148.c := ⟨_, rfl⟩
  obtain ⟨t152, ht152⟩ : ∃ x, x = addWithCarry h150 (0 : Word) t151.c := ⟨_, rfl⟩
  obtain ⟨t153, ht153⟩ : ∃ x, x = addWithCarry t151.val h147 false := ⟨_, rfl⟩
  obtain ⟨l154, hl154⟩ : ∃ x, x = mulLo a5 b2 := ⟨_, rfl⟩
  obtain ⟨h155, hh155⟩ : ∃ x, x = mulHi a5 b2 := ⟨_, rfl⟩
  obtain ⟨t156, ht156⟩ : ∃ x, x = addWithCarry t134.val l154 t153.c := ⟨_, rfl⟩
  obtain ⟨t157, ht157⟩ : ∃ x, x = addWithCarry h155 (0 : Word) t156.c := ⟨_, rfl⟩
  obtain ⟨t158, ht158⟩ : ∃ x, x = addWithCarry t156.val t152.val false := ⟨_, rfl⟩
  obtain ⟨l159, hl159⟩ : ∃ x, x = mulLo a5 b3 := ⟨_, rfl⟩
  obtain ⟨h160, hh160⟩ : ∃ x, x = mulHi a5 b3 := ⟨_, rfl⟩
  obtain ⟨t161, ht161⟩ : ∃ x, x = addWithCarry t139.val l159 t158.c := ⟨_, rfl⟩
  obtain ⟨t162, ht162⟩ : ∃ x, x = addWithCarry h160 (0 : Word) t161.c := ⟨_, rfl⟩
  obtain ⟨t163, ht163⟩ : ∃ x, x = addWithCarry t161.val t157.val false := ⟨_, rfl⟩
  obtain ⟨l164, hl164⟩ : ∃ x, x = mulLo a5 b4 := ⟨_, rfl⟩
  obtain ⟨h165, hh165⟩ : ∃ x, x = mulHi a5 b4 := ⟨_, rfl⟩
  obtain ⟨t166, ht166⟩ : ∃ x, x = addWithCarry t144.val l164 t163.c := ⟨_, rfl⟩
  obtain ⟨t167, ht167⟩ : ∃ x, x = addWithCarry h165 (0 : Word) t166.c := ⟨_, rfl⟩
  obtain ⟨t168, ht168⟩ : ∃ x, x = addWithCarry t166.val t162.val false := ⟨_, rfl⟩
  obtain ⟨l169, hl169⟩ : ∃ x, x = mulLo a5 b5 := ⟨_, rfl⟩
  obtain ⟨h170, hh170⟩ : ∃ x, x = mulHi a5 b5 := ⟨_, rfl⟩
  obtain ⟨t171, ht171⟩ : ∃ x, x = addWithCarry t145.val l169 t168.c := ⟨_, rfl⟩
  obtain ⟨t172, ht172⟩ : ∃ x, x = addWithCarry h170 (0 : Word) t171.c := ⟨_, rfl⟩
  obtain ⟨t173, ht173⟩ : ∃ x, x = addWithCarry t171.val t167.val false := ⟨_, rfl⟩
  obtain ⟨t174, ht174⟩ : ∃ x, x = addWithCarry t172.val (0 : Word) t173.c := ⟨_, rfl⟩
  have hq0 := mul768_part0 s pr pa pb hr ha hb hstk hrs has hbs hst hpc h0 h1 h2 (t11 := t11) (t16 := t16) (t19 := t19) (t22 := t22) (t25 := t25) (t28 := t28) (t29 := t29) (a0 := a0) (a1 := a1) (a2 := a2) (a3 := a3) (a4 := a4) (a5 := a5) (b0 := b0) (b1 := b1) (b2 := b2) (b3 := b3) (b4 := b4) (b5 := b5) (h12 := h12) (h15 := h15) (h18 := h18) (h21 := h21) (h24 := h24) (h27 := h27) (l13 := l13) (l14 := l14) (l17 := l17) (l20 := l20) (l23 := l23) (l26 := l26) ha0 ha1 ha2 ha3 ha4 ha5 hb0 hb1 hb2 hb3 hb4 hb5 ht11 hh12 hl13 hl14 hh15 ht16 hl17 hh18 ht19 hl20 hh21 ht22 hl23 hh24 ht25 hl26 hh27 ht28 ht29
  have hq1 := mul768_part1 s pr pa pb hr ha hb hstk hrs has hbs (t16 := t16) (t19 := t19) (t22 := t22) (t25 := t25) (t28 := t28) (t29 := t29) (t32 := t32) (t35 := t35) (t36 := t36) (t37 := t37) (t40 := t40) (t41 := t41) (t42 := t42) (t45 := t45) (t46 := t46) (t47 := t47) (t50 := t50) (t51 := t51) (t52 := t52) (t55 := t55) (t56 := t56) (t57 := t57) (t58 := t58) (a0 := a0) (a1 := a1) (a2 := a2) (a3 := a3) (a4 := a4) (a5 := a5) (b0 := b0) (b1 := b1) (b2 := b2) (b3 := b3) (b4 := b4) (b5 := b5) (h24 := h24) (h31 := h31) (h34 := h34) (h39 := h39) (h44 := h44) (h49 := h49) (h54 := h54) (l13 := l13) (l30 := l30) (l33 := l33) (l38 := l38) (l43 := l43) (l48 := l48) (l53 := l53) hl30 hh31 ht32 hl33 hh34 ht35 ht36 ht37 hl38 hh39 ht40 ht41 ht42 hl43 hh44 ht45 ht46 ht47 hl48 hh49 ht50 ht51 ht52 hl53 hh54 ht55 ht56 ht57 ht58
  have hq2 := mul768_part2 s pr pa pb hr ha hb hstk hrs has hbs (t32 := t32) (t37 := t37) (t42 := t42) (t47 := t47) (t51 := t51) (t52 := t52) (t57 := t57) (t58 := t58) (t61 := t61) (t64 := t64) (t65 := t65) (t66 := t66) (t69 := t69) (t70 := t70) (t71 := t71) (t74 := t74) (t75 := t75) (t76 := t76) (t79 := t79) (t80 := t80) (t81 := t81) (t84 := t84) (t85 := t85) (t86 := t86) (t87 := t87) (a1 := a1) (a2 := a2) (a3 := a3) (a4 := a4) (a5 := a5) (b0 := b0) (b1 := b1) (b2 := b2) (b3 := b3) (b4 := b4) (b5 := b5) (h60 := h60) (h63 := h63) (h68 := h68) (h73 := h73) (h78 := h78) (h83 := h83) (l13 := l13) (l53 := l53) (l59 := l59) (l62 := l62) (l67 := l67) (l72 := l72) (l77 := l77) (l82 := l82) hl59 hh60 ht61 hl62 hh63 ht64 ht65 ht66 hl67 hh68 ht69 ht70 ht71 hl72 hh73 ht74 ht75 ht76 hl77 hh78 ht79 ht80 ht81 hl82 hh83 ht84 ht85 ht86 ht87
  have hq3 := mul768_part3 s pr pa pb hr ha hb hstk hrs has hbs (t32 := t32) (t51 := t51) (t61 := t61) (t66 := t66) (t71 := t71) (t76 := t76) (t80 := t80) (t81 := t81) (t86 := t86) (t87 := t87) (t90 := t90) (t93 := t93) (t94 := t94) (t95 := t95) (t98 := t98) (t99 := t99) (t100 := t100) (t103 := t103) (t104 := t104) (t105 := t105) (t108 := t108) (t109 := t109) (t110 := t110) (t113 := t113) (t114 := t114) (t115 := t115) (t116 := t116) (a2 := a2) (a3 := a3) (a4 := a4) (a5 := a5) (b0 := b0) (b1 := b1) (b2 := b2) (b3 := b3) (b4 := b4) (b5 := b5) (h89 := h89) (h92 := h92) (h97 := h97) (l13 := l13) (l82 := l82) (l88 := l88) (l91 := l91) (l96 := l96) (h102 := h102) (h107 := h107) (h112 := h112) (l101 := l101) (l106 := l106) (l111 := l111) hl88 hh89 ht90 hl91 hh92 ht93 ht94 ht95 hl96 hh97 ht98 ht99 ht100 hl101 hh102 ht103 ht104 ht105 hl106 hh107 ht108 ht109 ht110 hl111 hh112 ht113 ht114 ht115 ht116
  have hq4 := mul768_part4 s pr pa pb hr ha hb hstk hrs has hbs (t32 := t32) (t51 := t51) (t61 := t61) (t90 := t90) (t95 := t95) (t100 := t100) (t105 := t105) (t109 := t109) (t110 := t110) (t115 := t115) (t116 := t116) (t119 := t119) (t122 := t122) (t123 := t123) (t124 := t124) (t127 := t127) (t128 := t128) (t129 := t129) (t132 := t132) (t133 := t133) (t134 := t134) (t137 := t137) (t138 := t138) (t139 := t139) (t142 := t142) (t143 := t143) (t144 := t144) (t145 := t145) (a2 := a2) (a3 := a3) (a4 := a4) (a5 := a5) (b0 := b0) (b1 := b1) (b2 := b2) (b3 := b3) (b4 := b4) (b5 := b5) (l13 := l13) (h118 := h118) (h121 := h121) (h126 := h126) (h131 := h131) (h136 := h136) (h141 := h141) (l111 := l111) (l117 := l117) (l120 := l120) (l125 := l125) (l130 := l130) (l135 := l135) (l140 := l140) hl117 hh118 ht119 hl120 hh121 ht122 ht123 ht124 hl125 hh126 ht127 ht128 ht129 hl130 hh131 ht132 ht133 ht134 hl135 hh136 ht137 ht138 ht139 hl140 hh141 ht142 ht143 ht144 ht145
  have hq5 := mul768_part5 s pr pa pb hr ha hb hstk hrs has hbs (t32 := t32) (t51 := t51) (t61 := t61) (t90 := t90) (t119 := t119) (t124 := t124) (t129 := t129) (t134 := t134) (t138 := t138) (t139 := t139) (t144 := t144) (t145 := t145) (t148 := t148) (t151 := t151) (t152 := t152) (t153 := t153) (t156 := t156) (t157 := t157) (t158 := t158) (t161 := t161) (t162 := t162) (t163 := t163) (t166 := t166) (t167 := t167) (t168 := t168) (t171 := t171) (t172 := t172) (t173 := t173) (t174 := t174) (a2 := a2) (a3 := a3) (a4 := a4) (a5 := a5) (b0 := b0) (b1 := b1) (b2 := b2) (b3 := b3) (b4 := b4) (b5 := b5) (l13 := l13) (h147 := h147) (h150 := h150) (h155 := h155) (h160 := h160) (h165 := h165) (h170 := h170) (l140 := l140) (l146 := l146) (l149 := l149) (l154 := l154) (l159 := l159) (l164 := l164) (l169 := l169) hl146 hh147 ht148 hl149 hh150 ht151 ht152 ht153 hl154 hh155 ht156 ht157 ht158 hl159 hh160 ht161 ht162 ht163 hl164 hh165 ht166 ht167 ht168 hl169 hh170 ht171 ht172 ht173 ht174
  have hq6 := mul768_part6 s pr pa pb hr ha hb hstk hrs has hbs (t32 := t32) (t61 := t61) (t90 := t90) (t119 := t119) (t148 := t148) (t153 := t153) (t158 := t158) (t163 := t163) (t167 := t167) (t168 := t168) (t173 := t173) (t174 := t174) (a2 := a2) (a3 := a3) (a4 := a4) (a5 := a5) (b0 := b0) (b1 := b1) (b2 := b2) (b3 := b3) (b4 := b4) (b5 := b5) (l13 := l13) (l169 := l169) 
  have hall : run embedded_pairing_core_arch_aarch64_bigint_768_multiply s 187 = _ := show run embedded_pairing_core_arch_aarch64_bigint_768_multiply s (30 + (29 + (29 + (29 + (29 + (29 + (12))))))) = _ from run_chain hq0 (run_chain hq1 (run_chain hq2 (run_chain hq3 (run_chain hq4 (run_chain hq5 (hq6))))))
  rw [hall]
  obtain ⟨rr0, rr1, rr2, rr3, rr4, rr5, rr6, rr7, rr8, rr9, rr10, rr11⟩ := hr.r12
  obtain ⟨⟨alrr0, alrr1, alrr2, alrr3, alrr4, alrr5, alrr6, alrr7, alrr8, alrr9, alrr10, alrr11⟩, frr1, frr2, frr3, frr4, frr5, frr6, frr7, frr8, frr9, frr10, frr11⟩ := hr.addr12
  have als0 := hstk.aligned
  obtain ⟨room1, als1, alq1a, alq1b, sr1a, sr1b, sw1a, sw1b⟩ := hstk.f1 (by omega)
  obtain ⟨room2, als2, alq2a, alq2b, sr2a, sr2b, sw2a, sw2b⟩ := hstk.f2 (by omega)
  obtain ⟨room3, als3, alq3a, alq3b, sr3a, sr3b, sw3a, sw3b⟩ := hstk.f3 (by omega)
  obtain ⟨room4, als4, alq4a, alq4b, sr4a, sr4b, sw4a, sw4b⟩ := hstk.f4 (by omega)
  obtain ⟨room5, als5, alq5a, alq5b, sr5a, sr5b, sw5a, sw5b⟩ := hstk.f5 (by omega)
  replace hrs := Hide.mk (And.intro room5 hrs)
  simp only [OffStack] at hrs
  clear hq0 hq1 hq2 hq3 hq4 hq5 hq6 hall
  refine ⟨⟨rfl, ?_, ?_, ?_, ?_, ?_, ?_, ?_, ?_, ?_, ?_, ?_, ?_, ?_, ?_⟩, ?_, ?_⟩
  all_goals try simp only
  all_goals try a64_mem
  · have c11 : t11.c = false := by rw [ht11]; exact awc_zero_c
    have e12 := multiply64_spec hl13 hh12
    have i12 : h12.toNat + t11.c.toNat ≤ 2 ^ 64 - 1 := by rw [c11]; have := e12.2; simp only [Bool.toNat_false]; omega
    have e14 := mulcarry64_spec hl14 hh15 ht16 i12
    simp only [c11, Bool.toNat_false, Nat.add_zero] at e14
    have e17 := mulcarry64_spec hl17 hh18 ht19 e14.2
    have e20 := mulcarry64_spec hl20 hh21 ht22 e17.2
    have e23 := mulcarry64_spec hl23 hh24 ht25 e20.2
    have e26 := mulcarry64_spec hl26 hh27 ht28 e23.2
    have e29 := rowend_spec ht29 e26.2
    have e30 := muladd64_spec hl30 hh31 ht32
    have e33 := muladdcarry64_spec hl33 hh34 ht35 ht36 ht37 e30.2
    have e38 := muladdcarry64_spec hl38 hh39 ht40 ht41 ht42 e33.2
    have e43 := muladdcarry64_spec hl43 hh44 ht45 ht46 ht47 e38.2
    have e48 := muladdcarry64_spec hl48 hh49 ht50 ht51 ht52 e43.2
    have e53 := muladdcarry64_spec hl53 hh54 ht55 ht56 ht57 e48.2
    have e58 := rowend_spec ht58 e53.2
    have e59 := muladd64_spec hl59 hh60 ht61
    have e62 := muladdcarry64_spec hl62 hh63 ht64 ht65 ht66 e59.2
    have e67 := muladdcarry64_spec hl67 hh68 ht69 ht70 ht71 e62.2
    have e72 := muladdcarry64_spec hl72 hh73 ht74 ht75 ht76 e67.2
    have e77 := muladdcarry64_spec hl77 hh78 ht79 ht80 ht81 e72.2
    have e82 := muladdcarry64_spec hl82 hh83 ht84 ht85 ht86 e77.2
    have e87 := rowend_spec ht87 e82.2
    have e88 := muladd64_spec hl88 hh89 ht90
    have e91 := muladdcarry64_spec hl91 hh92 ht93 ht94 ht95 e88.2
    have e96 := muladdcarry64_spec hl96 hh97 ht98 ht99 ht100 e91.2
    have e101 := muladdcarry64_spec hl101 hh102 ht103 ht104 ht105 e96.2
    have e106 := muladdcarry64_spec hl106 hh107 ht108 ht109 ht110 e101.2
    have e111 := muladdcarry64_spec hl111 hh112 ht113 ht114 ht115 e106.2
    have e116 := rowend_spec ht116 e111.2
    have e117 := muladd64_spec hl117 hh118 ht119
    have e120 := muladdcarry64_spec hl120 hh121 ht122 ht123 ht124 e117.2
    have e125 := muladdcarry64_spec hl125 hh126 ht127 ht128 ht129 e120.2
    have e130 := muladdcarry64_spec hl130 hh131 ht132 ht133 ht134 e125.2
    have e135 := muladdcarry64_spec hl135 hh136 ht137 ht138 ht139 e130.2
    have e140 := muladdcarry64_spec hl140 hh141 ht142 ht143 ht144 e135.2
    have e145 := rowend_spec ht145 e140.2
    have e146 := muladd64_spec hl146 hh147 ht148
    have e149 := muladdcarry64_spec hl149 hh150 ht151 ht152 ht153 e146.2
    have e154 := muladdcarry64_spec hl154 hh155 ht156 ht157 ht158 e149.2
    have e159 := muladdcarry64_spec hl159 hh160 ht161 ht162 ht163 e154.2
    have e164 := muladdcarry64_spec hl164 hh165 ht166 ht167 ht168 e159.2
    have e169 := muladdcarry64_spec hl169 hh170 ht171 ht172 ht173 e164.2
    have e174 := rowend_spec ht174 e169.2
    simp only [val_cons, val_nil]
    linear_combination e12.1 + 2 ^ 64 * e14.1 + 2 ^ 128 * e17.1 + 2 ^ 192 * e20.1 + 2 ^ 256 * e23.1 + 2 ^ 320 * e26.1 + 2 ^ 384 * e29 + 2 ^ 64 * e30.1 + 2 ^ 128 * e33.1 + 2 ^ 192 * e38.1 + 2 ^ 256 * e43.1 + 2 ^ 320 * e48.1 + 2 ^ 384 * e53.1 + 2 ^ 448 * e58 + 2 ^ 128 * e59.1 + 2 ^ 192 * e62.1 + 2 ^ 256 * e67.1 + 2 ^ 320 * e72.1 + 2 ^ 384 * e77.1 + 2 ^ 448 * e82.1 + 2 ^ 512 * e87 + 2 ^ 192 * e88.1 + 2 ^ 256 * e91.1 + 2 ^ 320 * e96.1 + 2 ^ 384 * e101.1 + 2 ^ 448 * e106.1 + 2 ^ 512 * e111.1 + 2 ^ 576 * e116 + 2 ^ 256 * e117.1 + 2 ^ 320 * e120.1 + 2 ^ 384 * e125.1 + 2 ^ 448 * e130.1 + 2 ^ 512 * e135.1 + 2 ^ 576 * e140.1 + 2 ^ 640 * e145 + 2 ^ 320 * e146.1 + 2 ^ 384 * e149.1 + 2 ^ 448 * e154.1 + 2 ^ 512 * e159.1 + 2 ^ 576 * e164.1 + 2 ^ 640 * e169.1 + 2 ^ 704 * e174
  · intro k hk1 hk2
    simp (disch := (clear * - hk1 hk2 room5; omega)) only [setMem_ne]

end Jedi.A64
