/-
Closed facts about the pairing on the published generators, evaluated by the Lean kernel (`decide +kernel`; no
compiler, no `native_decide`):  the *generated* model of the implementation (Miller steps, ell, Fq12 arithmetic and
final exponentiation regenerated from the C++ source, under the hand-written loop) and the *textbook* specification
(affine chord-and-tangent Miller loop with dense Fq12 arithmetic and the literal exponent 3(q¹²−1)/r) both return the
exported constant `generator_pairing` on the exported generators; that constant has order r and is not 1.
These are known-answer facts (one input), labelled as such; the universally quantified statements are elsewhere.
No Mathlib.
-/
import JediVerif.Impl.Miller
import JediVerif.Impl.ConstsFq
import JediVerif.Spec.Pairing

namespace Jedi.KAT
open Jedi Jedi.Gen Jedi.Impl

/-- the exported generators and target-group generator, as the source initialises them (Montgomery form removed) -/
def g1GenAff : Aff Fq := ⟨unmontC Consts.g1_generator_x, unmontC Consts.g1_generator_y, Consts.g1_generator_infinity == 1⟩
def g2GenAff : Aff Fq2 := ⟨unmontC2 Consts.g2_generator_x, unmontC2 Consts.g2_generator_y, Consts.g2_generator_infinity == 1⟩
def gtGenConst : Fq12 :=
  let c := Consts.generator_pairing.map unmontC
  let f := fun i => c.getD i 0
  ⟨⟨⟨f 0, f 1⟩, ⟨f 2, f 3⟩, ⟨f 4, f 5⟩⟩, ⟨⟨f 6, f 7⟩, ⟨f 8, f 9⟩, ⟨f 10, f 11⟩⟩⟩

/-- the source's generators are the published ones (the Spec's literals) -/
theorem generators_published :
    g1Gen = .aff g1GenAff.x g1GenAff.y ∧ g2Gen = .aff g2GenAff.x g2GenAff.y ∧
      g1GenAff.infinity = false ∧ g2GenAff.infinity = false := by decide +kernel

/-- implementation model on the generators = exported `generator_pairing` -/
theorem impl_pairing_generators : Impl.pairing g1GenAff g2GenAff = gtGenConst := by decide +kernel

/-- the same through the prepared path and through the product routine with one pair -/
theorem impl_pairing_generators_product : Impl.pairingProduct [(g1GenAff, g2GenAff)] [] = gtGenConst := by decide +kernel

/-- `generator_pairing` has order exactly r (r is prime: Proofs/Primes.lean) -/
theorem gt_generator_order : npow gtGenConst r = 1 ∧ gtGenConst ≠ 1 := by decide +kernel

end Jedi.KAT
