/-
Proofs for `Impl/FpUtils.lean`: the loops of `fp_utils.hpp` / `fp.hpp` / `fq.cpp` / `fr.cpp` that are not limb arithmetic
(`exponentiate`, `fp_inverse`, `legendre`, the two `square_root`s, `hash_reduce`, `random`, big-endian byte I/O) compute
what they should, for ALL inputs.  Generic statements are over an arbitrary commutative monoid / finite field / prime
modulus; the last section instantiates them at `Fq`, `Fr` with the library's constants (closed facts on the constants by
kernel evaluation).  Property-level restatements: `Properties/C02b.lean`.
-/
import JediVerif.Impl.FpUtils
import JediVerif.Proofs.FqField
import JediVerif.Proofs.MarshalProofs
import Mathlib.Data.ZMod.Basic
import Mathlib.Data.Nat.GCD.Basic
import Mathlib.Algebra.CharP.Basic
import Mathlib.FieldTheory.Finite.Basic
import Mathlib.Tactic.Ring
import Mathlib.Tactic.Linarith
import Mathlib.Tactic.FieldSimp
import Mathlib.Tactic.LinearCombination

namespace Jedi.Impl
open Jedi Jedi.Gen

/-! ### exponentiate -/

theorem mod_two_pow_succ_testBit (e i : Nat) :
    e % 2 ^ (i + 1) = e % 2 ^ i + (if e.testBit i then 2 ^ i else 0) := by
  rw [pow_succ, Nat.mod_mul, Nat.testBit_eq_decide_div_mod_eq]
  rcases Nat.mod_two_eq_zero_or_one (e / 2 ^ i) with h | h <;> simp [h]

theorem expLoop_spec {M : Type} [CommMonoid M] (a : M) (e : Nat) :
    ∀ (i : Nat) (res : M) (found : Bool), (found = false → res = 1) →
      (expLoop a e i (res, found)).1 = res ^ (2 ^ i) * a ^ (e % 2 ^ i) := by
  intro i
  induction i with
  | zero => intro res found _; simp [expLoop, Nat.mod_one]
  | succ i ih =>
    intro res found h
    have hres : (if found then res * res else res) = res * res := by
      cases found with
      | true => rfl
      | false => simp [h rfl]
    rw [expLoop, hres, mod_two_pow_succ_testBit]
    cases hb : e.testBit i with
    | true =>
      simp only [if_true]
      rw [ih _ _ (by simp)]
      have hr : res ^ 2 ^ (i + 1) = (res * res) ^ 2 ^ i := by rw [← pow_two, ← pow_mul, ← pow_succ']
      rw [hr, pow_add, mul_pow (res * res) a, mul_assoc, mul_comm (a ^ 2 ^ i)]
    | false =>
      simp only [Bool.false_eq_true, if_false, add_zero]
      rw [ih]
      · rw [← pow_two, ← pow_mul, ← pow_succ']
      · intro hf; rw [h hf]; simp

/-- `exponentiate` computes the power by the low `bits` bits of the exponent. -/
theorem fpExponentiate_eq {M : Type} [CommMonoid M] (bits : Nat) (a : M) (e : Nat) :
    fpExponentiate bits a e = a ^ (e % 2 ^ bits) := by
  rw [fpExponentiate, expLoop_spec a e bits 1 false (fun _ => rfl), one_pow, one_mul]

theorem fpExponentiate_eq_pow {M : Type} [CommMonoid M] {bits : Nat} (a : M) {e : Nat} (he : e < 2 ^ bits) :
    fpExponentiate bits a e = a ^ e := by
  rw [fpExponentiate_eq, Nat.mod_eq_of_lt he]

theorem expLoopCT_spec {M : Type} [CommMonoid M] (a : M) (e : Nat) :
    ∀ (i : Nat) (res : M), expLoopCT a e i res = res ^ (2 ^ i) * a ^ (e % 2 ^ i) := by
  intro i
  induction i with
  | zero => intro res; simp [expLoopCT, Nat.mod_one]
  | succ i ih =>
    intro res
    rw [expLoopCT, mod_two_pow_succ_testBit]
    cases hb : e.testBit i with
    | true =>
      simp only [if_true]
      have hr : res ^ 2 ^ (i + 1) = (res * res) ^ 2 ^ i := by rw [← pow_two, ← pow_mul, ← pow_succ']
      rw [ih, hr, pow_add, mul_pow (res * res) a, mul_assoc, mul_comm (a ^ 2 ^ i)]
    | false =>
      simp only [Bool.false_eq_true, if_false, add_zero]
      rw [ih, ← pow_two, ← pow_mul, ← pow_succ']

theorem fpExponentiateCT_eq {M : Type} [CommMonoid M] (bits : Nat) (a : M) (e : Nat) :
    fpExponentiateCT bits a e = a ^ (e % 2 ^ bits) := by
  rw [fpExponentiateCT, expLoopCT_spec, one_pow, one_mul]

/-! ### fp_inverse -/

section Inverse
variable {p bits : Nat}

/-- the halving loop: the result `u'` is odd, `u = 2^k·u'`, `b ≡ 2^k·b'`, and `b'` stays reduced. -/
theorem invHalve_spec (hp2 : p % 2 = 1) (hbits : 2 * p ≤ 2 ^ bits) :
    ∀ (fuel u b : Nat), u ≠ 0 → u < 2 ^ fuel → b < p →
      (invHalve p bits fuel (u, b)).1 % 2 = 1 ∧ (invHalve p bits fuel (u, b)).2 < p ∧
      ∃ k, u = 2 ^ k * (invHalve p bits fuel (u, b)).1 ∧ (u % 2 = 0 → 1 ≤ k) ∧
        ((b : ZMod p) = 2 ^ k * ((invHalve p bits fuel (u, b)).2 : ZMod p)) := by
  intro fuel
  induction fuel with
  | zero => intro u b hu hlt; simp at hlt; exact absurd hlt hu
  | succ fuel ih =>
    intro u b hu hlt hb
    rw [invHalve]
    split
    · next heven =>
      have hu2 : u / 2 ≠ 0 := by omega
      have hlt2 : u / 2 < 2 ^ fuel := by rw [pow_succ] at hlt; omega
      -- the new b
      have hbb : ∃ b', (if b % 2 = 1 then (b + p) % 2 ^ bits else b) / 2 = b' ∧ b' < p ∧ (b : ZMod p) = 2 * (b' : ZMod p) := by
        refine ⟨_, rfl, ?_, ?_⟩
        · split
          · rw [Nat.mod_eq_of_lt (by omega)]; omega
          · omega
        · split
          · next hodd =>
            rw [Nat.mod_eq_of_lt (by omega)]
            have : b + p = 2 * ((b + p) / 2) := by omega
            have h2 := congrArg (Nat.cast : ℕ → ZMod p) this
            push_cast at h2
            rw [← h2]; simp
          · next hev =>
            have : b = 2 * (b / 2) := by omega
            have h2 := congrArg (Nat.cast : ℕ → ZMod p) this
            push_cast at h2
            exact h2
      obtain ⟨b', hb'eq, hb'lt, hb'c⟩ := hbb
      simp only [hb'eq]
      obtain ⟨h1, h2, k, hk, _, hkc⟩ := ih (u / 2) b' hu2 hlt2 hb'lt
      refine ⟨h1, h2, k + 1, ?_, fun _ => by omega, ?_⟩
      · rw [pow_succ, mul_assoc, mul_comm 2, ← mul_assoc, ← hk]; omega
      · rw [hb'c, hkc, pow_succ]; ring
    · next hodd =>
      refine ⟨by omega, hb, 0, by simp, fun h => absurd h hodd, by simp⟩

/-- loop invariant of the binary extended Euclid -/
structure InvInv (p r2 a : Nat) (s : InvSt) : Prop where
  upos : 0 < s.u
  vpos : 0 < s.v
  ule : s.u ≤ p
  vle : s.v ≤ p
  blt : s.b < p
  clt : s.c < p
  cop : Nat.Coprime s.u s.v
  hb : (s.b : ZMod p) * a = s.u * r2
  hc : (s.c : ZMod p) * a = s.v * r2

/-- termination weight: `u·v`, doubled while both are odd -/
def invW (s : InvSt) : Nat := s.u * s.v * (if s.u % 2 = 1 ∧ s.v % 2 = 1 then 2 else 1)

theorem fpSubV_cast {a b : Nat} (hb : b < p) : ((fpSubV p a b : ℕ) : ZMod p) = a - b := by
  rw [fpSubV, ZMod.natCast_mod, Nat.cast_sub (by omega), Nat.cast_add, ZMod.natCast_self]; ring

theorem invLoop_spec (hp : p.Prime) (h2 : 2 < p) (hbits : 2 * p ≤ 2 ^ bits) {r2 a : Nat} :
    ∀ (fuel : Nat) (s : InvSt), InvInv p r2 a s → invW s < 2 ^ fuel →
      InvInv p r2 a (invLoop p bits fuel s) ∧ ((invLoop p bits fuel s).u = 1 ∨ (invLoop p bits fuel s).v = 1) := by
  have : Fact p.Prime := ⟨hp⟩
  have hp2 : p % 2 = 1 := by
    rcases hp.eq_two_or_odd with h | h
    · omega
    · exact h
  have h2ne : (2 : ZMod p) ≠ 0 := by
    intro h
    have : ((2 : ℕ) : ZMod p) = 0 := by exact_mod_cast h
    rw [ZMod.natCast_eq_zero_iff] at this
    exact absurd (Nat.le_of_dvd (by decide) this) (by omega)
  have hplt : p < 2 ^ bits := by omega
  intro fuel
  induction fuel with
  | zero =>
    intro s hs hw
    exfalso
    have h1 := hs.upos; have h2 := hs.vpos
    have : 0 < s.u * s.v := Nat.mul_pos h1 h2
    unfold invW at hw
    split at hw <;> omega
  | succ fuel ih =>
    intro s hs hw
    rw [invLoop]
    split
    · next hcond =>
      obtain ⟨hu1, hv1⟩ := hcond
      obtain ⟨huo, hblt, k, hk, hk1, hkc⟩ := invHalve_spec hp2 hbits bits s.u s.b (by have := hs.upos; omega)
        (by have := hs.ule; omega) hs.blt
      obtain ⟨hvo, hclt, j, hj, hj1, hjc⟩ := invHalve_spec hp2 hbits bits s.v s.c (by have := hs.vpos; omega)
        (by have := hs.vle; omega) hs.clt
      generalize hU : invHalve p bits bits (s.u, s.b) = U at *
      generalize hV : invHalve p bits bits (s.v, s.c) = V at *
      obtain ⟨u', b'⟩ := U
      obtain ⟨v', c'⟩ := V
      simp only at huo hblt hk hkc hvo hclt hj hjc ⊢
      have hkpos : 0 < 2 ^ k := Nat.pos_of_ne_zero (by positivity)
      have hjpos : 0 < 2 ^ j := Nat.pos_of_ne_zero (by positivity)
      have hu'le : u' ≤ s.u := by rw [hk]; exact Nat.le_mul_of_pos_left _ hkpos
      have hv'le : v' ≤ s.v := by rw [hj]; exact Nat.le_mul_of_pos_left _ hjpos
      have hcop' : Nat.Coprime u' v' := by
        have := hs.cop
        rw [hk, hj] at this
        exact (this.coprime_mul_left).coprime_mul_left_right
      have hb' : (b' : ZMod p) * a = u' * r2 := by
        have := hs.hb
        rw [hkc, hk] at this
        push_cast at this
        have h2k : (2 : ZMod p) ^ k ≠ 0 := pow_ne_zero _ h2ne
        apply mul_left_cancel₀ h2k
        linear_combination this
      have hc' : (c' : ZMod p) * a = v' * r2 := by
        have := hs.hc
        rw [hjc, hj] at this
        push_cast at this
        have h2j : (2 : ZMod p) ^ j ≠ 0 := pow_ne_zero _ h2ne
        apply mul_left_cancel₀ h2j
        linear_combination this
      -- weight
      have hw2 : 2 * (u' * v') ≤ invW s := by
        unfold invW
        split
        · have := Nat.mul_le_mul hu'le hv'le; omega
        · next hno =>
          have hcase : s.u % 2 = 0 ∨ s.v % 2 = 0 := by omega
          rcases hcase with he | he
          · have hk1' := hk1 he
            have : 2 * u' ≤ s.u := by
              rw [hk]
              calc 2 * u' = 2 ^ 1 * u' := by ring
                _ ≤ 2 ^ k * u' := Nat.mul_le_mul_right _ (Nat.pow_le_pow_right (by decide) hk1')
            have := Nat.mul_le_mul this hv'le
            rw [mul_one]; linarith
          · have hj1' := hj1 he
            have : 2 * v' ≤ s.v := by
              rw [hj]
              calc 2 * v' = 2 ^ 1 * v' := by ring
                _ ≤ 2 ^ j * v' := Nat.mul_le_mul_right _ (Nat.pow_le_pow_right (by decide) hj1')
            have := Nat.mul_le_mul hu'le this
            rw [mul_one]; linarith
      have hv'pos : 0 < v' := by omega
      have hu'pos : 0 < u' := by omega
      split
      · next hlt =>
        apply ih
        · refine ⟨by simp only; omega, hv'pos, by simp only; have := hs.ule; omega, by have := hs.vle; simp only; omega,
            Nat.mod_lt _ (by omega), hclt, ?_, ?_, hc'⟩
          · simp only; exact (Nat.coprime_sub_self_left (by omega)).2 hcop'
          · simp only
            rw [fpSubV_cast hclt, Nat.cast_sub (by omega)]
            linear_combination hb' - hc'
        · have hev : (u' - v') % 2 = 0 := by omega
          unfold invW
          simp only
          rw [if_neg (by omega), mul_one]
          have : (u' - v') * v' < u' * v' := Nat.mul_lt_mul_of_pos_right (by omega) hv'pos
          rw [pow_succ] at hw
          omega
      · next hge =>
        have hne : u' ≠ v' := by
          intro he
          subst he
          have h1 : u' = 1 := by simpa using hcop'
          subst h1
          -- both s.u and s.v are powers of two ≠ 1, contradiction with coprimality
          have hk0 : k ≠ 0 := by intro h0; subst h0; simp at hk; exact hu1 hk
          have hj0 : j ≠ 0 := by intro h0; subst h0; simp at hj; exact hv1 hj
          have hdu : 2 ∣ s.u := by rw [hk, mul_one]; exact dvd_pow_self 2 hk0
          have hdv : 2 ∣ s.v := by rw [hj, mul_one]; exact dvd_pow_self 2 hj0
          have := Nat.dvd_gcd hdu hdv
          rw [hs.cop] at this
          exact absurd (Nat.le_of_dvd (by decide) this) (by decide)
        apply ih
        · refine ⟨hu'pos, by simp only; omega, by have := hs.ule; simp only; omega, by simp only; have := hs.vle; omega,
            hblt, Nat.mod_lt _ (by omega), ?_, hb', ?_⟩
          · simp only; exact (Nat.coprime_sub_self_right (by omega)).2 hcop'
          · simp only
            rw [fpSubV_cast hblt, Nat.cast_sub (by omega)]
            linear_combination hc' - hb'
        · have hev : (v' - u') % 2 = 0 := by omega
          unfold invW
          simp only
          rw [if_neg (by omega), mul_one]
          have : u' * (v' - u') < u' * v' := Nat.mul_lt_mul_of_pos_left (by omega) hu'pos
          rw [pow_succ] at hw
          omega
    · next hcond =>
      refine ⟨hs, ?_⟩
      by_contra hcon
      exact hcond ⟨fun h => hcon (Or.inl h), fun h => hcon (Or.inr h)⟩

theorem fpInverseRaw_zero (p bits r2 : Nat) : fpInverseRaw p bits r2 0 = 0 := by simp [fpInverseRaw]

/-- `fp_inverse` on stored limbs: for a prime modulus `2 < p`, `2p ≤ 2^bits`, a reduced constant `r2` and reduced
non-zero limbs `a`, the result is reduced and `result · a ≡ r2 (mod p)`. -/
theorem fpInverseRaw_spec (hp : p.Prime) (h2 : 2 < p) (hbits : 2 * p ≤ 2 ^ bits) {r2 a : Nat}
    (hr2 : r2 < p) (ha0 : 0 < a) (ha : a < p) :
    fpInverseRaw p bits r2 a < p ∧ fpInverseRaw p bits r2 a * a ≡ r2 [MOD p] := by
  have : Fact p.Prime := ⟨hp⟩
  have hinit : InvInv p r2 a ⟨a, p, r2, 0⟩ := by
    refine ⟨ha0, ?_, ?_, le_refl _, hr2, ?_, ?_, ?_, ?_⟩
    · show 0 < p; omega
    · show a ≤ p; omega
    · show 0 < p; omega
    · exact (Nat.coprime_of_lt_prime (by omega) ha hp).symm
    · show ((r2 : ℕ) : ZMod p) * a = (a : ZMod p) * r2; ring
    · show ((0 : ℕ) : ZMod p) * a = (p : ZMod p) * r2; simp
  have hw : invW ⟨a, p, r2, 0⟩ < 2 ^ invFuel bits := by
    have h1 : invW ⟨a, p, r2, 0⟩ ≤ a * p * 2 := by
      unfold invW; split <;> simp only [mul_one] <;> omega
    have hbpos : 0 < bits := by
      rcases Nat.eq_zero_or_pos bits with h | h
      · subst h; simp at hbits; omega
      · exact h
    have hple : p ≤ 2 ^ (bits - 1) := by
      have : 2 ^ bits = 2 * 2 ^ (bits - 1) := by rw [← pow_succ']; congr 1; omega
      omega
    have h3 : a * p ≤ 2 ^ (bits - 1) * 2 ^ (bits - 1) := Nat.mul_le_mul (by omega) hple
    have h4 : 2 ^ (bits - 1) * 2 ^ (bits - 1) * 2 < 2 ^ invFuel bits := by
      rw [← pow_add, ← pow_succ]
      exact Nat.pow_lt_pow_right (by decide) (by unfold invFuel; omega)
    omega
  obtain ⟨hfin, hone⟩ := invLoop_spec hp h2 hbits (invFuel bits) _ hinit hw
  have key : ∀ x : Nat, x < p → (x : ZMod p) * a = ((1 : ℕ) : ZMod p) * r2 → x < p ∧ x * a ≡ r2 [MOD p] := by
    intro x hx h
    refine ⟨hx, ?_⟩
    rw [← ZMod.natCast_eq_natCast_iff]
    push_cast at h ⊢
    rw [h, one_mul]
  rw [fpInverseRaw, if_neg (by omega)]
  simp only
  split
  · next hu => exact key _ hfin.blt (by rw [← hu]; exact hfin.hb)
  · next hu =>
    have hv : (invLoop p bits (invFuel bits) ⟨a, p, r2, 0⟩).v = 1 := hone.resolve_left hu
    exact key _ hfin.clt (by rw [← hv]; exact hfin.hc)

end Inverse

/-! ### `fp_inverse` on field elements -/

section
variable {n : Nat} [NeZero n]
attribute [local instance] Fin.instCommRing

theorem fpInverse_eq_finInv (hp : n.Prime) (h2 : 2 < n) {bits r2 : Nat} (hbits : 2 * n ≤ 2 ^ bits)
    (hr2 : r2 = (2 ^ bits * 2 ^ bits) % n) (x : Fin n) : fpInverse bits r2 x = finInv x := by
  let _ : Field (Fin n) := finField hp h2
  have hinv : ∀ y : Fin n, finInv y = y⁻¹ := fun _ => rfl
  have hofNat : ∀ k : Nat, Fin.ofNat n k = ((k : ℕ) : Fin n) := fun _ => rfl
  have hR0 : ((2 ^ bits : ℕ) : Fin n) ≠ 0 := by
    intro h
    rw [CharP.cast_eq_zero_iff (Fin n) n] at h
    have := (Nat.Prime.dvd_of_dvd_pow hp h)
    exact absurd (Nat.le_of_dvd (by decide) this) (by omega)
  rw [fpInverse, ofMont, toMont, hofNat, hofNat, hinv, hinv]
  by_cases hx : x = 0
  · subst hx
    have : ((0 : Fin n) * ((2 ^ bits : ℕ) : Fin n)).val = 0 := by rw [zero_mul]; rfl
    rw [this, fpInverseRaw_zero]; simp
  · have hxr : x * ((2 ^ bits : ℕ) : Fin n) ≠ 0 := mul_ne_zero hx hR0
    have ha0 : 0 < (x * ((2 ^ bits : ℕ) : Fin n)).val := by
      rcases Nat.eq_zero_or_pos (x * ((2 ^ bits : ℕ) : Fin n)).val with h | h
      · exact absurd (Fin.ext h) hxr
      · exact h
    obtain ⟨_, hmod⟩ := fpInverseRaw_spec hp h2 hbits (r2 := r2) (by rw [hr2]; exact Nat.mod_lt _ (by omega)) ha0
      (x * ((2 ^ bits : ℕ) : Fin n)).isLt
    have hmod2 : fpInverseRaw n bits r2 (x * ((2 ^ bits : ℕ) : Fin n)).val * (x * ((2 ^ bits : ℕ) : Fin n)).val
        ≡ 2 ^ bits * 2 ^ bits [MOD n] := hmod.trans (by rw [hr2]; exact Nat.mod_modEq _ _)
    rw [← CharP.natCast_eq_natCast (Fin n) n] at hmod2
    rw [Nat.cast_mul, Fin.cast_val_eq_self, Nat.cast_mul] at hmod2
    generalize ((fpInverseRaw n bits r2 (x * ((2 ^ bits : ℕ) : Fin n)).val : ℕ) : Fin n) = res at hmod2 ⊢
    generalize ((2 ^ bits : ℕ) : Fin n) = R at hmod2 hR0 ⊢
    field_simp
    have : (res * x - R) * R = 0 := by linear_combination hmod2
    rcases mul_eq_zero.1 this with h | h
    · linear_combination h
    · exact absurd h hR0
end

/-! ### Legendre symbol, `Fq::square_root` -/

section FiniteField
variable {K : Type} [Field K] [Fintype K] [DecidableEq K] {p bits : Nat}

omit [DecidableEq K] in
theorem ringChar_ne_two_of_card (hcard : Fintype.card K = p) (hodd : p % 2 = 1) : ringChar K ≠ 2 := by
  intro h
  have := FiniteField.even_card_of_char_two h
  omega

omit [Fintype K] in
/-- the value `Fp::legendre` tests: `x^((p-1)/2)`. -/
theorem legendre_def (hodd : p % 2 = 1) (hb : p ≤ 2 ^ bits) (x : K) :
    legendre p bits x = if x ^ (p / 2) = 0 then 0 else if x ^ (p / 2) = 1 then 1 else -1 := by
  have he : (p - 1) >>> 1 = p / 2 := by rw [Nat.shiftRight_eq_div_pow]; omega
  rw [legendre, he, fpExponentiate_eq_pow x (by omega)]

omit [Fintype K] in
theorem legendre_range (p bits : Nat) (x : K) :
    legendre p bits x = 0 ∨ legendre p bits x = 1 ∨ legendre p bits x = -1 := by
  unfold legendre; simp only; split
  · exact Or.inl rfl
  · split
    · exact Or.inr (Or.inl rfl)
    · exact Or.inr (Or.inr rfl)

theorem legendre_eq_zero_iff (hcard : Fintype.card K = p) (hodd : p % 2 = 1) (hb : p ≤ 2 ^ bits) (x : K) :
    legendre p bits x = 0 ↔ x = 0 := by
  have hp2 : p / 2 ≠ 0 := by
    have : 1 < Fintype.card K := Fintype.one_lt_card
    omega
  rw [legendre_def hodd hb]
  constructor
  · intro h
    split at h
    · next h0 => exact pow_eq_zero_iff hp2 |>.1 h0
    · split at h <;> omega
  · intro h; subst h; rw [zero_pow hp2]; simp

theorem legendre_eq_one_iff (hcard : Fintype.card K = p) (hodd : p % 2 = 1) (hb : p ≤ 2 ^ bits) (x : K) :
    legendre p bits x = 1 ↔ x ≠ 0 ∧ IsSquare x := by
  have hF := ringChar_ne_two_of_card hcard hodd
  have hp2 : p / 2 ≠ 0 := by
    have : 1 < Fintype.card K := Fintype.one_lt_card
    omega
  rw [legendre_def hodd hb]
  constructor
  · intro h
    split at h
    · omega
    · next h0 =>
      have hx : x ≠ 0 := by intro hx; subst hx; exact h0 (zero_pow hp2)
      split at h
      · next h1 => exact ⟨hx, (FiniteField.isSquare_iff hF hx).2 (by rw [hcard]; exact h1)⟩
      · omega
  · rintro ⟨hx, hsq⟩
    have h1 := (FiniteField.isSquare_iff hF hx).1 hsq
    rw [hcard] at h1
    rw [h1]; simp

theorem legendre_eq_neg_one_iff (hcard : Fintype.card K = p) (hodd : p % 2 = 1) (hb : p ≤ 2 ^ bits) (x : K) :
    legendre p bits x = -1 ↔ ¬ IsSquare x := by
  have h0 := legendre_eq_zero_iff hcard hodd hb x
  have h1 := legendre_eq_one_iff hcard hodd hb x
  rcases legendre_range p bits x with h | h | h
  · have hx := h0.1 h
    rw [h]; subst hx; simp
  · rw [h]; have := (h1.1 h).2; simp [this]
  · rw [h]
    simp only [true_iff]
    intro hsq
    by_cases hx : x = 0
    · have := h0.2 hx; omega
    · have := h1.2 ⟨hx, hsq⟩; omega

/-- Euler: for non-squares the tested power is `-1` (so the three outcomes are exactly 0, 1, -1 ↔ the power). -/
theorem legendre_eq_pow (hcard : Fintype.card K = p) (hodd : p % 2 = 1) (hb : p ≤ 2 ^ bits) (x : K) :
    ((legendre p bits x : ℤ) : K) = x ^ ((p - 1) / 2) := by
  have hF := ringChar_ne_two_of_card hcard hodd
  have he : (p - 1) / 2 = p / 2 := by omega
  rw [he, legendre_def hodd hb]
  split
  · next h => rw [h]; simp
  · next h0 =>
    split
    · next h1 => rw [h1]; simp
    · next h1 =>
      have hp2 : p / 2 ≠ 0 := by
        have : 1 < Fintype.card K := Fintype.one_lt_card
        omega
      have hx : x ≠ 0 := by intro hx; subst hx; exact h0 (zero_pow hp2)
      have := FiniteField.pow_dichotomy hF hx
      rw [hcard] at this
      rcases this with h | h
      · exact absurd h h1
      · rw [h]; simp

/-! ### `Fq::square_root` (p ≡ 3 mod 4) -/

theorem sqrt3mod4_sq (hcard : Fintype.card K = p) (h34 : p % 4 = 3) {e : Nat} (he : e = (p + 1) / 4)
    (hb : p ≤ 2 ^ bits) {a : K} (ha : IsSquare a) : sqrt3mod4 bits e a * sqrt3mod4 bits e a = a := by
  have hF := ringChar_ne_two_of_card hcard (p := p) (by omega)
  rw [sqrt3mod4, fpExponentiate_eq_pow a (by omega), ← pow_add]
  have h2e : e + e = p / 2 + 1 := by omega
  rw [h2e, pow_succ]
  by_cases h0 : a = 0
  · subst h0; simp
  · have := (FiniteField.isSquare_iff hF h0).1 ha
    rw [hcard] at this
    rw [this, one_mul]

omit [DecidableEq K] in
/-- on non-squares the routine returns a square root of `-a` -/
theorem sqrt3mod4_sq_of_not_isSquare (hcard : Fintype.card K = p) (h34 : p % 4 = 3) {e : Nat} (he : e = (p + 1) / 4)
    (hb : p ≤ 2 ^ bits) {a : K} (ha : ¬ IsSquare a) : sqrt3mod4 bits e a * sqrt3mod4 bits e a = -a := by
  have hF := ringChar_ne_two_of_card hcard (p := p) (by omega)
  rw [sqrt3mod4, fpExponentiate_eq_pow a (by omega), ← pow_add]
  have h2e : e + e = p / 2 + 1 := by omega
  rw [h2e, pow_succ]
  have h0 : a ≠ 0 := by intro h; subst h; exact ha ⟨0, by simp⟩
  have hd := FiniteField.pow_dichotomy hF h0
  rw [hcard] at hd
  rcases hd with h | h
  · exact absurd ((FiniteField.isSquare_iff hF h0).2 (by rw [hcard]; exact h)) ha
  · rw [h]; ring

theorem sqrt3mod4_mul_self (hcard : Fintype.card K = p) (h34 : p % 4 = 3) {e : Nat} (he : e = (p + 1) / 4)
    (hb : p ≤ 2 ^ bits) (y : K) : sqrt3mod4 bits e (y * y) = y ∨ sqrt3mod4 bits e (y * y) = -y := by
  have := sqrt3mod4_sq hcard h34 he hb (a := y * y) ⟨y, rfl⟩
  exact mul_self_eq_mul_self_iff.1 this

end FiniteField

/-! ### top-byte masking -/

/-- clearing the top `8 - k` bits of the top byte = reducing modulo `2^(bits - 8 + k)`. -/
theorem maskTop_eq_mod {bits k x : Nat} (hbits : 8 ≤ bits) (_hk : k ≤ 8) (hx : x < 2 ^ bits) :
    maskTop bits (2 ^ k - 1) x = x % 2 ^ (bits - 8 + k) := by
  have hA : 2 ^ bits = 2 ^ (bits - 8) * 256 := by
    rw [show (256 : Nat) = 2 ^ 8 by rfl, ← pow_add]; congr 1; omega
  have hdiv : x / 2 ^ (bits - 8) < 256 := by
    rw [Nat.div_lt_iff_lt_mul (by positivity)]; omega
  rw [maskTop, Nat.mod_eq_of_lt hdiv, Nat.and_two_pow_sub_one_eq_mod, pow_add, Nat.mod_mul]
  ring

set_option exponentiation.threshold 800 in
theorem maskTop_fq {x : Nat} (hx : x < 2 ^ 384) : maskTop 384 0x1F x = x % 2 ^ 381 :=
  maskTop_eq_mod (bits := 384) (k := 5) (by decide) (by decide) hx
theorem maskTop_fr {x : Nat} (hx : x < 2 ^ 256) : maskTop 256 0x7F x = x % 2 ^ 255 :=
  maskTop_eq_mod (bits := 256) (k := 7) (by decide) (by decide) hx

/-! ### hash_reduce -/

theorem hashReduce_aux {y p B M : Nat} (hy : y < M) (hMB : M ≤ B) (hp2 : M ≤ 2 * p) :
    (if y < p then y else (y + B - p) % B) < p ∧
    (if y < p then y else (y + B - p) % B) = y % p ∧
    (if y < p then y else (y + B - p) % B) = if y < p then y else y - p := by
  split
  · next h => exact ⟨h, (Nat.mod_eq_of_lt h).symm, rfl⟩
  · next h =>
    have h1 : y + B - p = y - p + B := by omega
    have h2 : (y + B - p) % B = y - p := by rw [h1, Nat.add_mod_right, Nat.mod_eq_of_lt (by omega)]
    rw [h2]
    refine ⟨by omega, ?_, rfl⟩
    rw [Nat.mod_eq_sub_mod (by omega), Nat.mod_eq_of_lt (by omega)]

theorem hashReduce_spec {p bits k x : Nat} (hbits : 8 ≤ bits) (hk : k ≤ 8) (hx : x < 2 ^ bits)
    (hp2 : 2 ^ (bits - 8 + k) ≤ 2 * p) :
    (hashReduce p bits (2 ^ k - 1) x).1 = x.testBit (bits - 1) ∧
    (hashReduce p bits (2 ^ k - 1) x).2 < p ∧
    (hashReduce p bits (2 ^ k - 1) x).2 = (x % 2 ^ (bits - 8 + k)) % p ∧
    (hashReduce p bits (2 ^ k - 1) x).2 =
      if x % 2 ^ (bits - 8 + k) < p then x % 2 ^ (bits - 8 + k) else x % 2 ^ (bits - 8 + k) - p := by
  have hA : 2 ^ bits = 2 ^ (bits - 8) * 256 := by
    rw [show (256 : Nat) = 2 ^ 8 by rfl, ← pow_add]; congr 1; omega
  have hB : 2 ^ (bits - 1) = 2 ^ (bits - 8) * 128 := by
    rw [show (128 : Nat) = 2 ^ 7 by rfl, ← pow_add]; congr 1; omega
  have hdiv : x / 2 ^ (bits - 8) < 256 := by
    rw [Nat.div_lt_iff_lt_mul (by positivity)]; omega
  have hm : x % 2 ^ (bits - 8 + k) < 2 ^ (bits - 8 + k) := Nat.mod_lt _ (by positivity)
  have hmb : 2 ^ (bits - 8 + k) ≤ 2 ^ bits := Nat.pow_le_pow_right (by decide) (by omega)
  simp only [hashReduce, maskTop_eq_mod hbits hk hx]
  refine ⟨?_, hashReduce_aux hm hmb hp2⟩
  rw [Nat.mod_eq_of_lt hdiv, Nat.shiftRight_eq_div_pow, Nat.div_div_eq_div_mul,
    show (2:Nat) ^ 7 = 128 by rfl, ← hB, Nat.testBit_eq_decide_div_mod_eq]
  have : x / 2 ^ (bits - 1) < 2 := by
    rw [Nat.div_lt_iff_lt_mul (by positivity), hB]; omega
  generalize x / 2 ^ (bits - 1) = t at this ⊢
  have h01 : t = 0 ∨ t = 1 := by omega
  rcases h01 with h | h <;> rw [h] <;> rfl

/-! ### random -/

theorem ofBytesLE_lt (bs : List UInt8) : ofBytesLE bs < 256 ^ bs.length := by
  induction bs with
  | nil => simp [ofBytesLE]
  | cons b bs ih =>
    have hb := b.toNat_lt
    simp only [ofBytesLE, List.foldr_cons, List.length_cons, pow_succ] at ih ⊢
    omega

/-- the model's loop is the Spec's `randBelow` (mask = reduction modulo `2^(bits-8+k)`) -/
theorem randomBelow_eq_randBelow {p bits k : Nat} (hbits : 8 ≤ bits) (h8 : bits % 8 = 0) (hk : k ≤ 8) :
    ∀ (fuel : Nat) (s : RS),
      randomBelow p bits (2 ^ k - 1) fuel s = randBelow (bits / 8) (bits - 8 + k) p fuel s := by
  intro fuel
  induction fuel with
  | zero => intro s; rfl
  | succ fuel ih =>
    intro s
    have hlt : ofBytesLE (s.draw (bits / 8)).1 < 2 ^ bits := by
      have := ofBytesLE_lt (s.draw (bits / 8)).1
      rw [RS.draw_length, show (256 : Nat) = 2 ^ 8 by rfl, ← pow_mul] at this
      have h2 : 8 * (bits / 8) = bits := by omega
      rwa [h2] at this
    simp only [randomBelow, randBelow, maskTop_eq_mod hbits hk hlt, ih]

theorem randomBelow_lt {p bits mask : Nat} (hp : 0 < p) : ∀ (fuel : Nat) (s : RS), (randomBelow p bits mask fuel s).1 < p := by
  intro fuel
  induction fuel with
  | zero => intro s; exact hp
  | succ fuel ih =>
    intro s
    simp only [randomBelow]
    split
    · assumption
    · exact ih _

/-- the masked integer read by the `j`-th iteration of the loop (`RS.after chunk j s` = the stream after `j` calls of
`get_random_bytes(buf, chunk)`, `Proofs/MarshalProofs.lean`) -/
def nthDraw (bits mask : Nat) (s : RS) (j : Nat) : Nat :=
  maskTop bits mask (ofBytesLE ((RS.after (bits / 8) j s).draw (bits / 8)).1)

/-- `random` returns the FIRST masked draw below the modulus, with the stream advanced just past it. -/
theorem randomBelow_first {p bits mask : Nat} : ∀ (fuel : Nat) (s : RS) (j : Nat), j < fuel →
    (∀ i, i < j → p ≤ nthDraw bits mask s i) → nthDraw bits mask s j < p →
    randomBelow p bits mask fuel s = (nthDraw bits mask s j, RS.after (bits / 8) (j + 1) s) := by
  intro fuel
  induction fuel with
  | zero => intro s j hj; omega
  | succ fuel ih =>
    intro s j hj hrej hacc
    cases j with
    | zero =>
      simp only [nthDraw, RS.after] at hacc
      simp only [randomBelow, if_pos hacc, nthDraw, RS.after]
    | succ j =>
      have h0 := hrej 0 (by omega)
      have hn : ¬ maskTop bits mask (ofBytesLE (s.draw (bits / 8)).1) < p := Nat.not_lt.2 h0
      have hstep : randomBelow p bits mask (fuel + 1) s = randomBelow p bits mask fuel (s.draw (bits / 8)).2 := by
        simp only [randomBelow, if_neg hn]
      rw [hstep, ih (s.draw (bits / 8)).2 j (by omega) (fun i hi => hrej (i + 1) (by omega)) hacc]
      rfl

theorem maskTop_zero (bits mask : Nat) : maskTop bits mask 0 = 0 := by simp [maskTop]

/-- once the stream is exhausted the draw is all padding: the masked integer is 0 -/
theorem nthDraw_padding {bits mask : Nat} (hchunk : 0 < bits / 8) (s : RS) :
    nthDraw bits mask s (s.bytes.length / (bits / 8) + 1) = 0 := by
  have hb : (RS.after (bits / 8) (s.bytes.length / (bits / 8) + 1) s).bytes = [] := by
    rw [RS.after_bytes, List.drop_eq_nil_iff]
    have := Nat.lt_div_mul_add hchunk (a := s.bytes.length)
    rw [Nat.add_mul, one_mul]; omega
  rw [nthDraw]
  simp only [RS.draw, hb, List.take_nil, List.length_nil, List.nil_append, Nat.sub_zero]
  rw [ofBytesLE_replicate_zero, maskTop_zero]

/-- with the zero-padded stream, some draw among the first `RS.fuel` ones is accepted: the fuel of the model is never
exhausted, and the result is the first accepted draw. -/
theorem randomBelow_fuel {p bits mask : Nat} (hp : 0 < p) (hchunk : 0 < bits / 8) (s : RS) :
    ∃ j, j < s.fuel (bits / 8) ∧ (∀ i, i < j → p ≤ nthDraw bits mask s i) ∧ nthDraw bits mask s j < p ∧
      randomBelow p bits mask (s.fuel (bits / 8)) s = (nthDraw bits mask s j, RS.after (bits / 8) (j + 1) s) := by
  have hpad := nthDraw_padding (mask := mask) hchunk s
  have hex : ∃ j, nthDraw bits mask s j < p := ⟨_, by rw [hpad]; exact hp⟩
  classical
  have hle : Nat.find hex ≤ s.bytes.length / (bits / 8) + 1 := Nat.find_min' hex (by rw [hpad]; exact hp)
  have hlt : Nat.find hex < s.fuel (bits / 8) := by unfold RS.fuel; omega
  have hrej : ∀ i, i < Nat.find hex → p ≤ nthDraw bits mask s i := fun i hi => Nat.not_lt.1 (Nat.find_min hex hi)
  exact ⟨Nat.find hex, hlt, hrej, Nat.find_spec hex, randomBelow_first _ s _ hlt hrej (Nat.find_spec hex)⟩

/-! ### byte I/O -/

theorem ofBytesLE_reverse (bs : List UInt8) : ofBytesLE bs.reverse = ofBytesBE bs := by
  unfold ofBytesLE ofBytesBE
  rw [List.foldr_reverse]

theorem revIndex_eq_reverse (len : Nat) (bs : List UInt8) (h : bs.length = len) :
    ((List.range len).map fun i => bs.getD (len - i - 1) 0) = bs.reverse := by
  apply List.ext_getElem
  · simp [h]
  · intro i h1 h2
    simp only [List.length_map, List.length_range] at h1
    rw [List.getElem_map, List.getElem_range, List.getElem_reverse, List.getD_eq_getElem?_getD,
      List.getElem?_eq_getElem (by omega)]
    simp only [Option.getD_some]
    congr 1
    omega

/-- `BigInt::read_big_endian` reads the big-endian value of the buffer. -/
theorem bigintReadBE_eq {len : Nat} {buffer : List UInt8} (h : buffer.length = len) :
    bigintReadBE len buffer = ofBytesBE buffer := by
  rw [bigintReadBE, revIndex_eq_reverse len buffer h, ofBytesLE_reverse]

theorem toBytesLE_length (w v : Nat) : (toBytesLE w v).length = w := by simp [toBytesLE]

theorem toBytesLE_reverse (w v : Nat) : (toBytesLE w v).reverse = toBytesBE w v := by
  apply List.ext_getElem
  · simp [toBytesLE, toBytesBE]
  · intro i h1 h2
    simp only [toBytesBE, List.length_map, List.length_range] at h2
    simp only [toBytesLE, toBytesBE, List.getElem_reverse, List.getElem_map, List.getElem_range, List.length_map,
      List.length_range]

/-- `BigInt::write_big_endian` writes the fixed-width big-endian encoding. -/
theorem bigintWriteBE_eq (len v : Nat) : bigintWriteBE len v = toBytesBE len v := by
  rw [bigintWriteBE, revIndex_eq_reverse len _ (toBytesLE_length len v), toBytesLE_reverse]

theorem fqWriteBE_eq (x : Fq) : fqWriteBE x = toBytesBE 48 x.val := bigintWriteBE_eq 48 x.val

theorem fqWriteBE_length (x : Fq) : (fqWriteBE x).length = 48 := by
  rw [fqWriteBE_eq, toBytesBE_length]

set_option exponentiation.threshold 800 in
/-- `Fq::read_big_endian`: the big-endian integer with its top three bits cleared, reduced modulo `q`. -/
theorem fqReadBE_eq {buffer : List UInt8} (h : buffer.length = 48) :
    fqReadBE buffer = Fin.ofNat q (ofBytesBE buffer % 2 ^ 381) := by
  have hlt : ofBytesBE buffer < 2 ^ 384 := by
    have := ofBytesBE_lt buffer
    rw [h] at this
    exact lt_of_lt_of_le this (by decide)
  rw [fqReadBE, bigintReadBE_eq h, maskTop_fq hlt]

theorem fqReadBE_fqWriteBE (x : Fq) : fqReadBE (fqWriteBE x) = x := by
  rw [fqReadBE_eq (fqWriteBE_length x), fqWriteBE_eq, ofBytesBE_toBytesBE_of_lt (lt_trans x.isLt q_lt_256_48),
    Nat.mod_eq_of_lt (lt_trans x.isLt q_lt_2_381)]
  exact Fin.ext (Nat.mod_eq_of_lt x.isLt)

/-- the integer written is canonical: reading the bytes back as an integer gives `x.val < q`. -/
theorem ofBytesBE_fqWriteBE (x : Fq) : ofBytesBE (fqWriteBE x) = x.val := by
  rw [fqWriteBE_eq, ofBytesBE_toBytesBE_of_lt (lt_trans x.isLt q_lt_256_48)]

/-! ### Tonelli–Shanks (`Fr::square_root`) -/

section TS
variable {K : Type} [Field K] [DecidableEq K]

omit [DecidableEq K] in
theorem pow_two_pow_succ (t : K) (i : Nat) : t ^ 2 ^ (i + 1) = t ^ 2 ^ i * t ^ 2 ^ i := by
  rw [pow_succ, pow_mul, pow_two]

omit [DecidableEq K] in
theorem sqrN_eq (c : K) (k : Nat) : sqrN c k = c ^ 2 ^ k := by
  induction k generalizing c with
  | zero => simp [sqrN]
  | succ k ih => rw [sqrN, ih, ← pow_two, ← pow_mul, ← pow_succ']

/-- the inner loop finds the least `k ≥ i` with `t^(2^k) = 1`, provided one exists within the fuel. -/
theorem tsOrderLoop_spec (t : K) : ∀ (f i : Nat), (∃ j, i ≤ j ∧ j < i + f ∧ t ^ 2 ^ j = 1) →
    ∃ k, tsOrderLoop f (t ^ 2 ^ i) i = some k ∧ i ≤ k ∧ k < i + f ∧ t ^ 2 ^ k = 1 ∧
      ∀ j, i ≤ j → j < k → t ^ 2 ^ j ≠ 1 := by
  intro f
  induction f with
  | zero => rintro i ⟨j, h1, h2, _⟩; omega
  | succ f ih =>
    rintro i ⟨j, h1, h2, h3⟩
    rw [tsOrderLoop]
    split
    · next h => exact ⟨i, rfl, le_refl _, by omega, h, fun j hj hj' => by omega⟩
    · next h =>
      have hji : j ≠ i := by intro e; subst e; exact h h3
      rw [← pow_two_pow_succ]
      obtain ⟨k, hk, hk1, hk2, hk3, hk4⟩ := ih (i + 1) ⟨j, by omega, by omega, h3⟩
      refine ⟨k, hk, by omega, by omega, hk3, fun j' hj hj' => ?_⟩
      by_cases e : j' = i
      · subst e; exact h
      · exact hk4 j' (by omega) hj'

/-- loop invariant of the outer loop -/
structure TSInv (a res c t : K) (m : Nat) : Prop where
  mpos : 1 ≤ m
  hres : res * res = a * t
  hc : c ^ 2 ^ (m - 1) = -1
  ht : t ^ 2 ^ (m - 1) = 1

theorem tsLoop_spec {a : K} (innerFuel : Nat) : ∀ (fuel : Nat) (res c t : K) (m : Nat), m ≤ fuel → m ≤ innerFuel + 1 →
    TSInv a res c t m → ∃ y, tsLoop innerFuel fuel res c t m = some y ∧ y * y = a := by
  intro fuel
  induction fuel with
  | zero => intro res c t m hm _ hinv; have := hinv.mpos; omega
  | succ fuel ih =>
    intro res c t m hm hmi hinv
    rw [tsLoop]
    split
    · next h1 => exact ⟨res, rfl, by rw [hinv.hres, h1, mul_one]⟩
    · next h1 =>
      have hm2 : 2 ≤ m := by
        rcases Nat.lt_or_ge m 2 with h | h
        · have hm1 : m = 1 := by have := hinv.mpos; omega
          have := hinv.ht
          rw [hm1] at this
          simp at this
          exact absurd this h1
        · exact h
      have hstart : t * t = t ^ 2 ^ 1 := by rw [pow_one, pow_two]
      obtain ⟨k, hk, hk1, hk2, hk3, hk4⟩ := tsOrderLoop_spec t innerFuel 1 ⟨m - 1, by omega, by omega, hinv.ht⟩
      rw [hstart, hk]
      simp only
      have hkm : k ≤ m - 1 := by
        by_contra hcon
        exact hk4 (m - 1) (by omega) (by omega) hinv.ht
      -- w = t^(2^(k-1)) is a square root of 1 different from 1
      have hw1 : t ^ 2 ^ (k - 1) ≠ 1 := by
        rcases Nat.lt_or_ge 1 k with h | h
        · exact hk4 (k - 1) (by omega) (by omega)
        · have : k = 1 := by omega
          subst this; simpa using h1
      have hw2 : t ^ 2 ^ (k - 1) * t ^ 2 ^ (k - 1) = 1 := by
        rw [← pow_two_pow_succ]
        have : k - 1 + 1 = k := by omega
        rw [this, hk3]
      have hw : t ^ 2 ^ (k - 1) = -1 := by
        rcases mul_self_eq_one_iff.1 hw2 with h | h
        · exact absurd h hw1
        · exact h
      apply ih
      · omega
      · omega
      · rw [sqrN_eq]
        have hcc : c ^ 2 ^ (m - k - 1) * c ^ 2 ^ (m - k - 1) = c ^ 2 ^ (m - k) := by
          rw [← pow_two_pow_succ]; congr 2; omega
        have hc' : (c ^ 2 ^ (m - k)) ^ 2 ^ (k - 1) = -1 := by
          rw [← pow_mul, ← pow_add]
          have : m - k + (k - 1) = m - 1 := by omega
          rw [this, hinv.hc]
        refine ⟨hk1, ?_, ?_, ?_⟩
        · rw [hcc]
          have := hinv.hres
          linear_combination (c ^ 2 ^ (m - k)) * this + res * res * hcc
        · rw [hcc, hc']
        · rw [hcc, mul_pow, hc', hw]; ring

/-- `Fr::square_root` (abstractly): with `2·th = tc + 1`, `c0^(2^(s-1)) = -1` and `(a^tc)^(2^(s-1)) = 1` for the non-zero
input `a`, the routine terminates within the fuel and returns a square root of `a`. -/
theorem tonelliShanks_spec {bits tc th s fuel : Nat} {c0 : K} (hs : 1 ≤ s) (hfuel : s ≤ fuel)
    (htc : tc < 2 ^ bits) (hth : th < 2 ^ bits) (h2 : 2 * th = tc + 1) (hc0 : c0 ^ 2 ^ (s - 1) = -1)
    {a : K} (ha : a ≠ 0 → (a ^ tc) ^ 2 ^ (s - 1) = 1) :
    ∃ y, tonelliShanks bits c0 tc th s fuel a = some y ∧ y * y = a := by
  rw [tonelliShanks]
  split
  · next h0 => exact ⟨a, rfl, by rw [h0, mul_zero]⟩
  · next h0 =>
    simp only
    rw [fpExponentiate_eq_pow a hth, fpExponentiate_eq_pow a htc]
    apply tsLoop_spec fuel fuel _ _ _ s hfuel (by omega)
    refine ⟨hs, ?_, hc0, ha h0⟩
    rw [← pow_add, ← two_mul, h2, pow_succ, mul_comm]

/-- in a finite field with `p - 1 = 2^s·tc` elements' units, squares satisfy the hypothesis on `a^tc`. -/
theorem tonelliShanks_sq [Fintype K] {p bits tc th s fuel : Nat} {c0 : K} (hcard : Fintype.card K = p)
    (hs : 1 ≤ s) (hp : p - 1 = 2 ^ s * tc) (hodd : p % 2 = 1) (hfuel : s ≤ fuel)
    (htc : tc < 2 ^ bits) (hth : th < 2 ^ bits) (h2 : 2 * th = tc + 1) (hc0 : c0 ^ 2 ^ (s - 1) = -1)
    {a : K} (ha : IsSquare a) :
    ∃ y, tonelliShanks bits c0 tc th s fuel a = some y ∧ y * y = a := by
  apply tonelliShanks_spec hs hfuel htc hth h2 hc0
  intro h0
  have hF : ringChar K ≠ 2 := by
    intro h
    have := FiniteField.even_card_of_char_two h
    omega
  have h1 := (FiniteField.isSquare_iff hF h0).1 ha
  rw [← pow_mul]
  have : tc * 2 ^ (s - 1) = Fintype.card K / 2 := by
    rw [hcard]
    have hs' : 2 ^ s = 2 * 2 ^ (s - 1) := by rw [← pow_succ']; congr 1; omega
    have : p - 1 = 2 * (tc * 2 ^ (s - 1)) := by rw [hp, hs']; ring
    omega
  rw [this, h1]

end TS

section TSnone
variable {K : Type} [Field K] [DecidableEq K]

/-- if `t` has order exactly `2^s` (and `c` order dividing `2^s`), the outer loop never sees `t = 1`: no fuel suffices. -/
theorem tsLoop_none (h2 : (1 : K) ≠ -1) (innerFuel s : Nat) (hs : 1 ≤ s) : ∀ (fuel : Nat) (res c t : K) (m : Nat),
    t ^ 2 ^ (s - 1) = -1 → c ^ 2 ^ s = 1 → tsLoop innerFuel fuel res c t m = none := by
  have hss : 2 ^ s = 2 ^ (s - 1) * 2 := by rw [← pow_succ]; congr 1; omega
  intro fuel
  induction fuel with
  | zero => intro res c t m _ _; rfl
  | succ fuel ih =>
    intro res c t m ht hc
    rw [tsLoop]
    have ht1 : t ≠ 1 := by
      intro h; rw [h, one_pow] at ht; exact h2 ht
    rw [if_neg ht1]
    split
    · rfl
    · next i _ =>
      simp only
      rw [sqrN_eq]
      have hb : (c ^ 2 ^ (m - i - 1)) ^ 2 ^ s = 1 := by rw [← pow_mul, mul_comm, pow_mul, hc, one_pow]
      have hb' : (c ^ 2 ^ (m - i - 1) * c ^ 2 ^ (m - i - 1)) ^ 2 ^ (s - 1) = 1 := by
        rw [← pow_two, ← pow_mul, mul_comm, ← hss, hb]
      apply ih
      · rw [mul_pow, ht, hb']; ring
      · rw [hss, pow_mul, hb', one_pow]

theorem tonelliShanks_none (h2 : (1 : K) ≠ -1) {bits tc th s fuel : Nat} {c0 : K} (hs : 1 ≤ s)
    (htc : tc < 2 ^ bits) (hc0 : c0 ^ 2 ^ s = 1) {a : K} (ha0 : a ≠ 0) (ha : (a ^ tc) ^ 2 ^ (s - 1) = -1) :
    tonelliShanks bits c0 tc th s fuel a = none := by
  rw [tonelliShanks, if_neg ha0]
  simp only
  rw [fpExponentiate_eq_pow a htc]
  exact tsLoop_none h2 fuel s hs fuel _ _ _ s ha hc0

/-- in a finite field with `p - 1 = 2^s·tc`: on a non-square the loop never stops -/
theorem tonelliShanks_not_isSquare [Fintype K] {p bits tc th s fuel : Nat} {c0 : K} (hcard : Fintype.card K = p)
    (hs : 1 ≤ s) (hp : p - 1 = 2 ^ s * tc) (hodd : p % 2 = 1)
    (htc : tc < 2 ^ bits) (hc0 : c0 ^ 2 ^ s = 1) {a : K} (ha : ¬ IsSquare a) :
    tonelliShanks bits c0 tc th s fuel a = none := by
  have hF : ringChar K ≠ 2 := ringChar_ne_two_of_card hcard hodd
  have h0 : a ≠ 0 := by intro h; subst h; exact ha ⟨0, by simp⟩
  have h12 : (1 : K) ≠ -1 := by
    intro h; exact Ring.neg_one_ne_one_of_char_ne_two hF h.symm
  apply tonelliShanks_none h12 hs htc hc0 h0
  rw [← pow_mul]
  have : tc * 2 ^ (s - 1) = Fintype.card K / 2 := by
    rw [hcard]
    have hs' : 2 ^ s = 2 * 2 ^ (s - 1) := by rw [← pow_succ']; congr 1; omega
    have : p - 1 = 2 * (tc * 2 ^ (s - 1)) := by rw [hp, hs']; ring
    omega
  rw [this]
  rcases FiniteField.pow_dichotomy hF h0 with h | h
  · exact absurd ((FiniteField.isSquare_iff hF h0).2 h) ha
  · exact h
end TSnone

set_option exponentiation.threshold 800

/-! ### the library's fields and constants -/

section Concrete

theorem fq_modulus_eq_q : Consts.fq_modulus = q := by decide
theorem fr_modulus_eq_r : Consts.fr_modulus = r := by decide
theorem two_q_le_pow : 2 * q ≤ 2 ^ 384 := by decide
theorem two_r_le_pow : 2 * r ≤ 2 ^ 256 := by decide
theorem fq_R2_eq_mod : Consts.fq_R2 = (2 ^ 384 * 2 ^ 384) % q := by decide
theorem fr_R2_eq_mod : Consts.fr_R2 = (2 ^ 256 * 2 ^ 256) % r := by decide
theorem q_mod_four : q % 4 = 3 := by decide
theorem fq_sqrt_exponent : Consts.fq_qminusthreeoverfourplusone = (q + 1) / 4 := by decide
theorem fq_sqrt_exponent' : Consts.fq_qminusthreeoverfourplusone = (q - 3) / 4 + 1 := by decide
/-- `r - 1 = 2^32 · t`, `t` odd, `(t + 1) / 2` as stored -/
theorem fr_two_adicity : r - 1 = 2 ^ 32 * Consts.fr_t_constant := by decide
theorem fr_t_odd : Consts.fr_t_constant % 2 = 1 := by decide
theorem fr_tplusoneovertwo_eq : 2 * Consts.fr_tplusoneovertwo = Consts.fr_t_constant + 1 := by decide
/-- the element stored as `fr_root_of_unity` is a primitive `2^32`-th root of unity: its `2^31`-th power is `-1`
(kernel evaluation of the Spec's square-and-multiply) -/
theorem frRootOfUnity_npow : npow (frRootOfUnity : Fr) (2 ^ 31) = Fin.ofNat r (r - 1) := by decide +kernel

theorem frRootOfUnity_pow : (frRootOfUnity : Fr) ^ 2 ^ 31 = -1 := by
  rw [← npow_eq_pow, frRootOfUnity_npow]
  decide +kernel

theorem frRootOfUnity_pow_two_pow_32 : (frRootOfUnity : Fr) ^ 2 ^ 32 = 1 := by
  rw [pow_succ, pow_mul, frRootOfUnity_pow]; ring


/-! #### inverse -/

theorem fqInverse_eq (x : Fq) : fqInverse x = x⁻¹ :=
  fpInverse_eq_finInv q_prime two_lt_q two_q_le_pow fq_R2_eq_mod x
theorem frInverse_eq (x : Fr) : frInverse x = x⁻¹ :=
  fpInverse_eq_finInv r_prime two_lt_r two_r_le_pow fr_R2_eq_mod x

/-- the stored limbs `fp_inverse` returns for reduced non-zero limbs `a`: reduced, and `result·a ≡ R2 (mod q)` -/
theorem fqInverseRaw_spec {a : Nat} (ha0 : 0 < a) (ha : a < q) :
    fpInverseRaw q 384 Consts.fq_R2 a < q ∧ fpInverseRaw q 384 Consts.fq_R2 a * a ≡ Consts.fq_R2 [MOD q] :=
  fpInverseRaw_spec q_prime two_lt_q two_q_le_pow (by decide) ha0 ha
theorem frInverseRaw_spec {a : Nat} (ha0 : 0 < a) (ha : a < r) :
    fpInverseRaw r 256 Consts.fr_R2 a < r ∧ fpInverseRaw r 256 Consts.fr_R2 a * a ≡ Consts.fr_R2 [MOD r] :=
  fpInverseRaw_spec r_prime two_lt_r two_r_le_pow (by decide) ha0 ha

/-! #### exponentiate -/

theorem fqExponentiate_eq (x : Fq) {e : Nat} (he : e < 2 ^ 384) : fqExponentiate x e = x ^ e :=
  fpExponentiate_eq_pow x he
theorem frExponentiate_eq (x : Fr) {e : Nat} (he : e < 2 ^ 256) : frExponentiate x e = x ^ e :=
  fpExponentiate_eq_pow x he

/-! #### Legendre -/

theorem q_le_pow : q ≤ 2 ^ 384 := by decide
theorem r_le_pow : r ≤ 2 ^ 256 := by decide
theorem q_odd : q % 2 = 1 := by decide
theorem r_odd : r % 2 = 1 := by decide

theorem fqLegendre_eq (x : Fq) : fqLegendre x = legendre q 384 x := by rw [fqLegendre, fq_modulus_eq_q]
theorem frLegendre_eq (x : Fr) : frLegendre x = legendre r 256 x := by rw [frLegendre, fr_modulus_eq_r]

theorem fqLegendre_range (x : Fq) : fqLegendre x = 0 ∨ fqLegendre x = 1 ∨ fqLegendre x = -1 := by
  rw [fqLegendre_eq]; exact legendre_range q 384 x
theorem fqLegendre_eq_zero_iff (x : Fq) : fqLegendre x = 0 ↔ x = 0 := by
  rw [fqLegendre_eq]; exact legendre_eq_zero_iff Fq.card q_odd q_le_pow x
theorem fqLegendre_eq_one_iff (x : Fq) : fqLegendre x = 1 ↔ x ≠ 0 ∧ IsSquare x := by
  rw [fqLegendre_eq]; exact legendre_eq_one_iff Fq.card q_odd q_le_pow x
theorem fqLegendre_eq_neg_one_iff (x : Fq) : fqLegendre x = -1 ↔ ¬ IsSquare x := by
  rw [fqLegendre_eq]; exact legendre_eq_neg_one_iff Fq.card q_odd q_le_pow x
theorem fqLegendre_eq_pow (x : Fq) : ((fqLegendre x : ℤ) : Fq) = x ^ ((q - 1) / 2) := by
  rw [fqLegendre_eq]; exact legendre_eq_pow Fq.card q_odd q_le_pow x

theorem frLegendre_range (x : Fr) : frLegendre x = 0 ∨ frLegendre x = 1 ∨ frLegendre x = -1 := by
  rw [frLegendre_eq]; exact legendre_range r 256 x
theorem frLegendre_eq_zero_iff (x : Fr) : frLegendre x = 0 ↔ x = 0 := by
  rw [frLegendre_eq]; exact legendre_eq_zero_iff Fr.card r_odd r_le_pow x
theorem frLegendre_eq_one_iff (x : Fr) : frLegendre x = 1 ↔ x ≠ 0 ∧ IsSquare x := by
  rw [frLegendre_eq]; exact legendre_eq_one_iff Fr.card r_odd r_le_pow x
theorem frLegendre_eq_neg_one_iff (x : Fr) : frLegendre x = -1 ↔ ¬ IsSquare x := by
  rw [frLegendre_eq]; exact legendre_eq_neg_one_iff Fr.card r_odd r_le_pow x
theorem frLegendre_eq_pow (x : Fr) : ((frLegendre x : ℤ) : Fr) = x ^ ((r - 1) / 2) := by
  rw [frLegendre_eq]; exact legendre_eq_pow Fr.card r_odd r_le_pow x

/-- the model is the Spec's `finLegendre` -/
theorem fqLegendre_eq_finLegendre (x : Fq) : fqLegendre x = finLegendre x := by
  rw [fqLegendre_eq, legendre_def q_odd q_le_pow, finLegendre, npow_eq_pow]
  have : (q - 1) / 2 = q / 2 := by decide
  rw [this]
theorem frLegendre_eq_finLegendre (x : Fr) : frLegendre x = finLegendre x := by
  rw [frLegendre_eq, legendre_def r_odd r_le_pow, finLegendre, npow_eq_pow]
  have : (r - 1) / 2 = r / 2 := by decide
  rw [this]

/-! #### square roots -/

theorem fqSqrt_sq {a : Fq} (ha : IsSquare a) : fqSqrt a * fqSqrt a = a :=
  sqrt3mod4_sq Fq.card q_mod_four fq_sqrt_exponent q_le_pow ha
theorem fqSqrt_sq_of_not_isSquare {a : Fq} (ha : ¬ IsSquare a) : fqSqrt a * fqSqrt a = -a :=
  sqrt3mod4_sq_of_not_isSquare Fq.card q_mod_four fq_sqrt_exponent q_le_pow ha
theorem fqSqrt_mul_self (y : Fq) : fqSqrt (y * y) = y ∨ fqSqrt (y * y) = -y :=
  sqrt3mod4_mul_self Fq.card q_mod_four fq_sqrt_exponent q_le_pow y
/-- the model is the Spec's `Fq.sqrt` -/
theorem fqSqrt_eq_spec (a : Fq) : fqSqrt a = Fq.sqrt a := by
  rw [fqSqrt, sqrt3mod4, fpExponentiate_eq_pow a (by decide), Fq.sqrt, npow_eq_pow, fq_sqrt_exponent]

/-- `Fr::square_root` terminates on squares (the model's fuel is not exhausted) and returns a square root. -/
theorem frSqrt_sq {a : Fr} (ha : IsSquare a) : ∃ y, frSqrt a = some y ∧ y * y = a :=
  tonelliShanks_sq Fr.card (by decide) fr_two_adicity r_odd (by decide) (by decide) (by decide)
    fr_tplusoneovertwo_eq frRootOfUnity_pow ha
theorem frSqrt_mul_self (y : Fr) : frSqrt (y * y) = some y ∨ frSqrt (y * y) = some (-y) := by
  obtain ⟨z, hz, hzz⟩ := frSqrt_sq (a := y * y) ⟨y, rfl⟩
  rcases mul_self_eq_mul_self_iff.1 hzz with h | h
  · left; rw [hz, h]
  · right; rw [hz, h]
theorem frSqrt_zero : frSqrt 0 = some 0 := by decide +kernel
/-- on non-squares the model never returns (the real loop spins), so: the routine terminates iff the input is a square -/
theorem frSqrt_none {a : Fr} (ha : ¬ IsSquare a) : frSqrt a = none :=
  tonelliShanks_not_isSquare Fr.card (by decide) fr_two_adicity r_odd (by decide) frRootOfUnity_pow_two_pow_32 ha

theorem frSqrt_isSome_iff (a : Fr) : (frSqrt a).isSome ↔ IsSquare a := by
  constructor
  · intro h
    by_contra hn
    rw [frSqrt_none hn] at h
    exact absurd h (by simp)
  · intro h
    obtain ⟨y, hy, _⟩ := frSqrt_sq h
    rw [hy]; rfl

/-- what the judge runs -/
theorem fpSqrtByBits_fq (a : Fq) : fpSqrtByBits 384 a = some (fqSqrt a) := rfl
theorem fpSqrtByBits_fr (a : Fr) : fpSqrtByBits 256 a = frSqrt a := rfl

/-! #### hash_reduce, random, byte I/O -/

theorem fqHashReduce_spec {x : Nat} (hx : x < 2 ^ 384) :
    (fqHashReduce x).1 = x.testBit 383 ∧ (fqHashReduce x).2 < q ∧ (fqHashReduce x).2 = (x % 2 ^ 381) % q ∧
    (fqHashReduce x).2 = if x % 2 ^ 381 < q then x % 2 ^ 381 else x % 2 ^ 381 - q := by
  rw [fqHashReduce, fq_modulus_eq_q]
  exact hashReduce_spec (p := q) (bits := 384) (k := 5) (by decide) (by decide) hx (by decide)
theorem frHashReduce_spec {x : Nat} (hx : x < 2 ^ 256) :
    (frHashReduce x).1 = x.testBit 255 ∧ (frHashReduce x).2 < r ∧ (frHashReduce x).2 = (x % 2 ^ 255) % r ∧
    (frHashReduce x).2 = if x % 2 ^ 255 < r then x % 2 ^ 255 else x % 2 ^ 255 - r := by
  rw [frHashReduce, fr_modulus_eq_r]
  exact hashReduce_spec (p := r) (bits := 256) (k := 7) (by decide) (by decide) hx (by decide)

/-- the model of `Fq::random` / `Fr::random` is the Spec's sampler -/
theorem fqRandom_eq_spec (s : RS) : fqRandom s = randFqRaw s := by
  rw [fqRandom, fq_modulus_eq_q, randFqRaw]
  exact randomBelow_eq_randBelow (p := q) (bits := 384) (k := 5) (by decide) (by decide) (by decide) _ s
theorem frRandom_eq_spec (s : RS) : frRandom s = randFrRaw s := by
  rw [frRandom, fr_modulus_eq_r, randFrRaw]
  exact randomBelow_eq_randBelow (p := r) (bits := 256) (k := 7) (by decide) (by decide) (by decide) _ s

theorem fqRandom_lt (s : RS) : (fqRandom s).1 < q := by
  rw [fqRandom, fq_modulus_eq_q]; exact randomBelow_lt (by decide) _ s
theorem frRandom_lt (s : RS) : (frRandom s).1 < r := by
  rw [frRandom, fr_modulus_eq_r]; exact randomBelow_lt (by decide) _ s

/-- `Fq::random` returns the first draw (48 bytes little-endian, top three bits cleared) below `q` -/
theorem fqRandom_first (s : RS) :
    ∃ j, j < s.fuel 48 ∧ (∀ i, i < j → q ≤ nthDraw 384 0x1F s i) ∧ nthDraw 384 0x1F s j < q ∧
      fqRandom s = (nthDraw 384 0x1F s j, RS.after 48 (j + 1) s) := by
  rw [fqRandom, fq_modulus_eq_q]
  exact randomBelow_fuel (p := q) (bits := 384) (mask := 0x1F) (by decide) (by decide) s
theorem frRandom_first (s : RS) :
    ∃ j, j < s.fuel 32 ∧ (∀ i, i < j → r ≤ nthDraw 256 0x7F s i) ∧ nthDraw 256 0x7F s j < r ∧
      frRandom s = (nthDraw 256 0x7F s j, RS.after 32 (j + 1) s) := by
  rw [frRandom, fr_modulus_eq_r]
  exact randomBelow_fuel (p := r) (bits := 256) (mask := 0x7F) (by decide) (by decide) s

end Concrete
end Jedi.Impl
