/-
Theorems about the x86-64 assembly of /repo/src/core/arch/x86_64/bigint.s, as regenerated into
`JediVerif/Gen/AsmX86.lean` by translate/asm2lean.py and given meaning by the interpreter of
`JediVerif/Impl/X86.lean`.

For each of the six add/subtract/double routines
  bigint_384_add, bigint_384_subtract, bigint_384_multiply2,
  fpbase_384_add, fpbase_384_subtract, fpbase_384_multiply2
and for EVERY machine state that satisfies the System V calling convention at the routine's entry
(arbitrary pointer values, arbitrary memory contents, arbitrary other registers and flags; the
objects 8-byte aligned, inside the address space, readable / writable as the C signature says; the
result object equal to or disjoint from each input object, disjoint from the modulus and from the
stack area used; for the fpbase routines the operands below the modulus) the theorem `*_run` says:
running the generated program for the stated number of steps
  * ends in `halted` by a `ret` to the caller's return address, with rsp popped and rbx, rbp,
    r12–r15 unchanged (`Returned`) — in particular no fault: no unaligned or unpermitted access, no
    use of an undefined flag;
  * leaves in the result object exactly the Nat-level contract (sum mod 2^384 and carry in rax, …,
    (a+b) mod p, …) — the same contracts the portable models meet in `Properties/C02.lean`;
  * changes no other memory (except the push slots just below rsp).
The three-way early decision of the fpbase routines (compare only the top word; on a tie store,
subtract and keep or overwrite) is followed path by path.

Method: symbolic execution by `simp` with the interpreter's equations (`x86_sym`), on a state whose
registers and memory words are variables; every intermediate `addc`/`subb` result is named
beforehand so the terms stay small; the side conditions (alignment, no wrap-around, read-over-write
address inequalities) are discharged from facts prepared in the context or by `omega` in a
context reduced to the one relevant separation hypothesis.  Carry/borrow chains are turned into
statements about 384-bit numbers by `add6_val`/`sub6_val` (`linear_combination`), the remaining
arithmetic is `omega` on a handful of 384-bit atoms.

Multiplication, squaring and Montgomery reduction (both families) have a model and are tied to the
real code by the judge (every `asm …` line), but have no theorem here.
-/
import JediVerif.Gen.AsmX86
import JediVerif.Proofs.LimbsProofs
import Lean
import Mathlib.Tactic.ClearExcept
import Mathlib.Tactic.LinearCombination

set_option linter.unusedSimpArgs false

namespace Jedi.X86
open Lean Meta Simp
open Jedi.Impl (val WF val_cons val_nil val_lt val_inj)

/-! ## Infrastructure -/

/-- `prog[i]?` for a program constant and a literal index: the `i`-th instruction exactly as it is
written in the generated file (the constant is unfolded cell by cell, nothing else is reduced). -/
dsimproc fetchInstr ((_ : List Instr)[_]?) := fun e => do
  let args := e.getAppArgs
  if args.size != 7 then return .continue
  let some n ← Nat.fromExpr? args[6]! | return .continue
  let mut l ← whnfD args[5]!
  for _ in [0:n] do
    match_expr l with
    | List.cons _ _ tl => l ← whnfD tl
    | _ => return .continue
  match_expr l with
  | List.cons _ a _ => return .done (← mkAppM ``Option.some #[a])
  | List.nil _ => return .done (← mkAppOptM ``Option.none #[some (mkConst ``Instr)])
  | _ => return .continue

theorem run_succ (p : Program) (s : State) (n : Nat) :
    run p s (n + 1) = match s.status with | .running => run p (step p s) n | _ => s := rfl
theorem run_zero (p : Program) (s : State) : run p s 0 = s := rfl
theorem run_succ_running (p : Program) (s : State) (n : Nat) (h : s.status = .running) :
    run p s (n + 1) = run p (step p s) n := by rw [run_succ, h]
theorem run_succ_stopped (p : Program) (s : State) (n : Nat) (h : s.status ≠ .running) :
    run p s (n + 1) = s := by
  rw [run_succ]; split
  · contradiction
  · rfl

theorem State.eta (s : State) : s = ⟨s.rax, s.rcx, s.rdx, s.rbx, s.rsp, s.rbp, s.rsi, s.rdi, s.r8, s.r9, s.r10, s.r11,
    s.r12, s.r13, s.r14, s.r15, s.cf, s.zf, s.sf, s.of, s.mem, s.readable, s.writable, s.cpuidFn, s.pc, s.status⟩ := rfl

/-- one interpreter step, taken only when the state is an explicit record whose status field is the
constructor `running` (so a state on which symbolic execution got stuck is left alone instead of
being unfolded further); a halted state ends the run -/
simproc runStep (run _ _ _) := fun e => do
  let_expr run p s n := e | return .continue
  let some k ← Nat.fromExpr? n | return .continue
  if k == 0 then return .done { expr := s }
  let s ← instantiateMVars s
  unless s.isAppOfArity ``State.mk 26 do return .continue
  let st := s.appArg!
  let n' := mkNatLit (k - 1)
  if st.isConstOf ``Status.running then
    let prf := mkApp4 (mkConst ``run_succ_running) p s n' (← mkEqRefl st)
    return .visit { expr := mkApp3 (mkConst ``run) p (mkApp2 (mkConst ``step) p s) n', proof? := some prf }
  else if st.isConstOf ``Status.halted then
    let prf := mkApp4 (mkConst ``run_succ_stopped) p s n' (← mkDecideProof (← mkAppM ``Ne #[st, mkConst ``Status.running]))
    return .done { expr := s, proof? := some prf }
  else return .continue

theorem run_of_not_running (p : Program) (s : State) (n : Nat) (h : s.status ≠ .running) : run p s n = s := by
  cases n with
  | zero => rfl
  | succ n => rw [run_succ]; split <;> simp_all

theorem run_add (p : Program) (s : State) (m n : Nat) : run p s (m + n) = run p (run p s m) n := by
  induction m generalizing s with
  | zero => simp [run_zero]
  | succ m ih =>
    rw [show m + 1 + n = (m + n) + 1 by omega, run_succ, run_succ]
    split
    · exact ih _
    · rename_i h; rw [run_of_not_running]; simpa using h

/-- once the machine has stopped, more fuel changes nothing -/
theorem run_stable (p : Program) (s : State) (m n : Nat) (h : (run p s m).status ≠ .running) (hmn : m ≤ n) :
    run p s n = run p s m := by
  obtain ⟨k, rfl⟩ := Nat.exists_eq_add_of_le hmn
  rw [run_add, run_of_not_running _ _ _ h]

theorem run_fuel {p : Program} {s s' : State} {n : Nat} (h : run p s n = s') (hh : s'.status = .halted)
    (fuel : Nat) (hf : n ≤ fuel) : run p s fuel = s' := by
  rw [run_stable p s n fuel (by rw [h, hh]; decide) hf, h]

theorem ea_toNat (x : Word) (d : Nat) (h : x.toNat + d < 2 ^ 64) : (x + BitVec.ofNat 64 d).toNat = x.toNat + d := by
  rw [BitVec.toNat_add, BitVec.toNat_ofNat]
  have : d % 2^64 = d := Nat.mod_eq_of_lt (by omega)
  rw [this]; exact Nat.mod_eq_of_lt h

theorem sub8_toNat (x : Word) (h : 8 ≤ x.toNat) : (x - 8).toNat = x.toNat - 8 := by
  have h8 : (8 : Word).toNat = 8 := rfl
  rw [BitVec.toNat_sub, h8]; omega

theorem sub8_sub8_toNat (x : Word) (h : 16 ≤ x.toNat) : (x - 8 - 8).toNat = x.toNat - 8 - 8 := by
  rw [sub8_toNat _ (by rw [sub8_toNat _ (by omega)]; omega), sub8_toNat _ (by omega)]

theorem load_ok (s : State) (a : Nat) (h1 : a % 8 = 0) (h2 : s.readable a = true) : s.load a = .ok (s.mem a) := by
  simp [State.load, h1, h2]
theorem store_ok (s : State) (a : Nat) (v : Word) (h1 : a % 8 = 0) (h2 : s.writable a = true) :
    s.store a v = .ok { s with mem := setMem s.mem a v } := by
  simp [State.store, h1, h2]

theorem setMem_eq (m : Nat → Word) (a : Nat) (v : Word) : setMem m a v a = v := by simp [setMem]
theorem setMem_ne (m : Nat → Word) (a k : Nat) (v : Word) (h : ¬ k = a) : setMem m a v k = m k := by simp [setMem, h]
/-- same base, different literal offsets: decided without a discharger -/
theorem setMem_off (m : Nat → Word) (b i j : Nat) (v : Word) (h : (j == i) = false) :
    setMem m (b + i) v (b + j) = m (b + j) := by
  apply setMem_ne; intro e; have := Nat.add_left_cancel e; simp_all

/-- a hypothesis kept out of sight of `omega` (the separation facts are disjunctions; with all of them
in the context every `omega` call would case-split over all of them) -/
def Hide (P : Prop) : Prop := P
theorem Hide.out {P : Prop} (h : Hide P) : P := h
theorem Hide.mk {P : Prop} (h : P) : Hide P := h

open Lean.Elab.Tactic in
/-- `omega` in a context that contains nothing but one of the hidden hypotheses; those that mention
exactly the free variables of the goal are tried first -/
elab "omega_hidden" : tactic => withMainContext do
  let goalFVars := (collectFVars {} (← instantiateMVars (← getMainTarget))).fvarIds
  let mut first : Array Name := #[]
  let mut rest : Array Name := #[]
  for ldecl in (← getLCtx) do
    if ldecl.isImplementationDetail then continue
    let ty ← instantiateMVars ldecl.type
    if ty.isAppOfArity ``Hide 1 then
      let fv := (collectFVars {} ty).fvarIds
      if goalFVars.all fv.contains then first := first.push ldecl.userName else rest := rest.push ldecl.userName
  for n in first ++ rest do
    let st ← saveState
    try
      evalTactic (← `(tactic| (have hidden_fact := Hide.out $(mkIdent n); clear * - hidden_fact; omega)))
      return
    catch _ => restoreState st
  throwError "omega_hidden: no hidden hypothesis suffices"

/-- side conditions of symbolic execution: alignment and no-wrap-around facts are looked up in the
context, read-over-write address inequalities go to `omega` in an otherwise empty context -/
macro "x86_disch" : tactic => `(tactic| first | assumption | rfl | (clear * -; omega) | omega_hidden | omega)

/-- symbolic execution: unfold the interpreter on a state whose control-relevant parts are known -/
macro "x86_sym" " [" extra:Lean.Parser.Tactic.simpLemma,* "]" loc:(Lean.Parser.Tactic.location)? : tactic =>
  `(tactic| simp (maxSteps := 4000000) (disch := x86_disch) only [runStep, step, fetchInstr, exec, execAlu,
    State.readOp, State.writeOp, State.ea, State.get, State.set, State.commit, State.fin, State.next, State.setFlags,
    State.cond, trunc, immWord, Except.map, load_ok, store_ok, ea_toNat, sub8_sub8_toNat, sub8_toNat, BitVec.reduceOfInt,
    BitVec.sub_add_cancel, Nat.reduceAdd, setMem_eq, setMem_off, setMem_ne, $extra,*] $[$loc]?)

/-- read-over-write on the final memory -/
macro "x86_mem" : tactic => `(tactic| simp (disch := x86_disch) only [setMem_eq, setMem_off, setMem_ne])

/-! ## Arithmetic of `addc` / `subb` at width 64 -/

theorem addc_spec (x y : Word) (c : Bool) :
    (addc .q x y c).val.toNat + 2 ^ 64 * (addc .q x y c).cf.toNat = x.toNat + y.toNat + c.toNat := by
  simp only [addc, Width.bits, BitVec.toNat_ofNat, Nat.mod_mod]
  have := x.isLt; have := y.isLt; have : c.toNat ≤ 1 := Bool.toNat_le c
  by_cases h : 2 ^ 64 ≤ x.toNat + y.toNat + c.toNat
  · simp only [h, decide_true, Bool.toNat_true]; omega
  · simp only [h, decide_false, Bool.toNat_false]; omega

theorem subb_spec (x y : Word) (c : Bool) :
    (subb .q x y c).val.toNat + y.toNat + c.toNat = x.toNat + 2 ^ 64 * (subb .q x y c).cf.toNat := by
  simp only [subb, Width.bits, BitVec.toNat_ofNat, Nat.mod_mod]
  have := x.isLt; have := y.isLt; have : c.toNat ≤ 1 := Bool.toNat_le c
  by_cases h : x.toNat < y.toNat + c.toNat
  · simp only [h, decide_true, Bool.toNat_true]; omega
  · simp only [h, decide_false, Bool.toNat_false]; omega

/-! ## Buffers, calling convention -/

/-- the numbers stored in `n` consecutive qwords at byte address `p` (little-endian limbs) -/
def limbs (m : Nat → Word) (p : Nat) (n : Nat) : List Nat := (List.range n).map fun i => (m (p + 8 * i)).toNat

theorem limbs_six (m : Nat → Word) (p : Nat) : limbs m p 6 =
    [(m (p + 0)).toNat, (m (p + 8)).toNat, (m (p + 16)).toNat, (m (p + 24)).toNat, (m (p + 32)).toNat, (m (p + 40)).toNat] := rfl

theorem limbs_length (m : Nat → Word) (p n : Nat) : (limbs m p n).length = n := by simp [limbs]

theorem limbs_WF (m : Nat → Word) (p n : Nat) : WF (2 ^ 64) (limbs m p n) := by
  intro x hx
  simp only [limbs, List.mem_map] at hx
  obtain ⟨i, _, rfl⟩ := hx
  exact (m (p + 8 * i)).isLt

/-- `n` qwords at `p` lie inside the address space, are 8-byte aligned and readable (writable if `w`) -/
structure Buf (s : State) (p : Word) (n : Nat) (w : Bool) : Prop where
  fits : p.toNat + 8 * n ≤ 2 ^ 64
  aligned : p.toNat % 8 = 0
  readable : ∀ i, i < n → s.readable (p.toNat + 8 * i) = true
  writable : w = true → ∀ i, i < n → s.writable (p.toNat + 8 * i) = true

/-- two objects of `n` resp. `m` qwords do not overlap -/
def Disjoint (p : Word) (n : Nat) (q : Word) (m : Nat) : Prop :=
  p.toNat + 8 * n ≤ q.toNat ∨ q.toNat + 8 * m ≤ p.toNat

/-- two objects of the same size are the same object or do not overlap -/
def SameOrDisjoint (p q : Word) (n : Nat) : Prop := p.toNat = q.toNat ∨ Disjoint p n q n

theorem Buf.r6 {s : State} {p : Word} {w : Bool} (h : Buf s p 6 w) :
    s.readable (p.toNat + 0) = true ∧ s.readable (p.toNat + 8) = true ∧ s.readable (p.toNat + 16) = true ∧
    s.readable (p.toNat + 24) = true ∧ s.readable (p.toNat + 32) = true ∧ s.readable (p.toNat + 40) = true :=
  ⟨h.readable 0 (by omega), h.readable 1 (by omega), h.readable 2 (by omega), h.readable 3 (by omega),
   h.readable 4 (by omega), h.readable 5 (by omega)⟩

/-- alignment and no-wrap-around of the six qword addresses, in the syntactic form symbolic execution asks for -/
theorem Buf.addr6 {s : State} {p : Word} {w : Bool} (h : Buf s p 6 w) :
    ((p.toNat + 0) % 8 = 0 ∧ (p.toNat + 8) % 8 = 0 ∧ (p.toNat + 16) % 8 = 0 ∧ (p.toNat + 24) % 8 = 0 ∧
      (p.toNat + 32) % 8 = 0 ∧ (p.toNat + 40) % 8 = 0) ∧
    (p.toNat + 0 < 2 ^ 64 ∧ p.toNat + 8 < 2 ^ 64 ∧ p.toNat + 16 < 2 ^ 64 ∧ p.toNat + 24 < 2 ^ 64 ∧ p.toNat + 32 < 2 ^ 64 ∧
      p.toNat + 40 < 2 ^ 64) := by
  have := h.fits; have := h.aligned; omega

theorem Buf.w6 {s : State} {p : Word} (h : Buf s p 6 true) :
    s.writable (p.toNat + 0) = true ∧ s.writable (p.toNat + 8) = true ∧ s.writable (p.toNat + 16) = true ∧
    s.writable (p.toNat + 24) = true ∧ s.writable (p.toNat + 32) = true ∧ s.writable (p.toNat + 40) = true :=
  ⟨h.writable rfl 0 (by omega), h.writable rfl 1 (by omega), h.writable rfl 2 (by omega), h.writable rfl 3 (by omega),
   h.writable rfl 4 (by omega), h.writable rfl 5 (by omega)⟩

/-- what the System V convention promises the caller: the routine returned (by `ret`, to the address
that was on top of the stack), popped exactly that address, and kept rbx rbp r12–r15 -/
structure Returned (s s' : State) : Prop where
  halted : s'.status = .halted
  retaddr : s'.pc = (s.mem s.rsp.toNat).toNat
  rsp : s'.rsp = s.rsp + 8
  rbx : s'.rbx = s.rbx
  rbp : s'.rbp = s.rbp
  r12 : s'.r12 = s.r12
  r13 : s'.r13 = s.r13
  r14 : s'.r14 = s.r14
  r15 : s'.r15 = s.r15


/-- the return address is on top of the stack and there is room for `n` pushes below it -/
structure Stack (s : State) (n : Nat) : Prop where
  fits : s.rsp.toNat + 8 ≤ 2 ^ 64
  aligned : s.rsp.toNat % 8 = 0
  room : 8 * n ≤ s.rsp.toNat
  ret_readable : s.readable s.rsp.toNat = true
  slots : ∀ i, 1 ≤ i → i ≤ n → s.readable (s.rsp.toNat - 8 * i) = true ∧ s.writable (s.rsp.toNat - 8 * i) = true

theorem Stack.f0 {s : State} {n : Nat} (h : Stack s n) : s.rsp.toNat % 8 = 0 ∧ s.readable s.rsp.toNat = true :=
  ⟨h.aligned, h.ret_readable⟩

theorem Stack.f1 {s : State} {n : Nat} (h : Stack s n) (hn : 1 ≤ n) :
    8 ≤ s.rsp.toNat ∧ (s.rsp.toNat - 8) % 8 = 0 ∧
    s.readable (s.rsp.toNat - 8) = true ∧ s.writable (s.rsp.toNat - 8) = true := by
  have := h.aligned; have := h.room
  obtain ⟨r1, w1⟩ := h.slots 1 (by omega) hn
  rw [show s.rsp.toNat - 8 * 1 = s.rsp.toNat - 8 by omega] at r1 w1
  exact ⟨by omega, by omega, r1, w1⟩

theorem Stack.f2 {s : State} {n : Nat} (h : Stack s n) (hn : 2 ≤ n) :
    16 ≤ s.rsp.toNat ∧ (s.rsp.toNat - 8 - 8) % 8 = 0 ∧
    s.readable (s.rsp.toNat - 8 - 8) = true ∧ s.writable (s.rsp.toNat - 8 - 8) = true := by
  have := h.aligned; have := h.room
  obtain ⟨r2, w2⟩ := h.slots 2 (by omega) hn
  rw [show s.rsp.toNat - 8 * 2 = s.rsp.toNat - 8 - 8 by omega] at r2 w2
  exact ⟨by omega, by omega, r2, w2⟩

/-- an object of `m` qwords at `p` does not overlap the stack area the routine uses
(`n` push slots and the return address) -/
def OffStack (s : State) (n : Nat) (p : Word) (m : Nat) : Prop :=
  p.toNat + 8 * m ≤ s.rsp.toNat - 8 * n ∨ s.rsp.toNat + 8 ≤ p.toNat

/-! ## six-limb carry / borrow chains -/

section chains
variable {a0 a1 a2 a3 a4 a5 b0 b1 b2 b3 b4 b5 : Word} {c : Bool} {t0 t1 t2 t3 t4 t5 : ArithRes}

set_option exponentiation.threshold 500 in
theorem add6_val (h0 : t0 = addc .q a0 b0 c) (h1 : t1 = addc .q a1 b1 t0.cf) (h2 : t2 = addc .q a2 b2 t1.cf)
    (h3 : t3 = addc .q a3 b3 t2.cf) (h4 : t4 = addc .q a4 b4 t3.cf) (h5 : t5 = addc .q a5 b5 t4.cf) :
    val (2 ^ 64) [t0.val.toNat, t1.val.toNat, t2.val.toNat, t3.val.toNat, t4.val.toNat, t5.val.toNat]
        + 2 ^ 384 * t5.cf.toNat
      = val (2 ^ 64) [a0.toNat, a1.toNat, a2.toNat, a3.toNat, a4.toNat, a5.toNat]
        + val (2 ^ 64) [b0.toNat, b1.toNat, b2.toNat, b3.toNat, b4.toNat, b5.toNat] + c.toNat := by
  have e0 := addc_spec a0 b0 c; rw [← h0] at e0
  have e1 := addc_spec a1 b1 t0.cf; rw [← h1] at e1
  have e2 := addc_spec a2 b2 t1.cf; rw [← h2] at e2
  have e3 := addc_spec a3 b3 t2.cf; rw [← h3] at e3
  have e4 := addc_spec a4 b4 t3.cf; rw [← h4] at e4
  have e5 := addc_spec a5 b5 t4.cf; rw [← h5] at e5
  simp only [val_cons, val_nil]
  linear_combination e0 + 2 ^ 64 * e1 + 2 ^ 128 * e2 + 2 ^ 192 * e3 + 2 ^ 256 * e4 + 2 ^ 320 * e5

set_option exponentiation.threshold 500 in
theorem sub6_val (h0 : t0 = subb .q a0 b0 c) (h1 : t1 = subb .q a1 b1 t0.cf) (h2 : t2 = subb .q a2 b2 t1.cf)
    (h3 : t3 = subb .q a3 b3 t2.cf) (h4 : t4 = subb .q a4 b4 t3.cf) (h5 : t5 = subb .q a5 b5 t4.cf) :
    val (2 ^ 64) [t0.val.toNat, t1.val.toNat, t2.val.toNat, t3.val.toNat, t4.val.toNat, t5.val.toNat]
        + val (2 ^ 64) [b0.toNat, b1.toNat, b2.toNat, b3.toNat, b4.toNat, b5.toNat] + c.toNat
      = val (2 ^ 64) [a0.toNat, a1.toNat, a2.toNat, a3.toNat, a4.toNat, a5.toNat] + 2 ^ 384 * t5.cf.toNat := by
  have e0 := subb_spec a0 b0 c; rw [← h0] at e0
  have e1 := subb_spec a1 b1 t0.cf; rw [← h1] at e1
  have e2 := subb_spec a2 b2 t1.cf; rw [← h2] at e2
  have e3 := subb_spec a3 b3 t2.cf; rw [← h3] at e3
  have e4 := subb_spec a4 b4 t3.cf; rw [← h4] at e4
  have e5 := subb_spec a5 b5 t4.cf; rw [← h5] at e5
  simp only [val_cons, val_nil]
  linear_combination e0 + 2 ^ 64 * e1 + 2 ^ 128 * e2 + 2 ^ 192 * e3 + 2 ^ 256 * e4 + 2 ^ 320 * e5

end chains

/-- a six-limb number is its low five limbs (`< 2^320`) plus `2^320` times the top limb -/
theorem val6_split (x0 x1 x2 x3 x4 x5 : Word) :
    ∃ lo, lo < 2 ^ 320 ∧
      val (2 ^ 64) [x0.toNat, x1.toNat, x2.toNat, x3.toNat, x4.toNat, x5.toNat] = lo + 2 ^ 320 * x5.toNat ∧
      val (2 ^ 64) [x0.toNat, x1.toNat, x2.toNat, x3.toNat, x4.toNat, x5.toNat] < 2 ^ 384 := by
  refine ⟨val (2 ^ 64) [x0.toNat, x1.toNat, x2.toNat, x3.toNat, x4.toNat], ?_, ?_, ?_⟩
  · have := x0.isLt; have := x1.isLt; have := x2.isLt; have := x3.isLt; have := x4.isLt
    simp only [val_cons, val_nil]; omega
  · simp only [val_cons, val_nil]; omega
  · have := x0.isLt; have := x1.isLt; have := x2.isLt; have := x3.isLt; have := x4.isLt; have := x5.isLt
    simp only [val_cons, val_nil]; omega

/-- limbs and carry are determined by `value + 2^(64n)·carry` -/
theorem limbs_carry_unique {x y : List Nat} {cx cy n : Nat} (hx : WF (2 ^ 64) x) (hy : WF (2 ^ 64) y)
    (lx : x.length = n) (ly : y.length = n) (hcx : cx ≤ 1) (hcy : cy ≤ 1)
    (h : val (2 ^ 64) x + (2 ^ 64) ^ n * cx = val (2 ^ 64) y + (2 ^ 64) ^ n * cy) : x = y ∧ cx = cy := by
  have bx := val_lt hx; have bY := val_lt hy
  rw [lx] at bx; rw [ly] at bY
  generalize (2 ^ 64) ^ n = M at *
  have hc : cx = cy := by
    rcases Nat.le_one_iff_eq_zero_or_eq_one.1 hcx with rfl | rfl <;>
    rcases Nat.le_one_iff_eq_zero_or_eq_one.1 hcy with rfl | rfl <;> omega
  subst hc
  exact ⟨val_inj hx hy (lx.trans ly.symm) (by omega), rfl⟩

/-- `cmp y, x` (AT&T): CF ⇔ x < y, ZF ⇔ x = y -/
theorem subb_cf_iff (x y : Word) : (subb .q x y false).cf = true ↔ x.toNat < y.toNat := by
  simp [subb]
theorem subb_zf_iff (x y : Word) : (subb .q x y false).zf = true ↔ x.toNat = y.toNat := by
  have := x.isLt; have := y.isLt
  simp only [subb, Width.bits, Bool.toNat_false, Nat.sub_zero, beq_iff_eq]
  rw [← BitVec.toNat_inj]
  have h0 : BitVec.toNat (0 : BitVec 64) = 0 := rfl
  rw [h0]
  simp only [BitVec.toNat_ofNat, Nat.mod_mod]
  omega

theorem mod_of_cases {x p r : Nat} (hr : r < p) (h : r = x ∨ r + p = x) : r = x % p := by
  rcases h with h | h
  · rw [← h, Nat.mod_eq_of_lt hr]
  · rw [← h, Nat.add_mod_right, Nat.mod_eq_of_lt hr]

open Jedi.Gen.AsmX86

/-! ## `bigint_384_add`, `bigint_384_subtract`, `bigint_384_multiply2`

Straight-line code: one symbolic execution, then the six-limb chain lemma. -/

set_option maxHeartbeats 1000000 in
/-- `bool bigint_384_add(res, a, b)`: `res + 2^384·rax = a + b`, `rax ∈ {0,1}` -/
theorem bigint_384_add_run (s : State) (pr pa pb : Word)
    (hst : s.status = .running) (hpc : s.pc = 0) (hdi : s.rdi = pr) (hsi : s.rsi = pa) (hdx : s.rdx = pb)
    (hr : Buf s pr 6 true) (ha : Buf s pa 6 false) (hb : Buf s pb 6 false)
    (hra : SameOrDisjoint pr pa 6) (hrb : SameOrDisjoint pr pb 6)
    (hstk : Stack s 0) (hrs : OffStack s 0 pr 6) :
    ∃ s', run embedded_pairing_core_arch_x86_64_bigint_384_add s 21 = s' ∧ Returned s s' ∧
      val (2 ^ 64) (limbs s'.mem pr.toNat 6) + 2 ^ 384 * s'.rax.toNat
        = val (2 ^ 64) (limbs s.mem pa.toNat 6) + val (2 ^ 64) (limbs s.mem pb.toNat 6) ∧
      s'.rax.toNat ≤ 1 ∧
      (∀ k, ¬(pr.toNat ≤ k ∧ k < pr.toNat + 48) → s'.mem k = s.mem k) := by
  refine ⟨_, rfl, ?_⟩
  obtain ⟨ra0, ra1, ra2, ra3, ra4, ra5⟩ := ha.r6
  obtain ⟨⟨alra0, alra1, alra2, alra3, alra4, alra5⟩, fra0, fra1, fra2, fra3, fra4, fra5⟩ := ha.addr6
  obtain ⟨rb0, rb1, rb2, rb3, rb4, rb5⟩ := hb.r6
  obtain ⟨⟨alrb0, alrb1, alrb2, alrb3, alrb4, alrb5⟩, frb0, frb1, frb2, frb3, frb4, frb5⟩ := hb.addr6
  obtain ⟨rr0, rr1, rr2, rr3, rr4, rr5⟩ := hr.r6
  obtain ⟨wr0, wr1, wr2, wr3, wr4, wr5⟩ := hr.w6
  obtain ⟨⟨alrr0, alrr1, alrr2, alrr3, alrr4, alrr5⟩, frr0, frr1, frr2, frr3, frr4, frr5⟩ := hr.addr6
  obtain ⟨als0, rs0⟩ := hstk.f0
  replace hra := Hide.mk hra; replace hrb := Hide.mk hrb; replace hrs := Hide.mk hrs
  simp only [SameOrDisjoint, Disjoint, OffStack] at hra hrb hrs
  clear ha hb hr hstk
  generalize hfin : run embedded_pairing_core_arch_x86_64_bigint_384_add s 21 = s'
  simp only [limbs_six]
  obtain ⟨a0, ha0⟩ : ∃ x, x = s.mem (pa.toNat + 0) := ⟨_, rfl⟩
  obtain ⟨a1, ha1⟩ : ∃ x, x = s.mem (pa.toNat + 8) := ⟨_, rfl⟩
  obtain ⟨a2, ha2⟩ : ∃ x, x = s.mem (pa.toNat + 16) := ⟨_, rfl⟩
  obtain ⟨a3, ha3⟩ : ∃ x, x = s.mem (pa.toNat + 24) := ⟨_, rfl⟩
  obtain ⟨a4, ha4⟩ : ∃ x, x = s.mem (pa.toNat + 32) := ⟨_, rfl⟩
  obtain ⟨a5, ha5⟩ : ∃ x, x = s.mem (pa.toNat + 40) := ⟨_, rfl⟩
  obtain ⟨b0, hb0⟩ : ∃ x, x = s.mem (pb.toNat + 0) := ⟨_, rfl⟩
  obtain ⟨b1, hb1⟩ : ∃ x, x = s.mem (pb.toNat + 8) := ⟨_, rfl⟩
  obtain ⟨b2, hb2⟩ : ∃ x, x = s.mem (pb.toNat + 16) := ⟨_, rfl⟩
  obtain ⟨b3, hb3⟩ : ∃ x, x = s.mem (pb.toNat + 24) := ⟨_, rfl⟩
  obtain ⟨b4, hb4⟩ : ∃ x, x = s.mem (pb.toNat + 32) := ⟨_, rfl⟩
  obtain ⟨b5, hb5⟩ : ∃ x, x = s.mem (pb.toNat + 40) := ⟨_, rfl⟩
  simp only [← ha0, ← ha1, ← ha2, ← ha3, ← ha4, ← ha5, ← hb0, ← hb1, ← hb2, ← hb3, ← hb4, ← hb5]
  obtain ⟨t0, ht0⟩ : ∃ x, x = addc .q a0 b0 false := ⟨_, rfl⟩
  obtain ⟨t1, ht1⟩ : ∃ x, x = addc .q a1 b1 t0.cf := ⟨_, rfl⟩
  obtain ⟨t2, ht2⟩ : ∃ x, x = addc .q a2 b2 t1.cf := ⟨_, rfl⟩
  obtain ⟨t3, ht3⟩ : ∃ x, x = addc .q a3 b3 t2.cf := ⟨_, rfl⟩
  obtain ⟨t4, ht4⟩ : ∃ x, x = addc .q a4 b4 t3.cf := ⟨_, rfl⟩
  obtain ⟨t5, ht5⟩ : ∃ x, x = addc .q a5 b5 t4.cf := ⟨_, rfl⟩
  obtain ⟨t6, ht6⟩ : ∃ x, x = addc .q (0#64) (0#64) t5.cf := ⟨_, rfl⟩
  rw [State.eta s] at hfin
  x86_sym [hst, hpc, hdi, hsi, hdx, ← ha0, ← ha1, ← ha2, ← ha3, ← ha4, ← ha5, ← hb0, ← hb1, ← hb2, ← hb3, ← hb4, ← hb5, ← ht0, ← ht1, ← ht2, ← ht3, ← ht4, ← ht5, ← ht6] at hfin
  subst hfin
  have h6 : t6.val.toNat = t5.cf.toNat := by
    have e6 := addc_spec (0#64) (0#64) t5.cf; rw [← ht6] at e6
    have := Bool.toNat_le t5.cf; have := Bool.toNat_le t6.cf
    simp only [BitVec.toNat_ofNat, Nat.zero_mod] at e6
    omega
  refine ⟨⟨rfl, ?_, rfl, rfl, rfl, rfl, rfl, rfl, rfl⟩, ?_, ?_, ?_⟩
  · simp only
  · x86_mem
    rw [h6]
    have := add6_val ht0 ht1 ht2 ht3 ht4 ht5
    simp only [Bool.toNat_false, Nat.add_zero] at this
    exact this
  · simp only [h6]; exact Bool.toNat_le _
  · intro k hk
    simp (disch := (clear * - hk; omega)) only [setMem_ne]

set_option maxHeartbeats 1000000 in
/-- `bool bigint_384_subtract(res, a, b)`: `res + b = a + 2^384·rax`, `rax ∈ {0,1}` -/
theorem bigint_384_subtract_run (s : State) (pr pa pb : Word)
    (hst : s.status = .running) (hpc : s.pc = 0) (hdi : s.rdi = pr) (hsi : s.rsi = pa) (hdx : s.rdx = pb)
    (hr : Buf s pr 6 true) (ha : Buf s pa 6 false) (hb : Buf s pb 6 false)
    (hra : SameOrDisjoint pr pa 6) (hrb : SameOrDisjoint pr pb 6)
    (hstk : Stack s 0) (hrs : OffStack s 0 pr 6) :
    ∃ s', run embedded_pairing_core_arch_x86_64_bigint_384_subtract s 21 = s' ∧ Returned s s' ∧
      val (2 ^ 64) (limbs s'.mem pr.toNat 6) + val (2 ^ 64) (limbs s.mem pb.toNat 6)
        = val (2 ^ 64) (limbs s.mem pa.toNat 6) + 2 ^ 384 * s'.rax.toNat ∧
      s'.rax.toNat ≤ 1 ∧
      (∀ k, ¬(pr.toNat ≤ k ∧ k < pr.toNat + 48) → s'.mem k = s.mem k) := by
  refine ⟨_, rfl, ?_⟩
  obtain ⟨ra0, ra1, ra2, ra3, ra4, ra5⟩ := ha.r6
  obtain ⟨⟨alra0, alra1, alra2, alra3, alra4, alra5⟩, fra0, fra1, fra2, fra3, fra4, fra5⟩ := ha.addr6
  obtain ⟨rb0, rb1, rb2, rb3, rb4, rb5⟩ := hb.r6
  obtain ⟨⟨alrb0, alrb1, alrb2, alrb3, alrb4, alrb5⟩, frb0, frb1, frb2, frb3, frb4, frb5⟩ := hb.addr6
  obtain ⟨rr0, rr1, rr2, rr3, rr4, rr5⟩ := hr.r6
  obtain ⟨wr0, wr1, wr2, wr3, wr4, wr5⟩ := hr.w6
  obtain ⟨⟨alrr0, alrr1, alrr2, alrr3, alrr4, alrr5⟩, frr0, frr1, frr2, frr3, frr4, frr5⟩ := hr.addr6
  obtain ⟨als0, rs0⟩ := hstk.f0
  replace hra := Hide.mk hra; replace hrb := Hide.mk hrb; replace hrs := Hide.mk hrs
  simp only [SameOrDisjoint, Disjoint, OffStack] at hra hrb hrs
  clear ha hb hr hstk
  generalize hfin : run embedded_pairing_core_arch_x86_64_bigint_384_subtract s 21 = s'
  simp only [limbs_six]
  obtain ⟨a0, ha0⟩ : ∃ x, x = s.mem (pa.toNat + 0) := ⟨_, rfl⟩
  obtain ⟨a1, ha1⟩ : ∃ x, x = s.mem (pa.toNat + 8) := ⟨_, rfl⟩
  obtain ⟨a2, ha2⟩ : ∃ x, x = s.mem (pa.toNat + 16) := ⟨_, rfl⟩
  obtain ⟨a3, ha3⟩ : ∃ x, x = s.mem (pa.toNat + 24) := ⟨_, rfl⟩
  obtain ⟨a4, ha4⟩ : ∃ x, x = s.mem (pa.toNat + 32) := ⟨_, rfl⟩
  obtain ⟨a5, ha5⟩ : ∃ x, x = s.mem (pa.toNat + 40) := ⟨_, rfl⟩
  obtain ⟨b0, hb0⟩ : ∃ x, x = s.mem (pb.toNat + 0) := ⟨_, rfl⟩
  obtain ⟨b1, hb1⟩ : ∃ x, x = s.mem (pb.toNat + 8) := ⟨_, rfl⟩
  obtain ⟨b2, hb2⟩ : ∃ x, x = s.mem (pb.toNat + 16) := ⟨_, rfl⟩
  obtain ⟨b3, hb3⟩ : ∃ x, x = s.mem (pb.toNat + 24) := ⟨_, rfl⟩
  obtain ⟨b4, hb4⟩ : ∃ x, x = s.mem (pb.toNat + 32) := ⟨_, rfl⟩
  obtain ⟨b5, hb5⟩ : ∃ x, x = s.mem (pb.toNat + 40) := ⟨_, rfl⟩
  simp only [← ha0, ← ha1, ← ha2, ← ha3, ← ha4, ← ha5, ← hb0, ← hb1, ← hb2, ← hb3, ← hb4, ← hb5]
  obtain ⟨t0, ht0⟩ : ∃ x, x = subb .q a0 b0 false := ⟨_, rfl⟩
  obtain ⟨t1, ht1⟩ : ∃ x, x = subb .q a1 b1 t0.cf := ⟨_, rfl⟩
  obtain ⟨t2, ht2⟩ : ∃ x, x = subb .q a2 b2 t1.cf := ⟨_, rfl⟩
  obtain ⟨t3, ht3⟩ : ∃ x, x = subb .q a3 b3 t2.cf := ⟨_, rfl⟩
  obtain ⟨t4, ht4⟩ : ∃ x, x = subb .q a4 b4 t3.cf := ⟨_, rfl⟩
  obtain ⟨t5, ht5⟩ : ∃ x, x = subb .q a5 b5 t4.cf := ⟨_, rfl⟩
  obtain ⟨t6, ht6⟩ : ∃ x, x = subb .q t5.val t5.val t5.cf := ⟨_, rfl⟩
  obtain ⟨t7, ht7⟩ : ∃ x, x = subb .q (0 : Word) t6.val false := ⟨_, rfl⟩
  rw [State.eta s] at hfin
  x86_sym [hst, hpc, hdi, hsi, hdx, ← ha0, ← ha1, ← ha2, ← ha3, ← ha4, ← ha5, ← hb0, ← hb1, ← hb2, ← hb3, ← hb4, ← hb5, ← ht0, ← ht1, ← ht2, ← ht3, ← ht4, ← ht5, ← ht6, ← ht7] at hfin
  subst hfin
  have h7 : t7.val.toNat = t5.cf.toNat := by
    have e6 := subb_spec t5.val t5.val t5.cf; rw [← ht6] at e6
    have e7 := subb_spec (0 : Word) t6.val false; rw [← ht7] at e7
    have := Bool.toNat_le t5.cf; have := Bool.toNat_le t6.cf; have := Bool.toNat_le t7.cf
    have h0 : BitVec.toNat (0 : Word) = 0 := rfl
    rw [h0] at e7
    simp only [Bool.toNat_false] at e7
    omega
  refine ⟨⟨rfl, ?_, rfl, rfl, rfl, rfl, rfl, rfl, rfl⟩, ?_, ?_, ?_⟩
  · simp only
  · x86_mem
    rw [h7]
    have := sub6_val ht0 ht1 ht2 ht3 ht4 ht5
    simp only [Bool.toNat_false, Nat.add_zero] at this
    exact this
  · simp only [h7]; exact Bool.toNat_le _
  · intro k hk
    simp (disch := (clear * - hk; omega)) only [setMem_ne]

set_option maxHeartbeats 1000000 in
/-- `uint64_t bigint_384_multiply2(res, a)`: `res + 2^384·rax = 2·a`, `rax ∈ {0,1}` -/
theorem bigint_384_multiply2_run (s : State) (pr pa : Word)
    (hst : s.status = .running) (hpc : s.pc = 0) (hdi : s.rdi = pr) (hsi : s.rsi = pa)
    (hr : Buf s pr 6 true) (ha : Buf s pa 6 false) (hra : SameOrDisjoint pr pa 6)
    (hstk : Stack s 0) (hrs : OffStack s 0 pr 6) :
    ∃ s', run embedded_pairing_core_arch_x86_64_bigint_384_multiply2 s 21 = s' ∧ Returned s s' ∧
      val (2 ^ 64) (limbs s'.mem pr.toNat 6) + 2 ^ 384 * s'.rax.toNat = 2 * val (2 ^ 64) (limbs s.mem pa.toNat 6) ∧
      s'.rax.toNat ≤ 1 ∧
      (∀ k, ¬(pr.toNat ≤ k ∧ k < pr.toNat + 48) → s'.mem k = s.mem k) := by
  refine ⟨_, rfl, ?_⟩
  obtain ⟨ra0, ra1, ra2, ra3, ra4, ra5⟩ := ha.r6
  obtain ⟨⟨alra0, alra1, alra2, alra3, alra4, alra5⟩, fra0, fra1, fra2, fra3, fra4, fra5⟩ := ha.addr6
  obtain ⟨rr0, rr1, rr2, rr3, rr4, rr5⟩ := hr.r6
  obtain ⟨wr0, wr1, wr2, wr3, wr4, wr5⟩ := hr.w6
  obtain ⟨⟨alrr0, alrr1, alrr2, alrr3, alrr4, alrr5⟩, frr0, frr1, frr2, frr3, frr4, frr5⟩ := hr.addr6
  obtain ⟨als0, rs0⟩ := hstk.f0
  replace hra := Hide.mk hra; replace hrs := Hide.mk hrs
  simp only [SameOrDisjoint, Disjoint, OffStack] at hra hrs
  clear ha hr hstk
  generalize hfin : run embedded_pairing_core_arch_x86_64_bigint_384_multiply2 s 21 = s'
  simp only [limbs_six]
  obtain ⟨a0, ha0⟩ : ∃ x, x = s.mem (pa.toNat + 0) := ⟨_, rfl⟩
  obtain ⟨a1, ha1⟩ : ∃ x, x = s.mem (pa.toNat + 8) := ⟨_, rfl⟩
  obtain ⟨a2, ha2⟩ : ∃ x, x = s.mem (pa.toNat + 16) := ⟨_, rfl⟩
  obtain ⟨a3, ha3⟩ : ∃ x, x = s.mem (pa.toNat + 24) := ⟨_, rfl⟩
  obtain ⟨a4, ha4⟩ : ∃ x, x = s.mem (pa.toNat + 32) := ⟨_, rfl⟩
  obtain ⟨a5, ha5⟩ : ∃ x, x = s.mem (pa.toNat + 40) := ⟨_, rfl⟩
  simp only [← ha0, ← ha1, ← ha2, ← ha3, ← ha4, ← ha5]
  obtain ⟨t0, ht0⟩ : ∃ x, x = addc .q a0 a0 false := ⟨_, rfl⟩
  obtain ⟨t1, ht1⟩ : ∃ x, x = addc .q a1 a1 t0.cf := ⟨_, rfl⟩
  obtain ⟨t2, ht2⟩ : ∃ x, x = addc .q a2 a2 t1.cf := ⟨_, rfl⟩
  obtain ⟨t3, ht3⟩ : ∃ x, x = addc .q a3 a3 t2.cf := ⟨_, rfl⟩
  obtain ⟨t4, ht4⟩ : ∃ x, x = addc .q a4 a4 t3.cf := ⟨_, rfl⟩
  obtain ⟨t5, ht5⟩ : ∃ x, x = addc .q a5 a5 t4.cf := ⟨_, rfl⟩
  obtain ⟨t6, ht6⟩ : ∃ x, x = addc .q (0#64) (0#64) t5.cf := ⟨_, rfl⟩
  rw [State.eta s] at hfin
  x86_sym [hst, hpc, hdi, hsi, ← ha0, ← ha1, ← ha2, ← ha3, ← ha4, ← ha5, ← ht0, ← ht1, ← ht2, ← ht3, ← ht4, ← ht5, ← ht6] at hfin
  subst hfin
  have h6 : t6.val.toNat = t5.cf.toNat := by
    have e6 := addc_spec (0#64) (0#64) t5.cf; rw [← ht6] at e6
    have := Bool.toNat_le t5.cf; have := Bool.toNat_le t6.cf
    simp only [BitVec.toNat_ofNat, Nat.zero_mod] at e6
    omega
  refine ⟨⟨rfl, ?_, rfl, rfl, rfl, rfl, rfl, rfl, rfl⟩, ?_, ?_, ?_⟩
  · simp only
  · x86_mem
    rw [h6]
    have := add6_val ht0 ht1 ht2 ht3 ht4 ht5
    simp only [Bool.toNat_false, Nat.add_zero] at this
    rw [this]; omega
  · simp only [h6]; exact Bool.toNat_le _
  · intro k hk
    simp (disch := (clear * - hk; omega)) only [setMem_ne]

/-! ## `fpbase_384_add`

Five control paths: carry out of the 384-bit sum (subtract `p`); no carry and top word of the sum
below / above the top word of `p` (copy / subtract without looking at the other words); top words
equal — the tie — (store the sum, subtract, keep the sum if the subtraction borrowed, otherwise store
the difference). -/

set_option maxHeartbeats 1600000 in
set_option exponentiation.threshold 500 in
theorem fpbase_384_add_run (s : State) (pr pa pb pp : Word)
    (hst : s.status = .running) (hpc : s.pc = 0) (hdi : s.rdi = pr) (hsi : s.rsi = pa) (hdx : s.rdx = pb) (hcx : s.rcx = pp)
    (hr : Buf s pr 6 true) (ha : Buf s pa 6 false) (hb : Buf s pb 6 false) (hp : Buf s pp 6 false)
    (hra : SameOrDisjoint pr pa 6) (hrb : SameOrDisjoint pr pb 6) (hrp : Disjoint pr 6 pp 6)
    (hstk : Stack s 2) (hrs : OffStack s 2 pr 6) (has : OffStack s 2 pa 6) (hbs : OffStack s 2 pb 6)
    (hps : OffStack s 2 pp 6)
    (hA : val (2 ^ 64) (limbs s.mem pa.toNat 6) < val (2 ^ 64) (limbs s.mem pp.toNat 6))
    (hB : val (2 ^ 64) (limbs s.mem pb.toNat 6) < val (2 ^ 64) (limbs s.mem pp.toNat 6)) :
    ∃ s', run embedded_pairing_core_arch_x86_64_fpbase_384_add s 56 = s' ∧ Returned s s' ∧
      val (2 ^ 64) (limbs s'.mem pr.toNat 6)
        = (val (2 ^ 64) (limbs s.mem pa.toNat 6) + val (2 ^ 64) (limbs s.mem pb.toNat 6))
            % val (2 ^ 64) (limbs s.mem pp.toNat 6) ∧
      (∀ k, ¬(pr.toNat ≤ k ∧ k < pr.toNat + 48) → ¬(s.rsp.toNat - 16 ≤ k ∧ k < s.rsp.toNat) → s'.mem k = s.mem k) := by
  refine ⟨_, rfl, ?_⟩
  obtain ⟨ra0, ra1, ra2, ra3, ra4, ra5⟩ := ha.r6
  obtain ⟨⟨alra0, alra1, alra2, alra3, alra4, alra5⟩, fra0, fra1, fra2, fra3, fra4, fra5⟩ := ha.addr6
  obtain ⟨rb0, rb1, rb2, rb3, rb4, rb5⟩ := hb.r6
  obtain ⟨⟨alrb0, alrb1, alrb2, alrb3, alrb4, alrb5⟩, frb0, frb1, frb2, frb3, frb4, frb5⟩ := hb.addr6
  obtain ⟨rp0, rp1, rp2, rp3, rp4, rp5⟩ := hp.r6
  obtain ⟨⟨alrp0, alrp1, alrp2, alrp3, alrp4, alrp5⟩, frp0, frp1, frp2, frp3, frp4, frp5⟩ := hp.addr6
  obtain ⟨rr0, rr1, rr2, rr3, rr4, rr5⟩ := hr.r6
  obtain ⟨wr0, wr1, wr2, wr3, wr4, wr5⟩ := hr.w6
  obtain ⟨⟨alrr0, alrr1, alrr2, alrr3, alrr4, alrr5⟩, frr0, frr1, frr2, frr3, frr4, frr5⟩ := hr.addr6
  obtain ⟨als0, rs0⟩ := hstk.f0
  obtain ⟨room1, als1, sr1, sw1⟩ := hstk.f1 (by omega)
  obtain ⟨room2, als2, sr2, sw2⟩ := hstk.f2 (by omega)
  replace hra := Hide.mk hra; replace hrb := Hide.mk hrb; replace hrp := Hide.mk hrp; replace hrs := Hide.mk hrs
  replace has := Hide.mk has; replace hbs := Hide.mk hbs; replace hps := Hide.mk hps
  simp only [SameOrDisjoint, Disjoint, OffStack] at hra hrb hrp hrs has hbs hps
  clear ha hb hp hr hstk
  generalize hfin : run embedded_pairing_core_arch_x86_64_fpbase_384_add s 56 = s'
  simp only [limbs_six] at hA hB ⊢
  obtain ⟨a0, ha0⟩ : ∃ x, x = s.mem (pa.toNat + 0) := ⟨_, rfl⟩
  obtain ⟨a1, ha1⟩ : ∃ x, x = s.mem (pa.toNat + 8) := ⟨_, rfl⟩
  obtain ⟨a2, ha2⟩ : ∃ x, x = s.mem (pa.toNat + 16) := ⟨_, rfl⟩
  obtain ⟨a3, ha3⟩ : ∃ x, x = s.mem (pa.toNat + 24) := ⟨_, rfl⟩
  obtain ⟨a4, ha4⟩ : ∃ x, x = s.mem (pa.toNat + 32) := ⟨_, rfl⟩
  obtain ⟨a5, ha5⟩ : ∃ x, x = s.mem (pa.toNat + 40) := ⟨_, rfl⟩
  obtain ⟨b0, hb0⟩ : ∃ x, x = s.mem (pb.toNat + 0) := ⟨_, rfl⟩
  obtain ⟨b1, hb1⟩ : ∃ x, x = s.mem (pb.toNat + 8) := ⟨_, rfl⟩
  obtain ⟨b2, hb2⟩ : ∃ x, x = s.mem (pb.toNat + 16) := ⟨_, rfl⟩
  obtain ⟨b3, hb3⟩ : ∃ x, x = s.mem (pb.toNat + 24) := ⟨_, rfl⟩
  obtain ⟨b4, hb4⟩ : ∃ x, x = s.mem (pb.toNat + 32) := ⟨_, rfl⟩
  obtain ⟨b5, hb5⟩ : ∃ x, x = s.mem (pb.toNat + 40) := ⟨_, rfl⟩
  obtain ⟨p0, hp0⟩ : ∃ x, x = s.mem (pp.toNat + 0) := ⟨_, rfl⟩
  obtain ⟨p1, hp1⟩ : ∃ x, x = s.mem (pp.toNat + 8) := ⟨_, rfl⟩
  obtain ⟨p2, hp2⟩ : ∃ x, x = s.mem (pp.toNat + 16) := ⟨_, rfl⟩
  obtain ⟨p3, hp3⟩ : ∃ x, x = s.mem (pp.toNat + 24) := ⟨_, rfl⟩
  obtain ⟨p4, hp4⟩ : ∃ x, x = s.mem (pp.toNat + 32) := ⟨_, rfl⟩
  obtain ⟨p5, hp5⟩ : ∃ x, x = s.mem (pp.toNat + 40) := ⟨_, rfl⟩
  simp only [← ha0, ← ha1, ← ha2, ← ha3, ← ha4, ← ha5, ← hb0, ← hb1, ← hb2, ← hb3, ← hb4, ← hb5, ← hp0, ← hp1, ← hp2, ← hp3, ← hp4, ← hp5] at hA hB ⊢
  obtain ⟨t0, ht0⟩ : ∃ x, x = addc .q a0 b0 false := ⟨_, rfl⟩
  obtain ⟨t1, ht1⟩ : ∃ x, x = addc .q a1 b1 t0.cf := ⟨_, rfl⟩
  obtain ⟨t2, ht2⟩ : ∃ x, x = addc .q a2 b2 t1.cf := ⟨_, rfl⟩
  obtain ⟨t3, ht3⟩ : ∃ x, x = addc .q a3 b3 t2.cf := ⟨_, rfl⟩
  obtain ⟨t4, ht4⟩ : ∃ x, x = addc .q a4 b4 t3.cf := ⟨_, rfl⟩
  obtain ⟨t5, ht5⟩ : ∃ x, x = addc .q a5 b5 t4.cf := ⟨_, rfl⟩
  obtain ⟨q, hq⟩ : ∃ x, x = subb .q t5.val p5 false := ⟨_, rfl⟩
  obtain ⟨d0, hd0⟩ : ∃ x, x = subb .q t0.val p0 false := ⟨_, rfl⟩
  obtain ⟨d1, hd1⟩ : ∃ x, x = subb .q t1.val p1 d0.cf := ⟨_, rfl⟩
  obtain ⟨d2, hd2⟩ : ∃ x, x = subb .q t2.val p2 d1.cf := ⟨_, rfl⟩
  obtain ⟨d3, hd3⟩ : ∃ x, x = subb .q t3.val p3 d2.cf := ⟨_, rfl⟩
  obtain ⟨d4, hd4⟩ : ∃ x, x = subb .q t4.val p4 d3.cf := ⟨_, rfl⟩
  obtain ⟨d5, hd5⟩ : ∃ x, x = subb .q t5.val p5 d4.cf := ⟨_, rfl⟩
  cases hc : t5.cf
  · cases hlt : q.cf
    · cases hz : q.zf
      · -- top word of the sum above the top word of p: subtract
        rw [State.eta s] at hfin
        x86_sym [hst, hpc, hdi, hsi, hdx, hcx, ← ha0, ← ha1, ← ha2, ← ha3, ← ha4, ← ha5, ← hb0, ← hb1, ← hb2, ← hb3, ← hb4, ← hb5, ← hp0, ← hp1, ← hp2, ← hp3, ← hp4, ← hp5, ← ht0, ← ht1, ← ht2, ← ht3, ← ht4, ← ht5, ← hq, ← hd0, ← hd1, ← hd2, ← hd3, ← hd4, ← hd5, hc, hlt, hz] at hfin
        subst hfin
        refine ⟨⟨rfl, ?_, ?_, ?_, ?_, rfl, rfl, rfl, rfl⟩, ?_, ?_⟩
        · simp only
        · simp only
        · simp only
        · simp only
        · x86_mem
          have hS := add6_val ht0 ht1 ht2 ht3 ht4 ht5
          have hD := sub6_val hd0 hd1 hd2 hd3 hd4 hd5
          obtain ⟨loS, hloS, hSs, hSb⟩ := val6_split t0.val t1.val t2.val t3.val t4.val t5.val
          obtain ⟨loP, hloP, hPs, hPb⟩ := val6_split p0 p1 p2 p3 p4 p5
          obtain ⟨loD, hloD, hDs, hDb⟩ := val6_split d0.val d1.val d2.val d3.val d4.val d5.val
          have hlt' := subb_cf_iff t5.val p5; rw [← hq] at hlt'
          have hz' := subb_zf_iff t5.val p5; rw [← hq] at hz'
          have := Bool.toNat_le d5.cf
          simp only [hc, hlt, hz, Bool.toNat_true, Bool.toNat_false, Bool.false_eq_true, false_iff, true_iff, Nat.not_lt] at hS hD hlt' hz'
          apply mod_of_cases
          · omega
          · omega
        · intro k hk1 hk2
          simp (disch := (clear * - hk1 hk2 room1; omega)) only [setMem_ne]
      · -- tie on the top word
        cases hbw : d5.cf
        · -- the full subtraction does not borrow: store the difference
          rw [State.eta s] at hfin
          x86_sym [hst, hpc, hdi, hsi, hdx, hcx, ← ha0, ← ha1, ← ha2, ← ha3, ← ha4, ← ha5, ← hb0, ← hb1, ← hb2, ← hb3, ← hb4, ← hb5, ← hp0, ← hp1, ← hp2, ← hp3, ← hp4, ← hp5, ← ht0, ← ht1, ← ht2, ← ht3, ← ht4, ← ht5, ← hq, ← hd0, ← hd1, ← hd2, ← hd3, ← hd4, ← hd5, hc, hlt, hz, hbw] at hfin
          subst hfin
          refine ⟨⟨rfl, ?_, ?_, ?_, ?_, rfl, rfl, rfl, rfl⟩, ?_, ?_⟩
          · simp only
          · simp only
          · simp only
          · simp only
          · x86_mem
            have hS := add6_val ht0 ht1 ht2 ht3 ht4 ht5
            have hD := sub6_val hd0 hd1 hd2 hd3 hd4 hd5
            obtain ⟨loS, hloS, hSs, hSb⟩ := val6_split t0.val t1.val t2.val t3.val t4.val t5.val
            obtain ⟨loP, hloP, hPs, hPb⟩ := val6_split p0 p1 p2 p3 p4 p5
            obtain ⟨loD, hloD, hDs, hDb⟩ := val6_split d0.val d1.val d2.val d3.val d4.val d5.val
            have hlt' := subb_cf_iff t5.val p5; rw [← hq] at hlt'
            have hz' := subb_zf_iff t5.val p5; rw [← hq] at hz'
            have := Bool.toNat_le d5.cf
            simp only [hc, hlt, hz, hbw, Bool.toNat_true, Bool.toNat_false, Bool.false_eq_true, false_iff, true_iff, Nat.not_lt] at hS hD hlt' hz'
            apply mod_of_cases
            · omega
            · omega
          · intro k hk1 hk2
            simp (disch := (clear * - hk1 hk2 room1; omega)) only [setMem_ne]
        · -- it borrows: the sum (already stored) stays
          rw [State.eta s] at hfin
          x86_sym [hst, hpc, hdi, hsi, hdx, hcx, ← ha0, ← ha1, ← ha2, ← ha3, ← ha4, ← ha5, ← hb0, ← hb1, ← hb2, ← hb3, ← hb4, ← hb5, ← hp0, ← hp1, ← hp2, ← hp3, ← hp4, ← hp5, ← ht0, ← ht1, ← ht2, ← ht3, ← ht4, ← ht5, ← hq, ← hd0, ← hd1, ← hd2, ← hd3, ← hd4, ← hd5, hc, hlt, hz, hbw] at hfin
          subst hfin
          refine ⟨⟨rfl, ?_, ?_, ?_, ?_, rfl, rfl, rfl, rfl⟩, ?_, ?_⟩
          · simp only
          · simp only
          · simp only
          · simp only
          · x86_mem
            have hS := add6_val ht0 ht1 ht2 ht3 ht4 ht5
            have hD := sub6_val hd0 hd1 hd2 hd3 hd4 hd5
            obtain ⟨loS, hloS, hSs, hSb⟩ := val6_split t0.val t1.val t2.val t3.val t4.val t5.val
            obtain ⟨loP, hloP, hPs, hPb⟩ := val6_split p0 p1 p2 p3 p4 p5
            obtain ⟨loD, hloD, hDs, hDb⟩ := val6_split d0.val d1.val d2.val d3.val d4.val d5.val
            have hlt' := subb_cf_iff t5.val p5; rw [← hq] at hlt'
            have hz' := subb_zf_iff t5.val p5; rw [← hq] at hz'
            have := Bool.toNat_le d5.cf
            simp only [hc, hlt, hz, hbw, Bool.toNat_true, Bool.toNat_false, Bool.false_eq_true, false_iff, true_iff, Nat.not_lt] at hS hD hlt' hz'
            apply mod_of_cases
            · omega
            · omega
          · intro k hk1 hk2
            simp (disch := (clear * - hk1 hk2 room1; omega)) only [setMem_ne]
    · -- top word of the sum below the top word of p: copy
      rw [State.eta s] at hfin
      x86_sym [hst, hpc, hdi, hsi, hdx, hcx, ← ha0, ← ha1, ← ha2, ← ha3, ← ha4, ← ha5, ← hb0, ← hb1, ← hb2, ← hb3, ← hb4, ← hb5, ← hp0, ← hp1, ← hp2, ← hp3, ← hp4, ← hp5, ← ht0, ← ht1, ← ht2, ← ht3, ← ht4, ← ht5, ← hq, ← hd0, ← hd1, ← hd2, ← hd3, ← hd4, ← hd5, hc, hlt] at hfin
      subst hfin
      refine ⟨⟨rfl, ?_, ?_, ?_, ?_, rfl, rfl, rfl, rfl⟩, ?_, ?_⟩
      · simp only
      · simp only
      · simp only
      · simp only
      · x86_mem
        have hS := add6_val ht0 ht1 ht2 ht3 ht4 ht5
        have hD := sub6_val hd0 hd1 hd2 hd3 hd4 hd5
        obtain ⟨loS, hloS, hSs, hSb⟩ := val6_split t0.val t1.val t2.val t3.val t4.val t5.val
        obtain ⟨loP, hloP, hPs, hPb⟩ := val6_split p0 p1 p2 p3 p4 p5
        obtain ⟨loD, hloD, hDs, hDb⟩ := val6_split d0.val d1.val d2.val d3.val d4.val d5.val
        have hlt' := subb_cf_iff t5.val p5; rw [← hq] at hlt'
        have hz' := subb_zf_iff t5.val p5; rw [← hq] at hz'
        have := Bool.toNat_le d5.cf
        simp only [hc, hlt, Bool.toNat_true, Bool.toNat_false, Bool.false_eq_true, false_iff, true_iff, Nat.not_lt] at hS hD hlt' hz'
        apply mod_of_cases
        · omega
        · omega
      · intro k hk1 hk2
        simp (disch := (clear * - hk1 hk2 room1; omega)) only [setMem_ne]
  · -- carry out of the 384-bit addition: subtract
    rw [State.eta s] at hfin
    x86_sym [hst, hpc, hdi, hsi, hdx, hcx, ← ha0, ← ha1, ← ha2, ← ha3, ← ha4, ← ha5, ← hb0, ← hb1, ← hb2, ← hb3, ← hb4, ← hb5, ← hp0, ← hp1, ← hp2, ← hp3, ← hp4, ← hp5, ← ht0, ← ht1, ← ht2, ← ht3, ← ht4, ← ht5, ← hq, ← hd0, ← hd1, ← hd2, ← hd3, ← hd4, ← hd5, hc] at hfin
    subst hfin
    refine ⟨⟨rfl, ?_, ?_, ?_, ?_, rfl, rfl, rfl, rfl⟩, ?_, ?_⟩
    · simp only
    · simp only
    · simp only
    · simp only
    · x86_mem
      have hS := add6_val ht0 ht1 ht2 ht3 ht4 ht5
      have hD := sub6_val hd0 hd1 hd2 hd3 hd4 hd5
      obtain ⟨loS, hloS, hSs, hSb⟩ := val6_split t0.val t1.val t2.val t3.val t4.val t5.val
      obtain ⟨loP, hloP, hPs, hPb⟩ := val6_split p0 p1 p2 p3 p4 p5
      obtain ⟨loD, hloD, hDs, hDb⟩ := val6_split d0.val d1.val d2.val d3.val d4.val d5.val
      have hlt' := subb_cf_iff t5.val p5; rw [← hq] at hlt'
      have hz' := subb_zf_iff t5.val p5; rw [← hq] at hz'
      have := Bool.toNat_le d5.cf
      simp only [hc, Bool.toNat_true, Bool.toNat_false, Bool.false_eq_true, false_iff, true_iff, Nat.not_lt] at hS hD hlt' hz'
      apply mod_of_cases
      · omega
      · omega
    · intro k hk1 hk2
      simp (disch := (clear * - hk1 hk2 room1; omega)) only [setMem_ne]

/-! ## `fpbase_384_multiply2`  (same five paths; the sum is `a + a`) -/

set_option maxHeartbeats 1600000 in
set_option exponentiation.threshold 500 in
theorem fpbase_384_multiply2_run (s : State) (pr pa pp : Word)
    (hst : s.status = .running) (hpc : s.pc = 0) (hdi : s.rdi = pr) (hsi : s.rsi = pa) (hdx : s.rdx = pp)
    (hr : Buf s pr 6 true) (ha : Buf s pa 6 false) (hp : Buf s pp 6 false)
    (hra : SameOrDisjoint pr pa 6) (hrp : Disjoint pr 6 pp 6)
    (hstk : Stack s 1) (hrs : OffStack s 1 pr 6) (has : OffStack s 1 pa 6) (hps : OffStack s 1 pp 6)
    (hA : val (2 ^ 64) (limbs s.mem pa.toNat 6) < val (2 ^ 64) (limbs s.mem pp.toNat 6)) :
    ∃ s', run embedded_pairing_core_arch_x86_64_fpbase_384_multiply2 s 52 = s' ∧ Returned s s' ∧
      val (2 ^ 64) (limbs s'.mem pr.toNat 6)
        = (2 * val (2 ^ 64) (limbs s.mem pa.toNat 6)) % val (2 ^ 64) (limbs s.mem pp.toNat 6) ∧
      (∀ k, ¬(pr.toNat ≤ k ∧ k < pr.toNat + 48) → ¬(s.rsp.toNat - 8 ≤ k ∧ k < s.rsp.toNat) → s'.mem k = s.mem k) := by
  refine ⟨_, rfl, ?_⟩
  obtain ⟨ra0, ra1, ra2, ra3, ra4, ra5⟩ := ha.r6
  obtain ⟨⟨alra0, alra1, alra2, alra3, alra4, alra5⟩, fra0, fra1, fra2, fra3, fra4, fra5⟩ := ha.addr6
  obtain ⟨rp0, rp1, rp2, rp3, rp4, rp5⟩ := hp.r6
  obtain ⟨⟨alrp0, alrp1, alrp2, alrp3, alrp4, alrp5⟩, frp0, frp1, frp2, frp3, frp4, frp5⟩ := hp.addr6
  obtain ⟨rr0, rr1, rr2, rr3, rr4, rr5⟩ := hr.r6
  obtain ⟨wr0, wr1, wr2, wr3, wr4, wr5⟩ := hr.w6
  obtain ⟨⟨alrr0, alrr1, alrr2, alrr3, alrr4, alrr5⟩, frr0, frr1, frr2, frr3, frr4, frr5⟩ := hr.addr6
  obtain ⟨als0, rs0⟩ := hstk.f0
  obtain ⟨room1, als1, sr1, sw1⟩ := hstk.f1 (by omega)
  replace hra := Hide.mk hra; replace hrp := Hide.mk hrp; replace hrs := Hide.mk hrs
  replace has := Hide.mk has; replace hps := Hide.mk hps
  simp only [SameOrDisjoint, Disjoint, OffStack] at hra hrp hrs has hps
  clear ha hp hr hstk
  generalize hfin : run embedded_pairing_core_arch_x86_64_fpbase_384_multiply2 s 52 = s'
  simp only [limbs_six] at hA ⊢
  obtain ⟨a0, ha0⟩ : ∃ x, x = s.mem (pa.toNat + 0) := ⟨_, rfl⟩
  obtain ⟨a1, ha1⟩ : ∃ x, x = s.mem (pa.toNat + 8) := ⟨_, rfl⟩
  obtain ⟨a2, ha2⟩ : ∃ x, x = s.mem (pa.toNat + 16) := ⟨_, rfl⟩
  obtain ⟨a3, ha3⟩ : ∃ x, x = s.mem (pa.toNat + 24) := ⟨_, rfl⟩
  obtain ⟨a4, ha4⟩ : ∃ x, x = s.mem (pa.toNat + 32) := ⟨_, rfl⟩
  obtain ⟨a5, ha5⟩ : ∃ x, x = s.mem (pa.toNat + 40) := ⟨_, rfl⟩
  obtain ⟨p0, hp0⟩ : ∃ x, x = s.mem (pp.toNat + 0) := ⟨_, rfl⟩
  obtain ⟨p1, hp1⟩ : ∃ x, x = s.mem (pp.toNat + 8) := ⟨_, rfl⟩
  obtain ⟨p2, hp2⟩ : ∃ x, x = s.mem (pp.toNat + 16) := ⟨_, rfl⟩
  obtain ⟨p3, hp3⟩ : ∃ x, x = s.mem (pp.toNat + 24) := ⟨_, rfl⟩
  obtain ⟨p4, hp4⟩ : ∃ x, x = s.mem (pp.toNat + 32) := ⟨_, rfl⟩
  obtain ⟨p5, hp5⟩ : ∃ x, x = s.mem (pp.toNat + 40) := ⟨_, rfl⟩
  simp only [← ha0, ← ha1, ← ha2, ← ha3, ← ha4, ← ha5, ← hp0, ← hp1, ← hp2, ← hp3, ← hp4, ← hp5] at hA ⊢
  obtain ⟨t0, ht0⟩ : ∃ x, x = addc .q a0 a0 false := ⟨_, rfl⟩
  obtain ⟨t1, ht1⟩ : ∃ x, x = addc .q a1 a1 t0.cf := ⟨_, rfl⟩
  obtain ⟨t2, ht2⟩ : ∃ x, x = addc .q a2 a2 t1.cf := ⟨_, rfl⟩
  obtain ⟨t3, ht3⟩ : ∃ x, x = addc .q a3 a3 t2.cf := ⟨_, rfl⟩
  obtain ⟨t4, ht4⟩ : ∃ x, x = addc .q a4 a4 t3.cf := ⟨_, rfl⟩
  obtain ⟨t5, ht5⟩ : ∃ x, x = addc .q a5 a5 t4.cf := ⟨_, rfl⟩
  obtain ⟨q, hq⟩ : ∃ x, x = subb .q t5.val p5 false := ⟨_, rfl⟩
  obtain ⟨d0, hd0⟩ : ∃ x, x = subb .q t0.val p0 false := ⟨_, rfl⟩
  obtain ⟨d1, hd1⟩ : ∃ x, x = subb .q t1.val p1 d0.cf := ⟨_, rfl⟩
  obtain ⟨d2, hd2⟩ : ∃ x, x = subb .q t2.val p2 d1.cf := ⟨_, rfl⟩
  obtain ⟨d3, hd3⟩ : ∃ x, x = subb .q t3.val p3 d2.cf := ⟨_, rfl⟩
  obtain ⟨d4, hd4⟩ : ∃ x, x = subb .q t4.val p4 d3.cf := ⟨_, rfl⟩
  obtain ⟨d5, hd5⟩ : ∃ x, x = subb .q t5.val p5 d4.cf := ⟨_, rfl⟩
  cases hc : t5.cf
  · cases hlt : q.cf
    · cases hz : q.zf
      · -- top word of the double above the top word of p: subtract
        rw [State.eta s] at hfin
        x86_sym [hst, hpc, hdi, hsi, hdx, ← ha0, ← ha1, ← ha2, ← ha3, ← ha4, ← ha5, ← hp0, ← hp1, ← hp2, ← hp3, ← hp4, ← hp5, ← ht0, ← ht1, ← ht2, ← ht3, ← ht4, ← ht5, ← hq, ← hd0, ← hd1, ← hd2, ← hd3, ← hd4, ← hd5, hc, hlt, hz] at hfin
        subst hfin
        refine ⟨⟨rfl, ?_, ?_, ?_, rfl, rfl, rfl, rfl, rfl⟩, ?_, ?_⟩
        · simp only
        · simp only
        · simp only
        · x86_mem
          have hS := add6_val ht0 ht1 ht2 ht3 ht4 ht5
          have hD := sub6_val hd0 hd1 hd2 hd3 hd4 hd5
          obtain ⟨loS, hloS, hSs, hSb⟩ := val6_split t0.val t1.val t2.val t3.val t4.val t5.val
          obtain ⟨loP, hloP, hPs, hPb⟩ := val6_split p0 p1 p2 p3 p4 p5
          obtain ⟨loD, hloD, hDs, hDb⟩ := val6_split d0.val d1.val d2.val d3.val d4.val d5.val
          have hlt' := subb_cf_iff t5.val p5; rw [← hq] at hlt'
          have hz' := subb_zf_iff t5.val p5; rw [← hq] at hz'
          have := Bool.toNat_le d5.cf
          simp only [hc, hlt, hz, Bool.toNat_true, Bool.toNat_false, Bool.false_eq_true, false_iff, true_iff, Nat.not_lt] at hS hD hlt' hz'
          apply mod_of_cases
          · omega
          · omega
        · intro k hk1 hk2
          simp (disch := (clear * - hk1 hk2 room1; omega)) only [setMem_ne]
      · -- tie on the top word
        cases hbw : d5.cf
        · -- the full subtraction does not borrow: store the difference
          rw [State.eta s] at hfin
          x86_sym [hst, hpc, hdi, hsi, hdx, ← ha0, ← ha1, ← ha2, ← ha3, ← ha4, ← ha5, ← hp0, ← hp1, ← hp2, ← hp3, ← hp4, ← hp5, ← ht0, ← ht1, ← ht2, ← ht3, ← ht4, ← ht5, ← hq, ← hd0, ← hd1, ← hd2, ← hd3, ← hd4, ← hd5, hc, hlt, hz, hbw] at hfin
          subst hfin
          refine ⟨⟨rfl, ?_, ?_, ?_, rfl, rfl, rfl, rfl, rfl⟩, ?_, ?_⟩
          · simp only
          · simp only
          · simp only
          · x86_mem
            have hS := add6_val ht0 ht1 ht2 ht3 ht4 ht5
            have hD := sub6_val hd0 hd1 hd2 hd3 hd4 hd5
            obtain ⟨loS, hloS, hSs, hSb⟩ := val6_split t0.val t1.val t2.val t3.val t4.val t5.val
            obtain ⟨loP, hloP, hPs, hPb⟩ := val6_split p0 p1 p2 p3 p4 p5
            obtain ⟨loD, hloD, hDs, hDb⟩ := val6_split d0.val d1.val d2.val d3.val d4.val d5.val
            have hlt' := subb_cf_iff t5.val p5; rw [← hq] at hlt'
            have hz' := subb_zf_iff t5.val p5; rw [← hq] at hz'
            have := Bool.toNat_le d5.cf
            simp only [hc, hlt, hz, hbw, Bool.toNat_true, Bool.toNat_false, Bool.false_eq_true, false_iff, true_iff, Nat.not_lt] at hS hD hlt' hz'
            apply mod_of_cases
            · omega
            · omega
          · intro k hk1 hk2
            simp (disch := (clear * - hk1 hk2 room1; omega)) only [setMem_ne]
        · -- it borrows: the double (already stored) stays
          rw [State.eta s] at hfin
          x86_sym [hst, hpc, hdi, hsi, hdx, ← ha0, ← ha1, ← ha2, ← ha3, ← ha4, ← ha5, ← hp0, ← hp1, ← hp2, ← hp3, ← hp4, ← hp5, ← ht0, ← ht1, ← ht2, ← ht3, ← ht4, ← ht5, ← hq, ← hd0, ← hd1, ← hd2, ← hd3, ← hd4, ← hd5, hc, hlt, hz, hbw] at hfin
          subst hfin
          refine ⟨⟨rfl, ?_, ?_, ?_, rfl, rfl, rfl, rfl, rfl⟩, ?_, ?_⟩
          · simp only
          · simp only
          · simp only
          · x86_mem
            have hS := add6_val ht0 ht1 ht2 ht3 ht4 ht5
            have hD := sub6_val hd0 hd1 hd2 hd3 hd4 hd5
            obtain ⟨loS, hloS, hSs, hSb⟩ := val6_split t0.val t1.val t2.val t3.val t4.val t5.val
            obtain ⟨loP, hloP, hPs, hPb⟩ := val6_split p0 p1 p2 p3 p4 p5
            obtain ⟨loD, hloD, hDs, hDb⟩ := val6_split d0.val d1.val d2.val d3.val d4.val d5.val
            have hlt' := subb_cf_iff t5.val p5; rw [← hq] at hlt'
            have hz' := subb_zf_iff t5.val p5; rw [← hq] at hz'
            have := Bool.toNat_le d5.cf
            simp only [hc, hlt, hz, hbw, Bool.toNat_true, Bool.toNat_false, Bool.false_eq_true, false_iff, true_iff, Nat.not_lt] at hS hD hlt' hz'
            apply mod_of_cases
            · omega
            · omega
          · intro k hk1 hk2
            simp (disch := (clear * - hk1 hk2 room1; omega)) only [setMem_ne]
    · -- top word of the double below the top word of p: copy
      rw [State.eta s] at hfin
      x86_sym [hst, hpc, hdi, hsi, hdx, ← ha0, ← ha1, ← ha2, ← ha3, ← ha4, ← ha5, ← hp0, ← hp1, ← hp2, ← hp3, ← hp4, ← hp5, ← ht0, ← ht1, ← ht2, ← ht3, ← ht4, ← ht5, ← hq, ← hd0, ← hd1, ← hd2, ← hd3, ← hd4, ← hd5, hc, hlt] at hfin
      subst hfin
      refine ⟨⟨rfl, ?_, ?_, ?_, rfl, rfl, rfl, rfl, rfl⟩, ?_, ?_⟩
      · simp only
      · simp only
      · simp only
      · x86_mem
        have hS := add6_val ht0 ht1 ht2 ht3 ht4 ht5
        have hD := sub6_val hd0 hd1 hd2 hd3 hd4 hd5
        obtain ⟨loS, hloS, hSs, hSb⟩ := val6_split t0.val t1.val t2.val t3.val t4.val t5.val
        obtain ⟨loP, hloP, hPs, hPb⟩ := val6_split p0 p1 p2 p3 p4 p5
        obtain ⟨loD, hloD, hDs, hDb⟩ := val6_split d0.val d1.val d2.val d3.val d4.val d5.val
        have hlt' := subb_cf_iff t5.val p5; rw [← hq] at hlt'
        have hz' := subb_zf_iff t5.val p5; rw [← hq] at hz'
        have := Bool.toNat_le d5.cf
        simp only [hc, hlt, Bool.toNat_true, Bool.toNat_false, Bool.false_eq_true, false_iff, true_iff, Nat.not_lt] at hS hD hlt' hz'
        apply mod_of_cases
        · omega
        · omega
      · intro k hk1 hk2
        simp (disch := (clear * - hk1 hk2 room1; omega)) only [setMem_ne]
  · -- carry out of the 384-bit doubling: subtract
    rw [State.eta s] at hfin
    x86_sym [hst, hpc, hdi, hsi, hdx, ← ha0, ← ha1, ← ha2, ← ha3, ← ha4, ← ha5, ← hp0, ← hp1, ← hp2, ← hp3, ← hp4, ← hp5, ← ht0, ← ht1, ← ht2, ← ht3, ← ht4, ← ht5, ← hq, ← hd0, ← hd1, ← hd2, ← hd3, ← hd4, ← hd5, hc] at hfin
    subst hfin
    refine ⟨⟨rfl, ?_, ?_, ?_, rfl, rfl, rfl, rfl, rfl⟩, ?_, ?_⟩
    · simp only
    · simp only
    · simp only
    · x86_mem
      have hS := add6_val ht0 ht1 ht2 ht3 ht4 ht5
      have hD := sub6_val hd0 hd1 hd2 hd3 hd4 hd5
      obtain ⟨loS, hloS, hSs, hSb⟩ := val6_split t0.val t1.val t2.val t3.val t4.val t5.val
      obtain ⟨loP, hloP, hPs, hPb⟩ := val6_split p0 p1 p2 p3 p4 p5
      obtain ⟨loD, hloD, hDs, hDb⟩ := val6_split d0.val d1.val d2.val d3.val d4.val d5.val
      have hlt' := subb_cf_iff t5.val p5; rw [← hq] at hlt'
      have hz' := subb_zf_iff t5.val p5; rw [← hq] at hz'
      have := Bool.toNat_le d5.cf
      simp only [hc, Bool.toNat_true, Bool.toNat_false, Bool.false_eq_true, false_iff, true_iff, Nat.not_lt] at hS hD hlt' hz'
      apply mod_of_cases
      · omega
      · omega
    · intro k hk1 hk2
      simp (disch := (clear * - hk1 hk2 room1; omega)) only [setMem_ne]

/-! ## `fpbase_384_subtract`  (two paths: no borrow — copy; borrow — add `p` back) -/

set_option maxHeartbeats 1600000 in
set_option exponentiation.threshold 500 in
theorem fpbase_384_subtract_run (s : State) (pr pa pb pp : Word)
    (hst : s.status = .running) (hpc : s.pc = 0) (hdi : s.rdi = pr) (hsi : s.rsi = pa) (hdx : s.rdx = pb) (hcx : s.rcx = pp)
    (hr : Buf s pr 6 true) (ha : Buf s pa 6 false) (hb : Buf s pb 6 false) (hp : Buf s pp 6 false)
    (hra : SameOrDisjoint pr pa 6) (hrb : SameOrDisjoint pr pb 6) (hrp : Disjoint pr 6 pp 6)
    (hstk : Stack s 2) (hrs : OffStack s 2 pr 6) (has : OffStack s 2 pa 6) (hbs : OffStack s 2 pb 6)
    (hps : OffStack s 2 pp 6)
    (hA : val (2 ^ 64) (limbs s.mem pa.toNat 6) < val (2 ^ 64) (limbs s.mem pp.toNat 6))
    (hB : val (2 ^ 64) (limbs s.mem pb.toNat 6) < val (2 ^ 64) (limbs s.mem pp.toNat 6)) :
    ∃ s', run embedded_pairing_core_arch_x86_64_fpbase_384_subtract s 39 = s' ∧ Returned s s' ∧
      val (2 ^ 64) (limbs s'.mem pr.toNat 6)
        = (val (2 ^ 64) (limbs s.mem pa.toNat 6) + val (2 ^ 64) (limbs s.mem pp.toNat 6)
            - val (2 ^ 64) (limbs s.mem pb.toNat 6)) % val (2 ^ 64) (limbs s.mem pp.toNat 6) ∧
      (∀ k, ¬(pr.toNat ≤ k ∧ k < pr.toNat + 48) → ¬(s.rsp.toNat - 16 ≤ k ∧ k < s.rsp.toNat) → s'.mem k = s.mem k) := by
  refine ⟨_, rfl, ?_⟩
  obtain ⟨ra0, ra1, ra2, ra3, ra4, ra5⟩ := ha.r6
  obtain ⟨⟨alra0, alra1, alra2, alra3, alra4, alra5⟩, fra0, fra1, fra2, fra3, fra4, fra5⟩ := ha.addr6
  obtain ⟨rb0, rb1, rb2, rb3, rb4, rb5⟩ := hb.r6
  obtain ⟨⟨alrb0, alrb1, alrb2, alrb3, alrb4, alrb5⟩, frb0, frb1, frb2, frb3, frb4, frb5⟩ := hb.addr6
  obtain ⟨rp0, rp1, rp2, rp3, rp4, rp5⟩ := hp.r6
  obtain ⟨⟨alrp0, alrp1, alrp2, alrp3, alrp4, alrp5⟩, frp0, frp1, frp2, frp3, frp4, frp5⟩ := hp.addr6
  obtain ⟨rr0, rr1, rr2, rr3, rr4, rr5⟩ := hr.r6
  obtain ⟨wr0, wr1, wr2, wr3, wr4, wr5⟩ := hr.w6
  obtain ⟨⟨alrr0, alrr1, alrr2, alrr3, alrr4, alrr5⟩, frr0, frr1, frr2, frr3, frr4, frr5⟩ := hr.addr6
  obtain ⟨als0, rs0⟩ := hstk.f0
  obtain ⟨room1, als1, sr1, sw1⟩ := hstk.f1 (by omega)
  obtain ⟨room2, als2, sr2, sw2⟩ := hstk.f2 (by omega)
  replace hra := Hide.mk hra; replace hrb := Hide.mk hrb; replace hrp := Hide.mk hrp; replace hrs := Hide.mk hrs
  replace has := Hide.mk has; replace hbs := Hide.mk hbs; replace hps := Hide.mk hps
  simp only [SameOrDisjoint, Disjoint, OffStack] at hra hrb hrp hrs has hbs hps
  clear ha hb hp hr hstk
  generalize hfin : run embedded_pairing_core_arch_x86_64_fpbase_384_subtract s 39 = s'
  simp only [limbs_six] at hA hB ⊢
  obtain ⟨a0, ha0⟩ : ∃ x, x = s.mem (pa.toNat + 0) := ⟨_, rfl⟩
  obtain ⟨a1, ha1⟩ : ∃ x, x = s.mem (pa.toNat + 8) := ⟨_, rfl⟩
  obtain ⟨a2, ha2⟩ : ∃ x, x = s.mem (pa.toNat + 16) := ⟨_, rfl⟩
  obtain ⟨a3, ha3⟩ : ∃ x, x = s.mem (pa.toNat + 24) := ⟨_, rfl⟩
  obtain ⟨a4, ha4⟩ : ∃ x, x = s.mem (pa.toNat + 32) := ⟨_, rfl⟩
  obtain ⟨a5, ha5⟩ : ∃ x, x = s.mem (pa.toNat + 40) := ⟨_, rfl⟩
  obtain ⟨b0, hb0⟩ : ∃ x, x = s.mem (pb.toNat + 0) := ⟨_, rfl⟩
  obtain ⟨b1, hb1⟩ : ∃ x, x = s.mem (pb.toNat + 8) := ⟨_, rfl⟩
  obtain ⟨b2, hb2⟩ : ∃ x, x = s.mem (pb.toNat + 16) := ⟨_, rfl⟩
  obtain ⟨b3, hb3⟩ : ∃ x, x = s.mem (pb.toNat + 24) := ⟨_, rfl⟩
  obtain ⟨b4, hb4⟩ : ∃ x, x = s.mem (pb.toNat + 32) := ⟨_, rfl⟩
  obtain ⟨b5, hb5⟩ : ∃ x, x = s.mem (pb.toNat + 40) := ⟨_, rfl⟩
  obtain ⟨p0, hp0⟩ : ∃ x, x = s.mem (pp.toNat + 0) := ⟨_, rfl⟩
  obtain ⟨p1, hp1⟩ : ∃ x, x = s.mem (pp.toNat + 8) := ⟨_, rfl⟩
  obtain ⟨p2, hp2⟩ : ∃ x, x = s.mem (pp.toNat + 16) := ⟨_, rfl⟩
  obtain ⟨p3, hp3⟩ : ∃ x, x = s.mem (pp.toNat + 24) := ⟨_, rfl⟩
  obtain ⟨p4, hp4⟩ : ∃ x, x = s.mem (pp.toNat + 32) := ⟨_, rfl⟩
  obtain ⟨p5, hp5⟩ : ∃ x, x = s.mem (pp.toNat + 40) := ⟨_, rfl⟩
  simp only [← ha0, ← ha1, ← ha2, ← ha3, ← ha4, ← ha5, ← hb0, ← hb1, ← hb2, ← hb3, ← hb4, ← hb5, ← hp0, ← hp1, ← hp2, ← hp3, ← hp4, ← hp5] at hA hB ⊢
  obtain ⟨t0, ht0⟩ : ∃ x, x = subb .q a0 b0 false := ⟨_, rfl⟩
  obtain ⟨t1, ht1⟩ : ∃ x, x = subb .q a1 b1 t0.cf := ⟨_, rfl⟩
  obtain ⟨t2, ht2⟩ : ∃ x, x = subb .q a2 b2 t1.cf := ⟨_, rfl⟩
  obtain ⟨t3, ht3⟩ : ∃ x, x = subb .q a3 b3 t2.cf := ⟨_, rfl⟩
  obtain ⟨t4, ht4⟩ : ∃ x, x = subb .q a4 b4 t3.cf := ⟨_, rfl⟩
  obtain ⟨t5, ht5⟩ : ∃ x, x = subb .q a5 b5 t4.cf := ⟨_, rfl⟩
  obtain ⟨u0, hu0⟩ : ∃ x, x = addc .q t0.val p0 false := ⟨_, rfl⟩
  obtain ⟨u1, hu1⟩ : ∃ x, x = addc .q t1.val p1 u0.cf := ⟨_, rfl⟩
  obtain ⟨u2, hu2⟩ : ∃ x, x = addc .q t2.val p2 u1.cf := ⟨_, rfl⟩
  obtain ⟨u3, hu3⟩ : ∃ x, x = addc .q t3.val p3 u2.cf := ⟨_, rfl⟩
  obtain ⟨u4, hu4⟩ : ∃ x, x = addc .q t4.val p4 u3.cf := ⟨_, rfl⟩
  obtain ⟨u5, hu5⟩ : ∃ x, x = addc .q t5.val p5 u4.cf := ⟨_, rfl⟩
  cases hc : t5.cf
  · -- no borrow: the difference is the result
    rw [State.eta s] at hfin
    x86_sym [hst, hpc, hdi, hsi, hdx, hcx, ← ha0, ← ha1, ← ha2, ← ha3, ← ha4, ← ha5, ← hb0, ← hb1, ← hb2, ← hb3, ← hb4, ← hb5, ← hp0, ← hp1, ← hp2, ← hp3, ← hp4, ← hp5, ← ht0, ← ht1, ← ht2, ← ht3, ← ht4, ← ht5, ← hu0, ← hu1, ← hu2, ← hu3, ← hu4, ← hu5, hc] at hfin
    subst hfin
    refine ⟨⟨rfl, ?_, ?_, ?_, ?_, rfl, rfl, rfl, rfl⟩, ?_, ?_⟩
    · simp only
    · simp only
    · simp only
    · simp only
    · x86_mem
      have hT := sub6_val ht0 ht1 ht2 ht3 ht4 ht5
      have hU := add6_val hu0 hu1 hu2 hu3 hu4 hu5
      obtain ⟨loT, hloT, hTs, hTb⟩ := val6_split t0.val t1.val t2.val t3.val t4.val t5.val
      obtain ⟨loU, hloU, hUs, hUb⟩ := val6_split u0.val u1.val u2.val u3.val u4.val u5.val
      obtain ⟨loP, hloP, hPs, hPb⟩ := val6_split p0 p1 p2 p3 p4 p5
      have := Bool.toNat_le u5.cf
      simp only [hc, Bool.toNat_true, Bool.toNat_false] at hT hU
      apply mod_of_cases
      · omega
      · omega
    · intro k hk1 hk2
      simp (disch := (clear * - hk1 hk2 room1; omega)) only [setMem_ne]
  · -- borrow: add p back
    rw [State.eta s] at hfin
    x86_sym [hst, hpc, hdi, hsi, hdx, hcx, ← ha0, ← ha1, ← ha2, ← ha3, ← ha4, ← ha5, ← hb0, ← hb1, ← hb2, ← hb3, ← hb4, ← hb5, ← hp0, ← hp1, ← hp2, ← hp3, ← hp4, ← hp5, ← ht0, ← ht1, ← ht2, ← ht3, ← ht4, ← ht5, ← hu0, ← hu1, ← hu2, ← hu3, ← hu4, ← hu5, hc] at hfin
    subst hfin
    refine ⟨⟨rfl, ?_, ?_, ?_, ?_, rfl, rfl, rfl, rfl⟩, ?_, ?_⟩
    · simp only
    · simp only
    · simp only
    · simp only
    · x86_mem
      have hT := sub6_val ht0 ht1 ht2 ht3 ht4 ht5
      have hU := add6_val hu0 hu1 hu2 hu3 hu4 hu5
      obtain ⟨loT, hloT, hTs, hTb⟩ := val6_split t0.val t1.val t2.val t3.val t4.val t5.val
      obtain ⟨loU, hloU, hUs, hUb⟩ := val6_split u0.val u1.val u2.val u3.val u4.val u5.val
      obtain ⟨loP, hloP, hPs, hPb⟩ := val6_split p0 p1 p2 p3 p4 p5
      have := Bool.toNat_le u5.cf
      simp only [hc, Bool.toNat_true, Bool.toNat_false] at hT hU
      apply mod_of_cases
      · omega
      · omega
    · intro k hk1 hk2
      simp (disch := (clear * - hk1 hk2 room1; omega)) only [setMem_ne]

/-! ## `cpu_supports_bmi2_adx`  (run-time selection of the BMI2/ADX family)

`cpuid` is an oracle of the state; the routine returns 1 exactly when bits 8 (BMI2) and 19 (ADX) of
ebx of leaf 7, sub-leaf 0 are both set, else 0. -/

theorem cpu_supports_bmi2_adx_run (s : State) (hst : s.status = .running) (hpc : s.pc = 0) (hstk : Stack s 1) :
    ∃ s', run embedded_pairing_core_arch_x86_64_cpu_supports_bmi2_adx s 13 = s' ∧ Returned s s' ∧
      s'.rax.toNat = (if (s.cpuidFn 7 0).2.1.testBit 8 && (s.cpuidFn 7 0).2.1.testBit 19 then 1 else 0) := by
  refine ⟨_, rfl, ?_⟩
  obtain ⟨als0, rs0⟩ := hstk.f0
  obtain ⟨room1, als1, sr1, sw1⟩ := hstk.f1 (by omega)
  clear hstk
  generalize hfin : run embedded_pairing_core_arch_x86_64_cpu_supports_bmi2_adx s 13 = s'
  rcases hcp : s.cpuidFn 7 0 with ⟨a, b, c, d⟩
  rw [State.eta s] at hfin
  x86_sym [hst, hpc, logic, Width.bits, BitVec.toNat_ofNat, Nat.reducePow, Nat.reduceMod, BitVec.xor_self, hcp,
    Nat.zero_mod] at hfin
  subst hfin
  have tb : ∀ i, i < 32 →
      (b % 4294967296 % 18446744073709551616 % 4294967296 % 18446744073709551616).testBit i = b.testBit i := by
    intro i hi
    rw [show (4294967296 : Nat) = 2 ^ 32 from rfl, show (18446744073709551616 : Nat) = 2 ^ 64 from rfl]
    have h64 : i < 64 := by omega
    simp only [Nat.testBit_mod_two_pow, hi, h64, decide_true, Bool.true_and]
  refine ⟨⟨rfl, ?_, rfl, ?_, rfl, rfl, rfl, rfl, rfl⟩, ?_⟩
  · simp only
  · simp only
  · simp only [tb 8 (by omega), tb 19 (by omega)]
    cases b.testBit 8 <;> cases b.testBit 19 <;> rfl

end Jedi.X86
