/-
C09 / C15: square roots, `get_point_from_x`, the compressed point encoding and the marshalling round trips.

* Euler's criterion and the two square-root routines: `Fq.sqrt` (`a^((q+1)/4)`, q ≡ 3 mod 4) and the model `fq2Sqrt` of
  `Fq2::square_root` ("complex method") return a root of every square; Legendre symbols characterise squares.
* `get_point_from_x` (`fromX`), generic in the field record: validating calls return a point of the curve above the
  given abscissa with the requested sign bit; every curve point is reachable from its own abscissa and sign bit.
* compressed round trip `decode (encode P) = P` (validating and not), and canonicity: validating decode accepts exactly
  the encoder's output (`decodeChecked = decodeCanonical` in both forms).
* the marshalling round trips built on them.  The unmarshalling models (`unmarshalParams`, `unmarshalKey`,
  `unmarshalCt`, `unmarshalSig`, `unmarshalMsk`, `fq12OfBytes`, and `marshalCt`/`marshalSig`/`marshalMsk`) are defined
  in `Impl/Marshal.lean`; the differential judge (`Driver/Judge6.lean`) parses marshalled buffers with exactly those
  definitions (over `canonicalDecoders`, proved here to give the same results as `checkedDecoders`), which ties them
  to the C++ by the correspondence check.
Closed facts (q mod 4, non-cube tests `(−b)^((|K|−1)/3) ≠ 1`, …) are checked by kernel evaluation.
-/
import JediVerif.Proofs.FqTower
import JediVerif.Proofs.MarshalProofs
import Mathlib.FieldTheory.Finite.Basic
import Mathlib.Tactic.LinearCombination
import Mathlib.Tactic.FieldSimp

namespace Jedi

/-! ## Abstract part: Euler's criterion and the two square-root algorithms over a finite field -/
section AbstractSqrt
variable {K : Type} [Field K] [Fintype K]

theorem ringChar_ne_two_of_odd_card (h : Fintype.card K % 2 = 1) : ringChar K ≠ 2 := by
  intro h2
  have := FiniteField.even_card_of_char_two h2
  omega

omit [Fintype K] in
theorem eq_or_eq_neg_of_mul_self {y s : K} (h : y * y = s * s) : y = s ∨ y = -s :=
  mul_self_eq_mul_self_iff.mp h

/-- Euler's criterion, non-zero case. -/
theorem euler_one_iff (hodd : Fintype.card K % 2 = 1) {a : K} (ha : a ≠ 0) :
    a ^ (Fintype.card K / 2) = 1 ↔ IsSquare a :=
  (FiniteField.isSquare_iff (ringChar_ne_two_of_odd_card hodd) ha).symm

theorem euler_dichotomy (hodd : Fintype.card K % 2 = 1) {a : K} (ha : a ≠ 0) :
    a ^ (Fintype.card K / 2) = 1 ∨ a ^ (Fintype.card K / 2) = -1 :=
  FiniteField.pow_dichotomy (ringChar_ne_two_of_odd_card hodd) ha

theorem euler_zero (hcard : 2 ≤ Fintype.card K) : (0 : K) ^ (Fintype.card K / 2) = 0 :=
  zero_pow (by omega)

omit [Fintype K] in
theorem neg_one_ne_one_of_two_ne (h2 : (2 : K) ≠ 0) : (-1 : K) ≠ 1 := by
  intro h; apply h2; linear_combination -h

theorem two_ne_zero_of_odd_card (hodd : Fintype.card K % 2 = 1) : (2 : K) ≠ 0 := by
  have := ringChar_ne_two_of_odd_card hodd
  exact Ring.two_ne_zero this

/-- `a^(card/2) = -1` iff `a` is a non-square. -/
theorem euler_neg_one_iff (hodd : Fintype.card K % 2 = 1) (hcard : 2 ≤ Fintype.card K) (a : K) :
    a ^ (Fintype.card K / 2) = -1 ↔ ¬ IsSquare a := by
  have h2 := two_ne_zero_of_odd_card hodd
  by_cases ha : a = 0
  · subst ha
    rw [euler_zero hcard]
    constructor
    · intro h; exfalso; have : (1 : K) = 0 := by linear_combination h
      exact one_ne_zero this
    · intro h; exact absurd (IsSquare.zero) h
  · rw [← euler_one_iff hodd ha]
    rcases euler_dichotomy hodd ha with h | h <;> rw [h]
    · simp [neg_one_ne_one_of_two_ne h2 |>.symm]
    · simp [neg_one_ne_one_of_two_ne h2]

/-- Euler's criterion, all three cases, for `E = a^(card/2)`. -/
theorem euler_cases (hodd : Fintype.card K % 2 = 1) (hcard : 2 ≤ Fintype.card K) (a : K) :
    (a ^ (Fintype.card K / 2) = 0 ↔ a = 0) ∧
    (a ^ (Fintype.card K / 2) = 1 ↔ a ≠ 0 ∧ IsSquare a) ∧
    ((a ^ (Fintype.card K / 2) ≠ 0 ∧ a ^ (Fintype.card K / 2) ≠ 1) ↔ ¬ IsSquare a) := by
  have h2 := two_ne_zero_of_odd_card hodd
  have hz : a ^ (Fintype.card K / 2) = 0 ↔ a = 0 := pow_eq_zero_iff (by omega)
  refine ⟨hz, ?_, ?_⟩
  · by_cases ha : a = 0
    · subst ha
      rw [euler_zero hcard]
      exact ⟨fun h => absurd h zero_ne_one, fun h => absurd rfl h.1⟩
    · rw [euler_one_iff hodd ha]
      exact ⟨fun h => ⟨ha, h⟩, fun h => h.2⟩
  · rw [← euler_neg_one_iff hodd hcard]
    constructor
    · rintro ⟨h0, h1⟩
      have ha : a ≠ 0 := fun h => h0 (hz.mpr h)
      rcases euler_dichotomy hodd ha with h | h
      · exact absurd h h1
      · exact h
    · intro h
      rw [h]
      exact ⟨neg_ne_zero.mpr one_ne_zero, neg_one_ne_one_of_two_ne h2⟩

/-- the `p ≡ 3 (mod 4)` square root `a ↦ a^((p+1)/4)` in a field of `p` elements. -/
theorem sqrt34_mul_self {p : Nat} (hcard : Fintype.card K = p) (h4 : p % 4 = 3) {a : K} (ha : IsSquare a) :
    a ^ ((p + 1) / 4) * a ^ ((p + 1) / 4) = a := by
  by_cases h0 : a = 0
  · subst h0
    rw [zero_pow (by omega), zero_mul]
  · have hodd : Fintype.card K % 2 = 1 := by omega
    have he := (euler_one_iff hodd h0).mpr ha
    rw [hcard] at he
    have e : (p + 1) / 4 + (p + 1) / 4 = p / 2 + 1 := by omega
    rw [← pow_add, e, pow_succ, he, one_mul]

omit [Fintype K] in
/-- the "complex method" for `p ≡ 3 (mod 4)` in a field of `p²` elements, in the form coded in `Fq2::square_root`:
with `a1 = a^((p-3)/4)`, `α = a1² a`, `x0 = a1 a`: if `α = −1` then `(x0 i)² = a`; otherwise
`x = x0 (α+1)^((p-1)/2)` satisfies `x² (α+1) = a (α + a^((p²−1)/2))`. -/
theorem complex_sqrt (p : Nat) [Fact p.Prime] [CharP K p] (h4 : p % 4 = 3)
    (i : K) (hi : i * i = -1) (a : K) :
    let a1 := a ^ ((p - 3) / 4)
    let alpha := a1 * a1 * a
    let x0 := a1 * a
    (alpha = -1 → (x0 * i) * (x0 * i) = a) ∧
    ((x0 * (alpha + 1) ^ ((p - 1) / 2)) * (x0 * (alpha + 1) ^ ((p - 1) / 2)) * (alpha + 1) =
        a * (alpha + a ^ ((p ^ 2 - 1) / 2))) := by
  intro a1 alpha x0
  have hx0 : x0 * x0 = alpha * a := by simp only [x0, alpha]; ring
  constructor
  · intro h
    calc x0 * i * (x0 * i) = (x0 * x0) * (i * i) := by ring
      _ = a := by rw [hx0, hi, h]; ring
  · have halpha : alpha = a ^ ((p - 1) / 2) := by
      simp only [alpha, a1]
      rw [← pow_add, ← pow_succ]
      congr 1; omega
    have hpow : alpha ^ (p + 1) = a ^ ((p ^ 2 - 1) / 2) := by
      rw [halpha, ← pow_mul]
      congr 1
      obtain ⟨k, rfl⟩ : ∃ k, p = 4 * k + 3 := ⟨p / 4, by omega⟩
      have e1 : (4 * k + 3 - 1) / 2 = 2 * k + 1 := by omega
      have e2 : (4 * k + 3) ^ 2 - 1 = 2 * ((2 * k + 1) * (4 * k + 3 + 1)) := by
        have : (4 * k + 3) ^ 2 = 2 * ((2 * k + 1) * (4 * k + 3 + 1)) + 1 := by ring
        omega
      rw [e1, e2, Nat.mul_div_cancel_left _ (by norm_num : 0 < 2)]
    have hfrob : (alpha + 1) ^ p = alpha ^ p + 1 := by rw [add_pow_char, one_pow]
    have hb : (alpha + 1) ^ ((p - 1) / 2) * (alpha + 1) ^ ((p - 1) / 2) * (alpha + 1) = (alpha + 1) ^ p := by
      rw [← pow_add, ← pow_succ]
      congr 1; omega
    calc x0 * (alpha + 1) ^ ((p - 1) / 2) * (x0 * (alpha + 1) ^ ((p - 1) / 2)) * (alpha + 1)
        = (x0 * x0) * ((alpha + 1) ^ ((p - 1) / 2) * (alpha + 1) ^ ((p - 1) / 2) * (alpha + 1)) := by ring
      _ = alpha * a * (alpha ^ p + 1) := by rw [hx0, hb, hfrob]
      _ = a * (alpha + alpha ^ (p + 1)) := by rw [pow_succ]; ring
      _ = _ := by rw [hpow]

end AbstractSqrt
end Jedi

namespace Jedi
open Jedi.Impl

/-! ## `Fq`: Euler's criterion, `Fq.sqrt` -/
section ConcreteFq

theorem q_mod_four : q % 4 = 3 := by decide +kernel
theorem q_half : (q - 1) / 2 = q / 2 := by decide +kernel
theorem Fq.card_odd : Fintype.card Fq % 2 = 1 := by rw [Fq.card]; decide +kernel
theorem Fq.two_le_card : 2 ≤ Fintype.card Fq := by rw [Fq.card]; decide +kernel

/-- the Euler power computed by `finLegendre` -/
theorem Fq.euler_npow (a : Fq) : npow a ((q - 1) / 2) = a ^ (Fintype.card Fq / 2) := by
  rw [Fq.card, ← q_half]; exact npow_eq_pow a _

theorem Fq.sqrt_eq_pow (a : Fq) : Fq.sqrt a = a ^ ((q + 1) / 4) := npow_eq_pow a _

/-- **`Fq.sqrt` returns a square root of every square** (q ≡ 3 mod 4). -/
theorem Fq.sqrt_mul_self {a : Fq} (h : IsSquare a) : Fq.sqrt a * Fq.sqrt a = a := by
  rw [Fq.sqrt_eq_pow]; exact sqrt34_mul_self Fq.card q_mod_four h

theorem Fq.sqrt_sq {a : Fq} (h : IsSquare a) : (Fq.sqrt a) ^ 2 = a := by
  rw [pow_two]; exact Fq.sqrt_mul_self h

/-- … and of nothing else. -/
theorem Fq.sqrt_sq_ne {a : Fq} (h : ¬ IsSquare a) : (Fq.sqrt a) ^ 2 ≠ a := by
  intro e; exact h ⟨Fq.sqrt a, by rw [← pow_two, e]⟩

theorem Fq.sqrt_sq_iff (a : Fq) : (Fq.sqrt a) ^ 2 = a ↔ IsSquare a :=
  ⟨fun e => ⟨Fq.sqrt a, by rw [← pow_two, e]⟩, Fq.sqrt_sq⟩

theorem finLegendre_def (a : Fq) :
    finLegendre a = if a ^ (Fintype.card Fq / 2) = 0 then 0 else if a ^ (Fintype.card Fq / 2) = 1 then 1 else -1 := by
  unfold finLegendre
  simp only
  rw [Fq.euler_npow]

theorem leg_if {K : Type} [Field K] (e : K) [Decidable (e = 0)] [Decidable (e = 1)] :
    (((if e = 0 then 0 else if e = 1 then 1 else -1 : Int) = 0) ↔ e = 0) ∧
    (((if e = 0 then 0 else if e = 1 then 1 else -1 : Int) = 1) ↔ e = 1) ∧
    (((if e = 0 then 0 else if e = 1 then 1 else -1 : Int) = -1) ↔ (e ≠ 0 ∧ e ≠ 1)) := by
  by_cases h0 : e = 0
  · have h1 : e ≠ 1 := by rw [h0]; exact zero_ne_one
    rw [if_pos h0]
    exact ⟨by simp [h0], by simp [h1], by simp [h0]⟩
  · rw [if_neg h0]
    by_cases h1 : e = 1
    · rw [if_pos h1]; exact ⟨by simp [h0], by simp [h1], by simp [h1]⟩
    · rw [if_neg h1]; exact ⟨by simp [h0], by simp [h1], by simp [h0, h1]⟩

/-- **Legendre symbol (Euler's criterion) characterises squares.** -/
theorem Fq.legendre_eq_zero_iff (a : Fq) : finLegendre a = 0 ↔ a = 0 := by
  rw [finLegendre_def, (leg_if _).1]
  exact (euler_cases Fq.card_odd Fq.two_le_card a).1

theorem Fq.legendre_eq_one_iff (a : Fq) : finLegendre a = 1 ↔ a ≠ 0 ∧ IsSquare a := by
  rw [finLegendre_def, (leg_if _).2.1]
  exact (euler_cases Fq.card_odd Fq.two_le_card a).2.1

theorem Fq.legendre_eq_neg_one_iff (a : Fq) : finLegendre a = -1 ↔ ¬ IsSquare a := by
  rw [finLegendre_def, (leg_if _).2.2]
  exact (euler_cases Fq.card_odd Fq.two_le_card a).2.2

theorem Fq.legendre_ne_neg_one_iff (a : Fq) : finLegendre a ≠ -1 ↔ IsSquare a := by
  rw [ne_eq, Fq.legendre_eq_neg_one_iff, not_not]

theorem Fq.legendre_values (a : Fq) : finLegendre a = 0 ∨ finLegendre a = 1 ∨ finLegendre a = -1 := by
  unfold finLegendre; simp only; split
  · exact Or.inl rfl
  · split
    · exact Or.inr (Or.inl rfl)
    · exact Or.inr (Or.inr rfl)

end ConcreteFq
/-! ## `Fq2`: Euler's criterion, `Fq2::square_root` (model `fq2Sqrt`), `Fq2.legendre` -/
section ConcreteFq2

theorem Fq2.card_odd : Fintype.card Fq2 % 2 = 1 := by rw [Fq2.card]; decide +kernel
theorem Fq2.two_le_card : 2 ≤ Fintype.card Fq2 := by rw [Fq2.card]; decide +kernel
theorem q2_half : (q ^ 2 - 1) / 2 = q ^ 2 / 2 := by decide +kernel
theorem q2_half_split : (q + 1) * ((q - 1) / 2) = q ^ 2 / 2 := by decide +kernel

theorem Fq2.neg_one_eq : (⟨-1, 0⟩ : Fq2) = -1 := by
  apply Q2.ext
  · rfl
  · show (0 : Fq) = -0; rw [neg_zero]

theorem Fq2.u_mul_self : (⟨0, 1⟩ : Fq2) * ⟨0, 1⟩ = -1 := by
  rw [← Fq2.neg_one_eq]
  apply Q2.ext <;> simp

/-- `Fq2::square_root` as coded, with the powers written as field powers. -/
theorem fq2Sqrt_eq (a : Fq2) :
    fq2Sqrt a = if a = 0 then a else
      if a ^ ((q - 3) / 4) * a ^ ((q - 3) / 4) * a = -1 then a ^ ((q - 3) / 4) * a * ⟨0, 1⟩
      else a ^ ((q - 3) / 4) * a * (a ^ ((q - 3) / 4) * a ^ ((q - 3) / 4) * a + 1) ^ ((q - 1) / 2) := by
  unfold fq2Sqrt
  simp only [beq_iff_eq, Fq2.neg_one_eq]
  rw [show npow a ((q - 3) / 4) = a ^ ((q - 3) / 4) from npow_eq_pow a _]
  split
  · rfl
  · split
    · rfl
    · exact congrArg _ (npow_eq_pow _ _)

theorem fq2Sqrt_zero : fq2Sqrt 0 = 0 := by rw [fq2Sqrt_eq, if_pos rfl]

theorem pow34_alpha {K : Type} [Monoid K] {p : Nat} (h4 : p % 4 = 3) (a : K) :
    a ^ ((p - 3) / 4) * a ^ ((p - 3) / 4) * a = a ^ ((p - 1) / 2) ∧ a ^ ((p - 3) / 4) * a = a ^ ((p + 1) / 4) := by
  constructor
  · rw [← pow_add, ← pow_succ]; congr 1; omega
  · rw [← pow_succ]; congr 1; omega

/-- **`Fq2::square_root` returns a square root of every square of Fq2.** -/
theorem fq2Sqrt_mul_self {a : Fq2} (h : IsSquare a) : fq2Sqrt a * fq2Sqrt a = a := by
  rw [fq2Sqrt_eq]
  by_cases ha : a = 0
  · rw [if_pos ha, ha, mul_zero]
  · rw [if_neg ha]
    obtain ⟨h1, h2⟩ := complex_sqrt (K := Fq2) q q_mod_four ⟨0, 1⟩ Fq2.u_mul_self a

    split
    · rename_i he; exact h1 he
    · rename_i hne
      have he := (euler_one_iff Fq2.card_odd ha).mpr h
      rw [q2_half, ← Fq2.card, he] at h2
      have hne' : a ^ ((q - 3) / 4) * a ^ ((q - 3) / 4) * a + 1 ≠ 0 := fun e => hne (by linear_combination e)
      exact mul_right_cancel₀ hne' h2

theorem fq2Sqrt_sq {a : Fq2} (h : IsSquare a) : (fq2Sqrt a) ^ 2 = a := by
  rw [pow_two]; exact fq2Sqrt_mul_self h

theorem fq2Sqrt_sq_iff (a : Fq2) : (fq2Sqrt a) ^ 2 = a ↔ IsSquare a :=
  ⟨fun e => ⟨fq2Sqrt a, by rw [← pow_two, e]⟩, fq2Sqrt_sq⟩

/-- **What `Fq2::square_root` returns on a non-square `a`** (with `α = a^((q−1)/2)`): `α ≠ −1`, so the second branch is
taken; the value is `x = a^((q+1)/4)·(α+1)^((q−1)/2)`, and `x²·(α+1) = a·(α−1)` with `α+1 ≠ 0`, i.e. `x² = a·(α−1)/(α+1)`,
which is not `a`. -/
theorem fq2Sqrt_nonsquare {a : Fq2} (h : ¬ IsSquare a) :
    fq2Sqrt a = a ^ ((q + 1) / 4) * (a ^ ((q - 1) / 2) + 1) ^ ((q - 1) / 2) ∧
    a ^ ((q - 1) / 2) + 1 ≠ 0 ∧
    fq2Sqrt a * fq2Sqrt a * (a ^ ((q - 1) / 2) + 1) = a * (a ^ ((q - 1) / 2) - 1) ∧
    fq2Sqrt a * fq2Sqrt a ≠ a := by
  have ha : a ≠ 0 := fun e => h (e ▸ IsSquare.zero)
  have hns : fq2Sqrt a * fq2Sqrt a ≠ a := fun e => h ⟨fq2Sqrt a, e.symm⟩
  obtain ⟨h1, h2⟩ := complex_sqrt (K := Fq2) q q_mod_four ⟨0, 1⟩ Fq2.u_mul_self a

  obtain ⟨e1, e2⟩ := pow34_alpha q_mod_four a
  rw [e1] at h1
  rw [e1, e2] at h2
  have hne : a ^ ((q - 1) / 2) ≠ -1 := fun e => h ⟨_, (h1 e).symm⟩
  have hval : fq2Sqrt a = a ^ ((q + 1) / 4) * (a ^ ((q - 1) / 2) + 1) ^ ((q - 1) / 2) := by
    rw [fq2Sqrt_eq, if_neg ha, e1, e2, if_neg hne]
  have he := (euler_neg_one_iff Fq2.card_odd Fq2.two_le_card a).mpr h
  rw [q2_half, ← Fq2.card, he] at h2
  refine ⟨hval, fun e => hne (by linear_combination e), ?_, hns⟩
  rw [hval, h2]; ring

/-- the Euler power behind `Fq2::legendre` (via the norm to Fq) -/
theorem Fq2.norm_euler (a : Fq2) :
    Q2.ofBaseHom (Q2.norm a ^ (Fintype.card Fq / 2)) = a ^ (Fintype.card Fq2 / 2) := by
  rw [map_pow, ← Fq2.norm_eq a 0, Fq2.norm_eq_pow, ← pow_mul, Fq.card, Fq2.card, ← q_half, q2_half_split]

theorem Fq2.legendre_def (a : Fq2) :
    Fq2.legendre a = if Q2.norm a ^ (Fintype.card Fq / 2) = 0 then 0
      else if Q2.norm a ^ (Fintype.card Fq / 2) = 1 then 1 else -1 := by
  unfold Fq2.legendre; exact finLegendre_def _

theorem Fq2.norm_euler_iff (a : Fq2) :
    (Q2.norm a ^ (Fintype.card Fq / 2) = 0 ↔ a ^ (Fintype.card Fq2 / 2) = 0) ∧
    (Q2.norm a ^ (Fintype.card Fq / 2) = 1 ↔ a ^ (Fintype.card Fq2 / 2) = 1) := by
  rw [← Fq2.norm_euler]
  constructor
  · exact (map_eq_zero_iff _ Q2.ofBaseHom_injective).symm
  · exact (map_eq_one_iff _ Q2.ofBaseHom_injective).symm

/-- **`Fq2::legendre` (Legendre symbol of the norm) characterises the squares of Fq2.** -/
theorem Fq2.legendre_eq_zero_iff (a : Fq2) : Fq2.legendre a = 0 ↔ a = 0 := by
  rw [Fq2.legendre_def, (leg_if _).1, (Fq2.norm_euler_iff a).1]
  exact (euler_cases Fq2.card_odd Fq2.two_le_card a).1

theorem Fq2.legendre_eq_one_iff (a : Fq2) : Fq2.legendre a = 1 ↔ a ≠ 0 ∧ IsSquare a := by
  rw [Fq2.legendre_def, (leg_if _).2.1, (Fq2.norm_euler_iff a).2]
  exact (euler_cases Fq2.card_odd Fq2.two_le_card a).2.1

theorem Fq2.legendre_eq_neg_one_iff (a : Fq2) : Fq2.legendre a = -1 ↔ ¬ IsSquare a := by
  rw [Fq2.legendre_def, (leg_if _).2.2, ne_eq, ne_eq, (Fq2.norm_euler_iff a).1, (Fq2.norm_euler_iff a).2]
  exact (euler_cases Fq2.card_odd Fq2.two_le_card a).2.2

theorem Fq2.legendre_ne_neg_one_iff (a : Fq2) : Fq2.legendre a ≠ -1 ↔ IsSquare a := by
  rw [ne_eq, Fq2.legendre_eq_neg_one_iff, not_not]


end ConcreteFq2
end Jedi

namespace Jedi.Impl
open Jedi

/-! ## `get_point_from_x`, generic in the field record -/
section FromX
variable {F : Type} {o : FieldOps F}

/-- `x³ + b` with the record's operations, as `get_point_from_x` computes it. -/
def x3b (o : FieldOps F) (x : F) : F := o.add (o.mul (o.mul x x) x) o.b

/-- the library's sign bit of `y`: `compare(y, −y) == 1`. -/
def isGreater (o : FieldOps F) (y : F) : Bool := o.cmp y (o.neg y) == 1

/-- What the compressed-form theorems need of a `FieldOps` record (all of it is proved for `opsFq`, `opsFq2` below):
field facts about negation, the order used for the sign bit, the Legendre test, the square root, and the absence of
points of order two on the curve. -/
structure SqrtOK (o : FieldOps F) : Prop where
  neg_neg : ∀ a, o.neg (o.neg a) = a
  neg_mul_self : ∀ a, o.mul (o.neg a) (o.neg a) = o.mul a a
  cmp_self : ∀ a, (o.cmp a a == 1) = false
  cmp_antisymm : ∀ a b, a ≠ b → (o.cmp a b == 1) = !(o.cmp b a == 1)
  beq_iff : ∀ a b, o.beq a b = true ↔ a = b
  /-- the Legendre test rejects exactly the non-squares -/
  leg_iff : ∀ a, o.legendre a ≠ -1 ↔ ∃ y, o.mul y y = a
  /-- the square-root routine returns a root of every square -/
  sqrt_mul_self : ∀ a, (∃ y, o.mul y y = a) → o.mul (o.sqrt a) (o.sqrt a) = a
  two_roots : ∀ y s, o.mul y y = o.mul s s → y = s ∨ y = o.neg s
  /-- no affine point with `y = −y` (no point of order two): `x³ + b` is never 0 -/
  no_two_torsion : ∀ x y, o.mul y y = x3b o x → y ≠ o.neg y

theorem onCurve_iff (sq : SqrtOK o) (x y : F) : onCurve o x y = true ↔ o.mul y y = x3b o x :=
  sq.beq_iff _ _

theorem fromX_eq (x : F) (greater checked : Bool) :
    fromX o x greater checked =
      if (checked && o.legendre (x3b o x) == -1) = true then none
      else some (x, if (greater != isGreater o (o.sqrt (x3b o x))) = true then o.neg (o.sqrt (x3b o x))
                    else o.sqrt (x3b o x)) := rfl

/-- exactly one of `y`, `−y` is "greater" when `y ≠ −y` … -/
theorem isGreater_neg (sq : SqrtOK o) {y : F} (h : y ≠ o.neg y) : isGreater o (o.neg y) = !isGreater o y := by
  unfold isGreater
  rw [sq.neg_neg, sq.cmp_antisymm _ _ h, Bool.not_not]

/-- … and neither is when `y = −y` (that is `y = 0`). -/
theorem isGreater_of_eq_neg (sq : SqrtOK o) {y : F} (h : y = o.neg y) : isGreater o y = false := by
  unfold isGreater
  rw [← h]; exact sq.cmp_self y

/-- the y selected by `get_point_from_x` in terms of the computed root `s` -/
theorem select_isGreater (sq : SqrtOK o) {s : F} (h : s ≠ o.neg s) (g : Bool) :
    isGreater o (if (g != isGreater o s) = true then o.neg s else s) = g := by
  by_cases hg : g = isGreater o s
  · rw [hg]; simp
  · have : (g != isGreater o s) = true := by simpa using hg
    rw [if_pos this, isGreater_neg sq h]
    revert hg; cases g <;> cases isGreater o s <;> simp

/-- **`get_point_from_x`, validating**: a returned point has the given abscissa, lies on the curve, and the sign bit of
its ordinate is the requested one. -/
theorem fromX_checked_some (sq : SqrtOK o) {x x' y : F} {g : Bool} (h : fromX o x g true = some (x', y)) :
    x' = x ∧ o.mul y y = x3b o x ∧ isGreater o y = g := by
  rw [fromX_eq] at h
  split at h
  · cases h
  · rename_i hl
    have hl : o.legendre (x3b o x) ≠ -1 := by simpa using hl
    have hs := sq.sqrt_mul_self _ ((sq.leg_iff _).mp hl)
    injection h with h; injection h with h1 h2
    subst h1; subst h2
    refine ⟨rfl, ?_, select_isGreater sq (sq.no_two_torsion x _ hs) g⟩
    split
    · rw [sq.neg_mul_self, hs]
    · exact hs

/-- it refuses exactly the abscissae above which there is no point. -/
theorem fromX_checked_none_iff (sq : SqrtOK o) (x : F) (g : Bool) :
    fromX o x g true = none ↔ ¬ ∃ y, o.mul y y = x3b o x := by
  rw [fromX_eq, ← sq.leg_iff]
  by_cases hl : o.legendre (x3b o x) = -1
  · simp [hl]
  · have : (o.legendre (x3b o x) == -1) = false := by simpa using hl
    simp [this, hl]

/-- **every point of the curve is what `get_point_from_x` returns for its own abscissa and sign bit**
(validating or not). -/
theorem fromX_of_onCurve (sq : SqrtOK o) {x y : F} (h : o.mul y y = x3b o x) (checked : Bool) :
    fromX o x (isGreater o y) checked = some (x, y) := by
  have hsq : ∃ y, o.mul y y = x3b o x := ⟨y, h⟩
  have hl := (sq.leg_iff _).mpr hsq
  have hs := sq.sqrt_mul_self _ hsq
  have hl' : (o.legendre (x3b o x) == -1) = false := by simpa using hl
  rw [fromX_eq, hl', Bool.and_false, if_neg (by simp)]
  have hn := sq.no_two_torsion x _ hs
  rcases sq.two_roots y _ (h.trans hs.symm) with e | e
  · rw [e]; simp
  · rw [e, isGreater_neg sq hn]
    cases isGreater o (o.sqrt (x3b o x)) <;> simp

/-- **both roots are reachable**: above an abscissa with `x³ + b` a square, the two flag values give the two points
`(x, y)` and `(x, −y)`, `y ≠ −y`, the first with sign bit set and the second with sign bit clear. -/
theorem fromX_both (sq : SqrtOK o) {x : F} (h : ∃ y, o.mul y y = x3b o x) :
    ∃ y, o.mul y y = x3b o x ∧ y ≠ o.neg y ∧ isGreater o y = true ∧ isGreater o (o.neg y) = false ∧
      fromX o x true true = some (x, y) ∧ fromX o x false true = some (x, o.neg y) ∧
      ∀ y', o.mul y' y' = x3b o x → y' = y ∨ y' = o.neg y := by
  obtain ⟨y0, h0⟩ := h
  have hn0 := sq.no_two_torsion x y0 h0
  have key : ∀ y, o.mul y y = x3b o x → isGreater o y = true → ∃ y, o.mul y y = x3b o x ∧ y ≠ o.neg y ∧
      isGreater o y = true ∧ isGreater o (o.neg y) = false ∧
      fromX o x true true = some (x, y) ∧ fromX o x false true = some (x, o.neg y) ∧
      ∀ y', o.mul y' y' = x3b o x → y' = y ∨ y' = o.neg y := by
    intro y hy hg
    have hn := sq.no_two_torsion x y hy
    have hg' : isGreater o (o.neg y) = false := by rw [isGreater_neg sq hn, hg]; rfl
    refine ⟨y, hy, hn, hg, hg', ?_, ?_, fun y' hy' => sq.two_roots y' y (hy'.trans hy.symm)⟩
    · have := fromX_of_onCurve sq hy true; rwa [hg] at this
    · have := fromX_of_onCurve sq (y := o.neg y) (by rw [sq.neg_mul_self]; exact hy) true
      rwa [hg'] at this
  cases hg : isGreater o y0
  · refine key (o.neg y0) (by rw [sq.neg_mul_self]; exact h0) ?_
    rw [isGreater_neg sq hn0, hg]; rfl
  · exact key y0 h0 hg

end FromX
end Jedi.Impl

namespace Jedi.Impl
open Jedi

/-! ## The two coordinate fields of BLS12-381 satisfy `SqrtOK` -/
section Instances

theorem no_two_torsion_aux {K : Type} [Field K] (h2 : (2 : K) ≠ 0) (b : K) (hnc : ∀ c : K, c ^ 3 ≠ -b)
    (x y : K) (h : y * y = x * x * x + b) : y ≠ -y := by
  intro e
  have hy : y = 0 := by
    have : 2 * y = 0 := by linear_combination e
    rcases mul_eq_zero.mp this with h' | h'
    · exact absurd h' h2
    · exact h'
  apply hnc x
  rw [hy] at h
  linear_combination -h

theorem q_sub_one_third : 3 * ((q - 1) / 3) = q - 1 := by decide +kernel
theorem neg_g1B_npow_third : npow (-g1B : Fq) ((q - 1) / 3) ≠ 1 := by decide +kernel
theorem neg_g1B_ne_zero : (-g1B : Fq) ≠ 0 := by decide +kernel
theorem neg_g2B_npow_third : npow (-g2B : Fq2) ((q ^ 2 - 1) / 3) ≠ 1 := by decide +kernel
theorem neg_g2B_ne_zero : (-g2B : Fq2) ≠ 0 := by decide +kernel

/-- `−4` is not a cube in Fq: the curve `y² = x³ + 4` has no point with `y = 0`. -/
theorem Fq.neg_b_not_cube : ∀ c : Fq, c ^ 3 ≠ -g1B :=
  not_pow_of_pow_ne_one 3 ((q - 1) / 3) (by decide) (by rw [Fq.card]; exact q_sub_one_third) (-g1B) neg_g1B_ne_zero
    (by rw [← npow_eq_pow]; exact neg_g1B_npow_third)

/-- `−4(1+u)` is not a cube in Fq2: the twist `y² = x³ + 4(1+u)` has no point with `y = 0`. -/
theorem Fq2.neg_b_not_cube : ∀ c : Fq2, c ^ 3 ≠ -g2B :=
  not_pow_of_pow_ne_one 3 ((q ^ 2 - 1) / 3) (by decide) (by rw [Fq2.card]; exact q2_sub_one_third) (-g2B)
    neg_g2B_ne_zero (by rw [← npow_eq_pow]; exact neg_g2B_npow_third)

theorem Fq2.two_ne_zero : (2 : Fq2) ≠ 0 := two_ne_zero_of_odd_card Fq2.card_odd

theorem cmpFq2_self (a : Fq2) : cmpFq2 a a = 0 := by
  unfold cmpFq2; simp [cmpFq_self]

theorem opsFq_legendre (a : Fq) : opsFq.legendre a = finLegendre a := by simp only [opsFq]
theorem opsFq_sqrt (a : Fq) : opsFq.sqrt a = Fq.sqrt a := by simp only [opsFq]
theorem opsFq_mul (a b : Fq) : opsFq.mul a b = a * b := by simp only [opsFq]
theorem opsFq_cmp (a b : Fq) : opsFq.cmp a b = cmpFq a b := by simp only [opsFq]
theorem opsFq2_legendre (a : Fq2) : opsFq2.legendre a = Fq2.legendre a := by simp only [opsFq2]
theorem opsFq2_sqrt (a : Fq2) : opsFq2.sqrt a = fq2Sqrt a := by simp only [opsFq2]
theorem opsFq2_mul (a b : Fq2) : opsFq2.mul a b = a * b := by simp only [opsFq2]
theorem opsFq2_cmp (a b : Fq2) : opsFq2.cmp a b = cmpFq2 a b := by simp only [opsFq2]
theorem opsFq_neg (a : Fq) : opsFq.neg a = -a := by simp only [opsFq]
theorem opsFq2_neg (a : Fq2) : opsFq2.neg a = -a := by simp only [opsFq2]
theorem isGreater_opsFq (y : Fq) : isGreater opsFq y = (cmpFq y (-y) == 1) := by simp only [isGreater, opsFq]
theorem isGreater_opsFq2 (y : Fq2) : isGreater opsFq2 y = (cmpFq2 y (-y) == 1) := by simp only [isGreater, opsFq2]
theorem x3b_opsFq (x : Fq) : x3b opsFq x = x * x * x + g1B := by simp only [x3b, opsFq]
theorem x3b_opsFq2 (x : Fq2) : x3b opsFq2 x = x * x * x + g2B := by simp only [x3b, opsFq2]

theorem isSquare_iff_exists_mul_self {K : Type} [Mul K] (a : K) : IsSquare a ↔ ∃ y : K, y * y = a :=
  ⟨fun ⟨r, hr⟩ => ⟨r, hr.symm⟩, fun ⟨r, hr⟩ => ⟨r, hr.symm⟩⟩

theorem opsFq_sqrtOK : SqrtOK opsFq where
  neg_neg := opsFq_neg_neg
  neg_mul_self a := by simp only [opsFq_mul]; exact neg_mul_neg a a
  cmp_self a := by rw [opsFq_cmp, cmpFq_self]; rfl
  cmp_antisymm := opsFq_cmp_antisymm
  beq_iff a b := beq_iff_eq
  leg_iff a := by
    simp only [opsFq_legendre, opsFq_mul]
    rw [Fq.legendre_ne_neg_one_iff, isSquare_iff_exists_mul_self]
  sqrt_mul_self a := by
    simp only [opsFq_sqrt, opsFq_mul]
    exact fun h => Fq.sqrt_mul_self ((isSquare_iff_exists_mul_self a).mpr h)
  two_roots y s := by
    simp only [opsFq_mul]
    exact fun h => mul_self_eq_mul_self_iff.mp h
  no_two_torsion x y := by
    simp only [opsFq_mul, x3b_opsFq]
    exact fun h => no_two_torsion_aux fq_two_ne_zero g1B Fq.neg_b_not_cube x y h

theorem opsFq2_sqrtOK : SqrtOK opsFq2 where
  neg_neg := opsFq2_neg_neg
  neg_mul_self a := by simp only [opsFq2_mul]; exact neg_mul_neg a a
  cmp_self a := by rw [opsFq2_cmp, cmpFq2_self]; rfl
  cmp_antisymm := opsFq2_cmp_antisymm
  beq_iff a b := beq_iff_eq
  leg_iff a := by
    simp only [opsFq2_legendre, opsFq2_mul]
    rw [Fq2.legendre_ne_neg_one_iff, isSquare_iff_exists_mul_self]
  sqrt_mul_self a := by
    simp only [opsFq2_sqrt, opsFq2_mul]
    exact fun h => fq2Sqrt_mul_self ((isSquare_iff_exists_mul_self a).mpr h)
  two_roots y s := by
    simp only [opsFq2_mul]
    exact fun h => mul_self_eq_mul_self_iff.mp h
  no_two_torsion x y := by
    simp only [opsFq2_mul, x3b_opsFq2]
    exact fun h => no_two_torsion_aux Fq2.two_ne_zero g2B Fq2.neg_b_not_cube x y h

end Instances
end Jedi.Impl

namespace Jedi.Impl
open Jedi

/-! ## Compressed form: round trip and canonicity, generic in the field record -/
section Compressed
variable {F : Type} {o : FieldOps F}

theorem orFirst_orFirst (bs : List UInt8) (m n : Nat) : orFirst (orFirst bs m) n = orFirst bs (m ||| n) := by
  cases bs with
  | nil => rfl
  | cons b rest =>
    simp only [orFirst]
    congr 1
    apply UInt8.toNat_inj.mp
    rw [UInt8.toNat_ofNat', UInt8.toNat_ofNat', UInt8.toNat_ofNat', Nat.or_mod_two_pow, Nat.mod_mod,
      ← Nat.or_mod_two_pow, Nat.or_assoc]

theorem headD_take_pos (bs : List UInt8) {n : Nat} (hn : 0 < n) : (bs.take n).headD 0 = bs.headD 0 := by
  cases bs with
  | nil => simp
  | cons b rest =>
    obtain ⟨k, rfl⟩ : ∃ k, n = k + 1 := ⟨n - 1, by omega⟩
    rfl

/-- the encoder's compressed output for an affine point: x with the flag bits 100 / 101 set. -/
theorem encode_aff_comp_eq (x y : F) :
    encode o true (.aff x y) = orFirst (o.toBytes x) (if isGreater o y then 160 else 128) := by
  cases hg : isGreater o y
  · have hg' : (o.cmp y (o.neg y) == 1) = false := hg
    simp only [encode, if_true, hg', Bool.false_eq_true, if_false]
    rfl
  · have hg' : (o.cmp y (o.neg y) == 1) = true := hg
    simp only [encode, if_true, hg', orFirst_orFirst]
    rfl

theorem ofBytes_encode_aff_comp (ok : EncOK o) (x y : F) :
    o.ofBytes ((encode o true (.aff x y)).take o.size) = x := by
  have hlen : (encode o true (.aff x y)).length = o.size := by rw [encode_length o ok.len]; rfl
  rw [← hlen, List.take_length, encode_aff_comp_eq, ok.mask _ _ (ok.len x) (by split <;> decide), ok.roundtrip]

/-- compressed form, affine point: `decode ∘ encode`, validating or not, as soon as `get_point_from_x` gives the point
back for its own sign bit. -/
theorem decode_encode_aff_comp (ok : EncOK o) (f : Pt F → Bool) (x y : F) (checked : Bool)
    (hx : fromX o x (isGreater o y) checked = some (x, y)) (hs : checked = true → f (.aff x y) = true) :
    decode o f true checked (encode o true (.aff x y)) = some (.aff x y) := by
  have h := firstByte_encode_aff_comp ok x y
  have hlt := ok.head_lt x
  obtain ⟨-, hB, hC⟩ := flag_facts _ hlt
  have hxb := ofBytes_encode_aff_comp ok x y
  unfold firstByte at h hlt hB hC
  unfold isGreater at hx
  unfold decode
  simp only [h, hxb]
  by_cases hg : (o.cmp y (o.neg y) == 1) = true
  · simp only [hg, if_true, flagCompressed, flagInfinity, flagGreater, hC.1, hC.2.1, hC.2.2.1] at hx ⊢
    cases checked
    · simp [hx]
    · simp [hx, hs rfl]
  · have hg : (o.cmp y (o.neg y) == 1) = false := by simpa using hg
    simp only [hg, Bool.false_eq_true, if_false, flagCompressed, flagInfinity, flagGreater, hB.1, hB.2.1,
      hB.2.2.1] at hx ⊢
    cases checked
    · simp [hx]
    · simp [hx, hs rfl]

/-- **compressed round trip, every point of the curve**, validating (`checked = true`, the point must pass the
subgroup test) or not. -/
theorem decode_encode_comp (ok : EncOK o) (sq : SqrtOK o) (f : Pt F → Bool) (p : Pt F) (checked : Bool)
    (hc : onCurvePt o p = true) (hs : checked = true → f p = true) :
    decode o f true checked (encode o true p) = some p := by
  cases p with
  | inf =>
    cases checked
    · exact decode_unchecked_encode_inf ok f true
    · have := decodeChecked_encode_inf ok f true
      unfold decodeChecked at this
      split at this
      · cases this
      · assumption
      · split at this <;> cases this
  | aff x y =>
    exact decode_encode_aff_comp ok f x y checked
      (fromX_of_onCurve sq ((onCurve_iff sq x y).mp hc) checked) hs

/-- the same for the repaired validating decode (with the `coordinate_is_canonical` test). -/
theorem decodeChecked_encode_aff_comp (ok : EncOK o) (sq : SqrtOK o) (inSub : Pt F → Bool) (x y : F)
    (hon : onCurve o x y = true) (hsub : inSub (.aff x y) = true) :
    decodeChecked o inSub true (encode o true (.aff x y)) = some (.aff x y) := by
  have hd := decode_encode_comp ok sq inSub (.aff x y) true hon (fun _ => hsub)
  unfold decodeChecked
  rw [hd]
  have hlen : (encode o true (.aff x y)).length = o.size := by rw [encode_length o ok.len]; rfl
  have hcx : coordCanonical o x ((encode o true (.aff x y)).take o.size) 224 = true := by
    unfold coordCanonical
    rw [← hlen, List.take_length]
    have h := firstByte_encode_aff_comp ok x y
    obtain ⟨-, hB, hC⟩ := flag_facts _ (ok.head_lt x)
    unfold firstByte at h hB hC
    rw [h, beq_iff_eq, encode_aff_comp_eq]
    unfold isGreater
    split
    · rw [hC.2.2.2]
    · rw [hB.2.2.2]
  simp [hcx]

theorem byte_flags_comp : ∀ b, b < 256 → b &&& 128 ≠ 0 → b &&& 64 = 0 →
    b &&& 224 = if b &&& 32 ≠ 0 then 160 else 128 := by decide +kernel

/-- **canonicity, compressed form**: whatever the repaired validating decode accepts as an affine point is a point of
the curve, in the subgroup, and the input is exactly its encoding. -/
theorem decodeChecked_aff_sound_comp (ok : EncOK o) (sq : SqrtOK o) {inSub : Pt F → Bool} {bs : List UInt8} {x y : F}
    (h : decodeChecked o inSub true bs = some (.aff x y)) (hl : bs.length = o.size) :
    onCurve o x y = true ∧ inSub (.aff x y) = true ∧ encode o true (.aff x y) = bs := by
  have hp := ok.size_pos
  obtain ⟨hd, hcx, -⟩ := decodeChecked_some_aff h
  unfold decode at hd
  simp only [Bool.true_and, if_true] at hd
  split at hd
  · cases hd
  · rename_i hc
    split at hd
    · split at hd <;> cases hd
    · rename_i hi
      split at hd
      · cases hd
      · rename_i x' y' hfx
        split at hd
        · rename_i hsub
          injection hd with hd; injection hd with h1 h2
          subst h1; subst h2
          obtain ⟨hx, hy, hg⟩ := fromX_checked_some sq hfx
          refine ⟨(onCurve_iff sq _ _).mpr (hx ▸ hy), hsub, ?_⟩
          have hc' : (bs.headD 0).toNat &&& 128 ≠ 0 := by simpa [flagCompressed] using hc
          have hi' : (bs.headD 0).toNat &&& 64 = 0 := by simpa [flagInfinity] using hi
          have hflags := byte_flags_comp _ (bs.headD 0).toNat_lt hc' hi'
          unfold coordCanonical at hcx
          rw [headD_take_pos _ hp, hflags, beq_iff_eq, List.take_of_length_le (by omega)] at hcx
          rw [encode_aff_comp_eq, hg]
          refine Eq.trans ?_ hcx
          simp [flagGreater]
        · cases hd

/-- **validating decode, either form, accepts exactly the encoder's output for points of the curve in the subgroup**
(on buffers of the right size) and returns the encoded point. -/
theorem decodeChecked_iff (ok : EncOK o) (sq : SqrtOK o) (inSub : Pt F → Bool) (hinf : inSub .inf = true)
    (comp : Bool) (bs : List UInt8) (hl : bs.length = if comp then o.size else 2 * o.size) (p : Pt F) :
    decodeChecked o inSub comp bs = some p ↔
      (onCurvePt o p = true ∧ inSub p = true ∧ encode o comp p = bs) := by
  constructor
  · intro h
    cases p with
    | inf => exact ⟨rfl, hinf, decodeChecked_inf_sound ok h hl⟩
    | aff x y =>
      cases comp
      · exact decodeChecked_aff_sound_unc ok h (by simpa using hl)
      · exact decodeChecked_aff_sound_comp ok sq h (by simpa using hl)
  · rintro ⟨hon, hsub, he⟩
    subst he
    cases p with
    | inf => exact decodeChecked_encode_inf ok inSub comp
    | aff x y =>
      cases comp
      · exact decodeChecked_encode_aff_unc ok inSub x y hon hsub
      · exact decodeChecked_encode_aff_comp ok sq inSub x y hon hsub

/-- unchecked `decode ∘ encode` on the curve, either form. -/
theorem decode_unchecked_encode (ok : EncOK o) (sq : SqrtOK o) (f : Pt F → Bool) (comp : Bool) (p : Pt F)
    (hc : onCurvePt o p = true) : decode o f comp false (encode o comp p) = some p := by
  cases comp
  · cases p with
    | inf => exact decode_unchecked_encode_inf ok f false
    | aff x y => exact decode_unchecked_encode_aff_unc ok f x y
  · exact decode_encode_comp ok sq f p false hc (fun h => by cases h)

theorem decodeCanonical_iff (ok : EncOK o) (sq : SqrtOK o) (inSub : Pt F → Bool) (comp : Bool) (bs : List UInt8)
    (p : Pt F) :
    decodeCanonical o inSub (onCurvePt o) comp bs = some p ↔
      (onCurvePt o p = true ∧ inSub p = true ∧ encode o comp p = bs) := by
  constructor
  · exact decodeCanonical_sound
  · rintro ⟨hon, hsub, he⟩
    subst he
    exact decodeCanonical_of_decode (decode_unchecked_encode ok sq _ comp p hon) hon hsub

/-- **The repaired validating decode meets its specification in both forms**: on buffers of the right size,
`decodeChecked` IS `decodeCanonical`. -/
theorem decodeChecked_eq_canonical (ok : EncOK o) (sq : SqrtOK o) (inSub : Pt F → Bool) (hinf : inSub .inf = true)
    (comp : Bool) (bs : List UInt8) (hl : bs.length = if comp then o.size else 2 * o.size) :
    decodeChecked o inSub comp bs = decodeCanonical o inSub (onCurvePt o) comp bs := by
  cases h1 : decodeChecked o inSub comp bs with
  | some p =>
    exact ((decodeCanonical_iff ok sq inSub comp bs p).mpr ((decodeChecked_iff ok sq inSub hinf comp bs hl p).mp h1)).symm
  | none =>
    cases h2 : decodeCanonical o inSub (onCurvePt o) comp bs with
    | none => rfl
    | some p =>
      rw [(decodeChecked_iff ok sq inSub hinf comp bs hl p).mpr ((decodeCanonical_iff ok sq inSub comp bs p).mp h2)] at h1
      cases h1

/-- round trip for the repaired validating decode, either form. -/
theorem decodeChecked_encode (ok : EncOK o) (sq : SqrtOK o) (inSub : Pt F → Bool) (hinf : inSub .inf = true)
    (comp : Bool) (p : Pt F) (hc : onCurvePt o p = true) (hs : inSub p = true) :
    decodeChecked o inSub comp (encode o comp p) = some p :=
  (decodeChecked_iff ok sq inSub hinf comp _ (encode_length o ok.len comp p) p).mpr ⟨hc, hs, rfl⟩

/-- validating decode is injective on what it accepts. -/
theorem decodeChecked_injective (ok : EncOK o) (sq : SqrtOK o) (inSub : Pt F → Bool) (hinf : inSub .inf = true)
    (comp : Bool) (bs bs' : List UInt8) (hl : bs.length = if comp then o.size else 2 * o.size)
    (hl' : bs'.length = if comp then o.size else 2 * o.size) (p : Pt F)
    (h : decodeChecked o inSub comp bs = some p) (h' : decodeChecked o inSub comp bs' = some p) : bs = bs' := by
  rw [← ((decodeChecked_iff ok sq inSub hinf comp bs hl p).mp h).2.2,
    ← ((decodeChecked_iff ok sq inSub hinf comp bs' hl' p).mp h').2.2]

end Compressed
end Jedi.Impl

namespace Jedi.Impl
open Jedi

/-! ## G1 / G2 with the Spec's curve equation and subgroup test -/
section Groups

theorem g1Size_eq (comp : Bool) : g1Size comp = if comp then opsFq.size else 2 * opsFq.size := by
  cases comp <;> rfl
theorem g2Size_eq (comp : Bool) : g2Size comp = if comp then opsFq2.size else 2 * opsFq2.size := by
  cases comp <;> rfl

/-- `decode ∘ encode` on E(Fq), both forms, validating (points of the subgroup) or not. -/
theorem decode_encode_G1 (comp checked : Bool) (p : G1Pt) (hc : Pt.isOnCurve g1B p = true)
    (hs : checked = true → inSubgroup p = true) :
    decode opsFq inSubgroup comp checked (encG1 comp p) = some p := by
  rw [← onCurvePt_opsFq] at hc
  cases checked
  · exact decode_unchecked_encode opsFq_ok opsFq_sqrtOK _ comp p hc
  · cases comp
    · have h := decodeChecked_encode opsFq_ok opsFq_sqrtOK inSubgroup inSubgroup_inf false p hc (hs rfl)
      unfold decodeChecked at h
      unfold encG1
      split at h
      · cases h
      · injection h with h; subst h; assumption
      · split at h
        · injection h with h; subst h; assumption
        · cases h
    · exact decode_encode_comp opsFq_ok opsFq_sqrtOK _ p true hc hs

/-- `decode ∘ encode` on E'(Fq2), both forms, validating (points of the subgroup) or not. -/
theorem decode_encode_G2 (comp checked : Bool) (p : G2Pt) (hc : Pt.isOnCurve g2B p = true)
    (hs : checked = true → inSubgroup p = true) :
    decode opsFq2 inSubgroup comp checked (encG2 comp p) = some p := by
  rw [← onCurvePt_opsFq2] at hc
  cases checked
  · exact decode_unchecked_encode opsFq2_ok opsFq2_sqrtOK _ comp p hc
  · cases comp
    · have h := decodeChecked_encode opsFq2_ok opsFq2_sqrtOK inSubgroup inSubgroup_inf false p hc (hs rfl)
      unfold decodeChecked at h
      unfold encG2
      split at h
      · cases h
      · injection h with h; subst h; assumption
      · split at h
        · injection h with h; subst h; assumption
        · cases h
    · exact decode_encode_comp opsFq2_ok opsFq2_sqrtOK _ p true hc hs

theorem decodeChecked_iff_G1 (comp : Bool) (bs : List UInt8) (hl : bs.length = g1Size comp) (p : G1Pt) :
    decodeChecked opsFq inSubgroup comp bs = some p ↔
      (Pt.isOnCurve g1B p = true ∧ inSubgroup p = true ∧ encG1 comp p = bs) := by
  rw [← onCurvePt_opsFq]
  exact decodeChecked_iff opsFq_ok opsFq_sqrtOK inSubgroup inSubgroup_inf comp bs (by rw [hl, g1Size_eq]) p

theorem decodeChecked_iff_G2 (comp : Bool) (bs : List UInt8) (hl : bs.length = g2Size comp) (p : G2Pt) :
    decodeChecked opsFq2 inSubgroup comp bs = some p ↔
      (Pt.isOnCurve g2B p = true ∧ inSubgroup p = true ∧ encG2 comp p = bs) := by
  rw [← onCurvePt_opsFq2]
  exact decodeChecked_iff opsFq2_ok opsFq2_sqrtOK inSubgroup inSubgroup_inf comp bs (by rw [hl, g2Size_eq]) p

theorem decodeChecked_eq_canonical_G1 (comp : Bool) (bs : List UInt8) (hl : bs.length = g1Size comp) :
    decodeChecked opsFq inSubgroup comp bs = decodeCanonical opsFq inSubgroup (Pt.isOnCurve g1B) comp bs := by
  rw [← onCurvePt_opsFq]
  exact decodeChecked_eq_canonical opsFq_ok opsFq_sqrtOK inSubgroup inSubgroup_inf comp bs (by rw [hl, g1Size_eq])

theorem decodeChecked_eq_canonical_G2 (comp : Bool) (bs : List UInt8) (hl : bs.length = g2Size comp) :
    decodeChecked opsFq2 inSubgroup comp bs = decodeCanonical opsFq2 inSubgroup (Pt.isOnCurve g2B) comp bs := by
  rw [← onCurvePt_opsFq2]
  exact decodeChecked_eq_canonical opsFq2_ok opsFq2_sqrtOK inSubgroup inSubgroup_inf comp bs (by rw [hl, g2Size_eq])

/-- round trips of the repaired validating decode on G1 / G2. -/
theorem decodeChecked_encG1 (comp : Bool) (p : G1Pt) (hc : Pt.isOnCurve g1B p = true) (hs : inSubgroup p = true) :
    decodeChecked opsFq inSubgroup comp (encG1 comp p) = some p :=
  (decodeChecked_iff_G1 comp _ (encG1_length comp p) p).mpr ⟨hc, hs, rfl⟩
theorem decodeChecked_encG2 (comp : Bool) (p : G2Pt) (hc : Pt.isOnCurve g2B p = true) (hs : inSubgroup p = true) :
    decodeChecked opsFq2 inSubgroup comp (encG2 comp p) = some p :=
  (decodeChecked_iff_G2 comp _ (encG2_length comp p) p).mpr ⟨hc, hs, rfl⟩

end Groups
end Jedi.Impl

namespace Jedi.Impl
open Jedi Jedi.Wk

/-! ## The unmarshalling models (src/wkdibe/marshal.cpp `…::unmarshal`, with `setLength`): round trips

The models themselves (`takeN`, `readG1`, …, `unmarshalParams`, …, `Decoders`, `libDecoders`, `checkedDecoders`,
`canonicalDecoders`) are DEFINED in `Impl/Marshal.lean` and are the ones the differential judge executes against the
real code (`Driver/Judge6.lean`); here are the theorems about them.  The readers are parameterised by the point
decoders (`Encoding::decode` with the caller's `checked` flag) and by the pairing (compressed parameters do not carry
`e(g2, g1)`; `Params::unmarshal` recomputes it). -/
section Unmarshal

/-! ### reader lemmas -/

theorem takeN_append {n : Nat} (xs ys : List UInt8) (h : xs.length = n) : takeN n (xs ++ ys) = some (xs, ys) := by
  unfold takeN
  rw [if_neg (by rw [List.length_append]; omega), List.take_left' h, List.drop_left' h]

variable {D : Decoders} {comp : Bool}

theorem readG1_append {p : G1Pt} (h : D.dec1 comp (encG1 comp p) = some p) (rest : List UInt8) :
    readG1 D comp (encG1 comp p ++ rest) = some (p, rest) := by
  unfold readG1
  rw [takeN_append _ _ (encG1_length comp p)]
  simp only [h]

theorem readG2_append {p : G2Pt} (h : D.dec2 comp (encG2 comp p) = some p) (rest : List UInt8) :
    readG2 D comp (encG2 comp p ++ rest) = some (p, rest) := by
  unfold readG2
  rw [takeN_append _ _ (encG2_length comp p)]
  simp only [h]

theorem readG1s_append (ps : List G1Pt) (h : ∀ p ∈ ps, D.dec1 comp (encG1 comp p) = some p) (rest : List UInt8) :
    readG1s D comp ps.length (ps.flatMap (encG1 comp) ++ rest) = some (ps, rest) := by
  induction ps with
  | nil => rfl
  | cons p ps ih =>
    rw [List.flatMap_cons, List.append_assoc, List.length_cons, readG1s,
      readG1_append (h p (List.mem_cons_self ..))]
    simp only [ih (fun p' hp' => h p' (List.mem_cons_of_mem _ hp'))]

theorem readSlots_append (ss : List (Nat × G1Pt)) (h : ∀ s ∈ ss, D.dec1 comp (encG1 comp s.2) = some s.2)
    (hi : ∀ s ∈ ss, s.1 < 2 ^ 32) (rest : List UInt8) :
    readSlots D comp ss.length (ss.flatMap (fun s => encG1 comp s.2 ++ toBytesBE 4 s.1) ++ rest) = some (ss, rest) := by
  induction ss with
  | nil => rfl
  | cons s ss ih =>
    rw [List.flatMap_cons, List.append_assoc, List.append_assoc, List.length_cons, readSlots,
      readG1_append (h s (List.mem_cons_self ..))]
    simp only
    rw [takeN_append _ _ (toBytesBE_length 4 _)]
    simp only [ih (fun s' hs' => h s' (List.mem_cons_of_mem _ hs')) (fun s' hs' => hi s' (List.mem_cons_of_mem _ hs'))]
    rw [ofBytesBE_toBytesBE_of_lt (by have := hi s (List.mem_cons_self ..); simpa using this)]

/-! ### `Fq12::read_big_endian ∘ write_big_endian = id` -/

theorem chunk_get (cs : List Fq) (i : Nat) (hi : i < cs.length) :
    fqOfBytes48 (((cs.flatMap fun c => toBytesBE 48 c.val).drop (48 * i)).take 48) = cs[i] := by
  induction cs generalizing i with
  | nil => simp at hi
  | cons c cs ih =>
    rw [List.flatMap_cons]
    cases i with
    | zero =>
      rw [Nat.mul_zero, List.drop_zero, List.take_left' (toBytesBE_length 48 _), fqOfBytes48_toBytesBE]
      rfl
    | succ i =>
      have e : 48 * (i + 1) = (toBytesBE 48 c.val).length + 48 * i := by rw [toBytesBE_length]; ring
      rw [e, ← List.drop_drop, List.drop_left, ih i (by simpa using hi)]
      rfl

theorem fq12OfBytes_fq12Bytes (a : Fq12) : fq12OfBytes (fq12Bytes a) = a := by
  unfold fq12OfBytes fq12Bytes
  simp only
  rw [chunk_get _ 0 (by simp [fq12Comps]), chunk_get _ 1 (by simp [fq12Comps]), chunk_get _ 2 (by simp [fq12Comps]),
    chunk_get _ 3 (by simp [fq12Comps]), chunk_get _ 4 (by simp [fq12Comps]), chunk_get _ 5 (by simp [fq12Comps]),
    chunk_get _ 6 (by simp [fq12Comps]), chunk_get _ 7 (by simp [fq12Comps]), chunk_get _ 8 (by simp [fq12Comps]),
    chunk_get _ 9 (by simp [fq12Comps]), chunk_get _ 10 (by simp [fq12Comps]), chunk_get _ 11 (by simp [fq12Comps])]
  rfl

/-! ### round trips -/

/-- the embedded group elements of a parameter object / a key -/
def WParams.g1Elems (pp : WParams) : List G1Pt := pp.g2 :: pp.g3 :: ((if pp.signatures then [pp.hsig] else []) ++ pp.h)
def WParams.g2Elems (pp : WParams) : List G2Pt := [pp.g, pp.g1]
def WKey.g1Elems (k : WKey) : List G1Pt := k.a0 :: ((if k.signatures then [k.bsig] else []) ++ k.b.map (·.2))

theorem firstByte_cons (b : UInt8) (bs : List UInt8) : firstByte (b :: bs) = b.toNat := rfl

/-- **`unmarshal (marshal pp) = pp`** for parameters, as soon as every embedded element decodes to itself, the stored
pairing value is `e(g2, g1)` (needed in compressed form only, where it is recomputed) and `hsig` is the identity when
signatures are not supported (what `setup` produces; `unmarshal` resets it). -/
theorem unmarshalParams_marshalParams (D : Decoders) (comp : Bool) (pp : WParams)
    (h1 : ∀ p ∈ WParams.g1Elems pp, D.dec1 comp (encG1 comp p) = some p)
    (h2 : ∀ p ∈ WParams.g2Elems pp, D.dec2 comp (encG2 comp p) = some p)
    (hpair : comp = true → pp.pairing = D.pair pp.g2 pp.g1)
    (hsig : pp.signatures = false → pp.hsig = Pt.inf) :
    unmarshalParams D comp (marshalParams comp pp) = some pp := by
  have hlen := unLen_marshalParams comp pp
  unfold unmarshalParams
  rw [hlen]
  simp only
  have hfb : firstByte (marshalParams comp pp) = if pp.signatures then 1 else 0 := firstByte_marshalParams comp pp
  rw [hfb]
  unfold marshalParams
  simp only [List.append_assoc, List.cons_append, List.nil_append]
  rw [show ∀ (x : UInt8) (xs : List UInt8), List.drop 1 (x :: xs) = xs from fun _ _ => rfl]
  have hg := h2 pp.g (by simp [WParams.g2Elems])
  have hg1 := h2 pp.g1 (by simp [WParams.g2Elems])
  have hg2 := h1 pp.g2 (by simp [WParams.g1Elems])
  have hg3 := h1 pp.g3 (by simp [WParams.g1Elems])
  have hh : ∀ p ∈ pp.h, D.dec1 comp (encG1 comp p) = some p := fun p hp => h1 p (by simp [WParams.g1Elems, hp])
  rw [readG2_append hg]; simp only
  rw [readG2_append hg1]; simp only
  rw [readG1_append hg2]; simp only
  rw [readG1_append hg3]; simp only
  obtain ⟨g, g1, g2, g3, pairing, hsg, sig, h⟩ := pp
  simp only at *
  have h0 : ((0 : Nat) != 0) = false := rfl
  have h1ne : ((1 : Nat) != 0) = true := rfl
  have hr := readG1s_append (rest := []) h hh
  rw [List.append_nil] at hr
  cases comp <;> cases sig
  · simp only [Bool.false_eq_true, if_false, List.nil_append]
    rw [takeN_append _ _ (fq12Bytes_length pairing)]
    simp only [h0, Bool.false_eq_true, if_false, hr, fq12OfBytes_fq12Bytes, hsig rfl]
  · have hhs : D.dec1 false (encG1 false hsg) = some hsg := h1 hsg (by simp [WParams.g1Elems])
    simp only [Bool.false_eq_true, if_false, if_true]
    rw [takeN_append _ _ (fq12Bytes_length pairing)]
    simp only [h1ne, if_true]
    rw [readG1_append hhs]
    simp only [hr, fq12OfBytes_fq12Bytes]
  · simp only [Bool.false_eq_true, if_false, if_true, List.nil_append, h0, hr, hsig rfl, hpair rfl]
  · have hhs : D.dec1 true (encG1 true hsg) = some hsg := h1 hsg (by simp [WParams.g1Elems])
    simp only [if_true, List.nil_append, h1ne]
    rw [readG1_append hhs]
    simp only [hr, hpair rfl]

/-- **`unmarshal (marshal k) = k`** for secret keys, as soon as every embedded element decodes to itself, the slot
indices fit in 32 bits, and `bsig` is the identity when signatures are not supported. -/
theorem unmarshalKey_marshalKey (D : Decoders) (comp : Bool) (k : WKey)
    (h1 : ∀ p ∈ WKey.g1Elems k, D.dec1 comp (encG1 comp p) = some p)
    (h2 : D.dec2 comp (encG2 comp k.a1) = some k.a1)
    (hidx : ∀ s ∈ k.b, s.1 < 2 ^ 32)
    (hsig : k.signatures = false → k.bsig = Pt.inf) :
    unmarshalKey D comp (marshalKey comp k) = some k := by
  have hlen := unLen_marshalKey comp k
  unfold unmarshalKey
  rw [hlen]
  simp only
  have hfb : firstByte (marshalKey comp k) = if k.signatures then 1 else 0 := firstByte_marshalKey comp k
  rw [hfb]
  unfold marshalKey
  simp only [List.append_assoc, List.cons_append, List.nil_append]
  rw [show ∀ (x : UInt8) (xs : List UInt8), List.drop 1 (x :: xs) = xs from fun _ _ => rfl]
  have ha0 := h1 k.a0 (by simp [WKey.g1Elems])
  have hb : ∀ s ∈ k.b, D.dec1 comp (encG1 comp s.2) = some s.2 := fun s hs =>
    h1 s.2 (by simp only [WKey.g1Elems, List.mem_cons, List.mem_append, List.mem_map]; exact Or.inr (Or.inr ⟨s, hs, rfl⟩))
  rw [readG1_append ha0]; simp only
  rw [readG2_append h2]; simp only
  obtain ⟨a0, a1, sig, bsig, b⟩ := k
  simp only at *
  have h0 : ((0 : Nat) != 0) = false := rfl
  have h1ne : ((1 : Nat) != 0) = true := rfl
  have hr := readSlots_append (rest := []) b hb hidx
  rw [List.append_nil] at hr
  cases sig
  · simp only [Bool.false_eq_true, if_false, List.nil_append, h0, hr, hsig rfl]
  · have hbs : D.dec1 comp (encG1 comp bsig) = some bsig := h1 bsig (by simp [WKey.g1Elems])
    simp only [if_true, h1ne]
    rw [readG1_append hbs]
    simp only [hr]

theorem unmarshalCt_marshalCt (D : Decoders) (comp : Bool) (ct : WCiphertext)
    (hb : D.dec2 comp (encG2 comp ct.b) = some ct.b) (hc : D.dec1 comp (encG1 comp ct.c) = some ct.c) :
    unmarshalCt D comp (marshalCt comp ct) = some ct := by
  unfold unmarshalCt marshalCt
  rw [List.append_assoc, takeN_append _ _ (fq12Bytes_length ct.a)]
  simp only
  rw [readG2_append hb]
  simp only
  have := readG1_append hc []
  rw [List.append_nil] at this
  rw [this, fq12OfBytes_fq12Bytes]

theorem unmarshalSig_marshalSig (D : Decoders) (comp : Bool) (s : WSignature)
    (h0 : D.dec1 comp (encG1 comp s.a0) = some s.a0) (h1 : D.dec2 comp (encG2 comp s.a1) = some s.a1) :
    unmarshalSig D comp (marshalSig comp s) = some s := by
  unfold unmarshalSig marshalSig
  rw [readG1_append h0]
  simp only
  have := readG2_append h1 []
  rw [List.append_nil] at this
  rw [this]

theorem unmarshalMsk_marshalMsk (D : Decoders) (comp : Bool) (m : G1Pt)
    (h : D.dec1 comp (encG1 comp m) = some m) : unmarshalMsk D comp (marshalMsk comp m) = some m := by
  unfold unmarshalMsk marshalMsk
  have := readG1_append h []
  rw [List.append_nil] at this
  rw [this]; rfl

/-! ### the library's decoders -/

/-- a group element the validating decoders accept: on the curve and of order dividing r. -/
def validG1 (p : G1Pt) : Prop := Pt.isOnCurve g1B p = true ∧ inSubgroup p = true
def validG2 (p : G2Pt) : Prop := Pt.isOnCurve g2B p = true ∧ inSubgroup p = true

-- `libDecoders checked pair` (`Encoding::decode(·, checked)` as modelled in `Impl/Encode.lean`), `checkedDecoders pair`
-- (the repaired validating decode, with `coordinate_is_canonical`) and `canonicalDecoders pair` (what the judge runs
-- the readers with) are defined in `Impl/Marshal.lean`.

theorem libDecoders_dec1 (checked : Bool) (pair) (comp : Bool) {p : G1Pt} (h : validG1 p) :
    (libDecoders checked pair).dec1 comp (encG1 comp p) = some p :=
  decode_encode_G1 comp checked p h.1 (fun _ => h.2)
theorem libDecoders_dec2 (checked : Bool) (pair) (comp : Bool) {p : G2Pt} (h : validG2 p) :
    (libDecoders checked pair).dec2 comp (encG2 comp p) = some p :=
  decode_encode_G2 comp checked p h.1 (fun _ => h.2)
theorem checkedDecoders_dec1 (pair) (comp : Bool) {p : G1Pt} (h : validG1 p) :
    (checkedDecoders pair).dec1 comp (encG1 comp p) = some p := decodeChecked_encG1 comp p h.1 h.2
theorem checkedDecoders_dec2 (pair) (comp : Bool) {p : G2Pt} (h : validG2 p) :
    (checkedDecoders pair).dec2 comp (encG2 comp p) = some p := decodeChecked_encG2 comp p h.1 h.2

/-- `D` decodes every valid element's encoding to the element (true for `libDecoders`, `checkedDecoders`). -/
structure Decoders.Good (D : Decoders) : Prop where
  g1 : ∀ comp p, validG1 p → D.dec1 comp (encG1 comp p) = some p
  g2 : ∀ comp p, validG2 p → D.dec2 comp (encG2 comp p) = some p

theorem libDecoders_good (checked : Bool) (pair) : (libDecoders checked pair).Good :=
  ⟨fun comp _ h => libDecoders_dec1 checked pair comp h, fun comp _ h => libDecoders_dec2 checked pair comp h⟩
theorem checkedDecoders_good (pair) : (checkedDecoders pair).Good :=
  ⟨fun comp _ h => checkedDecoders_dec1 pair comp h, fun comp _ h => checkedDecoders_dec2 pair comp h⟩

end Unmarshal
end Jedi.Impl

namespace Jedi.Impl
open Jedi Jedi.Wk

/-! ## Object-level round trips for objects made of valid group elements -/
section Objects

/-- parameters whose group elements are on the curve and in the subgroup, `hsig` the identity when unused. -/
structure WParams.Valid (pp : WParams) : Prop where
  g1 : ∀ p ∈ WParams.g1Elems pp, validG1 p
  g2 : ∀ p ∈ WParams.g2Elems pp, validG2 p
  hsig : pp.signatures = false → pp.hsig = Pt.inf

/-- secret keys likewise, with slot indices below 2³² (they are `uint32_t` in the library). -/
structure WKey.Valid (k : WKey) : Prop where
  g1 : ∀ p ∈ WKey.g1Elems k, validG1 p
  a1 : validG2 k.a1
  idx : ∀ s ∈ k.b, s.1 < 2 ^ 32
  bsig : k.signatures = false → k.bsig = Pt.inf

theorem unmarshalParams_marshalParams_valid {D : Decoders} (hD : D.Good) (comp : Bool) {pp : WParams}
    (hv : pp.Valid) (hpair : comp = true → pp.pairing = D.pair pp.g2 pp.g1) :
    unmarshalParams D comp (marshalParams comp pp) = some pp :=
  unmarshalParams_marshalParams D comp pp (fun p hp => hD.g1 comp p (hv.g1 p hp))
    (fun p hp => hD.g2 comp p (hv.g2 p hp)) hpair hv.hsig

theorem unmarshalKey_marshalKey_valid {D : Decoders} (hD : D.Good) (comp : Bool) {k : WKey} (hv : k.Valid) :
    unmarshalKey D comp (marshalKey comp k) = some k :=
  unmarshalKey_marshalKey D comp k (fun p hp => hD.g1 comp p (hv.g1 p hp)) (hD.g2 comp _ hv.a1) hv.idx hv.bsig

theorem unmarshalCt_marshalCt_valid {D : Decoders} (hD : D.Good) (comp : Bool) {ct : WCiphertext}
    (hb : validG2 ct.b) (hc : validG1 ct.c) : unmarshalCt D comp (marshalCt comp ct) = some ct :=
  unmarshalCt_marshalCt D comp ct (hD.g2 comp _ hb) (hD.g1 comp _ hc)

theorem unmarshalSig_marshalSig_valid {D : Decoders} (hD : D.Good) (comp : Bool) {s : WSignature}
    (h0 : validG1 s.a0) (h1 : validG2 s.a1) : unmarshalSig D comp (marshalSig comp s) = some s :=
  unmarshalSig_marshalSig D comp s (hD.g1 comp _ h0) (hD.g2 comp _ h1)

theorem unmarshalMsk_marshalMsk_valid {D : Decoders} (hD : D.Good) (comp : Bool) {m : G1Pt} (h : validG1 m) :
    unmarshalMsk D comp (marshalMsk comp m) = some m :=
  unmarshalMsk_marshalMsk D comp m (hD.g1 comp _ h)

/-- the two wire forms carry the same object: unmarshalling the compressed image and the uncompressed image of valid
parameters gives the same result (for the pairing value: provided it is `e(g2, g1)`). -/
theorem unmarshalParams_compressed_eq_uncompressed {D : Decoders} (hD : D.Good) {pp : WParams} (hv : pp.Valid)
    (hpair : pp.pairing = D.pair pp.g2 pp.g1) :
    unmarshalParams D true (marshalParams true pp) = unmarshalParams D false (marshalParams false pp) := by
  rw [unmarshalParams_marshalParams_valid hD true hv (fun _ => hpair),
    unmarshalParams_marshalParams_valid hD false hv (fun h => by cases h)]

theorem unmarshalKey_compressed_eq_uncompressed {D : Decoders} (hD : D.Good) {k : WKey} (hv : k.Valid) :
    unmarshalKey D true (marshalKey true k) = unmarshalKey D false (marshalKey false k) := by
  rw [unmarshalKey_marshalKey_valid hD true hv, unmarshalKey_marshalKey_valid hD false hv]

/-- lengths of the two fixed-size objects -/
theorem marshalCt_length (comp : Bool) (ct : WCiphertext) :
    (marshalCt comp ct).length = 576 + g2Size comp + g1Size comp := by
  unfold marshalCt
  rw [List.length_append, List.length_append, fq12Bytes_length, encG2_length, encG1_length]
theorem marshalSig_length (comp : Bool) (s : WSignature) :
    (marshalSig comp s).length = g1Size comp + g2Size comp := by
  unfold marshalSig
  rw [List.length_append, encG1_length, encG2_length]

theorem takeN_some {n : Nat} {bs c rest : List UInt8} (h : takeN n bs = some (c, rest)) :
    c.length = n ∧ bs = c ++ rest := by
  unfold takeN at h
  split at h
  · cases h
  · injection h with h; injection h with h1 h2
    subst h1; subst h2
    exact ⟨by rw [List.length_take]; omega, (List.take_append_drop n bs).symm⟩

theorem readG1_checked_some {pair} {comp : Bool} {bs rest : List UInt8} {p : G1Pt}
    (h : readG1 (checkedDecoders pair) comp bs = some (p, rest)) :
    validG1 p ∧ bs = encG1 comp p ++ rest := by
  unfold readG1 at h
  split at h
  · cases h
  · rename_i c rest' ht
    obtain ⟨hl, hb⟩ := takeN_some ht
    split at h
    · cases h
    · rename_i p' hd
      injection h with h; injection h with h1 h2
      subst h1; subst h2
      obtain ⟨hc, hs, he⟩ := (decodeChecked_iff_G1 comp c hl p').mp hd
      exact ⟨⟨hc, hs⟩, by rw [he]; exact hb⟩

theorem readG2_checked_some {pair} {comp : Bool} {bs rest : List UInt8} {p : G2Pt}
    (h : readG2 (checkedDecoders pair) comp bs = some (p, rest)) :
    validG2 p ∧ bs = encG2 comp p ++ rest := by
  unfold readG2 at h
  split at h
  · cases h
  · rename_i c rest' ht
    obtain ⟨hl, hb⟩ := takeN_some ht
    split at h
    · cases h
    · rename_i p' hd
      injection h with h; injection h with h1 h2
      subst h1; subst h2
      obtain ⟨hc, hs, he⟩ := (decodeChecked_iff_G2 comp c hl p').mp hd
      exact ⟨⟨hc, hs⟩, by rw [he]; exact hb⟩

/-- **object-level canonicity (signatures)**: validating unmarshal accepts a buffer of the right size iff it is the
marshalled image of a signature made of valid elements — and returns that signature. -/
theorem unmarshalSig_checked_iff (pair) (comp : Bool) (bs : List UInt8) (hl : bs.length = g1Size comp + g2Size comp)
    (s : WSignature) :
    unmarshalSig (checkedDecoders pair) comp bs = some s ↔
      (validG1 s.a0 ∧ validG2 s.a1 ∧ marshalSig comp s = bs) := by
  constructor
  · intro h
    unfold unmarshalSig at h
    split at h
    · cases h
    · rename_i a0 r1 h1
      split at h
      · cases h
      · rename_i a1 r2 h2
        injection h with h; subst h
        obtain ⟨v0, e0⟩ := readG1_checked_some h1
        obtain ⟨v1, e1⟩ := readG2_checked_some h2
        refine ⟨v0, v1, ?_⟩
        have hr2 : r2 = [] := by
          have := congrArg List.length e0
          rw [e1, List.length_append, List.length_append, encG1_length, encG2_length, hl] at this
          exact List.eq_nil_of_length_eq_zero (by omega)
        rw [e0, e1, hr2, List.append_nil]; rfl
  · rintro ⟨v0, v1, rfl⟩
    exact unmarshalSig_marshalSig_valid (checkedDecoders_good pair) comp v0 v1

/-- **object-level canonicity (master keys)**. -/
theorem unmarshalMsk_checked_iff (pair) (comp : Bool) (bs : List UInt8) (hl : bs.length = g1Size comp) (m : G1Pt) :
    unmarshalMsk (checkedDecoders pair) comp bs = some m ↔ (validG1 m ∧ marshalMsk comp m = bs) := by
  constructor
  · intro h
    unfold unmarshalMsk at h
    cases hr : readG1 (checkedDecoders pair) comp bs with
    | none => rw [hr] at h; cases h
    | some pr =>
      obtain ⟨p, rest⟩ := pr
      rw [hr] at h
      injection h with h
      simp only at h; subst h
      obtain ⟨v, e⟩ := readG1_checked_some hr
      refine ⟨v, ?_⟩
      have hr2 : rest = [] := by
        have := congrArg List.length e
        rw [List.length_append, encG1_length, hl] at this
        exact List.eq_nil_of_length_eq_zero (by omega)
      rw [e, hr2, List.append_nil]; rfl
  · rintro ⟨v, rfl⟩
    exact unmarshalMsk_marshalMsk_valid (checkedDecoders_good pair) comp v

end Objects
end Jedi.Impl

namespace Jedi.Impl
open Jedi Jedi.Wk

/-! ## The decoders the judge runs the readers with give the same results as the repaired validating decode

`Driver/Judge6.lean` parses every marshalled buffer with the readers of `Impl/Marshal.lean` over `canonicalDecoders`
(`decodeCanonical`, order test by the Jacobian `Pt.smulFast`).  On chunks of the size the readers cut out this is
`decodeChecked` with the affine order test `inSubgroup`, so every reader returns the same value over
`canonicalDecoders pair` and over `checkedDecoders pair`: the objects of the theorems above and of `Properties/C15b.lean`
are the ones executed against the real code. -/
section JudgeDecoders

theorem decodeCanonical_congr {F : Type} (o : FieldOps F) {inSub inSub' : Pt F → Bool} (onC : Pt F → Bool)
    (h : ∀ p, onC p = true → inSub p = inSub' p) (comp : Bool) (bs : List UInt8) :
    decodeCanonical o inSub onC comp bs = decodeCanonical o inSub' onC comp bs := by
  unfold decodeCanonical
  split
  · rfl
  · rename_i p _
    cases hc : onC p
    · simp
    · rw [h p hc]

theorem canonicalDecoders_dec1 (pair : G1Pt → G2Pt → Fq12) (comp : Bool) (bs : List UInt8)
    (hl : bs.length = g1Size comp) :
    (canonicalDecoders pair).dec1 comp bs = (checkedDecoders pair).dec1 comp bs := by
  show decodeCanonical opsFq (fun p => Pt.smulFast r p == .inf) (Pt.isOnCurve g1B) comp bs =
    decodeChecked opsFq inSubgroup comp bs
  rw [decodeChecked_eq_canonical_G1 comp bs hl]
  refine decodeCanonical_congr opsFq _ (fun p hp => ?_) comp bs
  show (Pt.smulFast r p == .inf) = (Pt.smul r p == .inf)
  rw [smulFast_eq' fq_two_ne_zero hp]

theorem canonicalDecoders_dec2 (pair : G1Pt → G2Pt → Fq12) (comp : Bool) (bs : List UInt8)
    (hl : bs.length = g2Size comp) :
    (canonicalDecoders pair).dec2 comp bs = (checkedDecoders pair).dec2 comp bs := by
  show decodeCanonical opsFq2 (fun p => Pt.smulFast r p == .inf) (Pt.isOnCurve g2B) comp bs =
    decodeChecked opsFq2 inSubgroup comp bs
  rw [decodeChecked_eq_canonical_G2 comp bs hl]
  refine decodeCanonical_congr opsFq2 _ (fun p hp => ?_) comp bs
  show (Pt.smulFast r p == .inf) = (Pt.smul r p == .inf)
  rw [smulFast_eq' Fq2.two_ne_zero hp]

/-- two decoder records the readers cannot tell apart -/
structure Decoders.Agree (D D' : Decoders) : Prop where
  g1 : ∀ comp bs, readG1 D comp bs = readG1 D' comp bs
  g2 : ∀ comp bs, readG2 D comp bs = readG2 D' comp bs
  pair : D.pair = D'.pair

theorem canonicalDecoders_agree (pair : G1Pt → G2Pt → Fq12) :
    (canonicalDecoders pair).Agree (checkedDecoders pair) where
  g1 comp bs := by
    unfold readG1
    cases ht : takeN (g1Size comp) bs with
    | none => rfl
    | some cr =>
      obtain ⟨c, rest⟩ := cr
      simp only
      rw [canonicalDecoders_dec1 pair comp c (takeN_some ht).1]
  g2 comp bs := by
    unfold readG2
    cases ht : takeN (g2Size comp) bs with
    | none => rfl
    | some cr =>
      obtain ⟨c, rest⟩ := cr
      simp only
      rw [canonicalDecoders_dec2 pair comp c (takeN_some ht).1]
  pair := rfl

variable {D D' : Decoders}

theorem readG1s_congr (h : D.Agree D') (comp : Bool) (k : Nat) (bs : List UInt8) :
    readG1s D comp k bs = readG1s D' comp k bs := by
  induction k generalizing bs with
  | zero => rfl
  | succ k ih =>
    rw [readG1s, readG1s, h.g1]
    simp only [ih]

theorem readSlots_congr (h : D.Agree D') (comp : Bool) (k : Nat) (bs : List UInt8) :
    readSlots D comp k bs = readSlots D' comp k bs := by
  induction k generalizing bs with
  | zero => rfl
  | succ k ih =>
    rw [readSlots, readSlots, h.g1]
    simp only [ih]

theorem unmarshalParams_congr (h : D.Agree D') (comp : Bool) (bs : List UInt8) :
    unmarshalParams D comp bs = unmarshalParams D' comp bs := by
  unfold unmarshalParams
  simp only [h.g1, h.g2, h.pair, readG1s_congr h]

theorem unmarshalKey_congr (h : D.Agree D') (comp : Bool) (bs : List UInt8) :
    unmarshalKey D comp bs = unmarshalKey D' comp bs := by
  unfold unmarshalKey
  simp only [h.g1, h.g2, readSlots_congr h]

theorem unmarshalCt_congr (h : D.Agree D') (comp : Bool) (bs : List UInt8) :
    unmarshalCt D comp bs = unmarshalCt D' comp bs := by
  unfold unmarshalCt
  simp only [h.g1, h.g2]

theorem unmarshalSig_congr (h : D.Agree D') (comp : Bool) (bs : List UInt8) :
    unmarshalSig D comp bs = unmarshalSig D' comp bs := by
  unfold unmarshalSig
  simp only [h.g1, h.g2]

theorem unmarshalMsk_congr (h : D.Agree D') (comp : Bool) (bs : List UInt8) :
    unmarshalMsk D comp bs = unmarshalMsk D' comp bs := by
  unfold unmarshalMsk
  rw [h.g1]

/-- **what the judge executes is what the theorems are about**: for every buffer, the readers over the judge's
decoders return what they return over the repaired validating decode. -/
theorem unmarshalParams_canonicalDecoders (pair : G1Pt → G2Pt → Fq12) (comp : Bool) (bs : List UInt8) :
    unmarshalParams (canonicalDecoders pair) comp bs = unmarshalParams (checkedDecoders pair) comp bs :=
  unmarshalParams_congr (canonicalDecoders_agree pair) comp bs
theorem unmarshalKey_canonicalDecoders (pair : G1Pt → G2Pt → Fq12) (comp : Bool) (bs : List UInt8) :
    unmarshalKey (canonicalDecoders pair) comp bs = unmarshalKey (checkedDecoders pair) comp bs :=
  unmarshalKey_congr (canonicalDecoders_agree pair) comp bs
theorem unmarshalCt_canonicalDecoders (pair : G1Pt → G2Pt → Fq12) (comp : Bool) (bs : List UInt8) :
    unmarshalCt (canonicalDecoders pair) comp bs = unmarshalCt (checkedDecoders pair) comp bs :=
  unmarshalCt_congr (canonicalDecoders_agree pair) comp bs
theorem unmarshalSig_canonicalDecoders (pair : G1Pt → G2Pt → Fq12) (comp : Bool) (bs : List UInt8) :
    unmarshalSig (canonicalDecoders pair) comp bs = unmarshalSig (checkedDecoders pair) comp bs :=
  unmarshalSig_congr (canonicalDecoders_agree pair) comp bs
theorem unmarshalMsk_canonicalDecoders (pair : G1Pt → G2Pt → Fq12) (comp : Bool) (bs : List UInt8) :
    unmarshalMsk (canonicalDecoders pair) comp bs = unmarshalMsk (checkedDecoders pair) comp bs :=
  unmarshalMsk_congr (canonicalDecoders_agree pair) comp bs

/-- in particular the judge's decoders are `Good`: all the round-trip theorems apply to them. -/
theorem canonicalDecoders_good (pair : G1Pt → G2Pt → Fq12) : (canonicalDecoders pair).Good where
  g1 comp p h := by
    rw [canonicalDecoders_dec1 pair comp _ (encG1_length comp p)]; exact checkedDecoders_dec1 pair comp h
  g2 comp p h := by
    rw [canonicalDecoders_dec2 pair comp _ (encG2_length comp p)]; exact checkedDecoders_dec2 pair comp h

end JudgeDecoders
end Jedi.Impl
