/-
Theorems about the AArch64 assembly of /repo/src/core/arch/aarch64/{bigint.s, multiply.s}, as regenerated into
`JediVerif/Gen/AsmA64.lean` by translate/arm2lean.py and given meaning by the interpreter of `JediVerif/Impl/A64.lean`.
This file: the shared infrastructure and the three leaf routines `bigint_384_add`, `bigint_384_subtract`,
`bigint_384_multiply2`; the multiplication, squaring, Montgomery reduction and the two fused routines are in
`A64ProofsMul.lean`, `A64ProofsSqr.lean`, `A64ProofsMont.lean`, `A64ProofsFpMul{Parts,}.lean`, `A64ProofsFpSqr{Parts,}.lean`;
the property statements in `Properties/C03c.lean`.

For EVERY machine state that satisfies AAPCS64 at the routine's entry (arbitrary pointer values, memory contents,
other registers; the flags N Z C V unknown; the objects 8-byte aligned, inside the address space, readable / writable
as the C signature says) the theorem `*_run` says: running the generated program for the stated number of steps
  * ends in `halted` by `ret` to the address in X30, with SP, X19–X29 and X18 unchanged (`Returned`) — in particular no
    fault: no unaligned or unpermitted access, no SP-alignment fault, no use of an unknown flag;
  * leaves in the result object exactly the Nat-level contract — the same contracts the portable models meet in
    `Properties/C02.lean` and the x86-64 routines in `Properties/C03.lean`, `C03b.lean`;
  * changes no other memory (except the register save area just below SP, for the routines that have one).

Method (the one of `AsmProofs.lean` for x86-64): symbolic execution by `simp` with one equation per instruction form
(`a64_sym`; `fetchInstr` reads the instruction out of the generated array literal, `runStep` takes a step only on an
explicit state record whose status is `running`), on a state whose registers and memory words are variables; every
intermediate `addWithCarry` / `mulLo` / `mulHi` result is named beforehand so the terms stay small; side conditions
(alignment, no wrap-around, read-over-write address inequalities) are looked up in the context or go to `omega` in a
context reduced to the one relevant separation hypothesis (`Hide`, `omega_hidden`).  AArch64 specifics: post- and pre-index
addressing with write-back (pointer registers become `p + 16#64·k`, normalised by `BitVec.add_assoc`; SP-relative
addresses `sp − 16·k` by `sub16x…_toNat`), the SP alignment check on every SP-based access, subtraction as
`AddWithCarry(x, NOT y, C)` with C = NOT borrow (`sbc_spec`), `cset` (`cselAlt`, `cset_toNat`).
-/
import JediVerif.Gen.AsmA64
import JediVerif.Proofs.AsmMulProofs
import Lean
import Mathlib.Tactic.ClearExcept
import Mathlib.Tactic.LinearCombination

set_option linter.unusedSimpArgs false

namespace Jedi.A64
open Lean Meta Simp
open Jedi.Impl (val WF val_cons val_nil val_lt val_inj)
open Jedi.X86 (limbs limbs_six limbs_twelve limbs_length limbs_WF Hide Hide.mk Hide.out ea_toNat)

/-! ## Infrastructure -/

/-- the elements of an array expression built from constants, `++` and array literals -/
partial def arrayElems? (e : Expr) : MetaM (Option (Array Expr)) := do
  let e ← instantiateMVars e
  match_expr e with
  | HAppend.hAppend _ _ _ _ a b =>
    let some xs ← arrayElems? a | return none
    let some ys ← arrayElems? b | return none
    return some (xs ++ ys)
  | List.toArray _ l =>
    let mut l := l
    let mut out := #[]
    repeat
      l := l.consumeMData
      if let .letE _ _ v b _ := l then
        l := b.instantiate1 v
        continue
      match_expr l with
      | List.cons _ a tl => out := out.push a; l := tl
      | List.nil _ => return some out
      | _ => return none
    return none
  | _ =>
    match ← withDefault (unfoldDefinition? e) with
    | some e' => arrayElems? e'
    | none => return none

/-- `prog[i]?` for a program constant (an array literal, or chunks joined by `++`) and a literal index: the
`i`-th instruction exactly as it is written in the generated file. -/
dsimproc fetchInstr ((_ : Array Instr)[_]?) := fun e => do
  let args := e.getAppArgs
  if args.size != 7 then return .continue
  let some n ← Nat.fromExpr? args[6]! | return .continue
  let some xs ← arrayElems? args[5]! | return .continue
  if h : n < xs.size then
    return .done (← mkAppM ``Option.some #[xs[n]])
  else
    return .done (← mkAppOptM ``Option.none #[some (mkConst ``Instr)])

theorem run_succ (p : Program) (s : State) (n : Nat) :
    run p s (n + 1) = match s.status with | .running => run p (step p s) n | _ => s := rfl
theorem run_zero (p : Program) (s : State) : run p s 0 = s := rfl
theorem run_succ_running (p : Program) (s : State) (n : Nat) (h : s.status = .running) :
    run p s (n + 1) = run p (step p s) n := by rw [run_succ, h]
theorem run_succ_stopped (p : Program) (s : State) (n : Nat) (h : s.status ≠ .running) :
    run p s (n + 1) = s := by
  rw [run_succ]; split
  · contradiction
  · rfl

theorem State.eta (s : State) : s = ⟨s.x0, s.x1, s.x2, s.x3, s.x4, s.x5, s.x6, s.x7, s.x8, s.x9, s.x10, s.x11, s.x12,
    s.x13, s.x14, s.x15, s.x16, s.x17, s.x18, s.x19, s.x20, s.x21, s.x22, s.x23, s.x24, s.x25, s.x26, s.x27, s.x28,
    s.x29, s.x30, s.sp, s.nf, s.zf, s.cf, s.vf, s.mem, s.readable, s.writable, s.pc, s.status⟩ := rfl

/-- one interpreter step, taken only when the state is an explicit record whose status field is the
constructor `running`; a halted state ends the run -/
simproc runStep (run _ _ _) := fun e => do
  let_expr run p s n := e | return .continue
  let some k ← Nat.fromExpr? n | return .continue
  if k == 0 then return .done { expr := s }
  let s := (← instantiateMVars s).consumeMData
  unless s.isAppOfArity ``State.mk 41 do return .continue
  let st := s.appArg!.consumeMData
  let n' := mkNatLit (k - 1)
  if st.isConstOf ``Status.running then
    let prf := mkApp4 (mkConst ``run_succ_running) p s n' (← mkEqRefl st)
    return .visit { expr := mkApp3 (mkConst ``run) p (mkApp2 (mkConst ``step) p s) n', proof? := some prf }
  else if st.isConstOf ``Status.halted then
    let prf := mkApp4 (mkConst ``run_succ_stopped) p s n' (← mkDecideProof (← mkAppM ``Ne #[st, mkConst ``Status.running]))
    return .done { expr := s, proof? := some prf }
  else return .continue

theorem run_of_not_running (p : Program) (s : State) (n : Nat) (h : s.status ≠ .running) : run p s n = s := by
  cases n with
  | zero => rfl
  | succ n => rw [run_succ]; split <;> simp_all

theorem run_add (p : Program) (s : State) (m n : Nat) : run p s (m + n) = run p (run p s m) n := by
  induction m generalizing s with
  | zero => simp [run_zero]
  | succ m ih =>
    rw [show m + 1 + n = (m + n) + 1 by omega, run_succ, run_succ]
    split
    · exact ih _
    · rename_i h; rw [run_of_not_running]; simpa using h

theorem run_stable (p : Program) (s : State) (m n : Nat) (h : (run p s m).status ≠ .running) (hmn : m ≤ n) :
    run p s n = run p s m := by
  obtain ⟨k, rfl⟩ := Nat.exists_eq_add_of_le hmn
  rw [run_add, run_of_not_running _ _ _ h]

theorem run_fuel {p : Program} {s s' : State} {n : Nat} (h : run p s n = s') (hh : s'.status = .halted)
    (fuel : Nat) (hf : n ≤ fuel) : run p s fuel = s' := by
  rw [run_stable p s n fuel (by rw [h, hh]; decide) hf, h]

theorem run_chain {p : Program} {s s1 s2 : State} {m n : Nat} (h1 : run p s m = s1) (h2 : run p s1 n = s2) :
    run p s (m + n) = s2 := by rw [run_add, h1, h2]

/-! ### the instruction forms that occur, one equation each -/

theorem exec_addsubReg (s : State) (op : AddSub) (sf : Bool) (d n m : RegZ) :
    exec s (.addsubReg op sf d n m)
      = (if sf then (s.setZ d (addsub op (s.getZ n) (s.getZ m) none).val).setFlags (addsub op (s.getZ n) (s.getZ m) none)
         else s.setZ d (addsub op (s.getZ n) (s.getZ m) none).val).next := rfl

theorem exec_addsubsImm (s : State) (op : AddSub) (d : RegZ) (n : RegSP) (imm : Nat) :
    exec s (.addsubsImm op d n imm)
      = ((s.setZ d (addsub op (s.getSP n) (BitVec.ofNat 64 imm) none).val).setFlags
          (addsub op (s.getSP n) (BitVec.ofNat 64 imm) none)).next := rfl

theorem exec_adcsbc (s : State) (op : AddSub) (sf : Bool) (d n m : RegZ) :
    exec s (.adcsbc op sf d n m)
      = match s.cf with
        | none => s.raise .undefFlag
        | some c =>
          (if sf then (s.setZ d (addsub op (s.getZ n) (s.getZ m) (some c)).val).setFlags
              (addsub op (s.getZ n) (s.getZ m) (some c))
           else s.setZ d (addsub op (s.getZ n) (s.getZ m) (some c)).val).next := rfl

/-- low / high qword of the 128-bit product, in the form the interpreter writes them -/
def mulLo (x y : Word) : Word := BitVec.ofNat 64 (x.toNat * y.toNat)
def mulHi (x y : Word) : Word := BitVec.ofNat 64 (x.toNat * y.toNat / 2 ^ 64)

theorem exec_mul (s : State) (d n m : RegZ) :
    exec s (.mul d n m) = (s.setZ d (mulLo (s.getZ n) (s.getZ m))).next := rfl
theorem exec_umulh (s : State) (d n m : RegZ) :
    exec s (.umulh d n m) = (s.setZ d (mulHi (s.getZ n) (s.getZ m))).next := rfl

/-- what CSEL/CSINC/CSINV/CSNEG write when the condition fails -/
def cselAlt (op : CselOp) (y : Word) : Word :=
  match op with
  | .sel => y
  | .inc => y + 1
  | .inv => ~~~ y
  | .neg => 0 - y

theorem exec_csel (s : State) (op : CselOp) (d n m : RegZ) (c : Cond) :
    exec s (.csel op d n m c)
      = match s.cond c with
        | none => s.raise .undefFlag
        | some b => (s.setZ d (bif b then s.getZ n else cselAlt op (s.getZ m))).next := by
  show (match s.cond c with
        | none => s.raise .undefFlag
        | some true => (s.setZ d (s.getZ n)).next
        | some false => (s.setZ d (cselAlt op (s.getZ m))).next) = _
  rcases s.cond c with _ | _ | _ <;> rfl

theorem exec_ldp (s : State) (mode : AddrMode) (t1 t2 : RegZ) (base : RegSP) (imm : Int) :
    exec s (.ldp mode t1 t2 base imm)
      = match s.addr mode base imm with
        | .error f => s.raise f
        | .ok (a, wb) =>
          match s.load a, s.load (a + 8) with
          | .ok v1, .ok v2 => (((s.writeback base wb).setZ t1 v1).setZ t2 v2).next
          | .error f, _ => s.raise f
          | _, .error f => s.raise f := rfl

theorem exec_stp (s : State) (mode : AddrMode) (t1 t2 : RegZ) (base : RegSP) (imm : Int) :
    exec s (.stp mode t1 t2 base imm)
      = match s.addr mode base imm with
        | .error f => s.raise f
        | .ok (a, wb) =>
          match s.store a (s.getZ t1) with
          | .error f => s.raise f
          | .ok s1 =>
            match s1.store (a + 8) (s.getZ t2) with
            | .error f => s.raise f
            | .ok s2 => (s2.writeback base wb).next := by
  show (match s.addr mode base imm with
        | .error f => s.raise f
        | .ok (a, wb) =>
          s.fin (do let s1 ← s.store a (s.getZ t1); let s2 ← s1.store (a + 8) (s.getZ t2); pure (s2.writeback base wb))) = _
  generalize s.addr mode base imm = r
  rcases r with f | ⟨a, wb⟩
  · rfl
  · show s.fin (do let s1 ← s.store a (s.getZ t1); let s2 ← s1.store (a + 8) (s.getZ t2); pure (s2.writeback base wb))
      = match s.store a (s.getZ t1) with
        | .error f => s.raise f
        | .ok s1 =>
          match s1.store (a + 8) (s.getZ t2) with
          | .error f => s.raise f
          | .ok s2 => (s2.writeback base wb).next
    generalize s.store a (s.getZ t1) = r1
    rcases r1 with f | s1
    · rfl
    · show s.fin (do let s2 ← s1.store (a + 8) (s.getZ t2); pure (s2.writeback base wb))
        = match s1.store (a + 8) (s.getZ t2) with
          | .error f => s.raise f
          | .ok s2 => (s2.writeback base wb).next
      generalize s1.store (a + 8) (s.getZ t2) = r2
      rcases r2 with f | s2 <;> rfl

theorem exec_bcond (s : State) (c : Cond) (t : Nat) :
    exec s (.bcond c t)
      = match s.cond c with
        | none => s.raise .undefFlag
        | some true => { s with pc := t }
        | some false => s.next := rfl

theorem exec_ret (s : State) (r : Reg) : exec s (.ret r) = { s with pc := (s.get r).toNat, status := .halted } := rfl

/-! ### conditions -/

theorem cond_cs (s : State) : s.cond .cs = s.cf := rfl
theorem cond_cc (s : State) : s.cond .cc = s.cf.map (!·) := rfl
theorem cond_hi (s : State) :
    s.cond .hi = match s.cf, s.zf with
      | some c, some z => some (c && !z)
      | _, _ => none := by
  show (do let c ← s.cf; let z ← s.zf; pure (c && !z)) = _
  cases s.cf <;> cases s.zf <;> rfl

/-! ### addresses -/

theorem addr_post_x (s : State) (r : Reg) (imm : Int) :
    s.addr .post (.x r) imm = .ok ((s.get r).toNat, some (s.get r + BitVec.ofInt 64 imm)) := by
  simp [State.addr, State.getSP]

theorem addr_pre_sp (s : State) (imm : Int) (h : s.sp.toNat % 16 = 0) :
    s.addr .pre .sp imm = .ok ((s.sp + BitVec.ofInt 64 imm).toNat, some (s.sp + BitVec.ofInt 64 imm)) := by
  simp [State.addr, State.getSP, h]

theorem addr_post_sp (s : State) (imm : Int) (h : s.sp.toNat % 16 = 0) :
    s.addr .post .sp imm = .ok (s.sp.toNat, some (s.sp + BitVec.ofInt 64 imm)) := by
  simp [State.addr, State.getSP, h]

theorem ofInt_16 : BitVec.ofInt 64 16 = 16#64 := by decide
theorem add_ofInt_neg16 (x : Word) : x + BitVec.ofInt 64 (-16) = x - 16#64 := by
  rw [show BitVec.ofInt 64 (-16) = -(16#64) by decide, BitVec.sub_eq_add_neg]

theorem load_ok (s : State) (a : Nat) (h1 : a % 8 = 0) (h2 : s.readable a = true) : s.load a = .ok (s.mem a) := by
  simp [State.load, h1, h2]
theorem store_ok (s : State) (a : Nat) (v : Word) (h1 : a % 8 = 0) (h2 : s.writable a = true) :
    s.store a v = .ok { s with mem := setMem s.mem a v } := by
  simp [State.store, h1, h2]

theorem setMem_eq (m : Nat → Word) (a : Nat) (v : Word) : setMem m a v a = v := by simp [setMem]
theorem setMem_ne (m : Nat → Word) (a k : Nat) (v : Word) (h : ¬ k = a) : setMem m a v k = m k := by simp [setMem, h]
/-- same base, different literal offsets: decided without a discharger -/
theorem setMem_off (m : Nat → Word) (b i j : Nat) (v : Word) (h : (j == i) = false) :
    setMem m (b + i) v (b + j) = m (b + j) := by
  apply setMem_ne; intro e; have := Nat.add_left_cancel e; simp_all
theorem setMem_off0 (m : Nat → Word) (b i : Nat) (v : Word) (h : (i == 0) = false) :
    setMem m (b + i) v b = m b := by
  apply setMem_ne; intro e; simp_all
theorem setMem_0off (m : Nat → Word) (b j : Nat) (v : Word) (h : (j == 0) = false) :
    setMem m b v (b + j) = m (b + j) := by
  apply setMem_ne; intro e; simp_all

theorem sub16_toNat (x : Word) (h : 16 ≤ x.toNat) : (x - 16#64).toNat = x.toNat - 16 := by
  have h16 : (16#64 : Word).toNat = 16 := rfl
  rw [BitVec.toNat_sub, h16]; omega
theorem sub16x2_toNat (x : Word) (h : 32 ≤ x.toNat) : (x - 16#64 - 16#64).toNat = x.toNat - 16 - 16 := by
  rw [sub16_toNat _ (by rw [sub16_toNat _ (by omega)]; omega), sub16_toNat _ (by omega)]
theorem sub16x3_toNat (x : Word) (h : 48 ≤ x.toNat) : (x - 16#64 - 16#64 - 16#64).toNat = x.toNat - 16 - 16 - 16 := by
  rw [sub16_toNat _ (by rw [sub16x2_toNat _ (by omega)]; omega), sub16x2_toNat _ (by omega)]
theorem sub16x4_toNat (x : Word) (h : 64 ≤ x.toNat) :
    (x - 16#64 - 16#64 - 16#64 - 16#64).toNat = x.toNat - 16 - 16 - 16 - 16 := by
  rw [sub16_toNat _ (by rw [sub16x3_toNat _ (by omega)]; omega), sub16x3_toNat _ (by omega)]
theorem sub16x5_toNat (x : Word) (h : 80 ≤ x.toNat) :
    (x - 16#64 - 16#64 - 16#64 - 16#64 - 16#64).toNat = x.toNat - 16 - 16 - 16 - 16 - 16 := by
  rw [sub16_toNat _ (by rw [sub16x4_toNat _ (by omega)]; omega), sub16x4_toNat _ (by omega)]
theorem sub16x6_toNat (x : Word) (h : 96 ≤ x.toNat) :
    (x - 16#64 - 16#64 - 16#64 - 16#64 - 16#64 - 16#64).toNat = x.toNat - 16 - 16 - 16 - 16 - 16 - 16 := by
  rw [sub16_toNat _ (by rw [sub16x5_toNat _ (by omega)]; omega), sub16x5_toNat _ (by omega)]

theorem nat_add_add (a b c : Nat) : a + b + c = a + (b + c) := Nat.add_assoc a b c

open Lean.Elab.Tactic in
/-- `omega` in a context that contains nothing but one of the hidden hypotheses; those that mention
exactly the free variables of the goal are tried first -/
elab "omega_hidden" : tactic => withMainContext do
  let goalFVars := (collectFVars {} (← instantiateMVars (← getMainTarget))).fvarIds
  let mut first : Array Name := #[]
  let mut rest : Array Name := #[]
  for ldecl in (← getLCtx) do
    if ldecl.isImplementationDetail then continue
    let ty ← instantiateMVars ldecl.type
    if ty.isAppOfArity ``Hide 1 then
      let fv := (collectFVars {} ty).fvarIds
      if goalFVars.all fv.contains then first := first.push ldecl.userName else rest := rest.push ldecl.userName
  for n in first ++ rest do
    let st ← saveState
    try
      evalTactic (← `(tactic| (have hidden_fact := Hide.out $(mkIdent n); clear * - hidden_fact; omega)))
      return
    catch _ => restoreState st
  throwError "omega_hidden: no hidden hypothesis suffices"

macro "a64_disch" : tactic => `(tactic| first | assumption | rfl | (clear * -; omega) | omega_hidden | omega)

/-- symbolic execution: unfold the interpreter on a state whose control-relevant parts are known -/
macro "a64_sym" " [" extra:Lean.Parser.Tactic.simpLemma,* "]" loc:(Lean.Parser.Tactic.location)? : tactic =>
  `(tactic| simp (maxSteps := 4000000) (disch := a64_disch) only [runStep, step, fetchInstr,
    exec_addsubReg, exec_addsubsImm, exec_adcsbc, exec_mul, exec_umulh, exec_csel, exec_ldp, exec_stp, exec_bcond, exec_ret,
    State.getZ, State.setZ, State.getSP, State.setSP, State.get, State.set, State.writeback, State.next, State.setFlags,
    cond_cs, cond_cc, cond_hi, addsub, Option.getD_none, Option.getD_some, Option.map_some, if_true, if_false, ite_true, ite_false,
    Bool.false_eq_true, addr_post_x, addr_pre_sp, addr_post_sp, ofInt_16, add_ofInt_neg16, load_ok, store_ok, ea_toNat,
    sub16_toNat, sub16x2_toNat, sub16x3_toNat, sub16x4_toNat, sub16x5_toNat, sub16x6_toNat,
    BitVec.add_assoc, BitVec.reduceAdd, BitVec.sub_add_cancel, nat_add_add, Nat.reduceAdd,
    setMem_eq, setMem_off, setMem_off0, setMem_0off, setMem_ne, $extra,*] $[$loc]?)

/-- read-over-write on the final memory -/
macro "a64_mem" : tactic => `(tactic| simp (disch := a64_disch) only [setMem_eq, setMem_off, setMem_off0, setMem_0off, setMem_ne])


/-! ## Buffers, AAPCS64 -/

/-- `n` qwords at `p` lie inside the address space, are 8-byte aligned and readable (writable if `w`) -/
structure Buf (s : State) (p : Word) (n : Nat) (w : Bool) : Prop where
  fits : p.toNat + 8 * n ≤ 2 ^ 64
  aligned : p.toNat % 8 = 0
  readable : ∀ i, i < n → s.readable (p.toNat + 8 * i) = true
  writable : w = true → ∀ i, i < n → s.writable (p.toNat + 8 * i) = true

/-- two objects of `n` resp. `m` qwords do not overlap -/
def Disjoint (p : Word) (n : Nat) (q : Word) (m : Nat) : Prop :=
  p.toNat + 8 * n ≤ q.toNat ∨ q.toNat + 8 * m ≤ p.toNat

/-- two objects of the same size are the same object or do not overlap -/
def SameOrDisjoint (p q : Word) (n : Nat) : Prop := p.toNat = q.toNat ∨ Disjoint p n q n

theorem Buf.r6 {s : State} {p : Word} {w : Bool} (h : Buf s p 6 w) :
    s.readable (p.toNat) = true ∧ s.readable (p.toNat + 8) = true ∧ s.readable (p.toNat + 16) = true ∧ s.readable (p.toNat + 24) = true ∧ s.readable (p.toNat + 32) = true ∧ s.readable (p.toNat + 40) = true :=
  ⟨h.readable 0 (by omega), h.readable 1 (by omega), h.readable 2 (by omega), h.readable 3 (by omega), h.readable 4 (by omega), h.readable 5 (by omega)⟩

theorem Buf.w6 {s : State} {p : Word} (h : Buf s p 6 true) :
    s.writable (p.toNat) = true ∧ s.writable (p.toNat + 8) = true ∧ s.writable (p.toNat + 16) = true ∧ s.writable (p.toNat + 24) = true ∧ s.writable (p.toNat + 32) = true ∧ s.writable (p.toNat + 40) = true :=
  ⟨h.writable rfl 0 (by omega), h.writable rfl 1 (by omega), h.writable rfl 2 (by omega), h.writable rfl 3 (by omega), h.writable rfl 4 (by omega), h.writable rfl 5 (by omega)⟩

theorem Buf.addr6 {s : State} {p : Word} {w : Bool} (h : Buf s p 6 w) :
    ((p.toNat) % 8 = 0 ∧ (p.toNat + 8) % 8 = 0 ∧ (p.toNat + 16) % 8 = 0 ∧ (p.toNat + 24) % 8 = 0 ∧ (p.toNat + 32) % 8 = 0 ∧ (p.toNat + 40) % 8 = 0) ∧
    (p.toNat + 8 < 2 ^ 64 ∧ p.toNat + 16 < 2 ^ 64 ∧ p.toNat + 24 < 2 ^ 64 ∧ p.toNat + 32 < 2 ^ 64 ∧ p.toNat + 40 < 2 ^ 64) := by
  have := h.fits; have := h.aligned; omega

theorem Buf.r12 {s : State} {p : Word} {w : Bool} (h : Buf s p 12 w) :
    s.readable (p.toNat) = true ∧ s.readable (p.toNat + 8) = true ∧ s.readable (p.toNat + 16) = true ∧ s.readable (p.toNat + 24) = true ∧ s.readable (p.toNat + 32) = true ∧ s.readable (p.toNat + 40) = true ∧ s.readable (p.toNat + 48) = true ∧ s.readable (p.toNat + 56) = true ∧ s.readable (p.toNat + 64) = true ∧ s.readable (p.toNat + 72) = true ∧ s.readable (p.toNat + 80) = true ∧ s.readable (p.toNat + 88) = true :=
  ⟨h.readable 0 (by omega), h.readable 1 (by omega), h.readable 2 (by omega), h.readable 3 (by omega), h.readable 4 (by omega), h.readable 5 (by omega), h.readable 6 (by omega), h.readable 7 (by omega), h.readable 8 (by omega), h.readable 9 (by omega), h.readable 10 (by omega), h.readable 11 (by omega)⟩

theorem Buf.w12 {s : State} {p : Word} (h : Buf s p 12 true) :
    s.writable (p.toNat) = true ∧ s.writable (p.toNat + 8) = true ∧ s.writable (p.toNat + 16) = true ∧ s.writable (p.toNat + 24) = true ∧ s.writable (p.toNat + 32) = true ∧ s.writable (p.toNat + 40) = true ∧ s.writable (p.toNat + 48) = true ∧ s.writable (p.toNat + 56) = true ∧ s.writable (p.toNat + 64) = true ∧ s.writable (p.toNat + 72) = true ∧ s.writable (p.toNat + 80) = true ∧ s.writable (p.toNat + 88) = true :=
  ⟨h.writable rfl 0 (by omega), h.writable rfl 1 (by omega), h.writable rfl 2 (by omega), h.writable rfl 3 (by omega), h.writable rfl 4 (by omega), h.writable rfl 5 (by omega), h.writable rfl 6 (by omega), h.writable rfl 7 (by omega), h.writable rfl 8 (by omega), h.writable rfl 9 (by omega), h.writable rfl 10 (by omega), h.writable rfl 11 (by omega)⟩

theorem Buf.addr12 {s : State} {p : Word} {w : Bool} (h : Buf s p 12 w) :
    ((p.toNat) % 8 = 0 ∧ (p.toNat + 8) % 8 = 0 ∧ (p.toNat + 16) % 8 = 0 ∧ (p.toNat + 24) % 8 = 0 ∧ (p.toNat + 32) % 8 = 0 ∧ (p.toNat + 40) % 8 = 0 ∧ (p.toNat + 48) % 8 = 0 ∧ (p.toNat + 56) % 8 = 0 ∧ (p.toNat + 64) % 8 = 0 ∧ (p.toNat + 72) % 8 = 0 ∧ (p.toNat + 80) % 8 = 0 ∧ (p.toNat + 88) % 8 = 0) ∧
    (p.toNat + 8 < 2 ^ 64 ∧ p.toNat + 16 < 2 ^ 64 ∧ p.toNat + 24 < 2 ^ 64 ∧ p.toNat + 32 < 2 ^ 64 ∧ p.toNat + 40 < 2 ^ 64 ∧ p.toNat + 48 < 2 ^ 64 ∧ p.toNat + 56 < 2 ^ 64 ∧ p.toNat + 64 < 2 ^ 64 ∧ p.toNat + 72 < 2 ^ 64 ∧ p.toNat + 80 < 2 ^ 64 ∧ p.toNat + 88 < 2 ^ 64) := by
  have := h.fits; have := h.aligned; omega

/-- what AAPCS64 promises the caller: the routine returned (by `ret`, to the address that was in the link
register X30), SP is what it was, X19–X28 and the frame pointer X29 are intact, the platform register X18 was not
changed -/
structure Returned (s s' : State) : Prop where
  halted : s'.status = .halted
  retaddr : s'.pc = s.x30.toNat
  sp : s'.sp = s.sp
  x18 : s'.x18 = s.x18
  x19 : s'.x19 = s.x19
  x20 : s'.x20 = s.x20
  x21 : s'.x21 = s.x21
  x22 : s'.x22 = s.x22
  x23 : s'.x23 = s.x23
  x24 : s'.x24 = s.x24
  x25 : s'.x25 = s.x25
  x26 : s'.x26 = s.x26
  x27 : s'.x27 = s.x27
  x28 : s'.x28 = s.x28
  x29 : s'.x29 = s.x29

/-- SP is 16-byte aligned and there is room for `n` register pairs (16 bytes each) below it -/
structure Stack (s : State) (n : Nat) : Prop where
  aligned : s.sp.toNat % 16 = 0
  room : 16 * n ≤ s.sp.toNat
  slots : ∀ i, 1 ≤ i → i ≤ 2 * n → s.readable (s.sp.toNat - 8 * i) = true ∧ s.writable (s.sp.toNat - 8 * i) = true

/-- an object of `m` qwords at `p` does not overlap the stack area the routine uses (`n` pairs below SP) -/
def OffStack (s : State) (n : Nat) (p : Word) (m : Nat) : Prop :=
  p.toNat + 8 * m ≤ s.sp.toNat - 16 * n ∨ s.sp.toNat ≤ p.toNat

theorem Stack.f1 {s : State} {n : Nat} (h : Stack s n) (hn : 1 ≤ n) :
    16 ≤ s.sp.toNat ∧ (s.sp - 16#64).toNat % 16 = 0 ∧ (s.sp.toNat - 16) % 8 = 0 ∧ (s.sp.toNat - 16 + 8) % 8 = 0 ∧
    s.readable (s.sp.toNat - 16) = true ∧ s.readable (s.sp.toNat - 16 + 8) = true ∧
    s.writable (s.sp.toNat - 16) = true ∧ s.writable (s.sp.toNat - 16 + 8) = true := by
  have := h.aligned; have := h.room
  obtain ⟨r1, w1⟩ := h.slots 2 (by omega) (by omega)
  obtain ⟨r2, w2⟩ := h.slots 1 (by omega) (by omega)
  rw [show s.sp.toNat - 8 * 2 = s.sp.toNat - 16 by omega] at r1 w1
  rw [show s.sp.toNat - 8 * 1 = s.sp.toNat - 16 + 8 by omega] at r2 w2
  refine ⟨by omega, ?_, by omega, by omega, r1, r2, w1, w2⟩
  rw [sub16_toNat _ (by omega)]; omega

theorem Stack.f2 {s : State} {n : Nat} (h : Stack s n) (hn : 2 ≤ n) :
    32 ≤ s.sp.toNat ∧ (s.sp - 16#64 - 16#64).toNat % 16 = 0 ∧ (s.sp.toNat - 16 - 16) % 8 = 0 ∧ (s.sp.toNat - 16 - 16 + 8) % 8 = 0 ∧
    s.readable (s.sp.toNat - 16 - 16) = true ∧ s.readable (s.sp.toNat - 16 - 16 + 8) = true ∧
    s.writable (s.sp.toNat - 16 - 16) = true ∧ s.writable (s.sp.toNat - 16 - 16 + 8) = true := by
  have := h.aligned; have := h.room
  obtain ⟨r1, w1⟩ := h.slots 4 (by omega) (by omega)
  obtain ⟨r2, w2⟩ := h.slots 3 (by omega) (by omega)
  rw [show s.sp.toNat - 8 * 4 = s.sp.toNat - 16 - 16 by omega] at r1 w1
  rw [show s.sp.toNat - 8 * 3 = s.sp.toNat - 16 - 16 + 8 by omega] at r2 w2
  refine ⟨by omega, ?_, by omega, by omega, r1, r2, w1, w2⟩
  rw [sub16x2_toNat _ (by omega)]; omega

theorem Stack.f3 {s : State} {n : Nat} (h : Stack s n) (hn : 3 ≤ n) :
    48 ≤ s.sp.toNat ∧ (s.sp - 16#64 - 16#64 - 16#64).toNat % 16 = 0 ∧ (s.sp.toNat - 16 - 16 - 16) % 8 = 0 ∧ (s.sp.toNat - 16 - 16 - 16 + 8) % 8 = 0 ∧
    s.readable (s.sp.toNat - 16 - 16 - 16) = true ∧ s.readable (s.sp.toNat - 16 - 16 - 16 + 8) = true ∧
    s.writable (s.sp.toNat - 16 - 16 - 16) = true ∧ s.writable (s.sp.toNat - 16 - 16 - 16 + 8) = true := by
  have := h.aligned; have := h.room
  obtain ⟨r1, w1⟩ := h.slots 6 (by omega) (by omega)
  obtain ⟨r2, w2⟩ := h.slots 5 (by omega) (by omega)
  rw [show s.sp.toNat - 8 * 6 = s.sp.toNat - 16 - 16 - 16 by omega] at r1 w1
  rw [show s.sp.toNat - 8 * 5 = s.sp.toNat - 16 - 16 - 16 + 8 by omega] at r2 w2
  refine ⟨by omega, ?_, by omega, by omega, r1, r2, w1, w2⟩
  rw [sub16x3_toNat _ (by omega)]; omega

theorem Stack.f4 {s : State} {n : Nat} (h : Stack s n) (hn : 4 ≤ n) :
    64 ≤ s.sp.toNat ∧ (s.sp - 16#64 - 16#64 - 16#64 - 16#64).toNat % 16 = 0 ∧ (s.sp.toNat - 16 - 16 - 16 - 16) % 8 = 0 ∧ (s.sp.toNat - 16 - 16 - 16 - 16 + 8) % 8 = 0 ∧
    s.readable (s.sp.toNat - 16 - 16 - 16 - 16) = true ∧ s.readable (s.sp.toNat - 16 - 16 - 16 - 16 + 8) = true ∧
    s.writable (s.sp.toNat - 16 - 16 - 16 - 16) = true ∧ s.writable (s.sp.toNat - 16 - 16 - 16 - 16 + 8) = true := by
  have := h.aligned; have := h.room
  obtain ⟨r1, w1⟩ := h.slots 8 (by omega) (by omega)
  obtain ⟨r2, w2⟩ := h.slots 7 (by omega) (by omega)
  rw [show s.sp.toNat - 8 * 8 = s.sp.toNat - 16 - 16 - 16 - 16 by omega] at r1 w1
  rw [show s.sp.toNat - 8 * 7 = s.sp.toNat - 16 - 16 - 16 - 16 + 8 by omega] at r2 w2
  refine ⟨by omega, ?_, by omega, by omega, r1, r2, w1, w2⟩
  rw [sub16x4_toNat _ (by omega)]; omega

theorem Stack.f5 {s : State} {n : Nat} (h : Stack s n) (hn : 5 ≤ n) :
    80 ≤ s.sp.toNat ∧ (s.sp - 16#64 - 16#64 - 16#64 - 16#64 - 16#64).toNat % 16 = 0 ∧ (s.sp.toNat - 16 - 16 - 16 - 16 - 16) % 8 = 0 ∧ (s.sp.toNat - 16 - 16 - 16 - 16 - 16 + 8) % 8 = 0 ∧
    s.readable (s.sp.toNat - 16 - 16 - 16 - 16 - 16) = true ∧ s.readable (s.sp.toNat - 16 - 16 - 16 - 16 - 16 + 8) = true ∧
    s.writable (s.sp.toNat - 16 - 16 - 16 - 16 - 16) = true ∧ s.writable (s.sp.toNat - 16 - 16 - 16 - 16 - 16 + 8) = true := by
  have := h.aligned; have := h.room
  obtain ⟨r1, w1⟩ := h.slots 10 (by omega) (by omega)
  obtain ⟨r2, w2⟩ := h.slots 9 (by omega) (by omega)
  rw [show s.sp.toNat - 8 * 10 = s.sp.toNat - 16 - 16 - 16 - 16 - 16 by omega] at r1 w1
  rw [show s.sp.toNat - 8 * 9 = s.sp.toNat - 16 - 16 - 16 - 16 - 16 + 8 by omega] at r2 w2
  refine ⟨by omega, ?_, by omega, by omega, r1, r2, w1, w2⟩
  rw [sub16x5_toNat _ (by omega)]; omega

theorem Stack.f6 {s : State} {n : Nat} (h : Stack s n) (hn : 6 ≤ n) :
    96 ≤ s.sp.toNat ∧ (s.sp - 16#64 - 16#64 - 16#64 - 16#64 - 16#64 - 16#64).toNat % 16 = 0 ∧ (s.sp.toNat - 16 - 16 - 16 - 16 - 16 - 16) % 8 = 0 ∧ (s.sp.toNat - 16 - 16 - 16 - 16 - 16 - 16 + 8) % 8 = 0 ∧
    s.readable (s.sp.toNat - 16 - 16 - 16 - 16 - 16 - 16) = true ∧ s.readable (s.sp.toNat - 16 - 16 - 16 - 16 - 16 - 16 + 8) = true ∧
    s.writable (s.sp.toNat - 16 - 16 - 16 - 16 - 16 - 16) = true ∧ s.writable (s.sp.toNat - 16 - 16 - 16 - 16 - 16 - 16 + 8) = true := by
  have := h.aligned; have := h.room
  obtain ⟨r1, w1⟩ := h.slots 12 (by omega) (by omega)
  obtain ⟨r2, w2⟩ := h.slots 11 (by omega) (by omega)
  rw [show s.sp.toNat - 8 * 12 = s.sp.toNat - 16 - 16 - 16 - 16 - 16 - 16 by omega] at r1 w1
  rw [show s.sp.toNat - 8 * 11 = s.sp.toNat - 16 - 16 - 16 - 16 - 16 - 16 + 8 by omega] at r2 w2
  refine ⟨by omega, ?_, by omega, by omega, r1, r2, w1, w2⟩
  rw [sub16x6_toNat _ (by omega)]; omega

/-! ## arithmetic of `addWithCarry` -/

theorem awc_spec (x y : Word) (c : Bool) :
    (addWithCarry x y c).val.toNat + 2 ^ 64 * (addWithCarry x y c).c.toNat = x.toNat + y.toNat + c.toNat := by
  simp only [addWithCarry, BitVec.toNat_ofNat]
  have := x.isLt; have := y.isLt; have : c.toNat ≤ 1 := Bool.toNat_le c
  by_cases h : 2 ^ 64 ≤ x.toNat + y.toNat + c.toNat
  · simp only [h, decide_true, Bool.toNat_true]; omega
  · simp only [h, decide_false, Bool.toNat_false]; omega

theorem not_toNat (y : Word) : (~~~ y).toNat = 2 ^ 64 - 1 - y.toNat := by
  rw [BitVec.toNat_not]

/-- subtraction `x - y - borrow`: the carry flag is the inverted borrow, at entry and at exit -/
theorem sbc_spec (x y : Word) (c : Bool) :
    (addWithCarry x (~~~ y) c).val.toNat + y.toNat + (!c).toNat
      = x.toNat + 2 ^ 64 * (!(addWithCarry x (~~~ y) c).c).toNat := by
  have e := awc_spec x (~~~ y) c
  rw [not_toNat] at e
  have := x.isLt; have := y.isLt
  generalize addWithCarry x (~~~ y) c = t at *
  obtain ⟨v, n, z, c', ov⟩ := t
  have := v.isLt
  cases c <;> cases c' <;>
    simp only [Bool.toNat_true, Bool.toNat_false, Bool.not_true, Bool.not_false] at e ⊢ <;> omega

theorem mul_lt (x y : Word) : x.toNat * y.toNat ≤ (2 ^ 64 - 1) * (2 ^ 64 - 1) :=
  Nat.mul_le_mul (by have := x.isLt; omega) (by have := y.isLt; omega)

theorem mul_spec (x y : Word) : (mulLo x y).toNat + 2 ^ 64 * (mulHi x y).toNat = x.toNat * y.toNat := by
  have h := mul_lt x y
  simp only [mulLo, mulHi, BitVec.toNat_ofNat]
  generalize x.toNat * y.toNat = p at *
  omega


/-! ## six-limb carry / borrow chains -/

section chains
variable {a0 a1 a2 a3 a4 a5 b0 b1 b2 b3 b4 b5 : Word} {c : Bool} {t0 t1 t2 t3 t4 t5 : ArithRes}

set_option exponentiation.threshold 500 in
theorem add6_val (h0 : t0 = addWithCarry a0 b0 c) (h1 : t1 = addWithCarry a1 b1 t0.c) (h2 : t2 = addWithCarry a2 b2 t1.c)
    (h3 : t3 = addWithCarry a3 b3 t2.c) (h4 : t4 = addWithCarry a4 b4 t3.c) (h5 : t5 = addWithCarry a5 b5 t4.c) :
    val (2 ^ 64) [t0.val.toNat, t1.val.toNat, t2.val.toNat, t3.val.toNat, t4.val.toNat, t5.val.toNat]
        + 2 ^ 384 * t5.c.toNat
      = val (2 ^ 64) [a0.toNat, a1.toNat, a2.toNat, a3.toNat, a4.toNat, a5.toNat]
        + val (2 ^ 64) [b0.toNat, b1.toNat, b2.toNat, b3.toNat, b4.toNat, b5.toNat] + c.toNat := by
  have e0 := awc_spec a0 b0 c; rw [← h0] at e0
  have e1 := awc_spec a1 b1 t0.c; rw [← h1] at e1
  have e2 := awc_spec a2 b2 t1.c; rw [← h2] at e2
  have e3 := awc_spec a3 b3 t2.c; rw [← h3] at e3
  have e4 := awc_spec a4 b4 t3.c; rw [← h4] at e4
  have e5 := awc_spec a5 b5 t4.c; rw [← h5] at e5
  simp only [val_cons, val_nil]
  linear_combination e0 + 2 ^ 64 * e1 + 2 ^ 128 * e2 + 2 ^ 192 * e3 + 2 ^ 256 * e4 + 2 ^ 320 * e5

set_option exponentiation.threshold 500 in
/-- `subs`/`sbcs` chain: the borrow is the inverted carry flag -/
theorem sub6_val (h0 : t0 = addWithCarry a0 (~~~b0) c) (h1 : t1 = addWithCarry a1 (~~~b1) t0.c)
    (h2 : t2 = addWithCarry a2 (~~~b2) t1.c) (h3 : t3 = addWithCarry a3 (~~~b3) t2.c)
    (h4 : t4 = addWithCarry a4 (~~~b4) t3.c) (h5 : t5 = addWithCarry a5 (~~~b5) t4.c) :
    val (2 ^ 64) [t0.val.toNat, t1.val.toNat, t2.val.toNat, t3.val.toNat, t4.val.toNat, t5.val.toNat]
        + val (2 ^ 64) [b0.toNat, b1.toNat, b2.toNat, b3.toNat, b4.toNat, b5.toNat] + (!c).toNat
      = val (2 ^ 64) [a0.toNat, a1.toNat, a2.toNat, a3.toNat, a4.toNat, a5.toNat] + 2 ^ 384 * (!t5.c).toNat := by
  have e0 := sbc_spec a0 b0 c; rw [← h0] at e0
  have e1 := sbc_spec a1 b1 t0.c; rw [← h1] at e1
  have e2 := sbc_spec a2 b2 t1.c; rw [← h2] at e2
  have e3 := sbc_spec a3 b3 t2.c; rw [← h3] at e3
  have e4 := sbc_spec a4 b4 t3.c; rw [← h4] at e4
  have e5 := sbc_spec a5 b5 t4.c; rw [← h5] at e5
  simp only [val_cons, val_nil]
  linear_combination e0 + 2 ^ 64 * e1 + 2 ^ 128 * e2 + 2 ^ 192 * e3 + 2 ^ 256 * e4 + 2 ^ 320 * e5

end chains

/-- `cset Xd, cond` as a number -/
theorem cset_toNat (b : Bool) : (bif b then (0 : Word) else cselAlt .inc (0 : Word)).toNat = (!b).toNat := by
  cases b <;> rfl

open Jedi.Gen.AsmA64

/-! ## `bigint_384_add`, `bigint_384_subtract`, `bigint_384_multiply2`

Straight-line leaf routines (no stack use): one symbolic execution, then the six-limb chain lemma. -/

set_option maxHeartbeats 1000000 in
/-- `bool bigint_384_add(res, a, b)`: `res + 2^384·x0 = a + b`, `x0 ∈ {0,1}` -/
theorem bigint_384_add_run (s : State) (pr pa pb : Word)
    (hst : s.status = .running) (hpc : s.pc = 0) (h0 : s.x0 = pr) (h1 : s.x1 = pa) (h2 : s.x2 = pb)
    (hr : Buf s pr 6 true) (ha : Buf s pa 6 false) (hb : Buf s pb 6 false)
    (hra : SameOrDisjoint pr pa 6) (hrb : SameOrDisjoint pr pb 6) :
    ∃ s', run embedded_pairing_core_arch_aarch64_bigint_384_add s 17 = s' ∧ Returned s s' ∧
      val (2 ^ 64) (limbs s'.mem pr.toNat 6) + 2 ^ 384 * s'.x0.toNat
        = val (2 ^ 64) (limbs s.mem pa.toNat 6) + val (2 ^ 64) (limbs s.mem pb.toNat 6) ∧
      s'.x0.toNat ≤ 1 ∧
      (∀ k, ¬(pr.toNat ≤ k ∧ k < pr.toNat + 48) → s'.mem k = s.mem k) := by
  refine ⟨_, rfl, ?_⟩
  obtain ⟨ra0, ra1, ra2, ra3, ra4, ra5⟩ := ha.r6
  obtain ⟨⟨alra0, alra1, alra2, alra3, alra4, alra5⟩, fra1, fra2, fra3, fra4, fra5⟩ := ha.addr6
  obtain ⟨rb0, rb1, rb2, rb3, rb4, rb5⟩ := hb.r6
  obtain ⟨⟨alrb0, alrb1, alrb2, alrb3, alrb4, alrb5⟩, frb1, frb2, frb3, frb4, frb5⟩ := hb.addr6
  obtain ⟨rr0, rr1, rr2, rr3, rr4, rr5⟩ := hr.r6
  obtain ⟨wr0, wr1, wr2, wr3, wr4, wr5⟩ := hr.w6
  obtain ⟨⟨alrr0, alrr1, alrr2, alrr3, alrr4, alrr5⟩, frr1, frr2, frr3, frr4, frr5⟩ := hr.addr6
  replace hra := Hide.mk hra; replace hrb := Hide.mk hrb
  simp only [SameOrDisjoint, Disjoint] at hra hrb
  clear ha hb hr
  generalize hfin : run embedded_pairing_core_arch_aarch64_bigint_384_add s 17 = s'
  simp only [limbs_six, Nat.add_zero]
  obtain ⟨a0, ha0⟩ : ∃ x, x = s.mem pa.toNat := ⟨_, rfl⟩
  obtain ⟨a1, ha1⟩ : ∃ x, x = s.mem (pa.toNat + 8) := ⟨_, rfl⟩
  obtain ⟨a2, ha2⟩ : ∃ x, x = s.mem (pa.toNat + 16) := ⟨_, rfl⟩
  obtain ⟨a3, ha3⟩ : ∃ x, x = s.mem (pa.toNat + 24) := ⟨_, rfl⟩
  obtain ⟨a4, ha4⟩ : ∃ x, x = s.mem (pa.toNat + 32) := ⟨_, rfl⟩
  obtain ⟨a5, ha5⟩ : ∃ x, x = s.mem (pa.toNat + 40) := ⟨_, rfl⟩
  obtain ⟨b0, hb0⟩ : ∃ x, x = s.mem pb.toNat := ⟨_, rfl⟩
  obtain ⟨b1, hb1⟩ : ∃ x, x = s.mem (pb.toNat + 8) := ⟨_, rfl⟩
  obtain ⟨b2, hb2⟩ : ∃ x, x = s.mem (pb.toNat + 16) := ⟨_, rfl⟩
  obtain ⟨b3, hb3⟩ : ∃ x, x = s.mem (pb.toNat + 24) := ⟨_, rfl⟩
  obtain ⟨b4, hb4⟩ : ∃ x, x = s.mem (pb.toNat + 32) := ⟨_, rfl⟩
  obtain ⟨b5, hb5⟩ : ∃ x, x = s.mem (pb.toNat + 40) := ⟨_, rfl⟩
  simp only [← ha0, ← ha1, ← ha2, ← ha3, ← ha4, ← ha5, ← hb0, ← hb1, ← hb2, ← hb3, ← hb4, ← hb5]
  obtain ⟨t2, ht2⟩ : ∃ x, x = addWithCarry a0 b0 false := ⟨_, rfl⟩
  obtain ⟨t3, ht3⟩ : ∃ x, x = addWithCarry a1 b1 t2.c := ⟨_, rfl⟩
  obtain ⟨t7, ht7⟩ : ∃ x, x = addWithCarry a2 b2 t3.c := ⟨_, rfl⟩
  obtain ⟨t8, ht8⟩ : ∃ x, x = addWithCarry a3 b3 t7.c := ⟨_, rfl⟩
  obtain ⟨t12, ht12⟩ : ∃ x, x = addWithCarry a4 b4 t8.c := ⟨_, rfl⟩
  obtain ⟨t13, ht13⟩ : ∃ x, x = addWithCarry a5 b5 t12.c := ⟨_, rfl⟩
  obtain ⟨q15, hq15⟩ : ∃ x, x = bif !t13.c then (0 : Word) else cselAlt .inc (0 : Word) := ⟨_, rfl⟩
  rw [State.eta s] at hfin
  a64_sym [hst, hpc, h0, h1, h2, ← ha0, ← ha1, ← ha2, ← ha3, ← ha4, ← ha5, ← hb0, ← hb1, ← hb2, ← hb3, ← hb4, ← hb5, ← ht2, ← ht3, ← ht7, ← ht8, ← ht12, ← ht13, ← hq15] at hfin
  subst hfin
  have hq : q15.toNat = t13.c.toNat := by rw [hq15, cset_toNat, Bool.not_not]
  refine ⟨⟨rfl, rfl, rfl, rfl, rfl, rfl, rfl, rfl, rfl, rfl, rfl, rfl, rfl, rfl, rfl⟩, ?_, ?_, ?_⟩
  all_goals try simp only
  · a64_mem
    rw [hq]
    have := add6_val ht2 ht3 ht7 ht8 ht12 ht13
    simp only [Bool.toNat_false, Nat.add_zero] at this
    exact this
  · rw [hq]; exact Bool.toNat_le _
  · intro k hk
    simp (disch := (clear * - hk; omega)) only [setMem_ne]

set_option maxHeartbeats 1000000 in
/-- `bool bigint_384_subtract(res, a, b)`: `res + b = a + 2^384·x0`, `x0 ∈ {0,1}` -/
theorem bigint_384_subtract_run (s : State) (pr pa pb : Word)
    (hst : s.status = .running) (hpc : s.pc = 0) (h0 : s.x0 = pr) (h1 : s.x1 = pa) (h2 : s.x2 = pb)
    (hr : Buf s pr 6 true) (ha : Buf s pa 6 false) (hb : Buf s pb 6 false)
    (hra : SameOrDisjoint pr pa 6) (hrb : SameOrDisjoint pr pb 6) :
    ∃ s', run embedded_pairing_core_arch_aarch64_bigint_384_subtract s 17 = s' ∧ Returned s s' ∧
      val (2 ^ 64) (limbs s'.mem pr.toNat 6) + val (2 ^ 64) (limbs s.mem pb.toNat 6)
        = val (2 ^ 64) (limbs s.mem pa.toNat 6) + 2 ^ 384 * s'.x0.toNat ∧
      s'.x0.toNat ≤ 1 ∧
      (∀ k, ¬(pr.toNat ≤ k ∧ k < pr.toNat + 48) → s'.mem k = s.mem k) := by
  refine ⟨_, rfl, ?_⟩
  obtain ⟨ra0, ra1, ra2, ra3, ra4, ra5⟩ := ha.r6
  obtain ⟨⟨alra0, alra1, alra2, alra3, alra4, alra5⟩, fra1, fra2, fra3, fra4, fra5⟩ := ha.addr6
  obtain ⟨rb0, rb1, rb2, rb3, rb4, rb5⟩ := hb.r6
  obtain ⟨⟨alrb0, alrb1, alrb2, alrb3, alrb4, alrb5⟩, frb1, frb2, frb3, frb4, frb5⟩ := hb.addr6
  obtain ⟨rr0, rr1, rr2, rr3, rr4, rr5⟩ := hr.r6
  obtain ⟨wr0, wr1, wr2, wr3, wr4, wr5⟩ := hr.w6
  obtain ⟨⟨alrr0, alrr1, alrr2, alrr3, alrr4, alrr5⟩, frr1, frr2, frr3, frr4, frr5⟩ := hr.addr6
  replace hra := Hide.mk hra; replace hrb := Hide.mk hrb
  simp only [SameOrDisjoint, Disjoint] at hra hrb
  clear ha hb hr
  generalize hfin : run embedded_pairing_core_arch_aarch64_bigint_384_subtract s 17 = s'
  simp only [limbs_six, Nat.add_zero]
  obtain ⟨a0, ha0⟩ : ∃ x, x = s.mem pa.toNat := ⟨_, rfl⟩
  obtain ⟨a1, ha1⟩ : ∃ x, x = s.mem (pa.toNat + 8) := ⟨_, rfl⟩
  obtain ⟨a2, ha2⟩ : ∃ x, x = s.mem (pa.toNat + 16) := ⟨_, rfl⟩
  obtain ⟨a3, ha3⟩ : ∃ x, x = s.mem (pa.toNat + 24) := ⟨_, rfl⟩
  obtain ⟨a4, ha4⟩ : ∃ x, x = s.mem (pa.toNat + 32) := ⟨_, rfl⟩
  obtain ⟨a5, ha5⟩ : ∃ x, x = s.mem (pa.toNat + 40) := ⟨_, rfl⟩
  obtain ⟨b0, hb0⟩ : ∃ x, x = s.mem pb.toNat := ⟨_, rfl⟩
  obtain ⟨b1, hb1⟩ : ∃ x, x = s.mem (pb.toNat + 8) := ⟨_, rfl⟩
  obtain ⟨b2, hb2⟩ : ∃ x, x = s.mem (pb.toNat + 16) := ⟨_, rfl⟩
  obtain ⟨b3, hb3⟩ : ∃ x, x = s.mem (pb.toNat + 24) := ⟨_, rfl⟩
  obtain ⟨b4, hb4⟩ : ∃ x, x = s.mem (pb.toNat + 32) := ⟨_, rfl⟩
  obtain ⟨b5, hb5⟩ : ∃ x, x = s.mem (pb.toNat + 40) := ⟨_, rfl⟩
  simp only [← ha0, ← ha1, ← ha2, ← ha3, ← ha4, ← ha5, ← hb0, ← hb1, ← hb2, ← hb3, ← hb4, ← hb5]
  obtain ⟨t2, ht2⟩ : ∃ x, x = addWithCarry a0 (~~~b0) true := ⟨_, rfl⟩
  obtain ⟨t3, ht3⟩ : ∃ x, x = addWithCarry a1 (~~~b1) t2.c := ⟨_, rfl⟩
  obtain ⟨t7, ht7⟩ : ∃ x, x = addWithCarry a2 (~~~b2) t3.c := ⟨_, rfl⟩
  obtain ⟨t8, ht8⟩ : ∃ x, x = addWithCarry a3 (~~~b3) t7.c := ⟨_, rfl⟩
  obtain ⟨t12, ht12⟩ : ∃ x, x = addWithCarry a4 (~~~b4) t8.c := ⟨_, rfl⟩
  obtain ⟨t13, ht13⟩ : ∃ x, x = addWithCarry a5 (~~~b5) t12.c := ⟨_, rfl⟩
  obtain ⟨q15, hq15⟩ : ∃ x, x = bif t13.c then (0 : Word) else cselAlt .inc (0 : Word) := ⟨_, rfl⟩
  rw [State.eta s] at hfin
  a64_sym [hst, hpc, h0, h1, h2, ← ha0, ← ha1, ← ha2, ← ha3, ← ha4, ← ha5, ← hb0, ← hb1, ← hb2, ← hb3, ← hb4, ← hb5, ← ht2, ← ht3, ← ht7, ← ht8, ← ht12, ← ht13, ← hq15] at hfin
  subst hfin
  have hq : q15.toNat = (!t13.c).toNat := by rw [hq15, cset_toNat]
  refine ⟨⟨rfl, rfl, rfl, rfl, rfl, rfl, rfl, rfl, rfl, rfl, rfl, rfl, rfl, rfl, rfl⟩, ?_, ?_, ?_⟩
  all_goals try simp only
  · a64_mem
    rw [hq]
    have := sub6_val ht2 ht3 ht7 ht8 ht12 ht13
    simp only [Bool.not_true, Bool.toNat_false, Nat.add_zero] at this
    exact this
  · rw [hq]; exact Bool.toNat_le _
  · intro k hk
    simp (disch := (clear * - hk; omega)) only [setMem_ne]

set_option maxHeartbeats 1000000 in
/-- `uint64_t bigint_384_multiply2(res, a)`: `res + 2^384·x0 = 2·a`, `x0 ∈ {0,1}` -/
theorem bigint_384_multiply2_run (s : State) (pr pa : Word)
    (hst : s.status = .running) (hpc : s.pc = 0) (h0 : s.x0 = pr) (h1 : s.x1 = pa)
    (hr : Buf s pr 6 true) (ha : Buf s pa 6 false)
    (hra : SameOrDisjoint pr pa 6) :
    ∃ s', run embedded_pairing_core_arch_aarch64_bigint_384_multiply2 s 14 = s' ∧ Returned s s' ∧
      val (2 ^ 64) (limbs s'.mem pr.toNat 6) + 2 ^ 384 * s'.x0.toNat = 2 * val (2 ^ 64) (limbs s.mem pa.toNat 6) ∧
      s'.x0.toNat ≤ 1 ∧
      (∀ k, ¬(pr.toNat ≤ k ∧ k < pr.toNat + 48) → s'.mem k = s.mem k) := by
  refine ⟨_, rfl, ?_⟩
  obtain ⟨ra0, ra1, ra2, ra3, ra4, ra5⟩ := ha.r6
  obtain ⟨⟨alra0, alra1, alra2, alra3, alra4, alra5⟩, fra1, fra2, fra3, fra4, fra5⟩ := ha.addr6
  obtain ⟨rr0, rr1, rr2, rr3, rr4, rr5⟩ := hr.r6
  obtain ⟨wr0, wr1, wr2, wr3, wr4, wr5⟩ := hr.w6
  obtain ⟨⟨alrr0, alrr1, alrr2, alrr3, alrr4, alrr5⟩, frr1, frr2, frr3, frr4, frr5⟩ := hr.addr6
  replace hra := Hide.mk hra
  simp only [SameOrDisjoint, Disjoint] at hra
  clear ha hr
  generalize hfin : run embedded_pairing_core_arch_aarch64_bigint_384_multiply2 s 14 = s'
  simp only [limbs_six, Nat.add_zero]
  obtain ⟨a0, ha0⟩ : ∃ x, x = s.mem pa.toNat := ⟨_, rfl⟩
  obtain ⟨a1, ha1⟩ : ∃ x, x = s.mem (pa.toNat + 8) := ⟨_, rfl⟩
  obtain ⟨a2, ha2⟩ : ∃ x, x = s.mem (pa.toNat + 16) := ⟨_, rfl⟩
  obtain ⟨a3, ha3⟩ : ∃ x, x = s.mem (pa.toNat + 24) := ⟨_, rfl⟩
  obtain ⟨a4, ha4⟩ : ∃ x, x = s.mem (pa.toNat + 32) := ⟨_, rfl⟩
  obtain ⟨a5, ha5⟩ : ∃ x, x = s.mem (pa.toNat + 40) := ⟨_, rfl⟩
  simp only [← ha0, ← ha1, ← ha2, ← ha3, ← ha4, ← ha5]
  obtain ⟨t1, ht1⟩ : ∃ x, x = addWithCarry a0 a0 false := ⟨_, rfl⟩
  obtain ⟨t2, ht2⟩ : ∃ x, x = addWithCarry a1 a1 t1.c := ⟨_, rfl⟩
  obtain ⟨t5, ht5⟩ : ∃ x, x = addWithCarry a2 a2 t2.c := ⟨_, rfl⟩
  obtain ⟨t6, ht6⟩ : ∃ x, x = addWithCarry a3 a3 t5.c := ⟨_, rfl⟩
  obtain ⟨t9, ht9⟩ : ∃ x, x = addWithCarry a4 a4 t6.c := ⟨_, rfl⟩
  obtain ⟨t10, ht10⟩ : ∃ x, x = addWithCarry a5 a5 t9.c := ⟨_, rfl⟩
  obtain ⟨q12, hq12⟩ : ∃ x, x = bif !t10.c then (0 : Word) else cselAlt .inc (0 : Word) := ⟨_, rfl⟩
  rw [State.eta s] at hfin
  a64_sym [hst, hpc, h0, h1, ← ha0, ← ha1, ← ha2, ← ha3, ← ha4, ← ha5, ← ht1, ← ht2, ← ht5, ← ht6, ← ht9, ← ht10, ← hq12] at hfin
  subst hfin
  have hq : q12.toNat = t10.c.toNat := by rw [hq12, cset_toNat, Bool.not_not]
  refine ⟨⟨rfl, rfl, rfl, rfl, rfl, rfl, rfl, rfl, rfl, rfl, rfl, rfl, rfl, rfl, rfl⟩, ?_, ?_, ?_⟩
  all_goals try simp only
  · a64_mem
    rw [hq]
    have := add6_val ht1 ht2 ht5 ht6 ht9 ht10
    simp only [Bool.toNat_false, Nat.add_zero] at this
    rw [this]; omega
  · rw [hq]; exact Bool.toNat_le _
  · intro k hk
    simp (disch := (clear * - hk; omega)) only [setMem_ne]

end Jedi.A64
