/-
`npow` (the square-and-multiply power the Spec and the judge execute) is the monoid power.
-/
import JediVerif.Spec.Basic
import Mathlib.Algebra.Group.Basic
import Mathlib.Tactic.Ring

namespace Jedi

theorem npowAux_eq_pow {M : Type} [Monoid M] (x : M) : ∀ (f e : Nat), e < 2 ^ f → npowAux f x e = x ^ e := by
  intro f
  induction f with
  | zero => intro e he; have : e = 0 := by simpa using he
            subst this; simp [npowAux]
  | succ f ih =>
    intro e he
    rw [npowAux]
    split
    · next h => subst h; simp
    · next h =>
      have h2 : e / 2 < 2 ^ f := by rw [pow_succ] at he; omega
      simp only [ih (e / 2) h2]
      split
      · next h1 => rw [← pow_add, ← pow_succ]; congr 1; omega
      · next h1 => rw [← pow_add]; congr 1; omega

/-- `npow` is the monoid power. -/
theorem npow_eq_pow {M : Type} [Monoid M] (x : M) (e : Nat) : npow x e = x ^ e :=
  npowAux_eq_pow x _ e Nat.lt_log2_self

end Jedi
