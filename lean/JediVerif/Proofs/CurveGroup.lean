/-
The Spec's affine chord-and-tangent law (`Pt.add`/`Pt.dbl`/`Pt.neg`/`Pt.smul`, Spec/Curve.lean) on y² = x³ + b IS the
group law of the elliptic curve: the curve points of the Spec are in bijection with Mathlib's
`WeierstrassCurve.Affine.Point` of the curve a₁ = a₂ = a₃ = a₄ = 0, a₆ = b, and the bijection carries `Pt.add` to `+`,
`Pt.neg` to `-`, `.inf` to `0`, `Pt.dbl` to `2 • ·`, `Pt.smul n` to `n • ·`.  Mathlib's `AddCommGroup` instance
(associativity through the ideal class group of the coordinate ring) then gives associativity, commutativity and the
module laws of `Pt.smul` for the Spec law on curve points.

Generic in the field `K`; the hypotheses `CurveHyp b` (2 ≠ 0, 3 ≠ 0, b ≠ 0) are exactly nonsingularity of y² = x³ + b.
-/
import JediVerif.Proofs.CurveProofs
import Mathlib.AlgebraicGeometry.EllipticCurve.Affine.Point

set_option linter.unusedSectionVars false
set_option linter.unusedVariables false
namespace Jedi
open WeierstrassCurve

section
variable {K : Type} [Field K] [DecidableEq K]

/-- y² = x³ + b is nonsingular: characteristic ≠ 2, 3 and b ≠ 0. -/
structure CurveHyp (b : K) : Prop where
  two : (2 : K) ≠ 0
  three : (3 : K) ≠ 0
  bne : b ≠ 0

/-- the short Weierstrass curve y² = x³ + b as a Mathlib Weierstrass curve. -/
def W (b : K) : WeierstrassCurve.Affine K := ⟨0, 0, 0, 0, b⟩

@[simp] theorem W_a₁ (b : K) : (W b).a₁ = 0 := rfl
@[simp] theorem W_a₂ (b : K) : (W b).a₂ = 0 := rfl
@[simp] theorem W_a₃ (b : K) : (W b).a₃ = 0 := rfl
@[simp] theorem W_a₄ (b : K) : (W b).a₄ = 0 := rfl
@[simp] theorem W_a₆ (b : K) : (W b).a₆ = b := rfl

omit [DecidableEq K] in
theorem W_equation_iff (b x y : K) : (W b).Equation x y ↔ y ^ 2 = x ^ 3 + b := by
  rw [Affine.equation_iff]; simp

omit [DecidableEq K] in
theorem W_negY (b x y : K) : (W b).negY x y = -y := by simp [Affine.negY]

omit [DecidableEq K] in
/-- every affine point of y² = x³ + b is nonsingular. -/
theorem W_nonsingular {b : K} (hc : CurveHyp b) {x y : K} (h : y ^ 2 = x ^ 3 + b) :
    (W b).Nonsingular x y := by
  rw [Affine.nonsingular_iff']
  refine ⟨(W_equation_iff b x y).mpr h, ?_⟩
  simp only [W_a₁, W_a₂, W_a₃, W_a₄]
  by_contra hcon
  rw [not_or, not_not, not_not] at hcon
  obtain ⟨hx, hy⟩ := hcon
  have hy0 : y = 0 := by
    have : 2 * y = 0 := by linear_combination hy
    exact (mul_eq_zero.mp this).resolve_left hc.two
  have hx0 : x = 0 := by
    have : 3 * x ^ 2 = 0 := by linear_combination -hx
    have := (mul_eq_zero.mp this).resolve_left hc.three
    exact pow_eq_zero_iff (by norm_num) |>.mp this
  apply hc.bne
  rw [hy0, hx0] at h
  linear_combination -h

theorem W_nonsingular_of_isOnCurve {b : K} (hc : CurveHyp b) {x y : K}
    (h : Pt.isOnCurve b (Pt.aff x y) = true) : (W b).Nonsingular x y :=
  W_nonsingular hc ((Pt.isOnCurve_aff b x y).mp h)

omit [Field K] in
theorem Pt.isOnCurve_inf [Add K] [Mul K] (b : K) : Pt.isOnCurve b (Pt.inf : Pt K) = true := rfl

/-- Spec curve point ↦ Mathlib point. -/
def toPoint {b : K} (hc : CurveHyp b) : (P : Pt K) → Pt.isOnCurve b P = true → (W b).Point
  | .inf, _ => 0
  | .aff x y, h => .some x y (W_nonsingular_of_isOnCurve hc h)

/-- Mathlib point ↦ Spec point. -/
def ofPoint {b : K} : (W b).Point → Pt K
  | .zero => .inf
  | .some x y _ => .aff x y

@[simp] theorem toPoint_inf {b : K} (hc : CurveHyp b) (h : Pt.isOnCurve b (Pt.inf : Pt K) = true) :
    toPoint hc Pt.inf h = 0 := rfl

theorem toPoint_aff {b : K} (hc : CurveHyp b) {x y : K} (h : Pt.isOnCurve b (Pt.aff x y) = true) :
    toPoint hc (Pt.aff x y) h = .some x y (W_nonsingular_of_isOnCurve hc h) := rfl

theorem toPoint_congr {b : K} (hc : CurveHyp b) {P Q : Pt K} (e : P = Q) (hP : Pt.isOnCurve b P = true)
    (hQ : Pt.isOnCurve b Q = true) : toPoint hc P hP = toPoint hc Q hQ := by
  subst e; rfl

theorem ofPoint_isOnCurve {b : K} (p : (W b).Point) : Pt.isOnCurve b (ofPoint p) = true := by
  cases p with
  | zero => rfl
  | some x y h => exact (Pt.isOnCurve_aff b x y).mpr ((W_equation_iff b x y).mp h.1)

@[simp] theorem ofPoint_toPoint {b : K} (hc : CurveHyp b) (P : Pt K) (h : Pt.isOnCurve b P = true) :
    ofPoint (toPoint hc P h) = P := by
  cases P <;> rfl

@[simp] theorem toPoint_ofPoint {b : K} (hc : CurveHyp b) (p : (W b).Point)
    (h : Pt.isOnCurve b (ofPoint p) = true) : toPoint hc (ofPoint p) h = p := by
  cases p <;> rfl

/-- the Spec's curve points are in bijection with Mathlib's points of y² = x³ + b. -/
def pointEquiv {b : K} (hc : CurveHyp b) : {P : Pt K // Pt.isOnCurve b P = true} ≃ (W b).Point where
  toFun P := toPoint hc P.1 P.2
  invFun p := ⟨ofPoint p, ofPoint_isOnCurve p⟩
  left_inv P := Subtype.ext (ofPoint_toPoint hc P.1 P.2)
  right_inv p := toPoint_ofPoint hc p _

theorem toPoint_injective {b : K} (hc : CurveHyp b) {P Q : Pt K} {hP : Pt.isOnCurve b P = true}
    {hQ : Pt.isOnCurve b Q = true} (e : toPoint hc P hP = toPoint hc Q hQ) : P = Q := by
  rw [← ofPoint_toPoint hc P hP, e, ofPoint_toPoint]

theorem toPoint_eq_zero_iff {b : K} (hc : CurveHyp b) {P : Pt K} (hP : Pt.isOnCurve b P = true) :
    toPoint hc P hP = 0 ↔ P = Pt.inf := by
  constructor
  · intro h; exact toPoint_injective hc (hQ := Pt.isOnCurve_inf b) h
  · rintro rfl; rfl

omit [DecidableEq K] in
theorem some_congr {b : K} {x y x' y' : K} (hx : x = x') (hy : y = y') (h : (W b).Nonsingular x y)
    (h' : (W b).Nonsingular x' y') : Affine.Point.some x y h = Affine.Point.some x' y' h' := by
  subst hx; subst hy; rfl

/-! ### the dictionary -/

theorem toPoint_neg {b : K} (hc : CurveHyp b) {P : Pt K} (hP : Pt.isOnCurve b P = true)
    (h : Pt.isOnCurve b (Pt.neg P) = true) : toPoint hc (Pt.neg P) h = -toPoint hc P hP := by
  cases P with
  | inf => rfl
  | aff x y =>
    simp only [Pt.neg, toPoint_aff, Affine.Point.neg_some]
    exact some_congr rfl (W_negY b x y).symm _ _

theorem toPoint_add {b : K} (hc : CurveHyp b) {P Q : Pt K} (hP : Pt.isOnCurve b P = true)
    (hQ : Pt.isOnCurve b Q = true) (h : Pt.isOnCurve b (Pt.add P Q) = true) :
    toPoint hc (Pt.add P Q) h = toPoint hc P hP + toPoint hc Q hQ := by
  cases P with
  | inf =>
    rw [toPoint_inf, zero_add]
    exact toPoint_congr hc (Pt.inf_add Q) _ _
  | aff x1 y1 =>
    cases Q with
    | inf =>
      rw [toPoint_inf, add_zero]
      exact toPoint_congr hc (Pt.add_inf _) _ _
    | aff x2 y2 =>
      have e1 := (Pt.isOnCurve_aff b x1 y1).mp hP
      have e2 := (Pt.isOnCurve_aff b x2 y2).mp hQ
      rw [toPoint_aff hc hP, toPoint_aff hc hQ]
      by_cases hx : x1 = x2
      · by_cases hy : y1 = -y2
        · have e : Pt.add (Pt.aff x1 y1) (Pt.aff x2 y2) = Pt.inf := by simp [Pt.add, hx, hy]
          rw [toPoint_congr hc e h (Pt.isOnCurve_inf b), toPoint_inf,
            Affine.Point.add_of_Y_eq hx (by rw [W_negY]; exact hy)]
        · -- same point, tangent
          have hyy : y1 = y2 := by
            have : (y1 - y2) * (y1 + y2) = 0 := by rw [hx] at e1; linear_combination e1 - e2
            rcases mul_eq_zero.mp this with h' | h'
            · exact sub_eq_zero.mp h'
            · exact absurd (eq_neg_of_add_eq_zero_left h') hy
          subst hx; subst hyy
          have e : Pt.add (Pt.aff x1 y1) (Pt.aff x1 y1) =
              Pt.aff (Pt.tangentSlope x1 y1 * Pt.tangentSlope x1 y1 - x1 - x1)
                (Pt.tangentSlope x1 y1 *
                  (x1 - (Pt.tangentSlope x1 y1 * Pt.tangentSlope x1 y1 - x1 - x1)) - y1) := by
            simp [Pt.add, Pt.dbl, hy]
          have hne : y1 ≠ (W b).negY x1 y1 := by rw [W_negY]; exact hy
          have hsl : (W b).slope x1 x1 y1 y1 = Pt.tangentSlope x1 y1 := by
            rw [Affine.slope_of_Y_ne rfl hne, W_negY]
            simp only [W_a₁, W_a₂, W_a₄, Pt.tangentSlope, div_eq_mul_inv]
            congr 1 <;> ring
          have h' := h
          rw [e] at h'
          rw [toPoint_congr hc e h h', toPoint_aff, Affine.Point.add_of_Y_ne hne]
          refine some_congr ?_ ?_ _ _
          · rw [hsl]; simp [Affine.addX]; ring
          · rw [hsl]; simp [Affine.addY, Affine.negAddY, Affine.addX, Affine.negY]; ring
      · have e : Pt.add (Pt.aff x1 y1) (Pt.aff x2 y2) =
            Pt.aff (Pt.chordSlope x1 y1 x2 y2 * Pt.chordSlope x1 y1 x2 y2 - x1 - x2)
              (Pt.chordSlope x1 y1 x2 y2 *
                (x1 - (Pt.chordSlope x1 y1 x2 y2 * Pt.chordSlope x1 y1 x2 y2 - x1 - x2)) - y1) := by
          simp [Pt.add, hx]
        have hsl : (W b).slope x1 x2 y1 y2 = Pt.chordSlope x1 y1 x2 y2 := by
          rw [Affine.slope_of_X_ne hx]
          have h12 : x1 - x2 ≠ 0 := sub_ne_zero.mpr hx
          have h21 : x2 - x1 ≠ 0 := sub_ne_zero.mpr (Ne.symm hx)
          simp only [Pt.chordSlope]
          field_simp
          ring
        have h' := h
        rw [e] at h'
        rw [toPoint_congr hc e h h', toPoint_aff, Affine.Point.add_of_X_ne hx]
        refine some_congr ?_ ?_ _ _
        · rw [hsl]; simp [Affine.addX]; ring
        · rw [hsl]; simp [Affine.addY, Affine.negAddY, Affine.addX, Affine.negY]; ring

theorem toPoint_dbl {b : K} (hc : CurveHyp b) {P : Pt K} (hP : Pt.isOnCurve b P = true)
    (h : Pt.isOnCurve b (Pt.dbl P) = true) : toPoint hc (Pt.dbl P) h = 2 • toPoint hc P hP := by
  have h' : Pt.isOnCurve b (Pt.add P P) = true := by rw [Pt.add_self]; exact h
  rw [toPoint_congr hc (Pt.add_self P).symm h h', toPoint_add hc hP hP, two_nsmul]

theorem toPoint_smul {b : K} (hc : CurveHyp b) {P : Pt K} (hP : Pt.isOnCurve b P = true) (n : Nat)
    (h : Pt.isOnCurve b (Pt.smul n P) = true) : toPoint hc (Pt.smul n P) h = n • toPoint hc P hP := by
  induction n using Nat.strong_induction_on with
  | _ n ih =>
    cases n with
    | zero =>
      have e : Pt.smul 0 P = Pt.inf := by rw [Pt.smul]
      rw [toPoint_congr hc e h (Pt.isOnCurve_inf b), toPoint_inf, zero_nsmul]
    | succ k =>
      have hh := Pt.smul_isOnCurve hc.two hP ((k + 1) / 2)
      have hd := Pt.dbl_isOnCurve hc.two hh
      have ihh := ih ((k + 1) / 2) (by omega) hh
      by_cases hodd : (k + 1) % 2 = 1
      · have e : Pt.smul (k + 1) P = Pt.add (Pt.dbl (Pt.smul ((k + 1) / 2) P)) P := by
          rw [Pt.smul]; simp [hodd]
        have h' := h
        rw [e] at h'
        rw [toPoint_congr hc e h h', toPoint_add hc hd hP, toPoint_dbl hc hh, ihh, ← mul_nsmul',
          ← succ_nsmul]
        congr 1; omega
      · have e : Pt.smul (k + 1) P = Pt.dbl (Pt.smul ((k + 1) / 2) P) := by
          rw [Pt.smul]; simp [hodd]
        rw [toPoint_congr hc e h hd, toPoint_dbl hc hh, ihh, ← mul_nsmul']
        congr 1; omega

/-! ### consequences: the Spec law on curve points is an abelian group law -/

section Laws
variable {b : K} (hc : CurveHyp b) {P Q R : Pt K} (hP : Pt.isOnCurve b P = true)
  (hQ : Pt.isOnCurve b Q = true) (hR : Pt.isOnCurve b R = true)
include hc hP

theorem Pt.add_assoc' (hQ : Pt.isOnCurve b Q = true) (hR : Pt.isOnCurve b R = true) :
    Pt.add (Pt.add P Q) R = Pt.add P (Pt.add Q R) := by
  have hPQ := Pt.add_isOnCurve hc.two hP hQ
  have hQR := Pt.add_isOnCurve hc.two hQ hR
  refine toPoint_injective hc (hP := Pt.add_isOnCurve hc.two hPQ hR)
    (hQ := Pt.add_isOnCurve hc.two hP hQR) ?_
  rw [toPoint_add hc hPQ hR, toPoint_add hc hP hQ, toPoint_add hc hP hQR, toPoint_add hc hQ hR,
    add_assoc]

theorem Pt.add_comm' (hQ : Pt.isOnCurve b Q = true) : Pt.add P Q = Pt.add Q P := by
  refine toPoint_injective hc (hP := Pt.add_isOnCurve hc.two hP hQ)
    (hQ := Pt.add_isOnCurve hc.two hQ hP) ?_
  rw [toPoint_add hc hP hQ, toPoint_add hc hQ hP, add_comm]

theorem Pt.neg_add_self' : Pt.add (Pt.neg P) P = Pt.inf := by
  rw [Pt.add_comm' hc (Pt.neg_isOnCurve hP) hP, Pt.add_neg_self]

theorem Pt.smul_add' (m n : Nat) : Pt.smul (m + n) P = Pt.add (Pt.smul m P) (Pt.smul n P) := by
  have hm := Pt.smul_isOnCurve hc.two hP m
  have hn := Pt.smul_isOnCurve hc.two hP n
  refine toPoint_injective hc (hP := Pt.smul_isOnCurve hc.two hP (m + n))
    (hQ := Pt.add_isOnCurve hc.two hm hn) ?_
  rw [toPoint_smul hc hP, toPoint_add hc hm hn, toPoint_smul hc hP, toPoint_smul hc hP, add_nsmul]

theorem Pt.smul_mul' (m n : Nat) : Pt.smul (m * n) P = Pt.smul m (Pt.smul n P) := by
  have hn := Pt.smul_isOnCurve hc.two hP n
  refine toPoint_injective hc (hP := Pt.smul_isOnCurve hc.two hP (m * n))
    (hQ := Pt.smul_isOnCurve hc.two hn m) ?_
  rw [toPoint_smul hc hP, toPoint_smul hc hn, toPoint_smul hc hP, mul_comm, mul_nsmul]

theorem Pt.smul_succ' (n : Nat) : Pt.smul (n + 1) P = Pt.add (Pt.smul n P) P := by
  refine toPoint_injective hc (hP := Pt.smul_isOnCurve hc.two hP (n + 1))
    (hQ := Pt.add_isOnCurve hc.two (Pt.smul_isOnCurve hc.two hP n) hP) ?_
  rw [toPoint_smul hc hP, toPoint_add hc (Pt.smul_isOnCurve hc.two hP n) hP, toPoint_smul hc hP,
    succ_nsmul]

theorem Pt.smul_one' : Pt.smul 1 P = P := by
  refine toPoint_injective hc (hP := Pt.smul_isOnCurve hc.two hP 1) (hQ := hP) ?_
  rw [toPoint_smul hc hP, one_nsmul]

theorem Pt.smul_two' : Pt.smul 2 P = Pt.dbl P := by
  refine toPoint_injective hc (hP := Pt.smul_isOnCurve hc.two hP 2)
    (hQ := Pt.dbl_isOnCurve hc.two hP) ?_
  rw [toPoint_smul hc hP, toPoint_dbl hc hP]

theorem Pt.smul_neg' (n : Nat) : Pt.smul n (Pt.neg P) = Pt.neg (Pt.smul n P) := by
  have hn := Pt.smul_isOnCurve hc.two hP n
  have hneg := Pt.neg_isOnCurve hP
  refine toPoint_injective hc (hP := Pt.smul_isOnCurve hc.two hneg n)
    (hQ := Pt.neg_isOnCurve hn) ?_
  rw [toPoint_smul hc hneg, toPoint_neg hc hP, toPoint_neg hc hn, toPoint_smul hc hP, neg_nsmul]

end Laws

omit [DecidableEq K] in
theorem Pt.neg_neg' (P : Pt K) : Pt.neg (Pt.neg P) = P := by
  cases P with
  | inf => rfl
  | aff x y => simp [Pt.neg]

theorem Pt.smul_inf' (n : Nat) : Pt.smul n (Pt.inf : Pt K) = Pt.inf := by
  induction n using Nat.strong_induction_on with
  | _ n ih =>
    cases n with
    | zero => rw [Pt.smul]
    | succ k =>
      rw [Pt.smul, ih ((k + 1) / 2) (by omega)]
      split <;> rfl

end

/-! ### non-vacuity: y² = x³ + 3 over ℚ, P = (1, 2), 2P = (−23/16, −11/64) -/
section NonVacuity
private theorem hcQ : CurveHyp (3 : ℚ) := ⟨by norm_num, by norm_num, by norm_num⟩
private theorem hP12 : Pt.isOnCurve (3 : ℚ) (Pt.aff 1 2) = true := by decide +kernel
example : toPoint hcQ (Pt.aff 1 2) hP12 ≠ 0 := by
  rw [Ne, toPoint_eq_zero_iff]; exact fun h => by cases h
example : Pt.add (Pt.add (Pt.aff (1 : ℚ) 2) (Pt.aff 1 2)) (Pt.aff 1 2) =
    Pt.add (Pt.aff 1 2) (Pt.add (Pt.aff 1 2) (Pt.aff 1 2)) := Pt.add_assoc' hcQ hP12 hP12 hP12
example : Pt.add (Pt.aff (1 : ℚ) 2) (Pt.aff 1 2) = Pt.aff (-23 / 16) (-11 / 64) := by decide +kernel
end NonVacuity

end Jedi
