/-
`multiply768` (the 12×12-limb product into the 24-word buffer at SP: row 0, then eleven instances of the generic row) and the
routine `embedded_pairing_core_arch_armv6_m_bigint_768_multiply` of /repo/src/core/arch/armv6_m/multiply.s.

Statements and proof scripts are written by an authoring script; nothing depends on it.
-/
import JediVerif.Proofs.Thumb1MulRows

set_option linter.unusedSimpArgs false
set_option exponentiation.threshold 800

namespace Jedi.Thumb1
open Jedi.Impl (val WF val_cons val_nil val_lt val_inj val_append)
open Jedi.X86 (Hide Hide.mk Hide.out)
open Jedi.Gen.AsmV6M

theorem limbs32_one (m : Nat → Word) (p : Nat) : limbs32 m p 1 = [(m p).toNat] := by
  simp [limbs32]

/-- one more row: the product buffer holds `a[0..i]·b` after row `i` -/
theorem mul_step (i : Nat) (m0 m m' : Nat → Word) (pa pb S : Nat)
    (hda : pa + 48 ≤ S ∨ S + 96 ≤ pa) (hdb : pb + 48 ≤ S ∨ S + 96 ≤ pb) (hi : i < 12)
    (hfr : ∀ k, ¬(S ≤ k ∧ k < S + 96) → m k = m0 k)
    (hinv : val (2 ^ 32) (limbs32 m S (i + 12)) = val (2 ^ 32) (limbs32 m0 pa i) * val (2 ^ 32) (limbs32 m0 pb 12))
    (hfr' : ∀ k, ¬(S + 4 * i ≤ k ∧ k < S + 4 * i + 52) → m' k = m k)
    (hrow : val (2 ^ 32) (limbs32 m' (S + 4 * i) 13)
      = (m (pa + 4 * i)).toNat * val (2 ^ 32) (limbs32 m pb 12) + val (2 ^ 32) (limbs32 m (S + 4 * i) 12)) :
    (∀ k, ¬(S ≤ k ∧ k < S + 96) → m' k = m0 k) ∧
    val (2 ^ 32) (limbs32 m' S (i + 1 + 12)) = val (2 ^ 32) (limbs32 m0 pa (i + 1)) * val (2 ^ 32) (limbs32 m0 pb 12) := by
  refine ⟨fun k hk => by rw [hfr' k (by omega), hfr k hk], ?_⟩
  have eb : limbs32 m pb 12 = limbs32 m0 pb 12 := limbs32_congr _ _ _ _ (fun j hj => hfr _ (by omega))
  have ea : m (pa + 4 * i) = m0 (pa + 4 * i) := hfr _ (by omega)
  have e1 : limbs32 m' S (i + 1 + 12) = limbs32 m' S i ++ limbs32 m' (S + 4 * i) 13 := by
    rw [show i + 1 + 12 = i + 13 by omega, limbs32_add]
  have e2 : limbs32 m' S i = limbs32 m S i := limbs32_congr _ _ _ _ (fun j hj => hfr' _ (by omega))
  have e3 : limbs32 m S (i + 12) = limbs32 m S i ++ limbs32 m (S + 4 * i) 12 := limbs32_add _ _ _ _
  have e4 : limbs32 m0 pa (i + 1) = limbs32 m0 pa i ++ [(m0 (pa + 4 * i)).toNat] := by
    rw [limbs32_add, limbs32_one]
  rw [e3, val_append] at hinv
  rw [e1, val_append, e2, hrow, ea, eb, e4, val_append, limbs32_length, limbs32_length]
  simp only [val_cons, val_nil, limbs32_length] at hinv ⊢
  linear_combination hinv

set_option maxHeartbeats 1600000 in
/-- `multiply768`: the 24 words at SP become `a · b` (`a`, `b` the 12-word objects `r1`, `r2` point to, which must not overlap the buffer);
nothing else in memory changes; `r1`, `r2`, `r8`, `r9`, `r11`, `r12`, SP, LR are preserved. -/
theorem multiply768_run (st : State) (hst : st.status = .running)
    (ha : Span st.readable st.writable st.r1.toNat 12 false) (hb : Span st.readable st.writable st.r2.toNat 12 false)
    (ht : Span st.readable st.writable st.sp.toNat 24 true)
    (hda : st.r1.toNat + 48 ≤ st.sp.toNat ∨ st.sp.toNat + 96 ≤ st.r1.toNat)
    (hdb : st.r2.toNat + 48 ≤ st.sp.toNat ∨ st.sp.toNat + 96 ≤ st.r2.toNat) :
    ∃ (x0 x3 x4 x5 x6 x7 x10 : Word) (n z c v : Option Bool) (m' : Nat → Word),
      runL Code.multiply768 st = { st with r0 := x0, r3 := x3, r4 := x4, r5 := x5, r6 := x6, r7 := x7, r10 := x10, nf := n, zf := z, cf := c, vf := v, mem := m', pc := st.pc + 3565 } ∧
      (∀ k, ¬(st.sp.toNat ≤ k ∧ k < st.sp.toNat + 96) → m' k = st.mem k) ∧
      val (2 ^ 32) (limbs32 m' st.sp.toNat 24) = val (2 ^ 32) (limbs32 st.mem st.r1.toNat 12) * val (2 ^ 32) (limbs32 st.mem st.r2.toNat 12) := by
  obtain ⟨r0, r1, r2, r3, r4, r5, r6, r7, r8, r9, r10, r11, r12, sp, lr, nf, zf, cf, vf, m, rd, wr, pc, status, csm⟩ := st
  simp only at hst ha hb ht hda hdb ⊢
  subst hst
  unfold Code.multiply768
  simp only [runL_append]
  obtain ⟨x0_0, x3_0, x4_0, x5_0, x6_0, x7_0, n_0, z_0, c_0, v_0, m_0, e0, f0, v0⟩ := mulRow0_run r0 r1 r2 r3 r4 r5 r6 r7 r8 r9 r10 r11 r12 sp lr nf zf cf vf m rd wr pc csm (ha.sub 0 1 (by decide)) hb (ht.sub 0 13 (by decide)) (by omega)
  rw [e0]; clear e0
  have inv0 : (∀ k, ¬(sp.toNat ≤ k ∧ k < sp.toNat + 96) → m_0 k = m k) ∧ val (2 ^ 32) (limbs32 m_0 sp.toNat (0 + 1 + 12)) = val (2 ^ 32) (limbs32 m r1.toNat (0 + 1)) * val (2 ^ 32) (limbs32 m r2.toNat 12) := by
    refine ⟨fun k hk => f0 k (by omega), ?_⟩
    rw [show (0 + 1 + 12) = 13 from rfl, v0, limbs32_one]; simp only [val_cons, val_nil]; ring
  clear f0 v0
  obtain ⟨x0_1, x3_1, x4_1, x5_1, x6_1, x7_1, n_1, z_1, c_1, v_1, m_1, e1, f1, v1⟩ := mulRow_run 4 x0_0 r1 r2 x3_0 x4_0 x5_0 x6_0 x7_0 r8 r9 (m (BitVec.toNat r1)) r11 r12 sp lr n_0 z_0 c_0 v_0 m_0 rd wr (pc + 265) csm (ha.sub 1 1 (by decide)) hb (ht.sub 1 13 (by decide)) (by omega)
  rw [e1]; clear e1
  have inv1 := mul_step 1 m m_0 m_1 r1.toNat r2.toNat sp.toNat hda hdb (by decide) inv0.1 inv0.2 f1 v1
  clear f1 v1 inv0
  obtain ⟨x0_2, x3_2, x4_2, x5_2, x6_2, x7_2, n_2, z_2, c_2, v_2, m_2, e2, f2, v2⟩ := mulRow_run 8 x0_1 r1 r2 x3_1 x4_1 x5_1 x6_1 x7_1 r8 r9 (m_0 (BitVec.toNat r1 + 4)) r11 r12 sp lr n_1 z_1 c_1 v_1 m_1 rd wr (pc + 565) csm (ha.sub 2 1 (by decide)) hb (ht.sub 2 13 (by decide)) (by omega)
  rw [e2]; clear e2
  have inv2 := mul_step 2 m m_1 m_2 r1.toNat r2.toNat sp.toNat hda hdb (by decide) inv1.1 inv1.2 f2 v2
  clear f2 v2 inv1
  obtain ⟨x0_3, x3_3, x4_3, x5_3, x6_3, x7_3, n_3, z_3, c_3, v_3, m_3, e3, f3, v3⟩ := mulRow_run 12 x0_2 r1 r2 x3_2 x4_2 x5_2 x6_2 x7_2 r8 r9 (m_1 (BitVec.toNat r1 + 8)) r11 r12 sp lr n_2 z_2 c_2 v_2 m_2 rd wr (pc + 865) csm (ha.sub 3 1 (by decide)) hb (ht.sub 3 13 (by decide)) (by omega)
  rw [e3]; clear e3
  have inv3 := mul_step 3 m m_2 m_3 r1.toNat r2.toNat sp.toNat hda hdb (by decide) inv2.1 inv2.2 f3 v3
  clear f3 v3 inv2
  obtain ⟨x0_4, x3_4, x4_4, x5_4, x6_4, x7_4, n_4, z_4, c_4, v_4, m_4, e4, f4, v4⟩ := mulRow_run 16 x0_3 r1 r2 x3_3 x4_3 x5_3 x6_3 x7_3 r8 r9 (m_2 (BitVec.toNat r1 + 12)) r11 r12 sp lr n_3 z_3 c_3 v_3 m_3 rd wr (pc + 1165) csm (ha.sub 4 1 (by decide)) hb (ht.sub 4 13 (by decide)) (by omega)
  rw [e4]; clear e4
  have inv4 := mul_step 4 m m_3 m_4 r1.toNat r2.toNat sp.toNat hda hdb (by decide) inv3.1 inv3.2 f4 v4
  clear f4 v4 inv3
  obtain ⟨x0_5, x3_5, x4_5, x5_5, x6_5, x7_5, n_5, z_5, c_5, v_5, m_5, e5, f5, v5⟩ := mulRow_run 20 x0_4 r1 r2 x3_4 x4_4 x5_4 x6_4 x7_4 r8 r9 (m_3 (BitVec.toNat r1 + 16)) r11 r12 sp lr n_4 z_4 c_4 v_4 m_4 rd wr (pc + 1465) csm (ha.sub 5 1 (by decide)) hb (ht.sub 5 13 (by decide)) (by omega)
  rw [e5]; clear e5
  have inv5 := mul_step 5 m m_4 m_5 r1.toNat r2.toNat sp.toNat hda hdb (by decide) inv4.1 inv4.2 f5 v5
  clear f5 v5 inv4
  obtain ⟨x0_6, x3_6, x4_6, x5_6, x6_6, x7_6, n_6, z_6, c_6, v_6, m_6, e6, f6, v6⟩ := mulRow_run 24 x0_5 r1 r2 x3_5 x4_5 x5_5 x6_5 x7_5 r8 r9 (m_4 (BitVec.toNat r1 + 20)) r11 r12 sp lr n_5 z_5 c_5 v_5 m_5 rd wr (pc + 1765) csm (ha.sub 6 1 (by decide)) hb (ht.sub 6 13 (by decide)) (by omega)
  rw [e6]; clear e6
  have inv6 := mul_step 6 m m_5 m_6 r1.toNat r2.toNat sp.toNat hda hdb (by decide) inv5.1 inv5.2 f6 v6
  clear f6 v6 inv5
  obtain ⟨x0_7, x3_7, x4_7, x5_7, x6_7, x7_7, n_7, z_7, c_7, v_7, m_7, e7, f7, v7⟩ := mulRow_run 28 x0_6 r1 r2 x3_6 x4_6 x5_6 x6_6 x7_6 r8 r9 (m_5 (BitVec.toNat r1 + 24)) r11 r12 sp lr n_6 z_6 c_6 v_6 m_6 rd wr (pc + 2065) csm (ha.sub 7 1 (by decide)) hb (ht.sub 7 13 (by decide)) (by omega)
  rw [e7]; clear e7
  have inv7 := mul_step 7 m m_6 m_7 r1.toNat r2.toNat sp.toNat hda hdb (by decide) inv6.1 inv6.2 f7 v7
  clear f7 v7 inv6
  obtain ⟨x0_8, x3_8, x4_8, x5_8, x6_8, x7_8, n_8, z_8, c_8, v_8, m_8, e8, f8, v8⟩ := mulRow_run 32 x0_7 r1 r2 x3_7 x4_7 x5_7 x6_7 x7_7 r8 r9 (m_6 (BitVec.toNat r1 + 28)) r11 r12 sp lr n_7 z_7 c_7 v_7 m_7 rd wr (pc + 2365) csm (ha.sub 8 1 (by decide)) hb (ht.sub 8 13 (by decide)) (by omega)
  rw [e8]; clear e8
  have inv8 := mul_step 8 m m_7 m_8 r1.toNat r2.toNat sp.toNat hda hdb (by decide) inv7.1 inv7.2 f8 v8
  clear f8 v8 inv7
  obtain ⟨x0_9, x3_9, x4_9, x5_9, x6_9, x7_9, n_9, z_9, c_9, v_9, m_9, e9, f9, v9⟩ := mulRow_run 36 x0_8 r1 r2 x3_8 x4_8 x5_8 x6_8 x7_8 r8 r9 (m_7 (BitVec.toNat r1 + 32)) r11 r12 sp lr n_8 z_8 c_8 v_8 m_8 rd wr (pc + 2665) csm (ha.sub 9 1 (by decide)) hb (ht.sub 9 13 (by decide)) (by omega)
  rw [e9]; clear e9
  have inv9 := mul_step 9 m m_8 m_9 r1.toNat r2.toNat sp.toNat hda hdb (by decide) inv8.1 inv8.2 f9 v9
  clear f9 v9 inv8
  obtain ⟨x0_10, x3_10, x4_10, x5_10, x6_10, x7_10, n_10, z_10, c_10, v_10, m_10, e10, f10, v10⟩ := mulRow_run 40 x0_9 r1 r2 x3_9 x4_9 x5_9 x6_9 x7_9 r8 r9 (m_8 (BitVec.toNat r1 + 36)) r11 r12 sp lr n_9 z_9 c_9 v_9 m_9 rd wr (pc + 2965) csm (ha.sub 10 1 (by decide)) hb (ht.sub 10 13 (by decide)) (by omega)
  rw [e10]; clear e10
  have inv10 := mul_step 10 m m_9 m_10 r1.toNat r2.toNat sp.toNat hda hdb (by decide) inv9.1 inv9.2 f10 v10
  clear f10 v10 inv9
  obtain ⟨x0_11, x3_11, x4_11, x5_11, x6_11, x7_11, n_11, z_11, c_11, v_11, m_11, e11, f11, v11⟩ := mulRow_run 44 x0_10 r1 r2 x3_10 x4_10 x5_10 x6_10 x7_10 r8 r9 (m_9 (BitVec.toNat r1 + 40)) r11 r12 sp lr n_10 z_10 c_10 v_10 m_10 rd wr (pc + 3265) csm (ha.sub 11 1 (by decide)) hb (ht.sub 11 13 (by decide)) (by omega)
  rw [e11]; clear e11
  have inv11 := mul_step 11 m m_10 m_11 r1.toNat r2.toNat sp.toNat hda hdb (by decide) inv10.1 inv10.2 f11 v11
  clear f11 v11 inv10
  exact ⟨_, _, _, _, _, _, _, _, _, _, _, _, rfl, inv11.1, inv11.2⟩


theorem limbs32_24 (m : Nat → Word) (p : Nat) : limbs32 m p 24 =
    [(m (p + 0)).toNat, (m (p + 4)).toNat, (m (p + 8)).toNat, (m (p + 12)).toNat, (m (p + 16)).toNat, (m (p + 20)).toNat, (m (p + 24)).toNat, (m (p + 28)).toNat, (m (p + 32)).toNat, (m (p + 36)).toNat, (m (p + 40)).toNat, (m (p + 44)).toNat, (m (p + 48)).toNat, (m (p + 52)).toNat, (m (p + 56)).toNat, (m (p + 60)).toNat, (m (p + 64)).toNat, (m (p + 68)).toNat, (m (p + 72)).toNat, (m (p + 76)).toNat, (m (p + 80)).toNat, (m (p + 84)).toNat, (m (p + 88)).toNat, (m (p + 92)).toNat] := rfl

theorem Buf.span {s : State} {p : Word} {n : Nat} {w : Bool} (h : Buf s p n w) : Span s.readable s.writable p.toNat n w :=
  ⟨h.fits, h.aligned, h.readable, h.writable⟩

/-- the `n` words below SP, as a span starting at `base` when `SP = base + 4n` -/
theorem Stack.span {s : State} {n : Nat} (h : Stack s n) (base : Nat) (hb : s.sp.toNat = base + 4 * n) :
    Span s.readable s.writable base n true := by
  refine ⟨?_, ?_, ?_, ?_⟩
  · have := s.sp.isLt; omega
  · have := h.aligned; omega
  · intro i hi
    have := (h.slots (n - i) (by omega) (by omega)).1
    rwa [show s.sp.toNat - 4 * (n - i) = base + 4 * i by omega] at this
  · intro _ i hi
    have := (h.slots (n - i) (by omega) (by omega)).2
    rwa [show s.sp.toNat - 4 * (n - i) = base + 4 * i by omega] at this

/-- SP as `B + 4n` with `B` the lowest address the routine's frame reaches -/
theorem Stack.base {s : State} {n : Nat} (h : Stack s n) (hn : 4 * n < 2 ^ 32) :
    ∃ B : Word, s.sp = B + BitVec.ofNat 32 (4 * n) ∧ B.toNat + 4 * n < 2 ^ 32 ∧ s.sp.toNat = B.toNat + 4 * n := by
  have hroom := h.room
  have hlt := s.sp.isLt
  refine ⟨s.sp - BitVec.ofNat 32 (4 * n), ?_, ?_, ?_⟩
  · rw [BitVec.sub_add_cancel]
  · rw [sub_lit_toNat _ _ hroom]; omega
  · rw [sub_lit_toNat _ _ hroom]; omega

set_option maxHeartbeats 1600000 in
/-- `void bigint_768_multiply(res, a, b)`: `res` (24 words) `= a · b`; `res` may overlap `a`, `b` in any way (the product is built in a
buffer on the stack and copied).  The routine reads one word of the caller's frame (`ldr r4, [sp, #36]` after nine pushes: the word
at the entry SP), so that word must be readable (`hcw`). -/
theorem bigint_768_multiply_run (s : State) (pr pa pb : Word)
    (hst : s.status = .running) (hpc : s.pc = 0) (h0 : s.r0 = pr) (h1 : s.r1 = pa) (h2 : s.r2 = pb) (hlr : s.lr.toNat % 2 = 1)
    (hr : Buf s pr 24 true) (ha : Buf s pa 12 false) (hb : Buf s pb 12 false)
    (hstk : Stack s 33) (hcw : s.readable s.sp.toNat = true)
    (hrs : OffStack s 33 pr 24) (has : OffStack s 33 pa 12) (hbs : OffStack s 33 pb 12) :
    ∃ s', run embedded_pairing_core_arch_armv6_m_bigint_768_multiply s 3593 = s' ∧ Returned s s' ∧
      val (2 ^ 32) (limbs32 s'.mem pr.toNat 24) = val (2 ^ 32) (limbs32 s.mem pa.toNat 12) * val (2 ^ 32) (limbs32 s.mem pb.toNat 12) ∧
      (∀ k, ¬(pr.toNat ≤ k ∧ k < pr.toNat + 96) → ¬(s.sp.toNat - 132 ≤ k ∧ k < s.sp.toNat) → s'.mem k = s.mem k) := by
  refine ⟨_, rfl, ?_⟩
  obtain ⟨B, hB, hBlt, hsp⟩ := hstk.base (by decide)
  have hS := hstk.span B.toNat hsp
  have hR := hr.span
  have hA := ha.span
  have hBb := hb.span
  have k_lt0 : B.toNat < 2 ^ 32 := hS.lt_0 (by decide)
  have k_al0 : (B.toNat) % 4 = 0 := hS.aligned
  have k_rd0 : s.readable (B.toNat) = true := hS.rd_0 (by decide)
  have k_wr0 : s.writable (B.toNat) = true := hS.wr_0 (by decide)
  have k_lt1 : B.toNat + 4 < 2 ^ 32 := hS.lt_k 4 (by decide)
  have k_al1 : (B.toNat + 4) % 4 = 0 := hS.al_k 4 (by decide)
  have k_rd1 : s.readable (B.toNat + 4) = true := hS.rd_k 4 (by decide) (by decide)
  have k_wr1 : s.writable (B.toNat + 4) = true := hS.wr_k 4 (by decide) (by decide)
  have k_lt2 : B.toNat + 8 < 2 ^ 32 := hS.lt_k 8 (by decide)
  have k_al2 : (B.toNat + 8) % 4 = 0 := hS.al_k 8 (by decide)
  have k_rd2 : s.readable (B.toNat + 8) = true := hS.rd_k 8 (by decide) (by decide)
  have k_wr2 : s.writable (B.toNat + 8) = true := hS.wr_k 8 (by decide) (by decide)
  have k_lt3 : B.toNat + 12 < 2 ^ 32 := hS.lt_k 12 (by decide)
  have k_al3 : (B.toNat + 12) % 4 = 0 := hS.al_k 12 (by decide)
  have k_rd3 : s.readable (B.toNat + 12) = true := hS.rd_k 12 (by decide) (by decide)
  have k_wr3 : s.writable (B.toNat + 12) = true := hS.wr_k 12 (by decide) (by decide)
  have k_lt4 : B.toNat + 16 < 2 ^ 32 := hS.lt_k 16 (by decide)
  have k_al4 : (B.toNat + 16) % 4 = 0 := hS.al_k 16 (by decide)
  have k_rd4 : s.readable (B.toNat + 16) = true := hS.rd_k 16 (by decide) (by decide)
  have k_wr4 : s.writable (B.toNat + 16) = true := hS.wr_k 16 (by decide) (by decide)
  have k_lt5 : B.toNat + 20 < 2 ^ 32 := hS.lt_k 20 (by decide)
  have k_al5 : (B.toNat + 20) % 4 = 0 := hS.al_k 20 (by decide)
  have k_rd5 : s.readable (B.toNat + 20) = true := hS.rd_k 20 (by decide) (by decide)
  have k_wr5 : s.writable (B.toNat + 20) = true := hS.wr_k 20 (by decide) (by decide)
  have k_lt6 : B.toNat + 24 < 2 ^ 32 := hS.lt_k 24 (by decide)
  have k_al6 : (B.toNat + 24) % 4 = 0 := hS.al_k 24 (by decide)
  have k_rd6 : s.readable (B.toNat + 24) = true := hS.rd_k 24 (by decide) (by decide)
  have k_wr6 : s.writable (B.toNat + 24) = true := hS.wr_k 24 (by decide) (by decide)
  have k_lt7 : B.toNat + 28 < 2 ^ 32 := hS.lt_k 28 (by decide)
  have k_al7 : (B.toNat + 28) % 4 = 0 := hS.al_k 28 (by decide)
  have k_rd7 : s.readable (B.toNat + 28) = true := hS.rd_k 28 (by decide) (by decide)
  have k_wr7 : s.writable (B.toNat + 28) = true := hS.wr_k 28 (by decide) (by decide)
  have k_lt8 : B.toNat + 32 < 2 ^ 32 := hS.lt_k 32 (by decide)
  have k_al8 : (B.toNat + 32) % 4 = 0 := hS.al_k 32 (by decide)
  have k_rd8 : s.readable (B.toNat + 32) = true := hS.rd_k 32 (by decide) (by decide)
  have k_wr8 : s.writable (B.toNat + 32) = true := hS.wr_k 32 (by decide) (by decide)
  have k_lt9 : B.toNat + 36 < 2 ^ 32 := hS.lt_k 36 (by decide)
  have k_al9 : (B.toNat + 36) % 4 = 0 := hS.al_k 36 (by decide)
  have k_rd9 : s.readable (B.toNat + 36) = true := hS.rd_k 36 (by decide) (by decide)
  have k_wr9 : s.writable (B.toNat + 36) = true := hS.wr_k 36 (by decide) (by decide)
  have k_lt10 : B.toNat + 40 < 2 ^ 32 := hS.lt_k 40 (by decide)
  have k_al10 : (B.toNat + 40) % 4 = 0 := hS.al_k 40 (by decide)
  have k_rd10 : s.readable (B.toNat + 40) = true := hS.rd_k 40 (by decide) (by decide)
  have k_wr10 : s.writable (B.toNat + 40) = true := hS.wr_k 40 (by decide) (by decide)
  have k_lt11 : B.toNat + 44 < 2 ^ 32 := hS.lt_k 44 (by decide)
  have k_al11 : (B.toNat + 44) % 4 = 0 := hS.al_k 44 (by decide)
  have k_rd11 : s.readable (B.toNat + 44) = true := hS.rd_k 44 (by decide) (by decide)
  have k_wr11 : s.writable (B.toNat + 44) = true := hS.wr_k 44 (by decide) (by decide)
  have k_lt12 : B.toNat + 48 < 2 ^ 32 := hS.lt_k 48 (by decide)
  have k_al12 : (B.toNat + 48) % 4 = 0 := hS.al_k 48 (by decide)
  have k_rd12 : s.readable (B.toNat + 48) = true := hS.rd_k 48 (by decide) (by decide)
  have k_wr12 : s.writable (B.toNat + 48) = true := hS.wr_k 48 (by decide) (by decide)
  have k_lt13 : B.toNat + 52 < 2 ^ 32 := hS.lt_k 52 (by decide)
  have k_al13 : (B.toNat + 52) % 4 = 0 := hS.al_k 52 (by decide)
  have k_rd13 : s.readable (B.toNat + 52) = true := hS.rd_k 52 (by decide) (by decide)
  have k_wr13 : s.writable (B.toNat + 52) = true := hS.wr_k 52 (by decide) (by decide)
  have k_lt14 : B.toNat + 56 < 2 ^ 32 := hS.lt_k 56 (by decide)
  have k_al14 : (B.toNat + 56) % 4 = 0 := hS.al_k 56 (by decide)
  have k_rd14 : s.readable (B.toNat + 56) = true := hS.rd_k 56 (by decide) (by decide)
  have k_wr14 : s.writable (B.toNat + 56) = true := hS.wr_k 56 (by decide) (by decide)
  have k_lt15 : B.toNat + 60 < 2 ^ 32 := hS.lt_k 60 (by decide)
  have k_al15 : (B.toNat + 60) % 4 = 0 := hS.al_k 60 (by decide)
  have k_rd15 : s.readable (B.toNat + 60) = true := hS.rd_k 60 (by decide) (by decide)
  have k_wr15 : s.writable (B.toNat + 60) = true := hS.wr_k 60 (by decide) (by decide)
  have k_lt16 : B.toNat + 64 < 2 ^ 32 := hS.lt_k 64 (by decide)
  have k_al16 : (B.toNat + 64) % 4 = 0 := hS.al_k 64 (by decide)
  have k_rd16 : s.readable (B.toNat + 64) = true := hS.rd_k 64 (by decide) (by decide)
  have k_wr16 : s.writable (B.toNat + 64) = true := hS.wr_k 64 (by decide) (by decide)
  have k_lt17 : B.toNat + 68 < 2 ^ 32 := hS.lt_k 68 (by decide)
  have k_al17 : (B.toNat + 68) % 4 = 0 := hS.al_k 68 (by decide)
  have k_rd17 : s.readable (B.toNat + 68) = true := hS.rd_k 68 (by decide) (by decide)
  have k_wr17 : s.writable (B.toNat + 68) = true := hS.wr_k 68 (by decide) (by decide)
  have k_lt18 : B.toNat + 72 < 2 ^ 32 := hS.lt_k 72 (by decide)
  have k_al18 : (B.toNat + 72) % 4 = 0 := hS.al_k 72 (by decide)
  have k_rd18 : s.readable (B.toNat + 72) = true := hS.rd_k 72 (by decide) (by decide)
  have k_wr18 : s.writable (B.toNat + 72) = true := hS.wr_k 72 (by decide) (by decide)
  have k_lt19 : B.toNat + 76 < 2 ^ 32 := hS.lt_k 76 (by decide)
  have k_al19 : (B.toNat + 76) % 4 = 0 := hS.al_k 76 (by decide)
  have k_rd19 : s.readable (B.toNat + 76) = true := hS.rd_k 76 (by decide) (by decide)
  have k_wr19 : s.writable (B.toNat + 76) = true := hS.wr_k 76 (by decide) (by decide)
  have k_lt20 : B.toNat + 80 < 2 ^ 32 := hS.lt_k 80 (by decide)
  have k_al20 : (B.toNat + 80) % 4 = 0 := hS.al_k 80 (by decide)
  have k_rd20 : s.readable (B.toNat + 80) = true := hS.rd_k 80 (by decide) (by decide)
  have k_wr20 : s.writable (B.toNat + 80) = true := hS.wr_k 80 (by decide) (by decide)
  have k_lt21 : B.toNat + 84 < 2 ^ 32 := hS.lt_k 84 (by decide)
  have k_al21 : (B.toNat + 84) % 4 = 0 := hS.al_k 84 (by decide)
  have k_rd21 : s.readable (B.toNat + 84) = true := hS.rd_k 84 (by decide) (by decide)
  have k_wr21 : s.writable (B.toNat + 84) = true := hS.wr_k 84 (by decide) (by decide)
  have k_lt22 : B.toNat + 88 < 2 ^ 32 := hS.lt_k 88 (by decide)
  have k_al22 : (B.toNat + 88) % 4 = 0 := hS.al_k 88 (by decide)
  have k_rd22 : s.readable (B.toNat + 88) = true := hS.rd_k 88 (by decide) (by decide)
  have k_wr22 : s.writable (B.toNat + 88) = true := hS.wr_k 88 (by decide) (by decide)
  have k_lt23 : B.toNat + 92 < 2 ^ 32 := hS.lt_k 92 (by decide)
  have k_al23 : (B.toNat + 92) % 4 = 0 := hS.al_k 92 (by decide)
  have k_rd23 : s.readable (B.toNat + 92) = true := hS.rd_k 92 (by decide) (by decide)
  have k_wr23 : s.writable (B.toNat + 92) = true := hS.wr_k 92 (by decide) (by decide)
  have k_lt24 : B.toNat + 96 < 2 ^ 32 := hS.lt_k 96 (by decide)
  have k_al24 : (B.toNat + 96) % 4 = 0 := hS.al_k 96 (by decide)
  have k_rd24 : s.readable (B.toNat + 96) = true := hS.rd_k 96 (by decide) (by decide)
  have k_wr24 : s.writable (B.toNat + 96) = true := hS.wr_k 96 (by decide) (by decide)
  have k_lt25 : B.toNat + 100 < 2 ^ 32 := hS.lt_k 100 (by decide)
  have k_al25 : (B.toNat + 100) % 4 = 0 := hS.al_k 100 (by decide)
  have k_rd25 : s.readable (B.toNat + 100) = true := hS.rd_k 100 (by decide) (by decide)
  have k_wr25 : s.writable (B.toNat + 100) = true := hS.wr_k 100 (by decide) (by decide)
  have k_lt26 : B.toNat + 104 < 2 ^ 32 := hS.lt_k 104 (by decide)
  have k_al26 : (B.toNat + 104) % 4 = 0 := hS.al_k 104 (by decide)
  have k_rd26 : s.readable (B.toNat + 104) = true := hS.rd_k 104 (by decide) (by decide)
  have k_wr26 : s.writable (B.toNat + 104) = true := hS.wr_k 104 (by decide) (by decide)
  have k_lt27 : B.toNat + 108 < 2 ^ 32 := hS.lt_k 108 (by decide)
  have k_al27 : (B.toNat + 108) % 4 = 0 := hS.al_k 108 (by decide)
  have k_rd27 : s.readable (B.toNat + 108) = true := hS.rd_k 108 (by decide) (by decide)
  have k_wr27 : s.writable (B.toNat + 108) = true := hS.wr_k 108 (by decide) (by decide)
  have k_lt28 : B.toNat + 112 < 2 ^ 32 := hS.lt_k 112 (by decide)
  have k_al28 : (B.toNat + 112) % 4 = 0 := hS.al_k 112 (by decide)
  have k_rd28 : s.readable (B.toNat + 112) = true := hS.rd_k 112 (by decide) (by decide)
  have k_wr28 : s.writable (B.toNat + 112) = true := hS.wr_k 112 (by decide) (by decide)
  have k_lt29 : B.toNat + 116 < 2 ^ 32 := hS.lt_k 116 (by decide)
  have k_al29 : (B.toNat + 116) % 4 = 0 := hS.al_k 116 (by decide)
  have k_rd29 : s.readable (B.toNat + 116) = true := hS.rd_k 116 (by decide) (by decide)
  have k_wr29 : s.writable (B.toNat + 116) = true := hS.wr_k 116 (by decide) (by decide)
  have k_lt30 : B.toNat + 120 < 2 ^ 32 := hS.lt_k 120 (by decide)
  have k_al30 : (B.toNat + 120) % 4 = 0 := hS.al_k 120 (by decide)
  have k_rd30 : s.readable (B.toNat + 120) = true := hS.rd_k 120 (by decide) (by decide)
  have k_wr30 : s.writable (B.toNat + 120) = true := hS.wr_k 120 (by decide) (by decide)
  have k_lt31 : B.toNat + 124 < 2 ^ 32 := hS.lt_k 124 (by decide)
  have k_al31 : (B.toNat + 124) % 4 = 0 := hS.al_k 124 (by decide)
  have k_rd31 : s.readable (B.toNat + 124) = true := hS.rd_k 124 (by decide) (by decide)
  have k_wr31 : s.writable (B.toNat + 124) = true := hS.wr_k 124 (by decide) (by decide)
  have k_lt32 : B.toNat + 128 < 2 ^ 32 := hS.lt_k 128 (by decide)
  have k_al32 : (B.toNat + 128) % 4 = 0 := hS.al_k 128 (by decide)
  have k_rd32 : s.readable (B.toNat + 128) = true := hS.rd_k 128 (by decide) (by decide)
  have k_wr32 : s.writable (B.toNat + 128) = true := hS.wr_k 128 (by decide) (by decide)
  have c_lt : B.toNat + 132 < 2 ^ 32 := hBlt
  have c_al : (B.toNat + 132) % 4 = 0 := by have h4 := hstk.aligned; clear * - h4 hsp; omega
  have c_rd : s.readable (B.toNat + 132) = true := by rw [← hsp]; exact hcw
  have q_lt0 : pr.toNat < 2 ^ 32 := hR.lt_0 (by decide)
  have q_al0 : (pr.toNat) % 4 = 0 := hR.aligned
  have q_wr0 : s.writable (pr.toNat) = true := hR.wr_0 (by decide)
  have q_lt1 : pr.toNat + 4 < 2 ^ 32 := hR.lt_k 4 (by decide)
  have q_al1 : (pr.toNat + 4) % 4 = 0 := hR.al_k 4 (by decide)
  have q_wr1 : s.writable (pr.toNat + 4) = true := hR.wr_k 4 (by decide) (by decide)
  have q_lt2 : pr.toNat + 8 < 2 ^ 32 := hR.lt_k 8 (by decide)
  have q_al2 : (pr.toNat + 8) % 4 = 0 := hR.al_k 8 (by decide)
  have q_wr2 : s.writable (pr.toNat + 8) = true := hR.wr_k 8 (by decide) (by decide)
  have q_lt3 : pr.toNat + 12 < 2 ^ 32 := hR.lt_k 12 (by decide)
  have q_al3 : (pr.toNat + 12) % 4 = 0 := hR.al_k 12 (by decide)
  have q_wr3 : s.writable (pr.toNat + 12) = true := hR.wr_k 12 (by decide) (by decide)
  have q_lt4 : pr.toNat + 16 < 2 ^ 32 := hR.lt_k 16 (by decide)
  have q_al4 : (pr.toNat + 16) % 4 = 0 := hR.al_k 16 (by decide)
  have q_wr4 : s.writable (pr.toNat + 16) = true := hR.wr_k 16 (by decide) (by decide)
  have q_lt5 : pr.toNat + 20 < 2 ^ 32 := hR.lt_k 20 (by decide)
  have q_al5 : (pr.toNat + 20) % 4 = 0 := hR.al_k 20 (by decide)
  have q_wr5 : s.writable (pr.toNat + 20) = true := hR.wr_k 20 (by decide) (by decide)
  have q_lt6 : pr.toNat + 24 < 2 ^ 32 := hR.lt_k 24 (by decide)
  have q_al6 : (pr.toNat + 24) % 4 = 0 := hR.al_k 24 (by decide)
  have q_wr6 : s.writable (pr.toNat + 24) = true := hR.wr_k 24 (by decide) (by decide)
  have q_lt7 : pr.toNat + 28 < 2 ^ 32 := hR.lt_k 28 (by decide)
  have q_al7 : (pr.toNat + 28) % 4 = 0 := hR.al_k 28 (by decide)
  have q_wr7 : s.writable (pr.toNat + 28) = true := hR.wr_k 28 (by decide) (by decide)
  have q_lt8 : pr.toNat + 32 < 2 ^ 32 := hR.lt_k 32 (by decide)
  have q_al8 : (pr.toNat + 32) % 4 = 0 := hR.al_k 32 (by decide)
  have q_wr8 : s.writable (pr.toNat + 32) = true := hR.wr_k 32 (by decide) (by decide)
  have q_lt9 : pr.toNat + 36 < 2 ^ 32 := hR.lt_k 36 (by decide)
  have q_al9 : (pr.toNat + 36) % 4 = 0 := hR.al_k 36 (by decide)
  have q_wr9 : s.writable (pr.toNat + 36) = true := hR.wr_k 36 (by decide) (by decide)
  have q_lt10 : pr.toNat + 40 < 2 ^ 32 := hR.lt_k 40 (by decide)
  have q_al10 : (pr.toNat + 40) % 4 = 0 := hR.al_k 40 (by decide)
  have q_wr10 : s.writable (pr.toNat + 40) = true := hR.wr_k 40 (by decide) (by decide)
  have q_lt11 : pr.toNat + 44 < 2 ^ 32 := hR.lt_k 44 (by decide)
  have q_al11 : (pr.toNat + 44) % 4 = 0 := hR.al_k 44 (by decide)
  have q_wr11 : s.writable (pr.toNat + 44) = true := hR.wr_k 44 (by decide) (by decide)
  have q_lt12 : pr.toNat + 48 < 2 ^ 32 := hR.lt_k 48 (by decide)
  have q_al12 : (pr.toNat + 48) % 4 = 0 := hR.al_k 48 (by decide)
  have q_wr12 : s.writable (pr.toNat + 48) = true := hR.wr_k 48 (by decide) (by decide)
  have q_lt13 : pr.toNat + 52 < 2 ^ 32 := hR.lt_k 52 (by decide)
  have q_al13 : (pr.toNat + 52) % 4 = 0 := hR.al_k 52 (by decide)
  have q_wr13 : s.writable (pr.toNat + 52) = true := hR.wr_k 52 (by decide) (by decide)
  have q_lt14 : pr.toNat + 56 < 2 ^ 32 := hR.lt_k 56 (by decide)
  have q_al14 : (pr.toNat + 56) % 4 = 0 := hR.al_k 56 (by decide)
  have q_wr14 : s.writable (pr.toNat + 56) = true := hR.wr_k 56 (by decide) (by decide)
  have q_lt15 : pr.toNat + 60 < 2 ^ 32 := hR.lt_k 60 (by decide)
  have q_al15 : (pr.toNat + 60) % 4 = 0 := hR.al_k 60 (by decide)
  have q_wr15 : s.writable (pr.toNat + 60) = true := hR.wr_k 60 (by decide) (by decide)
  have q_lt16 : pr.toNat + 64 < 2 ^ 32 := hR.lt_k 64 (by decide)
  have q_al16 : (pr.toNat + 64) % 4 = 0 := hR.al_k 64 (by decide)
  have q_wr16 : s.writable (pr.toNat + 64) = true := hR.wr_k 64 (by decide) (by decide)
  have q_lt17 : pr.toNat + 68 < 2 ^ 32 := hR.lt_k 68 (by decide)
  have q_al17 : (pr.toNat + 68) % 4 = 0 := hR.al_k 68 (by decide)
  have q_wr17 : s.writable (pr.toNat + 68) = true := hR.wr_k 68 (by decide) (by decide)
  have q_lt18 : pr.toNat + 72 < 2 ^ 32 := hR.lt_k 72 (by decide)
  have q_al18 : (pr.toNat + 72) % 4 = 0 := hR.al_k 72 (by decide)
  have q_wr18 : s.writable (pr.toNat + 72) = true := hR.wr_k 72 (by decide) (by decide)
  have q_lt19 : pr.toNat + 76 < 2 ^ 32 := hR.lt_k 76 (by decide)
  have q_al19 : (pr.toNat + 76) % 4 = 0 := hR.al_k 76 (by decide)
  have q_wr19 : s.writable (pr.toNat + 76) = true := hR.wr_k 76 (by decide) (by decide)
  have q_lt20 : pr.toNat + 80 < 2 ^ 32 := hR.lt_k 80 (by decide)
  have q_al20 : (pr.toNat + 80) % 4 = 0 := hR.al_k 80 (by decide)
  have q_wr20 : s.writable (pr.toNat + 80) = true := hR.wr_k 80 (by decide) (by decide)
  have q_lt21 : pr.toNat + 84 < 2 ^ 32 := hR.lt_k 84 (by decide)
  have q_al21 : (pr.toNat + 84) % 4 = 0 := hR.al_k 84 (by decide)
  have q_wr21 : s.writable (pr.toNat + 84) = true := hR.wr_k 84 (by decide) (by decide)
  have q_lt22 : pr.toNat + 88 < 2 ^ 32 := hR.lt_k 88 (by decide)
  have q_al22 : (pr.toNat + 88) % 4 = 0 := hR.al_k 88 (by decide)
  have q_wr22 : s.writable (pr.toNat + 88) = true := hR.wr_k 88 (by decide) (by decide)
  have q_lt23 : pr.toNat + 92 < 2 ^ 32 := hR.lt_k 92 (by decide)
  have q_al23 : (pr.toNat + 92) % 4 = 0 := hR.al_k 92 (by decide)
  have q_wr23 : s.writable (pr.toNat + 92) = true := hR.wr_k 92 (by decide) (by decide)
  simp only [OffStack] at hrs has hbs
  have hrs' : pr.toNat + 96 ≤ B.toNat ∨ B.toNat + 132 ≤ pr.toNat := by clear * - hrs hsp; omega
  have has' : pa.toNat + 48 ≤ B.toNat ∨ B.toNat + 132 ≤ pa.toNat := by clear * - has hsp; omega
  have hbs' : pb.toNat + 48 ≤ B.toNat ∨ B.toNat + 132 ≤ pb.toNat := by clear * - hbs hsp; omega
  clear hrs has hbs hr ha hb hstk hcw
  replace hrs' := Hide.mk hrs'
  generalize hfin : run embedded_pairing_core_arch_armv6_m_bigint_768_multiply s 3593 = s'
  rw [run_bigint_768_multiply s hpc, State.eta s] at hfin
  simp only [Code.bigint_768_multiply, runL_append, hst, h0, h1, h2, hB] at hfin
  generalize hst1 : runL [Instr.movHi .r8 .r3, Instr.ldrImm .r4 .sp 36, Instr.movHi .r9 .r4, Instr.movHi .r11 .r0, Instr.decSp 96] (runL (Code.saveRegs true) _) = st1 at hfin
  t1m_sym [Code.saveRegs] at hst1
  obtain ⟨x0, x3, x4, x5, x6, x7, x10, n, z, c, v, m', e, hfr, hval⟩ := multiply768_run st1 (by rw [← hst1]) (by rw [← hst1]; exact hA) (by rw [← hst1]; exact hBb)
    (by rw [← hst1]; exact hS.sub 0 24 (by decide)) (by rw [← hst1]; show pa.toNat + 48 ≤ B.toNat ∨ B.toNat + 96 ≤ pa.toNat; clear * - has'; omega) (by rw [← hst1]; show pb.toNat + 48 ≤ B.toNat ∨ B.toNat + 96 ≤ pb.toNat; clear * - hbs'; omega)
  rw [e] at hfin; clear e
  subst hst1
  simp only [] at hfin hfr hval
  have sv96 : m' (B.toNat + 96) = s.r8 := by
    rw [hfr _ (by clear * -; omega)]; simp (disch := (clear * -; omega)) only [setMem_eq, setMem_ne]
  have sv100 : m' (B.toNat + 100) = s.r9 := by
    rw [hfr _ (by clear * -; omega)]; simp (disch := (clear * -; omega)) only [setMem_eq, setMem_ne]
  have sv104 : m' (B.toNat + 104) = s.r10 := by
    rw [hfr _ (by clear * -; omega)]; simp (disch := (clear * -; omega)) only [setMem_eq, setMem_ne]
  have sv108 : m' (B.toNat + 108) = s.r11 := by
    rw [hfr _ (by clear * -; omega)]; simp (disch := (clear * -; omega)) only [setMem_eq, setMem_ne]
  have sv112 : m' (B.toNat + 112) = s.r4 := by
    rw [hfr _ (by clear * -; omega)]; simp (disch := (clear * -; omega)) only [setMem_eq, setMem_ne]
  have sv116 : m' (B.toNat + 116) = s.r5 := by
    rw [hfr _ (by clear * -; omega)]; simp (disch := (clear * -; omega)) only [setMem_eq, setMem_ne]
  have sv120 : m' (B.toNat + 120) = s.r6 := by
    rw [hfr _ (by clear * -; omega)]; simp (disch := (clear * -; omega)) only [setMem_eq, setMem_ne]
  have sv124 : m' (B.toNat + 124) = s.r7 := by
    rw [hfr _ (by clear * -; omega)]; simp (disch := (clear * -; omega)) only [setMem_eq, setMem_ne]
  have sv128 : m' (B.toNat + 128) = s.lr := by
    rw [hfr _ (by clear * -; omega)]; simp (disch := (clear * -; omega)) only [setMem_eq, setMem_ne]
  t1m_sym [Code.copy24, Code.copy6, Code.restoreRegs, sv96, sv100, sv104, sv108, sv112, sv116, sv120, sv124, sv128, hlr] at hfin
  subst hfin
  refine ⟨⟨rfl, rfl, hB.symm, rfl, rfl, rfl, rfl, rfl, rfl, rfl, rfl⟩, ?_, ?_⟩
  · simp only [limbs32_24, nat_add_add, Nat.reduceAdd, Nat.add_zero]
    simp (disch := (clear * -; omega)) only [setMem_eq, setMem_ne]
    rw [limbs32_congr s.mem _ pa.toNat 12 (fun i hi => by simp (disch := (clear * - hi has'; omega)) only [setMem_ne]),
      limbs32_congr s.mem _ pb.toNat 12 (fun i hi => by simp (disch := (clear * - hi hbs'; omega)) only [setMem_ne])] at hval
    simp only [limbs32_24, Nat.add_zero] at hval
    exact hval
  · intro k hk1 hk2
    simp only []
    simp (disch := (clear * - hk1; omega)) only [setMem_ne]
    rw [hfr _ (by clear * - hk2 hsp; omega)]
    simp (disch := (clear * - hk2 hsp; omega)) only [setMem_ne]

end Jedi.Thumb1
