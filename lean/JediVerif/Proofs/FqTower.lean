/-
The concrete tower Fq2 / Fq6 / Fq12 over `Fq = Fin q`, with the constant tables regenerated from the C++ source
(`instTowerConstsFq`, `Impl/ConstsFq.lean`).  This file discharges, for the concrete field and tables, the facts the
generic theorems take as hypotheses, and proves the C04 statements that need a field:

* `lawfulFrobFq : LawfulFrob Fq` (relations among the Frobenius tables, every power);
* `Fq2/Fq6/Fq12.frobenius_map_eq_pow`: the table-driven Frobenius maps are `x ↦ x^(q^k)` for EVERY `k` and element
  (and `= frobSpec`, the Spec's literal power);
* −1 is a non-square in Fq, ξ = 1+u a non-cube in Fq2, v a non-square in Fq6, hence `Field Fq2`, `Field Fq6`,
  `Field Fq12` whose operations are the Spec operations and whose inverses are the Spec inverses `Q2.inv/Q6.inv/Q12.inv`;
* the generated `inverse` functions equal the Spec inverses and invert every non-zero element;
* `Fq12::conjugate = Fq12::frobenius_map(·, 6)`, `Fq2::norm = a·ā = a^(q+1)`, `a^(q^12−1) = 1`.

Closed (variable-free) facts about the tables and about `npow` of concrete elements are checked by kernel evaluation
(`decide +kernel`); everything else is proved for arbitrary elements.
-/
import JediVerif.Proofs.FqField
import JediVerif.Proofs.LawfulFrob
import JediVerif.Impl.ConstsFq
import JediVerif.Gen.TowerThms
import Mathlib.Algebra.CharP.Lemmas
import Mathlib.Algebra.CharP.Algebra
import JediVerif.Proofs.CurveProofs
import Mathlib.Tactic.LinearCombination
import Mathlib.Tactic.FieldSimp

namespace Jedi
open Jedi.Gen

/-! ## Generic part: coefficient embeddings, characteristic, `p`-th powers componentwise -/
section Generic
variable {R : Type} [CommRing R]

/-- `R → R[u]/(u²+1)` as a ring homomorphism (the Spec's `Q2.ofBase`). -/
def Q2.ofBaseHom : R →+* Q2 R where
  toFun := Q2.ofBase
  map_one' := rfl
  map_mul' x y := by ext <;> simp [Q2.ofBase]
  map_zero' := rfl
  map_add' x y := by ext <;> simp [Q2.ofBase]

/-- `Q2 R → (Q2 R)[v]/(v³−ξ)` as a ring homomorphism (the Spec's `Q6.ofQ2`). -/
def Q6.ofQ2Hom : Q2 R →+* Q6 R where
  toFun := Q6.ofQ2
  map_one' := rfl
  map_mul' x y := by ext1 <;> simp [Q6.ofQ2]
  map_zero' := rfl
  map_add' x y := by ext1 <;> simp [Q6.ofQ2]

/-- `Q6 R → (Q6 R)[w]/(w²−v)` as a ring homomorphism (the Spec's `Q12.ofQ6`). -/
def Q12.ofQ6Hom : Q6 R →+* Q12 R where
  toFun := Q12.ofQ6
  map_one' := rfl
  map_mul' x y := by ext1 <;> simp [Q12.ofQ6]
  map_zero' := rfl
  map_add' x y := by ext1 <;> simp [Q12.ofQ6]

@[simp] theorem Q2.ofBaseHom_apply (x : R) : Q2.ofBaseHom x = ⟨x, 0⟩ := rfl
@[simp] theorem Q6.ofQ2Hom_apply (x : Q2 R) : Q6.ofQ2Hom x = ⟨x, 0, 0⟩ := rfl
@[simp] theorem Q12.ofQ6Hom_apply (x : Q6 R) : Q12.ofQ6Hom x = ⟨x, 0⟩ := rfl

theorem Q2.ofBaseHom_injective : Function.Injective (Q2.ofBaseHom : R →+* Q2 R) :=
  fun _ _ h => congrArg Q2.c0 h
theorem Q6.ofQ2Hom_injective : Function.Injective (Q6.ofQ2Hom : Q2 R →+* Q6 R) :=
  fun _ _ h => congrArg Q6.c0 h
theorem Q12.ofQ6Hom_injective : Function.Injective (Q12.ofQ6Hom : Q6 R →+* Q12 R) :=
  fun _ _ h => congrArg Q12.c0 h

instance Q2.instCharP (p : Nat) [CharP R p] : CharP (Q2 R) p := charP_of_injective_ringHom Q2.ofBaseHom_injective p
instance Q6.instCharP (p : Nat) [CharP R p] : CharP (Q6 R) p := charP_of_injective_ringHom Q6.ofQ2Hom_injective p
instance Q12.instCharP (p : Nat) [CharP R p] : CharP (Q12 R) p := charP_of_injective_ringHom Q12.ofQ6Hom_injective p

/-- the generator u of `Q2 R` over `R`. -/
def Q2.u : Q2 R := ⟨0, 1⟩

theorem Q2.decomp (a : Q2 R) : a = Q2.ofBaseHom a.c0 + Q2.ofBaseHom a.c1 * Q2.u := by
  ext <;> simp [Q2.u]
theorem Q6.decomp (a : Q6 R) : a = Q6.ofQ2Hom a.c0 + Q6.ofQ2Hom a.c1 * Q6.v + Q6.ofQ2Hom a.c2 * Q6.v ^ 2 := by
  rw [pow_two]; ext1 <;> simp [Q6.v]
theorem Q12.decomp (a : Q12 R) : a = Q12.ofQ6Hom a.c0 + Q12.ofQ6Hom a.c1 * Q12.w := by
  ext1 <;> simp [Q12.w]

variable (p : Nat) [Fact p.Prime] [CharP R p]

/-- `p`-th power in `Q2 R`, characteristic `p`: componentwise, times the `p`-th power of the generator. -/
theorem Q2.pow_char (a : Q2 R) : a ^ p = Q2.ofBaseHom (a.c0 ^ p) + Q2.ofBaseHom (a.c1 ^ p) * Q2.u ^ p := by
  conv_lhs => rw [Q2.decomp a]
  rw [add_pow_char, mul_pow, map_pow, map_pow]
theorem Q6.pow_char (a : Q6 R) :
    a ^ p = Q6.ofQ2Hom (a.c0 ^ p) + Q6.ofQ2Hom (a.c1 ^ p) * Q6.v ^ p + Q6.ofQ2Hom (a.c2 ^ p) * (Q6.v ^ p) ^ 2 := by
  conv_lhs => rw [Q6.decomp a]
  rw [add_pow_char, add_pow_char, mul_pow, mul_pow, map_pow, map_pow, map_pow, ← pow_mul, ← pow_mul, mul_comm 2 p]
theorem Q12.pow_char (a : Q12 R) : a ^ p = Q12.ofQ6Hom (a.c0 ^ p) + Q12.ofQ6Hom (a.c1 ^ p) * Q12.w ^ p := by
  conv_lhs => rw [Q12.decomp a]
  rw [add_pow_char, mul_pow, map_pow, map_pow]

end Generic

/-! ## Normal forms of the generated table-driven Frobenius maps (any ring, any tables) -/
section FrobNF
variable {R : Type} [CommRing R] [TowerConsts R]

theorem frob_idx (n k : Nat) : (if decide (k < n) = true then k else k % n) = k % n := by
  by_cases h : k < n
  · simp [h, Nat.mod_eq_of_lt h]
  · simp [h]

theorem Fq2.frobenius_map_eq (a : Q2 R) (k : Nat) :
    Fq2.frobenius_map a k = ⟨a.c0, a.c1 * TowerConsts.fq2_frobenius_coeff (k &&& 1)⟩ := rfl

theorem Fq6.frobenius_map_eq (a : Q6 R) (k : Nat) :
    Fq6.frobenius_map a k = ⟨Fq2.frobenius_map a.c0 k,
      Fq2.frobenius_map a.c1 k * TowerConsts.fq6_frobenius_coeff_c1 (k % 6),
      Fq2.frobenius_map a.c2 k * TowerConsts.fq6_frobenius_coeff_c2 (k % 6)⟩ := by
  simp only [Fq6.frobenius_map, frob_idx, tower_spec]

theorem Fq12.frobenius_map_eq (a : Q12 R) (k : Nat) :
    Fq12.frobenius_map a k = ⟨Fq6.frobenius_map a.c0 k,
      Fq6.frobenius_map a.c1 k * Q6.ofQ2Hom (TowerConsts.fq12_frobenius_coeff_c1 (k % 12))⟩ := by
  simp only [Fq12.frobenius_map, frob_idx, tower_spec]
  congr 1
  ext1 <;> simp

/-- the maps only depend on the power modulo 2 / 6 / 12 (any ring, any tables) -/
theorem Fq2.frobenius_map_mod (a : Q2 R) (k : Nat) : Fq2.frobenius_map a (k % 2) = Fq2.frobenius_map a k := by
  simp only [Fq2.frobenius_map_eq, Nat.and_one_is_mod, Nat.mod_mod]
theorem Fq2.frobenius_map_mod_of_even (a : Q2 R) (n k : Nat) (hn : n % 2 = 0) :
    Fq2.frobenius_map a (k % n) = Fq2.frobenius_map a k := by
  have e : k % n % 2 = k % 2 := Nat.mod_mod_of_dvd k (Nat.dvd_of_mod_eq_zero hn)
  simp only [Fq2.frobenius_map_eq, Nat.and_one_is_mod, e]
theorem Fq6.frobenius_map_mod (a : Q6 R) (k : Nat) : Fq6.frobenius_map a (k % 6) = Fq6.frobenius_map a k := by
  simp only [Fq6.frobenius_map_eq, Nat.mod_mod, Fq2.frobenius_map_mod_of_even _ 6 k rfl]
theorem Fq12.frobenius_map_mod (a : Q12 R) (k : Nat) : Fq12.frobenius_map a (k % 12) = Fq12.frobenius_map a k := by
  have e : k % 12 % 6 = k % 6 := Nat.mod_mod_of_dvd k (by decide)
  simp only [Fq12.frobenius_map_eq, Fq6.frobenius_map_eq, Nat.mod_mod, e, Fq2.frobenius_map_mod_of_even _ 12 k rfl]

end FrobNF

/-! ## The concrete tables: closed facts checked by the kernel -/
section Closed

/-- table entries for power 0 are 1 -/
theorem tab_zero : (TowerConsts.fq2_frobenius_coeff 0 : Fq) = 1 ∧ (TowerConsts.fq6_frobenius_coeff_c1 0 : Fq2) = 1 ∧
    (TowerConsts.fq6_frobenius_coeff_c2 0 : Fq2) = 1 ∧ (TowerConsts.fq12_frobenius_coeff_c1 0 : Fq2) = 1 := by
  decide +kernel

theorem c2_sq_small : ∀ j : Fin 2, (TowerConsts.fq2_frobenius_coeff j.val : Fq) ^ 2 = 1 := by decide +kernel
theorem g2_eq_small : ∀ j : Fin 6, (TowerConsts.fq6_frobenius_coeff_c2 j.val : Fq2) =
    TowerConsts.fq6_frobenius_coeff_c1 j.val ^ 2 := by decide +kernel
theorem g1_cube_small : ∀ j : Fin 6, (TowerConsts.fq6_frobenius_coeff_c1 j.val : Fq2) ^ 3 * (⟨1, 1⟩ : Fq2) =
    ⟨1, TowerConsts.fq2_frobenius_coeff (j.val % 2)⟩ := by decide +kernel
theorem g12_sq_small : ∀ j : Fin 12, (TowerConsts.fq12_frobenius_coeff_c1 j.val : Fq2) ^ 2 =
    TowerConsts.fq6_frobenius_coeff_c1 (j.val % 6) := by decide +kernel

/-- the tables for power `j+1` are the image of those for power `j` under the `q`-power map times those for power 1 -/
theorem c2_step_small : ∀ j : Fin 2, (TowerConsts.fq2_frobenius_coeff ((j.val + 1) % 2) : Fq) =
    TowerConsts.fq2_frobenius_coeff j.val * TowerConsts.fq2_frobenius_coeff 1 := by decide +kernel
theorem g1_step_small : ∀ j : Fin 6, (TowerConsts.fq6_frobenius_coeff_c1 ((j.val + 1) % 6) : Fq2) =
    Fq2.frobenius_map (TowerConsts.fq6_frobenius_coeff_c1 j.val) 1 * TowerConsts.fq6_frobenius_coeff_c1 1 := by
  decide +kernel
theorem g2_step_small : ∀ j : Fin 6, (TowerConsts.fq6_frobenius_coeff_c2 ((j.val + 1) % 6) : Fq2) =
    Fq2.frobenius_map (TowerConsts.fq6_frobenius_coeff_c2 j.val) 1 * TowerConsts.fq6_frobenius_coeff_c2 1 := by
  decide +kernel
theorem g12_step_small : ∀ j : Fin 12, (TowerConsts.fq12_frobenius_coeff_c1 ((j.val + 1) % 12) : Fq2) =
    Fq2.frobenius_map (TowerConsts.fq12_frobenius_coeff_c1 j.val) 1 * TowerConsts.fq12_frobenius_coeff_c1 1 := by
  decide +kernel

/-- `u^q = c·u`, `v^q = γ1·v`, `w^q = γ12·w` with the table entries for power 1 -/
theorem u_npow_q : npow (Q2.u : Fq2) q = ⟨0, TowerConsts.fq2_frobenius_coeff 1⟩ := by decide +kernel
theorem v_npow_q : npow (Q6.v : Fq6) q = ⟨0, TowerConsts.fq6_frobenius_coeff_c1 1, 0⟩ := by decide +kernel
theorem w_npow_q : npow (Q12.w : Fq12) q = ⟨0, ⟨TowerConsts.fq12_frobenius_coeff_c1 1, 0, 0⟩⟩ := by decide +kernel

end Closed

/-! ## `LawfulFrob Fq`: the relations among the regenerated tables, for every power -/
theorem and_one_eq_mod (k : Nat) : k &&& 1 = k % 2 := Nat.and_one_is_mod k

theorem lawfulFrobFq : LawfulFrob Fq where
  c2_sq k := by
    rw [and_one_eq_mod]
    exact c2_sq_small ⟨k % 2, Nat.mod_lt _ (by decide)⟩
  g2_eq k := g2_eq_small ⟨k % 6, Nat.mod_lt _ (by decide)⟩
  g1_cube k := by
    rw [and_one_eq_mod]
    have h := g1_cube_small ⟨k % 6, Nat.mod_lt _ (by decide)⟩
    have e : k % 6 % 2 = k % 2 := by omega
    simp only [e] at h
    exact h
  g12_sq k := by
    have h := g12_sq_small ⟨k % 12, Nat.mod_lt _ (by decide)⟩
    have e : k % 12 % 6 = k % 6 := by omega
    simp only [e] at h
    exact h

/-! ## Frobenius maps = `q^k`-th powers -/
section FrobPow

theorem u_pow_q : (Q2.u : Fq2) ^ q = ⟨0, TowerConsts.fq2_frobenius_coeff 1⟩ := by
  rw [← npow_eq_pow]; exact u_npow_q
theorem v_pow_q : (Q6.v : Fq6) ^ q = ⟨0, TowerConsts.fq6_frobenius_coeff_c1 1, 0⟩ := by
  rw [← npow_eq_pow]; exact v_npow_q
theorem w_pow_q : (Q12.w : Fq12) ^ q = ⟨0, ⟨TowerConsts.fq12_frobenius_coeff_c1 1, 0, 0⟩⟩ := by
  rw [← npow_eq_pow]; exact w_npow_q

/-- `Fq2::frobenius_map(·, 1)` is the `q`-th power. -/
theorem Fq2.frobenius_map_one (a : Fq2) : Fq2.frobenius_map a 1 = a ^ q := by
  rw [Q2.pow_char q a, Fq.pow_q, Fq.pow_q, u_pow_q, Fq2.frobenius_map_eq]
  ext <;> simp

/-- `Fq6::frobenius_map(·, 1)` is the `q`-th power. -/
theorem Fq6.frobenius_map_one (a : Fq6) : Fq6.frobenius_map a 1 = a ^ q := by
  rw [Q6.pow_char q a, v_pow_q, ← Fq2.frobenius_map_one, ← Fq2.frobenius_map_one, ← Fq2.frobenius_map_one,
    Fq6.frobenius_map_eq, lawfulFrobFq.g2_eq 1, pow_two, pow_two]
  ext1 <;> simp

/-- `Fq12::frobenius_map(·, 1)` is the `q`-th power. -/
theorem Fq12.frobenius_map_one (a : Fq12) : Fq12.frobenius_map a 1 = a ^ q := by
  rw [Q12.pow_char q a, w_pow_q, ← Fq6.frobenius_map_one, ← Fq6.frobenius_map_one, Fq12.frobenius_map_eq]
  ext1 <;> simp


theorem Fq2.frobenius_map_one_mul (a b : Fq2) :
    Fq2.frobenius_map (a * b) 1 = Fq2.frobenius_map a 1 * Fq2.frobenius_map b 1 := by
  simp only [Fq2.frobenius_map_one, mul_pow]

/-- composition of the table-driven maps: power `k` then power 1 is power `k+1` -/
theorem Fq2.frobenius_map_succ (a : Fq2) (k : Nat) :
    Fq2.frobenius_map (Fq2.frobenius_map a k) 1 = Fq2.frobenius_map a (k + 1) := by
  have h := c2_step_small ⟨k % 2, Nat.mod_lt _ (by decide)⟩
  have e : (k % 2 + 1) % 2 = (k + 1) % 2 := by omega
  simp only [e] at h
  simp only [Fq2.frobenius_map_eq, and_one_eq_mod, h, Nat.one_mod, mul_assoc]

theorem Fq6.frobenius_map_succ (a : Fq6) (k : Nat) :
    Fq6.frobenius_map (Fq6.frobenius_map a k) 1 = Fq6.frobenius_map a (k + 1) := by
  have h1 := g1_step_small ⟨k % 6, Nat.mod_lt _ (by decide)⟩
  have h2 := g2_step_small ⟨k % 6, Nat.mod_lt _ (by decide)⟩
  have e : (k % 6 + 1) % 6 = (k + 1) % 6 := by omega
  simp only [e] at h1 h2
  rw [Fq6.frobenius_map_eq a (k + 1), Fq6.frobenius_map_eq a k, Fq6.frobenius_map_eq _ 1, h1, h2]
  simp only [Fq2.frobenius_map_one_mul, Fq2.frobenius_map_succ, Nat.one_mod, mul_assoc]

theorem Fq12.frobenius_map_succ (a : Fq12) (k : Nat) :
    Fq12.frobenius_map (Fq12.frobenius_map a k) 1 = Fq12.frobenius_map a (k + 1) := by
  have h := g12_step_small ⟨k % 12, Nat.mod_lt _ (by decide)⟩
  have e : (k % 12 + 1) % 12 = (k + 1) % 12 := by omega
  simp only [e] at h
  have hm : ∀ x y : Fq6, Fq6.frobenius_map (x * y) 1 = Fq6.frobenius_map x 1 * Fq6.frobenius_map y 1 := by
    intro x y; simp only [Fq6.frobenius_map_one, mul_pow]
  have hc : ∀ g : Fq2, Fq6.frobenius_map (Q6.ofQ2Hom g) 1 = Q6.ofQ2Hom (Fq2.frobenius_map g 1) := by
    intro g; simp only [Fq6.frobenius_map_one, Fq2.frobenius_map_one, map_pow]
  rw [Fq12.frobenius_map_eq a (k + 1), Fq12.frobenius_map_eq a k, Fq12.frobenius_map_eq _ 1, h]
  simp only [hm, hc, Fq6.frobenius_map_succ, Nat.one_mod, mul_assoc, map_mul]

theorem Fq2.frobenius_map_zero (a : Fq2) : Fq2.frobenius_map a 0 = a := by
  rw [Fq2.frobenius_map_eq]; simp [tab_zero.1]
theorem Fq6.frobenius_map_zero (a : Fq6) : Fq6.frobenius_map a 0 = a := by
  rw [Fq6.frobenius_map_eq]; simp [tab_zero.2.1, tab_zero.2.2.1, Fq2.frobenius_map_zero]
theorem Fq12.frobenius_map_zero (a : Fq12) : Fq12.frobenius_map a 0 = a := by
  rw [Fq12.frobenius_map_eq, Nat.zero_mod, tab_zero.2.2.2, map_one, mul_one, Fq6.frobenius_map_zero,
    Fq6.frobenius_map_zero]

/-- **`Fq2::frobenius_map` is the `q^k`-th power**, for every `k` and every element. -/
theorem Fq2.frobenius_map_eq_pow (a : Fq2) (k : Nat) : Fq2.frobenius_map a k = a ^ (q ^ k) := by
  induction k with
  | zero => rw [Fq2.frobenius_map_zero, pow_zero, pow_one]
  | succ k ih => rw [← Fq2.frobenius_map_succ, Fq2.frobenius_map_one, ih, ← pow_mul, ← pow_succ]

/-- **`Fq6::frobenius_map` is the `q^k`-th power**, for every `k` and every element. -/
theorem Fq6.frobenius_map_eq_pow (a : Fq6) (k : Nat) : Fq6.frobenius_map a k = a ^ (q ^ k) := by
  induction k with
  | zero => rw [Fq6.frobenius_map_zero, pow_zero, pow_one]
  | succ k ih => rw [← Fq6.frobenius_map_succ, Fq6.frobenius_map_one, ih, ← pow_mul, ← pow_succ]

/-- **`Fq12::frobenius_map` is the `q^k`-th power**, for every `k` and every element. -/
theorem Fq12.frobenius_map_eq_pow (a : Fq12) (k : Nat) : Fq12.frobenius_map a k = a ^ (q ^ k) := by
  induction k with
  | zero => rw [Fq12.frobenius_map_zero, pow_zero, pow_one]
  | succ k ih => rw [← Fq12.frobenius_map_succ, Fq12.frobenius_map_one, ih, ← pow_mul, ← pow_succ]

/-- consequently the table-driven maps are ring homomorphisms of the concrete tower -/
theorem Fq2.frobenius_map_mul (a b : Fq2) (k : Nat) :
    Fq2.frobenius_map (a * b) k = Fq2.frobenius_map a k * Fq2.frobenius_map b k := by
  simp only [Fq2.frobenius_map_eq_pow, mul_pow]
theorem Fq6.frobenius_map_mul (a b : Fq6) (k : Nat) :
    Fq6.frobenius_map (a * b) k = Fq6.frobenius_map a k * Fq6.frobenius_map b k := by
  simp only [Fq6.frobenius_map_eq_pow, mul_pow]
theorem Fq12.frobenius_map_mul (a b : Fq12) (k : Nat) :
    Fq12.frobenius_map (a * b) k = Fq12.frobenius_map a k * Fq12.frobenius_map b k := by
  simp only [Fq12.frobenius_map_eq_pow, mul_pow]
theorem Fq2.frobenius_map_add (a b : Fq2) (k : Nat) :
    Fq2.frobenius_map (a + b) k = Fq2.frobenius_map a k + Fq2.frobenius_map b k := by
  simp only [Fq2.frobenius_map_eq_pow, add_pow_char_pow]
theorem Fq6.frobenius_map_add (a b : Fq6) (k : Nat) :
    Fq6.frobenius_map (a + b) k = Fq6.frobenius_map a k + Fq6.frobenius_map b k := by
  simp only [Fq6.frobenius_map_eq_pow, add_pow_char_pow]
theorem Fq12.frobenius_map_add (a b : Fq12) (k : Nat) :
    Fq12.frobenius_map (a + b) k = Fq12.frobenius_map a k + Fq12.frobenius_map b k := by
  simp only [Fq12.frobenius_map_eq_pow, add_pow_char_pow]
theorem Fq12.frobenius_map_one_elt (k : Nat) : Fq12.frobenius_map (1 : Fq12) k = 1 := by
  rw [Fq12.frobenius_map_eq_pow, one_pow]

/-- the same against the Spec's literal power `frobSpec x k = npow x (q^k)` -/
theorem Fq2.frobenius_map_eq_frobSpec (a : Fq2) (k : Nat) : Fq2.frobenius_map a k = frobSpec a k := by
  rw [frobSpec, npow_eq_pow]; exact Fq2.frobenius_map_eq_pow a k
theorem Fq6.frobenius_map_eq_frobSpec (a : Fq6) (k : Nat) : Fq6.frobenius_map a k = frobSpec a k := by
  rw [frobSpec, npow_eq_pow]; exact Fq6.frobenius_map_eq_pow a k
theorem Fq12.frobenius_map_eq_frobSpec (a : Fq12) (k : Nat) : Fq12.frobenius_map a k = frobSpec a k := by
  rw [frobSpec, npow_eq_pow]; exact Fq12.frobenius_map_eq_pow a k

end FrobPow
/-! ## Non-residues from closed power facts; finiteness -/
section Abstract

/-- In a field where every non-zero `z` satisfies `z^(2m) = 1` with `(-1)^m = -1` and `2 ≠ 0`
(e.g. a prime field of order `2m+1`, `m` odd), `x² + y² = 0` forces `x = y = 0`. -/
theorem sq_add_sq_eq_zero {K : Type} [Field K] (m : Nat) (hferm : ∀ z : K, z ≠ 0 → z ^ (2 * m) = 1)
    (hm : (-1 : K) ^ m = -1) (h2 : (2 : K) ≠ 0) (x y : K) (h : x * x + y * y = 0) : x = 0 ∧ y = 0 := by
  by_cases hy : y = 0
  · subst hy
    have : x * x = 0 := by simpa using h
    exact ⟨mul_self_eq_zero.mp this, rfl⟩
  · exfalso
    have hz : (x * y⁻¹) * (x * y⁻¹) = -1 := by
      field_simp
      linear_combination h
    have hz0 : x * y⁻¹ ≠ 0 := by
      intro h0
      rw [h0] at hz
      simp at hz
    have h1 := hferm _ hz0
    rw [pow_mul, pow_two, hz, hm] at h1
    apply h2
    linear_combination -h1

/-- If `a ≠ 0`, `n·e = |K| − 1` and `a^e ≠ 1`, then `a` is not an `n`-th power in the finite field `K`. -/
theorem not_pow_of_pow_ne_one {K : Type} [Field K] [Fintype K] (n e : Nat) (hn : 0 < n)
    (he : n * e = Fintype.card K - 1) (a : K) (ha0 : a ≠ 0) (ha : a ^ e ≠ 1) (b : K) : b ^ n ≠ a := by
  intro hb
  have hb0 : b ≠ 0 := by
    intro h0
    rw [h0, zero_pow (by omega)] at hb
    exact ha0 hb.symm
  apply ha
  rw [← hb, ← pow_mul, he]
  exact FiniteField.pow_card_sub_one_eq_one b hb0

variable {F : Type}

def Q2.equivProd : Q2 F ≃ F × F where
  toFun a := (a.c0, a.c1)
  invFun p := ⟨p.1, p.2⟩
  left_inv _ := rfl
  right_inv _ := rfl
def Q6.equivProd : Q6 F ≃ Q2 F × Q2 F × Q2 F where
  toFun a := (a.c0, a.c1, a.c2)
  invFun p := ⟨p.1, p.2.1, p.2.2⟩
  left_inv _ := rfl
  right_inv _ := rfl
def Q12.equivProd : Q12 F ≃ Q6 F × Q6 F where
  toFun a := (a.c0, a.c1)
  invFun p := ⟨p.1, p.2⟩
  left_inv _ := rfl
  right_inv _ := rfl

instance [Fintype F] : Fintype (Q2 F) := Fintype.ofEquiv _ Q2.equivProd.symm
instance [Fintype F] : Fintype (Q6 F) := Fintype.ofEquiv _ Q6.equivProd.symm
instance [Fintype F] : Fintype (Q12 F) := Fintype.ofEquiv _ Q12.equivProd.symm

theorem Q2.card [Fintype F] : Fintype.card (Q2 F) = Fintype.card F ^ 2 := by
  rw [Fintype.card_congr Q2.equivProd, Fintype.card_prod, pow_two]
theorem Q6.card [Fintype F] : Fintype.card (Q6 F) = Fintype.card F ^ 6 := by
  rw [Fintype.card_congr Q6.equivProd, Fintype.card_prod, Fintype.card_prod, Q2.card]; ring
theorem Q12.card [Fintype F] : Fintype.card (Q12 F) = Fintype.card F ^ 12 := by
  rw [Fintype.card_congr Q12.equivProd, Fintype.card_prod, Q6.card]; ring

end Abstract

/-! ## `Q6` and `Q12` are fields when ξ is a non-cube and v a non-square (elementary: adjugate and norm) -/
section Norms
variable {R : Type} [CommRing R]

/-- adjugate of `a ∈ Q2 R[v]/(v³−ξ)`: the product of the two other conjugates -/
def Q6.adj (a : Q6 R) : Q6 R :=
  ⟨a.c0 * a.c0 - Q2.mulXi (a.c1 * a.c2), Q2.mulXi (a.c2 * a.c2) - a.c0 * a.c1, a.c1 * a.c1 - a.c0 * a.c2⟩
/-- norm of `Q6 R` over `Q2 R` (the quantity `Q6.inv` / `Fq6::inverse` inverts) -/
def Q6.nrm (a : Q6 R) : Q2 R :=
  a.c0 * (Q6.adj a).c0 + Q2.mulXi (a.c2 * (Q6.adj a).c1 + a.c1 * (Q6.adj a).c2)
/-- norm of `Q12 R` over `Q6 R` -/
def Q12.nrm (a : Q12 R) : Q6 R := a.c0 * a.c0 - Q6.mulV (a.c1 * a.c1)

theorem Q6.mul_adj (a : Q6 R) : a * Q6.adj a = Q6.ofQ2Hom (Q6.nrm a) := by
  ext1 <;> simp [Q6.adj, Q6.nrm, Q2.mulXi_eq] <;> ring
theorem Q6.adj_adj (a : Q6 R) : Q6.adj (Q6.adj a) = Q6.ofQ2Hom (Q6.nrm a) * a := by
  ext1 <;> simp [Q6.adj, Q6.nrm, Q2.mulXi_eq] <;> ring
theorem Q6.adj_zero : Q6.adj (0 : Q6 R) = 0 := by
  ext1 <;> simp [Q6.adj, Q2.mulXi_eq]
theorem Q12.mul_conj (a : Q12 R) : a * Q12.conj a = Q12.ofQ6Hom (Q12.nrm a) := by
  ext1 <;> simp [Q12.conj, Q12.nrm, Q6.mulV_eq] <;> ring

theorem Q6.inv_eq [Inv R] (a : Q6 R) : Q6.inv a = Q6.adj a * Q6.ofQ2Hom (Q6.nrm a)⁻¹ := by
  ext1 <;> simp [Q6.inv, Q6.adj, Q6.nrm]
theorem Q12.inv_eq [Inv R] (a : Q12 R) : Q12.inv a = Q12.conj a * Q12.ofQ6Hom (Q12.nrm a)⁻¹ := by
  ext1 <;> simp [Q12.inv, Q12.conj, Q12.nrm]

end Norms

section Fields

/-- in a field where `ξ` is not a cube, the adjugate equations force `x = 0` -/
theorem adj_eq_zero_aux {K : Type} [Field K] (ξ : K) (hnc : ∀ b : K, b ^ 3 ≠ ξ) (x0 x1 x2 : K)
    (h0 : x0 * x0 - ξ * (x1 * x2) = 0) (h1 : ξ * (x2 * x2) - x0 * x1 = 0) (h2 : x1 * x1 - x0 * x2 = 0) :
    x0 = 0 ∧ x1 = 0 ∧ x2 = 0 := by
  by_cases hx2 : x2 = 0
  · subst hx2
    have hx1 : x1 = 0 := mul_self_eq_zero.mp (by linear_combination h2)
    subst hx1
    exact ⟨mul_self_eq_zero.mp (by linear_combination h0), rfl, rfl⟩
  · exfalso
    apply hnc (x1 * x2⁻¹)
    field_simp
    linear_combination x1 * h2 - x2 * h1

variable {R : Type} [Field R]

/-- `Q6 R = (Q2 R)[v]/(v³−ξ)` is a field, with the Spec operations and the Spec inverse `Q6.inv`, as soon as `Q2 R`
is a field (−1 a non-square in `R`) and ξ = 1 + u is not a cube in it. -/
@[reducible] def Q6.instField (hnr : ∀ x y : R, x * x + y * y = 0 → x = 0 ∧ y = 0)
    (hnc : letI := Q2.instField hnr; ∀ b : Q2 R, b ^ 3 ≠ Q2.xi) : Field (Q6 R) :=
  letI := Q2.instField hnr
  have adj0 : ∀ x : Q6 R, Q6.adj x = 0 → x = 0 := fun x hx => by
    have h0 := congrArg Q6.c0 hx
    have h1 := congrArg Q6.c1 hx
    have h2 := congrArg Q6.c2 hx
    simp only [Q6.adj, Q2.mulXi_eq, Q6.zero_c0, Q6.zero_c1, Q6.zero_c2] at h0 h1 h2
    obtain ⟨e0, e1, e2⟩ := adj_eq_zero_aux Q2.xi hnc x.c0 x.c1 x.c2 h0 h1 h2
    exact Q6.ext e0 e1 e2
  { (inferInstance : CommRing (Q6 R)) with
    inv := Q6.inv
    exists_pair_ne := ⟨0, 1, fun h => by
      have := congrArg Q2.c0 (congrArg Q6.c0 h)
      simp at this⟩
    mul_inv_cancel := fun a ha => by
      have hn : Q6.nrm a ≠ 0 := by
        intro h
        apply ha
        apply adj0
        apply adj0
        rw [Q6.adj_adj, h, map_zero, zero_mul]
      show a * Q6.inv a = 1
      rw [Q6.inv_eq, ← mul_assoc, Q6.mul_adj, ← map_mul, mul_inv_cancel₀ hn, map_one]
    inv_zero := by
      show Q6.inv (0 : Q6 R) = 0
      rw [Q6.inv_eq, Q6.adj_zero, zero_mul]
    nnqsmul := _
    nnqsmul_def := fun _ _ => rfl
    qsmul := _
    qsmul_def := fun _ _ => rfl }

/-- `Q12 R = (Q6 R)[w]/(w²−v)` is a field, with the Spec operations and the Spec inverse `Q12.inv`, as soon as
`Q6 R` is a field and v is not a square in it. -/
@[reducible] def Q12.instField (hnr : ∀ x y : R, x * x + y * y = 0 → x = 0 ∧ y = 0)
    (hnc : letI := Q2.instField hnr; ∀ b : Q2 R, b ^ 3 ≠ Q2.xi)
    (hns : ∀ b : Q6 R, b ^ 2 ≠ Q6.v) : Field (Q12 R) :=
  letI := Q6.instField hnr hnc
  { (inferInstance : CommRing (Q12 R)) with
    inv := Q12.inv
    exists_pair_ne := ⟨0, 1, fun h => by
      have := congrArg Q2.c0 (congrArg Q6.c0 (congrArg Q12.c0 h))
      simp at this⟩
    mul_inv_cancel := fun a ha => by
      have hn : Q12.nrm a ≠ 0 := by
        intro h
        simp only [Q12.nrm, Q6.mulV_eq] at h
        by_cases h1 : a.c1 = 0
        · rw [h1] at h
          have h0 : a.c0 = 0 := mul_self_eq_zero.mp (by linear_combination h)
          exact ha (Q12.ext h0 h1)
        · apply hns (a.c0 * a.c1⁻¹)
          field_simp
          linear_combination h
      show a * Q12.inv a = 1
      rw [Q12.inv_eq, ← mul_assoc, Q12.mul_conj, ← map_mul, mul_inv_cancel₀ hn, map_one]
    inv_zero := by
      show Q12.inv (0 : Q12 R) = 0
      rw [Q12.inv_eq]
      have : Q12.conj (0 : Q12 R) = 0 := by ext1 <;> simp [Q12.conj]
      rw [this, zero_mul]
    nnqsmul := _
    nnqsmul_def := fun _ _ => rfl
    qsmul := _
    qsmul_def := fun _ _ => rfl }

end Fields

/-! ## The concrete tower `Fq2`, `Fq6`, `Fq12` is a tower of fields -/
section ConcreteFields

theorem q_sub_one_half : 2 * ((q - 1) / 2) = q - 1 := by decide +kernel
theorem neg_one_npow_half : npow (-1 : Fq) ((q - 1) / 2) = -1 := by decide +kernel
theorem fq_two_ne_zero : (2 : Fq) ≠ 0 := by decide +kernel

/-- −1 is a non-square in `Fq` (Euler's criterion: `(−1)^((q−1)/2) = −1`, and Fermat). -/
theorem Fq.hnr : ∀ x y : Fq, x * x + y * y = 0 → x = 0 ∧ y = 0 :=
  sq_add_sq_eq_zero ((q - 1) / 2)
    (fun z hz => by rw [q_sub_one_half]; exact Fq.pow_q_sub_one z hz)
    (by rw [← npow_eq_pow]; exact neg_one_npow_half) fq_two_ne_zero

/-- `Fq2 = Fq[u]/(u²+1)` is a field with the Spec operations and the Spec inverse `Q2.inv`. -/
instance instFieldFq2 : Field Fq2 := Q2.instField Fq.hnr

theorem Fq2.card : Fintype.card Fq2 = q ^ 2 := by rw [Q2.card, Fq.card]
theorem Fq6.card : Fintype.card Fq6 = q ^ 6 := by rw [Q6.card, Fq.card]
theorem Fq12.card : Fintype.card Fq12 = q ^ 12 := by rw [Q12.card, Fq.card]

theorem q2_sub_one_third : 3 * ((q ^ 2 - 1) / 3) = q ^ 2 - 1 := by decide +kernel
theorem xi_npow_third : npow (Q2.xi : Fq2) ((q ^ 2 - 1) / 3) ≠ 1 := by decide +kernel
theorem xi_ne_zero : (Q2.xi : Fq2) ≠ 0 := by decide +kernel

/-- ξ = 1 + u is not a cube in `Fq2` (`ξ^((q²−1)/3) ≠ 1`). -/
theorem Fq2.hnc : ∀ b : Fq2, b ^ 3 ≠ Q2.xi :=
  not_pow_of_pow_ne_one 3 ((q ^ 2 - 1) / 3) (by decide) (by rw [Fq2.card]; exact q2_sub_one_third) Q2.xi xi_ne_zero
    (by rw [← npow_eq_pow]; exact xi_npow_third)

/-- `Fq6 = Fq2[v]/(v³−ξ)` is a field with the Spec operations and the Spec inverse `Q6.inv`. -/
instance instFieldFq6 : Field Fq6 := Q6.instField Fq.hnr Fq2.hnc

theorem q6_sub_one_half : 2 * ((q ^ 6 - 1) / 2) = q ^ 6 - 1 := by decide +kernel
/-- `v^((q⁶−1)/2) ≠ 1`.  The exponent is split as `(1+q+…+q⁵)·(q−1)/2` and the first factor computed with the
(already verified) Frobenius maps, which keeps the kernel evaluation of `npow` shallow. -/
theorem v_npow_half_split :
    npow (Q6.v * Fq6.frobenius_map Q6.v 1 * Fq6.frobenius_map Q6.v 2 * Fq6.frobenius_map Q6.v 3 *
      Fq6.frobenius_map Q6.v 4 * Fq6.frobenius_map Q6.v 5 : Fq6) ((q - 1) / 2) ≠ 1 := by
  decide +kernel
theorem q6_half_split : (q ^ 1 + 1 + q ^ 2 + q ^ 3 + q ^ 4 + q ^ 5) * ((q - 1) / 2) = (q ^ 6 - 1) / 2 := by
  decide +kernel
theorem v_pow_half : (Q6.v : Fq6) ^ ((q ^ 6 - 1) / 2) ≠ 1 := by
  have h := v_npow_half_split
  rwa [npow_eq_pow, Fq6.frobenius_map_eq_pow, Fq6.frobenius_map_eq_pow, Fq6.frobenius_map_eq_pow,
    Fq6.frobenius_map_eq_pow, Fq6.frobenius_map_eq_pow, ← pow_succ', ← pow_add, ← pow_add, ← pow_add, ← pow_add,
    ← pow_mul, q6_half_split] at h
theorem v_ne_zero : (Q6.v : Fq6) ≠ 0 := by decide +kernel

/-- v is not a square in `Fq6` (`v^((q⁶−1)/2) ≠ 1`). -/
theorem Fq6.hns : ∀ b : Fq6, b ^ 2 ≠ Q6.v :=
  not_pow_of_pow_ne_one 2 ((q ^ 6 - 1) / 2) (by decide) (by rw [Fq6.card]; exact q6_sub_one_half) Q6.v v_ne_zero
    v_pow_half

/-- `Fq12 = Fq6[w]/(w²−v)` is a field with the Spec operations and the Spec inverse `Q12.inv`. -/
instance instFieldFq12 : Field Fq12 := Q12.instField Fq.hnr Fq2.hnc Fq6.hns

end ConcreteFields

/-! ## The generated inversions are the Spec inversions, and they invert -/
section Inverse
variable {R : Type} [CommRing R] [Inv R]

/-- `Fq6::inverse` (generated) is the Spec's `Q6.inv`, over any ring with any `Inv`. -/
theorem Fq6.inverse_eq (a : Q6 R) : Fq6.inverse a = Q6.inv a := by
  simp only [Fq6.inverse, Q6.inv, tower_spec, Fq2.inverse_eq]
  have e0 : -(Q2.mulXi a.c2 * a.c1) + a.c0 * a.c0 = a.c0 * a.c0 - Q2.mulXi (a.c1 * a.c2) := by
    simp only [Q2.mulXi_eq]; ring
  rw [e0, add_comm (Q2.mulXi _)]

/-- `Fq12::inverse` (generated) is the Spec's `Q12.inv`, over any ring with any `Inv`. -/
theorem Fq12.inverse_eq (a : Q12 R) : Fq12.inverse a = Q12.inv a := by
  simp only [Fq12.inverse, Q12.inv, tower_spec, Fq6.inverse_eq]
  rfl

end Inverse

section ConcreteInverse

theorem Fq2.mul_inverse (a : Fq2) (ha : a ≠ 0) : a * Fq2.inverse a = 1 := by
  rw [Fq2.inverse_eq]; have h := mul_inv_cancel₀ ha; exact h
theorem Fq2.inverse_zero : Fq2.inverse (0 : Fq2) = 0 := by
  rw [Fq2.inverse_eq]; exact inv_zero
theorem Fq6.mul_inverse (a : Fq6) (ha : a ≠ 0) : a * Fq6.inverse a = 1 := by
  rw [Fq6.inverse_eq]; have h := mul_inv_cancel₀ ha; exact h
theorem Fq6.inverse_zero : Fq6.inverse (0 : Fq6) = 0 := by
  rw [Fq6.inverse_eq]; exact inv_zero (G₀ := Fq6)
theorem Fq12.mul_inverse (a : Fq12) (ha : a ≠ 0) : a * Fq12.inverse a = 1 := by
  rw [Fq12.inverse_eq]; have h := mul_inv_cancel₀ ha; exact h
theorem Fq12.inverse_zero : Fq12.inverse (0 : Fq12) = 0 := by
  rw [Fq12.inverse_eq]; exact inv_zero (G₀ := Fq12)

end ConcreteInverse

/-! ## Conjugation, norm, and the order of the unit group -/
section Conj

theorem Fq2.norm_eq {R : Type} [CommRing R] (a : Q2 R) (r : R) : Fq2.norm a r = Q2.norm a := rfl

/-- `Fq2::norm` (generated) is `a · ā`, over any commutative ring. -/
theorem Fq2.norm_eq_mul_conj {R : Type} [CommRing R] (a : Q2 R) (r : R) :
    Q2.ofBaseHom (Fq2.norm a r) = a * Q2.conj a := by
  ext <;> simp [Fq2.norm, Q2.conj]
  ring

theorem tab_special : (TowerConsts.fq2_frobenius_coeff 1 : Fq) = -1 ∧
    (TowerConsts.fq12_frobenius_coeff_c1 6 : Fq2) = -1 := by decide +kernel

/-- conjugation in `Fq2` is the `q`-power Frobenius -/
theorem Fq2.conj_eq_frobenius_map_one (a : Fq2) : Q2.conj a = Fq2.frobenius_map a 1 := by
  rw [Fq2.frobenius_map_eq]
  have : (1 &&& 1) = 1 := rfl
  rw [this, tab_special.1]
  ext <;> simp [Q2.conj]

theorem Fq2.conj_eq_pow (a : Fq2) : Q2.conj a = a ^ q := by
  rw [Fq2.conj_eq_frobenius_map_one, Fq2.frobenius_map_one]

/-- the norm of `Fq2` over `Fq` is `a^(q+1)` -/
theorem Fq2.norm_eq_pow (a : Fq2) (r : Fq) : Q2.ofBaseHom (Fq2.norm a r) = a ^ (q + 1) := by
  rw [Fq2.norm_eq_mul_conj, Fq2.conj_eq_pow, pow_succ']

theorem Fq2.frobenius_map_of_even (a : Fq2) {k : Nat} (hk : k % 2 = 0) : Fq2.frobenius_map a k = a := by
  rw [Fq2.frobenius_map_eq, and_one_eq_mod, hk, tab_zero.1, mul_one]
theorem Fq6.frobenius_map_of_mod_six (a : Fq6) {k : Nat} (hk : k % 6 = 0) : Fq6.frobenius_map a k = a := by
  have h2 : k % 2 = 0 := by omega
  rw [Fq6.frobenius_map_eq, hk, tab_zero.2.1, tab_zero.2.2.1, mul_one, mul_one, Fq2.frobenius_map_of_even _ h2,
    Fq2.frobenius_map_of_even _ h2, Fq2.frobenius_map_of_even _ h2]
theorem Fq12.frobenius_map_of_mod_twelve (a : Fq12) {k : Nat} (hk : k % 12 = 0) : Fq12.frobenius_map a k = a := by
  have h6 : k % 6 = 0 := by omega
  rw [Fq12.frobenius_map_eq, hk, tab_zero.2.2.2, map_one, mul_one, Fq6.frobenius_map_of_mod_six _ h6,
    Fq6.frobenius_map_of_mod_six _ h6]

/-- **`Fq12::conjugate` is the `q⁶`-power Frobenius `Fq12::frobenius_map(·, 6)`**, for every element. -/
theorem Fq12.conjugate_eq_frobenius_map_six (a : Fq12) : Fq12.conjugate a = Fq12.frobenius_map a 6 := by
  rw [Fq12.conjugate_spec, Fq12.frobenius_map_eq, Fq6.frobenius_map_of_mod_six _ (by rfl),
    Fq6.frobenius_map_of_mod_six _ (by rfl)]
  have : 6 % 12 = 6 := rfl
  rw [this, tab_special.2, map_neg, map_one, mul_neg, mul_one]
  rfl

theorem Fq12.conjugate_eq_pow (a : Fq12) : Fq12.conjugate a = a ^ (q ^ 6) := by
  rw [Fq12.conjugate_eq_frobenius_map_six, Fq12.frobenius_map_eq_pow]

/-- `a^(q^12) = a` in `Fq12` -/
theorem Fq12.pow_q12 (a : Fq12) : a ^ (q ^ 12) = a := by
  rw [← Fq12.frobenius_map_eq_pow, Fq12.frobenius_map_of_mod_twelve _ (by rfl)]

/-- the unit group of `Fq12` has exponent dividing `q^12 − 1` -/
theorem Fq12.pow_q12_sub_one (a : Fq12) (ha : a ≠ 0) : a ^ (q ^ 12 - 1) = 1 := by
  have h := FiniteField.pow_card_sub_one_eq_one a ha
  rwa [Fq12.card] at h
theorem Fq6.pow_q6_sub_one (a : Fq6) (ha : a ≠ 0) : a ^ (q ^ 6 - 1) = 1 := by
  have h := FiniteField.pow_card_sub_one_eq_one a ha
  rwa [Fq6.card] at h
theorem Fq2.pow_q2_sub_one (a : Fq2) (ha : a ≠ 0) : a ^ (q ^ 2 - 1) = 1 := by
  have h := FiniteField.pow_card_sub_one_eq_one a ha
  rwa [Fq2.card] at h

/-- non-vacuity: concrete non-trivial instances, evaluated by the kernel -/
example : Fq12.frobenius_map (⟨⟨⟨2, 3⟩, ⟨5, 7⟩, ⟨11, 13⟩⟩, ⟨⟨17, 19⟩, ⟨23, 29⟩, ⟨31, 37⟩⟩⟩ : Fq12) 1 ≠
    ⟨⟨⟨2, 3⟩, ⟨5, 7⟩, ⟨11, 13⟩⟩, ⟨⟨17, 19⟩, ⟨23, 29⟩, ⟨31, 37⟩⟩⟩ := by decide +kernel
example : (⟨⟨⟨2, 3⟩, ⟨5, 7⟩, ⟨11, 13⟩⟩, ⟨⟨17, 19⟩, ⟨23, 29⟩, ⟨31, 37⟩⟩⟩ : Fq12) *
    Fq12.inverse ⟨⟨⟨2, 3⟩, ⟨5, 7⟩, ⟨11, 13⟩⟩, ⟨⟨17, 19⟩, ⟨23, 29⟩, ⟨31, 37⟩⟩⟩ = 1 :=
  Fq12.mul_inverse _ (by decide +kernel)

end Conj
end Jedi
