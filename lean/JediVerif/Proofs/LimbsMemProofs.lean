/-
Proofs about the memory-level models of `JediVerif/Impl/LimbsMem.lean` (portable `BigInt` / `FpBase` / `Fp` of
/repo/include/core): every memory-level function, run with ANY assignment of object ids that its C++ signature
permits (output object equal to an input object or not), leaves in the output object exactly the limbs computed by
the pure model of `Impl/Limbs.lean` on the operands' limbs, changes no other object (except the documented
temporaries), and returns the same carry / borrow / shifted-out word.  Alias independence (`run aliased = run
distinct`) is a corollary; the contracts of C02 (`Proofs/LimbsProofs.lean`) therefore hold for in-place calls.
The general shifts (`shift_left` / `shift_right`, any amount) have no pure model in `Impl/Limbs.lean`; theirs is
`shiftLeftF` / `shiftRightF` of `Impl/LimbsMem.lean`, and the last section proves what these compute
(`a · 2^amt mod B^n`, `⌊a / 2^amt⌋`).
-/
import JediVerif.Impl.LimbsMem
import JediVerif.Proofs.LimbsProofs

namespace Jedi.Impl.Mem

/-! ### store basics -/

theorem wr_apply (s : Store) (o i v o' j : Nat) :
    wr s o i v o' j = if o' = o ∧ j = i then v else s o' j := rfl

theorem wr_same (s : Store) (o i v : Nat) : wr s o i v o i = v := by simp [wr_apply]

theorem wr_other (s : Store) {o i o' j : Nat} (v : Nat) (h : ¬ (o' = o ∧ j = i)) : wr s o i v o' j = s o' j := by
  simp [wr_apply, h]

theorem wr_ne_obj (s : Store) {o o' : Nat} (i v j : Nat) (h : o' ≠ o) : wr s o i v o' j = s o' j := by
  simp [wr_apply, h]

theorem wr_ne_idx (s : Store) (o : Nat) {i j : Nat} (v o' : Nat) (h : j ≠ i) : wr s o i v o' j = s o' j := by
  simp [wr_apply, h]

@[simp] theorem slice_zero (s : Store) (o i : Nat) : slice s o i 0 = [] := rfl
@[simp] theorem slice_succ (s : Store) (o i k : Nat) : slice s o i (k + 1) = s o i :: slice s o (i + 1) k := rfl

@[simp] theorem slice_length (s : Store) (o : Nat) : ∀ k i, (slice s o i k).length = k
  | 0, _ => rfl
  | k + 1, i => by simp [slice_length s o k]

theorem slice_congr {s s' : Store} {o o' : Nat} : ∀ k i, (∀ j, i ≤ j → j < i + k → s o j = s' o' j) →
    slice s o i k = slice s' o' i k
  | 0, _, _ => rfl
  | k + 1, i, h => by
    rw [slice_succ, slice_succ, h i (Nat.le_refl _) (by omega),
      slice_congr k (i + 1) (fun j h1 h2 => h j (by omega) (by omega))]

theorem slice_snoc (s : Store) (o : Nat) : ∀ k i, slice s o i (k + 1) = slice s o i k ++ [s o (i + k)]
  | 0, i => by simp
  | k + 1, i => by
    rw [slice_succ, slice_snoc s o k (i + 1), slice_succ]
    simp [Nat.add_assoc, Nat.add_comm 1 k]

theorem slice_append (s : Store) (o : Nat) : ∀ k1 i k2, slice s o i (k1 + k2) = slice s o i k1 ++ slice s o (i + k1) k2
  | 0, i, k2 => by simp
  | k1 + 1, i, k2 => by
    rw [show k1 + 1 + k2 = (k1 + k2) + 1 by omega, slice_succ, slice_append s o k1 (i + 1) k2, slice_succ]
    simp [Nat.add_assoc, Nat.add_comm 1 k1]

theorem slice_getD (s : Store) (o : Nat) : ∀ k i j, j < k → (slice s o i k).getD j 0 = s o (i + j)
  | 0, _, _, h => by omega
  | k + 1, i, 0, _ => by simp
  | k + 1, i, j + 1, h => by
    rw [slice_succ, List.getD_cons_succ, slice_getD s o k (i + 1) j (by omega)]
    congr 1; omega

/-- two stores agree on the first `n` words of an object iff the `obj`s are equal -/
theorem obj_eq_iff {s s' : Store} {o o' n : Nat} : obj s o n = obj s' o' n ↔ ∀ j, j < n → s o j = s' o' j := by
  constructor
  · intro h j hj
    have := congrArg (fun l => l.getD j 0) h
    simp only [obj] at this
    rwa [slice_getD _ _ _ _ _ hj, slice_getD _ _ _ _ _ hj, Nat.zero_add] at this
  · intro h; exact slice_congr n 0 (fun j _ hj => h j (by omega))

/-! ### `add` -/

theorem addFrom_spec (B : Nat) {res a b : Nat} (hb : res ≠ b) : ∀ k i c s,
    (addFrom B res a b i k c s).2 = (addLoop B (slice s a i k) (slice s b i k) c).2 ∧
    slice (addFrom B res a b i k c s).1 res i k = (addLoop B (slice s a i k) (slice s b i k) c).1 ∧
    ∀ o j, (o ≠ res ∨ j < i ∨ i + k ≤ j) → (addFrom B res a b i k c s).1 o j = s o j
  | 0, i, c, s => by simp [addFrom, addLoop]
  | k + 1, i, c, s => by
    have hb' : b ≠ res := fun h => hb h.symm
    simp only [addFrom, slice_succ, addLoop, wr_same, wr_ne_obj _ _ _ _ hb']
    generalize hv : (s a i + s b i + c) % B = v
    generalize hc' : (if c = 0 then if v < s b i then 1 else 0 else if v ≤ s b i then 1 else 0) = c'
    obtain ⟨h2, h1, hf⟩ := addFrom_spec B hb k (i + 1) c' (wr s res i v)
    have ea : slice (wr s res i v) a (i + 1) k = slice s a (i + 1) k :=
      slice_congr k (i + 1) (fun j h1 _ => wr_other _ _ (by omega))
    have eb : slice (wr s res i v) b (i + 1) k = slice s b (i + 1) k :=
      slice_congr k (i + 1) (fun j h1 _ => wr_other _ _ (by omega))
    rw [ea, eb] at h1 h2
    refine ⟨h2, ?_, ?_⟩
    · rw [h1, hf res i (by omega), wr_same]
    · intro o j h
      rw [hf o j (by omega), wr_other]
      rintro ⟨rfl, rfl⟩; omega

/-- `this->add(a, b)` with `this ≠ &b` (`b` is `__restrict`), `this == &a` allowed: limbs and carry of the pure model;
nothing else is written. -/
theorem add_spec (B n : Nat) {res a b : Nat} (hb : res ≠ b) (s : Store) :
    obj (add B n res a b s).1 res n = (addLoop B (obj s a n) (obj s b n) 0).1 ∧
    (add B n res a b s).2 = (addLoop B (obj s a n) (obj s b n) 0).2 ∧
    ∀ o j, (o ≠ res ∨ n ≤ j) → (add B n res a b s).1 o j = s o j := by
  obtain ⟨h2, h1, hf⟩ := addFrom_spec B hb n 0 0 s
  refine ⟨h1, h2, fun o j h => hf o j ?_⟩
  omega

/-! ### `subtract` -/

theorem subFrom_spec (B : Nat) {res a aoff b : Nat} (ha : a = res → aoff = 0) : ∀ k i c s,
    (subFrom B res a aoff b i k c s).2 = (subLoop B (slice s a (aoff + i) k) (slice s b i k) c).2 ∧
    slice (subFrom B res a aoff b i k c s).1 res i k = (subLoop B (slice s a (aoff + i) k) (slice s b i k) c).1 ∧
    ∀ o j, (o ≠ res ∨ j < i ∨ i + k ≤ j) → (subFrom B res a aoff b i k c s).1 o j = s o j
  | 0, i, c, s => by simp [subFrom, subLoop]
  | k + 1, i, c, s => by
    simp only [subFrom, slice_succ, subLoop, wr_same]
    generalize hv : (s a (aoff + i) + B - s b i - c) % B = v
    generalize hc' : (if c = 0 then if s a (aoff + i) < v then 1 else 0 else if s a (aoff + i) ≤ v then 1 else 0) = c'
    obtain ⟨h2, h1, hf⟩ := subFrom_spec B ha k (i + 1) c' (wr s res i v)
    have ea : slice (wr s res i v) a (aoff + (i + 1)) k = slice s a (aoff + i + 1) k :=
      slice_congr k (aoff + (i + 1)) (fun j h1 _ => wr_other _ _ (by
        rintro ⟨h3, h4⟩; have := ha h3; omega))
    have eb : slice (wr s res i v) b (i + 1) k = slice s b (i + 1) k :=
      slice_congr k (i + 1) (fun j h1 _ => wr_other _ _ (by omega))
    rw [ea, eb] at h1 h2
    refine ⟨h2, ?_, ?_⟩
    · rw [h1, hf res i (by omega), wr_same]
    · intro o j h
      rw [hf o j (by omega), wr_other]
      rintro ⟨rfl, rfl⟩; omega

/-- `this->subtract(a, b)`: NO condition on the ids — the loop never re-reads an operand word after its store, so
`this == &a`, `this == &b` (not permitted by the `__restrict` of the signature, but used by `FpBase::negate` in
place) and `this == &a == &b` all give the limbs and the borrow of the pure model. -/
theorem sub_spec (B n : Nat) (res a b : Nat) (s : Store) :
    obj (sub B n res a b s).1 res n = (subLoop B (obj s a n) (obj s b n) 0).1 ∧
    (sub B n res a b s).2 = (subLoop B (obj s a n) (obj s b n) 0).2 ∧
    ∀ o j, (o ≠ res ∨ n ≤ j) → (sub B n res a b s).1 o j = s o j := by
  obtain ⟨h2, h1, hf⟩ := subFrom_spec B (res := res) (a := a) (aoff := 0) (b := b) (fun _ => rfl) n 0 0 s
  refine ⟨h1, h2, fun o j h => hf o j ?_⟩
  omega

/-- the left operand is the sub-object of `a ≠ this` that starts at word `aoff` -/
theorem subO_spec (B n : Nat) {res a : Nat} (aoff b : Nat) (ha : a ≠ res) (s : Store) :
    obj (subO B n res a aoff b s).1 res n = (subLoop B (slice s a aoff n) (obj s b n) 0).1 ∧
    ∀ o j, (o ≠ res ∨ n ≤ j) → (subO B n res a aoff b s).1 o j = s o j := by
  obtain ⟨_, h1, hf⟩ := subFrom_spec B (res := res) (a := a) (aoff := aoff) (b := b) (fun h => absurd h ha) n 0 0 s
  refine ⟨h1, fun o j h => hf o j ?_⟩
  omega

/-! ### `compare`, `is_zero`, `copy` (read-only resp. atomic) -/

theorem cmp_snoc : ∀ (as bs : List Nat) (x y : Nat), as.length = bs.length →
    Impl.cmp (as ++ [x]) (bs ++ [y]) = if x < y then -1 else if x > y then 1 else Impl.cmp as bs
  | [], [], x, y, _ => by simp [Impl.cmp]
  | [], _ :: _, _, _, h => by simp at h
  | _ :: _, [], _, _, h => by simp at h
  | a :: as, b :: bs, x, y, h => by
    have ih := cmp_snoc as bs x y (by simpa using h)
    simp only [List.cons_append, Impl.cmp]
    rw [ih]
    by_cases h1 : x < y
    · simp [h1]
    · by_cases h2 : x > y
      · simp [h1, h2]
      · simp [h1, h2]

theorem cmpFrom_spec (a aoff b : Nat) (s : Store) : ∀ k,
    cmpFrom a aoff b k s = Impl.cmp (slice s a aoff k) (slice s b 0 k)
  | 0 => by simp [cmpFrom, Impl.cmp]
  | k + 1 => by
    rw [slice_snoc, slice_snoc, cmp_snoc _ _ _ _ (by simp), cmpFrom, cmpFrom_spec a aoff b s k]
    simp

theorem cmp_spec (n a b : Nat) (s : Store) : cmp n a b s = Impl.cmp (obj s a n) (obj s b n) :=
  cmpFrom_spec a 0 b s n

theorem isZeroFrom_spec (a : Nat) (s : Store) : ∀ k i, isZeroFrom a i k s = Impl.isZero (slice s a i k)
  | 0, _ => by simp [isZeroFrom, Impl.isZero]
  | k + 1, i => by simp [isZeroFrom, Impl.isZero, isZeroFrom_spec a s k (i + 1)]

theorem isZero_spec (n a : Nat) (s : Store) : isZero n a s = Impl.isZero (obj s a n) := isZeroFrom_spec a s n 0

theorem copyO_apply (n res a aoff : Nat) (s : Store) (o j : Nat) :
    copyO n res a aoff s o j = if o = res ∧ j < n then s a (aoff + j) else s o j := rfl

theorem copyO_spec (n res a aoff : Nat) (s : Store) :
    obj (copyO n res a aoff s) res n = slice s a aoff n ∧
    ∀ o j, (o ≠ res ∨ n ≤ j) → copyO n res a aoff s o j = s o j := by
  constructor
  · have : ∀ k i, i + k ≤ n → slice (copyO n res a aoff s) res i k = slice s a (aoff + i) k := by
      intro k
      induction k with
      | zero => intros; rfl
      | succ k ih =>
        intro i h
        rw [slice_succ, slice_succ, ih (i + 1) (by omega), copyO_apply, if_pos ⟨rfl, by omega⟩]
        rfl
    simpa [obj] using this n 0 (by omega)
  · intro o j h
    rw [copyO_apply, if_neg]
    omega

/-! ### `shift_left_in_word<1>`, `shift_right_in_word<1>` -/

theorem shl1From_spec (B : Nat) (res a : Nat) : ∀ k i sh s,
    (shl1From B res a i k sh s).2 = (shl1Loop B (slice s a i k) sh).2 ∧
    slice (shl1From B res a i k sh s).1 res i k = (shl1Loop B (slice s a i k) sh).1 ∧
    ∀ o j, (o ≠ res ∨ j < i ∨ i + k ≤ j) → (shl1From B res a i k sh s).1 o j = s o j
  | 0, i, sh, s => by simp [shl1From, shl1Loop]
  | k + 1, i, sh, s => by
    simp only [shl1From, slice_succ, shl1Loop]
    generalize hv : ((s a i * 2) % B) ||| sh = v
    generalize hn : s a i / (B / 2) = ns
    obtain ⟨h2, h1, hf⟩ := shl1From_spec B res a k (i + 1) ns (wr s res i v)
    have ea : slice (wr s res i v) a (i + 1) k = slice s a (i + 1) k :=
      slice_congr k (i + 1) (fun j h1 _ => wr_other _ _ (by omega))
    rw [ea] at h1 h2
    refine ⟨h2, ?_, ?_⟩
    · rw [h1, hf res i (by omega), wr_same]
    · intro o j h
      rw [hf o j (by omega), wr_other]
      rintro ⟨rfl, rfl⟩; omega

/-- `this->shift_left_in_word<1>(a)`, `this == &a` or not. -/
theorem shl1_spec (B n : Nat) (res a : Nat) (s : Store) :
    obj (shl1 B n res a s).1 res n = (Impl.shl1 B (obj s a n)).1 ∧
    (shl1 B n res a s).2 = (Impl.shl1 B (obj s a n)).2 ∧
    ∀ o j, (o ≠ res ∨ n ≤ j) → (shl1 B n res a s).1 o j = s o j := by
  obtain ⟨h2, h1, hf⟩ := shl1From_spec B res a n 0 0 s
  refine ⟨h1, h2, fun o j h => hf o j ?_⟩
  omega

/-- `shr1` with an incoming `shift_in` (the pure model starts the top word with 0) -/
def shr1In (B : Nat) (sh : Nat) : List Nat → List Nat × Nat
  | [] => ([], sh)
  | a :: as =>
      let r := shr1In B sh as
      ((r.2 ||| (a / 2)) :: r.1, (a * (B / 2)) % B)

theorem shr1In_zero (B : Nat) : ∀ l, shr1In B 0 l = Impl.shr1 B l
  | [] => rfl
  | a :: as => by simp [shr1In, Impl.shr1, shr1In_zero B as]

theorem shr1In_snoc (B : Nat) : ∀ (l : List Nat) (sh x : Nat),
    shr1In B sh (l ++ [x]) = ((shr1In B ((x * (B / 2)) % B) l).1 ++ [sh ||| (x / 2)], (shr1In B ((x * (B / 2)) % B) l).2)
  | [], sh, x => by simp [shr1In]
  | a :: l, sh, x => by simp [shr1In, shr1In_snoc B l sh x]

theorem shr1From_spec (B : Nat) (res a : Nat) : ∀ k sh s,
    (shr1From B res a k sh s).2 = (shr1In B sh (slice s a 0 k)).2 ∧
    slice (shr1From B res a k sh s).1 res 0 k = (shr1In B sh (slice s a 0 k)).1 ∧
    ∀ o j, (o ≠ res ∨ k ≤ j) → (shr1From B res a k sh s).1 o j = s o j
  | 0, sh, s => by simp [shr1From, shr1In]
  | k + 1, sh, s => by
    simp only [shr1From]
    rw [slice_snoc s a k 0, shr1In_snoc, Nat.zero_add]
    generalize hv : sh ||| (s a k / 2) = v
    generalize hn : (s a k * (B / 2)) % B = ns
    obtain ⟨h2, h1, hf⟩ := shr1From_spec B res a k ns (wr s res k v)
    have ea : slice (wr s res k v) a 0 k = slice s a 0 k :=
      slice_congr k 0 (fun j _ h1 => wr_other _ _ (by omega))
    rw [ea] at h1 h2
    refine ⟨h2, ?_, ?_⟩
    · rw [slice_snoc, h1, Nat.zero_add, hf res k (by omega), wr_same]
    · intro o j h
      rw [hf o j (by omega), wr_other]
      rintro ⟨rfl, rfl⟩; omega

/-- `this->shift_right_in_word<1>(a)`, `this == &a` or not. -/
theorem shr1_spec (B n : Nat) (res a : Nat) (s : Store) :
    obj (shr1 B n res a s).1 res n = (Impl.shr1 B (obj s a n)).1 ∧
    (shr1 B n res a s).2 = (Impl.shr1 B (obj s a n)).2 ∧
    ∀ o j, (o ≠ res ∨ n ≤ j) → (shr1 B n res a s).1 o j = s o j := by
  obtain ⟨h2, h1, hf⟩ := shr1From_spec B res a n 0 s
  rw [shr1In_zero] at h1 h2
  exact ⟨h1, h2, hf⟩

/-! ### `shift_right(a, amt)`, `shift_left(a, amt)` (post-F8 code) -/

theorem obj_eq_map (s : Store) (o : Nat) : ∀ n, obj s o n = (List.range n).map (s o)
  | 0 => rfl
  | n + 1 => by
    have := obj_eq_map s o n
    simp only [obj] at this ⊢
    rw [slice_snoc, this, List.range_succ, List.map_append]; simp

@[simp] theorem obj_length (s : Store) (o n : Nat) : (obj s o n).length = n := slice_length s o n 0

theorem obj_getD (s : Store) (o n j : Nat) (h : j < n) : (obj s o n).getD j 0 = s o j := by
  rw [obj, slice_getD _ _ _ _ _ h, Nat.zero_add]

theorem shrLoop_spec (w n wo bo res a : Nat) : ∀ k i s,
    (∀ j, i ≤ j → j < i + k → shrLoop w n wo bo res a i k s res j = shrWord w n wo bo (s a) j) ∧
    ∀ o j, (o ≠ res ∨ j < i ∨ i + k ≤ j) → shrLoop w n wo bo res a i k s o j = s o j
  | 0, i, s => ⟨fun j h1 h2 => by omega, fun _ _ _ => rfl⟩
  | k + 1, i, s => by
    simp only [shrLoop]
    have hv : (if i + wo + 1 ≠ n then shlw w (shlw w (rd s a (i + wo + 1)) (w - bo - 1)) 1 else 0) |||
        (rd s a (i + wo) / 2 ^ bo) = shrWord w n wo bo (s a) i := rfl
    rw [hv]
    obtain ⟨h1, hf⟩ := shrLoop_spec w n wo bo res a k (i + 1) (wr s res i (shrWord w n wo bo (s a) i))
    constructor
    · intro j hj1 hj2
      by_cases hji : j = i
      · subst hji
        rw [hf res j (by omega), wr_same]
      · rw [h1 j (by omega) (by omega)]
        simp only [shrWord, wr_ne_idx s res _ a (show j + wo + 1 ≠ i by omega),
          wr_ne_idx s res _ a (show j + wo ≠ i by omega)]
    · intro o j h
      rw [hf o j (by omega), wr_other]
      rintro ⟨rfl, rfl⟩; omega

theorem zeroTop_spec (n res : Nat) : ∀ k i s,
    (∀ t, i ≤ t → t < i + k → zeroTop n res i k s res (n - t - 1) = 0) ∧
    ∀ o j, (o ≠ res ∨ ∀ t, i ≤ t → t < i + k → j ≠ n - t - 1) → zeroTop n res i k s o j = s o j
  | 0, i, s => ⟨fun t h1 h2 => by omega, fun _ _ _ => rfl⟩
  | k + 1, i, s => by
    simp only [zeroTop]
    obtain ⟨h1, hf⟩ := zeroTop_spec n res k (i + 1) (wr s res (n - i - 1) 0)
    constructor
    · intro t ht1 ht2
      by_cases hti : t = i
      · subst hti
        by_cases hex : ∃ t', t + 1 ≤ t' ∧ t' < t + 1 + k ∧ n - t - 1 = n - t' - 1
        · obtain ⟨t', a1, a2, a3⟩ := hex
          have := h1 t' a1 a2
          rw [← a3] at this; exact this
        · rw [hf res (n - t - 1) (Or.inr (fun t' a1 a2 a3 => hex ⟨t', a1, a2, a3⟩)), wr_same]
      · exact h1 t (by omega) (by omega)
    · intro o j h
      rw [hf o j, wr_other]
      · rintro ⟨rfl, rfl⟩
        rcases h with h | h
        · exact h rfl
        · exact h i (by omega) (by omega) rfl
      · rcases h with h | h
        · exact Or.inl h
        · exact Or.inr (fun t a1 a2 => h t (by omega) (by omega))

theorem shrWord_congr (w n wo bo : Nat) {f g : Nat → Nat} {j : Nat} (h0 : f (j + wo) = g (j + wo))
    (h1 : j + wo + 1 ≠ n → f (j + wo + 1) = g (j + wo + 1)) : shrWord w n wo bo f j = shrWord w n wo bo g j := by
  unfold shrWord
  rw [h0]
  by_cases h : j + wo + 1 ≠ n
  · rw [if_pos h, if_pos h, h1 h]
  · rw [if_neg h, if_neg h]

/-- `this->shift_right(a, amt)` for EVERY shift amount, `this == &a` or not: the words of the pure model
`shiftRightF`, the same returned word; no other object is written. -/
theorem shiftRight_spec (w n res a amt : Nat) (s : Store) :
    obj (shiftRight w n res a amt s).1 res n = (shiftRightF w (obj s a n) amt).1 ∧
    (shiftRight w n res a amt s).2 = (shiftRightF w (obj s a n) amt).2 ∧
    ∀ o j, o ≠ res → (shiftRight w n res a amt s).1 o j = s o j := by
  simp only [shiftRight, shiftRightF, obj_length]
  generalize amt / w = wo
  generalize amt % w = bo
  obtain ⟨l1, lf⟩ := shrLoop_spec w n wo bo res a (n - wo) 0 s
  obtain ⟨z1, zf⟩ := zeroTop_spec n res wo 0 (shrLoop w n wo bo res a 0 (n - wo) s)
  refine ⟨?_, ?_, ?_⟩
  · rw [obj_eq_map]
    apply List.map_congr_left
    intro j hj
    have hj : j < n := List.mem_range.1 hj
    by_cases hz : n ≤ j + wo
    · rw [if_pos hz]
      have := z1 (n - 1 - j) (by omega) (by omega)
      rwa [show n - (n - 1 - j) - 1 = j by omega] at this
    · rw [if_neg hz, zf res j (Or.inr (fun t _ h2 => by omega)), l1 j (by omega) (by omega)]
      apply shrWord_congr
      · exact (obj_getD s a n _ (by omega)).symm
      · intro h; exact (obj_getD s a n _ (by omega)).symm
  · by_cases h : wo < n
    · rw [if_pos h, if_pos h, obj_getD s a n _ h]
    · rw [if_neg h, if_neg h]
  · intro o j h
    rw [zf o j (Or.inl h), lf o j (Or.inl h)]

theorem shlLoop_spec (w wo bo res a : Nat) : ∀ k s,
    (∀ t, t < k → shlLoop w wo bo res a k s res (wo + t) = shlWord w bo (s a) t) ∧
    ∀ o j, (o ≠ res ∨ j < wo ∨ wo + k ≤ j) → shlLoop w wo bo res a k s o j = s o j
  | 0, s => ⟨fun t h => by omega, fun _ _ _ => rfl⟩
  | k + 1, s => by
    simp only [shlLoop]
    have hv : (shlw w (rd s a (wo + k - wo)) bo ||| if wo + k ≠ wo then rd s a (wo + k - wo - 1) / 2 ^ (w - bo - 1) / 2 else 0)
        = shlWord w bo (s a) k := by
      simp only [shlWord, Nat.add_sub_cancel_left]
      by_cases hk : k = 0
      · simp [hk]
      · rw [if_pos (by omega), if_pos hk]
    rw [hv]
    obtain ⟨h1, hf⟩ := shlLoop_spec w wo bo res a k (wr s res (wo + k) (shlWord w bo (s a) k))
    constructor
    · intro t ht
      by_cases htk : t = k
      · subst htk
        rw [hf res (wo + t) (by omega), wr_same]
      · rw [h1 t (by omega)]
        simp only [shlWord, wr_ne_idx s res _ a (show t ≠ wo + k by omega),
          wr_ne_idx s res _ a (show t - 1 ≠ wo + k by omega)]
    · intro o j h
      rw [hf o j (by omega), wr_other]
      rintro ⟨rfl, rfl⟩; omega

theorem zeroLow_spec (res : Nat) : ∀ k i s o j,
    zeroLow res i k s o j = if o = res ∧ i ≤ j ∧ j < i + k then 0 else s o j
  | 0, i, s, o, j => by rw [zeroLow, if_neg (by omega)]
  | k + 1, i, s, o, j => by
    simp only [zeroLow]
    rw [zeroLow_spec res k (i + 1) _ o j, wr_apply]
    by_cases ho : o = res
    · by_cases h1 : j = i
      · subst h1; simp [ho]
      · by_cases h2 : i + 1 ≤ j ∧ j < i + 1 + k
        · rw [if_pos ⟨ho, h2⟩, if_pos ⟨ho, by omega, by omega⟩]
        · rw [if_neg (fun h => h2 h.2), if_neg (fun h => h1 h.2), if_neg (fun h => h2 (by omega))]
    · simp [ho]

theorem shlWord_congr (w bo : Nat) {f g : Nat → Nat} {t : Nat} (h0 : f t = g t)
    (h1 : t ≠ 0 → f (t - 1) = g (t - 1)) : shlWord w bo f t = shlWord w bo g t := by
  unfold shlWord
  rw [h0]
  by_cases h : t ≠ 0
  · rw [if_pos h, if_pos h, h1 h]
  · rw [if_neg h, if_neg h]

/-- `this->shift_left(a, amt)` for EVERY shift amount, `this == &a` or not. -/
theorem shiftLeft_spec (w n res a amt : Nat) (s : Store) :
    obj (shiftLeft w n res a amt s).1 res n = (shiftLeftF w (obj s a n) amt).1 ∧
    (shiftLeft w n res a amt s).2 = (shiftLeftF w (obj s a n) amt).2 ∧
    ∀ o j, o ≠ res → (shiftLeft w n res a amt s).1 o j = s o j := by
  simp only [shiftLeft, shiftLeftF, obj_length]
  generalize amt / w = wo
  generalize amt % w = bo
  obtain ⟨l1, lf⟩ := shlLoop_spec w wo bo res a (n - wo) s
  refine ⟨?_, ?_, ?_⟩
  · rw [obj_eq_map]
    apply List.map_congr_left
    intro j hj
    have hj : j < n := List.mem_range.1 hj
    rw [zeroLow_spec]
    by_cases hz : j < wo
    · rw [if_pos hz, if_pos ⟨rfl, by omega, by omega⟩]
    · rw [if_neg hz, if_neg (by omega)]
      have := l1 (j - wo) (by omega)
      rw [show wo + (j - wo) = j by omega] at this
      rw [this]
      apply shlWord_congr
      · exact (obj_getD s a n _ (by omega)).symm
      · intro h; exact (obj_getD s a n _ (by omega)).symm
  · by_cases h : wo < n
    · rw [if_pos h, if_pos h, obj_getD s a n _ (by omega)]
    · rw [if_neg h, if_neg h]
  · intro o j h
    rw [zeroLow_spec, if_neg (fun h' => h h'.1), lf o j (Or.inl h)]

/-! ### `multiply` -/

theorem slice_wr_lt (s : Store) (o i v o' : Nat) {j k : Nat} (h : j + k ≤ i) :
    slice (wr s o i v) o' j k = slice s o' j k :=
  slice_congr k j (fun x _ h2 => wr_ne_idx s o v o' (by omega))

theorem slice_wr_gt (s : Store) (o i v o' : Nat) {j : Nat} (k : Nat) (h : i < j) :
    slice (wr s o i v) o' j k = slice s o' j k :=
  slice_congr k j (fun x h1 _ => wr_ne_idx s o v o' (by omega))

theorem slice_wr_ne (s : Store) {o o' : Nat} (i v j k : Nat) (h : o' ≠ o) :
    slice (wr s o i v) o' j k = slice s o' j k :=
  slice_congr k j (fun x _ _ => wr_ne_obj s i v x h)

theorem macFrom_spec (B u : Nat) {p t : Nat} (toff : Nat) (hp : p ≠ t) : ∀ k j c s,
    (macFrom B u p t toff j k c s).2 = (macLoop B u (slice s p j k) (slice s t (toff + j) k) c).2 ∧
    slice (macFrom B u p t toff j k c s).1 t (toff + j) k = (macLoop B u (slice s p j k) (slice s t (toff + j) k) c).1 ∧
    ∀ o x, (o ≠ t ∨ x < toff + j ∨ toff + j + k ≤ x) → (macFrom B u p t toff j k c s).1 o x = s o x
  | 0, j, c, s => by simp [macFrom, macLoop]
  | k + 1, j, c, s => by
    simp only [macFrom, slice_succ, macLoop, List.headD_cons, List.tail_cons]
    generalize hnw : u * s p j + s t (toff + j) + c = nw
    obtain ⟨h2, h1, hf⟩ := macFrom_spec B u toff hp k (j + 1) (nw / B) (wr s t (toff + j) (nw % B))
    rw [slice_wr_ne _ _ _ _ _ hp, show toff + (j + 1) = toff + j + 1 from rfl, slice_wr_gt _ _ _ _ _ _ (by omega)] at h1 h2
    refine ⟨h2, ?_, ?_⟩
    · rw [h1, hf t (toff + j) (by omega), wr_same]
    · intro o x h
      rw [hf o x (by omega), wr_other]
      rintro ⟨rfl, rfl⟩; omega

theorem macLoop_take (B u : Nat) : ∀ (ps ts : List Nat) (c : Nat),
    macLoop B u ps ts c = macLoop B u ps (ts.take ps.length) c
  | [], ts, c => by simp [macLoop]
  | p :: ps, [], c => by simp
  | p :: ps, t :: ts, c => by
    simp only [macLoop, List.length_cons, List.take_succ_cons, List.headD_cons, List.tail_cons]
    rw [macLoop_take B u ps ts]

theorem mulRowFrom_eq (B : Nat) {res a : Nat} (b i : Nat) (ha : a ≠ res) : ∀ k j c s,
    mulRowFrom B res a b i j k c s = macFrom B (s a i) b res i j k c s
  | 0, j, c, s => rfl
  | k + 1, j, c, s => by
    simp only [mulRowFrom, macFrom]
    rw [mulRowFrom_eq B b i ha k, wr_ne_obj _ _ _ _ ha]

theorem mulRow0From_spec (B : Nat) {res a b : Nat} (ha : a ≠ res) (hb : b ≠ res) : ∀ k j c s,
    (mulRow0From B res a b j k c s).2 = (mulRow0 B (s a 0) (slice s b j k) c).2 ∧
    slice (mulRow0From B res a b j k c s).1 res j k = (mulRow0 B (s a 0) (slice s b j k) c).1 ∧
    ∀ o x, (o ≠ res ∨ x < j ∨ j + k ≤ x) → (mulRow0From B res a b j k c s).1 o x = s o x
  | 0, j, c, s => by simp [mulRow0From, mulRow0]
  | k + 1, j, c, s => by
    simp only [mulRow0From, slice_succ, mulRow0]
    generalize hnw : s a 0 * s b j + c = nw
    obtain ⟨h2, h1, hf⟩ := mulRow0From_spec B ha hb k (j + 1) (nw / B) (wr s res j (nw % B))
    rw [slice_wr_ne _ _ _ _ _ hb, wr_ne_obj _ _ _ _ ha] at h1 h2
    refine ⟨h2, ?_, ?_⟩
    · rw [h1, hf res j (by omega), wr_same]
    · intro o x h
      rw [hf o x (by omega), wr_other]
      rintro ⟨rfl, rfl⟩; omega

theorem mulRowsFrom_spec (B m : Nat) {res a b : Nat} (ha : a ≠ res) (hb : b ≠ res) : ∀ k i s,
    slice (mulRowsFrom B m res a b i k s) res i (k + m)
      = mulRows B (slice s a i k) (slice s b 0 m) (slice s res i m) ∧
    ∀ o x, (o ≠ res ∨ x < i ∨ i + k + m ≤ x) → mulRowsFrom B m res a b i k s o x = s o x
  | 0, i, s => by simp [mulRowsFrom, mulRows]
  | k + 1, i, s => by
    simp only [mulRowsFrom, slice_succ, mulRows]
    rw [mulRowFrom_eq B b i ha]
    obtain ⟨m2, m1, mf⟩ := macFrom_spec B (s a i) i hb m 0 0 s
    simp only [Nat.add_zero] at m1 m2 mf
    generalize macFrom B (s a i) b res i 0 m 0 s = r at *
    generalize hR : macLoop B (s a i) (slice s b 0 m) (slice s res i m) 0 = R at *
    -- the store after `this[i + m] = carry`
    have hrow : slice (wr r.1 res (i + m) r.2) res i (m + 1) = R.1 ++ [R.2] := by
      rw [slice_snoc, slice_wr_lt _ _ _ _ _ (by omega), wr_same, m1, m2]
    obtain ⟨h1, hf⟩ := mulRowsFrom_spec B m ha hb k (i + 1) (wr r.1 res (i + m) r.2)
    have ea : slice (wr r.1 res (i + m) r.2) a (i + 1) k = slice s a (i + 1) k := by
      rw [slice_wr_ne _ _ _ _ _ ha]; exact slice_congr _ _ (fun x _ _ => mf a x (Or.inl ha))
    have eb : slice (wr r.1 res (i + m) r.2) b 0 m = slice s b 0 m := by
      rw [slice_wr_ne _ _ _ _ _ hb]; exact slice_congr _ _ (fun x _ _ => mf b x (Or.inl hb))
    rw [ea, eb] at h1
    rw [slice_succ] at hrow
    constructor
    · rw [show k + 1 + m = (k + m) + 1 by omega, slice_succ, h1, hf res i (by omega), ← hrow]
      simp
    · intro o x h
      rw [hf o x (by omega), wr_other, mf o x (by omega)]
      rintro ⟨rfl, rfl⟩; omega

/-- `this->multiply(a, b)` (`a`, `b` `__restrict`: `this` is a different object; `&a == &b` is allowed, both are only
read): the `na + nb` limbs of the pure model. -/
theorem mul_spec (B na nb : Nat) {res a b : Nat} (hna : 0 < na) (ha : a ≠ res) (hb : b ≠ res) (s : Store) :
    obj (mul B na nb res a b s) res (na + nb) = mulLoop B (obj s a na) (obj s b nb) ∧
    ∀ o x, o ≠ res → mul B na nb res a b s o x = s o x := by
  obtain ⟨na, rfl⟩ : ∃ k, na = k + 1 := ⟨na - 1, by omega⟩
  simp only [mul, obj, slice_succ, mulLoop, Nat.add_sub_cancel]
  obtain ⟨r2, r1, rf⟩ := mulRow0From_spec B ha hb nb 0 0 s
  generalize mulRow0From B res a b 0 nb 0 s = r at *
  generalize hR : mulRow0 B (s a 0) (slice s b 0 nb) 0 = R at *
  have hrow : slice (wr r.1 res nb r.2) res 0 (nb + 1) = R.1 ++ [R.2] := by
    rw [slice_snoc, slice_wr_lt _ _ _ _ _ (by omega), Nat.zero_add, wr_same, r1, r2]
  obtain ⟨h1, hf⟩ := mulRowsFrom_spec B nb ha hb na 1 (wr r.1 res nb r.2)
  have ea : slice (wr r.1 res nb r.2) a 1 na = slice s a 1 na := by
    rw [slice_wr_ne _ _ _ _ _ ha]; exact slice_congr _ _ (fun x _ _ => rf a x (Or.inl ha))
  have eb : slice (wr r.1 res nb r.2) b 0 nb = slice s b 0 nb := by
    rw [slice_wr_ne _ _ _ _ _ hb]; exact slice_congr _ _ (fun x _ _ => rf b x (Or.inl hb))
  rw [ea, eb] at h1
  rw [slice_succ] at hrow
  constructor
  · rw [show na + 1 + nb = (na + nb) + 1 by omega, slice_succ, h1, hf res 0 (by omega), ← hrow]
    simp
  · intro o x h
    rw [hf o x (Or.inl h), wr_ne_obj _ _ _ _ h, rf o x (Or.inl h)]

/-! ### `reduce`, `montgomery_reduce` -/

theorem reduceO_spec (B n : Nat) {res a aoff : Nat} (p : Nat) (ha : a = res → aoff = 0) (s : Store) :
    obj (reduceO B n res a aoff p s) res n = Impl.fpReduce B (slice s a aoff n) (obj s p n) ∧
    ∀ o j, (o ≠ res ∨ n ≤ j) → reduceO B n res a aoff p s o j = s o j := by
  unfold reduceO Impl.fpReduce
  rw [cmpFrom_spec]
  by_cases h : Impl.cmp (slice s a aoff n) (slice s p 0 n) = -1
  · rw [if_pos h, if_pos (by exact h)]
    exact copyO_spec n res a aoff s
  · rw [if_neg h, if_neg (by exact h)]
    obtain ⟨_, h1, hf⟩ := subFrom_spec B (res := res) (a := a) (aoff := aoff) (b := p) ha n 0 0 s
    exact ⟨h1, fun o j h => hf o j (by omega)⟩

theorem slice_drop (s : Store) (o : Nat) (i k d : Nat) : (slice s o i k).drop d = slice s o (i + d) (k - d) := by
  by_cases h : d ≤ k
  · obtain ⟨e, rfl⟩ : ∃ e, k = d + e := ⟨k - d, by omega⟩
    rw [slice_append, List.drop_left' (by simp), Nat.add_sub_cancel_left]
  · rw [List.drop_eq_nil_of_le (by simp; omega), show k - d = 0 by omega]; rfl

theorem slice_take (s : Store) (o : Nat) (i k d : Nat) (h : d ≤ k) : (slice s o i k).take d = slice s o i d := by
  obtain ⟨e, rfl⟩ : ∃ e, k = d + e := ⟨k - d, by omega⟩
  rw [slice_append, List.take_left' (by simp)]

theorem montOuterFrom_spec (B n inv L : Nat) {a p : Nat} (hn : 0 < n) (hp : p ≠ a) : ∀ k i mc s, i + k + n ≤ L →
    (montOuterFrom B n a p inv i k mc s).2 = (montLoop B n (obj s p n) inv k (slice s a i (L - i)) mc).2 ∧
    slice (montOuterFrom B n a p inv i k mc s).1 a (i + k) (L - (i + k))
      = (montLoop B n (obj s p n) inv k (slice s a i (L - i)) mc).1 ∧
    ∀ o x, o ≠ a → (montOuterFrom B n a p inv i k mc s).1 o x = s o x
  | 0, i, mc, s, _ => by simp [montOuterFrom, montLoop]
  | k + 1, i, mc, s, hL => by
    obtain ⟨n, rfl⟩ : ∃ n', n = n' + 1 := ⟨n - 1, by omega⟩
    obtain ⟨e, he⟩ : ∃ e, L - i = (n + 1) + (e + 1) := ⟨L - i - n - 2, by omega⟩
    simp only [montOuterFrom, montLoop, Nat.add_sub_cancel, rd]
    -- the pure step on t = a[i ..]
    have hstep : montStep B (n + 1) (obj s p (n + 1)) inv (slice s a i (L - i)) mc =
        ((macLoop B ((s a i * inv) % B) (slice s p 1 n) (slice s a (i + 1) n) ((((s a i * inv) % B) * s p 0 + s a i) / B)).1
            ++ ((s a (i + 1 + n) + (macLoop B ((s a i * inv) % B) (slice s p 1 n) (slice s a (i + 1) n)
                  ((((s a i * inv) % B) * s p 0 + s a i) / B)).2 + mc) % B) :: slice s a (i + 1 + n + 1) e,
         (s a (i + 1 + n) + (macLoop B ((s a i * inv) % B) (slice s p 1 n) (slice s a (i + 1) n)
                  ((((s a i * inv) % B) * s p 0 + s a i) / B)).2 + mc) / B) := by
      rw [he, show n + 1 + (e + 1) = (n + (e + 1)) + 1 by omega]
      simp only [montStep, obj, slice_succ, List.headD_cons, List.tail_cons, Nat.add_sub_cancel, Nat.zero_add]
      rw [macLoop_take, slice_length, slice_take _ _ _ _ _ (by omega), slice_drop, Nat.add_sub_cancel_left, slice_succ]
      simp only [List.headD_cons, List.tail_cons]
    rw [hstep]
    generalize hu : (s a i * inv) % B = u
    generalize hc0 : (u * s p 0 + s a i) / B = c0
    obtain ⟨m2, m1, mf⟩ := macFrom_spec B u i hp n 1 c0 s
    generalize macFrom B u p a i 1 n c0 s = r at *
    generalize hR : macLoop B u (slice s p 1 n) (slice s a (i + 1) n) c0 = R at *
    have e1 : r.1 a (i + (n + 1)) = s a (i + 1 + n) := by
      rw [mf a _ (by omega)]; congr 1; omega
    rw [e1, m2]
    generalize hns : s a (i + 1 + n) + R.2 + mc = ns
    obtain ⟨h2, h1, hf⟩ := montOuterFrom_spec B (n + 1) inv L (by omega) hp k (i + 1) (ns / B)
      (wr r.1 a (i + (n + 1)) (ns % B)) (by omega)
    have ep : obj (wr r.1 a (i + (n + 1)) (ns % B)) p (n + 1) = obj s p (n + 1) := by
      rw [obj, slice_wr_ne _ _ _ _ _ hp]; exact slice_congr _ _ (fun x _ _ => mf p x (Or.inl hp))
    have ea : slice (wr r.1 a (i + (n + 1)) (ns % B)) a (i + 1) (L - (i + 1)) =
        R.1 ++ (ns % B) :: slice s a (i + 1 + n + 1) e := by
      rw [show L - (i + 1) = n + (1 + e) by omega, slice_append, slice_append, slice_wr_lt _ _ _ _ _ (by omega),
        slice_succ, slice_zero, slice_wr_gt _ _ _ _ _ _ (by omega), m1,
        show i + 1 + n = i + (n + 1) by omega, wr_same]
      congr 1
      simp only [List.singleton_append, List.cons.injEq, true_and]
      exact slice_congr _ _ (fun x h1 _ => mf a x (by omega))
    rw [ep, ea] at h1 h2
    refine ⟨h2, ?_, ?_⟩
    · rw [show i + (k + 1) = i + 1 + k by omega]; exact h1
    · intro o x h
      rw [hf o x h, wr_ne_obj _ _ _ _ h, mf o x (Or.inl h)]

/-- `this->montgomery_reduce(a, p, inv)` (`a`, `p` `__restrict`; `a` is consumed): the `n` limbs of the pure model;
only `this` and `a` are written. -/
theorem montReduce_spec (B n inv : Nat) {res a p : Nat} (hn : 0 < n) (ha : a ≠ res) (hp : p ≠ a) (s : Store) :
    obj (montReduce B n res a p inv s) res n = Impl.montReduce B n (obj s a (2 * n)) (obj s p n) inv ∧
    ∀ o x, o ≠ res → o ≠ a → montReduce B n res a p inv s o x = s o x := by
  unfold montReduce Impl.montReduce
  obtain ⟨_, h1, hf⟩ := montOuterFrom_spec B n inv (2 * n) hn hp n 0 0 s (by omega)
  generalize montOuterFrom B n a p inv 0 n 0 s = r at *
  obtain ⟨g1, gf⟩ := reduceO_spec B n (res := res) (a := a) (aoff := n) p (fun h => absurd h ha) r.1
  constructor
  · rw [g1]
    simp only [Nat.zero_add, Nat.sub_zero] at h1
    rw [show 2 * n - n = n by omega] at h1
    rw [h1, obj]
    congr 1
    exact slice_congr _ _ (fun x _ _ => hf p x hp)
  · intro o x h1 h2
    rw [gf o x (Or.inl h1), hf o x h2]

/-! ### `FpBase::add`, `multiply2`, `subtract`, `negate`, `multiply`; `Fp::set`, `into_montgomery_form`, `get` -/

theorem obj_congr {s s' : Store} {o : Nat} (n : Nat) (h : ∀ j, s o j = s' o j) : obj s o n = obj s' o n :=
  slice_congr _ _ (fun j _ _ => h j)

/-- `this->add(a, b, p)`, `this ≠ &b`, `this ≠ &p` (both `__restrict`), `this == &a` allowed. -/
theorem fpAdd_spec (B n : Nat) {res a b p : Nat} (hb : res ≠ b) (hp : res ≠ p) (s : Store) :
    obj (fpAdd B n res a b p s) res n = Impl.fpAdd B (obj s a n) (obj s b n) (obj s p n) ∧
    ∀ o j, (o ≠ res ∨ n ≤ j) → fpAdd B n res a b p s o j = s o j := by
  unfold fpAdd Impl.fpAdd
  obtain ⟨a1, a2, af⟩ := add_spec B n (a := a) hb s
  generalize add B n res a b s = r at *
  have ep : obj r.1 p n = obj s p n := obj_congr n (fun j => af p j (Or.inl (Ne.symm hp)))
  simp only [cmp_spec, ep, a1, a2]
  generalize addLoop B (obj s a n) (obj s b n) 0 = R at *
  by_cases h : Impl.cmp R.1 (obj s p n) ≥ 0 ∨ R.2 ≠ 0
  · rw [if_pos h, if_pos h]
    obtain ⟨s1, _, sf⟩ := sub_spec B n res res p r.1
    rw [ep, a1] at s1
    exact ⟨s1, fun o j h => by rw [sf o j h, af o j h]⟩
  · rw [if_neg h, if_neg h]
    exact ⟨a1, af⟩

/-- `this->multiply2(a, p)`, `this ≠ &p`, `this == &a` allowed. -/
theorem fpDbl_spec (B n : Nat) {res p : Nat} (a : Nat) (hp : res ≠ p) (s : Store) :
    obj (fpDbl B n res a p s) res n = Impl.fpDbl B (obj s a n) (obj s p n) ∧
    ∀ o j, (o ≠ res ∨ n ≤ j) → fpDbl B n res a p s o j = s o j := by
  unfold fpDbl Impl.fpDbl
  obtain ⟨a1, a2, af⟩ := shl1_spec B n res a s
  generalize shl1 B n res a s = r at *
  have ep : obj r.1 p n = obj s p n := obj_congr n (fun j => af p j (Or.inl (Ne.symm hp)))
  simp only [cmp_spec, ep, a1, a2]
  generalize Impl.shl1 B (obj s a n) = R at *
  by_cases h : Impl.cmp R.1 (obj s p n) ≥ 0 ∨ R.2 ≠ 0
  · rw [if_pos h, if_pos h]
    obtain ⟨s1, _, sf⟩ := sub_spec B n res res p r.1
    rw [ep, a1] at s1
    exact ⟨s1, fun o j h => by rw [sf o j h, af o j h]⟩
  · rw [if_neg h, if_neg h]
    exact ⟨a1, af⟩

/-- `this->subtract(a, b, p)`, `this ≠ &p`; `this == &a` allowed (in the model also `this == &b`, which the
`__restrict` of the signature excludes). -/
theorem fpSub_spec (B n : Nat) {res p : Nat} (a b : Nat) (hp : res ≠ p) (s : Store) :
    obj (fpSub B n res a b p s) res n = Impl.fpSub B (obj s a n) (obj s b n) (obj s p n) ∧
    ∀ o j, (o ≠ res ∨ n ≤ j) → fpSub B n res a b p s o j = s o j := by
  unfold fpSub Impl.fpSub
  obtain ⟨a1, a2, af⟩ := sub_spec B n res a b s
  generalize sub B n res a b s = r at *
  have ep : obj r.1 p n = obj s p n := obj_congr n (fun j => af p j (Or.inl (Ne.symm hp)))
  simp only [a2]
  generalize subLoop B (obj s a n) (obj s b n) 0 = R at *
  by_cases h : R.2 ≠ 0
  · rw [if_pos h, if_pos h]
    obtain ⟨s1, _, sf⟩ := add_spec B n (res := res) (a := res) (b := p) hp r.1
    rw [ep, a1] at s1
    exact ⟨s1, fun o j h => by rw [sf o j h, af o j h]⟩
  · rw [if_neg h, if_neg h]
    exact ⟨a1, af⟩

/-- `this->negate(a, p)`: no condition on the ids in the model (`this == &a` is the in-place call). -/
theorem fpNeg_spec (B n : Nat) (res a p : Nat) (s : Store) :
    obj (fpNeg B n res a p s) res n = Impl.fpNeg B (obj s a n) (obj s p n) ∧
    ∀ o j, (o ≠ res ∨ n ≤ j) → fpNeg B n res a p s o j = s o j := by
  unfold fpNeg Impl.fpNeg
  rw [isZero_spec]
  by_cases h : Impl.isZero (obj s a n) = true
  · rw [if_pos h, if_pos h]
    exact copyO_spec n res a 0 s
  · rw [if_neg h, if_neg h]
    obtain ⟨s1, _, sf⟩ := sub_spec B n res p a s
    exact ⟨s1, sf⟩

/-- `this->reduce(a, p)` (both `__restrict`; in the model `this == &a` is harmless). -/
theorem reduce_spec (B n : Nat) (res a p : Nat) (s : Store) :
    obj (reduce B n res a p s) res n = Impl.fpReduce B (obj s a n) (obj s p n) ∧
    ∀ o j, (o ≠ res ∨ n ≤ j) → reduce B n res a p s o j = s o j :=
  reduceO_spec B n (res := res) (a := a) (aoff := 0) p (fun _ => rfl) s

/-- `this->multiply(a, b, p, inv)` with a local `tmp` different from every operand: `this == &a`, `this == &b`,
`this == &a == &b`, `&a == &b` — all the same limbs.  Only `this` and `tmp` are written. -/
theorem fpMul_spec (B n inv : Nat) {res a b p tmp : Nat} (hn : 0 < n) (h1 : tmp ≠ res) (h2 : a ≠ tmp) (h3 : b ≠ tmp)
    (h4 : p ≠ tmp) (s : Store) :
    obj (fpMul B n res a b p inv tmp s) res n = Impl.fpMul B n (obj s a n) (obj s b n) (obj s p n) inv ∧
    ∀ o x, o ≠ res → o ≠ tmp → fpMul B n res a b p inv tmp s o x = s o x := by
  unfold fpMul Impl.fpMul
  obtain ⟨m1, mf⟩ := mul_spec B n n hn h2 h3 s
  obtain ⟨r1, rf⟩ := montReduce_spec B n inv hn h1 h4 (mul B n n tmp a b s)
  constructor
  · rw [r1, two_mul_eq, m1, obj_congr n (fun j => mf p j h4)]
  · intro o x g1 g2
    rw [rf o x g1 g2, mf o x g2]
where two_mul_eq : 2 * n = n + n := by omega

theorem copyExt_apply (n res a : Nat) (s : Store) (o j : Nat) : copyExt n res a s o j =
    if o = res ∧ j < n then s a j else if o = res ∧ j < 2 * n then 0 else s o j := rfl

theorem copyExt_spec (n res a : Nat) (s : Store) :
    obj (copyExt n res a s) res (2 * n) = obj s a n ++ List.replicate n 0 ∧
    ∀ o x, o ≠ res → copyExt n res a s o x = s o x := by
  constructor
  · rw [obj, show 2 * n = n + n by omega, slice_append]
    congr 1
    · exact slice_congr _ _ (fun j _ hj => by rw [copyExt_apply, if_pos ⟨rfl, by omega⟩])
    · have : ∀ k i, n ≤ i → i + k ≤ 2 * n → slice (copyExt n res a s) res i k = List.replicate k 0 := by
        intro k
        induction k with
        | zero => intros; rfl
        | succ k ih =>
          intro i h1 h2
          rw [slice_succ, ih (i + 1) (by omega) (by omega), List.replicate_succ]
          congr 1
          rw [copyExt_apply, if_neg (by omega), if_pos ⟨rfl, by omega⟩]
      exact this n (0 + n) (by omega) (by omega)
  · intro o x h
    rw [copyExt_apply, if_neg (fun h' => h h'.1), if_neg (fun h' => h h'.1)]

/-- `Fp::get(integer)` (`this` = `a`, `integer` = `res`), `&integer == &this->val` allowed. -/
theorem fpGet_spec (B n inv : Nat) {res p tmp : Nat} (a : Nat) (hn : 0 < n) (h1 : tmp ≠ res) (h4 : p ≠ tmp) (s : Store) :
    obj (fpGet B n res a p inv tmp s) res n = Impl.fpGet B n (obj s a n) (obj s p n) inv ∧
    ∀ o x, o ≠ res → o ≠ tmp → fpGet B n res a p inv tmp s o x = s o x := by
  unfold fpGet Impl.fpGet
  obtain ⟨m1, mf⟩ := copyExt_spec n tmp a s
  obtain ⟨r1, rf⟩ := montReduce_spec B n inv hn h1 h4 (copyExt n tmp a s)
  constructor
  · rw [r1, m1, obj_congr n (fun j => mf p j h4)]
  · intro o x g1 g2
    rw [rf o x g1 g2, mf o x g2]

/-! ### `square` -/

theorem wrDz_apply (s : Store) (o i v o' j : Nat) : wrDz s o i v o' j =
    if o' = o ∧ j = 2 * i + 1 then 0 else if o' = o ∧ j = 2 * i then v else s o' j := rfl

theorem wrD_apply (B : Nat) (s : Store) (o i v o' j : Nat) : wrD B s o i v o' j =
    if o' = o ∧ j = 2 * i + 1 then v / B else if o' = o ∧ j = 2 * i then v % B else s o' j := rfl

theorem sqrRowsFrom_spec (B : Nat) {res a : Nat} (ha : a ≠ res) : ∀ k i s,
    obj (sqrRowsFrom B res a i k s) res (2 * (i + k))
      = sqrRows B (slice s a 0 i) (slice s a i k) (obj s res (2 * i)) ∧
    ∀ o x, o ≠ res → sqrRowsFrom B res a i k s o x = s o x
  | 0, i, s => by simp [sqrRowsFrom, sqrRows]
  | k + 1, i, s => by
    simp only [sqrRowsFrom, slice_succ, sqrRows, slice_length]
    rw [mulRowFrom_eq B a i ha]
    obtain ⟨m2, m1, mf⟩ := macFrom_spec B (s a i) i ha i 0 0 s
    simp only [Nat.add_zero] at m1 m2 mf
    generalize macFrom B (s a i) a res i 0 i 0 s = r at *
    have hd : (obj s res (2 * i)).drop i = slice s res i i := by
      rw [obj, slice_drop, Nat.zero_add, show 2 * i - i = i by omega]
    have ht : (obj s res (2 * i)).take i = slice s res 0 i := by
      rw [obj, slice_take _ _ _ _ _ (by omega)]
    rw [hd, ht]
    generalize hR : macLoop B (s a i) (slice s a 0 i) (slice s res i i) 0 = R at *
    obtain ⟨h1, hf⟩ := sqrRowsFrom_spec B ha k (i + 1) (wrDz r.1 res i r.2)
    have hw : ∀ o x, (o ≠ res ∨ (x ≠ 2 * i ∧ x ≠ 2 * i + 1)) → wrDz r.1 res i r.2 o x = r.1 o x := by
      intro o x h
      rw [wrDz_apply, if_neg (by rintro ⟨rfl, rfl⟩; omega), if_neg (by rintro ⟨rfl, rfl⟩; omega)]
    have ea : ∀ x, wrDz r.1 res i r.2 a x = s a x := fun x => by
      rw [hw a x (Or.inl ha), mf a x (Or.inl ha)]
    have ea1 : slice (wrDz r.1 res i r.2) a 0 (i + 1) = slice s a 0 i ++ [s a i] := by
      rw [slice_snoc, Nat.zero_add, ea i]
      congr 1
      exact slice_congr _ _ (fun x _ _ => ea x)
    have ea2 : slice (wrDz r.1 res i r.2) a (i + 1) k = slice s a (i + 1) k :=
      slice_congr _ _ (fun x _ _ => ea x)
    have et : obj (wrDz r.1 res i r.2) res (2 * (i + 1)) = slice s res 0 i ++ R.1 ++ [R.2, 0] := by
      rw [obj, show 2 * (i + 1) = i + (i + 2) by omega, slice_append, slice_append, List.append_assoc, Nat.zero_add]
      congr 1
      · refine slice_congr _ _ (fun x _ hx => ?_)
        rw [hw res x (by omega), mf res x (by omega)]
      · congr 1
        · rw [← m1]
          refine slice_congr _ _ (fun x _ hx => ?_)
          rw [hw res x (by omega)]
        · simp only [slice_succ, slice_zero]
          rw [wrDz_apply, if_neg (by omega), if_pos ⟨rfl, by omega⟩, wrDz_apply, if_pos ⟨rfl, by omega⟩, m2]
    rw [ea1, ea2, et] at h1
    constructor
    · rw [show i + (k + 1) = i + 1 + k by omega]; exact h1
    · intro o x h
      rw [hf o x h, hw o x (Or.inl h), mf o x (Or.inl h)]

/-- double words `i … i+k-1` of an object -/
def dsl (B : Nat) (s : Store) (o : Nat) : Nat → Nat → List Nat
  | _, 0 => []
  | i, k + 1 => rdD B s o i :: dsl B s o (i + 1) k

theorem dwordsOf_slice (B : Nat) (s : Store) (o : Nat) : ∀ k i,
    dwordsOf B (slice s o (2 * i) (2 * k)) = dsl B s o i k
  | 0, i => rfl
  | k + 1, i => by
    rw [show 2 * (k + 1) = 2 * k + 1 + 1 by omega, slice_succ, slice_succ, dwordsOf, dsl,
      show 2 * i + 1 + 1 = 2 * (i + 1) by omega, dwordsOf_slice B s o k (i + 1)]
    rfl

theorem dsl_congr (B : Nat) {s s' : Store} {o : Nat} : ∀ k i, (∀ x, 2 * i ≤ x → x < 2 * (i + k) → s o x = s' o x) →
    dsl B s o i k = dsl B s' o i k
  | 0, _, _ => rfl
  | k + 1, i, h => by
    rw [dsl, dsl, dsl_congr B k (i + 1) (fun x h1 h2 => h x (by omega) (by omega))]
    simp only [rdD, rd]
    rw [h (2 * i) (by omega) (by omega), h (2 * i + 1) (by omega) (by omega)]

/-- the value the doubling loop stores in double word `t` -/
def dblV (B : Nat) (s : Store) (o t : Nat) : Nat :=
  ((rdD B s o t * 2) % (B * B)) ||| (rdD B s o (t - 1) / (B * B / 2))

theorem sqrDblFrom_spec (B res : Nat) : ∀ k s,
    (∀ t, 1 ≤ t → t ≤ k → sqrDblFrom B res k s res (2 * t) = dblV B s res t % B ∧
        sqrDblFrom B res k s res (2 * t + 1) = dblV B s res t / B) ∧
    ∀ o x, (o ≠ res ∨ x < 2 ∨ 2 * k + 2 ≤ x) → sqrDblFrom B res k s o x = s o x
  | 0, s => ⟨fun t h1 h2 => by omega, fun _ _ _ => rfl⟩
  | k + 1, s => by
    simp only [sqrDblFrom, Nat.add_sub_cancel]
    have hv : ((rdD B s res (k + 1) * 2) % (B * B)) ||| (rdD B s res k / (B * B / 2)) = dblV B s res (k + 1) := rfl
    rw [hv]
    obtain ⟨h1, hf⟩ := sqrDblFrom_spec B res k (wrD B s res (k + 1) (dblV B s res (k + 1)))
    constructor
    · intro t ht1 ht2
      by_cases htk : t = k + 1
      · subst htk
        rw [hf res _ (by omega), hf res _ (by omega), wrD_apply, wrD_apply]
        rw [if_neg (by omega), if_pos ⟨rfl, rfl⟩, if_pos ⟨rfl, rfl⟩]
        exact ⟨rfl, rfl⟩
      · have := h1 t ht1 (by omega)
        have e : dblV B (wrD B s res (k + 1) (dblV B s res (k + 1))) res t = dblV B s res t := by
          simp only [dblV, rdD, rd, wrD_apply]
          rw [if_neg (by omega), if_neg (by omega), if_neg (by omega), if_neg (by omega),
            if_neg (by omega), if_neg (by omega), if_neg (by omega), if_neg (by omega)]
        rw [e] at this
        exact this
    · intro o x h
      rw [hf o x (by omega), wrD_apply, if_neg, if_neg]
      · rintro ⟨rfl, rfl⟩; omega
      · rintro ⟨rfl, rfl⟩; omega

theorem wordsOf_dblUpper (B res : Nat) (f s : Store) : ∀ k i, 1 ≤ i →
    (∀ t, i ≤ t → t < i + k → f res (2 * t) = dblV B s res t % B ∧ f res (2 * t + 1) = dblV B s res t / B) →
    slice f res (2 * i) (2 * k) = wordsOf B (dblUpper (B * B) (rdD B s res (i - 1)) (dsl B s res i k))
  | 0, i, _, _ => rfl
  | k + 1, i, hi, h => by
    rw [show 2 * (k + 1) = 2 * k + 1 + 1 by omega, slice_succ, slice_succ, dsl, dblUpper, wordsOf,
      (h i (by omega) (by omega)).1, (h i (by omega) (by omega)).2,
      show 2 * i + 1 + 1 = 2 * (i + 1) by omega,
      wordsOf_dblUpper B res f s k (i + 1) (by omega) (fun t h1 h2 => h t (by omega) (by omega))]
    rfl

theorem sqrDiagFrom_spec (B : Nat) {res a : Nat} (ha : a ≠ res) : ∀ k i c s,
    (sqrDiagFrom B res a i k c s).2 = (sqrDiag B (slice s a i k) (slice s res (2 * i) (2 * k)) c).2 ∧
    slice (sqrDiagFrom B res a i k c s).1 res (2 * i) (2 * k)
      = (sqrDiag B (slice s a i k) (slice s res (2 * i) (2 * k)) c).1 ∧
    ∀ o x, (o ≠ res ∨ x < 2 * i ∨ 2 * i + 2 * k ≤ x) → (sqrDiagFrom B res a i k c s).1 o x = s o x
  | 0, i, c, s => by simp [sqrDiagFrom, sqrDiag]
  | k + 1, i, c, s => by
    rw [show 2 * (k + 1) = 2 * k + 1 + 1 by omega]
    simp only [sqrDiagFrom, slice_succ, sqrDiag, List.headD_cons, List.tail_cons, rd]
    rw [wr_ne_idx s res _ res (show 2 * i + 1 ≠ 2 * i by omega)]
    generalize hnw : s a i * s a i + s res (2 * i) + c = nw
    generalize hnw2 : s res (2 * i + 1) + nw / B = nw2
    obtain ⟨h2, h1, hf⟩ := sqrDiagFrom_spec B ha k (i + 1) (nw2 / B)
      (wr (wr s res (2 * i) (nw % B)) res (2 * i + 1) (nw2 % B))
    rw [slice_wr_ne _ _ _ _ _ ha, slice_wr_ne _ _ _ _ _ ha, show 2 * (i + 1) = 2 * i + 1 + 1 by omega,
      slice_wr_gt _ _ _ _ _ _ (by omega), slice_wr_gt _ _ _ _ _ _ (by omega)] at h1 h2
    refine ⟨h2, ?_, ?_⟩
    · rw [h1, hf res (2 * i) (by omega), hf res (2 * i + 1) (by omega), wr_same,
        wr_ne_idx _ res _ res (show 2 * i ≠ 2 * i + 1 by omega), wr_same]
    · intro o x h
      rw [hf o x (by omega), wr_other, wr_other]
      · rintro ⟨rfl, rfl⟩; omega
      · rintro ⟨rfl, rfl⟩; omega

/-- the doubling stage of `square` on a `2n`-word object -/
def sqrDblStage (B n res : Nat) (s1 : Store) : Store :=
  let m := 2 * n
  let s2 := wr s1 res (m - 1) (rd s1 res (m - 2) / (B / 2))
  let s3 := wr s2 res (m - 2) (((rd s2 res (m - 2) * 2) % B) ||| (rd s2 res (m - 3) / (B / 2)))
  let s4 := sqrDblFrom B res (n - 2) s3
  wrD B s4 res 0 ((rdD B s4 res 0 * 2) % (B * B))

theorem sqr_eq (B n res a : Nat) (s : Store) : sqr B n res a s =
    (sqrDiagFrom B res a 0 n 0 (sqrDblStage B n res (sqrRowsFrom B res a 1 (n - 1) (wrDz s res 0 0)))).1 := rfl

theorem sqrDblStage_spec (B res m : Nat) (s1 : Store) :
    obj (sqrDblStage B (m + 2) res s1) res (2 * (m + 2)) = sqrDouble B (obj s1 res (2 * (m + 2))) ∧
    ∀ o x, o ≠ res → sqrDblStage B (m + 2) res s1 o x = s1 o x := by
  simp only [sqrDblStage, rd, show 2 * (m + 2) - 1 = 2 * m + 3 by omega, show 2 * (m + 2) - 2 = 2 * m + 2 by omega,
    show 2 * (m + 2) - 3 = 2 * m + 1 by omega, Nat.add_sub_cancel]
  rw [wr_ne_idx s1 res _ res (show 2 * m + 2 ≠ 2 * m + 3 by omega),
    wr_ne_idx s1 res _ res (show 2 * m + 1 ≠ 2 * m + 3 by omega)]
  generalize hs3 : wr (wr s1 res (2 * m + 3) (s1 res (2 * m + 2) / (B / 2))) res (2 * m + 2)
    (((s1 res (2 * m + 2) * 2) % B) ||| (s1 res (2 * m + 1) / (B / 2))) = s3
  have f3 : ∀ o x, (o ≠ res ∨ x < 2 * m + 2) → s3 o x = s1 o x := by
    intro o x h
    rw [← hs3, wr_other, wr_other]
    · rintro ⟨rfl, rfl⟩; omega
    · rintro ⟨rfl, rfl⟩; omega
  have t0 : s3 res (2 * m + 2) = ((s1 res (2 * m + 2) * 2) % B) ||| (s1 res (2 * m + 1) / (B / 2)) := by
    rw [← hs3, wr_same]
  have t1 : s3 res (2 * m + 3) = s1 res (2 * m + 2) / (B / 2) := by
    rw [← hs3, wr_ne_idx _ res _ res (show 2 * m + 3 ≠ 2 * m + 2 by omega), wr_same]
  obtain ⟨d1, df⟩ := sqrDblFrom_spec B res m s3
  generalize sqrDblFrom B res m s3 = s4 at *
  have e0 : rdD B s4 res 0 = rdD B s1 res 0 := by
    simp only [rdD, rd]
    rw [df res _ (by omega), df res _ (by omega), f3 res _ (by omega), f3 res _ (by omega)]
  rw [e0]
  generalize hX : (rdD B s1 res 0 * 2) % (B * B) = X
  constructor
  · have p0 : slice (wrD B s4 res 0 X) res 0 2 = [X % B, X / B] := by
      rw [slice_succ, slice_succ, slice_zero, wrD_apply, wrD_apply]
      rw [if_neg (by omega), if_pos ⟨rfl, by omega⟩, if_pos ⟨rfl, by omega⟩]
    have p1 : slice (wrD B s4 res 0 X) res (0 + 2) (2 * m) =
        wordsOf B (dblUpper (B * B) (rdD B s1 res 0) (dsl B s1 res 1 m)) := by
      have : slice (wrD B s4 res 0 X) res (0 + 2) (2 * m) = slice s4 res (2 * 1) (2 * m) :=
        slice_congr _ _ (fun x h1 _ => by rw [wrD_apply, if_neg (by omega), if_neg (by omega)])
      rw [this, wordsOf_dblUpper B res s4 s3 m 1 (by omega) (fun t h1 h2 => d1 t h1 (by omega))]
      have e1 : rdD B s3 res (1 - 1) = rdD B s1 res 0 := by
        simp only [rdD, rd]; rw [f3 res _ (by omega), f3 res _ (by omega)]
      rw [e1, dsl_congr B m 1 (fun x _ h2 => f3 res x (by omega))]
    have p2 : slice (wrD B s4 res 0 X) res (0 + 2 + 2 * m) 2 =
        [((s1 res (2 * m + 2) * 2) % B) ||| (s1 res (2 * m + 1) / (B / 2)), s1 res (2 * m + 2) / (B / 2)] := by
      rw [slice_succ, slice_succ, slice_zero, wrD_apply, wrD_apply]
      rw [if_neg (by omega), if_neg (by omega), if_neg (by omega), if_neg (by omega),
        show 0 + 2 + 2 * m = 2 * m + 2 by omega, df res _ (by omega), df res _ (by omega), t0, t1]
    have L : obj (wrD B s4 res 0 X) res (2 * (m + 2)) = [X % B, X / B] ++
        (wordsOf B (dblUpper (B * B) (rdD B s1 res 0) (dsl B s1 res 1 m)) ++
          [((s1 res (2 * m + 2) * 2) % B) ||| (s1 res (2 * m + 1) / (B / 2)), s1 res (2 * m + 2) / (B / 2)]) := by
      rw [obj, show 2 * (m + 2) = 2 + (2 * m + 2) by omega, slice_append, slice_append, p0, p1, p2]
    have Rr : sqrDouble B (obj s1 res (2 * (m + 2))) = [X % B, X / B] ++
        (wordsOf B (dblUpper (B * B) (rdD B s1 res 0) (dsl B s1 res 1 m)) ++
          [((s1 res (2 * m + 2) * 2) % B) ||| (s1 res (2 * m + 1) / (B / 2)), s1 res (2 * m + 2) / (B / 2)]) := by
      simp only [sqrDouble, obj_length, show 2 * (m + 2) - 2 = 2 * m + 2 by omega,
        show 2 * (m + 2) - 3 = 2 * m + 1 by omega]
      rw [obj_getD _ _ _ _ (by omega), obj_getD _ _ _ _ (by omega), obj, slice_take _ _ _ _ _ (by omega)]
      have : dwordsOf B (slice s1 res 0 (2 * m + 2)) = dsl B s1 res 0 (m + 1) :=
        dwordsOf_slice B s1 res (m + 1) 0
      rw [this, dsl, dblDwords, wordsOf, hX]
      simp
    rw [L, Rr]
  · intro o x h
    rw [wrD_apply, if_neg (fun g => h g.1), if_neg (fun g => h g.1), df o x (Or.inl h), f3 o x (Or.inl h)]

/-- `this->square(a)` (`a` `__restrict`: a different object): the `2n` limbs of the pure model. -/
theorem sqr_spec (B n : Nat) {res a : Nat} (hn : 2 ≤ n) (ha : a ≠ res) (s : Store) :
    obj (sqr B n res a s) res (2 * n) = sqrLoop B (obj s a n) ∧
    ∀ o x, o ≠ res → sqr B n res a s o x = s o x := by
  obtain ⟨m, rfl⟩ : ∃ m, n = m + 2 := ⟨n - 2, by omega⟩
  rw [sqr_eq]
  have f0 : ∀ o x, o ≠ res → wrDz s res 0 0 o x = s o x := fun o x h => by
    rw [wrDz_apply, if_neg (fun g => h g.1), if_neg (fun g => h g.1)]
  obtain ⟨r1, rf⟩ := sqrRowsFrom_spec B ha (m + 1) 1 (wrDz s res 0 0)
  have e0 : obj (wrDz s res 0 0) res (2 * 1) = [0, 0] := by
    rw [obj, slice_succ, slice_succ, slice_zero, wrDz_apply, wrDz_apply]
    rw [if_neg (by omega), if_pos ⟨rfl, by omega⟩, if_pos ⟨rfl, by omega⟩]
  have e1 : slice (wrDz s res 0 0) a 0 1 = [s a 0] := by
    simp only [slice_succ, slice_zero]; rw [f0 a 0 ha]
  have e2 : slice (wrDz s res 0 0) a 1 (m + 1) = slice s a 1 (m + 1) :=
    slice_congr _ _ (fun x _ _ => f0 a x ha)
  rw [e0, e1, e2, show 1 + (m + 1) = m + 2 by omega] at r1
  rw [show m + 2 - 1 = m + 1 by omega]
  generalize sqrRowsFrom B res a 1 (m + 1) (wrDz s res 0 0) = s1 at *
  obtain ⟨g1, gf⟩ := sqrDblStage_spec B res m s1
  rw [r1] at g1
  generalize sqrDblStage B (m + 2) res s1 = s5 at *
  obtain ⟨_, h1, hf⟩ := sqrDiagFrom_spec B ha (m + 2) 0 0 s5
  have ea : slice s5 a 0 (m + 2) = obj s a (m + 2) :=
    slice_congr _ _ (fun x _ _ => by rw [gf a x ha, rf a x ha, f0 a x ha])
  constructor
  · rw [ea] at h1
    rw [obj, show (0 : Nat) = 2 * 0 from rfl, h1, show 2 * 0 = 0 from rfl, ← obj, g1]
    show _ = sqrLoop B (s a 0 :: slice s a (0 + 1) (m + 1))
    simp only [sqrLoop, obj, slice_succ]
  · intro o x h
    rw [hf o x (Or.inl h), gf o x h, rf o x h, f0 o x h]

/-! ### `FpBase::square`, `Fp::set`, `Fp::into_montgomery_form` -/

/-- `this->square(a, p, inv)` with a local `tmp`: `this == &a` or not. -/
theorem fpSqr_spec (B n inv : Nat) {res a p tmp : Nat} (hn : 2 ≤ n) (h1 : tmp ≠ res) (h2 : a ≠ tmp) (h4 : p ≠ tmp)
    (s : Store) :
    obj (fpSqr B n res a p inv tmp s) res n = Impl.fpSqr B n (obj s a n) (obj s p n) inv ∧
    ∀ o x, o ≠ res → o ≠ tmp → fpSqr B n res a p inv tmp s o x = s o x := by
  unfold fpSqr Impl.fpSqr
  obtain ⟨m1, mf⟩ := sqr_spec B n hn h2 s
  obtain ⟨r1, rf⟩ := montReduce_spec B n inv (by omega) h1 h4 (sqr B n tmp a s)
  constructor
  · rw [r1, m1, obj_congr n (fun j => mf p j h4)]
  · intro o x g1 g2
    rw [rf o x g1 g2, mf o x g2]

/-- `Fp::set(integer)` (`x` = `integer`). -/
theorem fpSet_spec (B n inv : Nat) {res x r2 p tmp : Nat} (hn : 0 < n) (h1 : tmp ≠ res) (h2 : x ≠ tmp) (h3 : r2 ≠ tmp)
    (h4 : p ≠ tmp) (s : Store) :
    obj (fpSet B n res x r2 p inv tmp s) res n = Impl.fpSet B n (obj s x n) (obj s r2 n) (obj s p n) inv :=
  (fpMul_spec B n inv hn h1 h2 h3 h4 s).1

/-- `Fp::into_montgomery_form()`: `multiply(*this, r2)` in place. -/
theorem fpIntoMont_spec (B n inv : Nat) {res r2 p tmp : Nat} (hn : 0 < n) (h1 : tmp ≠ res) (h3 : r2 ≠ tmp)
    (h4 : p ≠ tmp) (s : Store) :
    obj (fpIntoMont B n res r2 p inv tmp s) res n = Impl.fpSet B n (obj s res n) (obj s r2 n) (obj s p n) inv :=
  (fpMul_spec B n inv hn h1 (Ne.symm h1) h3 h4 s).1

/-! ### Sanity: the model distinguishes aliased from distinct calls where the C++ does

Base 16, three limbs; object 1 = `a`, 2 = `b`, 0 = a separate output; uninitialised words hold 10. -/

/-- `add` with `this == &b` (excluded by `__restrict`): the carry is recovered from the overwritten `b[i]` and lost. -/
example : obj (add 16 3 2 1 2 (put (put (fill 10) 1 [15, 15, 3]) 2 [1, 0, 12])).1 2 3 = [0, 15, 15] ∧
    (addLoop 16 [15, 15, 3] [1, 0, 12] 0).1 = [0, 0, 0] := by decide

/-- … while `this == &a` is fine (instance of `add_spec`). -/
example : obj (add 16 3 1 1 2 (put (put (fill 10) 1 [15, 15, 3]) 2 [1, 0, 12])).1 1 3 = [0, 0, 0] := by decide

/-- F8 regression: the loops of `shift_left` / `shift_right` as they were BEFORE the fix give a different result in
place (shift by 5 bits = one 4-bit word + 1), whereas the fixed code gives the same (`shiftLeft_spec`). -/
example :
    obj (shiftLeftPreF8 4 3 1 1 5 (put (fill 10) 1 [7, 9, 3])) 1 3 = [0, 14, 12] ∧
    obj (shiftLeftPreF8 4 3 0 1 5 (put (fill 10) 1 [7, 9, 3])) 0 3 = [0, 14, 2] ∧
    obj (shiftLeft 4 3 1 1 5 (put (fill 10) 1 [7, 9, 3])).1 1 3 = [0, 14, 2] ∧
    (shiftLeftF 4 [7, 9, 3] 5).1 = [0, 14, 2] := by decide

example :
    obj (shiftRightPreF8 4 3 1 1 5 (put (fill 10) 1 [1, 2, 3])) 1 3 = [8, 1, 0] ∧
    obj (shiftRightPreF8 4 3 0 1 5 (put (fill 10) 1 [1, 2, 3])) 0 3 = [9, 1, 0] ∧
    obj (shiftRight 4 3 1 1 5 (put (fill 10) 1 [1, 2, 3])).1 1 3 = [9, 1, 0] ∧
    (shiftRightF 4 [1, 2, 3] 5).1 = [9, 1, 0] := by decide

/-- in-place Montgomery multiplication modulo 4093 = [13,15,15] (inv = 11), `this == &a == &b`, `tmp` = object 5 -/
example : obj (fpMul 16 3 1 1 1 3 11 5 (put (put (fill 10) 1 [5, 11, 5]) 3 [13, 15, 15])) 1 3
    = Impl.fpMul 16 3 [5, 11, 5] [5, 11, 5] [13, 15, 15] 11 := by decide

/-! ### What the general shifts compute (value level; there is no statement about them in C02)

Word width `w > 0`, `B = 2^w`, `a` well-formed with `n` words: `shiftRightF` is `⌊a / 2^amt⌋` and `shiftLeftF` is
`a · 2^amt mod B^n`, for EVERY `amt` — hence, with `shiftRight_spec` / `shiftLeft_spec`, so are the C++ loops, in place or
not. -/

theorem getD_of_ge (l : List Nat) (i : Nat) (h : l.length ≤ i) : l.getD i 0 = 0 := by
  simp [List.getD_eq_getElem?_getD, List.getElem?_eq_none h]

theorem getD_of_lt (l : List Nat) (i : Nat) (h : i < l.length) : l.getD i 0 = l[i] := by
  simp [List.getD_eq_getElem?_getD, h]

theorem val_testBit {w : Nat} (hw : 0 < w) : ∀ (l : List Nat), WF (2 ^ w) l → ∀ i,
    (val (2 ^ w) l).testBit i = (l.getD (i / w) 0).testBit (i % w)
  | [], _, i => by simp
  | x :: xs, h, i => by
    have hx := (WF_cons.1 h).1
    have hxs := (WF_cons.1 h).2
    rw [val_cons, Nat.add_comm, Nat.testBit_two_pow_mul_add _ hx]
    by_cases hi : i < w
    · rw [if_pos hi, Nat.div_eq_of_lt hi, Nat.mod_eq_of_lt hi]; rfl
    · have hi' : w ≤ i := Nat.le_of_not_lt hi
      have h1 : i / w = (i - w) / w + 1 := Nat.div_eq_sub_div hw hi'
      have h2 : i % w = (i - w) % w := Nat.mod_eq_sub_mod hi'
      rw [if_neg hi, val_testBit hw xs hxs (i - w), h1, h2, List.getD_cons_succ]

theorem getD_map_range (g : Nat → Nat) (n j : Nat) :
    ((List.range n).map g).getD j 0 = if j < n then g j else 0 := by
  by_cases h : j < n
  · rw [if_pos h, getD_of_lt _ _ (by simpa using h)]; simp
  · rw [if_neg h, getD_of_ge _ _ (by simpa using h)]

theorem WF_map_range {B : Nat} (g : Nat → Nat) (n : Nat) (h : ∀ j, j < n → g j < B) : WF B ((List.range n).map g) := by
  intro x hx
  obtain ⟨j, hj, rfl⟩ := List.mem_map.1 hx
  exact h j (List.mem_range.1 hj)

theorem getD_lt_of_WF {B : Nat} (hB : 0 < B) {l : List Nat} (h : WF B l) (i : Nat) : l.getD i 0 < B := by
  by_cases hi : i < l.length
  · rw [getD_of_lt _ _ hi]; exact h _ (List.getElem_mem hi)
  · rw [getD_of_ge _ _ (by omega)]; exact hB

theorem shlw_testBit (w x t k : Nat) : (shlw w x t).testBit k = (decide (k < w) && (decide (t ≤ k) && x.testBit (k - t))) := by
  rw [shlw, Nat.testBit_mod_two_pow, Nat.testBit_mul_two_pow]

theorem shlw_lt (w x t : Nat) : shlw w x t < 2 ^ w := Nat.mod_lt _ (Nat.pos_of_ne_zero (by simp))

theorem shrWord_testBit {w n wo bo : Nat} {f : Nat → Nat} (hbo : bo < w) (hf : ∀ i, f i < 2 ^ w) (hn : f n = 0)
    {j k : Nat} (hk : k < w) :
    (shrWord w n wo bo f j).testBit k =
      if bo + k < w then (f (j + wo)).testBit (k + bo) else (f (j + wo + 1)).testBit (bo + k - w) := by
  rw [shrWord, Nat.testBit_or, Nat.testBit_div_two_pow]
  have hX : (if j + wo + 1 ≠ n then shlw w (shlw w (f (j + wo + 1)) (w - bo - 1)) 1 else 0).testBit k
      = (decide (w ≤ bo + k) && (f (j + wo + 1)).testBit (bo + k - w)) := by
    by_cases h : j + wo + 1 ≠ n
    · rw [if_pos h, shlw_testBit, shlw_testBit]
      by_cases h1 : w ≤ bo + k
      · have e : k - 1 - (w - bo - 1) = bo + k - w := by omega
        simp [hk, h1, e, show 1 ≤ k by omega, show k - 1 < w by omega, show w - bo - 1 ≤ k - 1 by omega]
      · have : ¬ (1 ≤ k ∧ w - bo - 1 ≤ k - 1) := by omega
        by_cases h2 : 1 ≤ k
        · simp [hk, h1, h2, show ¬ (w - bo - 1 ≤ k - 1) by omega]
        · simp [hk, h1, h2]
    · rw [if_neg h, Nat.zero_testBit]
      have : j + wo + 1 = n := by omega
      rw [this, hn, Nat.zero_testBit]; simp
  rw [hX]
  by_cases h1 : bo + k < w
  · simp [h1, show ¬ (w ≤ bo + k) by omega]
  · have hlt : f (j + wo) < 2 ^ (k + bo) :=
      Nat.lt_of_lt_of_le (hf _) (Nat.pow_le_pow_right (by omega) (by omega : w ≤ k + bo))
    rw [if_neg h1, Nat.testBit_lt_two_pow hlt]
    simp [show w ≤ bo + k by omega]

/-- `shiftRightF` is the integer shift: `⌊a / 2^amt⌋` (and the limbs are well-formed). -/
theorem shiftRightF_val {w : Nat} (hw : 0 < w) {a : List Nat} (ha : WF (2 ^ w) a) (amt : Nat) :
    WF (2 ^ w) (shiftRightF w a amt).1 ∧ (shiftRightF w a amt).1.length = a.length ∧
    val (2 ^ w) (shiftRightF w a amt).1 = val (2 ^ w) a / 2 ^ amt := by
  have hB : 0 < 2 ^ w := Nat.pos_of_ne_zero (by simp)
  have hf : ∀ i, a.getD i 0 < 2 ^ w := getD_lt_of_WF hB ha
  have hbo : amt % w < w := Nat.mod_lt _ hw
  have hwf : WF (2 ^ w) (shiftRightF w a amt).1 := by
    apply WF_map_range
    intro j _
    by_cases h : a.length ≤ j + amt / w
    · rw [if_pos h]; exact hB
    · rw [if_neg h, shrWord]
      apply Nat.or_lt_two_pow
      · by_cases h' : j + amt / w + 1 ≠ a.length
        · rw [if_pos h']; exact shlw_lt _ _ _
        · rw [if_neg h']; exact hB
      · exact Nat.lt_of_le_of_lt (Nat.div_le_self _ _) (hf _)
  refine ⟨hwf, by simp [shiftRightF], ?_⟩
  apply Nat.eq_of_testBit_eq
  intro i
  rw [val_testBit hw _ hwf, Nat.testBit_div_two_pow, val_testBit hw _ ha]
  simp only [shiftRightF]
  rw [getD_map_range]
  generalize hwo : amt / w = wo
  generalize hbo' : amt % w = bo at hbo
  have hamt : amt = w * wo + bo := by rw [← hwo, ← hbo', Nat.div_add_mod]
  generalize hj : i / w = j
  generalize hk : i % w = k
  have hkw : k < w := by rw [← hk]; exact Nat.mod_lt _ hw
  have hi : i = w * j + k := by rw [← hj, ← hk, Nat.div_add_mod]
  have hnz : a.getD a.length 0 = 0 := getD_of_ge _ _ (by omega)
  by_cases hlow : bo + k < w
  · have e1 : (i + amt) / w = j + wo := by
      rw [hi, hamt, show w * j + k + (w * wo + bo) = bo + k + w * (j + wo) by rw [Nat.mul_add]; omega,
        Nat.add_mul_div_left _ _ hw, Nat.div_eq_of_lt hlow, Nat.zero_add]
    have e2 : (i + amt) % w = k + bo := by
      rw [hi, hamt, show w * j + k + (w * wo + bo) = bo + k + w * (j + wo) by rw [Nat.mul_add]; omega,
        Nat.add_mul_mod_self_left, Nat.mod_eq_of_lt hlow, Nat.add_comm]
    rw [e1, e2]
    by_cases h1 : j < a.length
    · rw [if_pos h1]
      by_cases h2 : a.length ≤ j + wo
      · rw [if_pos h2, Nat.zero_testBit, getD_of_ge _ _ h2, Nat.zero_testBit]
      · rw [if_neg h2, shrWord_testBit hbo hf hnz hkw, if_pos hlow]
    · rw [if_neg h1, Nat.zero_testBit, getD_of_ge _ _ (by omega), Nat.zero_testBit]
  · have e1 : (i + amt) / w = j + wo + 1 := by
      rw [hi, hamt, show w * j + k + (w * wo + bo) = (bo + k - w) + w * (j + wo + 1) by
        rw [Nat.mul_add, Nat.mul_add, Nat.mul_one]; omega,
        Nat.add_mul_div_left _ _ hw, Nat.div_eq_of_lt (by omega), Nat.zero_add]
    have e2 : (i + amt) % w = bo + k - w := by
      rw [hi, hamt, show w * j + k + (w * wo + bo) = (bo + k - w) + w * (j + wo + 1) by
        rw [Nat.mul_add, Nat.mul_add, Nat.mul_one]; omega,
        Nat.add_mul_mod_self_left, Nat.mod_eq_of_lt (by omega)]
    rw [e1, e2]
    by_cases h1 : j < a.length
    · rw [if_pos h1]
      by_cases h2 : a.length ≤ j + wo
      · rw [if_pos h2, Nat.zero_testBit, getD_of_ge _ _ (by omega), Nat.zero_testBit]
      · rw [if_neg h2, shrWord_testBit hbo hf hnz hkw, if_neg hlow]
    · rw [if_neg h1, Nat.zero_testBit, getD_of_ge _ _ (by omega), Nat.zero_testBit]


theorem shlWord_testBit {w bo : Nat} {f : Nat → Nat} (hbo : bo < w) (hf : ∀ i, f i < 2 ^ w) {t k : Nat} (hk : k < w) :
    (shlWord w bo f t).testBit k =
      if bo ≤ k then (f t).testBit (k - bo) else (decide (t ≠ 0) && (f (t - 1)).testBit (k + w - bo)) := by
  rw [shlWord, Nat.testBit_or, shlw_testBit]
  have hY : (if t ≠ 0 then f (t - 1) / 2 ^ (w - bo - 1) / 2 else 0).testBit k
      = (decide (t ≠ 0) && (f (t - 1)).testBit (k + w - bo)) := by
    by_cases h : t ≠ 0
    · rw [if_pos h, Nat.testBit_div_two, Nat.testBit_div_two_pow, show k + 1 + (w - bo - 1) = k + w - bo by omega]
      simp [h]
    · rw [if_neg h, Nat.zero_testBit]; simp [h]
  rw [hY]
  by_cases h1 : bo ≤ k
  · have hlt : f (t - 1) < 2 ^ (k + w - bo) :=
      Nat.lt_of_lt_of_le (hf _) (Nat.pow_le_pow_right (by omega) (by omega : w ≤ k + w - bo))
    rw [if_pos h1, Nat.testBit_lt_two_pow hlt]
    simp [hk, h1]
  · rw [if_neg h1]
    simp [h1]

/-- `shiftLeftF` is the integer shift modulo the width: `a · 2^amt mod B^n` (and the limbs are well-formed). -/
theorem shiftLeftF_val {w : Nat} (hw : 0 < w) {a : List Nat} (ha : WF (2 ^ w) a) (amt : Nat) :
    WF (2 ^ w) (shiftLeftF w a amt).1 ∧ (shiftLeftF w a amt).1.length = a.length ∧
    val (2 ^ w) (shiftLeftF w a amt).1 = (val (2 ^ w) a * 2 ^ amt) % (2 ^ w) ^ a.length := by
  have hB : 0 < 2 ^ w := Nat.pos_of_ne_zero (by simp)
  have hf : ∀ i, a.getD i 0 < 2 ^ w := getD_lt_of_WF hB ha
  have hbo : amt % w < w := Nat.mod_lt _ hw
  have hwf : WF (2 ^ w) (shiftLeftF w a amt).1 := by
    apply WF_map_range
    intro j _
    by_cases h : j < amt / w
    · rw [if_pos h]; exact hB
    · rw [if_neg h, shlWord]
      apply Nat.or_lt_two_pow (shlw_lt _ _ _)
      by_cases h' : j - amt / w ≠ 0
      · rw [if_pos h']
        exact Nat.lt_of_le_of_lt (Nat.div_le_self _ _) (Nat.lt_of_le_of_lt (Nat.div_le_self _ _) (hf _))
      · rw [if_neg h']; exact hB
  refine ⟨hwf, by simp [shiftLeftF], ?_⟩
  apply Nat.eq_of_testBit_eq
  intro i
  rw [val_testBit hw _ hwf, ← Nat.pow_mul, Nat.testBit_mod_two_pow, Nat.testBit_mul_two_pow, val_testBit hw _ ha]
  simp only [shiftLeftF]
  rw [getD_map_range]
  generalize hwo : amt / w = wo
  generalize hbo' : amt % w = bo at hbo
  have hamt : amt = w * wo + bo := by rw [← hwo, ← hbo', Nat.div_add_mod]
  generalize hj : i / w = j
  generalize hk : i % w = k
  have hkw : k < w := by rw [← hk]; exact Nat.mod_lt _ hw
  have hi : i = w * j + k := by rw [← hj, ← hk, Nat.div_add_mod]
  generalize hn : a.length = n
  by_cases h1 : j < n
  · obtain ⟨e, rfl⟩ : ∃ e, n = j + 1 + e := ⟨n - j - 1, by omega⟩
    have hin : i < w * (j + 1 + e) := by rw [hi, Nat.mul_add, Nat.mul_add, Nat.mul_one]; omega
    rw [if_pos h1]
    by_cases h2 : j < wo
    · obtain ⟨d, rfl⟩ : ∃ d, wo = j + 1 + d := ⟨wo - j - 1, by omega⟩
      have : ¬ amt ≤ i := by rw [hi, hamt, Nat.mul_add, Nat.mul_add, Nat.mul_one]; omega
      rw [if_pos h2, Nat.zero_testBit]; simp [this]
    · obtain ⟨t, rfl⟩ : ∃ t, j = wo + t := ⟨j - wo, by omega⟩
      rw [if_neg h2, Nat.add_sub_cancel_left, shlWord_testBit hbo hf hkw]
      by_cases h3 : bo ≤ k
      · have hle : amt ≤ i := by rw [hi, hamt, Nat.mul_add]; omega
        have hsub : i - amt = w * t + (k - bo) := by rw [hi, hamt, Nat.mul_add]; omega
        rw [if_pos h3, hsub, Nat.mul_add_div hw, Nat.mul_add_mod, Nat.div_eq_of_lt (by omega), Nat.mod_eq_of_lt (by omega)]
        simp [hin, hle]
      · rw [if_neg h3]
        by_cases h4 : t = 0
        · have hz : w * t = 0 := by rw [h4]; rfl
          have : ¬ amt ≤ i := by rw [hi, hamt, Nat.mul_add, hz]; omega
          simp [this, h4]
        · obtain ⟨t, rfl⟩ : ∃ t', t = t' + 1 := ⟨t - 1, by omega⟩
          have hle : amt ≤ i := by rw [hi, hamt, Nat.mul_add, Nat.mul_add, Nat.mul_one]; omega
          have hsub : i - amt = w * t + (k + w - bo) := by
            rw [hi, hamt, Nat.mul_add, Nat.mul_add, Nat.mul_one]; omega
          rw [hsub, Nat.mul_add_div hw, Nat.mul_add_mod, Nat.div_eq_of_lt (by omega), Nat.mod_eq_of_lt (by omega)]
          simp [hin, hle]
  · obtain ⟨e, rfl⟩ : ∃ e, j = n + e := ⟨j - n, by omega⟩
    have : ¬ i < w * n := by rw [hi, Nat.mul_add]; omega
    rw [if_neg h1, Nat.zero_testBit]; simp [this]

end Jedi.Impl.Mem
