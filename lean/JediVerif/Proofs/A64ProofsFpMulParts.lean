/-
The fused `fpbase_384_multiply` of /repo/src/core/arch/aarch64/multiply.s (as regenerated into
`JediVerif/Gen/AsmA64.lean`, executed by the machine model of `JediVerif/Impl/A64.lean`): the full product in registers
(macro equations of `A64ProofsMul.lean`), the six Montgomery rounds and the twelve endings of the final comparison
(lemmas of `A64ProofsMont.lean`).  For every entry state satisfying AAPCS64, `inv·P ≡ −1 (mod 2^64)`, `2P ≤ 2^384` and
product `< P·2^384` the six result limbs are `< P` and `≡ product·2^{-384} (mod P)`.  `p` and `inv` are parked on the
stack during the multiplication.  All loads precede all stores: `res` may overlap the operands and `p` in any way.
This file: the symbolic execution of the common prefix (up to the first `cmp`), cut into pieces, and the arithmetic on
the named intermediates; the endings and the final theorem are in `A64ProofsFpMul.lean`.
-/
import JediVerif.Proofs.A64ProofsMont

set_option linter.unusedSimpArgs false

namespace Jedi.A64
open Lean Meta Simp
open Jedi.Impl (val WF val_cons val_nil val_lt val_inj)
open Jedi.X86 (limbs limbs_six limbs_twelve limbs_length limbs_WF Hide Hide.mk Hide.out ea_toNat)
open Jedi.Gen.AsmA64

/-! ## symbolic execution, cut into pieces -/

set_option maxHeartbeats 1600000 in
theorem fpmul_part0 (s : State) (pr pa pb pp inv : Word)
    (hr : Buf s pr 6 true) (ha : Buf s pa 6 false) (hb : Buf s pb 6 false) (hp : Buf s pp 6 false)
    (hstk : Stack s 6) (hrs : OffStack s 6 pr 6) (has : OffStack s 6 pa 6) (hbs : OffStack s 6 pb 6)
    (hps : OffStack s 6 pp 6) {a0 a1 a2 a3 a4 a5 b0 b1 b2 b3 b4 b5 h13 h16 h19 h22 h25 h28 l14 l15 l18 l21 l24 l27 : Word} {t12 t17 t20 t23 t26 t29 t30 : ArithRes}
    (hst : s.status = .running) (hpc : s.pc = 0) (h0 : s.x0 = pr) (h1 : s.x1 = pa) (h2 : s.x2 = pb) (h3 : s.x3 = pp)
    (h4 : s.x4 = inv) (ha0 : a0 = s.mem pa.toNat) (ha1 : a1 = s.mem (pa.toNat + 8)) (ha2 : a2 = s.mem (pa.toNat + 16))
    (ha3 : a3 = s.mem (pa.toNat + 24)) (ha4 : a4 = s.mem (pa.toNat + 32)) (ha5 : a5 = s.mem (pa.toNat + 40))
    (hb0 : b0 = s.mem pb.toNat) (hb1 : b1 = s.mem (pb.toNat + 8)) (hb2 : b2 = s.mem (pb.toNat + 16))
    (hb3 : b3 = s.mem (pb.toNat + 24)) (hb4 : b4 = s.mem (pb.toNat + 32)) (hb5 : b5 = s.mem (pb.toNat + 40))
    (ht12 : t12 = addWithCarry (0 : Word) (0 : Word) false) (hh13 : h13 = mulHi a0 b0) (hl14 : l14 = mulLo a0 b0)
    (hl15 : l15 = mulLo a0 b1) (hh16 : h16 = mulHi a0 b1) (ht17 : t17 = addWithCarry l15 h13 t12.c)
    (hl18 : l18 = mulLo a0 b2) (hh19 : h19 = mulHi a0 b2) (ht20 : t20 = addWithCarry l18 h16 t17.c)
    (hl21 : l21 = mulLo a0 b3) (hh22 : h22 = mulHi a0 b3) (ht23 : t23 = addWithCarry l21 h19 t20.c)
    (hl24 : l24 = mulLo a0 b4) (hh25 : h25 = mulHi a0 b4) (ht26 : t26 = addWithCarry l24 h22 t23.c)
    (hl27 : l27 = mulLo a0 b5) (hh28 : h28 = mulHi a0 b5) (ht29 : t29 = addWithCarry l27 h25 t26.c)
    (ht30 : t30 = addWithCarry h28 (0 : Word) t29.c) :
    run embedded_pairing_core_arch_aarch64_fpbase_384_multiply s 31
      = ({ x0 := pr, x1 := l14, x2 := a0, x3 := a1, x4 := a2, x5 := a3, x6 := a4, x7 := a5, x8 := s.x8, x9 := b0, x10 := b1, x11 := b2, x12 := b3, x13 := b4, x14 := b5, x15 := t17.val, x16 := s.x16, x17 := s.x17, x18 := s.x18, x19 := t20.val, x20 := t23.val, x21 := t26.val, x22 := t29.val, x23 := t30.val, x24 := s.x24, x25 := s.x25, x26 := s.x26, x27 := s.x27, x28 := h25, x29 := s.x29, x30 := s.x30, sp := s.sp - 16#64 - 16#64 - 16#64 - 16#64 - 16#64 - 16#64, nf := some t30.n, zf := some t30.z, cf := some t30.c, vf := some t30.v, mem := setMem (setMem (setMem (setMem (setMem (setMem (setMem (setMem (setMem (setMem (setMem (setMem (s.mem) (s.sp.toNat - 16) s.x19) (s.sp.toNat - 16 + 8) s.x20) (s.sp.toNat - 16 - 16) s.x21) (s.sp.toNat - 16 - 16 + 8) s.x22) (s.sp.toNat - 16 - 16 - 16) s.x23) (s.sp.toNat - 16 - 16 - 16 + 8) s.x24) (s.sp.toNat - 16 - 16 - 16 - 16) s.x25) (s.sp.toNat - 16 - 16 - 16 - 16 + 8) s.x26) (s.sp.toNat - 16 - 16 - 16 - 16 - 16) s.x27) (s.sp.toNat - 16 - 16 - 16 - 16 - 16 + 8) s.x28) (s.sp.toNat - 16 - 16 - 16 - 16 - 16 - 16) pp) (s.sp.toNat - 16 - 16 - 16 - 16 - 16 - 16 + 8) inv, readable := s.readable, writable := s.writable, pc := 31, status := .running } : State) := by
  obtain ⟨ra0, ra1, ra2, ra3, ra4, ra5⟩ := ha.r6
  obtain ⟨⟨alra0, alra1, alra2, alra3, alra4, alra5⟩, fra1, fra2, fra3, fra4, fra5⟩ := ha.addr6
  obtain ⟨rb0, rb1, rb2, rb3, rb4, rb5⟩ := hb.r6
  obtain ⟨⟨alrb0, alrb1, alrb2, alrb3, alrb4, alrb5⟩, frb1, frb2, frb3, frb4, frb5⟩ := hb.addr6
  obtain ⟨rp0, rp1, rp2, rp3, rp4, rp5⟩ := hp.r6
  obtain ⟨⟨alrp0, alrp1, alrp2, alrp3, alrp4, alrp5⟩, frp1, frp2, frp3, frp4, frp5⟩ := hp.addr6
  obtain ⟨rr0, rr1, rr2, rr3, rr4, rr5⟩ := hr.r6
  obtain ⟨wr0, wr1, wr2, wr3, wr4, wr5⟩ := hr.w6
  obtain ⟨⟨alrr0, alrr1, alrr2, alrr3, alrr4, alrr5⟩, frr1, frr2, frr3, frr4, frr5⟩ := hr.addr6
  have als0 := hstk.aligned
  obtain ⟨room1, als1, alq1a, alq1b, sr1a, sr1b, sw1a, sw1b⟩ := hstk.f1 (by omega)
  obtain ⟨room2, als2, alq2a, alq2b, sr2a, sr2b, sw2a, sw2b⟩ := hstk.f2 (by omega)
  obtain ⟨room3, als3, alq3a, alq3b, sr3a, sr3b, sw3a, sw3b⟩ := hstk.f3 (by omega)
  obtain ⟨room4, als4, alq4a, alq4b, sr4a, sr4b, sw4a, sw4b⟩ := hstk.f4 (by omega)
  obtain ⟨room5, als5, alq5a, alq5b, sr5a, sr5b, sw5a, sw5b⟩ := hstk.f5 (by omega)
  obtain ⟨room6, als6, alq6a, alq6b, sr6a, sr6b, sw6a, sw6b⟩ := hstk.f6 (by omega)
  replace hrs := Hide.mk (And.intro room6 hrs); replace has := Hide.mk (And.intro room6 has)
  replace hbs := Hide.mk (And.intro room6 hbs); replace hps := Hide.mk (And.intro room6 hps)
  simp only [OffStack] at hrs has hbs hps
  clear ha hb hp hr hstk
  rw [State.eta s]
  a64_sym [hst, hpc, h0, h1, h2, h3, h4, ← ha0, ← ha1, ← ha2, ← ha3, ← ha4, ← ha5, ← hb0, ← hb1, ← hb2, ← hb3, ← hb4, ← hb5, ← ht12, ← hh13, ← hl14, ← hl15, ← hh16, ← ht17, ← hl18, ← hh19, ← ht20, ← hl21, ← hh22, ← ht23, ← hl24, ← hh25, ← ht26, ← hl27, ← hh28, ← ht29, ← ht30]

set_option maxHeartbeats 1600000 in
theorem fpmul_part1 (s : State) (pr pa pb pp inv : Word)
    (hr : Buf s pr 6 true) (ha : Buf s pa 6 false) (hb : Buf s pb 6 false) (hp : Buf s pp 6 false)
    (hstk : Stack s 6) (hrs : OffStack s 6 pr 6) (has : OffStack s 6 pa 6) (hbs : OffStack s 6 pb 6)
    (hps : OffStack s 6 pp 6) {a0 a1 a2 a3 a4 a5 b0 b1 b2 b3 b4 b5 h25 h32 h35 h40 h45 h50 h55 l14 l31 l34 l39 l44 l49 l54 : Word} {t17 t20 t23 t26 t29 t30 t33 t36 t37 t38 t41 t42 t43 t46 t47 t48 t51 t52 t53 t56 t57 t58 t59 : ArithRes}
    (hl31 : l31 = mulLo a1 b0) (hh32 : h32 = mulHi a1 b0) (ht33 : t33 = addWithCarry t17.val l31 false)
    (hl34 : l34 = mulLo a1 b1) (hh35 : h35 = mulHi a1 b1) (ht36 : t36 = addWithCarry t20.val l34 t33.c)
    (ht37 : t37 = addWithCarry h35 (0 : Word) t36.c) (ht38 : t38 = addWithCarry t36.val h32 false)
    (hl39 : l39 = mulLo a1 b2) (hh40 : h40 = mulHi a1 b2) (ht41 : t41 = addWithCarry t23.val l39 t38.c)
    (ht42 : t42 = addWithCarry h40 (0 : Word) t41.c) (ht43 : t43 = addWithCarry t41.val t37.val false)
    (hl44 : l44 = mulLo a1 b3) (hh45 : h45 = mulHi a1 b3) (ht46 : t46 = addWithCarry t26.val l44 t43.c)
    (ht47 : t47 = addWithCarry h45 (0 : Word) t46.c) (ht48 : t48 = addWithCarry t46.val t42.val false)
    (hl49 : l49 = mulLo a1 b4) (hh50 : h50 = mulHi a1 b4) (ht51 : t51 = addWithCarry t29.val l49 t48.c)
    (ht52 : t52 = addWithCarry h50 (0 : Word) t51.c) (ht53 : t53 = addWithCarry t51.val t47.val false)
    (hl54 : l54 = mulLo a1 b5) (hh55 : h55 = mulHi a1 b5) (ht56 : t56 = addWithCarry t30.val l54 t53.c)
    (ht57 : t57 = addWithCarry h55 (0 : Word) t56.c) (ht58 : t58 = addWithCarry t56.val t52.val false)
    (ht59 : t59 = addWithCarry t57.val (0 : Word) t58.c) :
    run embedded_pairing_core_arch_aarch64_fpbase_384_multiply ({ x0 := pr, x1 := l14, x2 := a0, x3 := a1, x4 := a2, x5 := a3, x6 := a4, x7 := a5, x8 := s.x8, x9 := b0, x10 := b1, x11 := b2, x12 := b3, x13 := b4, x14 := b5, x15 := t17.val, x16 := s.x16, x17 := s.x17, x18 := s.x18, x19 := t20.val, x20 := t23.val, x21 := t26.val, x22 := t29.val, x23 := t30.val, x24 := s.x24, x25 := s.x25, x26 := s.x26, x27 := s.x27, x28 := h25, x29 := s.x29, x30 := s.x30, sp := s.sp - 16#64 - 16#64 - 16#64 - 16#64 - 16#64 - 16#64, nf := some t30.n, zf := some t30.z, cf := some t30.c, vf := some t30.v, mem := setMem (setMem (setMem (setMem (setMem (setMem (setMem (setMem (setMem (setMem (setMem (setMem (s.mem) (s.sp.toNat - 16) s.x19) (s.sp.toNat - 16 + 8) s.x20) (s.sp.toNat - 16 - 16) s.x21) (s.sp.toNat - 16 - 16 + 8) s.x22) (s.sp.toNat - 16 - 16 - 16) s.x23) (s.sp.toNat - 16 - 16 - 16 + 8) s.x24) (s.sp.toNat - 16 - 16 - 16 - 16) s.x25) (s.sp.toNat - 16 - 16 - 16 - 16 + 8) s.x26) (s.sp.toNat - 16 - 16 - 16 - 16 - 16) s.x27) (s.sp.toNat - 16 - 16 - 16 - 16 - 16 + 8) s.x28) (s.sp.toNat - 16 - 16 - 16 - 16 - 16 - 16) pp) (s.sp.toNat - 16 - 16 - 16 - 16 - 16 - 16 + 8) inv, readable := s.readable, writable := s.writable, pc := 31, status := .running } : State) 29
      = ({ x0 := pr, x1 := l14, x2 := l54, x3 := a1, x4 := a2, x5 := a3, x6 := a4, x7 := a5, x8 := s.x8, x9 := b0, x10 := b1, x11 := b2, x12 := b3, x13 := b4, x14 := b5, x15 := t33.val, x16 := s.x16, x17 := s.x17, x18 := s.x18, x19 := t38.val, x20 := t43.val, x21 := t48.val, x22 := t53.val, x23 := t58.val, x24 := t59.val, x25 := s.x25, x26 := s.x26, x27 := s.x27, x28 := t52.val, x29 := s.x29, x30 := s.x30, sp := s.sp - 16#64 - 16#64 - 16#64 - 16#64 - 16#64 - 16#64, nf := some t59.n, zf := some t59.z, cf := some t59.c, vf := some t59.v, mem := setMem (setMem (setMem (setMem (setMem (setMem (setMem (setMem (setMem (setMem (setMem (setMem (s.mem) (s.sp.toNat - 16) s.x19) (s.sp.toNat - 16 + 8) s.x20) (s.sp.toNat - 16 - 16) s.x21) (s.sp.toNat - 16 - 16 + 8) s.x22) (s.sp.toNat - 16 - 16 - 16) s.x23) (s.sp.toNat - 16 - 16 - 16 + 8) s.x24) (s.sp.toNat - 16 - 16 - 16 - 16) s.x25) (s.sp.toNat - 16 - 16 - 16 - 16 + 8) s.x26) (s.sp.toNat - 16 - 16 - 16 - 16 - 16) s.x27) (s.sp.toNat - 16 - 16 - 16 - 16 - 16 + 8) s.x28) (s.sp.toNat - 16 - 16 - 16 - 16 - 16 - 16) pp) (s.sp.toNat - 16 - 16 - 16 - 16 - 16 - 16 + 8) inv, readable := s.readable, writable := s.writable, pc := 60, status := .running } : State) := by
  obtain ⟨ra0, ra1, ra2, ra3, ra4, ra5⟩ := ha.r6
  obtain ⟨⟨alra0, alra1, alra2, alra3, alra4, alra5⟩, fra1, fra2, fra3, fra4, fra5⟩ := ha.addr6
  obtain ⟨rb0, rb1, rb2, rb3, rb4, rb5⟩ := hb.r6
  obtain ⟨⟨alrb0, alrb1, alrb2, alrb3, alrb4, alrb5⟩, frb1, frb2, frb3, frb4, frb5⟩ := hb.addr6
  obtain ⟨rp0, rp1, rp2, rp3, rp4, rp5⟩ := hp.r6
  obtain ⟨⟨alrp0, alrp1, alrp2, alrp3, alrp4, alrp5⟩, frp1, frp2, frp3, frp4, frp5⟩ := hp.addr6
  obtain ⟨rr0, rr1, rr2, rr3, rr4, rr5⟩ := hr.r6
  obtain ⟨wr0, wr1, wr2, wr3, wr4, wr5⟩ := hr.w6
  obtain ⟨⟨alrr0, alrr1, alrr2, alrr3, alrr4, alrr5⟩, frr1, frr2, frr3, frr4, frr5⟩ := hr.addr6
  have als0 := hstk.aligned
  obtain ⟨room1, als1, alq1a, alq1b, sr1a, sr1b, sw1a, sw1b⟩ := hstk.f1 (by omega)
  obtain ⟨room2, als2, alq2a, alq2b, sr2a, sr2b, sw2a, sw2b⟩ := hstk.f2 (by omega)
  obtain ⟨room3, als3, alq3a, alq3b, sr3a, sr3b, sw3a, sw3b⟩ := hstk.f3 (by omega)
  obtain ⟨room4, als4, alq4a, alq4b, sr4a, sr4b, sw4a, sw4b⟩ := hstk.f4 (by omega)
  obtain ⟨room5, als5, alq5a, alq5b, sr5a, sr5b, sw5a, sw5b⟩ := hstk.f5 (by omega)
  obtain ⟨room6, als6, alq6a, alq6b, sr6a, sr6b, sw6a, sw6b⟩ := hstk.f6 (by omega)
  replace hrs := Hide.mk (And.intro room6 hrs); replace has := Hide.mk (And.intro room6 has)
  replace hbs := Hide.mk (And.intro room6 hbs); replace hps := Hide.mk (And.intro room6 hps)
  simp only [OffStack] at hrs has hbs hps
  clear ha hb hp hr hstk
  a64_sym [← hl31, ← hh32, ← ht33, ← hl34, ← hh35, ← ht36, ← ht37, ← ht38, ← hl39, ← hh40, ← ht41, ← ht42, ← ht43, ← hl44, ← hh45, ← ht46, ← ht47, ← ht48, ← hl49, ← hh50, ← ht51, ← ht52, ← ht53, ← hl54, ← hh55, ← ht56, ← ht57, ← ht58, ← ht59]

set_option maxHeartbeats 1600000 in
theorem fpmul_part2 (s : State) (pr pa pb pp inv : Word)
    (hr : Buf s pr 6 true) (ha : Buf s pa 6 false) (hb : Buf s pb 6 false) (hp : Buf s pp 6 false)
    (hstk : Stack s 6) (hrs : OffStack s 6 pr 6) (has : OffStack s 6 pa 6) (hbs : OffStack s 6 pb 6)
    (hps : OffStack s 6 pp 6) {a1 a2 a3 a4 a5 b0 b1 b2 b3 b4 b5 h61 h64 h69 h74 h79 h84 l14 l54 l60 l63 l68 l73 l78 l83 : Word} {t33 t38 t43 t48 t52 t53 t58 t59 t62 t65 t66 t67 t70 t71 t72 t75 t76 t77 t80 t81 t82 t85 t86 t87 t88 : ArithRes}
    (hl60 : l60 = mulLo a2 b0) (hh61 : h61 = mulHi a2 b0) (ht62 : t62 = addWithCarry t38.val l60 false)
    (hl63 : l63 = mulLo a2 b1) (hh64 : h64 = mulHi a2 b1) (ht65 : t65 = addWithCarry t43.val l63 t62.c)
    (ht66 : t66 = addWithCarry h64 (0 : Word) t65.c) (ht67 : t67 = addWithCarry t65.val h61 false)
    (hl68 : l68 = mulLo a2 b2) (hh69 : h69 = mulHi a2 b2) (ht70 : t70 = addWithCarry t48.val l68 t67.c)
    (ht71 : t71 = addWithCarry h69 (0 : Word) t70.c) (ht72 : t72 = addWithCarry t70.val t66.val false)
    (hl73 : l73 = mulLo a2 b3) (hh74 : h74 = mulHi a2 b3) (ht75 : t75 = addWithCarry t53.val l73 t72.c)
    (ht76 : t76 = addWithCarry h74 (0 : Word) t75.c) (ht77 : t77 = addWithCarry t75.val t71.val false)
    (hl78 : l78 = mulLo a2 b4) (hh79 : h79 = mulHi a2 b4) (ht80 : t80 = addWithCarry t58.val l78 t77.c)
    (ht81 : t81 = addWithCarry h79 (0 : Word) t80.c) (ht82 : t82 = addWithCarry t80.val t76.val false)
    (hl83 : l83 = mulLo a2 b5) (hh84 : h84 = mulHi a2 b5) (ht85 : t85 = addWithCarry t59.val l83 t82.c)
    (ht86 : t86 = addWithCarry h84 (0 : Word) t85.c) (ht87 : t87 = addWithCarry t85.val t81.val false)
    (ht88 : t88 = addWithCarry t86.val (0 : Word) t87.c) :
    run embedded_pairing_core_arch_aarch64_fpbase_384_multiply ({ x0 := pr, x1 := l14, x2 := l54, x3 := a1, x4 := a2, x5 := a3, x6 := a4, x7 := a5, x8 := s.x8, x9 := b0, x10 := b1, x11 := b2, x12 := b3, x13 := b4, x14 := b5, x15 := t33.val, x16 := s.x16, x17 := s.x17, x18 := s.x18, x19 := t38.val, x20 := t43.val, x21 := t48.val, x22 := t53.val, x23 := t58.val, x24 := t59.val, x25 := s.x25, x26 := s.x26, x27 := s.x27, x28 := t52.val, x29 := s.x29, x30 := s.x30, sp := s.sp - 16#64 - 16#64 - 16#64 - 16#64 - 16#64 - 16#64, nf := some t59.n, zf := some t59.z, cf := some t59.c, vf := some t59.v, mem := setMem (setMem (setMem (setMem (setMem (setMem (setMem (setMem (setMem (setMem (setMem (setMem (s.mem) (s.sp.toNat - 16) s.x19) (s.sp.toNat - 16 + 8) s.x20) (s.sp.toNat - 16 - 16) s.x21) (s.sp.toNat - 16 - 16 + 8) s.x22) (s.sp.toNat - 16 - 16 - 16) s.x23) (s.sp.toNat - 16 - 16 - 16 + 8) s.x24) (s.sp.toNat - 16 - 16 - 16 - 16) s.x25) (s.sp.toNat - 16 - 16 - 16 - 16 + 8) s.x26) (s.sp.toNat - 16 - 16 - 16 - 16 - 16) s.x27) (s.sp.toNat - 16 - 16 - 16 - 16 - 16 + 8) s.x28) (s.sp.toNat - 16 - 16 - 16 - 16 - 16 - 16) pp) (s.sp.toNat - 16 - 16 - 16 - 16 - 16 - 16 + 8) inv, readable := s.readable, writable := s.writable, pc := 60, status := .running } : State) 29
      = ({ x0 := pr, x1 := l14, x2 := l83, x3 := t81.val, x4 := a2, x5 := a3, x6 := a4, x7 := a5, x8 := s.x8, x9 := b0, x10 := b1, x11 := b2, x12 := b3, x13 := b4, x14 := b5, x15 := t33.val, x16 := s.x16, x17 := s.x17, x18 := s.x18, x19 := t62.val, x20 := t67.val, x21 := t72.val, x22 := t77.val, x23 := t82.val, x24 := t87.val, x25 := t88.val, x26 := s.x26, x27 := s.x27, x28 := t52.val, x29 := s.x29, x30 := s.x30, sp := s.sp - 16#64 - 16#64 - 16#64 - 16#64 - 16#64 - 16#64, nf := some t88.n, zf := some t88.z, cf := some t88.c, vf := some t88.v, mem := setMem (setMem (setMem (setMem (setMem (setMem (setMem (setMem (setMem (setMem (setMem (setMem (s.mem) (s.sp.toNat - 16) s.x19) (s.sp.toNat - 16 + 8) s.x20) (s.sp.toNat - 16 - 16) s.x21) (s.sp.toNat - 16 - 16 + 8) s.x22) (s.sp.toNat - 16 - 16 - 16) s.x23) (s.sp.toNat - 16 - 16 - 16 + 8) s.x24) (s.sp.toNat - 16 - 16 - 16 - 16) s.x25) (s.sp.toNat - 16 - 16 - 16 - 16 + 8) s.x26) (s.sp.toNat - 16 - 16 - 16 - 16 - 16) s.x27) (s.sp.toNat - 16 - 16 - 16 - 16 - 16 + 8) s.x28) (s.sp.toNat - 16 - 16 - 16 - 16 - 16 - 16) pp) (s.sp.toNat - 16 - 16 - 16 - 16 - 16 - 16 + 8) inv, readable := s.readable, writable := s.writable, pc := 89, status := .running } : State) := by
  obtain ⟨ra0, ra1, ra2, ra3, ra4, ra5⟩ := ha.r6
  obtain ⟨⟨alra0, alra1, alra2, alra3, alra4, alra5⟩, fra1, fra2, fra3, fra4, fra5⟩ := ha.addr6
  obtain ⟨rb0, rb1, rb2, rb3, rb4, rb5⟩ := hb.r6
  obtain ⟨⟨alrb0, alrb1, alrb2, alrb3, alrb4, alrb5⟩, frb1, frb2, frb3, frb4, frb5⟩ := hb.addr6
  obtain ⟨rp0, rp1, rp2, rp3, rp4, rp5⟩ := hp.r6
  obtain ⟨⟨alrp0, alrp1, alrp2, alrp3, alrp4, alrp5⟩, frp1, frp2, frp3, frp4, frp5⟩ := hp.addr6
  obtain ⟨rr0, rr1, rr2, rr3, rr4, rr5⟩ := hr.r6
  obtain ⟨wr0, wr1, wr2, wr3, wr4, wr5⟩ := hr.w6
  obtain ⟨⟨alrr0, alrr1, alrr2, alrr3, alrr4, alrr5⟩, frr1, frr2, frr3, frr4, frr5⟩ := hr.addr6
  have als0 := hstk.aligned
  obtain ⟨room1, als1, alq1a, alq1b, sr1a, sr1b, sw1a, sw1b⟩ := hstk.f1 (by omega)
  obtain ⟨room2, als2, alq2a, alq2b, sr2a, sr2b, sw2a, sw2b⟩ := hstk.f2 (by omega)
  obtain ⟨room3, als3, alq3a, alq3b, sr3a, sr3b, sw3a, sw3b⟩ := hstk.f3 (by omega)
  obtain ⟨room4, als4, alq4a, alq4b, sr4a, sr4b, sw4a, sw4b⟩ := hstk.f4 (by omega)
  obtain ⟨room5, als5, alq5a, alq5b, sr5a, sr5b, sw5a, sw5b⟩ := hstk.f5 (by omega)
  obtain ⟨room6, als6, alq6a, alq6b, sr6a, sr6b, sw6a, sw6b⟩ := hstk.f6 (by omega)
  replace hrs := Hide.mk (And.intro room6 hrs); replace has := Hide.mk (And.intro room6 has)
  replace hbs := Hide.mk (And.intro room6 hbs); replace hps := Hide.mk (And.intro room6 hps)
  simp only [OffStack] at hrs has hbs hps
  clear ha hb hp hr hstk
  a64_sym [← hl60, ← hh61, ← ht62, ← hl63, ← hh64, ← ht65, ← ht66, ← ht67, ← hl68, ← hh69, ← ht70, ← ht71, ← ht72, ← hl73, ← hh74, ← ht75, ← ht76, ← ht77, ← hl78, ← hh79, ← ht80, ← ht81, ← ht82, ← hl83, ← hh84, ← ht85, ← ht86, ← ht87, ← ht88]

set_option maxHeartbeats 1600000 in
theorem fpmul_part3 (s : State) (pr pa pb pp inv : Word)
    (hr : Buf s pr 6 true) (ha : Buf s pa 6 false) (hb : Buf s pb 6 false) (hp : Buf s pp 6 false)
    (hstk : Stack s 6) (hrs : OffStack s 6 pr 6) (has : OffStack s 6 pa 6) (hbs : OffStack s 6 pb 6)
    (hps : OffStack s 6 pp 6) {a2 a3 a4 a5 b0 b1 b2 b3 b4 b5 h90 h93 h98 l14 l83 l89 l92 l97 h103 h108 h113 l102 l107 l112 : Word} {t33 t52 t62 t67 t72 t77 t81 t82 t87 t88 t91 t94 t95 t96 t99 t100 t101 t104 t105 t106 t109 t110 t111 t114 t115 t116 t117 : ArithRes}
    (hl89 : l89 = mulLo a3 b0) (hh90 : h90 = mulHi a3 b0) (ht91 : t91 = addWithCarry t67.val l89 false)
    (hl92 : l92 = mulLo a3 b1) (hh93 : h93 = mulHi a3 b1) (ht94 : t94 = addWithCarry t72.val l92 t91.c)
    (ht95 : t95 = addWithCarry h93 (0 : Word) t94.c) (ht96 : t96 = addWithCarry t94.val h90 false)
    (hl97 : l97 = mulLo a3 b2) (hh98 : h98 = mulHi a3 b2) (ht99 : t99 = addWithCarry t77.val l97 t96.c)
    (ht100 : t100 = addWithCarry h98 (0 : Word) t99.c) (ht101 : t101 = addWithCarry t99.val t95.val false)
    (hl102 : l102 = mulLo a3 b3) (hh103 : h103 = mulHi a3 b3) (ht104 : t104 = addWithCarry t82.val l102 t101.c)
    (ht105 : t105 = addWithCarry h103 (0 : Word) t104.c) (ht106 : t106 = addWithCarry t104.val t100.val false)
    (hl107 : l107 = mulLo a3 b4) (hh108 : h108 = mulHi a3 b4) (ht109 : t109 = addWithCarry t87.val l107 t106.c)
    (ht110 : t110 = addWithCarry h108 (0 : Word) t109.c) (ht111 : t111 = addWithCarry t109.val t105.val false)
    (hl112 : l112 = mulLo a3 b5) (hh113 : h113 = mulHi a3 b5) (ht114 : t114 = addWithCarry t88.val l112 t111.c)
    (ht115 : t115 = addWithCarry h113 (0 : Word) t114.c) (ht116 : t116 = addWithCarry t114.val t110.val false)
    (ht117 : t117 = addWithCarry t115.val (0 : Word) t116.c) :
    run embedded_pairing_core_arch_aarch64_fpbase_384_multiply ({ x0 := pr, x1 := l14, x2 := l83, x3 := t81.val, x4 := a2, x5 := a3, x6 := a4, x7 := a5, x8 := s.x8, x9 := b0, x10 := b1, x11 := b2, x12 := b3, x13 := b4, x14 := b5, x15 := t33.val, x16 := s.x16, x17 := s.x17, x18 := s.x18, x19 := t62.val, x20 := t67.val, x21 := t72.val, x22 := t77.val, x23 := t82.val, x24 := t87.val, x25 := t88.val, x26 := s.x26, x27 := s.x27, x28 := t52.val, x29 := s.x29, x30 := s.x30, sp := s.sp - 16#64 - 16#64 - 16#64 - 16#64 - 16#64 - 16#64, nf := some t88.n, zf := some t88.z, cf := some t88.c, vf := some t88.v, mem := setMem (setMem (setMem (setMem (setMem (setMem (setMem (setMem (setMem (setMem (setMem (setMem (s.mem) (s.sp.toNat - 16) s.x19) (s.sp.toNat - 16 + 8) s.x20) (s.sp.toNat - 16 - 16) s.x21) (s.sp.toNat - 16 - 16 + 8) s.x22) (s.sp.toNat - 16 - 16 - 16) s.x23) (s.sp.toNat - 16 - 16 - 16 + 8) s.x24) (s.sp.toNat - 16 - 16 - 16 - 16) s.x25) (s.sp.toNat - 16 - 16 - 16 - 16 + 8) s.x26) (s.sp.toNat - 16 - 16 - 16 - 16 - 16) s.x27) (s.sp.toNat - 16 - 16 - 16 - 16 - 16 + 8) s.x28) (s.sp.toNat - 16 - 16 - 16 - 16 - 16 - 16) pp) (s.sp.toNat - 16 - 16 - 16 - 16 - 16 - 16 + 8) inv, readable := s.readable, writable := s.writable, pc := 89, status := .running } : State) 29
      = ({ x0 := pr, x1 := l14, x2 := l112, x3 := t110.val, x4 := a2, x5 := a3, x6 := a4, x7 := a5, x8 := s.x8, x9 := b0, x10 := b1, x11 := b2, x12 := b3, x13 := b4, x14 := b5, x15 := t33.val, x16 := s.x16, x17 := s.x17, x18 := s.x18, x19 := t62.val, x20 := t91.val, x21 := t96.val, x22 := t101.val, x23 := t106.val, x24 := t111.val, x25 := t116.val, x26 := t117.val, x27 := s.x27, x28 := t52.val, x29 := s.x29, x30 := s.x30, sp := s.sp - 16#64 - 16#64 - 16#64 - 16#64 - 16#64 - 16#64, nf := some t117.n, zf := some t117.z, cf := some t117.c, vf := some t117.v, mem := setMem (setMem (setMem (setMem (setMem (setMem (setMem (setMem (setMem (setMem (setMem (setMem (s.mem) (s.sp.toNat - 16) s.x19) (s.sp.toNat - 16 + 8) s.x20) (s.sp.toNat - 16 - 16) s.x21) (s.sp.toNat - 16 - 16 + 8) s.x22) (s.sp.toNat - 16 - 16 - 16) s.x23) (s.sp.toNat - 16 - 16 - 16 + 8) s.x24) (s.sp.toNat - 16 - 16 - 16 - 16) s.x25) (s.sp.toNat - 16 - 16 - 16 - 16 + 8) s.x26) (s.sp.toNat - 16 - 16 - 16 - 16 - 16) s.x27) (s.sp.toNat - 16 - 16 - 16 - 16 - 16 + 8) s.x28) (s.sp.toNat - 16 - 16 - 16 - 16 - 16 - 16) pp) (s.sp.toNat - 16 - 16 - 16 - 16 - 16 - 16 + 8) inv, readable := s.readable, writable := s.writable, pc := 118, status := .running } : State) := by
  obtain ⟨ra0, ra1, ra2, ra3, ra4, ra5⟩ := ha.r6
  obtain ⟨⟨alra0, alra1, alra2, alra3, alra4, alra5⟩, fra1, fra2, fra3, fra4, fra5⟩ := ha.addr6
  obtain ⟨rb0, rb1, rb2, rb3, rb4, rb5⟩ := hb.r6
  obtain ⟨⟨alrb0, alrb1, alrb2, alrb3, alrb4, alrb5⟩, frb1, frb2, frb3, frb4, frb5⟩ := hb.addr6
  obtain ⟨rp0, rp1, rp2, rp3, rp4, rp5⟩ := hp.r6
  obtain ⟨⟨alrp0, alrp1, alrp2, alrp3, alrp4, alrp5⟩, frp1, frp2, frp3, frp4, frp5⟩ := hp.addr6
  obtain ⟨rr0, rr1, rr2, rr3, rr4, rr5⟩ := hr.r6
  obtain ⟨wr0, wr1, wr2, wr3, wr4, wr5⟩ := hr.w6
  obtain ⟨⟨alrr0, alrr1, alrr2, alrr3, alrr4, alrr5⟩, frr1, frr2, frr3, frr4, frr5⟩ := hr.addr6
  have als0 := hstk.aligned
  obtain ⟨room1, als1, alq1a, alq1b, sr1a, sr1b, sw1a, sw1b⟩ := hstk.f1 (by omega)
  obtain ⟨room2, als2, alq2a, alq2b, sr2a, sr2b, sw2a, sw2b⟩ := hstk.f2 (by omega)
  obtain ⟨room3, als3, alq3a, alq3b, sr3a, sr3b, sw3a, sw3b⟩ := hstk.f3 (by omega)
  obtain ⟨room4, als4, alq4a, alq4b, sr4a, sr4b, sw4a, sw4b⟩ := hstk.f4 (by omega)
  obtain ⟨room5, als5, alq5a, alq5b, sr5a, sr5b, sw5a, sw5b⟩ := hstk.f5 (by omega)
  obtain ⟨room6, als6, alq6a, alq6b, sr6a, sr6b, sw6a, sw6b⟩ := hstk.f6 (by omega)
  replace hrs := Hide.mk (And.intro room6 hrs); replace has := Hide.mk (And.intro room6 has)
  replace hbs := Hide.mk (And.intro room6 hbs); replace hps := Hide.mk (And.intro room6 hps)
  simp only [OffStack] at hrs has hbs hps
  clear ha hb hp hr hstk
  a64_sym [← hl89, ← hh90, ← ht91, ← hl92, ← hh93, ← ht94, ← ht95, ← ht96, ← hl97, ← hh98, ← ht99, ← ht100, ← ht101, ← hl102, ← hh103, ← ht104, ← ht105, ← ht106, ← hl107, ← hh108, ← ht109, ← ht110, ← ht111, ← hl112, ← hh113, ← ht114, ← ht115, ← ht116, ← ht117]

set_option maxHeartbeats 1600000 in
theorem fpmul_part4 (s : State) (pr pa pb pp inv : Word)
    (hr : Buf s pr 6 true) (ha : Buf s pa 6 false) (hb : Buf s pb 6 false) (hp : Buf s pp 6 false)
    (hstk : Stack s 6) (hrs : OffStack s 6 pr 6) (has : OffStack s 6 pa 6) (hbs : OffStack s 6 pb 6)
    (hps : OffStack s 6 pp 6) {a2 a3 a4 a5 b0 b1 b2 b3 b4 b5 l14 h119 h122 h127 h132 h137 h142 l112 l118 l121 l126 l131 l136 l141 : Word} {t33 t52 t62 t91 t96 t101 t106 t110 t111 t116 t117 t120 t123 t124 t125 t128 t129 t130 t133 t134 t135 t138 t139 t140 t143 t144 t145 t146 : ArithRes}
    (hl118 : l118 = mulLo a4 b0) (hh119 : h119 = mulHi a4 b0) (ht120 : t120 = addWithCarry t96.val l118 false)
    (hl121 : l121 = mulLo a4 b1) (hh122 : h122 = mulHi a4 b1) (ht123 : t123 = addWithCarry t101.val l121 t120.c)
    (ht124 : t124 = addWithCarry h122 (0 : Word) t123.c) (ht125 : t125 = addWithCarry t123.val h119 false)
    (hl126 : l126 = mulLo a4 b2) (hh127 : h127 = mulHi a4 b2) (ht128 : t128 = addWithCarry t106.val l126 t125.c)
    (ht129 : t129 = addWithCarry h127 (0 : Word) t128.c) (ht130 : t130 = addWithCarry t128.val t124.val false)
    (hl131 : l131 = mulLo a4 b3) (hh132 : h132 = mulHi a4 b3) (ht133 : t133 = addWithCarry t111.val l131 t130.c)
    (ht134 : t134 = addWithCarry h132 (0 : Word) t133.c) (ht135 : t135 = addWithCarry t133.val t129.val false)
    (hl136 : l136 = mulLo a4 b4) (hh137 : h137 = mulHi a4 b4) (ht138 : t138 = addWithCarry t116.val l136 t135.c)
    (ht139 : t139 = addWithCarry h137 (0 : Word) t138.c) (ht140 : t140 = addWithCarry t138.val t134.val false)
    (hl141 : l141 = mulLo a4 b5) (hh142 : h142 = mulHi a4 b5) (ht143 : t143 = addWithCarry t117.val l141 t140.c)
    (ht144 : t144 = addWithCarry h142 (0 : Word) t143.c) (ht145 : t145 = addWithCarry t143.val t139.val false)
    (ht146 : t146 = addWithCarry t144.val (0 : Word) t145.c) :
    run embedded_pairing_core_arch_aarch64_fpbase_384_multiply ({ x0 := pr, x1 := l14, x2 := l112, x3 := t110.val, x4 := a2, x5 := a3, x6 := a4, x7 := a5, x8 := s.x8, x9 := b0, x10 := b1, x11 := b2, x12 := b3, x13 := b4, x14 := b5, x15 := t33.val, x16 := s.x16, x17 := s.x17, x18 := s.x18, x19 := t62.val, x20 := t91.val, x21 := t96.val, x22 := t101.val, x23 := t106.val, x24 := t111.val, x25 := t116.val, x26 := t117.val, x27 := s.x27, x28 := t52.val, x29 := s.x29, x30 := s.x30, sp := s.sp - 16#64 - 16#64 - 16#64 - 16#64 - 16#64 - 16#64, nf := some t117.n, zf := some t117.z, cf := some t117.c, vf := some t117.v, mem := setMem (setMem (setMem (setMem (setMem (setMem (setMem (setMem (setMem (setMem (setMem (setMem (s.mem) (s.sp.toNat - 16) s.x19) (s.sp.toNat - 16 + 8) s.x20) (s.sp.toNat - 16 - 16) s.x21) (s.sp.toNat - 16 - 16 + 8) s.x22) (s.sp.toNat - 16 - 16 - 16) s.x23) (s.sp.toNat - 16 - 16 - 16 + 8) s.x24) (s.sp.toNat - 16 - 16 - 16 - 16) s.x25) (s.sp.toNat - 16 - 16 - 16 - 16 + 8) s.x26) (s.sp.toNat - 16 - 16 - 16 - 16 - 16) s.x27) (s.sp.toNat - 16 - 16 - 16 - 16 - 16 + 8) s.x28) (s.sp.toNat - 16 - 16 - 16 - 16 - 16 - 16) pp) (s.sp.toNat - 16 - 16 - 16 - 16 - 16 - 16 + 8) inv, readable := s.readable, writable := s.writable, pc := 118, status := .running } : State) 29
      = ({ x0 := pr, x1 := l14, x2 := l141, x3 := t139.val, x4 := a2, x5 := a3, x6 := a4, x7 := a5, x8 := s.x8, x9 := b0, x10 := b1, x11 := b2, x12 := b3, x13 := b4, x14 := b5, x15 := t33.val, x16 := s.x16, x17 := s.x17, x18 := s.x18, x19 := t62.val, x20 := t91.val, x21 := t120.val, x22 := t125.val, x23 := t130.val, x24 := t135.val, x25 := t140.val, x26 := t145.val, x27 := t146.val, x28 := t52.val, x29 := s.x29, x30 := s.x30, sp := s.sp - 16#64 - 16#64 - 16#64 - 16#64 - 16#64 - 16#64, nf := some t146.n, zf := some t146.z, cf := some t146.c, vf := some t146.v, mem := setMem (setMem (setMem (setMem (setMem (setMem (setMem (setMem (setMem (setMem (setMem (setMem (s.mem) (s.sp.toNat - 16) s.x19) (s.sp.toNat - 16 + 8) s.x20) (s.sp.toNat - 16 - 16) s.x21) (s.sp.toNat - 16 - 16 + 8) s.x22) (s.sp.toNat - 16 - 16 - 16) s.x23) (s.sp.toNat - 16 - 16 - 16 + 8) s.x24) (s.sp.toNat - 16 - 16 - 16 - 16) s.x25) (s.sp.toNat - 16 - 16 - 16 - 16 + 8) s.x26) (s.sp.toNat - 16 - 16 - 16 - 16 - 16) s.x27) (s.sp.toNat - 16 - 16 - 16 - 16 - 16 + 8) s.x28) (s.sp.toNat - 16 - 16 - 16 - 16 - 16 - 16) pp) (s.sp.toNat - 16 - 16 - 16 - 16 - 16 - 16 + 8) inv, readable := s.readable, writable := s.writable, pc := 147, status := .running } : State) := by
  obtain ⟨ra0, ra1, ra2, ra3, ra4, ra5⟩ := ha.r6
  obtain ⟨⟨alra0, alra1, alra2, alra3, alra4, alra5⟩, fra1, fra2, fra3, fra4, fra5⟩ := ha.addr6
  obtain ⟨rb0, rb1, rb2, rb3, rb4, rb5⟩ := hb.r6
  obtain ⟨⟨alrb0, alrb1, alrb2, alrb3, alrb4, alrb5⟩, frb1, frb2, frb3, frb4, frb5⟩ := hb.addr6
  obtain ⟨rp0, rp1, rp2, rp3, rp4, rp5⟩ := hp.r6
  obtain ⟨⟨alrp0, alrp1, alrp2, alrp3, alrp4, alrp5⟩, frp1, frp2, frp3, frp4, frp5⟩ := hp.addr6
  obtain ⟨rr0, rr1, rr2, rr3, rr4, rr5⟩ := hr.r6
  obtain ⟨wr0, wr1, wr2, wr3, wr4, wr5⟩ := hr.w6
  obtain ⟨⟨alrr0, alrr1, alrr2, alrr3, alrr4, alrr5⟩, frr1, frr2, frr3, frr4, frr5⟩ := hr.addr6
  have als0 := hstk.aligned
  obtain ⟨room1, als1, alq1a, alq1b, sr1a, sr1b, sw1a, sw1b⟩ := hstk.f1 (by omega)
  obtain ⟨room2, als2, alq2a, alq2b, sr2a, sr2b, sw2a, sw2b⟩ := hstk.f2 (by omega)
  obtain ⟨room3, als3, alq3a, alq3b, sr3a, sr3b, sw3a, sw3b⟩ := hstk.f3 (by omega)
  obtain ⟨room4, als4, alq4a, alq4b, sr4a, sr4b, sw4a, sw4b⟩ := hstk.f4 (by omega)
  obtain ⟨room5, als5, alq5a, alq5b, sr5a, sr5b, sw5a, sw5b⟩ := hstk.f5 (by omega)
  obtain ⟨room6, als6, alq6a, alq6b, sr6a, sr6b, sw6a, sw6b⟩ := hstk.f6 (by omega)
  replace hrs := Hide.mk (And.intro room6 hrs); replace has := Hide.mk (And.intro room6 has)
  replace hbs := Hide.mk (And.intro room6 hbs); replace hps := Hide.mk (And.intro room6 hps)
  simp only [OffStack] at hrs has hbs hps
  clear ha hb hp hr hstk
  a64_sym [← hl118, ← hh119, ← ht120, ← hl121, ← hh122, ← ht123, ← ht124, ← ht125, ← hl126, ← hh127, ← ht128, ← ht129, ← ht130, ← hl131, ← hh132, ← ht133, ← ht134, ← ht135, ← hl136, ← hh137, ← ht138, ← ht139, ← ht140, ← hl141, ← hh142, ← ht143, ← ht144, ← ht145, ← ht146]

set_option maxHeartbeats 1600000 in
theorem fpmul_part5 (s : State) (pr pa pb pp inv : Word)
    (hr : Buf s pr 6 true) (ha : Buf s pa 6 false) (hb : Buf s pb 6 false) (hp : Buf s pp 6 false)
    (hstk : Stack s 6) (hrs : OffStack s 6 pr 6) (has : OffStack s 6 pa 6) (hbs : OffStack s 6 pb 6)
    (hps : OffStack s 6 pp 6) {a2 a3 a4 a5 b0 b1 b2 b3 b4 b5 l14 h148 h151 h156 h161 h166 h171 l141 l147 l150 l155 l160 l165 l170 : Word} {t33 t52 t62 t91 t120 t125 t130 t135 t139 t140 t145 t146 t149 t152 t153 t154 t157 t158 t159 t162 t163 t164 t167 t168 t169 t172 t173 t174 t175 : ArithRes}
    (hl147 : l147 = mulLo a5 b0) (hh148 : h148 = mulHi a5 b0) (ht149 : t149 = addWithCarry t125.val l147 false)
    (hl150 : l150 = mulLo a5 b1) (hh151 : h151 = mulHi a5 b1) (ht152 : t152 = addWithCarry t130.val l150 t149.c)
    (ht153 : t153 = addWithCarry h151 (0 : Word) t152.c) (ht154 : t154 = addWithCarry t152.val h148 false)
    (hl155 : l155 = mulLo a5 b2) (hh156 : h156 = mulHi a5 b2) (ht157 : t157 = addWithCarry t135.val l155 t154.c)
    (ht158 : t158 = addWithCarry h156 (0 : Word) t157.c) (ht159 : t159 = addWithCarry t157.val t153.val false)
    (hl160 : l160 = mulLo a5 b3) (hh161 : h161 = mulHi a5 b3) (ht162 : t162 = addWithCarry t140.val l160 t159.c)
    (ht163 : t163 = addWithCarry h161 (0 : Word) t162.c) (ht164 : t164 = addWithCarry t162.val t158.val false)
    (hl165 : l165 = mulLo a5 b4) (hh166 : h166 = mulHi a5 b4) (ht167 : t167 = addWithCarry t145.val l165 t164.c)
    (ht168 : t168 = addWithCarry h166 (0 : Word) t167.c) (ht169 : t169 = addWithCarry t167.val t163.val false)
    (hl170 : l170 = mulLo a5 b5) (hh171 : h171 = mulHi a5 b5) (ht172 : t172 = addWithCarry t146.val l170 t169.c)
    (ht173 : t173 = addWithCarry h171 (0 : Word) t172.c) (ht174 : t174 = addWithCarry t172.val t168.val false)
    (ht175 : t175 = addWithCarry t173.val (0 : Word) t174.c) :
    run embedded_pairing_core_arch_aarch64_fpbase_384_multiply ({ x0 := pr, x1 := l14, x2 := l141, x3 := t139.val, x4 := a2, x5 := a3, x6 := a4, x7 := a5, x8 := s.x8, x9 := b0, x10 := b1, x11 := b2, x12 := b3, x13 := b4, x14 := b5, x15 := t33.val, x16 := s.x16, x17 := s.x17, x18 := s.x18, x19 := t62.val, x20 := t91.val, x21 := t120.val, x22 := t125.val, x23 := t130.val, x24 := t135.val, x25 := t140.val, x26 := t145.val, x27 := t146.val, x28 := t52.val, x29 := s.x29, x30 := s.x30, sp := s.sp - 16#64 - 16#64 - 16#64 - 16#64 - 16#64 - 16#64, nf := some t146.n, zf := some t146.z, cf := some t146.c, vf := some t146.v, mem := setMem (setMem (setMem (setMem (setMem (setMem (setMem (setMem (setMem (setMem (setMem (setMem (s.mem) (s.sp.toNat - 16) s.x19) (s.sp.toNat - 16 + 8) s.x20) (s.sp.toNat - 16 - 16) s.x21) (s.sp.toNat - 16 - 16 + 8) s.x22) (s.sp.toNat - 16 - 16 - 16) s.x23) (s.sp.toNat - 16 - 16 - 16 + 8) s.x24) (s.sp.toNat - 16 - 16 - 16 - 16) s.x25) (s.sp.toNat - 16 - 16 - 16 - 16 + 8) s.x26) (s.sp.toNat - 16 - 16 - 16 - 16 - 16) s.x27) (s.sp.toNat - 16 - 16 - 16 - 16 - 16 + 8) s.x28) (s.sp.toNat - 16 - 16 - 16 - 16 - 16 - 16) pp) (s.sp.toNat - 16 - 16 - 16 - 16 - 16 - 16 + 8) inv, readable := s.readable, writable := s.writable, pc := 147, status := .running } : State) 29
      = ({ x0 := pr, x1 := l14, x2 := l170, x3 := t168.val, x4 := a2, x5 := a3, x6 := a4, x7 := a5, x8 := s.x8, x9 := b0, x10 := b1, x11 := b2, x12 := b3, x13 := b4, x14 := b5, x15 := t33.val, x16 := s.x16, x17 := s.x17, x18 := s.x18, x19 := t62.val, x20 := t91.val, x21 := t120.val, x22 := t149.val, x23 := t154.val, x24 := t159.val, x25 := t164.val, x26 := t169.val, x27 := t174.val, x28 := t175.val, x29 := s.x29, x30 := s.x30, sp := s.sp - 16#64 - 16#64 - 16#64 - 16#64 - 16#64 - 16#64, nf := some t175.n, zf := some t175.z, cf := some t175.c, vf := some t175.v, mem := setMem (setMem (setMem (setMem (setMem (setMem (setMem (setMem (setMem (setMem (setMem (setMem (s.mem) (s.sp.toNat - 16) s.x19) (s.sp.toNat - 16 + 8) s.x20) (s.sp.toNat - 16 - 16) s.x21) (s.sp.toNat - 16 - 16 + 8) s.x22) (s.sp.toNat - 16 - 16 - 16) s.x23) (s.sp.toNat - 16 - 16 - 16 + 8) s.x24) (s.sp.toNat - 16 - 16 - 16 - 16) s.x25) (s.sp.toNat - 16 - 16 - 16 - 16 + 8) s.x26) (s.sp.toNat - 16 - 16 - 16 - 16 - 16) s.x27) (s.sp.toNat - 16 - 16 - 16 - 16 - 16 + 8) s.x28) (s.sp.toNat - 16 - 16 - 16 - 16 - 16 - 16) pp) (s.sp.toNat - 16 - 16 - 16 - 16 - 16 - 16 + 8) inv, readable := s.readable, writable := s.writable, pc := 176, status := .running } : State) := by
  obtain ⟨ra0, ra1, ra2, ra3, ra4, ra5⟩ := ha.r6
  obtain ⟨⟨alra0, alra1, alra2, alra3, alra4, alra5⟩, fra1, fra2, fra3, fra4, fra5⟩ := ha.addr6
  obtain ⟨rb0, rb1, rb2, rb3, rb4, rb5⟩ := hb.r6
  obtain ⟨⟨alrb0, alrb1, alrb2, alrb3, alrb4, alrb5⟩, frb1, frb2, frb3, frb4, frb5⟩ := hb.addr6
  obtain ⟨rp0, rp1, rp2, rp3, rp4, rp5⟩ := hp.r6
  obtain ⟨⟨alrp0, alrp1, alrp2, alrp3, alrp4, alrp5⟩, frp1, frp2, frp3, frp4, frp5⟩ := hp.addr6
  obtain ⟨rr0, rr1, rr2, rr3, rr4, rr5⟩ := hr.r6
  obtain ⟨wr0, wr1, wr2, wr3, wr4, wr5⟩ := hr.w6
  obtain ⟨⟨alrr0, alrr1, alrr2, alrr3, alrr4, alrr5⟩, frr1, frr2, frr3, frr4, frr5⟩ := hr.addr6
  have als0 := hstk.aligned
  obtain ⟨room1, als1, alq1a, alq1b, sr1a, sr1b, sw1a, sw1b⟩ := hstk.f1 (by omega)
  obtain ⟨room2, als2, alq2a, alq2b, sr2a, sr2b, sw2a, sw2b⟩ := hstk.f2 (by omega)
  obtain ⟨room3, als3, alq3a, alq3b, sr3a, sr3b, sw3a, sw3b⟩ := hstk.f3 (by omega)
  obtain ⟨room4, als4, alq4a, alq4b, sr4a, sr4b, sw4a, sw4b⟩ := hstk.f4 (by omega)
  obtain ⟨room5, als5, alq5a, alq5b, sr5a, sr5b, sw5a, sw5b⟩ := hstk.f5 (by omega)
  obtain ⟨room6, als6, alq6a, alq6b, sr6a, sr6b, sw6a, sw6b⟩ := hstk.f6 (by omega)
  replace hrs := Hide.mk (And.intro room6 hrs); replace has := Hide.mk (And.intro room6 has)
  replace hbs := Hide.mk (And.intro room6 hbs); replace hps := Hide.mk (And.intro room6 hps)
  simp only [OffStack] at hrs has hbs hps
  clear ha hb hp hr hstk
  a64_sym [← hl147, ← hh148, ← ht149, ← hl150, ← hh151, ← ht152, ← ht153, ← ht154, ← hl155, ← hh156, ← ht157, ← ht158, ← ht159, ← hl160, ← hh161, ← ht162, ← ht163, ← ht164, ← hl165, ← hh166, ← ht167, ← ht168, ← ht169, ← hl170, ← hh171, ← ht172, ← ht173, ← ht174, ← ht175]

set_option maxHeartbeats 1600000 in
theorem fpmul_part6 (s : State) (pr pa pb pp inv : Word)
    (hr : Buf s pr 6 true) (ha : Buf s pa 6 false) (hb : Buf s pb 6 false) (hp : Buf s pp 6 false)
    (hstk : Stack s 6) (hrs : OffStack s 6 pr 6) (has : OffStack s 6 pa 6) (hbs : OffStack s 6 pb 6)
    (hps : OffStack s 6 pp 6) {a2 a3 a4 a5 b0 b1 b2 b3 b4 b5 p0 p1 p2 p3 p4 p5 l14 h182 h185 h190 h195 h200 h205 l170 l180 l181 l184 l189 l194 l199 l204 : Word} {t33 t62 t91 t120 t149 t154 t159 t164 t168 t169 t174 t175 t183 t186 t187 t188 t191 t192 t193 t196 t197 t198 t201 t202 t203 t206 t207 t208 t209 t210 : ArithRes}
    (hp0 : p0 = s.mem pp.toNat) (hp1 : p1 = s.mem (pp.toNat + 8)) (hp2 : p2 = s.mem (pp.toNat + 16))
    (hp3 : p3 = s.mem (pp.toNat + 24)) (hp4 : p4 = s.mem (pp.toNat + 32)) (hp5 : p5 = s.mem (pp.toNat + 40))
    (hl180 : l180 = mulLo l14 inv) (hl181 : l181 = mulLo l180 p0) (hh182 : h182 = mulHi l180 p0)
    (ht183 : t183 = addWithCarry l14 l181 false) (hl184 : l184 = mulLo l180 p1) (hh185 : h185 = mulHi l180 p1)
    (ht186 : t186 = addWithCarry t33.val l184 t183.c) (ht187 : t187 = addWithCarry h185 (0 : Word) t186.c)
    (ht188 : t188 = addWithCarry t186.val h182 false) (hl189 : l189 = mulLo l180 p2) (hh190 : h190 = mulHi l180 p2)
    (ht191 : t191 = addWithCarry t62.val l189 t188.c) (ht192 : t192 = addWithCarry h190 (0 : Word) t191.c)
    (ht193 : t193 = addWithCarry t191.val t187.val false) (hl194 : l194 = mulLo l180 p3) (hh195 : h195 = mulHi l180 p3)
    (ht196 : t196 = addWithCarry t91.val l194 t193.c) (ht197 : t197 = addWithCarry h195 (0 : Word) t196.c)
    (ht198 : t198 = addWithCarry t196.val t192.val false) (hl199 : l199 = mulLo l180 p4) (hh200 : h200 = mulHi l180 p4)
    (ht201 : t201 = addWithCarry t120.val l199 t198.c) (ht202 : t202 = addWithCarry h200 (0 : Word) t201.c)
    (ht203 : t203 = addWithCarry t201.val t197.val false) (hl204 : l204 = mulLo l180 p5) (hh205 : h205 = mulHi l180 p5)
    (ht206 : t206 = addWithCarry t149.val l204 t203.c) (ht207 : t207 = addWithCarry h205 (0 : Word) t206.c)
    (ht208 : t208 = addWithCarry t206.val t202.val false) (ht209 : t209 = addWithCarry t154.val t207.val t208.c)
    (ht210 : t210 = addWithCarry (0 : Word) (0 : Word) t209.c) :
    run embedded_pairing_core_arch_aarch64_fpbase_384_multiply ({ x0 := pr, x1 := l14, x2 := l170, x3 := t168.val, x4 := a2, x5 := a3, x6 := a4, x7 := a5, x8 := s.x8, x9 := b0, x10 := b1, x11 := b2, x12 := b3, x13 := b4, x14 := b5, x15 := t33.val, x16 := s.x16, x17 := s.x17, x18 := s.x18, x19 := t62.val, x20 := t91.val, x21 := t120.val, x22 := t149.val, x23 := t154.val, x24 := t159.val, x25 := t164.val, x26 := t169.val, x27 := t174.val, x28 := t175.val, x29 := s.x29, x30 := s.x30, sp := s.sp - 16#64 - 16#64 - 16#64 - 16#64 - 16#64 - 16#64, nf := some t175.n, zf := some t175.z, cf := some t175.c, vf := some t175.v, mem := setMem (setMem (setMem (setMem (setMem (setMem (setMem (setMem (setMem (setMem (setMem (setMem (s.mem) (s.sp.toNat - 16) s.x19) (s.sp.toNat - 16 + 8) s.x20) (s.sp.toNat - 16 - 16) s.x21) (s.sp.toNat - 16 - 16 + 8) s.x22) (s.sp.toNat - 16 - 16 - 16) s.x23) (s.sp.toNat - 16 - 16 - 16 + 8) s.x24) (s.sp.toNat - 16 - 16 - 16 - 16) s.x25) (s.sp.toNat - 16 - 16 - 16 - 16 + 8) s.x26) (s.sp.toNat - 16 - 16 - 16 - 16 - 16) s.x27) (s.sp.toNat - 16 - 16 - 16 - 16 - 16 + 8) s.x28) (s.sp.toNat - 16 - 16 - 16 - 16 - 16 - 16) pp) (s.sp.toNat - 16 - 16 - 16 - 16 - 16 - 16 + 8) inv, readable := s.readable, writable := s.writable, pc := 176, status := .running } : State) 35
      = ({ x0 := pr, x1 := t210.val, x2 := l180, x3 := inv, x4 := t202.val, x5 := l204, x6 := a4, x7 := a5, x8 := s.x8, x9 := p0, x10 := p1, x11 := p2, x12 := p3, x13 := p4, x14 := p5, x15 := t188.val, x16 := s.x16, x17 := s.x17, x18 := s.x18, x19 := t193.val, x20 := t198.val, x21 := t203.val, x22 := t208.val, x23 := t209.val, x24 := t159.val, x25 := t164.val, x26 := t169.val, x27 := t174.val, x28 := t175.val, x29 := s.x29, x30 := s.x30, sp := s.sp - 16#64 - 16#64 - 16#64 - 16#64 - 16#64, nf := some t210.n, zf := some t210.z, cf := some t210.c, vf := some t210.v, mem := setMem (setMem (setMem (setMem (setMem (setMem (setMem (setMem (setMem (setMem (setMem (setMem (s.mem) (s.sp.toNat - 16) s.x19) (s.sp.toNat - 16 + 8) s.x20) (s.sp.toNat - 16 - 16) s.x21) (s.sp.toNat - 16 - 16 + 8) s.x22) (s.sp.toNat - 16 - 16 - 16) s.x23) (s.sp.toNat - 16 - 16 - 16 + 8) s.x24) (s.sp.toNat - 16 - 16 - 16 - 16) s.x25) (s.sp.toNat - 16 - 16 - 16 - 16 + 8) s.x26) (s.sp.toNat - 16 - 16 - 16 - 16 - 16) s.x27) (s.sp.toNat - 16 - 16 - 16 - 16 - 16 + 8) s.x28) (s.sp.toNat - 16 - 16 - 16 - 16 - 16 - 16) pp) (s.sp.toNat - 16 - 16 - 16 - 16 - 16 - 16 + 8) inv, readable := s.readable, writable := s.writable, pc := 211, status := .running } : State) := by
  obtain ⟨ra0, ra1, ra2, ra3, ra4, ra5⟩ := ha.r6
  obtain ⟨⟨alra0, alra1, alra2, alra3, alra4, alra5⟩, fra1, fra2, fra3, fra4, fra5⟩ := ha.addr6
  obtain ⟨rb0, rb1, rb2, rb3, rb4, rb5⟩ := hb.r6
  obtain ⟨⟨alrb0, alrb1, alrb2, alrb3, alrb4, alrb5⟩, frb1, frb2, frb3, frb4, frb5⟩ := hb.addr6
  obtain ⟨rp0, rp1, rp2, rp3, rp4, rp5⟩ := hp.r6
  obtain ⟨⟨alrp0, alrp1, alrp2, alrp3, alrp4, alrp5⟩, frp1, frp2, frp3, frp4, frp5⟩ := hp.addr6
  obtain ⟨rr0, rr1, rr2, rr3, rr4, rr5⟩ := hr.r6
  obtain ⟨wr0, wr1, wr2, wr3, wr4, wr5⟩ := hr.w6
  obtain ⟨⟨alrr0, alrr1, alrr2, alrr3, alrr4, alrr5⟩, frr1, frr2, frr3, frr4, frr5⟩ := hr.addr6
  have als0 := hstk.aligned
  obtain ⟨room1, als1, alq1a, alq1b, sr1a, sr1b, sw1a, sw1b⟩ := hstk.f1 (by omega)
  obtain ⟨room2, als2, alq2a, alq2b, sr2a, sr2b, sw2a, sw2b⟩ := hstk.f2 (by omega)
  obtain ⟨room3, als3, alq3a, alq3b, sr3a, sr3b, sw3a, sw3b⟩ := hstk.f3 (by omega)
  obtain ⟨room4, als4, alq4a, alq4b, sr4a, sr4b, sw4a, sw4b⟩ := hstk.f4 (by omega)
  obtain ⟨room5, als5, alq5a, alq5b, sr5a, sr5b, sw5a, sw5b⟩ := hstk.f5 (by omega)
  obtain ⟨room6, als6, alq6a, alq6b, sr6a, sr6b, sw6a, sw6b⟩ := hstk.f6 (by omega)
  replace hrs := Hide.mk (And.intro room6 hrs); replace has := Hide.mk (And.intro room6 has)
  replace hbs := Hide.mk (And.intro room6 hbs); replace hps := Hide.mk (And.intro room6 hps)
  simp only [OffStack] at hrs has hbs hps
  clear ha hb hp hr hstk
  a64_sym [← hp0, ← hp1, ← hp2, ← hp3, ← hp4, ← hp5, ← hl180, ← hl181, ← hh182, ← ht183, ← hl184, ← hh185, ← ht186, ← ht187, ← ht188, ← hl189, ← hh190, ← ht191, ← ht192, ← ht193, ← hl194, ← hh195, ← ht196, ← ht197, ← ht198, ← hl199, ← hh200, ← ht201, ← ht202, ← ht203, ← hl204, ← hh205, ← ht206, ← ht207, ← ht208, ← ht209, ← ht210]

set_option maxHeartbeats 1600000 in
theorem fpmul_part7 (s : State) (pr pa pb pp inv : Word)
    (hr : Buf s pr 6 true) (ha : Buf s pa 6 false) (hb : Buf s pb 6 false) (hp : Buf s pp 6 false)
    (hstk : Stack s 6) (hrs : OffStack s 6 pr 6) (has : OffStack s 6 pa 6) (hbs : OffStack s 6 pb 6)
    (hps : OffStack s 6 pp 6) {a4 a5 p0 p1 p2 p3 p4 p5 h213 h216 h221 h226 h231 h236 l180 l204 l211 l212 l215 l220 l225 l230 l235 : Word} {t159 t164 t169 t174 t175 t188 t193 t198 t202 t203 t208 t209 t210 t214 t217 t218 t219 t222 t223 t224 t227 t228 t229 t232 t233 t234 t237 t238 t239 t240 t241 t242 t243 : ArithRes}
    (hl211 : l211 = mulLo t188.val inv) (hl212 : l212 = mulLo l211 p0) (hh213 : h213 = mulHi l211 p0)
    (ht214 : t214 = addWithCarry t188.val l212 false) (hl215 : l215 = mulLo l211 p1) (hh216 : h216 = mulHi l211 p1)
    (ht217 : t217 = addWithCarry t193.val l215 t214.c) (ht218 : t218 = addWithCarry h216 (0 : Word) t217.c)
    (ht219 : t219 = addWithCarry t217.val h213 false) (hl220 : l220 = mulLo l211 p2) (hh221 : h221 = mulHi l211 p2)
    (ht222 : t222 = addWithCarry t198.val l220 t219.c) (ht223 : t223 = addWithCarry h221 (0 : Word) t222.c)
    (ht224 : t224 = addWithCarry t222.val t218.val false) (hl225 : l225 = mulLo l211 p3) (hh226 : h226 = mulHi l211 p3)
    (ht227 : t227 = addWithCarry t203.val l225 t224.c) (ht228 : t228 = addWithCarry h226 (0 : Word) t227.c)
    (ht229 : t229 = addWithCarry t227.val t223.val false) (hl230 : l230 = mulLo l211 p4) (hh231 : h231 = mulHi l211 p4)
    (ht232 : t232 = addWithCarry t208.val l230 t229.c) (ht233 : t233 = addWithCarry h231 (0 : Word) t232.c)
    (ht234 : t234 = addWithCarry t232.val t228.val false) (hl235 : l235 = mulLo l211 p5) (hh236 : h236 = mulHi l211 p5)
    (ht237 : t237 = addWithCarry t209.val l235 t234.c) (ht238 : t238 = addWithCarry h236 (0 : Word) t237.c)
    (ht239 : t239 = addWithCarry t237.val t233.val false) (ht240 : t240 = addWithCarry t238.val (0 : Word) t239.c)
    (ht241 : t241 = addWithCarry t210.val (~~~1#64) true) (ht242 : t242 = addWithCarry t159.val t240.val t241.c)
    (ht243 : t243 = addWithCarry (0 : Word) (0 : Word) t242.c) :
    run embedded_pairing_core_arch_aarch64_fpbase_384_multiply ({ x0 := pr, x1 := t210.val, x2 := l180, x3 := inv, x4 := t202.val, x5 := l204, x6 := a4, x7 := a5, x8 := s.x8, x9 := p0, x10 := p1, x11 := p2, x12 := p3, x13 := p4, x14 := p5, x15 := t188.val, x16 := s.x16, x17 := s.x17, x18 := s.x18, x19 := t193.val, x20 := t198.val, x21 := t203.val, x22 := t208.val, x23 := t209.val, x24 := t159.val, x25 := t164.val, x26 := t169.val, x27 := t174.val, x28 := t175.val, x29 := s.x29, x30 := s.x30, sp := s.sp - 16#64 - 16#64 - 16#64 - 16#64 - 16#64, nf := some t210.n, zf := some t210.z, cf := some t210.c, vf := some t210.v, mem := setMem (setMem (setMem (setMem (setMem (setMem (setMem (setMem (setMem (setMem (setMem (setMem (s.mem) (s.sp.toNat - 16) s.x19) (s.sp.toNat - 16 + 8) s.x20) (s.sp.toNat - 16 - 16) s.x21) (s.sp.toNat - 16 - 16 + 8) s.x22) (s.sp.toNat - 16 - 16 - 16) s.x23) (s.sp.toNat - 16 - 16 - 16 + 8) s.x24) (s.sp.toNat - 16 - 16 - 16 - 16) s.x25) (s.sp.toNat - 16 - 16 - 16 - 16 + 8) s.x26) (s.sp.toNat - 16 - 16 - 16 - 16 - 16) s.x27) (s.sp.toNat - 16 - 16 - 16 - 16 - 16 + 8) s.x28) (s.sp.toNat - 16 - 16 - 16 - 16 - 16 - 16) pp) (s.sp.toNat - 16 - 16 - 16 - 16 - 16 - 16 + 8) inv, readable := s.readable, writable := s.writable, pc := 211, status := .running } : State) 33
      = ({ x0 := pr, x1 := t243.val, x2 := l211, x3 := inv, x4 := t233.val, x5 := l235, x6 := a4, x7 := a5, x8 := s.x8, x9 := p0, x10 := p1, x11 := p2, x12 := p3, x13 := p4, x14 := p5, x15 := t240.val, x16 := s.x16, x17 := s.x17, x18 := s.x18, x19 := t219.val, x20 := t224.val, x21 := t229.val, x22 := t234.val, x23 := t239.val, x24 := t242.val, x25 := t164.val, x26 := t169.val, x27 := t174.val, x28 := t175.val, x29 := s.x29, x30 := s.x30, sp := s.sp - 16#64 - 16#64 - 16#64 - 16#64 - 16#64, nf := some t243.n, zf := some t243.z, cf := some t243.c, vf := some t243.v, mem := setMem (setMem (setMem (setMem (setMem (setMem (setMem (setMem (setMem (setMem (setMem (setMem (s.mem) (s.sp.toNat - 16) s.x19) (s.sp.toNat - 16 + 8) s.x20) (s.sp.toNat - 16 - 16) s.x21) (s.sp.toNat - 16 - 16 + 8) s.x22) (s.sp.toNat - 16 - 16 - 16) s.x23) (s.sp.toNat - 16 - 16 - 16 + 8) s.x24) (s.sp.toNat - 16 - 16 - 16 - 16) s.x25) (s.sp.toNat - 16 - 16 - 16 - 16 + 8) s.x26) (s.sp.toNat - 16 - 16 - 16 - 16 - 16) s.x27) (s.sp.toNat - 16 - 16 - 16 - 16 - 16 + 8) s.x28) (s.sp.toNat - 16 - 16 - 16 - 16 - 16 - 16) pp) (s.sp.toNat - 16 - 16 - 16 - 16 - 16 - 16 + 8) inv, readable := s.readable, writable := s.writable, pc := 244, status := .running } : State) := by
  obtain ⟨ra0, ra1, ra2, ra3, ra4, ra5⟩ := ha.r6
  obtain ⟨⟨alra0, alra1, alra2, alra3, alra4, alra5⟩, fra1, fra2, fra3, fra4, fra5⟩ := ha.addr6
  obtain ⟨rb0, rb1, rb2, rb3, rb4, rb5⟩ := hb.r6
  obtain ⟨⟨alrb0, alrb1, alrb2, alrb3, alrb4, alrb5⟩, frb1, frb2, frb3, frb4, frb5⟩ := hb.addr6
  obtain ⟨rp0, rp1, rp2, rp3, rp4, rp5⟩ := hp.r6
  obtain ⟨⟨alrp0, alrp1, alrp2, alrp3, alrp4, alrp5⟩, frp1, frp2, frp3, frp4, frp5⟩ := hp.addr6
  obtain ⟨rr0, rr1, rr2, rr3, rr4, rr5⟩ := hr.r6
  obtain ⟨wr0, wr1, wr2, wr3, wr4, wr5⟩ := hr.w6
  obtain ⟨⟨alrr0, alrr1, alrr2, alrr3, alrr4, alrr5⟩, frr1, frr2, frr3, frr4, frr5⟩ := hr.addr6
  have als0 := hstk.aligned
  obtain ⟨room1, als1, alq1a, alq1b, sr1a, sr1b, sw1a, sw1b⟩ := hstk.f1 (by omega)
  obtain ⟨room2, als2, alq2a, alq2b, sr2a, sr2b, sw2a, sw2b⟩ := hstk.f2 (by omega)
  obtain ⟨room3, als3, alq3a, alq3b, sr3a, sr3b, sw3a, sw3b⟩ := hstk.f3 (by omega)
  obtain ⟨room4, als4, alq4a, alq4b, sr4a, sr4b, sw4a, sw4b⟩ := hstk.f4 (by omega)
  obtain ⟨room5, als5, alq5a, alq5b, sr5a, sr5b, sw5a, sw5b⟩ := hstk.f5 (by omega)
  obtain ⟨room6, als6, alq6a, alq6b, sr6a, sr6b, sw6a, sw6b⟩ := hstk.f6 (by omega)
  replace hrs := Hide.mk (And.intro room6 hrs); replace has := Hide.mk (And.intro room6 has)
  replace hbs := Hide.mk (And.intro room6 hbs); replace hps := Hide.mk (And.intro room6 hps)
  simp only [OffStack] at hrs has hbs hps
  clear ha hb hp hr hstk
  a64_sym [← hl211, ← hl212, ← hh213, ← ht214, ← hl215, ← hh216, ← ht217, ← ht218, ← ht219, ← hl220, ← hh221, ← ht222, ← ht223, ← ht224, ← hl225, ← hh226, ← ht227, ← ht228, ← ht229, ← hl230, ← hh231, ← ht232, ← ht233, ← ht234, ← hl235, ← hh236, ← ht237, ← ht238, ← ht239, ← ht240, ← ht241, ← ht242, ← ht243]

set_option maxHeartbeats 1600000 in
theorem fpmul_part8 (s : State) (pr pa pb pp inv : Word)
    (hr : Buf s pr 6 true) (ha : Buf s pa 6 false) (hb : Buf s pb 6 false) (hp : Buf s pp 6 false)
    (hstk : Stack s 6) (hrs : OffStack s 6 pr 6) (has : OffStack s 6 pa 6) (hbs : OffStack s 6 pb 6)
    (hps : OffStack s 6 pp 6) {a4 a5 p0 p1 p2 p3 p4 p5 h246 h249 h254 h259 h264 h269 l211 l235 l244 l245 l248 l253 l258 l263 l268 : Word} {t164 t169 t174 t175 t219 t224 t229 t233 t234 t239 t240 t242 t243 t247 t250 t251 t252 t255 t256 t257 t260 t261 t262 t265 t266 t267 t270 t271 t272 t273 t274 t275 t276 : ArithRes}
    (hl244 : l244 = mulLo t219.val inv) (hl245 : l245 = mulLo l244 p0) (hh246 : h246 = mulHi l244 p0)
    (ht247 : t247 = addWithCarry t219.val l245 false) (hl248 : l248 = mulLo l244 p1) (hh249 : h249 = mulHi l244 p1)
    (ht250 : t250 = addWithCarry t224.val l248 t247.c) (ht251 : t251 = addWithCarry h249 (0 : Word) t250.c)
    (ht252 : t252 = addWithCarry t250.val h246 false) (hl253 : l253 = mulLo l244 p2) (hh254 : h254 = mulHi l244 p2)
    (ht255 : t255 = addWithCarry t229.val l253 t252.c) (ht256 : t256 = addWithCarry h254 (0 : Word) t255.c)
    (ht257 : t257 = addWithCarry t255.val t251.val false) (hl258 : l258 = mulLo l244 p3) (hh259 : h259 = mulHi l244 p3)
    (ht260 : t260 = addWithCarry t234.val l258 t257.c) (ht261 : t261 = addWithCarry h259 (0 : Word) t260.c)
    (ht262 : t262 = addWithCarry t260.val t256.val false) (hl263 : l263 = mulLo l244 p4) (hh264 : h264 = mulHi l244 p4)
    (ht265 : t265 = addWithCarry t239.val l263 t262.c) (ht266 : t266 = addWithCarry h264 (0 : Word) t265.c)
    (ht267 : t267 = addWithCarry t265.val t261.val false) (hl268 : l268 = mulLo l244 p5) (hh269 : h269 = mulHi l244 p5)
    (ht270 : t270 = addWithCarry t242.val l268 t267.c) (ht271 : t271 = addWithCarry h269 (0 : Word) t270.c)
    (ht272 : t272 = addWithCarry t270.val t266.val false) (ht273 : t273 = addWithCarry t271.val (0 : Word) t272.c)
    (ht274 : t274 = addWithCarry t243.val (~~~1#64) true) (ht275 : t275 = addWithCarry t164.val t273.val t274.c)
    (ht276 : t276 = addWithCarry (0 : Word) (0 : Word) t275.c) :
    run embedded_pairing_core_arch_aarch64_fpbase_384_multiply ({ x0 := pr, x1 := t243.val, x2 := l211, x3 := inv, x4 := t233.val, x5 := l235, x6 := a4, x7 := a5, x8 := s.x8, x9 := p0, x10 := p1, x11 := p2, x12 := p3, x13 := p4, x14 := p5, x15 := t240.val, x16 := s.x16, x17 := s.x17, x18 := s.x18, x19 := t219.val, x20 := t224.val, x21 := t229.val, x22 := t234.val, x23 := t239.val, x24 := t242.val, x25 := t164.val, x26 := t169.val, x27 := t174.val, x28 := t175.val, x29 := s.x29, x30 := s.x30, sp := s.sp - 16#64 - 16#64 - 16#64 - 16#64 - 16#64, nf := some t243.n, zf := some t243.z, cf := some t243.c, vf := some t243.v, mem := setMem (setMem (setMem (setMem (setMem (setMem (setMem (setMem (setMem (setMem (setMem (setMem (s.mem) (s.sp.toNat - 16) s.x19) (s.sp.toNat - 16 + 8) s.x20) (s.sp.toNat - 16 - 16) s.x21) (s.sp.toNat - 16 - 16 + 8) s.x22) (s.sp.toNat - 16 - 16 - 16) s.x23) (s.sp.toNat - 16 - 16 - 16 + 8) s.x24) (s.sp.toNat - 16 - 16 - 16 - 16) s.x25) (s.sp.toNat - 16 - 16 - 16 - 16 + 8) s.x26) (s.sp.toNat - 16 - 16 - 16 - 16 - 16) s.x27) (s.sp.toNat - 16 - 16 - 16 - 16 - 16 + 8) s.x28) (s.sp.toNat - 16 - 16 - 16 - 16 - 16 - 16) pp) (s.sp.toNat - 16 - 16 - 16 - 16 - 16 - 16 + 8) inv, readable := s.readable, writable := s.writable, pc := 244, status := .running } : State) 33
      = ({ x0 := pr, x1 := t276.val, x2 := l244, x3 := inv, x4 := t266.val, x5 := l268, x6 := a4, x7 := a5, x8 := s.x8, x9 := p0, x10 := p1, x11 := p2, x12 := p3, x13 := p4, x14 := p5, x15 := t240.val, x16 := s.x16, x17 := s.x17, x18 := s.x18, x19 := t273.val, x20 := t252.val, x21 := t257.val, x22 := t262.val, x23 := t267.val, x24 := t272.val, x25 := t275.val, x26 := t169.val, x27 := t174.val, x28 := t175.val, x29 := s.x29, x30 := s.x30, sp := s.sp - 16#64 - 16#64 - 16#64 - 16#64 - 16#64, nf := some t276.n, zf := some t276.z, cf := some t276.c, vf := some t276.v, mem := setMem (setMem (setMem (setMem (setMem (setMem (setMem (setMem (setMem (setMem (setMem (setMem (s.mem) (s.sp.toNat - 16) s.x19) (s.sp.toNat - 16 + 8) s.x20) (s.sp.toNat - 16 - 16) s.x21) (s.sp.toNat - 16 - 16 + 8) s.x22) (s.sp.toNat - 16 - 16 - 16) s.x23) (s.sp.toNat - 16 - 16 - 16 + 8) s.x24) (s.sp.toNat - 16 - 16 - 16 - 16) s.x25) (s.sp.toNat - 16 - 16 - 16 - 16 + 8) s.x26) (s.sp.toNat - 16 - 16 - 16 - 16 - 16) s.x27) (s.sp.toNat - 16 - 16 - 16 - 16 - 16 + 8) s.x28) (s.sp.toNat - 16 - 16 - 16 - 16 - 16 - 16) pp) (s.sp.toNat - 16 - 16 - 16 - 16 - 16 - 16 + 8) inv, readable := s.readable, writable := s.writable, pc := 277, status := .running } : State) := by
  obtain ⟨ra0, ra1, ra2, ra3, ra4, ra5⟩ := ha.r6
  obtain ⟨⟨alra0, alra1, alra2, alra3, alra4, alra5⟩, fra1, fra2, fra3, fra4, fra5⟩ := ha.addr6
  obtain ⟨rb0, rb1, rb2, rb3, rb4, rb5⟩ := hb.r6
  obtain ⟨⟨alrb0, alrb1, alrb2, alrb3, alrb4, alrb5⟩, frb1, frb2, frb3, frb4, frb5⟩ := hb.addr6
  obtain ⟨rp0, rp1, rp2, rp3, rp4, rp5⟩ := hp.r6
  obtain ⟨⟨alrp0, alrp1, alrp2, alrp3, alrp4, alrp5⟩, frp1, frp2, frp3, frp4, frp5⟩ := hp.addr6
  obtain ⟨rr0, rr1, rr2, rr3, rr4, rr5⟩ := hr.r6
  obtain ⟨wr0, wr1, wr2, wr3, wr4, wr5⟩ := hr.w6
  obtain ⟨⟨alrr0, alrr1, alrr2, alrr3, alrr4, alrr5⟩, frr1, frr2, frr3, frr4, frr5⟩ := hr.addr6
  have als0 := hstk.aligned
  obtain ⟨room1, als1, alq1a, alq1b, sr1a, sr1b, sw1a, sw1b⟩ := hstk.f1 (by omega)
  obtain ⟨room2, als2, alq2a, alq2b, sr2a, sr2b, sw2a, sw2b⟩ := hstk.f2 (by omega)
  obtain ⟨room3, als3, alq3a, alq3b, sr3a, sr3b, sw3a, sw3b⟩ := hstk.f3 (by omega)
  obtain ⟨room4, als4, alq4a, alq4b, sr4a, sr4b, sw4a, sw4b⟩ := hstk.f4 (by omega)
  obtain ⟨room5, als5, alq5a, alq5b, sr5a, sr5b, sw5a, sw5b⟩ := hstk.f5 (by omega)
  obtain ⟨room6, als6, alq6a, alq6b, sr6a, sr6b, sw6a, sw6b⟩ := hstk.f6 (by omega)
  replace hrs := Hide.mk (And.intro room6 hrs); replace has := Hide.mk (And.intro room6 has)
  replace hbs := Hide.mk (And.intro room6 hbs); replace hps := Hide.mk (And.intro room6 hps)
  simp only [OffStack] at hrs has hbs hps
  clear ha hb hp hr hstk
  a64_sym [← hl244, ← hl245, ← hh246, ← ht247, ← hl248, ← hh249, ← ht250, ← ht251, ← ht252, ← hl253, ← hh254, ← ht255, ← ht256, ← ht257, ← hl258, ← hh259, ← ht260, ← ht261, ← ht262, ← hl263, ← hh264, ← ht265, ← ht266, ← ht267, ← hl268, ← hh269, ← ht270, ← ht271, ← ht272, ← ht273, ← ht274, ← ht275, ← ht276]

set_option maxHeartbeats 1600000 in
theorem fpmul_part9 (s : State) (pr pa pb pp inv : Word)
    (hr : Buf s pr 6 true) (ha : Buf s pa 6 false) (hb : Buf s pb 6 false) (hp : Buf s pp 6 false)
    (hstk : Stack s 6) (hrs : OffStack s 6 pr 6) (has : OffStack s 6 pa 6) (hbs : OffStack s 6 pb 6)
    (hps : OffStack s 6 pp 6) {a4 a5 p0 p1 p2 p3 p4 p5 h279 h282 h287 h292 h297 h302 l244 l268 l277 l278 l281 l286 l291 l296 l301 : Word} {t169 t174 t175 t240 t252 t257 t262 t266 t267 t272 t273 t275 t276 t280 t283 t284 t285 t288 t289 t290 t293 t294 t295 t298 t299 t300 t303 t304 t305 t306 t307 t308 t309 : ArithRes}
    (hl277 : l277 = mulLo t252.val inv) (hl278 : l278 = mulLo l277 p0) (hh279 : h279 = mulHi l277 p0)
    (ht280 : t280 = addWithCarry t252.val l278 false) (hl281 : l281 = mulLo l277 p1) (hh282 : h282 = mulHi l277 p1)
    (ht283 : t283 = addWithCarry t257.val l281 t280.c) (ht284 : t284 = addWithCarry h282 (0 : Word) t283.c)
    (ht285 : t285 = addWithCarry t283.val h279 false) (hl286 : l286 = mulLo l277 p2) (hh287 : h287 = mulHi l277 p2)
    (ht288 : t288 = addWithCarry t262.val l286 t285.c) (ht289 : t289 = addWithCarry h287 (0 : Word) t288.c)
    (ht290 : t290 = addWithCarry t288.val t284.val false) (hl291 : l291 = mulLo l277 p3) (hh292 : h292 = mulHi l277 p3)
    (ht293 : t293 = addWithCarry t267.val l291 t290.c) (ht294 : t294 = addWithCarry h292 (0 : Word) t293.c)
    (ht295 : t295 = addWithCarry t293.val t289.val false) (hl296 : l296 = mulLo l277 p4) (hh297 : h297 = mulHi l277 p4)
    (ht298 : t298 = addWithCarry t272.val l296 t295.c) (ht299 : t299 = addWithCarry h297 (0 : Word) t298.c)
    (ht300 : t300 = addWithCarry t298.val t294.val false) (hl301 : l301 = mulLo l277 p5) (hh302 : h302 = mulHi l277 p5)
    (ht303 : t303 = addWithCarry t275.val l301 t300.c) (ht304 : t304 = addWithCarry h302 (0 : Word) t303.c)
    (ht305 : t305 = addWithCarry t303.val t299.val false) (ht306 : t306 = addWithCarry t304.val (0 : Word) t305.c)
    (ht307 : t307 = addWithCarry t276.val (~~~1#64) true) (ht308 : t308 = addWithCarry t169.val t306.val t307.c)
    (ht309 : t309 = addWithCarry (0 : Word) (0 : Word) t308.c) :
    run embedded_pairing_core_arch_aarch64_fpbase_384_multiply ({ x0 := pr, x1 := t276.val, x2 := l244, x3 := inv, x4 := t266.val, x5 := l268, x6 := a4, x7 := a5, x8 := s.x8, x9 := p0, x10 := p1, x11 := p2, x12 := p3, x13 := p4, x14 := p5, x15 := t240.val, x16 := s.x16, x17 := s.x17, x18 := s.x18, x19 := t273.val, x20 := t252.val, x21 := t257.val, x22 := t262.val, x23 := t267.val, x24 := t272.val, x25 := t275.val, x26 := t169.val, x27 := t174.val, x28 := t175.val, x29 := s.x29, x30 := s.x30, sp := s.sp - 16#64 - 16#64 - 16#64 - 16#64 - 16#64, nf := some t276.n, zf := some t276.z, cf := some t276.c, vf := some t276.v, mem := setMem (setMem (setMem (setMem (setMem (setMem (setMem (setMem (setMem (setMem (setMem (setMem (s.mem) (s.sp.toNat - 16) s.x19) (s.sp.toNat - 16 + 8) s.x20) (s.sp.toNat - 16 - 16) s.x21) (s.sp.toNat - 16 - 16 + 8) s.x22) (s.sp.toNat - 16 - 16 - 16) s.x23) (s.sp.toNat - 16 - 16 - 16 + 8) s.x24) (s.sp.toNat - 16 - 16 - 16 - 16) s.x25) (s.sp.toNat - 16 - 16 - 16 - 16 + 8) s.x26) (s.sp.toNat - 16 - 16 - 16 - 16 - 16) s.x27) (s.sp.toNat - 16 - 16 - 16 - 16 - 16 + 8) s.x28) (s.sp.toNat - 16 - 16 - 16 - 16 - 16 - 16) pp) (s.sp.toNat - 16 - 16 - 16 - 16 - 16 - 16 + 8) inv, readable := s.readable, writable := s.writable, pc := 277, status := .running } : State) 33
      = ({ x0 := pr, x1 := t309.val, x2 := l277, x3 := inv, x4 := t299.val, x5 := l301, x6 := a4, x7 := a5, x8 := s.x8, x9 := p0, x10 := p1, x11 := p2, x12 := p3, x13 := p4, x14 := p5, x15 := t240.val, x16 := s.x16, x17 := s.x17, x18 := s.x18, x19 := t273.val, x20 := t306.val, x21 := t285.val, x22 := t290.val, x23 := t295.val, x24 := t300.val, x25 := t305.val, x26 := t308.val, x27 := t174.val, x28 := t175.val, x29 := s.x29, x30 := s.x30, sp := s.sp - 16#64 - 16#64 - 16#64 - 16#64 - 16#64, nf := some t309.n, zf := some t309.z, cf := some t309.c, vf := some t309.v, mem := setMem (setMem (setMem (setMem (setMem (setMem (setMem (setMem (setMem (setMem (setMem (setMem (s.mem) (s.sp.toNat - 16) s.x19) (s.sp.toNat - 16 + 8) s.x20) (s.sp.toNat - 16 - 16) s.x21) (s.sp.toNat - 16 - 16 + 8) s.x22) (s.sp.toNat - 16 - 16 - 16) s.x23) (s.sp.toNat - 16 - 16 - 16 + 8) s.x24) (s.sp.toNat - 16 - 16 - 16 - 16) s.x25) (s.sp.toNat - 16 - 16 - 16 - 16 + 8) s.x26) (s.sp.toNat - 16 - 16 - 16 - 16 - 16) s.x27) (s.sp.toNat - 16 - 16 - 16 - 16 - 16 + 8) s.x28) (s.sp.toNat - 16 - 16 - 16 - 16 - 16 - 16) pp) (s.sp.toNat - 16 - 16 - 16 - 16 - 16 - 16 + 8) inv, readable := s.readable, writable := s.writable, pc := 310, status := .running } : State) := by
  obtain ⟨ra0, ra1, ra2, ra3, ra4, ra5⟩ := ha.r6
  obtain ⟨⟨alra0, alra1, alra2, alra3, alra4, alra5⟩, fra1, fra2, fra3, fra4, fra5⟩ := ha.addr6
  obtain ⟨rb0, rb1, rb2, rb3, rb4, rb5⟩ := hb.r6
  obtain ⟨⟨alrb0, alrb1, alrb2, alrb3, alrb4, alrb5⟩, frb1, frb2, frb3, frb4, frb5⟩ := hb.addr6
  obtain ⟨rp0, rp1, rp2, rp3, rp4, rp5⟩ := hp.r6
  obtain ⟨⟨alrp0, alrp1, alrp2, alrp3, alrp4, alrp5⟩, frp1, frp2, frp3, frp4, frp5⟩ := hp.addr6
  obtain ⟨rr0, rr1, rr2, rr3, rr4, rr5⟩ := hr.r6
  obtain ⟨wr0, wr1, wr2, wr3, wr4, wr5⟩ := hr.w6
  obtain ⟨⟨alrr0, alrr1, alrr2, alrr3, alrr4, alrr5⟩, frr1, frr2, frr3, frr4, frr5⟩ := hr.addr6
  have als0 := hstk.aligned
  obtain ⟨room1, als1, alq1a, alq1b, sr1a, sr1b, sw1a, sw1b⟩ := hstk.f1 (by omega)
  obtain ⟨room2, als2, alq2a, alq2b, sr2a, sr2b, sw2a, sw2b⟩ := hstk.f2 (by omega)
  obtain ⟨room3, als3, alq3a, alq3b, sr3a, sr3b, sw3a, sw3b⟩ := hstk.f3 (by omega)
  obtain ⟨room4, als4, alq4a, alq4b, sr4a, sr4b, sw4a, sw4b⟩ := hstk.f4 (by omega)
  obtain ⟨room5, als5, alq5a, alq5b, sr5a, sr5b, sw5a, sw5b⟩ := hstk.f5 (by omega)
  obtain ⟨room6, als6, alq6a, alq6b, sr6a, sr6b, sw6a, sw6b⟩ := hstk.f6 (by omega)
  replace hrs := Hide.mk (And.intro room6 hrs); replace has := Hide.mk (And.intro room6 has)
  replace hbs := Hide.mk (And.intro room6 hbs); replace hps := Hide.mk (And.intro room6 hps)
  simp only [OffStack] at hrs has hbs hps
  clear ha hb hp hr hstk
  a64_sym [← hl277, ← hl278, ← hh279, ← ht280, ← hl281, ← hh282, ← ht283, ← ht284, ← ht285, ← hl286, ← hh287, ← ht288, ← ht289, ← ht290, ← hl291, ← hh292, ← ht293, ← ht294, ← ht295, ← hl296, ← hh297, ← ht298, ← ht299, ← ht300, ← hl301, ← hh302, ← ht303, ← ht304, ← ht305, ← ht306, ← ht307, ← ht308, ← ht309]

set_option maxHeartbeats 1600000 in
theorem fpmul_part10 (s : State) (pr pa pb pp inv : Word)
    (hr : Buf s pr 6 true) (ha : Buf s pa 6 false) (hb : Buf s pb 6 false) (hp : Buf s pp 6 false)
    (hstk : Stack s 6) (hrs : OffStack s 6 pr 6) (has : OffStack s 6 pa 6) (hbs : OffStack s 6 pb 6)
    (hps : OffStack s 6 pp 6) {a4 a5 p0 p1 p2 p3 p4 p5 h312 h315 h320 h325 h330 h335 l277 l301 l310 l311 l314 l319 l324 l329 l334 : Word} {t174 t175 t240 t273 t285 t290 t295 t299 t300 t305 t306 t308 t309 t313 t316 t317 t318 t321 t322 t323 t326 t327 t328 t331 t332 t333 t336 t337 t338 t339 t340 t341 t342 : ArithRes}
    (hl310 : l310 = mulLo t285.val inv) (hl311 : l311 = mulLo l310 p0) (hh312 : h312 = mulHi l310 p0)
    (ht313 : t313 = addWithCarry t285.val l311 false) (hl314 : l314 = mulLo l310 p1) (hh315 : h315 = mulHi l310 p1)
    (ht316 : t316 = addWithCarry t290.val l314 t313.c) (ht317 : t317 = addWithCarry h315 (0 : Word) t316.c)
    (ht318 : t318 = addWithCarry t316.val h312 false) (hl319 : l319 = mulLo l310 p2) (hh320 : h320 = mulHi l310 p2)
    (ht321 : t321 = addWithCarry t295.val l319 t318.c) (ht322 : t322 = addWithCarry h320 (0 : Word) t321.c)
    (ht323 : t323 = addWithCarry t321.val t317.val false) (hl324 : l324 = mulLo l310 p3) (hh325 : h325 = mulHi l310 p3)
    (ht326 : t326 = addWithCarry t300.val l324 t323.c) (ht327 : t327 = addWithCarry h325 (0 : Word) t326.c)
    (ht328 : t328 = addWithCarry t326.val t322.val false) (hl329 : l329 = mulLo l310 p4) (hh330 : h330 = mulHi l310 p4)
    (ht331 : t331 = addWithCarry t305.val l329 t328.c) (ht332 : t332 = addWithCarry h330 (0 : Word) t331.c)
    (ht333 : t333 = addWithCarry t331.val t327.val false) (hl334 : l334 = mulLo l310 p5) (hh335 : h335 = mulHi l310 p5)
    (ht336 : t336 = addWithCarry t308.val l334 t333.c) (ht337 : t337 = addWithCarry h335 (0 : Word) t336.c)
    (ht338 : t338 = addWithCarry t336.val t332.val false) (ht339 : t339 = addWithCarry t337.val (0 : Word) t338.c)
    (ht340 : t340 = addWithCarry t309.val (~~~1#64) true) (ht341 : t341 = addWithCarry t174.val t339.val t340.c)
    (ht342 : t342 = addWithCarry (0 : Word) (0 : Word) t341.c) :
    run embedded_pairing_core_arch_aarch64_fpbase_384_multiply ({ x0 := pr, x1 := t309.val, x2 := l277, x3 := inv, x4 := t299.val, x5 := l301, x6 := a4, x7 := a5, x8 := s.x8, x9 := p0, x10 := p1, x11 := p2, x12 := p3, x13 := p4, x14 := p5, x15 := t240.val, x16 := s.x16, x17 := s.x17, x18 := s.x18, x19 := t273.val, x20 := t306.val, x21 := t285.val, x22 := t290.val, x23 := t295.val, x24 := t300.val, x25 := t305.val, x26 := t308.val, x27 := t174.val, x28 := t175.val, x29 := s.x29, x30 := s.x30, sp := s.sp - 16#64 - 16#64 - 16#64 - 16#64 - 16#64, nf := some t309.n, zf := some t309.z, cf := some t309.c, vf := some t309.v, mem := setMem (setMem (setMem (setMem (setMem (setMem (setMem (setMem (setMem (setMem (setMem (setMem (s.mem) (s.sp.toNat - 16) s.x19) (s.sp.toNat - 16 + 8) s.x20) (s.sp.toNat - 16 - 16) s.x21) (s.sp.toNat - 16 - 16 + 8) s.x22) (s.sp.toNat - 16 - 16 - 16) s.x23) (s.sp.toNat - 16 - 16 - 16 + 8) s.x24) (s.sp.toNat - 16 - 16 - 16 - 16) s.x25) (s.sp.toNat - 16 - 16 - 16 - 16 + 8) s.x26) (s.sp.toNat - 16 - 16 - 16 - 16 - 16) s.x27) (s.sp.toNat - 16 - 16 - 16 - 16 - 16 + 8) s.x28) (s.sp.toNat - 16 - 16 - 16 - 16 - 16 - 16) pp) (s.sp.toNat - 16 - 16 - 16 - 16 - 16 - 16 + 8) inv, readable := s.readable, writable := s.writable, pc := 310, status := .running } : State) 33
      = ({ x0 := pr, x1 := t342.val, x2 := l310, x3 := inv, x4 := t332.val, x5 := l334, x6 := a4, x7 := a5, x8 := s.x8, x9 := p0, x10 := p1, x11 := p2, x12 := p3, x13 := p4, x14 := p5, x15 := t240.val, x16 := s.x16, x17 := s.x17, x18 := s.x18, x19 := t273.val, x20 := t306.val, x21 := t339.val, x22 := t318.val, x23 := t323.val, x24 := t328.val, x25 := t333.val, x26 := t338.val, x27 := t341.val, x28 := t175.val, x29 := s.x29, x30 := s.x30, sp := s.sp - 16#64 - 16#64 - 16#64 - 16#64 - 16#64, nf := some t342.n, zf := some t342.z, cf := some t342.c, vf := some t342.v, mem := setMem (setMem (setMem (setMem (setMem (setMem (setMem (setMem (setMem (setMem (setMem (setMem (s.mem) (s.sp.toNat - 16) s.x19) (s.sp.toNat - 16 + 8) s.x20) (s.sp.toNat - 16 - 16) s.x21) (s.sp.toNat - 16 - 16 + 8) s.x22) (s.sp.toNat - 16 - 16 - 16) s.x23) (s.sp.toNat - 16 - 16 - 16 + 8) s.x24) (s.sp.toNat - 16 - 16 - 16 - 16) s.x25) (s.sp.toNat - 16 - 16 - 16 - 16 + 8) s.x26) (s.sp.toNat - 16 - 16 - 16 - 16 - 16) s.x27) (s.sp.toNat - 16 - 16 - 16 - 16 - 16 + 8) s.x28) (s.sp.toNat - 16 - 16 - 16 - 16 - 16 - 16) pp) (s.sp.toNat - 16 - 16 - 16 - 16 - 16 - 16 + 8) inv, readable := s.readable, writable := s.writable, pc := 343, status := .running } : State) := by
  obtain ⟨ra0, ra1, ra2, ra3, ra4, ra5⟩ := ha.r6
  obtain ⟨⟨alra0, alra1, alra2, alra3, alra4, alra5⟩, fra1, fra2, fra3, fra4, fra5⟩ := ha.addr6
  obtain ⟨rb0, rb1, rb2, rb3, rb4, rb5⟩ := hb.r6
  obtain ⟨⟨alrb0, alrb1, alrb2, alrb3, alrb4, alrb5⟩, frb1, frb2, frb3, frb4, frb5⟩ := hb.addr6
  obtain ⟨rp0, rp1, rp2, rp3, rp4, rp5⟩ := hp.r6
  obtain ⟨⟨alrp0, alrp1, alrp2, alrp3, alrp4, alrp5⟩, frp1, frp2, frp3, frp4, frp5⟩ := hp.addr6
  obtain ⟨rr0, rr1, rr2, rr3, rr4, rr5⟩ := hr.r6
  obtain ⟨wr0, wr1, wr2, wr3, wr4, wr5⟩ := hr.w6
  obtain ⟨⟨alrr0, alrr1, alrr2, alrr3, alrr4, alrr5⟩, frr1, frr2, frr3, frr4, frr5⟩ := hr.addr6
  have als0 := hstk.aligned
  obtain ⟨room1, als1, alq1a, alq1b, sr1a, sr1b, sw1a, sw1b⟩ := hstk.f1 (by omega)
  obtain ⟨room2, als2, alq2a, alq2b, sr2a, sr2b, sw2a, sw2b⟩ := hstk.f2 (by omega)
  obtain ⟨room3, als3, alq3a, alq3b, sr3a, sr3b, sw3a, sw3b⟩ := hstk.f3 (by omega)
  obtain ⟨room4, als4, alq4a, alq4b, sr4a, sr4b, sw4a, sw4b⟩ := hstk.f4 (by omega)
  obtain ⟨room5, als5, alq5a, alq5b, sr5a, sr5b, sw5a, sw5b⟩ := hstk.f5 (by omega)
  obtain ⟨room6, als6, alq6a, alq6b, sr6a, sr6b, sw6a, sw6b⟩ := hstk.f6 (by omega)
  replace hrs := Hide.mk (And.intro room6 hrs); replace has := Hide.mk (And.intro room6 has)
  replace hbs := Hide.mk (And.intro room6 hbs); replace hps := Hide.mk (And.intro room6 hps)
  simp only [OffStack] at hrs has hbs hps
  clear ha hb hp hr hstk
  a64_sym [← hl310, ← hl311, ← hh312, ← ht313, ← hl314, ← hh315, ← ht316, ← ht317, ← ht318, ← hl319, ← hh320, ← ht321, ← ht322, ← ht323, ← hl324, ← hh325, ← ht326, ← ht327, ← ht328, ← hl329, ← hh330, ← ht331, ← ht332, ← ht333, ← hl334, ← hh335, ← ht336, ← ht337, ← ht338, ← ht339, ← ht340, ← ht341, ← ht342]

set_option maxHeartbeats 1600000 in
theorem fpmul_part11 (s : State) (pr pa pb pp inv : Word)
    (hr : Buf s pr 6 true) (ha : Buf s pa 6 false) (hb : Buf s pb 6 false) (hp : Buf s pp 6 false)
    (hstk : Stack s 6) (hrs : OffStack s 6 pr 6) (has : OffStack s 6 pa 6) (hbs : OffStack s 6 pb 6)
    (hps : OffStack s 6 pp 6) {a4 a5 p0 p1 p2 p3 p4 p5 h345 h348 h353 h358 h363 h368 l310 l334 l343 l344 l347 l352 l357 l362 l367 : Word} {t175 t240 t273 t306 t318 t323 t328 t332 t333 t338 t339 t341 t342 t346 t349 t350 t351 t354 t355 t356 t359 t360 t361 t364 t365 t366 t369 t370 t371 t372 t373 t374 : ArithRes}
    (hl343 : l343 = mulLo t318.val inv) (hl344 : l344 = mulLo l343 p0) (hh345 : h345 = mulHi l343 p0)
    (ht346 : t346 = addWithCarry t318.val l344 false) (hl347 : l347 = mulLo l343 p1) (hh348 : h348 = mulHi l343 p1)
    (ht349 : t349 = addWithCarry t323.val l347 t346.c) (ht350 : t350 = addWithCarry h348 (0 : Word) t349.c)
    (ht351 : t351 = addWithCarry t349.val h345 false) (hl352 : l352 = mulLo l343 p2) (hh353 : h353 = mulHi l343 p2)
    (ht354 : t354 = addWithCarry t328.val l352 t351.c) (ht355 : t355 = addWithCarry h353 (0 : Word) t354.c)
    (ht356 : t356 = addWithCarry t354.val t350.val false) (hl357 : l357 = mulLo l343 p3) (hh358 : h358 = mulHi l343 p3)
    (ht359 : t359 = addWithCarry t333.val l357 t356.c) (ht360 : t360 = addWithCarry h358 (0 : Word) t359.c)
    (ht361 : t361 = addWithCarry t359.val t355.val false) (hl362 : l362 = mulLo l343 p4) (hh363 : h363 = mulHi l343 p4)
    (ht364 : t364 = addWithCarry t338.val l362 t361.c) (ht365 : t365 = addWithCarry h363 (0 : Word) t364.c)
    (ht366 : t366 = addWithCarry t364.val t360.val false) (hl367 : l367 = mulLo l343 p5) (hh368 : h368 = mulHi l343 p5)
    (ht369 : t369 = addWithCarry t341.val l367 t366.c) (ht370 : t370 = addWithCarry h368 (0 : Word) t369.c)
    (ht371 : t371 = addWithCarry t369.val t365.val false) (ht372 : t372 = addWithCarry t370.val (0 : Word) t371.c)
    (ht373 : t373 = addWithCarry t342.val (~~~1#64) true) (ht374 : t374 = addWithCarry t175.val t372.val t373.c) :
    run embedded_pairing_core_arch_aarch64_fpbase_384_multiply ({ x0 := pr, x1 := t342.val, x2 := l310, x3 := inv, x4 := t332.val, x5 := l334, x6 := a4, x7 := a5, x8 := s.x8, x9 := p0, x10 := p1, x11 := p2, x12 := p3, x13 := p4, x14 := p5, x15 := t240.val, x16 := s.x16, x17 := s.x17, x18 := s.x18, x19 := t273.val, x20 := t306.val, x21 := t339.val, x22 := t318.val, x23 := t323.val, x24 := t328.val, x25 := t333.val, x26 := t338.val, x27 := t341.val, x28 := t175.val, x29 := s.x29, x30 := s.x30, sp := s.sp - 16#64 - 16#64 - 16#64 - 16#64 - 16#64, nf := some t342.n, zf := some t342.z, cf := some t342.c, vf := some t342.v, mem := setMem (setMem (setMem (setMem (setMem (setMem (setMem (setMem (setMem (setMem (setMem (setMem (s.mem) (s.sp.toNat - 16) s.x19) (s.sp.toNat - 16 + 8) s.x20) (s.sp.toNat - 16 - 16) s.x21) (s.sp.toNat - 16 - 16 + 8) s.x22) (s.sp.toNat - 16 - 16 - 16) s.x23) (s.sp.toNat - 16 - 16 - 16 + 8) s.x24) (s.sp.toNat - 16 - 16 - 16 - 16) s.x25) (s.sp.toNat - 16 - 16 - 16 - 16 + 8) s.x26) (s.sp.toNat - 16 - 16 - 16 - 16 - 16) s.x27) (s.sp.toNat - 16 - 16 - 16 - 16 - 16 + 8) s.x28) (s.sp.toNat - 16 - 16 - 16 - 16 - 16 - 16) pp) (s.sp.toNat - 16 - 16 - 16 - 16 - 16 - 16 + 8) inv, readable := s.readable, writable := s.writable, pc := 343, status := .running } : State) 32
      = ({ x0 := pr, x1 := t342.val, x2 := l343, x3 := inv, x4 := t365.val, x5 := l367, x6 := a4, x7 := a5, x8 := s.x8, x9 := p0, x10 := p1, x11 := p2, x12 := p3, x13 := p4, x14 := p5, x15 := t240.val, x16 := s.x16, x17 := s.x17, x18 := s.x18, x19 := t273.val, x20 := t306.val, x21 := t339.val, x22 := t372.val, x23 := t351.val, x24 := t356.val, x25 := t361.val, x26 := t366.val, x27 := t371.val, x28 := t374.val, x29 := s.x29, x30 := s.x30, sp := s.sp - 16#64 - 16#64 - 16#64 - 16#64 - 16#64, nf := some t374.n, zf := some t374.z, cf := some t374.c, vf := some t374.v, mem := setMem (setMem (setMem (setMem (setMem (setMem (setMem (setMem (setMem (setMem (setMem (setMem (s.mem) (s.sp.toNat - 16) s.x19) (s.sp.toNat - 16 + 8) s.x20) (s.sp.toNat - 16 - 16) s.x21) (s.sp.toNat - 16 - 16 + 8) s.x22) (s.sp.toNat - 16 - 16 - 16) s.x23) (s.sp.toNat - 16 - 16 - 16 + 8) s.x24) (s.sp.toNat - 16 - 16 - 16 - 16) s.x25) (s.sp.toNat - 16 - 16 - 16 - 16 + 8) s.x26) (s.sp.toNat - 16 - 16 - 16 - 16 - 16) s.x27) (s.sp.toNat - 16 - 16 - 16 - 16 - 16 + 8) s.x28) (s.sp.toNat - 16 - 16 - 16 - 16 - 16 - 16) pp) (s.sp.toNat - 16 - 16 - 16 - 16 - 16 - 16 + 8) inv, readable := s.readable, writable := s.writable, pc := 375, status := .running } : State) := by
  obtain ⟨ra0, ra1, ra2, ra3, ra4, ra5⟩ := ha.r6
  obtain ⟨⟨alra0, alra1, alra2, alra3, alra4, alra5⟩, fra1, fra2, fra3, fra4, fra5⟩ := ha.addr6
  obtain ⟨rb0, rb1, rb2, rb3, rb4, rb5⟩ := hb.r6
  obtain ⟨⟨alrb0, alrb1, alrb2, alrb3, alrb4, alrb5⟩, frb1, frb2, frb3, frb4, frb5⟩ := hb.addr6
  obtain ⟨rp0, rp1, rp2, rp3, rp4, rp5⟩ := hp.r6
  obtain ⟨⟨alrp0, alrp1, alrp2, alrp3, alrp4, alrp5⟩, frp1, frp2, frp3, frp4, frp5⟩ := hp.addr6
  obtain ⟨rr0, rr1, rr2, rr3, rr4, rr5⟩ := hr.r6
  obtain ⟨wr0, wr1, wr2, wr3, wr4, wr5⟩ := hr.w6
  obtain ⟨⟨alrr0, alrr1, alrr2, alrr3, alrr4, alrr5⟩, frr1, frr2, frr3, frr4, frr5⟩ := hr.addr6
  have als0 := hstk.aligned
  obtain ⟨room1, als1, alq1a, alq1b, sr1a, sr1b, sw1a, sw1b⟩ := hstk.f1 (by omega)
  obtain ⟨room2, als2, alq2a, alq2b, sr2a, sr2b, sw2a, sw2b⟩ := hstk.f2 (by omega)
  obtain ⟨room3, als3, alq3a, alq3b, sr3a, sr3b, sw3a, sw3b⟩ := hstk.f3 (by omega)
  obtain ⟨room4, als4, alq4a, alq4b, sr4a, sr4b, sw4a, sw4b⟩ := hstk.f4 (by omega)
  obtain ⟨room5, als5, alq5a, alq5b, sr5a, sr5b, sw5a, sw5b⟩ := hstk.f5 (by omega)
  obtain ⟨room6, als6, alq6a, alq6b, sr6a, sr6b, sw6a, sw6b⟩ := hstk.f6 (by omega)
  replace hrs := Hide.mk (And.intro room6 hrs); replace has := Hide.mk (And.intro room6 has)
  replace hbs := Hide.mk (And.intro room6 hbs); replace hps := Hide.mk (And.intro room6 hps)
  simp only [OffStack] at hrs has hbs hps
  clear ha hb hp hr hstk
  a64_sym [← hl343, ← hl344, ← hh345, ← ht346, ← hl347, ← hh348, ← ht349, ← ht350, ← ht351, ← hl352, ← hh353, ← ht354, ← ht355, ← ht356, ← hl357, ← hh358, ← ht359, ← ht360, ← ht361, ← hl362, ← hh363, ← ht364, ← ht365, ← ht366, ← hl367, ← hh368, ← ht369, ← ht370, ← ht371, ← ht372, ← ht373, ← ht374]

/-! ## the arithmetic on the named intermediates -/

set_option maxHeartbeats 1600000 in
set_option exponentiation.threshold 800 in
theorem fpmul_prod {a0 a1 a2 a3 a4 a5 b0 b1 b2 b3 b4 b5 h13 h16 h19 h22 h25 h28 h32 h35 h40 h45 h50 h55 h61 h64 h69 h74 h79 h84 h90 h93 h98 l14 l15 l18 l21 l24 l27 l31 l34 l39 l44 l49 l54 l60 l63 l68 l73 l78 l83 l89 l92 l97 h103 h108 h113 h119 h122 h127 h132 h137 h142 h148 h151 h156 h161 h166 h171 l102 l107 l112 l118 l121 l126 l131 l136 l141 l147 l150 l155 l160 l165 l170 : Word} {t12 t17 t20 t23 t26 t29 t30 t33 t36 t37 t38 t41 t42 t43 t46 t47 t48 t51 t52 t53 t56 t57 t58 t59 t62 t65 t66 t67 t70 t71 t72 t75 t76 t77 t80 t81 t82 t85 t86 t87 t88 t91 t94 t95 t96 t99 t100 t101 t104 t105 t106 t109 t110 t111 t114 t115 t116 t117 t120 t123 t124 t125 t128 t129 t130 t133 t134 t135 t138 t139 t140 t143 t144 t145 t146 t149 t152 t153 t154 t157 t158 t159 t162 t163 t164 t167 t168 t169 t172 t173 t174 t175 : ArithRes}
    (ht12 : t12 = addWithCarry (0 : Word) (0 : Word) false) (hh13 : h13 = mulHi a0 b0) (hl14 : l14 = mulLo a0 b0)
    (hl15 : l15 = mulLo a0 b1) (hh16 : h16 = mulHi a0 b1) (ht17 : t17 = addWithCarry l15 h13 t12.c)
    (hl18 : l18 = mulLo a0 b2) (hh19 : h19 = mulHi a0 b2) (ht20 : t20 = addWithCarry l18 h16 t17.c)
    (hl21 : l21 = mulLo a0 b3) (hh22 : h22 = mulHi a0 b3) (ht23 : t23 = addWithCarry l21 h19 t20.c)
    (hl24 : l24 = mulLo a0 b4) (hh25 : h25 = mulHi a0 b4) (ht26 : t26 = addWithCarry l24 h22 t23.c)
    (hl27 : l27 = mulLo a0 b5) (hh28 : h28 = mulHi a0 b5) (ht29 : t29 = addWithCarry l27 h25 t26.c)
    (ht30 : t30 = addWithCarry h28 (0 : Word) t29.c) (hl31 : l31 = mulLo a1 b0) (hh32 : h32 = mulHi a1 b0)
    (ht33 : t33 = addWithCarry t17.val l31 false) (hl34 : l34 = mulLo a1 b1) (hh35 : h35 = mulHi a1 b1)
    (ht36 : t36 = addWithCarry t20.val l34 t33.c) (ht37 : t37 = addWithCarry h35 (0 : Word) t36.c)
    (ht38 : t38 = addWithCarry t36.val h32 false) (hl39 : l39 = mulLo a1 b2) (hh40 : h40 = mulHi a1 b2)
    (ht41 : t41 = addWithCarry t23.val l39 t38.c) (ht42 : t42 = addWithCarry h40 (0 : Word) t41.c)
    (ht43 : t43 = addWithCarry t41.val t37.val false) (hl44 : l44 = mulLo a1 b3) (hh45 : h45 = mulHi a1 b3)
    (ht46 : t46 = addWithCarry t26.val l44 t43.c) (ht47 : t47 = addWithCarry h45 (0 : Word) t46.c)
    (ht48 : t48 = addWithCarry t46.val t42.val false) (hl49 : l49 = mulLo a1 b4) (hh50 : h50 = mulHi a1 b4)
    (ht51 : t51 = addWithCarry t29.val l49 t48.c) (ht52 : t52 = addWithCarry h50 (0 : Word) t51.c)
    (ht53 : t53 = addWithCarry t51.val t47.val false) (hl54 : l54 = mulLo a1 b5) (hh55 : h55 = mulHi a1 b5)
    (ht56 : t56 = addWithCarry t30.val l54 t53.c) (ht57 : t57 = addWithCarry h55 (0 : Word) t56.c)
    (ht58 : t58 = addWithCarry t56.val t52.val false) (ht59 : t59 = addWithCarry t57.val (0 : Word) t58.c)
    (hl60 : l60 = mulLo a2 b0) (hh61 : h61 = mulHi a2 b0) (ht62 : t62 = addWithCarry t38.val l60 false)
    (hl63 : l63 = mulLo a2 b1) (hh64 : h64 = mulHi a2 b1) (ht65 : t65 = addWithCarry t43.val l63 t62.c)
    (ht66 : t66 = addWithCarry h64 (0 : Word) t65.c) (ht67 : t67 = addWithCarry t65.val h61 false)
    (hl68 : l68 = mulLo a2 b2) (hh69 : h69 = mulHi a2 b2) (ht70 : t70 = addWithCarry t48.val l68 t67.c)
    (ht71 : t71 = addWithCarry h69 (0 : Word) t70.c) (ht72 : t72 = addWithCarry t70.val t66.val false)
    (hl73 : l73 = mulLo a2 b3) (hh74 : h74 = mulHi a2 b3) (ht75 : t75 = addWithCarry t53.val l73 t72.c)
    (ht76 : t76 = addWithCarry h74 (0 : Word) t75.c) (ht77 : t77 = addWithCarry t75.val t71.val false)
    (hl78 : l78 = mulLo a2 b4) (hh79 : h79 = mulHi a2 b4) (ht80 : t80 = addWithCarry t58.val l78 t77.c)
    (ht81 : t81 = addWithCarry h79 (0 : Word) t80.c) (ht82 : t82 = addWithCarry t80.val t76.val false)
    (hl83 : l83 = mulLo a2 b5) (hh84 : h84 = mulHi a2 b5) (ht85 : t85 = addWithCarry t59.val l83 t82.c)
    (ht86 : t86 = addWithCarry h84 (0 : Word) t85.c) (ht87 : t87 = addWithCarry t85.val t81.val false)
    (ht88 : t88 = addWithCarry t86.val (0 : Word) t87.c) (hl89 : l89 = mulLo a3 b0) (hh90 : h90 = mulHi a3 b0)
    (ht91 : t91 = addWithCarry t67.val l89 false) (hl92 : l92 = mulLo a3 b1) (hh93 : h93 = mulHi a3 b1)
    (ht94 : t94 = addWithCarry t72.val l92 t91.c) (ht95 : t95 = addWithCarry h93 (0 : Word) t94.c)
    (ht96 : t96 = addWithCarry t94.val h90 false) (hl97 : l97 = mulLo a3 b2) (hh98 : h98 = mulHi a3 b2)
    (ht99 : t99 = addWithCarry t77.val l97 t96.c) (ht100 : t100 = addWithCarry h98 (0 : Word) t99.c)
    (ht101 : t101 = addWithCarry t99.val t95.val false) (hl102 : l102 = mulLo a3 b3) (hh103 : h103 = mulHi a3 b3)
    (ht104 : t104 = addWithCarry t82.val l102 t101.c) (ht105 : t105 = addWithCarry h103 (0 : Word) t104.c)
    (ht106 : t106 = addWithCarry t104.val t100.val false) (hl107 : l107 = mulLo a3 b4) (hh108 : h108 = mulHi a3 b4)
    (ht109 : t109 = addWithCarry t87.val l107 t106.c) (ht110 : t110 = addWithCarry h108 (0 : Word) t109.c)
    (ht111 : t111 = addWithCarry t109.val t105.val false) (hl112 : l112 = mulLo a3 b5) (hh113 : h113 = mulHi a3 b5)
    (ht114 : t114 = addWithCarry t88.val l112 t111.c) (ht115 : t115 = addWithCarry h113 (0 : Word) t114.c)
    (ht116 : t116 = addWithCarry t114.val t110.val false) (ht117 : t117 = addWithCarry t115.val (0 : Word) t116.c)
    (hl118 : l118 = mulLo a4 b0) (hh119 : h119 = mulHi a4 b0) (ht120 : t120 = addWithCarry t96.val l118 false)
    (hl121 : l121 = mulLo a4 b1) (hh122 : h122 = mulHi a4 b1) (ht123 : t123 = addWithCarry t101.val l121 t120.c)
    (ht124 : t124 = addWithCarry h122 (0 : Word) t123.c) (ht125 : t125 = addWithCarry t123.val h119 false)
    (hl126 : l126 = mulLo a4 b2) (hh127 : h127 = mulHi a4 b2) (ht128 : t128 = addWithCarry t106.val l126 t125.c)
    (ht129 : t129 = addWithCarry h127 (0 : Word) t128.c) (ht130 : t130 = addWithCarry t128.val t124.val false)
    (hl131 : l131 = mulLo a4 b3) (hh132 : h132 = mulHi a4 b3) (ht133 : t133 = addWithCarry t111.val l131 t130.c)
    (ht134 : t134 = addWithCarry h132 (0 : Word) t133.c) (ht135 : t135 = addWithCarry t133.val t129.val false)
    (hl136 : l136 = mulLo a4 b4) (hh137 : h137 = mulHi a4 b4) (ht138 : t138 = addWithCarry t116.val l136 t135.c)
    (ht139 : t139 = addWithCarry h137 (0 : Word) t138.c) (ht140 : t140 = addWithCarry t138.val t134.val false)
    (hl141 : l141 = mulLo a4 b5) (hh142 : h142 = mulHi a4 b5) (ht143 : t143 = addWithCarry t117.val l141 t140.c)
    (ht144 : t144 = addWithCarry h142 (0 : Word) t143.c) (ht145 : t145 = addWithCarry t143.val t139.val false)
    (ht146 : t146 = addWithCarry t144.val (0 : Word) t145.c) (hl147 : l147 = mulLo a5 b0) (hh148 : h148 = mulHi a5 b0)
    (ht149 : t149 = addWithCarry t125.val l147 false) (hl150 : l150 = mulLo a5 b1) (hh151 : h151 = mulHi a5 b1)
    (ht152 : t152 = addWithCarry t130.val l150 t149.c) (ht153 : t153 = addWithCarry h151 (0 : Word) t152.c)
    (ht154 : t154 = addWithCarry t152.val h148 false) (hl155 : l155 = mulLo a5 b2) (hh156 : h156 = mulHi a5 b2)
    (ht157 : t157 = addWithCarry t135.val l155 t154.c) (ht158 : t158 = addWithCarry h156 (0 : Word) t157.c)
    (ht159 : t159 = addWithCarry t157.val t153.val false) (hl160 : l160 = mulLo a5 b3) (hh161 : h161 = mulHi a5 b3)
    (ht162 : t162 = addWithCarry t140.val l160 t159.c) (ht163 : t163 = addWithCarry h161 (0 : Word) t162.c)
    (ht164 : t164 = addWithCarry t162.val t158.val false) (hl165 : l165 = mulLo a5 b4) (hh166 : h166 = mulHi a5 b4)
    (ht167 : t167 = addWithCarry t145.val l165 t164.c) (ht168 : t168 = addWithCarry h166 (0 : Word) t167.c)
    (ht169 : t169 = addWithCarry t167.val t163.val false) (hl170 : l170 = mulLo a5 b5) (hh171 : h171 = mulHi a5 b5)
    (ht172 : t172 = addWithCarry t146.val l170 t169.c) (ht173 : t173 = addWithCarry h171 (0 : Word) t172.c)
    (ht174 : t174 = addWithCarry t172.val t168.val false) (ht175 : t175 = addWithCarry t173.val (0 : Word) t174.c)
     :
    val (2 ^ 64) [l14.toNat, t33.val.toNat, t62.val.toNat, t91.val.toNat, t120.val.toNat, t149.val.toNat, t154.val.toNat, t159.val.toNat, t164.val.toNat, t169.val.toNat, t174.val.toNat, t175.val.toNat] = val (2 ^ 64) [a0.toNat, a1.toNat, a2.toNat, a3.toNat, a4.toNat, a5.toNat] * val (2 ^ 64) [b0.toNat, b1.toNat, b2.toNat, b3.toNat, b4.toNat, b5.toNat] := by
  have c12 : t12.c = false := by rw [ht12]; exact awc_zero_c
  have e13 := multiply64_spec hl14 hh13
  have i13 : h13.toNat + t12.c.toNat ≤ 2 ^ 64 - 1 := by rw [c12]; have := e13.2; simp only [Bool.toNat_false]; clear * - this; omega
  have e15 := mulcarry64_spec hl15 hh16 ht17 i13
  simp only [c12, Bool.toNat_false, Nat.add_zero] at e15
  have e18 := mulcarry64_spec hl18 hh19 ht20 e15.2
  have e21 := mulcarry64_spec hl21 hh22 ht23 e18.2
  have e24 := mulcarry64_spec hl24 hh25 ht26 e21.2
  have e27 := mulcarry64_spec hl27 hh28 ht29 e24.2
  have e30 := rowend_spec ht30 e27.2
  have e31 := muladd64_spec hl31 hh32 ht33
  have e34 := muladdcarry64_spec hl34 hh35 ht36 ht37 ht38 e31.2
  have e39 := muladdcarry64_spec hl39 hh40 ht41 ht42 ht43 e34.2
  have e44 := muladdcarry64_spec hl44 hh45 ht46 ht47 ht48 e39.2
  have e49 := muladdcarry64_spec hl49 hh50 ht51 ht52 ht53 e44.2
  have e54 := muladdcarry64_spec hl54 hh55 ht56 ht57 ht58 e49.2
  have e59 := rowend_spec ht59 e54.2
  have e60 := muladd64_spec hl60 hh61 ht62
  have e63 := muladdcarry64_spec hl63 hh64 ht65 ht66 ht67 e60.2
  have e68 := muladdcarry64_spec hl68 hh69 ht70 ht71 ht72 e63.2
  have e73 := muladdcarry64_spec hl73 hh74 ht75 ht76 ht77 e68.2
  have e78 := muladdcarry64_spec hl78 hh79 ht80 ht81 ht82 e73.2
  have e83 := muladdcarry64_spec hl83 hh84 ht85 ht86 ht87 e78.2
  have e88 := rowend_spec ht88 e83.2
  have e89 := muladd64_spec hl89 hh90 ht91
  have e92 := muladdcarry64_spec hl92 hh93 ht94 ht95 ht96 e89.2
  have e97 := muladdcarry64_spec hl97 hh98 ht99 ht100 ht101 e92.2
  have e102 := muladdcarry64_spec hl102 hh103 ht104 ht105 ht106 e97.2
  have e107 := muladdcarry64_spec hl107 hh108 ht109 ht110 ht111 e102.2
  have e112 := muladdcarry64_spec hl112 hh113 ht114 ht115 ht116 e107.2
  have e117 := rowend_spec ht117 e112.2
  have e118 := muladd64_spec hl118 hh119 ht120
  have e121 := muladdcarry64_spec hl121 hh122 ht123 ht124 ht125 e118.2
  have e126 := muladdcarry64_spec hl126 hh127 ht128 ht129 ht130 e121.2
  have e131 := muladdcarry64_spec hl131 hh132 ht133 ht134 ht135 e126.2
  have e136 := muladdcarry64_spec hl136 hh137 ht138 ht139 ht140 e131.2
  have e141 := muladdcarry64_spec hl141 hh142 ht143 ht144 ht145 e136.2
  have e146 := rowend_spec ht146 e141.2
  have e147 := muladd64_spec hl147 hh148 ht149
  have e150 := muladdcarry64_spec hl150 hh151 ht152 ht153 ht154 e147.2
  have e155 := muladdcarry64_spec hl155 hh156 ht157 ht158 ht159 e150.2
  have e160 := muladdcarry64_spec hl160 hh161 ht162 ht163 ht164 e155.2
  have e165 := muladdcarry64_spec hl165 hh166 ht167 ht168 ht169 e160.2
  have e170 := muladdcarry64_spec hl170 hh171 ht172 ht173 ht174 e165.2
  have e175 := rowend_spec ht175 e170.2
  simp only [val_cons, val_nil]
  linear_combination e13.1 + 2 ^ 64 * e15.1 + 2 ^ 128 * e18.1 + 2 ^ 192 * e21.1 + 2 ^ 256 * e24.1 + 2 ^ 320 * e27.1 + 2 ^ 384 * e30 + 2 ^ 64 * e31.1 + 2 ^ 128 * e34.1 + 2 ^ 192 * e39.1 + 2 ^ 256 * e44.1 + 2 ^ 320 * e49.1 + 2 ^ 384 * e54.1 + 2 ^ 448 * e59 + 2 ^ 128 * e60.1 + 2 ^ 192 * e63.1 + 2 ^ 256 * e68.1 + 2 ^ 320 * e73.1 + 2 ^ 384 * e78.1 + 2 ^ 448 * e83.1 + 2 ^ 512 * e88 + 2 ^ 192 * e89.1 + 2 ^ 256 * e92.1 + 2 ^ 320 * e97.1 + 2 ^ 384 * e102.1 + 2 ^ 448 * e107.1 + 2 ^ 512 * e112.1 + 2 ^ 576 * e117 + 2 ^ 256 * e118.1 + 2 ^ 320 * e121.1 + 2 ^ 384 * e126.1 + 2 ^ 448 * e131.1 + 2 ^ 512 * e136.1 + 2 ^ 576 * e141.1 + 2 ^ 640 * e146 + 2 ^ 320 * e147.1 + 2 ^ 384 * e150.1 + 2 ^ 448 * e155.1 + 2 ^ 512 * e160.1 + 2 ^ 576 * e165.1 + 2 ^ 640 * e170.1 + 2 ^ 704 * e175

set_option maxHeartbeats 1600000 in
set_option exponentiation.threshold 800 in
theorem fpmul_mont {p0 p1 p2 p3 p4 p5 inv l14 h182 h185 h190 h195 h200 h205 h213 h216 h221 h226 h231 h236 h246 h249 h254 h259 h264 h269 h279 h282 h287 h292 h297 h302 h312 h315 h320 h325 h330 h335 h345 h348 h353 h358 h363 h368 l180 l181 l184 l189 l194 l199 l204 l211 l212 l215 l220 l225 l230 l235 l244 l245 l248 l253 l258 l263 l268 l277 l278 l281 l286 l291 l296 l301 l310 l311 l314 l319 l324 l329 l334 l343 l344 l347 l352 l357 l362 l367 : Word} {t33 t62 t91 t120 t149 t154 t159 t164 t169 t174 t175 t183 t186 t187 t188 t191 t192 t193 t196 t197 t198 t201 t202 t203 t206 t207 t208 t209 t210 t214 t217 t218 t219 t222 t223 t224 t227 t228 t229 t232 t233 t234 t237 t238 t239 t240 t241 t242 t243 t247 t250 t251 t252 t255 t256 t257 t260 t261 t262 t265 t266 t267 t270 t271 t272 t273 t274 t275 t276 t280 t283 t284 t285 t288 t289 t290 t293 t294 t295 t298 t299 t300 t303 t304 t305 t306 t307 t308 t309 t313 t316 t317 t318 t321 t322 t323 t326 t327 t328 t331 t332 t333 t336 t337 t338 t339 t340 t341 t342 t346 t349 t350 t351 t354 t355 t356 t359 t360 t361 t364 t365 t366 t369 t370 t371 t372 t373 t374 : ArithRes}
    (hl180 : l180 = mulLo l14 inv) (hl181 : l181 = mulLo l180 p0) (hh182 : h182 = mulHi l180 p0)
    (ht183 : t183 = addWithCarry l14 l181 false) (hl184 : l184 = mulLo l180 p1) (hh185 : h185 = mulHi l180 p1)
    (ht186 : t186 = addWithCarry t33.val l184 t183.c) (ht187 : t187 = addWithCarry h185 (0 : Word) t186.c)
    (ht188 : t188 = addWithCarry t186.val h182 false) (hl189 : l189 = mulLo l180 p2) (hh190 : h190 = mulHi l180 p2)
    (ht191 : t191 = addWithCarry t62.val l189 t188.c) (ht192 : t192 = addWithCarry h190 (0 : Word) t191.c)
    (ht193 : t193 = addWithCarry t191.val t187.val false) (hl194 : l194 = mulLo l180 p3) (hh195 : h195 = mulHi l180 p3)
    (ht196 : t196 = addWithCarry t91.val l194 t193.c) (ht197 : t197 = addWithCarry h195 (0 : Word) t196.c)
    (ht198 : t198 = addWithCarry t196.val t192.val false) (hl199 : l199 = mulLo l180 p4) (hh200 : h200 = mulHi l180 p4)
    (ht201 : t201 = addWithCarry t120.val l199 t198.c) (ht202 : t202 = addWithCarry h200 (0 : Word) t201.c)
    (ht203 : t203 = addWithCarry t201.val t197.val false) (hl204 : l204 = mulLo l180 p5) (hh205 : h205 = mulHi l180 p5)
    (ht206 : t206 = addWithCarry t149.val l204 t203.c) (ht207 : t207 = addWithCarry h205 (0 : Word) t206.c)
    (ht208 : t208 = addWithCarry t206.val t202.val false) (ht209 : t209 = addWithCarry t154.val t207.val t208.c)
    (ht210 : t210 = addWithCarry (0 : Word) (0 : Word) t209.c) (hl211 : l211 = mulLo t188.val inv)
    (hl212 : l212 = mulLo l211 p0) (hh213 : h213 = mulHi l211 p0) (ht214 : t214 = addWithCarry t188.val l212 false)
    (hl215 : l215 = mulLo l211 p1) (hh216 : h216 = mulHi l211 p1) (ht217 : t217 = addWithCarry t193.val l215 t214.c)
    (ht218 : t218 = addWithCarry h216 (0 : Word) t217.c) (ht219 : t219 = addWithCarry t217.val h213 false)
    (hl220 : l220 = mulLo l211 p2) (hh221 : h221 = mulHi l211 p2) (ht222 : t222 = addWithCarry t198.val l220 t219.c)
    (ht223 : t223 = addWithCarry h221 (0 : Word) t222.c) (ht224 : t224 = addWithCarry t222.val t218.val false)
    (hl225 : l225 = mulLo l211 p3) (hh226 : h226 = mulHi l211 p3) (ht227 : t227 = addWithCarry t203.val l225 t224.c)
    (ht228 : t228 = addWithCarry h226 (0 : Word) t227.c) (ht229 : t229 = addWithCarry t227.val t223.val false)
    (hl230 : l230 = mulLo l211 p4) (hh231 : h231 = mulHi l211 p4) (ht232 : t232 = addWithCarry t208.val l230 t229.c)
    (ht233 : t233 = addWithCarry h231 (0 : Word) t232.c) (ht234 : t234 = addWithCarry t232.val t228.val false)
    (hl235 : l235 = mulLo l211 p5) (hh236 : h236 = mulHi l211 p5) (ht237 : t237 = addWithCarry t209.val l235 t234.c)
    (ht238 : t238 = addWithCarry h236 (0 : Word) t237.c) (ht239 : t239 = addWithCarry t237.val t233.val false)
    (ht240 : t240 = addWithCarry t238.val (0 : Word) t239.c) (ht241 : t241 = addWithCarry t210.val (~~~1#64) true)
    (ht242 : t242 = addWithCarry t159.val t240.val t241.c) (ht243 : t243 = addWithCarry (0 : Word) (0 : Word) t242.c)
    (hl244 : l244 = mulLo t219.val inv) (hl245 : l245 = mulLo l244 p0) (hh246 : h246 = mulHi l244 p0)
    (ht247 : t247 = addWithCarry t219.val l245 false) (hl248 : l248 = mulLo l244 p1) (hh249 : h249 = mulHi l244 p1)
    (ht250 : t250 = addWithCarry t224.val l248 t247.c) (ht251 : t251 = addWithCarry h249 (0 : Word) t250.c)
    (ht252 : t252 = addWithCarry t250.val h246 false) (hl253 : l253 = mulLo l244 p2) (hh254 : h254 = mulHi l244 p2)
    (ht255 : t255 = addWithCarry t229.val l253 t252.c) (ht256 : t256 = addWithCarry h254 (0 : Word) t255.c)
    (ht257 : t257 = addWithCarry t255.val t251.val false) (hl258 : l258 = mulLo l244 p3) (hh259 : h259 = mulHi l244 p3)
    (ht260 : t260 = addWithCarry t234.val l258 t257.c) (ht261 : t261 = addWithCarry h259 (0 : Word) t260.c)
    (ht262 : t262 = addWithCarry t260.val t256.val false) (hl263 : l263 = mulLo l244 p4) (hh264 : h264 = mulHi l244 p4)
    (ht265 : t265 = addWithCarry t239.val l263 t262.c) (ht266 : t266 = addWithCarry h264 (0 : Word) t265.c)
    (ht267 : t267 = addWithCarry t265.val t261.val false) (hl268 : l268 = mulLo l244 p5) (hh269 : h269 = mulHi l244 p5)
    (ht270 : t270 = addWithCarry t242.val l268 t267.c) (ht271 : t271 = addWithCarry h269 (0 : Word) t270.c)
    (ht272 : t272 = addWithCarry t270.val t266.val false) (ht273 : t273 = addWithCarry t271.val (0 : Word) t272.c)
    (ht274 : t274 = addWithCarry t243.val (~~~1#64) true) (ht275 : t275 = addWithCarry t164.val t273.val t274.c)
    (ht276 : t276 = addWithCarry (0 : Word) (0 : Word) t275.c) (hl277 : l277 = mulLo t252.val inv)
    (hl278 : l278 = mulLo l277 p0) (hh279 : h279 = mulHi l277 p0) (ht280 : t280 = addWithCarry t252.val l278 false)
    (hl281 : l281 = mulLo l277 p1) (hh282 : h282 = mulHi l277 p1) (ht283 : t283 = addWithCarry t257.val l281 t280.c)
    (ht284 : t284 = addWithCarry h282 (0 : Word) t283.c) (ht285 : t285 = addWithCarry t283.val h279 false)
    (hl286 : l286 = mulLo l277 p2) (hh287 : h287 = mulHi l277 p2) (ht288 : t288 = addWithCarry t262.val l286 t285.c)
    (ht289 : t289 = addWithCarry h287 (0 : Word) t288.c) (ht290 : t290 = addWithCarry t288.val t284.val false)
    (hl291 : l291 = mulLo l277 p3) (hh292 : h292 = mulHi l277 p3) (ht293 : t293 = addWithCarry t267.val l291 t290.c)
    (ht294 : t294 = addWithCarry h292 (0 : Word) t293.c) (ht295 : t295 = addWithCarry t293.val t289.val false)
    (hl296 : l296 = mulLo l277 p4) (hh297 : h297 = mulHi l277 p4) (ht298 : t298 = addWithCarry t272.val l296 t295.c)
    (ht299 : t299 = addWithCarry h297 (0 : Word) t298.c) (ht300 : t300 = addWithCarry t298.val t294.val false)
    (hl301 : l301 = mulLo l277 p5) (hh302 : h302 = mulHi l277 p5) (ht303 : t303 = addWithCarry t275.val l301 t300.c)
    (ht304 : t304 = addWithCarry h302 (0 : Word) t303.c) (ht305 : t305 = addWithCarry t303.val t299.val false)
    (ht306 : t306 = addWithCarry t304.val (0 : Word) t305.c) (ht307 : t307 = addWithCarry t276.val (~~~1#64) true)
    (ht308 : t308 = addWithCarry t169.val t306.val t307.c) (ht309 : t309 = addWithCarry (0 : Word) (0 : Word) t308.c)
    (hl310 : l310 = mulLo t285.val inv) (hl311 : l311 = mulLo l310 p0) (hh312 : h312 = mulHi l310 p0)
    (ht313 : t313 = addWithCarry t285.val l311 false) (hl314 : l314 = mulLo l310 p1) (hh315 : h315 = mulHi l310 p1)
    (ht316 : t316 = addWithCarry t290.val l314 t313.c) (ht317 : t317 = addWithCarry h315 (0 : Word) t316.c)
    (ht318 : t318 = addWithCarry t316.val h312 false) (hl319 : l319 = mulLo l310 p2) (hh320 : h320 = mulHi l310 p2)
    (ht321 : t321 = addWithCarry t295.val l319 t318.c) (ht322 : t322 = addWithCarry h320 (0 : Word) t321.c)
    (ht323 : t323 = addWithCarry t321.val t317.val false) (hl324 : l324 = mulLo l310 p3) (hh325 : h325 = mulHi l310 p3)
    (ht326 : t326 = addWithCarry t300.val l324 t323.c) (ht327 : t327 = addWithCarry h325 (0 : Word) t326.c)
    (ht328 : t328 = addWithCarry t326.val t322.val false) (hl329 : l329 = mulLo l310 p4) (hh330 : h330 = mulHi l310 p4)
    (ht331 : t331 = addWithCarry t305.val l329 t328.c) (ht332 : t332 = addWithCarry h330 (0 : Word) t331.c)
    (ht333 : t333 = addWithCarry t331.val t327.val false) (hl334 : l334 = mulLo l310 p5) (hh335 : h335 = mulHi l310 p5)
    (ht336 : t336 = addWithCarry t308.val l334 t333.c) (ht337 : t337 = addWithCarry h335 (0 : Word) t336.c)
    (ht338 : t338 = addWithCarry t336.val t332.val false) (ht339 : t339 = addWithCarry t337.val (0 : Word) t338.c)
    (ht340 : t340 = addWithCarry t309.val (~~~1#64) true) (ht341 : t341 = addWithCarry t174.val t339.val t340.c)
    (ht342 : t342 = addWithCarry (0 : Word) (0 : Word) t341.c) (hl343 : l343 = mulLo t318.val inv)
    (hl344 : l344 = mulLo l343 p0) (hh345 : h345 = mulHi l343 p0) (ht346 : t346 = addWithCarry t318.val l344 false)
    (hl347 : l347 = mulLo l343 p1) (hh348 : h348 = mulHi l343 p1) (ht349 : t349 = addWithCarry t323.val l347 t346.c)
    (ht350 : t350 = addWithCarry h348 (0 : Word) t349.c) (ht351 : t351 = addWithCarry t349.val h345 false)
    (hl352 : l352 = mulLo l343 p2) (hh353 : h353 = mulHi l343 p2) (ht354 : t354 = addWithCarry t328.val l352 t351.c)
    (ht355 : t355 = addWithCarry h353 (0 : Word) t354.c) (ht356 : t356 = addWithCarry t354.val t350.val false)
    (hl357 : l357 = mulLo l343 p3) (hh358 : h358 = mulHi l343 p3) (ht359 : t359 = addWithCarry t333.val l357 t356.c)
    (ht360 : t360 = addWithCarry h358 (0 : Word) t359.c) (ht361 : t361 = addWithCarry t359.val t355.val false)
    (hl362 : l362 = mulLo l343 p4) (hh363 : h363 = mulHi l343 p4) (ht364 : t364 = addWithCarry t338.val l362 t361.c)
    (ht365 : t365 = addWithCarry h363 (0 : Word) t364.c) (ht366 : t366 = addWithCarry t364.val t360.val false)
    (hl367 : l367 = mulLo l343 p5) (hh368 : h368 = mulHi l343 p5) (ht369 : t369 = addWithCarry t341.val l367 t366.c)
    (ht370 : t370 = addWithCarry h368 (0 : Word) t369.c) (ht371 : t371 = addWithCarry t369.val t365.val false)
    (ht372 : t372 = addWithCarry t370.val (0 : Word) t371.c) (ht373 : t373 = addWithCarry t342.val (~~~1#64) true)
    (ht374 : t374 = addWithCarry t175.val t372.val t373.c)
    (hinv : (inv.toNat * val (2 ^ 64) [p0.toNat, p1.toNat, p2.toNat, p3.toNat, p4.toNat, p5.toNat] + 1) % 2 ^ 64 = 0)
    (hT : val (2 ^ 64) [l14.toNat, t33.val.toNat, t62.val.toNat, t91.val.toNat, t120.val.toNat, t149.val.toNat, t154.val.toNat, t159.val.toNat, t164.val.toNat, t169.val.toNat, t174.val.toNat, t175.val.toNat] < val (2 ^ 64) [p0.toNat, p1.toNat, p2.toNat, p3.toNat, p4.toNat, p5.toNat] * 2 ^ 384) (h2P : 2 * val (2 ^ 64) [p0.toNat, p1.toNat, p2.toNat, p3.toNat, p4.toNat, p5.toNat] ≤ 2 ^ 384) :
    val (2 ^ 64) [t351.val.toNat, t356.val.toNat, t361.val.toNat, t366.val.toNat, t371.val.toNat, t374.val.toNat] < 2 * val (2 ^ 64) [p0.toNat, p1.toNat, p2.toNat, p3.toNat, p4.toNat, p5.toNat] ∧ 2 ^ 384 * val (2 ^ 64) [t351.val.toNat, t356.val.toNat, t361.val.toNat, t366.val.toNat, t371.val.toNat, t374.val.toNat] = val (2 ^ 64) [l14.toNat, t33.val.toNat, t62.val.toNat, t91.val.toNat, t120.val.toNat, t149.val.toNat, t154.val.toNat, t159.val.toNat, t164.val.toNat, t169.val.toNat, t174.val.toNat, t175.val.toNat] + val (2 ^ 64) [l180.toNat, l211.toNat, l244.toNat, l277.toNat, l310.toNat, l343.toNat] * val (2 ^ 64) [p0.toNat, p1.toNat, p2.toNat, p3.toNat, p4.toNat, p5.toNat] := by
  have hinv' := hinv
  simp only [val_cons, val_nil] at hinv'
  replace hinv := hinv'
  have e181 := muladd64_spec hl181 hh182 ht183
  have z181 := mont_low hinv hl180 hl181 ht183
  have f181 := e181.1; rw [z181, Nat.zero_add] at f181
  have e184 := muladdcarry64_spec hl184 hh185 ht186 ht187 ht188 e181.2
  have e189 := muladdcarry64_spec hl189 hh190 ht191 ht192 ht193 e184.2
  have e194 := muladdcarry64_spec hl194 hh195 ht196 ht197 ht198 e189.2
  have e199 := muladdcarry64_spec hl199 hh200 ht201 ht202 ht203 e194.2
  have e204 := muladdcarry64_spec hl204 hh205 ht206 ht207 ht208 e199.2
  have e209 := mont_top_first ht209 ht210
  have e212 := muladd64_spec hl212 hh213 ht214
  have z212 := mont_low hinv hl211 hl212 ht214
  have f212 := e212.1; rw [z212, Nat.zero_add] at f212
  have e215 := muladdcarry64_spec hl215 hh216 ht217 ht218 ht219 e212.2
  have e220 := muladdcarry64_spec hl220 hh221 ht222 ht223 ht224 e215.2
  have e225 := muladdcarry64_spec hl225 hh226 ht227 ht228 ht229 e220.2
  have e230 := muladdcarry64_spec hl230 hh231 ht232 ht233 ht234 e225.2
  have e235 := muladdcarry64_spec hl235 hh236 ht237 ht238 ht239 e230.2
  have e242 := mont_top_mid ht240 ht241 ht242 ht243 e235.2 e209.2
  have e245 := muladd64_spec hl245 hh246 ht247
  have z245 := mont_low hinv hl244 hl245 ht247
  have f245 := e245.1; rw [z245, Nat.zero_add] at f245
  have e248 := muladdcarry64_spec hl248 hh249 ht250 ht251 ht252 e245.2
  have e253 := muladdcarry64_spec hl253 hh254 ht255 ht256 ht257 e248.2
  have e258 := muladdcarry64_spec hl258 hh259 ht260 ht261 ht262 e253.2
  have e263 := muladdcarry64_spec hl263 hh264 ht265 ht266 ht267 e258.2
  have e268 := muladdcarry64_spec hl268 hh269 ht270 ht271 ht272 e263.2
  have e275 := mont_top_mid ht273 ht274 ht275 ht276 e268.2 e242.2
  have e278 := muladd64_spec hl278 hh279 ht280
  have z278 := mont_low hinv hl277 hl278 ht280
  have f278 := e278.1; rw [z278, Nat.zero_add] at f278
  have e281 := muladdcarry64_spec hl281 hh282 ht283 ht284 ht285 e278.2
  have e286 := muladdcarry64_spec hl286 hh287 ht288 ht289 ht290 e281.2
  have e291 := muladdcarry64_spec hl291 hh292 ht293 ht294 ht295 e286.2
  have e296 := muladdcarry64_spec hl296 hh297 ht298 ht299 ht300 e291.2
  have e301 := muladdcarry64_spec hl301 hh302 ht303 ht304 ht305 e296.2
  have e308 := mont_top_mid ht306 ht307 ht308 ht309 e301.2 e275.2
  have e311 := muladd64_spec hl311 hh312 ht313
  have z311 := mont_low hinv hl310 hl311 ht313
  have f311 := e311.1; rw [z311, Nat.zero_add] at f311
  have e314 := muladdcarry64_spec hl314 hh315 ht316 ht317 ht318 e311.2
  have e319 := muladdcarry64_spec hl319 hh320 ht321 ht322 ht323 e314.2
  have e324 := muladdcarry64_spec hl324 hh325 ht326 ht327 ht328 e319.2
  have e329 := muladdcarry64_spec hl329 hh330 ht331 ht332 ht333 e324.2
  have e334 := muladdcarry64_spec hl334 hh335 ht336 ht337 ht338 e329.2
  have e341 := mont_top_mid ht339 ht340 ht341 ht342 e334.2 e308.2
  have e344 := muladd64_spec hl344 hh345 ht346
  have z344 := mont_low hinv hl343 hl344 ht346
  have f344 := e344.1; rw [z344, Nat.zero_add] at f344
  have e347 := muladdcarry64_spec hl347 hh348 ht349 ht350 ht351 e344.2
  have e352 := muladdcarry64_spec hl352 hh353 ht354 ht355 ht356 e347.2
  have e357 := muladdcarry64_spec hl357 hh358 ht359 ht360 ht361 e352.2
  have e362 := muladdcarry64_spec hl362 hh363 ht364 ht365 ht366 e357.2
  have e367 := muladdcarry64_spec hl367 hh368 ht369 ht370 ht371 e362.2
  have e374 := mont_top_last ht372 ht373 ht374 e367.2 e341.2
  have key : 2 ^ 384 * (val (2 ^ 64) [t351.val.toNat, t356.val.toNat, t361.val.toNat, t366.val.toNat, t371.val.toNat, t374.val.toNat] + 2 ^ 384 * t374.c.toNat) = val (2 ^ 64) [l14.toNat, t33.val.toNat, t62.val.toNat, t91.val.toNat, t120.val.toNat, t149.val.toNat, t154.val.toNat, t159.val.toNat, t164.val.toNat, t169.val.toNat, t174.val.toNat, t175.val.toNat] + val (2 ^ 64) [l180.toNat, l211.toNat, l244.toNat, l277.toNat, l310.toNat, l343.toNat] * val (2 ^ 64) [p0.toNat, p1.toNat, p2.toNat, p3.toNat, p4.toNat, p5.toNat] := by
    simp only [val_cons, val_nil]
    linear_combination f181 + 2 ^ 64 * e184.1 + 2 ^ 128 * e189.1 + 2 ^ 192 * e194.1 + 2 ^ 256 * e199.1 + 2 ^ 320 * e204.1 + 2 ^ 384 * e209.1 + 2 ^ 64 * f212 + 2 ^ 128 * e215.1 + 2 ^ 192 * e220.1 + 2 ^ 256 * e225.1 + 2 ^ 320 * e230.1 + 2 ^ 384 * e235.1 + 2 ^ 448 * e242.1 + 2 ^ 128 * f245 + 2 ^ 192 * e248.1 + 2 ^ 256 * e253.1 + 2 ^ 320 * e258.1 + 2 ^ 384 * e263.1 + 2 ^ 448 * e268.1 + 2 ^ 512 * e275.1 + 2 ^ 192 * f278 + 2 ^ 256 * e281.1 + 2 ^ 320 * e286.1 + 2 ^ 384 * e291.1 + 2 ^ 448 * e296.1 + 2 ^ 512 * e301.1 + 2 ^ 576 * e308.1 + 2 ^ 256 * f311 + 2 ^ 320 * e314.1 + 2 ^ 384 * e319.1 + 2 ^ 448 * e324.1 + 2 ^ 512 * e329.1 + 2 ^ 576 * e334.1 + 2 ^ 640 * e341.1 + 2 ^ 320 * f344 + 2 ^ 384 * e347.1 + 2 ^ 448 * e352.1 + 2 ^ 512 * e357.1 + 2 ^ 576 * e362.1 + 2 ^ 640 * e367.1 + 2 ^ 704 * e374
  exact (X86.mont_finish key (X86.val6_lt l180 l211 l244 l277 l310 l343) hT h2P).2

end Jedi.A64
