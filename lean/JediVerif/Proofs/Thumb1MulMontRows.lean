/-
Rows of the word-by-word Montgomery reduction `montgomeryreduce384` of /repo/src/core/arch/armv6_m/multiply.s: row `i` computes
`u = inv·tmp[i] mod 2^32` and adds `u·p` into `tmp[i .. i+12]` (the low word, which becomes 0, is not stored), then adds the carry
word and the "meta-carry" kept in bit 0 of `r8` into `tmp[i+12]` and leaves the new meta-carry in bit 0 of `r8`.
`montRow_run` is proved once for a symbolic row offset `io = 4i` (rows 1..10); row 0 (no incoming meta-carry, `u` computed from `r2`)
and row 11 (the outgoing meta-carry is left in the carry flag and dropped) are separate.

Statements and proof scripts are written by an authoring script; nothing depends on it.
-/
import JediVerif.Proofs.Thumb1MulRows

set_option linter.unusedSimpArgs false
set_option exponentiation.threshold 800

namespace Jedi.Thumb1
open Jedi.Impl (val WF val_cons val_nil val_lt val_inj)
open Jedi.X86 (Hide Hide.mk Hide.out)

theorem testBit0_toNat (n : Nat) : (n.testBit 0).toNat = n % 2 := by
  rw [Nat.testBit_zero]
  rcases Nat.mod_two_eq_zero_or_one n with h | h <;> simp [h]

theorem limbs32_n11 (m : Nat → Word) (p : Nat) : limbs32 m p 11 =
    [(m (p + 0)).toNat, (m (p + 4)).toNat, (m (p + 8)).toNat, (m (p + 12)).toNat, (m (p + 16)).toNat, (m (p + 20)).toNat, (m (p + 24)).toNat, (m (p + 28)).toNat, (m (p + 32)).toNat, (m (p + 36)).toNat, (m (p + 40)).toNat] := rfl

set_option maxHeartbeats 1600000 in
/-- Montgomery row 0 (`r2 = inv`, no incoming meta-carry) -/
theorem montRow0_run (r0 r1 r2 r3 r4 r5 r6 r7 r8 r9 r10 r11 r12 sp lr : Word) (nf zf cf vf : Option Bool)
    (m : Nat → Word) (rd wr : Nat → Bool) (pc : Nat) (csm : Bool)
    (hp : Span rd wr r1.toNat 12 false) (ht : Span rd wr (sp.toNat) 13 true)
    (hdis : r1.toNat + 48 ≤ sp.toNat ∨ sp.toNat + 52 ≤ r1.toNat) :
    ∃ (x0 x2 x3 x4 x5 x6 x7 x8 : Word) (n z c v : Option Bool) (m' : Nat → Word) (lo0 mc' : Nat),
      runL (Code.montRow0) ⟨r0, r1, r2, r3, r4, r5, r6, r7, r8, r9, r10, r11, r12, sp, lr, nf, zf, cf, vf, m, rd, wr, pc, .running, csm⟩
        = ⟨x0, r1, x2, x3, x4, x5, x6, x7, x8, r9, r10, r11, r12, sp, lr, n, z, c, v, m', rd, wr, pc + 292, .running, csm⟩ ∧
      (∀ k, ¬(sp.toNat + 4 ≤ k ∧ k < sp.toNat + 52) → m' k = m k) ∧ lo0 < 2 ^ 32 ∧ mc' ≤ 1 ∧ x8.toNat % 2 = mc' ∧
      lo0 + 2 ^ 32 * (val (2 ^ 32) (limbs32 m' (sp.toNat + 4) 12) + (2 ^ 32) ^ 12 * mc')
        = (r2.toNat * (m (sp.toNat)).toNat % 2 ^ 32) * val (2 ^ 32) (limbs32 m r1.toNat 12) + val (2 ^ 32) (limbs32 m (sp.toNat) 13) := by
  have p_lt0 : r1.toNat < 2 ^ 32 := hp.lt_0 (by decide)
  have p_al0 : (r1.toNat) % 4 = 0 := hp.aligned
  have p_rd0 : rd (r1.toNat) = true := hp.rd_0 (by decide)
  have p_lt1 : r1.toNat + 4 < 2 ^ 32 := hp.lt_k 4 (by decide)
  have p_al1 : (r1.toNat + 4) % 4 = 0 := hp.al_k 4 (by decide)
  have p_rd1 : rd (r1.toNat + 4) = true := hp.rd_k 4 (by decide) (by decide)
  have p_lt2 : r1.toNat + 8 < 2 ^ 32 := hp.lt_k 8 (by decide)
  have p_al2 : (r1.toNat + 8) % 4 = 0 := hp.al_k 8 (by decide)
  have p_rd2 : rd (r1.toNat + 8) = true := hp.rd_k 8 (by decide) (by decide)
  have p_lt3 : r1.toNat + 12 < 2 ^ 32 := hp.lt_k 12 (by decide)
  have p_al3 : (r1.toNat + 12) % 4 = 0 := hp.al_k 12 (by decide)
  have p_rd3 : rd (r1.toNat + 12) = true := hp.rd_k 12 (by decide) (by decide)
  have p_lt4 : r1.toNat + 16 < 2 ^ 32 := hp.lt_k 16 (by decide)
  have p_al4 : (r1.toNat + 16) % 4 = 0 := hp.al_k 16 (by decide)
  have p_rd4 : rd (r1.toNat + 16) = true := hp.rd_k 16 (by decide) (by decide)
  have p_lt5 : r1.toNat + 20 < 2 ^ 32 := hp.lt_k 20 (by decide)
  have p_al5 : (r1.toNat + 20) % 4 = 0 := hp.al_k 20 (by decide)
  have p_rd5 : rd (r1.toNat + 20) = true := hp.rd_k 20 (by decide) (by decide)
  have p_lt6 : r1.toNat + 24 < 2 ^ 32 := hp.lt_k 24 (by decide)
  have p_al6 : (r1.toNat + 24) % 4 = 0 := hp.al_k 24 (by decide)
  have p_rd6 : rd (r1.toNat + 24) = true := hp.rd_k 24 (by decide) (by decide)
  have p_lt7 : r1.toNat + 28 < 2 ^ 32 := hp.lt_k 28 (by decide)
  have p_al7 : (r1.toNat + 28) % 4 = 0 := hp.al_k 28 (by decide)
  have p_rd7 : rd (r1.toNat + 28) = true := hp.rd_k 28 (by decide) (by decide)
  have p_lt8 : r1.toNat + 32 < 2 ^ 32 := hp.lt_k 32 (by decide)
  have p_al8 : (r1.toNat + 32) % 4 = 0 := hp.al_k 32 (by decide)
  have p_rd8 : rd (r1.toNat + 32) = true := hp.rd_k 32 (by decide) (by decide)
  have p_lt9 : r1.toNat + 36 < 2 ^ 32 := hp.lt_k 36 (by decide)
  have p_al9 : (r1.toNat + 36) % 4 = 0 := hp.al_k 36 (by decide)
  have p_rd9 : rd (r1.toNat + 36) = true := hp.rd_k 36 (by decide) (by decide)
  have p_lt10 : r1.toNat + 40 < 2 ^ 32 := hp.lt_k 40 (by decide)
  have p_al10 : (r1.toNat + 40) % 4 = 0 := hp.al_k 40 (by decide)
  have p_rd10 : rd (r1.toNat + 40) = true := hp.rd_k 40 (by decide) (by decide)
  have p_lt11 : r1.toNat + 44 < 2 ^ 32 := hp.lt_k 44 (by decide)
  have p_al11 : (r1.toNat + 44) % 4 = 0 := hp.al_k 44 (by decide)
  have p_rd11 : rd (r1.toNat + 44) = true := hp.rd_k 44 (by decide) (by decide)
  have t_lt0 : sp.toNat < 2 ^ 32 := ht.lt_0 (by decide)
  have t_al0 : (sp.toNat) % 4 = 0 := ht.aligned
  have t_rd0 : rd (sp.toNat) = true := ht.rd_0 (by decide)
  have t_wr0 : wr (sp.toNat) = true := ht.wr_0 (by decide)
  have t_lt1 : sp.toNat + 4 < 2 ^ 32 := ht.lt_k 4 (by decide)
  have t_al1 : (sp.toNat + 4) % 4 = 0 := ht.al_k 4 (by decide)
  have t_rd1 : rd (sp.toNat + 4) = true := ht.rd_k 4 (by decide) (by decide)
  have t_wr1 : wr (sp.toNat + 4) = true := ht.wr_k 4 (by decide) (by decide)
  have t_lt2 : sp.toNat + 8 < 2 ^ 32 := ht.lt_k 8 (by decide)
  have t_al2 : (sp.toNat + 8) % 4 = 0 := ht.al_k 8 (by decide)
  have t_rd2 : rd (sp.toNat + 8) = true := ht.rd_k 8 (by decide) (by decide)
  have t_wr2 : wr (sp.toNat + 8) = true := ht.wr_k 8 (by decide) (by decide)
  have t_lt3 : sp.toNat + 12 < 2 ^ 32 := ht.lt_k 12 (by decide)
  have t_al3 : (sp.toNat + 12) % 4 = 0 := ht.al_k 12 (by decide)
  have t_rd3 : rd (sp.toNat + 12) = true := ht.rd_k 12 (by decide) (by decide)
  have t_wr3 : wr (sp.toNat + 12) = true := ht.wr_k 12 (by decide) (by decide)
  have t_lt4 : sp.toNat + 16 < 2 ^ 32 := ht.lt_k 16 (by decide)
  have t_al4 : (sp.toNat + 16) % 4 = 0 := ht.al_k 16 (by decide)
  have t_rd4 : rd (sp.toNat + 16) = true := ht.rd_k 16 (by decide) (by decide)
  have t_wr4 : wr (sp.toNat + 16) = true := ht.wr_k 16 (by decide) (by decide)
  have t_lt5 : sp.toNat + 20 < 2 ^ 32 := ht.lt_k 20 (by decide)
  have t_al5 : (sp.toNat + 20) % 4 = 0 := ht.al_k 20 (by decide)
  have t_rd5 : rd (sp.toNat + 20) = true := ht.rd_k 20 (by decide) (by decide)
  have t_wr5 : wr (sp.toNat + 20) = true := ht.wr_k 20 (by decide) (by decide)
  have t_lt6 : sp.toNat + 24 < 2 ^ 32 := ht.lt_k 24 (by decide)
  have t_al6 : (sp.toNat + 24) % 4 = 0 := ht.al_k 24 (by decide)
  have t_rd6 : rd (sp.toNat + 24) = true := ht.rd_k 24 (by decide) (by decide)
  have t_wr6 : wr (sp.toNat + 24) = true := ht.wr_k 24 (by decide) (by decide)
  have t_lt7 : sp.toNat + 28 < 2 ^ 32 := ht.lt_k 28 (by decide)
  have t_al7 : (sp.toNat + 28) % 4 = 0 := ht.al_k 28 (by decide)
  have t_rd7 : rd (sp.toNat + 28) = true := ht.rd_k 28 (by decide) (by decide)
  have t_wr7 : wr (sp.toNat + 28) = true := ht.wr_k 28 (by decide) (by decide)
  have t_lt8 : sp.toNat + 32 < 2 ^ 32 := ht.lt_k 32 (by decide)
  have t_al8 : (sp.toNat + 32) % 4 = 0 := ht.al_k 32 (by decide)
  have t_rd8 : rd (sp.toNat + 32) = true := ht.rd_k 32 (by decide) (by decide)
  have t_wr8 : wr (sp.toNat + 32) = true := ht.wr_k 32 (by decide) (by decide)
  have t_lt9 : sp.toNat + 36 < 2 ^ 32 := ht.lt_k 36 (by decide)
  have t_al9 : (sp.toNat + 36) % 4 = 0 := ht.al_k 36 (by decide)
  have t_rd9 : rd (sp.toNat + 36) = true := ht.rd_k 36 (by decide) (by decide)
  have t_wr9 : wr (sp.toNat + 36) = true := ht.wr_k 36 (by decide) (by decide)
  have t_lt10 : sp.toNat + 40 < 2 ^ 32 := ht.lt_k 40 (by decide)
  have t_al10 : (sp.toNat + 40) % 4 = 0 := ht.al_k 40 (by decide)
  have t_rd10 : rd (sp.toNat + 40) = true := ht.rd_k 40 (by decide) (by decide)
  have t_wr10 : wr (sp.toNat + 40) = true := ht.wr_k 40 (by decide) (by decide)
  have t_lt11 : sp.toNat + 44 < 2 ^ 32 := ht.lt_k 44 (by decide)
  have t_al11 : (sp.toNat + 44) % 4 = 0 := ht.al_k 44 (by decide)
  have t_rd11 : rd (sp.toNat + 44) = true := ht.rd_k 44 (by decide) (by decide)
  have t_wr11 : wr (sp.toNat + 44) = true := ht.wr_k 44 (by decide) (by decide)
  have t_lt12 : sp.toNat + 48 < 2 ^ 32 := ht.lt_k 48 (by decide)
  have t_al12 : (sp.toNat + 48) % 4 = 0 := ht.al_k 48 (by decide)
  have t_rd12 : rd (sp.toNat + 48) = true := ht.rd_k 48 (by decide) (by decide)
  have t_wr12 : wr (sp.toNat + 48) = true := ht.wr_k 48 (by decide) (by decide)
  replace hdis := Hide.mk hdis
  clear hp ht
  generalize hfin : runL _ _ = s'
  obtain ⟨p0, hp0⟩ : ∃ x, x = m (r1.toNat) := ⟨_, rfl⟩
  obtain ⟨p1, hp1⟩ : ∃ x, x = m (r1.toNat + 4) := ⟨_, rfl⟩
  obtain ⟨p2, hp2⟩ : ∃ x, x = m (r1.toNat + 8) := ⟨_, rfl⟩
  obtain ⟨p3, hp3⟩ : ∃ x, x = m (r1.toNat + 12) := ⟨_, rfl⟩
  obtain ⟨p4, hp4⟩ : ∃ x, x = m (r1.toNat + 16) := ⟨_, rfl⟩
  obtain ⟨p5, hp5⟩ : ∃ x, x = m (r1.toNat + 20) := ⟨_, rfl⟩
  obtain ⟨p6, hp6⟩ : ∃ x, x = m (r1.toNat + 24) := ⟨_, rfl⟩
  obtain ⟨p7, hp7⟩ : ∃ x, x = m (r1.toNat + 28) := ⟨_, rfl⟩
  obtain ⟨p8, hp8⟩ : ∃ x, x = m (r1.toNat + 32) := ⟨_, rfl⟩
  obtain ⟨p9, hp9⟩ : ∃ x, x = m (r1.toNat + 36) := ⟨_, rfl⟩
  obtain ⟨p10, hp10⟩ : ∃ x, x = m (r1.toNat + 40) := ⟨_, rfl⟩
  obtain ⟨p11, hp11⟩ : ∃ x, x = m (r1.toNat + 44) := ⟨_, rfl⟩
  obtain ⟨d0, hd0⟩ : ∃ x, x = m (sp.toNat) := ⟨_, rfl⟩
  obtain ⟨d1, hd1⟩ : ∃ x, x = m (sp.toNat + 4) := ⟨_, rfl⟩
  obtain ⟨d2, hd2⟩ : ∃ x, x = m (sp.toNat + 8) := ⟨_, rfl⟩
  obtain ⟨d3, hd3⟩ : ∃ x, x = m (sp.toNat + 12) := ⟨_, rfl⟩
  obtain ⟨d4, hd4⟩ : ∃ x, x = m (sp.toNat + 16) := ⟨_, rfl⟩
  obtain ⟨d5, hd5⟩ : ∃ x, x = m (sp.toNat + 20) := ⟨_, rfl⟩
  obtain ⟨d6, hd6⟩ : ∃ x, x = m (sp.toNat + 24) := ⟨_, rfl⟩
  obtain ⟨d7, hd7⟩ : ∃ x, x = m (sp.toNat + 28) := ⟨_, rfl⟩
  obtain ⟨d8, hd8⟩ : ∃ x, x = m (sp.toNat + 32) := ⟨_, rfl⟩
  obtain ⟨d9, hd9⟩ : ∃ x, x = m (sp.toNat + 36) := ⟨_, rfl⟩
  obtain ⟨d10, hd10⟩ : ∃ x, x = m (sp.toNat + 40) := ⟨_, rfl⟩
  obtain ⟨d11, hd11⟩ : ∃ x, x = m (sp.toNat + 44) := ⟨_, rfl⟩
  obtain ⟨d12, hd12⟩ : ∃ x, x = m (sp.toNat + 48) := ⟨_, rfl⟩
  obtain ⟨u, hu⟩ : ∃ x, x = mulw r2 d0 := ⟨_, rfl⟩
  obtain ⟨o0, ho0⟩ : ∃ x, x = macMulA u p0 d0 := ⟨_, rfl⟩
  obtain ⟨o1, ho1⟩ : ∃ x, x = macMulAC u p1 d1 o0.hi := ⟨_, rfl⟩
  obtain ⟨o2, ho2⟩ : ∃ x, x = macMulAC u p2 d2 o1.hi := ⟨_, rfl⟩
  obtain ⟨o3, ho3⟩ : ∃ x, x = macMulAC u p3 d3 o2.hi := ⟨_, rfl⟩
  obtain ⟨o4, ho4⟩ : ∃ x, x = macMulAC u p4 d4 o3.hi := ⟨_, rfl⟩
  obtain ⟨o5, ho5⟩ : ∃ x, x = macMulAC u p5 d5 o4.hi := ⟨_, rfl⟩
  obtain ⟨o6, ho6⟩ : ∃ x, x = macMulAC u p6 d6 o5.hi := ⟨_, rfl⟩
  obtain ⟨o7, ho7⟩ : ∃ x, x = macMulAC u p7 d7 o6.hi := ⟨_, rfl⟩
  obtain ⟨o8, ho8⟩ : ∃ x, x = macMulAC u p8 d8 o7.hi := ⟨_, rfl⟩
  obtain ⟨o9, ho9⟩ : ∃ x, x = macMulAC u p9 d9 o8.hi := ⟨_, rfl⟩
  obtain ⟨o10, ho10⟩ : ∃ x, x = macMulAC u p10 d10 o9.hi := ⟨_, rfl⟩
  obtain ⟨o11, ho11⟩ : ∃ x, x = macMulAC u p11 d11 o10.hi := ⟨_, rfl⟩
  obtain ⟨w, hw⟩ : ∃ x, x = addWithCarry o11.hi d12 false := ⟨_, rfl⟩
  obtain ⟨w2, hw2⟩ : ∃ x, x = addWithCarry d12 d12 w.c := ⟨_, rfl⟩
  t1m_sym [Code.montRow0, Code.montRowRaw, Code.montCellA, Code.montCellB, muladd32_r2_r3, muladdcarry32_r2_r0, muladdcarry32_r2_r3, ← hp0, ← hp1, ← hp2, ← hp3, ← hp4, ← hp5, ← hp6, ← hp7, ← hp8, ← hp9, ← hp10, ← hp11, ← hd0, ← hd1, ← hd2, ← hd3, ← hd4, ← hd5, ← hd6, ← hd7, ← hd8, ← hd9, ← hd10, ← hd11, ← hd12, ← hu, ← ho0, ← ho1, ← ho2, ← ho3, ← ho4, ← ho5, ← ho6, ← ho7, ← ho8, ← ho9, ← ho10, ← ho11, ← hw, ← hw2] at hfin
  subst hfin
  refine ⟨_, _, _, _, _, _, _, _, _, _, _, _, _, o0.r6.toNat, w.c.toNat, rfl, ?_, o0.r6.isLt, Bool.toNat_le _, ?_, ?_⟩
  · intro k hk
    simp (disch := (clear * - hk; omega)) only [setMem_ne]
  · have e := awc_spec d12 d12 w.c; rw [← hw2] at e
    have := Bool.toNat_le w.c; have := Bool.toNat_le w2.c
    omega
  · simp only [limbs32_13, limbs32_twelve, nat_add_add, Nat.reduceAdd, Nat.add_zero, ← hp0, ← hp1, ← hp2, ← hp3, ← hp4, ← hp5, ← hp6, ← hp7, ← hp8, ← hp9, ← hp10, ← hp11, ← hd0, ← hd1, ← hd2, ← hd3, ← hd4, ← hd5, ← hd6, ← hd7, ← hd8, ← hd9, ← hd10, ← hd11, ← hd12]
    simp (disch := (clear * -; omega)) only [setMem_eq, setMem_ne]
    have eu : u.toNat = r2.toNat * d0.toNat % 2 ^ 32 := by rw [hu, mulw_toNat]
    rw [← eu]
    have e0 := macMulA_spec u p0 d0; rw [← ho0] at e0
    have e1 := macMulAC_spec u p1 d1 o0.hi; rw [← ho1] at e1
    have e2 := macMulAC_spec u p2 d2 o1.hi; rw [← ho2] at e2
    have e3 := macMulAC_spec u p3 d3 o2.hi; rw [← ho3] at e3
    have e4 := macMulAC_spec u p4 d4 o3.hi; rw [← ho4] at e4
    have e5 := macMulAC_spec u p5 d5 o4.hi; rw [← ho5] at e5
    have e6 := macMulAC_spec u p6 d6 o5.hi; rw [← ho6] at e6
    have e7 := macMulAC_spec u p7 d7 o6.hi; rw [← ho7] at e7
    have e8 := macMulAC_spec u p8 d8 o7.hi; rw [← ho8] at e8
    have e9 := macMulAC_spec u p9 d9 o8.hi; rw [← ho9] at e9
    have e10 := macMulAC_spec u p10 d10 o9.hi; rw [← ho10] at e10
    have e11 := macMulAC_spec u p11 d11 o10.hi; rw [← ho11] at e11
    have e12 := awc_spec o11.hi d12 false; rw [← hw] at e12
    simp only [val_cons, val_nil, Bool.toNat_false, Nat.add_zero] at e12 ⊢
    linear_combination e0 + 2 ^ 32 * e1 + 2 ^ 64 * e2 + 2 ^ 96 * e3 + 2 ^ 128 * e4 + 2 ^ 160 * e5 + 2 ^ 192 * e6 + 2 ^ 224 * e7 + 2 ^ 256 * e8 + 2 ^ 288 * e9 + 2 ^ 320 * e10 + 2 ^ 352 * e11 + 2 ^ 384 * e12

set_option maxHeartbeats 1600000 in
/-- `montgomeryreduceloopiteration i` (`io = 4i`, `1 ≤ i ≤ 10`) -/
theorem montRow_run (io : Nat) (r0 r1 r2 r3 r4 r5 r6 r7 r8 r9 r10 r11 r12 sp lr : Word) (nf zf cf vf : Option Bool)
    (m : Nat → Word) (rd wr : Nat → Bool) (pc : Nat) (csm : Bool)
    (hp : Span rd wr r1.toNat 12 false) (ht : Span rd wr (sp.toNat + io) 13 true)
    (hdis : r1.toNat + 48 ≤ sp.toNat + io ∨ sp.toNat + io + 52 ≤ r1.toNat) :
    ∃ (x0 x2 x3 x4 x5 x6 x7 x8 : Word) (n z c v : Option Bool) (m' : Nat → Word) (lo0 mc' : Nat),
      runL (Code.montRow io) ⟨r0, r1, r2, r3, r4, r5, r6, r7, r8, r9, r10, r11, r12, sp, lr, nf, zf, cf, vf, m, rd, wr, pc, .running, csm⟩
        = ⟨x0, r1, x2, x3, x4, x5, x6, x7, x8, r9, r10, r11, r12, sp, lr, n, z, c, v, m', rd, wr, pc + 295, .running, csm⟩ ∧
      (∀ k, ¬(sp.toNat + io + 4 ≤ k ∧ k < sp.toNat + io + 52) → m' k = m k) ∧ lo0 < 2 ^ 32 ∧ mc' ≤ 1 ∧ x8.toNat % 2 = mc' ∧
      lo0 + 2 ^ 32 * (val (2 ^ 32) (limbs32 m' (sp.toNat + (io + 4)) 12) + (2 ^ 32) ^ 12 * mc')
        = (r9.toNat * (m (sp.toNat + io)).toNat % 2 ^ 32) * val (2 ^ 32) (limbs32 m r1.toNat 12) + val (2 ^ 32) (limbs32 m (sp.toNat + io) 13) + (2 ^ 32) ^ 12 * (r8.toNat % 2) := by
  have p_lt0 : r1.toNat < 2 ^ 32 := hp.lt_0 (by decide)
  have p_al0 : (r1.toNat) % 4 = 0 := hp.aligned
  have p_rd0 : rd (r1.toNat) = true := hp.rd_0 (by decide)
  have p_lt1 : r1.toNat + 4 < 2 ^ 32 := hp.lt_k 4 (by decide)
  have p_al1 : (r1.toNat + 4) % 4 = 0 := hp.al_k 4 (by decide)
  have p_rd1 : rd (r1.toNat + 4) = true := hp.rd_k 4 (by decide) (by decide)
  have p_lt2 : r1.toNat + 8 < 2 ^ 32 := hp.lt_k 8 (by decide)
  have p_al2 : (r1.toNat + 8) % 4 = 0 := hp.al_k 8 (by decide)
  have p_rd2 : rd (r1.toNat + 8) = true := hp.rd_k 8 (by decide) (by decide)
  have p_lt3 : r1.toNat + 12 < 2 ^ 32 := hp.lt_k 12 (by decide)
  have p_al3 : (r1.toNat + 12) % 4 = 0 := hp.al_k 12 (by decide)
  have p_rd3 : rd (r1.toNat + 12) = true := hp.rd_k 12 (by decide) (by decide)
  have p_lt4 : r1.toNat + 16 < 2 ^ 32 := hp.lt_k 16 (by decide)
  have p_al4 : (r1.toNat + 16) % 4 = 0 := hp.al_k 16 (by decide)
  have p_rd4 : rd (r1.toNat + 16) = true := hp.rd_k 16 (by decide) (by decide)
  have p_lt5 : r1.toNat + 20 < 2 ^ 32 := hp.lt_k 20 (by decide)
  have p_al5 : (r1.toNat + 20) % 4 = 0 := hp.al_k 20 (by decide)
  have p_rd5 : rd (r1.toNat + 20) = true := hp.rd_k 20 (by decide) (by decide)
  have p_lt6 : r1.toNat + 24 < 2 ^ 32 := hp.lt_k 24 (by decide)
  have p_al6 : (r1.toNat + 24) % 4 = 0 := hp.al_k 24 (by decide)
  have p_rd6 : rd (r1.toNat + 24) = true := hp.rd_k 24 (by decide) (by decide)
  have p_lt7 : r1.toNat + 28 < 2 ^ 32 := hp.lt_k 28 (by decide)
  have p_al7 : (r1.toNat + 28) % 4 = 0 := hp.al_k 28 (by decide)
  have p_rd7 : rd (r1.toNat + 28) = true := hp.rd_k 28 (by decide) (by decide)
  have p_lt8 : r1.toNat + 32 < 2 ^ 32 := hp.lt_k 32 (by decide)
  have p_al8 : (r1.toNat + 32) % 4 = 0 := hp.al_k 32 (by decide)
  have p_rd8 : rd (r1.toNat + 32) = true := hp.rd_k 32 (by decide) (by decide)
  have p_lt9 : r1.toNat + 36 < 2 ^ 32 := hp.lt_k 36 (by decide)
  have p_al9 : (r1.toNat + 36) % 4 = 0 := hp.al_k 36 (by decide)
  have p_rd9 : rd (r1.toNat + 36) = true := hp.rd_k 36 (by decide) (by decide)
  have p_lt10 : r1.toNat + 40 < 2 ^ 32 := hp.lt_k 40 (by decide)
  have p_al10 : (r1.toNat + 40) % 4 = 0 := hp.al_k 40 (by decide)
  have p_rd10 : rd (r1.toNat + 40) = true := hp.rd_k 40 (by decide) (by decide)
  have p_lt11 : r1.toNat + 44 < 2 ^ 32 := hp.lt_k 44 (by decide)
  have p_al11 : (r1.toNat + 44) % 4 = 0 := hp.al_k 44 (by decide)
  have p_rd11 : rd (r1.toNat + 44) = true := hp.rd_k 44 (by decide) (by decide)
  have t_lt0 : sp.toNat + io < 2 ^ 32 := ht.lt_0 (by decide)
  have t_al0 : (sp.toNat + io) % 4 = 0 := ht.aligned
  have t_rd0 : rd (sp.toNat + io) = true := ht.rd_0 (by decide)
  have t_wr0 : wr (sp.toNat + io) = true := ht.wr_0 (by decide)
  have t_lt1 : sp.toNat + (io + 4) < 2 ^ 32 := ht.lt_k2 4 (by decide)
  have t_al1 : (sp.toNat + (io + 4)) % 4 = 0 := ht.al_k2 4 (by decide)
  have t_rd1 : rd (sp.toNat + (io + 4)) = true := ht.rd_k2 4 (by decide) (by decide)
  have t_wr1 : wr (sp.toNat + (io + 4)) = true := ht.wr_k2 4 (by decide) (by decide)
  have t_lt2 : sp.toNat + (io + 8) < 2 ^ 32 := ht.lt_k2 8 (by decide)
  have t_al2 : (sp.toNat + (io + 8)) % 4 = 0 := ht.al_k2 8 (by decide)
  have t_rd2 : rd (sp.toNat + (io + 8)) = true := ht.rd_k2 8 (by decide) (by decide)
  have t_wr2 : wr (sp.toNat + (io + 8)) = true := ht.wr_k2 8 (by decide) (by decide)
  have t_lt3 : sp.toNat + (io + 12) < 2 ^ 32 := ht.lt_k2 12 (by decide)
  have t_al3 : (sp.toNat + (io + 12)) % 4 = 0 := ht.al_k2 12 (by decide)
  have t_rd3 : rd (sp.toNat + (io + 12)) = true := ht.rd_k2 12 (by decide) (by decide)
  have t_wr3 : wr (sp.toNat + (io + 12)) = true := ht.wr_k2 12 (by decide) (by decide)
  have t_lt4 : sp.toNat + (io + 16) < 2 ^ 32 := ht.lt_k2 16 (by decide)
  have t_al4 : (sp.toNat + (io + 16)) % 4 = 0 := ht.al_k2 16 (by decide)
  have t_rd4 : rd (sp.toNat + (io + 16)) = true := ht.rd_k2 16 (by decide) (by decide)
  have t_wr4 : wr (sp.toNat + (io + 16)) = true := ht.wr_k2 16 (by decide) (by decide)
  have t_lt5 : sp.toNat + (io + 20) < 2 ^ 32 := ht.lt_k2 20 (by decide)
  have t_al5 : (sp.toNat + (io + 20)) % 4 = 0 := ht.al_k2 20 (by decide)
  have t_rd5 : rd (sp.toNat + (io + 20)) = true := ht.rd_k2 20 (by decide) (by decide)
  have t_wr5 : wr (sp.toNat + (io + 20)) = true := ht.wr_k2 20 (by decide) (by decide)
  have t_lt6 : sp.toNat + (io + 24) < 2 ^ 32 := ht.lt_k2 24 (by decide)
  have t_al6 : (sp.toNat + (io + 24)) % 4 = 0 := ht.al_k2 24 (by decide)
  have t_rd6 : rd (sp.toNat + (io + 24)) = true := ht.rd_k2 24 (by decide) (by decide)
  have t_wr6 : wr (sp.toNat + (io + 24)) = true := ht.wr_k2 24 (by decide) (by decide)
  have t_lt7 : sp.toNat + (io + 28) < 2 ^ 32 := ht.lt_k2 28 (by decide)
  have t_al7 : (sp.toNat + (io + 28)) % 4 = 0 := ht.al_k2 28 (by decide)
  have t_rd7 : rd (sp.toNat + (io + 28)) = true := ht.rd_k2 28 (by decide) (by decide)
  have t_wr7 : wr (sp.toNat + (io + 28)) = true := ht.wr_k2 28 (by decide) (by decide)
  have t_lt8 : sp.toNat + (io + 32) < 2 ^ 32 := ht.lt_k2 32 (by decide)
  have t_al8 : (sp.toNat + (io + 32)) % 4 = 0 := ht.al_k2 32 (by decide)
  have t_rd8 : rd (sp.toNat + (io + 32)) = true := ht.rd_k2 32 (by decide) (by decide)
  have t_wr8 : wr (sp.toNat + (io + 32)) = true := ht.wr_k2 32 (by decide) (by decide)
  have t_lt9 : sp.toNat + (io + 36) < 2 ^ 32 := ht.lt_k2 36 (by decide)
  have t_al9 : (sp.toNat + (io + 36)) % 4 = 0 := ht.al_k2 36 (by decide)
  have t_rd9 : rd (sp.toNat + (io + 36)) = true := ht.rd_k2 36 (by decide) (by decide)
  have t_wr9 : wr (sp.toNat + (io + 36)) = true := ht.wr_k2 36 (by decide) (by decide)
  have t_lt10 : sp.toNat + (io + 40) < 2 ^ 32 := ht.lt_k2 40 (by decide)
  have t_al10 : (sp.toNat + (io + 40)) % 4 = 0 := ht.al_k2 40 (by decide)
  have t_rd10 : rd (sp.toNat + (io + 40)) = true := ht.rd_k2 40 (by decide) (by decide)
  have t_wr10 : wr (sp.toNat + (io + 40)) = true := ht.wr_k2 40 (by decide) (by decide)
  have t_lt11 : sp.toNat + (io + 44) < 2 ^ 32 := ht.lt_k2 44 (by decide)
  have t_al11 : (sp.toNat + (io + 44)) % 4 = 0 := ht.al_k2 44 (by decide)
  have t_rd11 : rd (sp.toNat + (io + 44)) = true := ht.rd_k2 44 (by decide) (by decide)
  have t_wr11 : wr (sp.toNat + (io + 44)) = true := ht.wr_k2 44 (by decide) (by decide)
  have t_lt12 : sp.toNat + (io + 48) < 2 ^ 32 := ht.lt_k2 48 (by decide)
  have t_al12 : (sp.toNat + (io + 48)) % 4 = 0 := ht.al_k2 48 (by decide)
  have t_rd12 : rd (sp.toNat + (io + 48)) = true := ht.rd_k2 48 (by decide) (by decide)
  have t_wr12 : wr (sp.toNat + (io + 48)) = true := ht.wr_k2 48 (by decide) (by decide)
  replace hdis := Hide.mk hdis
  clear hp ht
  generalize hfin : runL _ _ = s'
  obtain ⟨p0, hp0⟩ : ∃ x, x = m (r1.toNat) := ⟨_, rfl⟩
  obtain ⟨p1, hp1⟩ : ∃ x, x = m (r1.toNat + 4) := ⟨_, rfl⟩
  obtain ⟨p2, hp2⟩ : ∃ x, x = m (r1.toNat + 8) := ⟨_, rfl⟩
  obtain ⟨p3, hp3⟩ : ∃ x, x = m (r1.toNat + 12) := ⟨_, rfl⟩
  obtain ⟨p4, hp4⟩ : ∃ x, x = m (r1.toNat + 16) := ⟨_, rfl⟩
  obtain ⟨p5, hp5⟩ : ∃ x, x = m (r1.toNat + 20) := ⟨_, rfl⟩
  obtain ⟨p6, hp6⟩ : ∃ x, x = m (r1.toNat + 24) := ⟨_, rfl⟩
  obtain ⟨p7, hp7⟩ : ∃ x, x = m (r1.toNat + 28) := ⟨_, rfl⟩
  obtain ⟨p8, hp8⟩ : ∃ x, x = m (r1.toNat + 32) := ⟨_, rfl⟩
  obtain ⟨p9, hp9⟩ : ∃ x, x = m (r1.toNat + 36) := ⟨_, rfl⟩
  obtain ⟨p10, hp10⟩ : ∃ x, x = m (r1.toNat + 40) := ⟨_, rfl⟩
  obtain ⟨p11, hp11⟩ : ∃ x, x = m (r1.toNat + 44) := ⟨_, rfl⟩
  obtain ⟨d0, hd0⟩ : ∃ x, x = m (sp.toNat + io) := ⟨_, rfl⟩
  obtain ⟨d1, hd1⟩ : ∃ x, x = m (sp.toNat + (io + 4)) := ⟨_, rfl⟩
  obtain ⟨d2, hd2⟩ : ∃ x, x = m (sp.toNat + (io + 8)) := ⟨_, rfl⟩
  obtain ⟨d3, hd3⟩ : ∃ x, x = m (sp.toNat + (io + 12)) := ⟨_, rfl⟩
  obtain ⟨d4, hd4⟩ : ∃ x, x = m (sp.toNat + (io + 16)) := ⟨_, rfl⟩
  obtain ⟨d5, hd5⟩ : ∃ x, x = m (sp.toNat + (io + 20)) := ⟨_, rfl⟩
  obtain ⟨d6, hd6⟩ : ∃ x, x = m (sp.toNat + (io + 24)) := ⟨_, rfl⟩
  obtain ⟨d7, hd7⟩ : ∃ x, x = m (sp.toNat + (io + 28)) := ⟨_, rfl⟩
  obtain ⟨d8, hd8⟩ : ∃ x, x = m (sp.toNat + (io + 32)) := ⟨_, rfl⟩
  obtain ⟨d9, hd9⟩ : ∃ x, x = m (sp.toNat + (io + 36)) := ⟨_, rfl⟩
  obtain ⟨d10, hd10⟩ : ∃ x, x = m (sp.toNat + (io + 40)) := ⟨_, rfl⟩
  obtain ⟨d11, hd11⟩ : ∃ x, x = m (sp.toNat + (io + 44)) := ⟨_, rfl⟩
  obtain ⟨d12, hd12⟩ : ∃ x, x = m (sp.toNat + (io + 48)) := ⟨_, rfl⟩
  obtain ⟨u, hu⟩ : ∃ x, x = mulw r9 d0 := ⟨_, rfl⟩
  obtain ⟨o0, ho0⟩ : ∃ x, x = macMulA u p0 d0 := ⟨_, rfl⟩
  obtain ⟨o1, ho1⟩ : ∃ x, x = macMulAC u p1 d1 o0.hi := ⟨_, rfl⟩
  obtain ⟨o2, ho2⟩ : ∃ x, x = macMulAC u p2 d2 o1.hi := ⟨_, rfl⟩
  obtain ⟨o3, ho3⟩ : ∃ x, x = macMulAC u p3 d3 o2.hi := ⟨_, rfl⟩
  obtain ⟨o4, ho4⟩ : ∃ x, x = macMulAC u p4 d4 o3.hi := ⟨_, rfl⟩
  obtain ⟨o5, ho5⟩ : ∃ x, x = macMulAC u p5 d5 o4.hi := ⟨_, rfl⟩
  obtain ⟨o6, ho6⟩ : ∃ x, x = macMulAC u p6 d6 o5.hi := ⟨_, rfl⟩
  obtain ⟨o7, ho7⟩ : ∃ x, x = macMulAC u p7 d7 o6.hi := ⟨_, rfl⟩
  obtain ⟨o8, ho8⟩ : ∃ x, x = macMulAC u p8 d8 o7.hi := ⟨_, rfl⟩
  obtain ⟨o9, ho9⟩ : ∃ x, x = macMulAC u p9 d9 o8.hi := ⟨_, rfl⟩
  obtain ⟨o10, ho10⟩ : ∃ x, x = macMulAC u p10 d10 o9.hi := ⟨_, rfl⟩
  obtain ⟨o11, ho11⟩ : ∃ x, x = macMulAC u p11 d11 o10.hi := ⟨_, rfl⟩
  obtain ⟨w, hw⟩ : ∃ x, x = addWithCarry o11.hi d12 (r8.toNat.testBit 0) := ⟨_, rfl⟩
  obtain ⟨w2, hw2⟩ : ∃ x, x = addWithCarry d12 d12 w.c := ⟨_, rfl⟩
  t1m_sym [Code.montRow, Code.montRowRaw, Code.montCellA, Code.montCellB, muladd32_r2_r3, muladdcarry32_r2_r0, muladdcarry32_r2_r3, ← hp0, ← hp1, ← hp2, ← hp3, ← hp4, ← hp5, ← hp6, ← hp7, ← hp8, ← hp9, ← hp10, ← hp11, ← hd0, ← hd1, ← hd2, ← hd3, ← hd4, ← hd5, ← hd6, ← hd7, ← hd8, ← hd9, ← hd10, ← hd11, ← hd12, ← hu, ← ho0, ← ho1, ← ho2, ← ho3, ← ho4, ← ho5, ← ho6, ← ho7, ← ho8, ← ho9, ← ho10, ← ho11, ← hw, ← hw2] at hfin
  subst hfin
  refine ⟨_, _, _, _, _, _, _, _, _, _, _, _, _, o0.r6.toNat, w.c.toNat, rfl, ?_, o0.r6.isLt, Bool.toNat_le _, ?_, ?_⟩
  · intro k hk
    simp (disch := (clear * - hk; omega)) only [setMem_ne]
  · have e := awc_spec d12 d12 w.c; rw [← hw2] at e
    have := Bool.toNat_le w.c; have := Bool.toNat_le w2.c
    omega
  · simp only [limbs32_13, limbs32_twelve, nat_add_add, Nat.reduceAdd, Nat.add_zero, ← hp0, ← hp1, ← hp2, ← hp3, ← hp4, ← hp5, ← hp6, ← hp7, ← hp8, ← hp9, ← hp10, ← hp11, ← hd0, ← hd1, ← hd2, ← hd3, ← hd4, ← hd5, ← hd6, ← hd7, ← hd8, ← hd9, ← hd10, ← hd11, ← hd12]
    simp (disch := (clear * -; omega)) only [setMem_eq, setMem_ne]
    have eu : u.toNat = r9.toNat * d0.toNat % 2 ^ 32 := by rw [hu, mulw_toNat]
    rw [← eu]
    have e0 := macMulA_spec u p0 d0; rw [← ho0] at e0
    have e1 := macMulAC_spec u p1 d1 o0.hi; rw [← ho1] at e1
    have e2 := macMulAC_spec u p2 d2 o1.hi; rw [← ho2] at e2
    have e3 := macMulAC_spec u p3 d3 o2.hi; rw [← ho3] at e3
    have e4 := macMulAC_spec u p4 d4 o3.hi; rw [← ho4] at e4
    have e5 := macMulAC_spec u p5 d5 o4.hi; rw [← ho5] at e5
    have e6 := macMulAC_spec u p6 d6 o5.hi; rw [← ho6] at e6
    have e7 := macMulAC_spec u p7 d7 o6.hi; rw [← ho7] at e7
    have e8 := macMulAC_spec u p8 d8 o7.hi; rw [← ho8] at e8
    have e9 := macMulAC_spec u p9 d9 o8.hi; rw [← ho9] at e9
    have e10 := macMulAC_spec u p10 d10 o9.hi; rw [← ho10] at e10
    have e11 := macMulAC_spec u p11 d11 o10.hi; rw [← ho11] at e11
    have e12 := awc_spec o11.hi d12 (r8.toNat.testBit 0); rw [← hw, testBit0_toNat] at e12
    simp only [val_cons, val_nil] at e12 ⊢
    linear_combination e0 + 2 ^ 32 * e1 + 2 ^ 64 * e2 + 2 ^ 96 * e3 + 2 ^ 128 * e4 + 2 ^ 160 * e5 + 2 ^ 192 * e6 + 2 ^ 224 * e7 + 2 ^ 256 * e8 + 2 ^ 288 * e9 + 2 ^ 320 * e10 + 2 ^ 352 * e11 + 2 ^ 384 * e12

set_option maxHeartbeats 1600000 in
/-- Montgomery row 11 (the outgoing meta-carry `mc'` is dropped) -/
theorem montRow11_run (r0 r1 r2 r3 r4 r5 r6 r7 r8 r9 r10 r11 r12 sp lr : Word) (nf zf cf vf : Option Bool)
    (m : Nat → Word) (rd wr : Nat → Bool) (pc : Nat) (csm : Bool)
    (hp : Span rd wr r1.toNat 12 false) (ht : Span rd wr (sp.toNat + 44) 13 true)
    (hdis : r1.toNat + 48 ≤ sp.toNat + 44 ∨ sp.toNat + 44 + 52 ≤ r1.toNat) :
    ∃ (x0 x2 x3 x4 x5 x6 x7 : Word) (n z c v : Option Bool) (m' : Nat → Word) (lo0 mc' : Nat),
      runL (Code.montRow11) ⟨r0, r1, r2, r3, r4, r5, r6, r7, r8, r9, r10, r11, r12, sp, lr, nf, zf, cf, vf, m, rd, wr, pc, .running, csm⟩
        = ⟨x0, r1, x2, x3, x4, x5, x6, x7, r8, r9, r10, r11, r12, sp, lr, n, z, c, v, m', rd, wr, pc + 293, .running, csm⟩ ∧
      (∀ k, ¬(sp.toNat + 48 ≤ k ∧ k < sp.toNat + 44 + 52) → m' k = m k) ∧ lo0 < 2 ^ 32 ∧ mc' ≤ 1 ∧
      lo0 + 2 ^ 32 * (val (2 ^ 32) (limbs32 m' (sp.toNat + 48) 12) + (2 ^ 32) ^ 12 * mc')
        = (r9.toNat * (m (sp.toNat + 44)).toNat % 2 ^ 32) * val (2 ^ 32) (limbs32 m r1.toNat 12) + val (2 ^ 32) (limbs32 m (sp.toNat + 44) 13) + (2 ^ 32) ^ 12 * (r8.toNat % 2) := by
  have p_lt0 : r1.toNat < 2 ^ 32 := hp.lt_0 (by decide)
  have p_al0 : (r1.toNat) % 4 = 0 := hp.aligned
  have p_rd0 : rd (r1.toNat) = true := hp.rd_0 (by decide)
  have p_lt1 : r1.toNat + 4 < 2 ^ 32 := hp.lt_k 4 (by decide)
  have p_al1 : (r1.toNat + 4) % 4 = 0 := hp.al_k 4 (by decide)
  have p_rd1 : rd (r1.toNat + 4) = true := hp.rd_k 4 (by decide) (by decide)
  have p_lt2 : r1.toNat + 8 < 2 ^ 32 := hp.lt_k 8 (by decide)
  have p_al2 : (r1.toNat + 8) % 4 = 0 := hp.al_k 8 (by decide)
  have p_rd2 : rd (r1.toNat + 8) = true := hp.rd_k 8 (by decide) (by decide)
  have p_lt3 : r1.toNat + 12 < 2 ^ 32 := hp.lt_k 12 (by decide)
  have p_al3 : (r1.toNat + 12) % 4 = 0 := hp.al_k 12 (by decide)
  have p_rd3 : rd (r1.toNat + 12) = true := hp.rd_k 12 (by decide) (by decide)
  have p_lt4 : r1.toNat + 16 < 2 ^ 32 := hp.lt_k 16 (by decide)
  have p_al4 : (r1.toNat + 16) % 4 = 0 := hp.al_k 16 (by decide)
  have p_rd4 : rd (r1.toNat + 16) = true := hp.rd_k 16 (by decide) (by decide)
  have p_lt5 : r1.toNat + 20 < 2 ^ 32 := hp.lt_k 20 (by decide)
  have p_al5 : (r1.toNat + 20) % 4 = 0 := hp.al_k 20 (by decide)
  have p_rd5 : rd (r1.toNat + 20) = true := hp.rd_k 20 (by decide) (by decide)
  have p_lt6 : r1.toNat + 24 < 2 ^ 32 := hp.lt_k 24 (by decide)
  have p_al6 : (r1.toNat + 24) % 4 = 0 := hp.al_k 24 (by decide)
  have p_rd6 : rd (r1.toNat + 24) = true := hp.rd_k 24 (by decide) (by decide)
  have p_lt7 : r1.toNat + 28 < 2 ^ 32 := hp.lt_k 28 (by decide)
  have p_al7 : (r1.toNat + 28) % 4 = 0 := hp.al_k 28 (by decide)
  have p_rd7 : rd (r1.toNat + 28) = true := hp.rd_k 28 (by decide) (by decide)
  have p_lt8 : r1.toNat + 32 < 2 ^ 32 := hp.lt_k 32 (by decide)
  have p_al8 : (r1.toNat + 32) % 4 = 0 := hp.al_k 32 (by decide)
  have p_rd8 : rd (r1.toNat + 32) = true := hp.rd_k 32 (by decide) (by decide)
  have p_lt9 : r1.toNat + 36 < 2 ^ 32 := hp.lt_k 36 (by decide)
  have p_al9 : (r1.toNat + 36) % 4 = 0 := hp.al_k 36 (by decide)
  have p_rd9 : rd (r1.toNat + 36) = true := hp.rd_k 36 (by decide) (by decide)
  have p_lt10 : r1.toNat + 40 < 2 ^ 32 := hp.lt_k 40 (by decide)
  have p_al10 : (r1.toNat + 40) % 4 = 0 := hp.al_k 40 (by decide)
  have p_rd10 : rd (r1.toNat + 40) = true := hp.rd_k 40 (by decide) (by decide)
  have p_lt11 : r1.toNat + 44 < 2 ^ 32 := hp.lt_k 44 (by decide)
  have p_al11 : (r1.toNat + 44) % 4 = 0 := hp.al_k 44 (by decide)
  have p_rd11 : rd (r1.toNat + 44) = true := hp.rd_k 44 (by decide) (by decide)
  have t_lt0 : sp.toNat + 44 < 2 ^ 32 := ht.lt_0 (by decide)
  have t_al0 : (sp.toNat + 44) % 4 = 0 := ht.aligned
  have t_rd0 : rd (sp.toNat + 44) = true := ht.rd_0 (by decide)
  have t_wr0 : wr (sp.toNat + 44) = true := ht.wr_0 (by decide)
  have t_lt1 : sp.toNat + 48 < 2 ^ 32 := ht.lt_k 4 (by decide)
  have t_al1 : (sp.toNat + 48) % 4 = 0 := ht.al_k 4 (by decide)
  have t_rd1 : rd (sp.toNat + 48) = true := ht.rd_k 4 (by decide) (by decide)
  have t_wr1 : wr (sp.toNat + 48) = true := ht.wr_k 4 (by decide) (by decide)
  have t_lt2 : sp.toNat + 52 < 2 ^ 32 := ht.lt_k 8 (by decide)
  have t_al2 : (sp.toNat + 52) % 4 = 0 := ht.al_k 8 (by decide)
  have t_rd2 : rd (sp.toNat + 52) = true := ht.rd_k 8 (by decide) (by decide)
  have t_wr2 : wr (sp.toNat + 52) = true := ht.wr_k 8 (by decide) (by decide)
  have t_lt3 : sp.toNat + 56 < 2 ^ 32 := ht.lt_k 12 (by decide)
  have t_al3 : (sp.toNat + 56) % 4 = 0 := ht.al_k 12 (by decide)
  have t_rd3 : rd (sp.toNat + 56) = true := ht.rd_k 12 (by decide) (by decide)
  have t_wr3 : wr (sp.toNat + 56) = true := ht.wr_k 12 (by decide) (by decide)
  have t_lt4 : sp.toNat + 60 < 2 ^ 32 := ht.lt_k 16 (by decide)
  have t_al4 : (sp.toNat + 60) % 4 = 0 := ht.al_k 16 (by decide)
  have t_rd4 : rd (sp.toNat + 60) = true := ht.rd_k 16 (by decide) (by decide)
  have t_wr4 : wr (sp.toNat + 60) = true := ht.wr_k 16 (by decide) (by decide)
  have t_lt5 : sp.toNat + 64 < 2 ^ 32 := ht.lt_k 20 (by decide)
  have t_al5 : (sp.toNat + 64) % 4 = 0 := ht.al_k 20 (by decide)
  have t_rd5 : rd (sp.toNat + 64) = true := ht.rd_k 20 (by decide) (by decide)
  have t_wr5 : wr (sp.toNat + 64) = true := ht.wr_k 20 (by decide) (by decide)
  have t_lt6 : sp.toNat + 68 < 2 ^ 32 := ht.lt_k 24 (by decide)
  have t_al6 : (sp.toNat + 68) % 4 = 0 := ht.al_k 24 (by decide)
  have t_rd6 : rd (sp.toNat + 68) = true := ht.rd_k 24 (by decide) (by decide)
  have t_wr6 : wr (sp.toNat + 68) = true := ht.wr_k 24 (by decide) (by decide)
  have t_lt7 : sp.toNat + 72 < 2 ^ 32 := ht.lt_k 28 (by decide)
  have t_al7 : (sp.toNat + 72) % 4 = 0 := ht.al_k 28 (by decide)
  have t_rd7 : rd (sp.toNat + 72) = true := ht.rd_k 28 (by decide) (by decide)
  have t_wr7 : wr (sp.toNat + 72) = true := ht.wr_k 28 (by decide) (by decide)
  have t_lt8 : sp.toNat + 76 < 2 ^ 32 := ht.lt_k 32 (by decide)
  have t_al8 : (sp.toNat + 76) % 4 = 0 := ht.al_k 32 (by decide)
  have t_rd8 : rd (sp.toNat + 76) = true := ht.rd_k 32 (by decide) (by decide)
  have t_wr8 : wr (sp.toNat + 76) = true := ht.wr_k 32 (by decide) (by decide)
  have t_lt9 : sp.toNat + 80 < 2 ^ 32 := ht.lt_k 36 (by decide)
  have t_al9 : (sp.toNat + 80) % 4 = 0 := ht.al_k 36 (by decide)
  have t_rd9 : rd (sp.toNat + 80) = true := ht.rd_k 36 (by decide) (by decide)
  have t_wr9 : wr (sp.toNat + 80) = true := ht.wr_k 36 (by decide) (by decide)
  have t_lt10 : sp.toNat + 84 < 2 ^ 32 := ht.lt_k 40 (by decide)
  have t_al10 : (sp.toNat + 84) % 4 = 0 := ht.al_k 40 (by decide)
  have t_rd10 : rd (sp.toNat + 84) = true := ht.rd_k 40 (by decide) (by decide)
  have t_wr10 : wr (sp.toNat + 84) = true := ht.wr_k 40 (by decide) (by decide)
  have t_lt11 : sp.toNat + 88 < 2 ^ 32 := ht.lt_k 44 (by decide)
  have t_al11 : (sp.toNat + 88) % 4 = 0 := ht.al_k 44 (by decide)
  have t_rd11 : rd (sp.toNat + 88) = true := ht.rd_k 44 (by decide) (by decide)
  have t_wr11 : wr (sp.toNat + 88) = true := ht.wr_k 44 (by decide) (by decide)
  have t_lt12 : sp.toNat + 92 < 2 ^ 32 := ht.lt_k 48 (by decide)
  have t_al12 : (sp.toNat + 92) % 4 = 0 := ht.al_k 48 (by decide)
  have t_rd12 : rd (sp.toNat + 92) = true := ht.rd_k 48 (by decide) (by decide)
  have t_wr12 : wr (sp.toNat + 92) = true := ht.wr_k 48 (by decide) (by decide)
  replace hdis := Hide.mk hdis
  clear hp ht
  generalize hfin : runL _ _ = s'
  obtain ⟨p0, hp0⟩ : ∃ x, x = m (r1.toNat) := ⟨_, rfl⟩
  obtain ⟨p1, hp1⟩ : ∃ x, x = m (r1.toNat + 4) := ⟨_, rfl⟩
  obtain ⟨p2, hp2⟩ : ∃ x, x = m (r1.toNat + 8) := ⟨_, rfl⟩
  obtain ⟨p3, hp3⟩ : ∃ x, x = m (r1.toNat + 12) := ⟨_, rfl⟩
  obtain ⟨p4, hp4⟩ : ∃ x, x = m (r1.toNat + 16) := ⟨_, rfl⟩
  obtain ⟨p5, hp5⟩ : ∃ x, x = m (r1.toNat + 20) := ⟨_, rfl⟩
  obtain ⟨p6, hp6⟩ : ∃ x, x = m (r1.toNat + 24) := ⟨_, rfl⟩
  obtain ⟨p7, hp7⟩ : ∃ x, x = m (r1.toNat + 28) := ⟨_, rfl⟩
  obtain ⟨p8, hp8⟩ : ∃ x, x = m (r1.toNat + 32) := ⟨_, rfl⟩
  obtain ⟨p9, hp9⟩ : ∃ x, x = m (r1.toNat + 36) := ⟨_, rfl⟩
  obtain ⟨p10, hp10⟩ : ∃ x, x = m (r1.toNat + 40) := ⟨_, rfl⟩
  obtain ⟨p11, hp11⟩ : ∃ x, x = m (r1.toNat + 44) := ⟨_, rfl⟩
  obtain ⟨d0, hd0⟩ : ∃ x, x = m (sp.toNat + 44) := ⟨_, rfl⟩
  obtain ⟨d1, hd1⟩ : ∃ x, x = m (sp.toNat + 48) := ⟨_, rfl⟩
  obtain ⟨d2, hd2⟩ : ∃ x, x = m (sp.toNat + 52) := ⟨_, rfl⟩
  obtain ⟨d3, hd3⟩ : ∃ x, x = m (sp.toNat + 56) := ⟨_, rfl⟩
  obtain ⟨d4, hd4⟩ : ∃ x, x = m (sp.toNat + 60) := ⟨_, rfl⟩
  obtain ⟨d5, hd5⟩ : ∃ x, x = m (sp.toNat + 64) := ⟨_, rfl⟩
  obtain ⟨d6, hd6⟩ : ∃ x, x = m (sp.toNat + 68) := ⟨_, rfl⟩
  obtain ⟨d7, hd7⟩ : ∃ x, x = m (sp.toNat + 72) := ⟨_, rfl⟩
  obtain ⟨d8, hd8⟩ : ∃ x, x = m (sp.toNat + 76) := ⟨_, rfl⟩
  obtain ⟨d9, hd9⟩ : ∃ x, x = m (sp.toNat + 80) := ⟨_, rfl⟩
  obtain ⟨d10, hd10⟩ : ∃ x, x = m (sp.toNat + 84) := ⟨_, rfl⟩
  obtain ⟨d11, hd11⟩ : ∃ x, x = m (sp.toNat + 88) := ⟨_, rfl⟩
  obtain ⟨d12, hd12⟩ : ∃ x, x = m (sp.toNat + 92) := ⟨_, rfl⟩
  obtain ⟨u, hu⟩ : ∃ x, x = mulw r9 d0 := ⟨_, rfl⟩
  obtain ⟨o0, ho0⟩ : ∃ x, x = macMulA u p0 d0 := ⟨_, rfl⟩
  obtain ⟨o1, ho1⟩ : ∃ x, x = macMulAC u p1 d1 o0.hi := ⟨_, rfl⟩
  obtain ⟨o2, ho2⟩ : ∃ x, x = macMulAC u p2 d2 o1.hi := ⟨_, rfl⟩
  obtain ⟨o3, ho3⟩ : ∃ x, x = macMulAC u p3 d3 o2.hi := ⟨_, rfl⟩
  obtain ⟨o4, ho4⟩ : ∃ x, x = macMulAC u p4 d4 o3.hi := ⟨_, rfl⟩
  obtain ⟨o5, ho5⟩ : ∃ x, x = macMulAC u p5 d5 o4.hi := ⟨_, rfl⟩
  obtain ⟨o6, ho6⟩ : ∃ x, x = macMulAC u p6 d6 o5.hi := ⟨_, rfl⟩
  obtain ⟨o7, ho7⟩ : ∃ x, x = macMulAC u p7 d7 o6.hi := ⟨_, rfl⟩
  obtain ⟨o8, ho8⟩ : ∃ x, x = macMulAC u p8 d8 o7.hi := ⟨_, rfl⟩
  obtain ⟨o9, ho9⟩ : ∃ x, x = macMulAC u p9 d9 o8.hi := ⟨_, rfl⟩
  obtain ⟨o10, ho10⟩ : ∃ x, x = macMulAC u p10 d10 o9.hi := ⟨_, rfl⟩
  obtain ⟨o11, ho11⟩ : ∃ x, x = macMulAC u p11 d11 o10.hi := ⟨_, rfl⟩
  obtain ⟨w, hw⟩ : ∃ x, x = addWithCarry o11.hi d12 (r8.toNat.testBit 0) := ⟨_, rfl⟩
  t1m_sym [Code.montRow11, Code.montRowRaw, Code.montCellA, Code.montCellB, muladd32_r2_r3, muladdcarry32_r2_r0, muladdcarry32_r2_r3, ← hp0, ← hp1, ← hp2, ← hp3, ← hp4, ← hp5, ← hp6, ← hp7, ← hp8, ← hp9, ← hp10, ← hp11, ← hd0, ← hd1, ← hd2, ← hd3, ← hd4, ← hd5, ← hd6, ← hd7, ← hd8, ← hd9, ← hd10, ← hd11, ← hd12, ← hu, ← ho0, ← ho1, ← ho2, ← ho3, ← ho4, ← ho5, ← ho6, ← ho7, ← ho8, ← ho9, ← ho10, ← ho11, ← hw] at hfin
  subst hfin
  refine ⟨_, _, _, _, _, _, _, _, _, _, _, _, o0.r6.toNat, w.c.toNat, rfl, ?_, o0.r6.isLt, Bool.toNat_le _, ?_⟩
  · intro k hk
    simp (disch := (clear * - hk; omega)) only [setMem_ne]
  · simp only [limbs32_13, limbs32_twelve, nat_add_add, Nat.reduceAdd, Nat.add_zero, ← hp0, ← hp1, ← hp2, ← hp3, ← hp4, ← hp5, ← hp6, ← hp7, ← hp8, ← hp9, ← hp10, ← hp11, ← hd0, ← hd1, ← hd2, ← hd3, ← hd4, ← hd5, ← hd6, ← hd7, ← hd8, ← hd9, ← hd10, ← hd11, ← hd12]
    simp (disch := (clear * -; omega)) only [setMem_eq, setMem_ne]
    have eu : u.toNat = r9.toNat * d0.toNat % 2 ^ 32 := by rw [hu, mulw_toNat]
    rw [← eu]
    have e0 := macMulA_spec u p0 d0; rw [← ho0] at e0
    have e1 := macMulAC_spec u p1 d1 o0.hi; rw [← ho1] at e1
    have e2 := macMulAC_spec u p2 d2 o1.hi; rw [← ho2] at e2
    have e3 := macMulAC_spec u p3 d3 o2.hi; rw [← ho3] at e3
    have e4 := macMulAC_spec u p4 d4 o3.hi; rw [← ho4] at e4
    have e5 := macMulAC_spec u p5 d5 o4.hi; rw [← ho5] at e5
    have e6 := macMulAC_spec u p6 d6 o5.hi; rw [← ho6] at e6
    have e7 := macMulAC_spec u p7 d7 o6.hi; rw [← ho7] at e7
    have e8 := macMulAC_spec u p8 d8 o7.hi; rw [← ho8] at e8
    have e9 := macMulAC_spec u p9 d9 o8.hi; rw [← ho9] at e9
    have e10 := macMulAC_spec u p10 d10 o9.hi; rw [← ho10] at e10
    have e11 := macMulAC_spec u p11 d11 o10.hi; rw [← ho11] at e11
    have e12 := awc_spec o11.hi d12 (r8.toNat.testBit 0); rw [← hw, testBit0_toNat] at e12
    simp only [val_cons, val_nil] at e12 ⊢
    linear_combination e0 + 2 ^ 32 * e1 + 2 ^ 64 * e2 + 2 ^ 96 * e3 + 2 ^ 128 * e4 + 2 ^ 160 * e5 + 2 ^ 192 * e6 + 2 ^ 224 * e7 + 2 ^ 256 * e8 + 2 ^ 288 * e9 + 2 ^ 320 * e10 + 2 ^ 352 * e11 + 2 ^ 384 * e12

end Jedi.Thumb1
