/-
The Miller loop over lists of pairs is the product of the Miller loops over the single pairs (C08), for every
commutative ring of coefficients: the accumulator is only ever multiplied by sparse line elements (`ell`), squared
and finally conjugated, all of which distribute over a product.
-/
import JediVerif.Proofs.MillerProofs
import JediVerif.Gen.TowerThms

set_option linter.unusedSectionVars false
set_option linter.unnecessarySeqFocus false
set_option linter.unusedSimpArgs false
namespace Jedi.Impl
open Jedi.Gen

section
variable {R : Type} [CommRing R] [Inv R] [DecidableEq R] [TowerConsts R]

/-- the sparse Fq12 element `ell` multiplies the accumulator with -/
def lineEl (c : MT R) (g1 : Aff R) : Q12 R :=
  ⟨⟨c.c, ⟨c.b.c0 * g1.x, c.b.c1 * g1.x⟩, 0⟩, ⟨0, ⟨c.a.c0 * g1.y, c.a.c1 * g1.y⟩, 0⟩⟩

theorem ell_eq_mul (f : Q12 R) (c : MT R) (g1 : Aff R) : ell f c g1 = f * lineEl c g1 := by
  simp only [ell, lineEl, Fq12.multiply_by_c014_oa_spec]

theorem conj_mul (a b : Q12 R) : Q12.conj (a * b) = Q12.conj a * Q12.conj b := by
  ext1 <;> simp [Q12.conj] <;> ring

theorem conj_one : Q12.conj (1 : Q12 R) = 1 := by
  ext1 <;> simp [Q12.conj]

/-! ### rounds: factor out the accumulator, split over concatenation -/

theorem roundAffine_factor (addition : Bool) : ∀ (as : List (APair R)) (res : Q12 R),
    roundAffine addition res as = (res * (roundAffine addition 1 as).1, (roundAffine addition 1 as).2) := by
  intro as
  induction as with
  | nil => intro res; simp [roundAffine]
  | cons p ps ih =>
    intro res
    by_cases h : (!p.g1.infinity && !p.g2.infinity) = true
    · cases addition <;>
      · simp only [roundAffine, h, if_true, Bool.false_eq_true, if_false]
        rw [ih (ell res _ _), ih (ell 1 _ _)]
        simp only [ell_eq_mul]; ext1 <;> simp <;> ring
    · have h : (!p.g1.infinity && !p.g2.infinity) = false := by simpa using h
      simp only [roundAffine, h, Bool.false_eq_true, if_false]
      rw [ih res]

theorem roundAffine_append (addition : Bool) : ∀ (as1 as2 : List (APair R)) (res : Q12 R),
    roundAffine addition res (as1 ++ as2) =
      ((roundAffine addition (roundAffine addition res as1).1 as2).1,
        (roundAffine addition res as1).2 ++ (roundAffine addition (roundAffine addition res as1).1 as2).2) := by
  intro as1
  induction as1 with
  | nil => intro as2 res; simp [roundAffine]
  | cons p ps ih =>
    intro as2 res
    by_cases h : (!p.g1.infinity && !p.g2.infinity) = true
    · cases addition <;>
      · simp only [List.cons_append, roundAffine, h, if_true, Bool.false_eq_true, if_false]
        rw [ih]
    · have h : (!p.g1.infinity && !p.g2.infinity) = false := by simpa using h
      simp only [List.cons_append, roundAffine, h, Bool.false_eq_true, if_false]
      rw [ih]

theorem roundAffine_mul_append (addition : Bool) (x y : Q12 R) (as1 as2 : List (APair R)) :
    roundAffine addition (x * y) (as1 ++ as2) =
      ((roundAffine addition x as1).1 * (roundAffine addition y as2).1,
        (roundAffine addition x as1).2 ++ (roundAffine addition y as2).2) := by
  rw [roundAffine_append, roundAffine_factor addition as1 (x * y), roundAffine_factor addition as2 (_ * _),
    roundAffine_factor addition as1 x, roundAffine_factor addition as2 y]
  ext1 <;> simp <;> ring

theorem roundPrepared_factor : ∀ (ps : List (PPair R)) (res : Q12 R),
    roundPrepared res ps = (res * (roundPrepared 1 ps).1, (roundPrepared 1 ps).2) := by
  intro ps
  induction ps with
  | nil => intro res; simp [roundPrepared]
  | cons p ps ih =>
    intro res
    by_cases h : (!p.g1.infinity && !p.g2.infinity) = true
    · simp only [roundPrepared, h, if_true]
      rw [ih (ell res _ _), ih (ell 1 _ _)]
      simp only [ell_eq_mul]; ext1 <;> simp <;> ring
    · have h : (!p.g1.infinity && !p.g2.infinity) = false := by simpa using h
      simp only [roundPrepared, h, Bool.false_eq_true, if_false]
      rw [ih res]

theorem roundPrepared_append : ∀ (ps1 ps2 : List (PPair R)) (res : Q12 R),
    roundPrepared res (ps1 ++ ps2) =
      ((roundPrepared (roundPrepared res ps1).1 ps2).1,
        (roundPrepared res ps1).2 ++ (roundPrepared (roundPrepared res ps1).1 ps2).2) := by
  intro ps1
  induction ps1 with
  | nil => intro ps2 res; simp [roundPrepared]
  | cons p ps ih =>
    intro ps2 res
    by_cases h : (!p.g1.infinity && !p.g2.infinity) = true
    · simp only [List.cons_append, roundPrepared, h, if_true]
      rw [ih]
    · have h : (!p.g1.infinity && !p.g2.infinity) = false := by simpa using h
      simp only [List.cons_append, roundPrepared, h, Bool.false_eq_true, if_false]
      rw [ih]

theorem roundPrepared_mul_append (x y : Q12 R) (ps1 ps2 : List (PPair R)) :
    roundPrepared (x * y) (ps1 ++ ps2) =
      ((roundPrepared x ps1).1 * (roundPrepared y ps2).1, (roundPrepared x ps1).2 ++ (roundPrepared y ps2).2) := by
  rw [roundPrepared_append, roundPrepared_factor ps1 (x * y), roundPrepared_factor ps2 (_ * _),
    roundPrepared_factor ps1 x, roundPrepared_factor ps2 y]
  ext1 <;> simp <;> ring

/-! ### the loop state of two independent groups of pairs, run side by side -/

/-- combine the loop states of two groups of pairs: accumulators multiplied, pair records concatenated -/
def comb (s1 s2 : Q12 R × List (APair R) × List (PPair R)) : Q12 R × List (APair R) × List (PPair R) :=
  (s1.1 * s2.1, s1.2.1 ++ s2.2.1, s1.2.2 ++ s2.2.2)

theorem millerIter_comb (b : Bool) (s1 s2 : Q12 R × List (APair R) × List (PPair R)) :
    millerIter b (comb s1 s2) = comb (millerIter b s1) (millerIter b s2) := by
  obtain ⟨x, a1, p1⟩ := s1
  obtain ⟨y, a2, p2⟩ := s2
  cases b <;>
  · simp only [millerIter, comb, roundAffine_mul_append, roundPrepared_mul_append, Bool.false_eq_true, if_false, if_true,
      Fq12.square_oa_spec]
    ext1
    · simp only []; ring
    · rfl

theorem fold_comb : ∀ (bits : List Bool) (s1 s2 : Q12 R × List (APair R) × List (PPair R)),
    bits.foldl (fun st b => millerIter b st) (comb s1 s2) =
      comb (bits.foldl (fun st b => millerIter b st) s1) (bits.foldl (fun st b => millerIter b st) s2) := by
  intro bits
  induction bits with
  | nil => intro s1 s2; rfl
  | cons b bs ih => intro s1 s2; simp only [List.foldl_cons, millerIter_comb, ih]

theorem finishLoop_comb (s1 s2 : Q12 R × List (APair R) × List (PPair R)) :
    finishLoop (comb s1 s2) = finishLoop s1 * finishLoop s2 := by
  obtain ⟨x, a1, p1⟩ := s1
  obtain ⟨y, a2, p2⟩ := s2
  simp only [finishLoop, comb, roundAffine_mul_append, roundPrepared_mul_append, Fq12.conjugate_oa_spec]
  split
  · rw [conj_mul]
  · rfl

/-- **C08**: the Miller loop over two groups of pairs (affine and prepared, in any mixture) is the product of the
Miller loops over each group. -/
theorem millerLoop_append (a1 a2 : List (Aff R × Aff (Q2 R))) (p1 p2 : List (Aff R × Prepared R)) :
    millerLoop (a1 ++ a2) (p1 ++ p2) = millerLoop a1 p1 * millerLoop a2 p2 := by
  unfold millerLoop
  have : ((1 : Q12 R), (a1 ++ a2).map initA, (p1 ++ p2).map initP) =
      comb ((1 : Q12 R), a1.map initA, p1.map initP) ((1 : Q12 R), a2.map initA, p2.map initP) := by
    simp [comb]
  rw [this, fold_comb, finishLoop_comb]

/-- the squarings of the loop keep the accumulator at 1 when there is nothing to multiply in -/
theorem fold_empty : ∀ (bits : List Bool),
    bits.foldl (fun st b => millerIter b st) ((1 : Q12 R), ([] : List (APair R)), ([] : List (PPair R))) = (1, [], []) := by
  intro bits
  induction bits with
  | nil => rfl
  | cons b bs ih =>
    rw [List.foldl_cons]
    have : millerIter b ((1 : Q12 R), ([] : List (APair R)), ([] : List (PPair R))) = (1, [], []) := by
      cases b <;> simp [millerIter, Fq12.square_oa_spec]
    rw [this, ih]

/-- **C08**: the empty product is 1. -/
theorem millerLoop_nil : millerLoop ([] : List (Aff R × Aff (Q2 R))) ([] : List (Aff R × Prepared R)) = 1 := by
  unfold millerLoop
  simp only [List.map_nil, fold_empty, finishLoop, roundAffine_nil, roundPrepared_nil, Fq12.conjugate_oa_spec, conj_one]
  split <;> rfl

/-- **C08**: the Miller loop over arbitrary lists is the product, pair by pair, of the single-pair Miller loops
(affine pairs first, then prepared pairs; the ring is commutative, so any interleaving gives the same value). -/
theorem millerLoop_eq_prod (as : List (Aff R × Aff (Q2 R))) (ps : List (Aff R × Prepared R)) :
    millerLoop as ps = (as.map fun p => millerLoop [p] []).prod * (ps.map fun p => millerLoop [] [p]).prod := by
  induction as with
  | nil =>
    induction ps with
    | nil => simp [millerLoop_nil]
    | cons p ps ih =>
      have := millerLoop_append ([] : List (Aff R × Aff (Q2 R))) [] [p] ps
      simp only [List.nil_append, List.singleton_append] at this
      rw [this, ih]; simp
  | cons a as ih =>
    have := millerLoop_append [a] as ([] : List (Aff R × Prepared R)) ps
    simp only [List.singleton_append, List.nil_append] at this
    rw [this, ih]; simp [mul_assoc]

/-- squaring keeps the accumulator at 1 while the only pair is inactive (one member the identity) -/
theorem fold_inactive_affine (p : APair R) (h : (!p.g1.infinity && !p.g2.infinity) = false) : ∀ (bits : List Bool),
    bits.foldl (fun st b => millerIter b st) ((1 : Q12 R), [p], ([] : List (PPair R))) = (1, [p], []) := by
  intro bits
  induction bits with
  | nil => rfl
  | cons b bs ih =>
    rw [List.foldl_cons]
    have : millerIter b ((1 : Q12 R), [p], ([] : List (PPair R))) = (1, [p], []) := by
      cases b <;> simp [millerIter, roundAffine, h, Fq12.square_oa_spec]
    rw [this, ih]

theorem fold_inactive_prepared (p : PPair R) (h : (!p.g1.infinity && !p.g2.infinity) = false) : ∀ (bits : List Bool),
    bits.foldl (fun st b => millerIter b st) ((1 : Q12 R), ([] : List (APair R)), [p]) = (1, [], [p]) := by
  intro bits
  induction bits with
  | nil => rfl
  | cons b bs ih =>
    rw [List.foldl_cons]
    have : millerIter b ((1 : Q12 R), ([] : List (APair R)), [p]) = (1, [], [p]) := by
      cases b <;> simp [millerIter, roundPrepared, h, Fq12.square_oa_spec]
    rw [this, ih]

/-- **C08**: an affine pair with an identity member contributes the neutral element. -/
theorem millerLoop_identity_affine (g1 : Aff R) (g2 : Aff (Q2 R)) (h : (g1.infinity || g2.infinity) = true) :
    millerLoop [(g1, g2)] [] = 1 := by
  have h' : (!(initA (g1, g2)).g1.infinity && !(initA (g1, g2)).g2.infinity) = false := by
    simp only [initA]; cases hg1 : g1.infinity <;> cases hg2 : g2.infinity <;> simp_all
  unfold millerLoop
  simp only [List.map_cons, List.map_nil, fold_inactive_affine _ h', finishLoop, roundAffine, h', roundPrepared_nil,
    Fq12.conjugate_oa_spec, conj_one, Bool.false_eq_true, if_false]
  split <;> rfl

/-- **C08**: a prepared pair with an identity member contributes the neutral element. -/
theorem millerLoop_identity_prepared (g1 : Aff R) (P : Prepared R) (h : (g1.infinity || P.infinity) = true) :
    millerLoop [] [(g1, P)] = 1 := by
  have h' : (!(initP (g1, P)).g1.infinity && !(initP (g1, P)).g2.infinity) = false := by
    simp only [initP]; cases hg1 : g1.infinity <;> cases hg2 : P.infinity <;> simp_all
  unfold millerLoop
  simp only [List.map_cons, List.map_nil, fold_inactive_prepared _ h', finishLoop, roundPrepared, h', roundAffine_nil,
    Fq12.conjugate_oa_spec, conj_one, Bool.false_eq_true, if_false]
  split <;> rfl

end
end Jedi.Impl
