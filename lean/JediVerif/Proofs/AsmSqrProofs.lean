/-
`bigint_768_square` (baseline family, /repo/src/core/arch/x86_64/multiply.s): for every entry state
satisfying the calling convention the twelve result limbs are `a²`.

The routine computes the fifteen products below the diagonal (rows of `muladd64`/`muladdcarry64`/
`mulcarry64`, ten words in registers), doubles the ten words with one `add`/`adc` chain (the carry out is
pushed on the stack), and adds the six squares on the diagonal (`sqr_diag_spec`), the pushed carry going
into the top word.  The last addition into the top word drops its carry; it is zero because `a² < 2^768`
(`sqr_no_carry`).  Symbolic execution in pieces as in `AsmMulProofs.lean`, one `linear_combination` of
the macro / chain / diagonal equations.
-/
import JediVerif.Proofs.AsmMulProofs
import Mathlib.Tactic.NormNum

set_option linter.unusedSimpArgs false
set_option exponentiation.threshold 800

namespace Jedi.X86
open Jedi.Impl (val WF val_cons val_nil val_lt val_inj)

/-! ## squaring: the diagonal steps -/

/-- `mov $0, r; adc $0, r` (or `adc r, r` on a zero register): the carry as a word -/
theorem carry_word {c : Bool} {m : ArithRes} (hm : m = addc .q (0#64) (0#64) c) : m.val.toNat = c.toNat := by
  have e := addc_spec (0#64) (0#64) c; rw [← hm] at e
  have := Bool.toNat_le c; have := Bool.toNat_le m.cf
  simp only [BitVec.toNat_ofNat, Nat.zero_mod] at e
  omega

section diag
variable {a r8 lo hi l h z : Word} {t1 t2 t3 t4 t5 m : ArithRes}

/-- `adddiagonal`: `addlo:addhi:r8' := a² + r8 + addlo:addhi` -/
theorem sqr_diag_spec (hl : l = mulLo a a) (hh : h = mulHi a a) (ht1 : t1 = addc .q l r8 false)
    (ht2 : t2 = addc .q h (0#64) t1.cf) (ht3 : t3 = addc .q lo t1.val false) (ht4 : t4 = addc .q hi t2.val t3.cf)
    (hm : m = addc .q (0#64) (0#64) t4.cf) :
    t3.val.toNat + 2 ^ 64 * t4.val.toNat + 2 ^ 128 * m.val.toNat
      = a.toNat * a.toNat + r8.toNat + lo.toNat + 2 ^ 64 * hi.toNat := by
  have hm' := carry_word hm
  have hp := mul_spec a a; rw [← hl, ← hh] at hp
  have hb := mul_lt a a
  have e1 := addc_spec l r8 false; rw [← ht1] at e1
  have e2 := addc_spec h (0#64) t1.cf; rw [← ht2] at e2
  have e3 := addc_spec lo t1.val false; rw [← ht3] at e3
  have e4 := addc_spec hi t2.val t3.cf; rw [← ht4] at e4
  have := l.isLt; have := h.isLt; have := r8.isLt; have := t1.val.isLt; have := t2.val.isLt
  have := Bool.toNat_le t1.cf; have := Bool.toNat_le t2.cf; have := Bool.toNat_le t3.cf; have := Bool.toNat_le t4.cf
  simp only [Bool.toNat_false, BitVec.toNat_ofNat, Nat.zero_mod] at e1 e2 e3
  generalize a.toNat * a.toNat = p at *
  omega

/-- the last diagonal step: `w:top := a² + r8 + w + 2^64·z`, the carry out of the top word kept explicit -/
theorem sqr_diag_last_spec (hl : l = mulLo a a) (hh : h = mulHi a a) (ht1 : t1 = addc .q l r8 false)
    (ht2 : t2 = addc .q h (0#64) t1.cf) (ht3 : t3 = addc .q lo t1.val false) (ht4 : t4 = addc .q t2.val (0#64) t3.cf)
    (ht5 : t5 = addc .q t4.val z false) :
    t3.val.toNat + 2 ^ 64 * t5.val.toNat + 2 ^ 128 * t5.cf.toNat
      = a.toNat * a.toNat + r8.toNat + lo.toNat + 2 ^ 64 * z.toNat := by
  have hp := mul_spec a a; rw [← hl, ← hh] at hp
  have hb := mul_lt a a
  have e1 := addc_spec l r8 false; rw [← ht1] at e1
  have e2 := addc_spec h (0#64) t1.cf; rw [← ht2] at e2
  have e3 := addc_spec lo t1.val false; rw [← ht3] at e3
  have e4 := addc_spec t2.val (0#64) t3.cf; rw [← ht4] at e4
  have e5 := addc_spec t4.val z false; rw [← ht5] at e5
  have := l.isLt; have := h.isLt; have := r8.isLt; have := lo.isLt; have := t1.val.isLt; have := t2.val.isLt
  have := t3.val.isLt; have := t4.val.isLt
  have := Bool.toNat_le t1.cf; have := Bool.toNat_le t2.cf; have := Bool.toNat_le t3.cf; have := Bool.toNat_le t4.cf
  simp only [Bool.toNat_false, BitVec.toNat_ofNat, Nat.zero_mod] at e1 e2 e3 e4 e5
  generalize a.toNat * a.toNat = p at *
  omega

end diag

/-- a square of a 384-bit number fits 768 bits: a carry out of the top word is zero -/
theorem sqr_no_carry {R A c : Nat} (h : R + 2 ^ 768 * c = A * A) (hA : A < 2 ^ 384) : c = 0 ∧ R = A * A := by
  have h1 : A * A ≤ (2 ^ 384 - 1) * (2 ^ 384 - 1) := Nat.mul_le_mul (by omega) (by omega)
  have h2 : (2 ^ 384 - 1) * (2 ^ 384 - 1) < 2 ^ 768 := by norm_num
  generalize A * A = Q at *
  omega

open Jedi.Gen.AsmX86

/-! ## symbolic execution, cut into pieces -/

set_option maxHeartbeats 1600000 in
theorem sqr768_part0 (s : State) (pr pa : Word)
    (hr : Buf s pr 12 true) (ha : Buf s pa 6 false) (hra : X86.Disjoint pr 12 pa 6)
    (hstk : Stack s 7) (hrs : OffStack s 7 pr 12) (has : OffStack s 7 pa 6) {a0 a1 a2 a3 m7h m7l m12h m12l m17h m17l m24h m24l m29h m29l m36h m36l : Word} {t13 t14 t18 t19 t25 t26 t30 t31 t32 t33 t37 t38 : ArithRes}
    (hst : s.status = .running) (hpc : s.pc = 0) (hdi : s.rdi = pr) (hsi : s.rsi = pa) (ha0 : a0 = s.mem (pa.toNat + 0)) (ha1 : a1 = s.mem (pa.toNat + 8)) (ha2 : a2 = s.mem (pa.toNat + 16))
    (ha3 : a3 = s.mem (pa.toNat + 24)) (hm7l : m7l = mulLo a1 a0) (hm7h : m7h = mulHi a1 a0) (hm12l : m12l = mulLo a2 a0)
    (hm12h : m12h = mulHi a2 a0) (ht13 : t13 = addc .q m7h m12l false) (ht14 : t14 = addc .q m12h (0#64) t13.cf)
    (hm17l : m17l = mulLo a2 a1) (hm17h : m17h = mulHi a2 a1) (ht18 : t18 = addc .q m17l t14.val false)
    (ht19 : t19 = addc .q m17h (0#64) t18.cf) (hm24l : m24l = mulLo a3 a0) (hm24h : m24h = mulHi a3 a0)
    (ht25 : t25 = addc .q t18.val m24l false) (ht26 : t26 = addc .q m24h (0#64) t25.cf) (hm29l : m29l = mulLo a3 a1)
    (hm29h : m29h = mulHi a3 a1) (ht30 : t30 = addc .q m29l t26.val false) (ht31 : t31 = addc .q m29h (0#64) t30.cf)
    (ht32 : t32 = addc .q t19.val t30.val false) (ht33 : t33 = addc .q t31.val (0#64) t32.cf) (hm36l : m36l = mulLo a3 a2)
    (hm36h : m36h = mulHi a3 a2) (ht37 : t37 = addc .q m36l t33.val false) (ht38 : t38 = addc .q m36h (0#64) t37.cf) :
    run embedded_pairing_core_arch_x86_64_bigint_768_square s 40
      = ({ rax := t37.val, rcx := s.rcx, rdx := t38.val, rbx := s.rbx, rsp := s.rsp - 8 - 8 - 8 - 8 - 8 - 8, rbp := s.rbp, rsi := pa, rdi := pr, r8 := t33.val, r9 := a3, r10 := m7l, r11 := t13.val, r12 := t25.val, r13 := t32.val, r14 := t37.val, r15 := s.r15, cf := some t38.cf, zf := some t38.zf, sf := some t38.sf, of := some t38.of, mem := setMem (setMem (setMem (setMem (setMem (setMem (s.mem) (s.rsp.toNat - 8) s.rbp) (s.rsp.toNat - 8 - 8) s.rbx) (s.rsp.toNat - 8 - 8 - 8) s.r12) (s.rsp.toNat - 8 - 8 - 8 - 8) s.r13) (s.rsp.toNat - 8 - 8 - 8 - 8 - 8) s.r14) (s.rsp.toNat - 8 - 8 - 8 - 8 - 8 - 8) s.r15, readable := s.readable, writable := s.writable, cpuidFn := s.cpuidFn, pc := 40, status := .running } : State) := by
  obtain ⟨ra0, ra1, ra2, ra3, ra4, ra5⟩ := ha.r6
  obtain ⟨⟨alra0, alra1, alra2, alra3, alra4, alra5⟩, fra0, fra1, fra2, fra3, fra4, fra5⟩ := ha.addr6
  obtain ⟨rr0, rr1, rr2, rr3, rr4, rr5, rr6, rr7, rr8, rr9, rr10, rr11⟩ := hr.r12
  obtain ⟨wr0, wr1, wr2, wr3, wr4, wr5, wr6, wr7, wr8, wr9, wr10, wr11⟩ := hr.w12
  obtain ⟨⟨alrr0, alrr1, alrr2, alrr3, alrr4, alrr5, alrr6, alrr7, alrr8, alrr9, alrr10, alrr11⟩, frr0, frr1, frr2, frr3, frr4, frr5, frr6, frr7, frr8, frr9, frr10, frr11⟩ := hr.addr12
  obtain ⟨als0, rs0⟩ := hstk.f0
  obtain ⟨room1, als1, sr1, sw1⟩ := hstk.f1 (by omega)
  obtain ⟨room2, als2, sr2, sw2⟩ := hstk.f2 (by omega)
  obtain ⟨room3, als3, sr3, sw3⟩ := hstk.f3 (by omega)
  obtain ⟨room4, als4, sr4, sw4⟩ := hstk.f4 (by omega)
  obtain ⟨room5, als5, sr5, sw5⟩ := hstk.f5 (by omega)
  obtain ⟨room6, als6, sr6, sw6⟩ := hstk.f6 (by omega)
  obtain ⟨room7, als7, sr7, sw7⟩ := hstk.f7 (by omega)
  replace hra := Hide.mk hra; replace hrs := Hide.mk hrs; replace has := Hide.mk has
  simp only [X86.Disjoint, OffStack] at hra hrs has
  clear ha hr hstk
  rw [State.eta s]
  x86_sym [hst, hpc, hdi, hsi, sub8x3_toNat, sub8x4_toNat, sub8x5_toNat, sub8x6_toNat, sub8x7_toNat, mulLo_fold, mulHi_fold, ← ha0, ← ha1, ← ha2, ← ha3, ← hm7l, ← hm7h, ← hm12l, ← hm12h, ← ht13, ← ht14, ← hm17l, ← hm17h, ← ht18, ← ht19, ← hm24l, ← hm24h, ← ht25, ← ht26, ← hm29l, ← hm29h, ← ht30, ← ht31, ← ht32, ← ht33, ← hm36l, ← hm36h, ← ht37, ← ht38]

set_option maxHeartbeats 1600000 in
theorem sqr768_part1 (s : State) (pr pa : Word)
    (hr : Buf s pr 12 true) (ha : Buf s pa 6 false) (hra : X86.Disjoint pr 12 pa 6)
    (hstk : Stack s 7) (hrs : OffStack s 7 pr 12) (has : OffStack s 7 pa 6) {a0 a1 a2 a3 a4 a5 m7l m43h m43l m48h m48l m55h m55l m62h m62l m69h m69l m74h m74l : Word} {t13 t25 t32 t33 t37 t38 t44 t45 t49 t50 t51 t52 t56 t57 t58 t59 t63 t64 t70 t71 t75 t76 t77 t78 : ArithRes}
    (ha0 : a0 = s.mem (pa.toNat + 0)) (ha1 : a1 = s.mem (pa.toNat + 8)) (ha2 : a2 = s.mem (pa.toNat + 16))
    (ha3 : a3 = s.mem (pa.toNat + 24)) (ha4 : a4 = s.mem (pa.toNat + 32)) (ha5 : a5 = s.mem (pa.toNat + 40))
    (hm43l : m43l = mulLo a4 a0) (hm43h : m43h = mulHi a4 a0) (ht44 : t44 = addc .q t32.val m43l false)
    (ht45 : t45 = addc .q m43h (0#64) t44.cf) (hm48l : m48l = mulLo a4 a1) (hm48h : m48h = mulHi a4 a1)
    (ht49 : t49 = addc .q m48l t45.val false) (ht50 : t50 = addc .q m48h (0#64) t49.cf)
    (ht51 : t51 = addc .q t37.val t49.val false) (ht52 : t52 = addc .q t50.val (0#64) t51.cf) (hm55l : m55l = mulLo a4 a2)
    (hm55h : m55h = mulHi a4 a2) (ht56 : t56 = addc .q m55l t52.val false) (ht57 : t57 = addc .q m55h (0#64) t56.cf)
    (ht58 : t58 = addc .q t38.val t56.val false) (ht59 : t59 = addc .q t57.val (0#64) t58.cf) (hm62l : m62l = mulLo a4 a3)
    (hm62h : m62h = mulHi a4 a3) (ht63 : t63 = addc .q m62l t59.val false) (ht64 : t64 = addc .q m62h (0#64) t63.cf)
    (hm69l : m69l = mulLo a5 a0) (hm69h : m69h = mulHi a5 a0) (ht70 : t70 = addc .q t51.val m69l false)
    (ht71 : t71 = addc .q m69h (0#64) t70.cf) (hm74l : m74l = mulLo a5 a1) (hm74h : m74h = mulHi a5 a1)
    (ht75 : t75 = addc .q m74l t71.val false) (ht76 : t76 = addc .q m74h (0#64) t75.cf)
    (ht77 : t77 = addc .q t58.val t75.val false) (ht78 : t78 = addc .q t76.val (0#64) t77.cf) :
    run embedded_pairing_core_arch_x86_64_bigint_768_square ({ rax := t37.val, rcx := s.rcx, rdx := t38.val, rbx := s.rbx, rsp := s.rsp - 8 - 8 - 8 - 8 - 8 - 8, rbp := s.rbp, rsi := pa, rdi := pr, r8 := t33.val, r9 := a3, r10 := m7l, r11 := t13.val, r12 := t25.val, r13 := t32.val, r14 := t37.val, r15 := s.r15, cf := some t38.cf, zf := some t38.zf, sf := some t38.sf, of := some t38.of, mem := setMem (setMem (setMem (setMem (setMem (setMem (s.mem) (s.rsp.toNat - 8) s.rbp) (s.rsp.toNat - 8 - 8) s.rbx) (s.rsp.toNat - 8 - 8 - 8) s.r12) (s.rsp.toNat - 8 - 8 - 8 - 8) s.r13) (s.rsp.toNat - 8 - 8 - 8 - 8 - 8) s.r14) (s.rsp.toNat - 8 - 8 - 8 - 8 - 8 - 8) s.r15, readable := s.readable, writable := s.writable, cpuidFn := s.cpuidFn, pc := 40, status := .running } : State) 40
      = ({ rax := t75.val, rcx := t63.val, rdx := t78.val, rbx := s.rbx, rsp := s.rsp - 8 - 8 - 8 - 8 - 8 - 8, rbp := t64.val, rsi := pa, rdi := pr, r8 := t78.val, r9 := a5, r10 := m7l, r11 := t13.val, r12 := t25.val, r13 := t44.val, r14 := t70.val, r15 := t77.val, cf := some t78.cf, zf := some t78.zf, sf := some t78.sf, of := some t78.of, mem := setMem (setMem (setMem (setMem (setMem (setMem (s.mem) (s.rsp.toNat - 8) s.rbp) (s.rsp.toNat - 8 - 8) s.rbx) (s.rsp.toNat - 8 - 8 - 8) s.r12) (s.rsp.toNat - 8 - 8 - 8 - 8) s.r13) (s.rsp.toNat - 8 - 8 - 8 - 8 - 8) s.r14) (s.rsp.toNat - 8 - 8 - 8 - 8 - 8 - 8) s.r15, readable := s.readable, writable := s.writable, cpuidFn := s.cpuidFn, pc := 80, status := .running } : State) := by
  obtain ⟨ra0, ra1, ra2, ra3, ra4, ra5⟩ := ha.r6
  obtain ⟨⟨alra0, alra1, alra2, alra3, alra4, alra5⟩, fra0, fra1, fra2, fra3, fra4, fra5⟩ := ha.addr6
  obtain ⟨rr0, rr1, rr2, rr3, rr4, rr5, rr6, rr7, rr8, rr9, rr10, rr11⟩ := hr.r12
  obtain ⟨wr0, wr1, wr2, wr3, wr4, wr5, wr6, wr7, wr8, wr9, wr10, wr11⟩ := hr.w12
  obtain ⟨⟨alrr0, alrr1, alrr2, alrr3, alrr4, alrr5, alrr6, alrr7, alrr8, alrr9, alrr10, alrr11⟩, frr0, frr1, frr2, frr3, frr4, frr5, frr6, frr7, frr8, frr9, frr10, frr11⟩ := hr.addr12
  obtain ⟨als0, rs0⟩ := hstk.f0
  obtain ⟨room1, als1, sr1, sw1⟩ := hstk.f1 (by omega)
  obtain ⟨room2, als2, sr2, sw2⟩ := hstk.f2 (by omega)
  obtain ⟨room3, als3, sr3, sw3⟩ := hstk.f3 (by omega)
  obtain ⟨room4, als4, sr4, sw4⟩ := hstk.f4 (by omega)
  obtain ⟨room5, als5, sr5, sw5⟩ := hstk.f5 (by omega)
  obtain ⟨room6, als6, sr6, sw6⟩ := hstk.f6 (by omega)
  obtain ⟨room7, als7, sr7, sw7⟩ := hstk.f7 (by omega)
  replace hra := Hide.mk hra; replace hrs := Hide.mk hrs; replace has := Hide.mk has
  simp only [X86.Disjoint, OffStack] at hra hrs has
  clear ha hr hstk
  x86_sym [sub8x3_toNat, sub8x4_toNat, sub8x5_toNat, sub8x6_toNat, sub8x7_toNat, mulLo_fold, mulHi_fold, ← ha0, ← ha1, ← ha2, ← ha3, ← ha4, ← ha5, ← hm43l, ← hm43h, ← ht44, ← ht45, ← hm48l, ← hm48h, ← ht49, ← ht50, ← ht51, ← ht52, ← hm55l, ← hm55h, ← ht56, ← ht57, ← ht58, ← ht59, ← hm62l, ← hm62h, ← ht63, ← ht64, ← hm69l, ← hm69h, ← ht70, ← ht71, ← hm74l, ← hm74h, ← ht75, ← ht76, ← ht77, ← ht78]

set_option maxHeartbeats 1600000 in
theorem sqr768_part2 (s : State) (pr pa : Word)
    (hr : Buf s pr 12 true) (ha : Buf s pa 6 false) (hra : X86.Disjoint pr 12 pa 6)
    (hstk : Stack s 7) (hrs : OffStack s 7 pr 12) (has : OffStack s 7 pa 6) {a0 a2 a3 a4 a5 m7l m81h m81l m88h m88l m95h m95l m114h m114l : Word} {t13 t25 t44 t63 t64 t70 t75 t77 t78 t82 t83 t84 t85 t89 t90 t91 t92 t96 t97 t100 t101 t102 t103 t104 t105 t106 t107 t108 t109 t111 t116 t119 : ArithRes}
    (ha0 : a0 = s.mem (pa.toNat + 0)) (ha2 : a2 = s.mem (pa.toNat + 16)) (ha3 : a3 = s.mem (pa.toNat + 24))
    (ha4 : a4 = s.mem (pa.toNat + 32)) (hm81l : m81l = mulLo a5 a2) (hm81h : m81h = mulHi a5 a2)
    (ht82 : t82 = addc .q m81l t78.val false) (ht83 : t83 = addc .q m81h (0#64) t82.cf)
    (ht84 : t84 = addc .q t63.val t82.val false) (ht85 : t85 = addc .q t83.val (0#64) t84.cf) (hm88l : m88l = mulLo a5 a3)
    (hm88h : m88h = mulHi a5 a3) (ht89 : t89 = addc .q m88l t85.val false) (ht90 : t90 = addc .q m88h (0#64) t89.cf)
    (ht91 : t91 = addc .q t64.val t89.val false) (ht92 : t92 = addc .q t90.val (0#64) t91.cf) (hm95l : m95l = mulLo a5 a4)
    (hm95h : m95h = mulHi a5 a4) (ht96 : t96 = addc .q m95l t92.val false) (ht97 : t97 = addc .q m95h (0#64) t96.cf)
    (ht100 : t100 = addc .q m7l m7l false) (ht101 : t101 = addc .q t13.val t13.val t100.cf)
    (ht102 : t102 = addc .q t25.val t25.val t101.cf) (ht103 : t103 = addc .q t44.val t44.val t102.cf)
    (ht104 : t104 = addc .q t70.val t70.val t103.cf) (ht105 : t105 = addc .q t77.val t77.val t104.cf)
    (ht106 : t106 = addc .q t84.val t84.val t105.cf) (ht107 : t107 = addc .q t91.val t91.val t106.cf)
    (ht108 : t108 = addc .q t96.val t96.val t107.cf) (ht109 : t109 = addc .q t97.val t97.val t108.cf)
    (ht111 : t111 = addc .q (0#64) (0#64) t109.cf) (hm114l : m114l = mulLo a0 a0) (hm114h : m114h = mulHi a0 a0)
    (ht116 : t116 = addc .q t100.val m114h false) (ht119 : t119 = addc .q (0#64) (0#64) t116.cf) :
    run embedded_pairing_core_arch_x86_64_bigint_768_square ({ rax := t75.val, rcx := t63.val, rdx := t78.val, rbx := s.rbx, rsp := s.rsp - 8 - 8 - 8 - 8 - 8 - 8, rbp := t64.val, rsi := pa, rdi := pr, r8 := t78.val, r9 := a5, r10 := m7l, r11 := t13.val, r12 := t25.val, r13 := t44.val, r14 := t70.val, r15 := t77.val, cf := some t78.cf, zf := some t78.zf, sf := some t78.sf, of := some t78.of, mem := setMem (setMem (setMem (setMem (setMem (setMem (s.mem) (s.rsp.toNat - 8) s.rbp) (s.rsp.toNat - 8 - 8) s.rbx) (s.rsp.toNat - 8 - 8 - 8) s.r12) (s.rsp.toNat - 8 - 8 - 8 - 8) s.r13) (s.rsp.toNat - 8 - 8 - 8 - 8 - 8) s.r14) (s.rsp.toNat - 8 - 8 - 8 - 8 - 8 - 8) s.r15, readable := s.readable, writable := s.writable, cpuidFn := s.cpuidFn, pc := 80, status := .running } : State) 40
      = ({ rax := m114l, rcx := t106.val, rdx := m114h, rbx := t108.val, rsp := s.rsp - 8 - 8 - 8 - 8 - 8 - 8 - 8, rbp := t107.val, rsi := pa, rdi := pr, r8 := t119.val, r9 := t109.val, r10 := t116.val, r11 := t101.val, r12 := t102.val, r13 := t103.val, r14 := t104.val, r15 := t105.val, cf := some t119.cf, zf := some t119.zf, sf := some t119.sf, of := some t119.of, mem := setMem (setMem (setMem (setMem (setMem (setMem (setMem (setMem (setMem (s.mem) (s.rsp.toNat - 8) s.rbp) (s.rsp.toNat - 8 - 8) s.rbx) (s.rsp.toNat - 8 - 8 - 8) s.r12) (s.rsp.toNat - 8 - 8 - 8 - 8) s.r13) (s.rsp.toNat - 8 - 8 - 8 - 8 - 8) s.r14) (s.rsp.toNat - 8 - 8 - 8 - 8 - 8 - 8) s.r15) (s.rsp.toNat - 8 - 8 - 8 - 8 - 8 - 8 - 8) t111.val) (pr.toNat + 0) m114l) (pr.toNat + 8) t116.val, readable := s.readable, writable := s.writable, cpuidFn := s.cpuidFn, pc := 120, status := .running } : State) := by
  obtain ⟨ra0, ra1, ra2, ra3, ra4, ra5⟩ := ha.r6
  obtain ⟨⟨alra0, alra1, alra2, alra3, alra4, alra5⟩, fra0, fra1, fra2, fra3, fra4, fra5⟩ := ha.addr6
  obtain ⟨rr0, rr1, rr2, rr3, rr4, rr5, rr6, rr7, rr8, rr9, rr10, rr11⟩ := hr.r12
  obtain ⟨wr0, wr1, wr2, wr3, wr4, wr5, wr6, wr7, wr8, wr9, wr10, wr11⟩ := hr.w12
  obtain ⟨⟨alrr0, alrr1, alrr2, alrr3, alrr4, alrr5, alrr6, alrr7, alrr8, alrr9, alrr10, alrr11⟩, frr0, frr1, frr2, frr3, frr4, frr5, frr6, frr7, frr8, frr9, frr10, frr11⟩ := hr.addr12
  obtain ⟨als0, rs0⟩ := hstk.f0
  obtain ⟨room1, als1, sr1, sw1⟩ := hstk.f1 (by omega)
  obtain ⟨room2, als2, sr2, sw2⟩ := hstk.f2 (by omega)
  obtain ⟨room3, als3, sr3, sw3⟩ := hstk.f3 (by omega)
  obtain ⟨room4, als4, sr4, sw4⟩ := hstk.f4 (by omega)
  obtain ⟨room5, als5, sr5, sw5⟩ := hstk.f5 (by omega)
  obtain ⟨room6, als6, sr6, sw6⟩ := hstk.f6 (by omega)
  obtain ⟨room7, als7, sr7, sw7⟩ := hstk.f7 (by omega)
  replace hra := Hide.mk hra; replace hrs := Hide.mk hrs; replace has := Hide.mk has
  simp only [X86.Disjoint, OffStack] at hra hrs has
  clear ha hr hstk
  x86_sym [sub8x3_toNat, sub8x4_toNat, sub8x5_toNat, sub8x6_toNat, sub8x7_toNat, mulLo_fold, mulHi_fold, ← ha0, ← ha2, ← ha3, ← ha4, ← hm81l, ← hm81h, ← ht82, ← ht83, ← ht84, ← ht85, ← hm88l, ← hm88h, ← ht89, ← ht90, ← ht91, ← ht92, ← hm95l, ← hm95h, ← ht96, ← ht97, ← ht100, ← ht101, ← ht102, ← ht103, ← ht104, ← ht105, ← ht106, ← ht107, ← ht108, ← ht109, ← ht111, ← hm114l, ← hm114h, ← ht116, ← ht119]

set_option maxHeartbeats 1600000 in
theorem sqr768_part3 (s : State) (pr pa : Word)
    (hr : Buf s pr 12 true) (ha : Buf s pa 6 false) (hra : X86.Disjoint pr 12 pa 6)
    (hstk : Stack s 7) (hrs : OffStack s 7 pr 12) (has : OffStack s 7 pa 6) {a1 a2 a3 a4 m114h m114l m121h m121l m131h m131l m141h m141l m151h m151l : Word} {t101 t102 t103 t104 t105 t106 t107 t108 t109 t111 t116 t119 t122 t123 t124 t125 t127 t132 t133 t134 t135 t137 t142 t143 t144 t145 t147 t152 t153 t154 t155 t157 : ArithRes}
    (ha1 : a1 = s.mem (pa.toNat + 8)) (ha2 : a2 = s.mem (pa.toNat + 16)) (ha3 : a3 = s.mem (pa.toNat + 24))
    (ha4 : a4 = s.mem (pa.toNat + 32)) (hm121l : m121l = mulLo a1 a1) (hm121h : m121h = mulHi a1 a1)
    (ht122 : t122 = addc .q m121l t119.val false) (ht123 : t123 = addc .q m121h (0#64) t122.cf)
    (ht124 : t124 = addc .q t101.val t122.val false) (ht125 : t125 = addc .q t102.val t123.val t124.cf)
    (ht127 : t127 = addc .q (0#64) (0#64) t125.cf) (hm131l : m131l = mulLo a2 a2) (hm131h : m131h = mulHi a2 a2)
    (ht132 : t132 = addc .q m131l t127.val false) (ht133 : t133 = addc .q m131h (0#64) t132.cf)
    (ht134 : t134 = addc .q t103.val t132.val false) (ht135 : t135 = addc .q t104.val t133.val t134.cf)
    (ht137 : t137 = addc .q (0#64) (0#64) t135.cf) (hm141l : m141l = mulLo a3 a3) (hm141h : m141h = mulHi a3 a3)
    (ht142 : t142 = addc .q m141l t137.val false) (ht143 : t143 = addc .q m141h (0#64) t142.cf)
    (ht144 : t144 = addc .q t105.val t142.val false) (ht145 : t145 = addc .q t106.val t143.val t144.cf)
    (ht147 : t147 = addc .q (0#64) (0#64) t145.cf) (hm151l : m151l = mulLo a4 a4) (hm151h : m151h = mulHi a4 a4)
    (ht152 : t152 = addc .q m151l t147.val false) (ht153 : t153 = addc .q m151h (0#64) t152.cf)
    (ht154 : t154 = addc .q t107.val t152.val false) (ht155 : t155 = addc .q t108.val t153.val t154.cf)
    (ht157 : t157 = addc .q (0#64) (0#64) t155.cf) :
    run embedded_pairing_core_arch_x86_64_bigint_768_square ({ rax := m114l, rcx := t106.val, rdx := m114h, rbx := t108.val, rsp := s.rsp - 8 - 8 - 8 - 8 - 8 - 8 - 8, rbp := t107.val, rsi := pa, rdi := pr, r8 := t119.val, r9 := t109.val, r10 := t116.val, r11 := t101.val, r12 := t102.val, r13 := t103.val, r14 := t104.val, r15 := t105.val, cf := some t119.cf, zf := some t119.zf, sf := some t119.sf, of := some t119.of, mem := setMem (setMem (setMem (setMem (setMem (setMem (setMem (setMem (setMem (s.mem) (s.rsp.toNat - 8) s.rbp) (s.rsp.toNat - 8 - 8) s.rbx) (s.rsp.toNat - 8 - 8 - 8) s.r12) (s.rsp.toNat - 8 - 8 - 8 - 8) s.r13) (s.rsp.toNat - 8 - 8 - 8 - 8 - 8) s.r14) (s.rsp.toNat - 8 - 8 - 8 - 8 - 8 - 8) s.r15) (s.rsp.toNat - 8 - 8 - 8 - 8 - 8 - 8 - 8) t111.val) (pr.toNat + 0) m114l) (pr.toNat + 8) t116.val, readable := s.readable, writable := s.writable, cpuidFn := s.cpuidFn, pc := 120, status := .running } : State) 40
      = ({ rax := t152.val, rcx := t145.val, rdx := t153.val, rbx := t155.val, rsp := s.rsp - 8 - 8 - 8 - 8 - 8 - 8 - 8, rbp := t154.val, rsi := pa, rdi := pr, r8 := t157.val, r9 := t109.val, r10 := t116.val, r11 := t124.val, r12 := t125.val, r13 := t134.val, r14 := t135.val, r15 := t144.val, cf := some t157.cf, zf := some t157.zf, sf := some t157.sf, of := some t157.of, mem := setMem (setMem (setMem (setMem (setMem (setMem (setMem (setMem (setMem (setMem (setMem (setMem (setMem (setMem (setMem (setMem (setMem (s.mem) (s.rsp.toNat - 8) s.rbp) (s.rsp.toNat - 8 - 8) s.rbx) (s.rsp.toNat - 8 - 8 - 8) s.r12) (s.rsp.toNat - 8 - 8 - 8 - 8) s.r13) (s.rsp.toNat - 8 - 8 - 8 - 8 - 8) s.r14) (s.rsp.toNat - 8 - 8 - 8 - 8 - 8 - 8) s.r15) (s.rsp.toNat - 8 - 8 - 8 - 8 - 8 - 8 - 8) t111.val) (pr.toNat + 0) m114l) (pr.toNat + 8) t116.val) (pr.toNat + 16) t124.val) (pr.toNat + 24) t125.val) (pr.toNat + 32) t134.val) (pr.toNat + 40) t135.val) (pr.toNat + 48) t144.val) (pr.toNat + 56) t145.val) (pr.toNat + 64) t154.val) (pr.toNat + 72) t155.val, readable := s.readable, writable := s.writable, cpuidFn := s.cpuidFn, pc := 160, status := .running } : State) := by
  obtain ⟨ra0, ra1, ra2, ra3, ra4, ra5⟩ := ha.r6
  obtain ⟨⟨alra0, alra1, alra2, alra3, alra4, alra5⟩, fra0, fra1, fra2, fra3, fra4, fra5⟩ := ha.addr6
  obtain ⟨rr0, rr1, rr2, rr3, rr4, rr5, rr6, rr7, rr8, rr9, rr10, rr11⟩ := hr.r12
  obtain ⟨wr0, wr1, wr2, wr3, wr4, wr5, wr6, wr7, wr8, wr9, wr10, wr11⟩ := hr.w12
  obtain ⟨⟨alrr0, alrr1, alrr2, alrr3, alrr4, alrr5, alrr6, alrr7, alrr8, alrr9, alrr10, alrr11⟩, frr0, frr1, frr2, frr3, frr4, frr5, frr6, frr7, frr8, frr9, frr10, frr11⟩ := hr.addr12
  obtain ⟨als0, rs0⟩ := hstk.f0
  obtain ⟨room1, als1, sr1, sw1⟩ := hstk.f1 (by omega)
  obtain ⟨room2, als2, sr2, sw2⟩ := hstk.f2 (by omega)
  obtain ⟨room3, als3, sr3, sw3⟩ := hstk.f3 (by omega)
  obtain ⟨room4, als4, sr4, sw4⟩ := hstk.f4 (by omega)
  obtain ⟨room5, als5, sr5, sw5⟩ := hstk.f5 (by omega)
  obtain ⟨room6, als6, sr6, sw6⟩ := hstk.f6 (by omega)
  obtain ⟨room7, als7, sr7, sw7⟩ := hstk.f7 (by omega)
  replace hra := Hide.mk hra; replace hrs := Hide.mk hrs; replace has := Hide.mk has
  simp only [X86.Disjoint, OffStack] at hra hrs has
  clear ha hr hstk
  x86_sym [sub8x3_toNat, sub8x4_toNat, sub8x5_toNat, sub8x6_toNat, sub8x7_toNat, mulLo_fold, mulHi_fold, ← ha1, ← ha2, ← ha3, ← ha4, ← hm121l, ← hm121h, ← ht122, ← ht123, ← ht124, ← ht125, ← ht127, ← hm131l, ← hm131h, ← ht132, ← ht133, ← ht134, ← ht135, ← ht137, ← hm141l, ← hm141h, ← ht142, ← ht143, ← ht144, ← ht145, ← ht147, ← hm151l, ← hm151h, ← ht152, ← ht153, ← ht154, ← ht155, ← ht157]

set_option maxHeartbeats 1600000 in
theorem sqr768_part4 (s : State) (pr pa : Word)
    (hr : Buf s pr 12 true) (ha : Buf s pa 6 false) (hra : X86.Disjoint pr 12 pa 6)
    (hstk : Stack s 7) (hrs : OffStack s 7 pr 12) (has : OffStack s 7 pa 6) {a5 m114l m161h m161l : Word} {t109 t111 t116 t124 t125 t134 t135 t144 t145 t152 t153 t154 t155 t157 t162 t163 t164 t166 t168 : ArithRes}
    (ha5 : a5 = s.mem (pa.toNat + 40)) (hm161l : m161l = mulLo a5 a5) (hm161h : m161h = mulHi a5 a5)
    (ht162 : t162 = addc .q m161l t157.val false) (ht163 : t163 = addc .q m161h (0#64) t162.cf)
    (ht164 : t164 = addc .q t109.val t162.val false) (ht166 : t166 = addc .q t163.val (0#64) t164.cf)
    (ht168 : t168 = addc .q t166.val t111.val false) :
    run embedded_pairing_core_arch_x86_64_bigint_768_square ({ rax := t152.val, rcx := t145.val, rdx := t153.val, rbx := t155.val, rsp := s.rsp - 8 - 8 - 8 - 8 - 8 - 8 - 8, rbp := t154.val, rsi := pa, rdi := pr, r8 := t157.val, r9 := t109.val, r10 := t116.val, r11 := t124.val, r12 := t125.val, r13 := t134.val, r14 := t135.val, r15 := t144.val, cf := some t157.cf, zf := some t157.zf, sf := some t157.sf, of := some t157.of, mem := setMem (setMem (setMem (setMem (setMem (setMem (setMem (setMem (setMem (setMem (setMem (setMem (setMem (setMem (setMem (setMem (setMem (s.mem) (s.rsp.toNat - 8) s.rbp) (s.rsp.toNat - 8 - 8) s.rbx) (s.rsp.toNat - 8 - 8 - 8) s.r12) (s.rsp.toNat - 8 - 8 - 8 - 8) s.r13) (s.rsp.toNat - 8 - 8 - 8 - 8 - 8) s.r14) (s.rsp.toNat - 8 - 8 - 8 - 8 - 8 - 8) s.r15) (s.rsp.toNat - 8 - 8 - 8 - 8 - 8 - 8 - 8) t111.val) (pr.toNat + 0) m114l) (pr.toNat + 8) t116.val) (pr.toNat + 16) t124.val) (pr.toNat + 24) t125.val) (pr.toNat + 32) t134.val) (pr.toNat + 40) t135.val) (pr.toNat + 48) t144.val) (pr.toNat + 56) t145.val) (pr.toNat + 64) t154.val) (pr.toNat + 72) t155.val, readable := s.readable, writable := s.writable, cpuidFn := s.cpuidFn, pc := 160, status := .running } : State) 17
      = ({ rax := t111.val, rcx := t145.val, rdx := t168.val, rbx := s.rbx, rsp := s.rsp + 8, rbp := s.rbp, rsi := pa, rdi := pr, r8 := t157.val, r9 := t164.val, r10 := t116.val, r11 := t124.val, r12 := s.r12, r13 := s.r13, r14 := s.r14, r15 := s.r15, cf := some t168.cf, zf := some t168.zf, sf := some t168.sf, of := some t168.of, mem := setMem (setMem (setMem (setMem (setMem (setMem (setMem (setMem (setMem (setMem (setMem (setMem (setMem (setMem (setMem (setMem (setMem (setMem (setMem (s.mem) (s.rsp.toNat - 8) s.rbp) (s.rsp.toNat - 8 - 8) s.rbx) (s.rsp.toNat - 8 - 8 - 8) s.r12) (s.rsp.toNat - 8 - 8 - 8 - 8) s.r13) (s.rsp.toNat - 8 - 8 - 8 - 8 - 8) s.r14) (s.rsp.toNat - 8 - 8 - 8 - 8 - 8 - 8) s.r15) (s.rsp.toNat - 8 - 8 - 8 - 8 - 8 - 8 - 8) t111.val) (pr.toNat + 0) m114l) (pr.toNat + 8) t116.val) (pr.toNat + 16) t124.val) (pr.toNat + 24) t125.val) (pr.toNat + 32) t134.val) (pr.toNat + 40) t135.val) (pr.toNat + 48) t144.val) (pr.toNat + 56) t145.val) (pr.toNat + 64) t154.val) (pr.toNat + 72) t155.val) (pr.toNat + 80) t164.val) (pr.toNat + 88) t168.val, readable := s.readable, writable := s.writable, cpuidFn := s.cpuidFn, pc := (s.mem s.rsp.toNat).toNat, status := .halted } : State) := by
  obtain ⟨ra0, ra1, ra2, ra3, ra4, ra5⟩ := ha.r6
  obtain ⟨⟨alra0, alra1, alra2, alra3, alra4, alra5⟩, fra0, fra1, fra2, fra3, fra4, fra5⟩ := ha.addr6
  obtain ⟨rr0, rr1, rr2, rr3, rr4, rr5, rr6, rr7, rr8, rr9, rr10, rr11⟩ := hr.r12
  obtain ⟨wr0, wr1, wr2, wr3, wr4, wr5, wr6, wr7, wr8, wr9, wr10, wr11⟩ := hr.w12
  obtain ⟨⟨alrr0, alrr1, alrr2, alrr3, alrr4, alrr5, alrr6, alrr7, alrr8, alrr9, alrr10, alrr11⟩, frr0, frr1, frr2, frr3, frr4, frr5, frr6, frr7, frr8, frr9, frr10, frr11⟩ := hr.addr12
  obtain ⟨als0, rs0⟩ := hstk.f0
  obtain ⟨room1, als1, sr1, sw1⟩ := hstk.f1 (by omega)
  obtain ⟨room2, als2, sr2, sw2⟩ := hstk.f2 (by omega)
  obtain ⟨room3, als3, sr3, sw3⟩ := hstk.f3 (by omega)
  obtain ⟨room4, als4, sr4, sw4⟩ := hstk.f4 (by omega)
  obtain ⟨room5, als5, sr5, sw5⟩ := hstk.f5 (by omega)
  obtain ⟨room6, als6, sr6, sw6⟩ := hstk.f6 (by omega)
  obtain ⟨room7, als7, sr7, sw7⟩ := hstk.f7 (by omega)
  replace hra := Hide.mk hra; replace hrs := Hide.mk hrs; replace has := Hide.mk has
  simp only [X86.Disjoint, OffStack] at hra hrs has
  clear ha hr hstk
  x86_sym [sub8x3_toNat, sub8x4_toNat, sub8x5_toNat, sub8x6_toNat, sub8x7_toNat, mulLo_fold, mulHi_fold, ← ha5, ← hm161l, ← hm161h, ← ht162, ← ht163, ← ht164, ← ht166, ← ht168]


/-! ## the theorem -/

set_option maxHeartbeats 1600000 in
/-- `void bigint_768_square(res, a)`: the twelve limbs of `res` are `a²` -/
theorem bigint_768_square_run (s : State) (pr pa : Word)
    (hst : s.status = .running) (hpc : s.pc = 0) (hdi : s.rdi = pr) (hsi : s.rsi = pa)
    (hr : Buf s pr 12 true) (ha : Buf s pa 6 false) (hra : X86.Disjoint pr 12 pa 6)
    (hstk : Stack s 7) (hrs : OffStack s 7 pr 12) (has : OffStack s 7 pa 6) :
    ∃ s', run embedded_pairing_core_arch_x86_64_bigint_768_square s 177 = s' ∧ Returned s s' ∧
      val (2 ^ 64) (limbs s'.mem pr.toNat 12)
        = val (2 ^ 64) (limbs s.mem pa.toNat 6) * val (2 ^ 64) (limbs s.mem pa.toNat 6) ∧
      (∀ k, ¬(pr.toNat ≤ k ∧ k < pr.toNat + 96) → ¬(s.rsp.toNat - 56 ≤ k ∧ k < s.rsp.toNat) → s'.mem k = s.mem k) := by
  refine ⟨_, rfl, ?_⟩
  simp only [limbs_six, limbs_twelve]
  obtain ⟨a0, ha0⟩ : ∃ x, x = s.mem (pa.toNat + 0) := ⟨_, rfl⟩
  obtain ⟨a1, ha1⟩ : ∃ x, x = s.mem (pa.toNat + 8) := ⟨_, rfl⟩
  obtain ⟨a2, ha2⟩ : ∃ x, x = s.mem (pa.toNat + 16) := ⟨_, rfl⟩
  obtain ⟨a3, ha3⟩ : ∃ x, x = s.mem (pa.toNat + 24) := ⟨_, rfl⟩
  obtain ⟨a4, ha4⟩ : ∃ x, x = s.mem (pa.toNat + 32) := ⟨_, rfl⟩
  obtain ⟨a5, ha5⟩ : ∃ x, x = s.mem (pa.toNat + 40) := ⟨_, rfl⟩
  simp only [← ha0, ← ha1, ← ha2, ← ha3, ← ha4, ← ha5]
  obtain ⟨m7l, hm7l⟩ : ∃ x, x = mulLo a1 a0 := ⟨_, rfl⟩
  obtain ⟨m7h, hm7h⟩ : ∃ x, x = mulHi a1 a0 := ⟨_, rfl⟩
  obtain ⟨m12l, hm12l⟩ : ∃ x, x = mulLo a2 a0 := ⟨_, rfl⟩
  obtain ⟨m12h, hm12h⟩ : ∃ x, x = mulHi a2 a0 := ⟨_, rfl⟩
  obtain ⟨t13, ht13⟩ : ∃ x, x = addc .q m7h m12l false := ⟨_, rfl⟩
  obtain ⟨t14, ht14⟩ : ∃ x, x = addc .q m12h (0#64) t13.cf := ⟨_, rfl⟩
  obtain ⟨m17l, hm17l⟩ : ∃ x, x = mulLo a2 a1 := ⟨_, rfl⟩
  obtain ⟨m17h, hm17h⟩ : ∃ x, x = mulHi a2 a1 := ⟨_, rfl⟩
  obtain ⟨t18, ht18⟩ : ∃ x, x = addc .q m17l t14.val false := ⟨_, rfl⟩
  obtain ⟨t19, ht19⟩ : ∃ x, x = addc .q m17h (0#64) t18.cf := ⟨_, rfl⟩
  obtain ⟨m24l, hm24l⟩ : ∃ x, x = mulLo a3 a0 := ⟨_, rfl⟩
  obtain ⟨m24h, hm24h⟩ : ∃ x, x = mulHi a3 a0 := ⟨_, rfl⟩
  obtain ⟨t25, ht25⟩ : ∃ x, x = addc .q t18.val m24l false := ⟨_, rfl⟩
  obtain ⟨t26, ht26⟩ : ∃ x, x = addc .q m24h (0#64) t25.cf := ⟨_, rfl⟩
  obtain ⟨m29l, hm29l⟩ : ∃ x, x = mulLo a3 a1 := ⟨_, rfl⟩
  obtain ⟨m29h, hm29h⟩ : ∃ x, x = mulHi a3 a1 := ⟨_, rfl⟩
  obtain ⟨t30, ht30⟩ : ∃ x, x = addc .q m29l t26.val false := ⟨_, rfl⟩
  obtain ⟨t31, ht31⟩ : ∃ x, x = addc .q m29h (0#64) t30.cf := ⟨_, rfl⟩
  obtain ⟨t32, ht32⟩ : ∃ x, x = addc .q t19.val t30.val false := ⟨_, rfl⟩
  obtain ⟨t33, ht33⟩ : ∃ x, x = addc .q t31.val (0#64) t32.cf := ⟨_, rfl⟩
  obtain ⟨m36l, hm36l⟩ : ∃ x, x = mulLo a3 a2 := ⟨_, rfl⟩
  obtain ⟨m36h, hm36h⟩ : ∃ x, x = mulHi a3 a2 := ⟨_, rfl⟩
  obtain ⟨t37, ht37⟩ : ∃ x, x = addc .q m36l t33.val false := ⟨_, rfl⟩
  obtain ⟨t38, ht38⟩ : ∃ x, x = addc .q m36h (0#64) t37.cf := ⟨_, rfl⟩
  obtain ⟨m43l, hm43l⟩ : ∃ x, x = mulLo a4 a0 := ⟨_, rfl⟩
  obtain ⟨m43h, hm43h⟩ : ∃ x, x = mulHi a4 a0 := ⟨_, rfl⟩
  obtain ⟨t44, ht44⟩ : ∃ x, x = addc .q t32.val m43l false := ⟨_, rfl⟩
  obtain ⟨t45, ht45⟩ : ∃ x, x = addc .q m43h (0#64) t44.cf := ⟨_, rfl⟩
  obtain ⟨m48l, hm48l⟩ : ∃ x, x = mulLo a4 a1 := ⟨_, rfl⟩
  obtain ⟨m48h, hm48h⟩ : ∃ x, x = mulHi a4 a1 := ⟨_, rfl⟩
  obtain ⟨t49, ht49⟩ : ∃ x, x = addc .q m48l t45.val false := ⟨_, rfl⟩
  obtain ⟨t50, ht50⟩ : ∃ x, x = addc .q m48h (0#64) t49.cf := ⟨_, rfl⟩
  obtain ⟨t51, ht51⟩ : ∃ x, x = addc .q t37.val t49.val false := ⟨_, rfl⟩
  obtain ⟨t52, ht52⟩ : ∃ x, x = addc .q t50.val (0#64) t51.cf := ⟨_, rfl⟩
  obtain ⟨m55l, hm55l⟩ : ∃ x, x = mulLo a4 a2 := ⟨_, rfl⟩
  obtain ⟨m55h, hm55h⟩ : ∃ x, x = mulHi a4 a2 := ⟨_, rfl⟩
  obtain ⟨t56, ht56⟩ : ∃ x, x = addc .q m55l t52.val false := ⟨_, rfl⟩
  obtain ⟨t57, ht57⟩ : ∃ x, x = addc .q m55h (0#64) t56.cf := ⟨_, rfl⟩
  obtain ⟨t58, ht58⟩ : ∃ x, x = addc .q t38.val t56.val false := ⟨_, rfl⟩
  obtain ⟨t59, ht59⟩ : ∃ x, x = addc .q t57.val (0#64) t58.cf := ⟨_, rfl⟩
  obtain ⟨m62l, hm62l⟩ : ∃ x, x = mulLo a4 a3 := ⟨_, rfl⟩
  obtain ⟨m62h, hm62h⟩ : ∃ x, x = mulHi a4 a3 := ⟨_, rfl⟩
  obtain ⟨t63, ht63⟩ : ∃ x, x = addc .q m62l t59.val false := ⟨_, rfl⟩
  obtain ⟨t64, ht64⟩ : ∃ x, x = addc .q m62h (0#64) t63.cf := ⟨_, rfl⟩
  obtain ⟨m69l, hm69l⟩ : ∃ x, x = mulLo a5 a0 := ⟨_, rfl⟩
  obtain ⟨m69h, hm69h⟩ : ∃ x, x = mulHi a5 a0 := ⟨_, rfl⟩
  obtain ⟨t70, ht70⟩ : ∃ x, x = addc .q t51.val m69l false := ⟨_, rfl⟩
  obtain ⟨t71, ht71⟩ : ∃ x, x = addc .q m69h (0#64) t70.cf := ⟨_, rfl⟩
  obtain ⟨m74l, hm74l⟩ : ∃ x, x = mulLo a5 a1 := ⟨_, rfl⟩
  obtain ⟨m74h, hm74h⟩ : ∃ x, x = mulHi a5 a1 := ⟨_, rfl⟩
  obtain ⟨t75, ht75⟩ : ∃ x, x = addc .q m74l t71.val false := ⟨_, rfl⟩
  obtain ⟨t76, ht76⟩ : ∃ x, x = addc .q m74h (0#64) t75.cf := ⟨_, rfl⟩
  obtain ⟨t77, ht77⟩ : ∃ x, x = addc .q t58.val t75.val false := ⟨_, rfl⟩
  obtain ⟨t78, ht78⟩ : ∃ x, x = addc .q t76.val (0#64) t77.cf := ⟨_, rfl⟩
  obtain ⟨m81l, hm81l⟩ : ∃ x, x = mulLo a5 a2 := ⟨_, rfl⟩
  obtain ⟨m81h, hm81h⟩ : ∃ x, x = mulHi a5 a2 := ⟨_, rfl⟩
  obtain ⟨t82, ht82⟩ : ∃ x, x = addc .q m81l t78.val false := ⟨_, rfl⟩
  obtain ⟨t83, ht83⟩ : ∃ x, x = addc .q m81h (0#64) t82.cf := ⟨_, rfl⟩
  obtain ⟨t84, ht84⟩ : ∃ x, x = addc .q t63.val t82.val false := ⟨_, rfl⟩
  obtain ⟨t85, ht85⟩ : ∃ x, x = addc .q t83.val (0#64) t84.cf := ⟨_, rfl⟩
  obtain ⟨m88l, hm88l⟩ : ∃ x, x = mulLo a5 a3 := ⟨_, rfl⟩
  obtain ⟨m88h, hm88h⟩ : ∃ x, x = mulHi a5 a3 := ⟨_, rfl⟩
  obtain ⟨t89, ht89⟩ : ∃ x, x = addc .q m88l t85.val false := ⟨_, rfl⟩
  obtain ⟨t90, ht90⟩ : ∃ x, x = addc .q m88h (0#64) t89.cf := ⟨_, rfl⟩
  obtain ⟨t91, ht91⟩ : ∃ x, x = addc .q t64.val t89.val false := ⟨_, rfl⟩
  obtain ⟨t92, ht92⟩ : ∃ x, x = addc .q t90.val (0#64) t91.cf := ⟨_, rfl⟩
  obtain ⟨m95l, hm95l⟩ : ∃ x, x = mulLo a5 a4 := ⟨_, rfl⟩
  obtain ⟨m95h, hm95h⟩ : ∃ x, x = mulHi a5 a4 := ⟨_, rfl⟩
  obtain ⟨t96, ht96⟩ : ∃ x, x = addc .q m95l t92.val false := ⟨_, rfl⟩
  obtain ⟨t97, ht97⟩ : ∃ x, x = addc .q m95h (0#64) t96.cf := ⟨_, rfl⟩
  obtain ⟨t100, ht100⟩ : ∃ x, x = addc .q m7l m7l false := ⟨_, rfl⟩
  obtain ⟨t101, ht101⟩ : ∃ x, x = addc .q t13.val t13.val t100.cf := ⟨_, rfl⟩
  obtain ⟨t102, ht102⟩ : ∃ x, x = addc .q t25.val t25.val t101.cf := ⟨_, rfl⟩
  obtain ⟨t103, ht103⟩ : ∃ x, x = addc .q t44.val t44.val t102.cf := ⟨_, rfl⟩
  obtain ⟨t104, ht104⟩ : ∃ x, x = addc .q t70.val t70.val t103.cf := ⟨_, rfl⟩
  obtain ⟨t105, ht105⟩ : ∃ x, x = addc .q t77.val t77.val t104.cf := ⟨_, rfl⟩
  obtain ⟨t106, ht106⟩ : ∃ x, x = addc .q t84.val t84.val t105.cf := ⟨_, rfl⟩
  obtain ⟨t107, ht107⟩ : ∃ x, x = addc .q t91.val t91.val t106.cf := ⟨_, rfl⟩
  obtain ⟨t108, ht108⟩ : ∃ x, x = addc .q t96.val t96.val t107.cf := ⟨_, rfl⟩
  obtain ⟨t109, ht109⟩ : ∃ x, x = addc .q t97.val t97.val t108.cf := ⟨_, rfl⟩
  obtain ⟨t111, ht111⟩ : ∃ x, x = addc .q (0#64) (0#64) t109.cf := ⟨_, rfl⟩
  obtain ⟨m114l, hm114l⟩ : ∃ x, x = mulLo a0 a0 := ⟨_, rfl⟩
  obtain ⟨m114h, hm114h⟩ : ∃ x, x = mulHi a0 a0 := ⟨_, rfl⟩
  obtain ⟨t116, ht116⟩ : ∃ x, x = addc .q t100.val m114h false := ⟨_, rfl⟩
  obtain ⟨t119, ht119⟩ : ∃ x, x = addc .q (0#64) (0#64) t116.cf := ⟨_, rfl⟩
  obtain ⟨m121l, hm121l⟩ : ∃ x, x = mulLo a1 a1 := ⟨_, rfl⟩
  obtain ⟨m121h, hm121h⟩ : ∃ x, x = mulHi a1 a1 := ⟨_, rfl⟩
  obtain ⟨t122, ht122⟩ : ∃ x, x = addc .q m121l t119.val false := ⟨_, rfl⟩
  obtain ⟨t123, ht123⟩ : ∃ x, x = addc .q m121h (0#64) t122.cf := ⟨_, rfl⟩
  obtain ⟨t124, ht124⟩ : ∃ x, x = addc .q t101.val t122.val false := ⟨_, rfl⟩
  obtain ⟨t125, ht125⟩ : ∃ x, x = addc .q t102.val t123.val t124.cf := ⟨_, rfl⟩
  obtain ⟨t127, ht127⟩ : ∃ x, x = addc .q (0#64) (0#64) t125.cf := ⟨_, rfl⟩
  obtain ⟨m131l, hm131l⟩ : ∃ x, x = mulLo a2 a2 := ⟨_, rfl⟩
  obtain ⟨m131h, hm131h⟩ : ∃ x, x = mulHi a2 a2 := ⟨_, rfl⟩
  obtain ⟨t132, ht132⟩ : ∃ x, x = addc .q m131l t127.val false := ⟨_, rfl⟩
  obtain ⟨t133, ht133⟩ : ∃ x, x = addc .q m131h (0#64) t132.cf := ⟨_, rfl⟩
  obtain ⟨t134, ht134⟩ : ∃ x, x = addc .q t103.val t132.val false := ⟨_, rfl⟩
  obtain ⟨t135, ht135⟩ : ∃ x, x = addc .q t104.val t133.val t134.cf := ⟨_, rfl⟩
  obtain ⟨t137, ht137⟩ : ∃ x, x = addc .q (0#64) (0#64) t135.cf := ⟨_, rfl⟩
  obtain ⟨m141l, hm141l⟩ : ∃ x, x = mulLo a3 a3 := ⟨_, rfl⟩
  obtain ⟨m141h, hm141h⟩ : ∃ x, x = mulHi a3 a3 := ⟨_, rfl⟩
  obtain ⟨t142, ht142⟩ : ∃ x, x = addc .q m141l t137.val false := ⟨_, rfl⟩
  obtain ⟨t143, ht143⟩ : ∃ x, x = addc .q m141h (0#64) t142.cf := ⟨_, rfl⟩
  obtain ⟨t144, ht144⟩ : ∃ x, x = addc .q t105.val t142.val false := ⟨_, rfl⟩
  obtain ⟨t145, ht145⟩ : ∃ x, x = addc .q t106.val t143.val t144.cf := ⟨_, rfl⟩
  obtain ⟨t147, ht147⟩ : ∃ x, x = addc .q (0#64) (0#64) t145.cf := ⟨_, rfl⟩
  obtain ⟨m151l, hm151l⟩ : ∃ x, x = mulLo a4 a4 := ⟨_, rfl⟩
  obtain ⟨m151h, hm151h⟩ : ∃ x, x = mulHi a4 a4 := ⟨_, rfl⟩
  obtain ⟨t152, ht152⟩ : ∃ x, x = addc .q m151l t147.val false := ⟨_, rfl⟩
  obtain ⟨t153, ht153⟩ : ∃ x, x = addc .q m151h (0#64) t152.cf := ⟨_, rfl⟩
  obtain ⟨t154, ht154⟩ : ∃ x, x = addc .q t107.val t152.val false := ⟨_, rfl⟩
  obtain ⟨t155, ht155⟩ : ∃ x, x = addc .q t108.val t153.val t154.cf := ⟨_, rfl⟩
  obtain ⟨t157, ht157⟩ : ∃ x, x = addc .q (0#64) (0#64) t155.cf := ⟨_, rfl⟩
  obtain ⟨m161l, hm161l⟩ : ∃ x, x = mulLo a5 a5 := ⟨_, rfl⟩
  obtain ⟨m161h, hm161h⟩ : ∃ x, x = mulHi a5 a5 := ⟨_, rfl⟩
  obtain ⟨t162, ht162⟩ : ∃ x, x = addc .q m161l t157.val false := ⟨_, rfl⟩
  obtain ⟨t163, ht163⟩ : ∃ x, x = addc .q m161h (0#64) t162.cf := ⟨_, rfl⟩
  obtain ⟨t164, ht164⟩ : ∃ x, x = addc .q t109.val t162.val false := ⟨_, rfl⟩
  obtain ⟨t166, ht166⟩ : ∃ x, x = addc .q t163.val (0#64) t164.cf := ⟨_, rfl⟩
  obtain ⟨t168, ht168⟩ : ∃ x, x = addc .q t166.val t111.val false := ⟨_, rfl⟩
  have hq0 := sqr768_part0 s pr pa hr ha hra hstk hrs has hst hpc hdi hsi (t13 := t13) (t14 := t14) (t18 := t18) (t19 := t19) (t25 := t25) (t26 := t26) (t30 := t30) (t31 := t31) (t32 := t32) (t33 := t33) (t37 := t37) (t38 := t38) (a0 := a0) (a1 := a1) (a2 := a2) (a3 := a3) (m7h := m7h) (m7l := m7l) (m12h := m12h) (m12l := m12l) (m17h := m17h) (m17l := m17l) (m24h := m24h) (m24l := m24l) (m29h := m29h) (m29l := m29l) (m36h := m36h) (m36l := m36l) ha0 ha1 ha2 ha3 hm7l hm7h hm12l hm12h ht13 ht14 hm17l hm17h ht18 ht19 hm24l hm24h ht25 ht26 hm29l hm29h ht30 ht31 ht32 ht33 hm36l hm36h ht37 ht38
  have hq1 := sqr768_part1 s pr pa hr ha hra hstk hrs has (t13 := t13) (t25 := t25) (t32 := t32) (t33 := t33) (t37 := t37) (t38 := t38) (t44 := t44) (t45 := t45) (t49 := t49) (t50 := t50) (t51 := t51) (t52 := t52) (t56 := t56) (t57 := t57) (t58 := t58) (t59 := t59) (t63 := t63) (t64 := t64) (t70 := t70) (t71 := t71) (t75 := t75) (t76 := t76) (t77 := t77) (t78 := t78) (a0 := a0) (a1 := a1) (a2 := a2) (a3 := a3) (a4 := a4) (a5 := a5) (m7l := m7l) (m43h := m43h) (m43l := m43l) (m48h := m48h) (m48l := m48l) (m55h := m55h) (m55l := m55l) (m62h := m62h) (m62l := m62l) (m69h := m69h) (m69l := m69l) (m74h := m74h) (m74l := m74l) ha0 ha1 ha2 ha3 ha4 ha5 hm43l hm43h ht44 ht45 hm48l hm48h ht49 ht50 ht51 ht52 hm55l hm55h ht56 ht57 ht58 ht59 hm62l hm62h ht63 ht64 hm69l hm69h ht70 ht71 hm74l hm74h ht75 ht76 ht77 ht78
  have hq2 := sqr768_part2 s pr pa hr ha hra hstk hrs has (t13 := t13) (t25 := t25) (t44 := t44) (t63 := t63) (t64 := t64) (t70 := t70) (t75 := t75) (t77 := t77) (t78 := t78) (t82 := t82) (t83 := t83) (t84 := t84) (t85 := t85) (t89 := t89) (t90 := t90) (t91 := t91) (t92 := t92) (t96 := t96) (t97 := t97) (t100 := t100) (t101 := t101) (t102 := t102) (t103 := t103) (t104 := t104) (t105 := t105) (t106 := t106) (t107 := t107) (t108 := t108) (t109 := t109) (t111 := t111) (t116 := t116) (t119 := t119) (a0 := a0) (a2 := a2) (a3 := a3) (a4 := a4) (a5 := a5) (m7l := m7l) (m81h := m81h) (m81l := m81l) (m88h := m88h) (m88l := m88l) (m95h := m95h) (m95l := m95l) (m114h := m114h) (m114l := m114l) ha0 ha2 ha3 ha4 hm81l hm81h ht82 ht83 ht84 ht85 hm88l hm88h ht89 ht90 ht91 ht92 hm95l hm95h ht96 ht97 ht100 ht101 ht102 ht103 ht104 ht105 ht106 ht107 ht108 ht109 ht111 hm114l hm114h ht116 ht119
  have hq3 := sqr768_part3 s pr pa hr ha hra hstk hrs has (t101 := t101) (t102 := t102) (t103 := t103) (t104 := t104) (t105 := t105) (t106 := t106) (t107 := t107) (t108 := t108) (t109 := t109) (t111 := t111) (t116 := t116) (t119 := t119) (t122 := t122) (t123 := t123) (t124 := t124) (t125 := t125) (t127 := t127) (t132 := t132) (t133 := t133) (t134 := t134) (t135 := t135) (t137 := t137) (t142 := t142) (t143 := t143) (t144 := t144) (t145 := t145) (t147 := t147) (t152 := t152) (t153 := t153) (t154 := t154) (t155 := t155) (t157 := t157) (a1 := a1) (a2 := a2) (a3 := a3) (a4 := a4) (m114h := m114h) (m114l := m114l) (m121h := m121h) (m121l := m121l) (m131h := m131h) (m131l := m131l) (m141h := m141h) (m141l := m141l) (m151h := m151h) (m151l := m151l) ha1 ha2 ha3 ha4 hm121l hm121h ht122 ht123 ht124 ht125 ht127 hm131l hm131h ht132 ht133 ht134 ht135 ht137 hm141l hm141h ht142 ht143 ht144 ht145 ht147 hm151l hm151h ht152 ht153 ht154 ht155 ht157
  have hq4 := sqr768_part4 s pr pa hr ha hra hstk hrs has (t109 := t109) (t111 := t111) (t116 := t116) (t124 := t124) (t125 := t125) (t134 := t134) (t135 := t135) (t144 := t144) (t145 := t145) (t152 := t152) (t153 := t153) (t154 := t154) (t155 := t155) (t157 := t157) (t162 := t162) (t163 := t163) (t164 := t164) (t166 := t166) (t168 := t168) (a5 := a5) (m114l := m114l) (m161h := m161h) (m161l := m161l) ha5 hm161l hm161h ht162 ht163 ht164 ht166 ht168
  have hall : run embedded_pairing_core_arch_x86_64_bigint_768_square s 177 = _ := show run embedded_pairing_core_arch_x86_64_bigint_768_square s (40 + (40 + (40 + (40 + (17))))) = _ from run_chain hq0 (run_chain hq1 (run_chain hq2 (run_chain hq3 (hq4))))
  rw [hall]
  obtain ⟨room1, -⟩ := hstk.f1 (by omega)
  obtain ⟨room7, -⟩ := hstk.f7 (by omega)
  replace hrs := Hide.mk hrs
  simp only [OffStack] at hrs
  clear hq0 hq1 hq2 hq3 hq4 hall
  refine ⟨⟨rfl, ?_, ?_, ?_, ?_, ?_, ?_, ?_, ?_⟩, ?_, ?_⟩
  · rfl
  · rfl
  · rfl
  · rfl
  · rfl
  · rfl
  · rfl
  · rfl
  · x86_mem
    have e7 := mul_spec a1 a0; rw [← hm7l, ← hm7h] at e7
    have e12 := muladd64_spec hm12l hm12h ht13 ht14
    have e17 := mulcarry64_spec hm17l hm17h ht18 ht19
    have e24 := muladd64_spec hm24l hm24h ht25 ht26
    have e29 := muladdcarry64_spec hm29l hm29h ht30 ht31 ht32 ht33
    have e36 := mulcarry64_spec hm36l hm36h ht37 ht38
    have e43 := muladd64_spec hm43l hm43h ht44 ht45
    have e48 := muladdcarry64_spec hm48l hm48h ht49 ht50 ht51 ht52
    have e55 := muladdcarry64_spec hm55l hm55h ht56 ht57 ht58 ht59
    have e62 := mulcarry64_spec hm62l hm62h ht63 ht64
    have e69 := muladd64_spec hm69l hm69h ht70 ht71
    have e74 := muladdcarry64_spec hm74l hm74h ht75 ht76 ht77 ht78
    have e81 := muladdcarry64_spec hm81l hm81h ht82 ht83 ht84 ht85
    have e88 := muladdcarry64_spec hm88l hm88h ht89 ht90 ht91 ht92
    have e95 := mulcarry64_spec hm95l hm95h ht96 ht97
    have e114 := mul_spec a0 a0; rw [← hm114l, ← hm114h] at e114
    have e116 := addc_spec t100.val m114h false; rw [← ht116] at e116
    have e119 := carry_word ht119
    have e121 := sqr_diag_spec hm121l hm121h ht122 ht123 ht124 ht125 ht127
    have e131 := sqr_diag_spec hm131l hm131h ht132 ht133 ht134 ht135 ht137
    have e141 := sqr_diag_spec hm141l hm141h ht142 ht143 ht144 ht145 ht147
    have e151 := sqr_diag_spec hm151l hm151h ht152 ht153 ht154 ht155 ht157
    have e161 := sqr_diag_last_spec hm161l hm161h ht162 ht163 ht164 ht166 ht168
    have e100 := addc_spec m7l m7l false; rw [← ht100] at e100
    have e101 := addc_spec t13.val t13.val t100.cf; rw [← ht101] at e101
    have e102 := addc_spec t25.val t25.val t101.cf; rw [← ht102] at e102
    have e103 := addc_spec t44.val t44.val t102.cf; rw [← ht103] at e103
    have e104 := addc_spec t70.val t70.val t103.cf; rw [← ht104] at e104
    have e105 := addc_spec t77.val t77.val t104.cf; rw [← ht105] at e105
    have e106 := addc_spec t84.val t84.val t105.cf; rw [← ht106] at e106
    have e107 := addc_spec t91.val t91.val t106.cf; rw [← ht107] at e107
    have e108 := addc_spec t96.val t96.val t107.cf; rw [← ht108] at e108
    have e109 := addc_spec t97.val t97.val t108.cf; rw [← ht109] at e109
    have e111 := carry_word ht111
    simp only [Bool.toNat_false, Nat.add_zero] at e100 e116
    have E : val (2 ^ 64) [m114l.toNat, t116.val.toNat, t124.val.toNat, t125.val.toNat, t134.val.toNat, t135.val.toNat, t144.val.toNat, t145.val.toNat, t154.val.toNat, t155.val.toNat, t164.val.toNat, t168.val.toNat] + 2 ^ 768 * t168.cf.toNat
        = val (2 ^ 64) [a0.toNat, a1.toNat, a2.toNat, a3.toNat, a4.toNat, a5.toNat] * val (2 ^ 64) [a0.toNat, a1.toNat, a2.toNat, a3.toNat, a4.toNat, a5.toNat] := by
      simp only [val_cons, val_nil]
      linear_combination 2 * 2 ^ 64 * e7 + 2 * 2 ^ 128 * e12 + 2 * 2 ^ 192 * e17 + 2 * 2 ^ 192 * e24 + 2 * 2 ^ 256 * e29 + 2 * 2 ^ 320 * e36 + 2 * 2 ^ 256 * e43 + 2 * 2 ^ 320 * e48 + 2 * 2 ^ 384 * e55 + 2 * 2 ^ 448 * e62 + 2 * 2 ^ 320 * e69 + 2 * 2 ^ 384 * e74 + 2 * 2 ^ 448 * e81 + 2 * 2 ^ 512 * e88 + 2 * 2 ^ 576 * e95 + e114 + 2 ^ 64 * e116 + 2 ^ 128 * e119 + 2 ^ 128 * e121 + 2 ^ 256 * e131 + 2 ^ 384 * e141 + 2 ^ 512 * e151 + 2 ^ 640 * e161 + 2 ^ 64 * e100 + 2 ^ 128 * e101 + 2 ^ 192 * e102 + 2 ^ 256 * e103 + 2 ^ 320 * e104 + 2 ^ 384 * e105 + 2 ^ 448 * e106 + 2 ^ 512 * e107 + 2 ^ 576 * e108 + 2 ^ 640 * e109 + 2 ^ 704 * e111
    exact (sqr_no_carry E (val6_lt a0 a1 a2 a3 a4 a5)).2
  · intro k hk1 hk2
    simp (disch := (clear * - hk1 hk2 room1 room7; omega)) only [setMem_ne]

end Jedi.X86
