/-
Final exponentiation of src/bls12_381/pairing.cpp (generated `Jedi.Gen.final_exponentiation`, hand-written
`Jedi.Impl.expByX`): every step of the chain is multiplicative, hence so is the whole map (this completes C08:
the pairing-product routine returns the product of the single pairings), and — given that the table-driven Frobenius
maps are the literal powers `x ↦ x^(q^k)` — the chain computes `a ^ (3·(q¹²−1)/r)`.

A. `expByX` is `x ↦ conj (x ^ (|x| >>> shift)) ^ (1|2)`.
B. the generated Frobenius maps are ring homomorphisms under `LawfulFrob`.
C. the generated inverses are multiplicative for ALL inputs over a field, and are inverses when the norm is non-zero.
D. `final_exponentiation` is multiplicative.
E. `pairingProduct` is the product of the single pairings.
F. power form of `final_exponentiation`.
-/
import JediVerif.Proofs.MillerProduct
import JediVerif.Proofs.LawfulFrob
import JediVerif.Gen.TowerThms
import JediVerif.Gen.PairingGen
import Mathlib.Tactic.Ring
import Mathlib.Tactic.LinearCombination
import Mathlib.Algebra.Field.Basic
import Mathlib.Algebra.BigOperators.Group.List.Basic

set_option linter.unusedSectionVars false
set_option linter.unnecessarySeqFocus false
set_option linter.unusedSimpArgs false
set_option linter.unusedVariables false

namespace Jedi.FinalExp
open Jedi Jedi.Gen Jedi.Impl

/-! ## A. `exp_by_x_restrict` -/

/-- value of a bit list, most significant bit first -/
def bitsVal : List Bool → Nat
  | [] => 0
  | b :: bs => b.toNat * 2 ^ bs.length + bitsVal bs

section A
variable {R : Type} [CommRing R]

theorem conj_mul (a b : Q12 R) : Q12.conj (a * b) = Q12.conj a * Q12.conj b := by
  ext1 <;> simp [Q12.conj] <;> ring

theorem conj_one : Q12.conj (1 : Q12 R) = 1 := by
  ext1 <;> simp [Q12.conj]

theorem conj_conj (a : Q12 R) : Q12.conj (Q12.conj a) = a := by
  ext1 <;> simp [Q12.conj]

/-- the square-and-multiply loop of `exp_by_x_restrict`, for every bit list and every starting accumulator -/
theorem expByXLoop_eq (a : Q12 R) : ∀ (bits : List Bool) (acc : Q12 R),
    expByXLoop a bits acc = acc ^ (2 ^ bits.length) * a ^ (bitsVal bits) := by
  intro bits
  induction bits with
  | nil => intro acc; simp [expByXLoop, bitsVal]
  | cons b bs ih =>
    intro acc
    cases b
    · simp only [expByXLoop, Bool.false_eq_true, if_false, ih, Fq12.square_oa_spec, bitsVal, List.length_cons,
        Bool.toNat_false, zero_mul, zero_add]
      rw [← pow_two, ← pow_mul, pow_succ 2 bs.length, mul_comm 2 (2 ^ bs.length)]
    · simp only [expByXLoop, if_true, ih, Fq12.square_oa_spec, Fq12.multiply_oa_spec, bitsVal, List.length_cons,
        Bool.toNat_true, one_mul]
      rw [← pow_two, mul_pow, ← pow_mul, pow_succ 2 bs.length, mul_comm (2 ^ bs.length) 2, pow_add, mul_assoc]

/-- the bit list the loop runs over is the binary expansion of `|x| >>> shift`, for shift ≤ 64 (kernel-checked) -/
theorem xBits_val_le : ∀ s : Fin 65, bitsVal (xBits s) = Consts.bls_x >>> (s : Nat) := by decide +kernel

/-- the bit list the loop runs over is the binary expansion of `|x| >>> shift`, for every shift -/
theorem xBits_val (shift : Nat) : bitsVal (xBits shift) = Consts.bls_x >>> shift := by
  by_cases h : shift < 65
  · exact xBits_val_le ⟨shift, h⟩
  · have h1 : Consts.bls_x_highest_set_bit + 1 - shift = 0 := by
      have : Consts.bls_x_highest_set_bit = 63 := rfl
      omega
    have h2 : Consts.bls_x >>> shift = 0 := by
      rw [Nat.shiftRight_eq_div_pow]
      apply Nat.div_eq_of_lt
      calc Consts.bls_x < 2 ^ 65 := by decide
        _ ≤ 2 ^ shift := Nat.pow_le_pow_right (by decide) (by omega)
    rw [h2]
    simp [xBits, h1, bitsVal]

theorem xBits_length (shift : Nat) : (xBits shift).length = Consts.bls_x_highest_set_bit + 1 - shift := by
  simp [xBits]

/-- `exp_by_x_restrict<shift, square_at_end>(a)` is the conjugate (x is negative) of `a ^ (|x| >> shift)`, squared
when `square_at_end` is set. -/
theorem expByX_eq (shift : Nat) (sq : Bool) (a : Q12 R) :
    expByX shift sq a = Q12.conj ((a ^ (Consts.bls_x >>> shift)) ^ (if sq then 2 else 1)) := by
  have hneg : Consts.bls_x_is_negative = 1 := rfl
  cases sq <;>
    simp only [expByX, expByXLoop_eq, xBits_val, one_pow, one_mul, hneg, if_true, Bool.false_eq_true, if_false,
      Fq12.conjugate_oa_spec, Fq12.square_oa_spec, pow_one, pow_two]

theorem expByX_mul (s : Nat) (b : Bool) (x y : Q12 R) : expByX s b (x * y) = expByX s b x * expByX s b y := by
  simp only [expByX_eq, mul_pow, conj_mul]

theorem expByX_one (s : Nat) (b : Bool) : expByX s b (1 : Q12 R) = 1 := by
  simp only [expByX_eq, one_pow, conj_one]

end A

/-! ## B. the table-driven Frobenius maps are ring homomorphisms -/

section B
variable {R : Type} [CommRing R] [TowerConsts R]

/-! ### Fq2 -/

theorem frob2_add (a b : Q2 R) (k : Nat) :
    Fq2.frobenius_map (a + b) k = Fq2.frobenius_map a k + Fq2.frobenius_map b k := by
  ext <;> simp [Fq2.frobenius_map] <;> ring

theorem frob2_sub (a b : Q2 R) (k : Nat) :
    Fq2.frobenius_map (a - b) k = Fq2.frobenius_map a k - Fq2.frobenius_map b k := by
  ext <;> simp [Fq2.frobenius_map] <;> ring

theorem frob2_neg (a : Q2 R) (k : Nat) : Fq2.frobenius_map (-a) k = -Fq2.frobenius_map a k := by
  ext <;> simp [Fq2.frobenius_map]

theorem frob2_zero (k : Nat) : Fq2.frobenius_map (0 : Q2 R) k = 0 := by
  ext <;> simp [Fq2.frobenius_map]

theorem frob2_one (k : Nat) : Fq2.frobenius_map (1 : Q2 R) k = 1 := by
  ext <;> simp [Fq2.frobenius_map]

theorem frob2_mul (h : LawfulFrob R) (a b : Q2 R) (k : Nat) :
    Fq2.frobenius_map (a * b) k = Fq2.frobenius_map a k * Fq2.frobenius_map b k := by
  have hc := h.c2_sq k
  ext
  · simp only [Fq2.frobenius_map, Q2.mul_c0]; linear_combination (a.c1 * b.c1) * hc
  · simp only [Fq2.frobenius_map, Q2.mul_c1]; ring

theorem frob2_xi (k : Nat) :
    Fq2.frobenius_map (Q2.xi : Q2 R) k = ⟨1, TowerConsts.fq2_frobenius_coeff (k &&& 1)⟩ := by
  ext <;> simp [Fq2.frobenius_map]

/-! ### Fq6 -/

/-- the generated `Fq6::frobenius_map`, with the index computation resolved -/
theorem frob6_eq (a : Q6 R) (k : Nat) :
    Fq6.frobenius_map a k = ⟨Fq2.frobenius_map a.c0 k,
      Fq2.frobenius_map a.c1 k * TowerConsts.fq6_frobenius_coeff_c1 (k % 6),
      Fq2.frobenius_map a.c2 k * TowerConsts.fq6_frobenius_coeff_c2 (k % 6)⟩ := by
  have hidx : (if decide (k < 6) then k else k % 6) = k % 6 := by
    split
    · next h => exact (Nat.mod_eq_of_lt (by simpa using h)).symm
    · rfl
  simp only [Fq6.frobenius_map, Fq2.multiply_oa_spec, hidx]

theorem frob6_add (a b : Q6 R) (k : Nat) :
    Fq6.frobenius_map (a + b) k = Fq6.frobenius_map a k + Fq6.frobenius_map b k := by
  simp only [frob6_eq]
  ext1 <;> simp only [Q6.add_c0, Q6.add_c1, Q6.add_c2, frob2_add] <;> ring

theorem frob6_sub (a b : Q6 R) (k : Nat) :
    Fq6.frobenius_map (a - b) k = Fq6.frobenius_map a k - Fq6.frobenius_map b k := by
  simp only [frob6_eq]
  ext1 <;> simp only [Q6.sub_c0, Q6.sub_c1, Q6.sub_c2, frob2_sub] <;> ring

theorem frob6_neg (a : Q6 R) (k : Nat) : Fq6.frobenius_map (-a) k = -Fq6.frobenius_map a k := by
  simp only [frob6_eq]
  ext1 <;> simp only [Q6.neg_c0, Q6.neg_c1, Q6.neg_c2, frob2_neg] <;> ring

theorem frob6_zero (k : Nat) : Fq6.frobenius_map (0 : Q6 R) k = 0 := by
  simp only [frob6_eq]
  ext1 <;> simp only [Q6.zero_c0, Q6.zero_c1, Q6.zero_c2, frob2_zero, zero_mul]

theorem frob6_one (k : Nat) : Fq6.frobenius_map (1 : Q6 R) k = 1 := by
  simp only [frob6_eq]
  ext1 <;> simp only [Q6.one_c0, Q6.one_c1, Q6.one_c2, frob2_zero, frob2_one, zero_mul]

theorem frob6_mul (h : LawfulFrob R) (a b : Q6 R) (k : Nat) :
    Fq6.frobenius_map (a * b) k = Fq6.frobenius_map a k * Fq6.frobenius_map b k := by
  have h2 := h.g2_eq k
  have h3 : (TowerConsts.fq6_frobenius_coeff_c1 (k % 6) : Q2 R) ^ 3 * Q2.xi = Fq2.frobenius_map Q2.xi k := by
    rw [frob2_xi]; exact h.g1_cube k
  simp only [frob6_eq]
  ext1
  · simp only [Q6.mul_c0, frob2_add, frob2_mul h, h2]
    linear_combination (Fq2.frobenius_map a.c1 k * Fq2.frobenius_map b.c2 k +
      Fq2.frobenius_map a.c2 k * Fq2.frobenius_map b.c1 k) * (-h3)
  · simp only [Q6.mul_c1, frob2_add, frob2_mul h, h2]
    linear_combination (Fq2.frobenius_map a.c2 k * Fq2.frobenius_map b.c2 k *
      TowerConsts.fq6_frobenius_coeff_c1 (k % 6)) * (-h3)
  · simp only [Q6.mul_c2, frob2_add, frob2_mul h, h2]
    ring

theorem frob6_v (k : Nat) :
    Fq6.frobenius_map (Q6.v : Q6 R) k = ⟨0, TowerConsts.fq6_frobenius_coeff_c1 (k % 6), 0⟩ := by
  simp only [frob6_eq]
  ext1 <;> simp only [Q6.v_c0, Q6.v_c1, Q6.v_c2, frob2_zero, frob2_one, zero_mul, one_mul]

/-! ### Fq12 -/

/-- multiplication of an Fq6 element by an Fq2 scalar, componentwise -/
def smul6 (c : Q2 R) (a : Q6 R) : Q6 R := ⟨a.c0 * c, a.c1 * c, a.c2 * c⟩

theorem smul6_eq (c : Q2 R) (a : Q6 R) : smul6 c a = a * (⟨c, 0, 0⟩ : Q6 R) := by
  ext1 <;> simp [smul6]

/-- the generated `Fq12::frobenius_map`, with the index computation resolved -/
theorem frob12_eq (a : Q12 R) (k : Nat) :
    Fq12.frobenius_map a k = ⟨Fq6.frobenius_map a.c0 k,
      Fq6.frobenius_map a.c1 k * (⟨TowerConsts.fq12_frobenius_coeff_c1 (k % 12), 0, 0⟩ : Q6 R)⟩ := by
  have hidx : (if decide (k < 12) then k else k % 12) = k % 12 := by
    split
    · next h => exact (Nat.mod_eq_of_lt (by simpa using h)).symm
    · rfl
  rw [← smul6_eq]
  simp only [Fq12.frobenius_map, Fq2.multiply_oa_spec, hidx, smul6]

theorem frob12_add (a b : Q12 R) (k : Nat) :
    Fq12.frobenius_map (a + b) k = Fq12.frobenius_map a k + Fq12.frobenius_map b k := by
  simp only [frob12_eq]
  ext1 <;> simp only [Q12.add_c0, Q12.add_c1, frob6_add] <;> ring

theorem frob12_sub (a b : Q12 R) (k : Nat) :
    Fq12.frobenius_map (a - b) k = Fq12.frobenius_map a k - Fq12.frobenius_map b k := by
  simp only [frob12_eq]
  ext1 <;> simp only [Q12.sub_c0, Q12.sub_c1, frob6_sub] <;> ring

theorem frob12_neg (a : Q12 R) (k : Nat) : Fq12.frobenius_map (-a) k = -Fq12.frobenius_map a k := by
  simp only [frob12_eq]
  ext1 <;> simp only [Q12.neg_c0, Q12.neg_c1, frob6_neg] <;> ring

theorem frob12_zero (k : Nat) : Fq12.frobenius_map (0 : Q12 R) k = 0 := by
  simp only [frob12_eq]
  ext1 <;> simp only [Q12.zero_c0, Q12.zero_c1, frob6_zero, zero_mul]

theorem frob12_one (k : Nat) : Fq12.frobenius_map (1 : Q12 R) k = 1 := by
  simp only [frob12_eq]
  ext1 <;> simp only [Q12.one_c0, Q12.one_c1, frob6_zero, frob6_one, zero_mul]

theorem frob12_mul (h : LawfulFrob R) (a b : Q12 R) (k : Nat) :
    Fq12.frobenius_map (a * b) k = Fq12.frobenius_map a k * Fq12.frobenius_map b k := by
  have h12 := h.g12_sq k
  have hv : (⟨TowerConsts.fq12_frobenius_coeff_c1 (k % 12), 0, 0⟩ : Q6 R) ^ 2 * Q6.v = Fq6.frobenius_map Q6.v k := by
    rw [frob6_v, ← h12]
    ext1 <;> simp [pow_two]
  simp only [frob12_eq]
  ext1
  · simp only [Q12.mul_c0, frob6_add, frob6_mul h]
    linear_combination (Fq6.frobenius_map a.c1 k * Fq6.frobenius_map b.c1 k) * (-hv)
  · simp only [Q12.mul_c1, frob6_add, frob6_mul h]
    ring

theorem frob12_pow (h : LawfulFrob R) (a : Q12 R) (k n : Nat) :
    Fq12.frobenius_map (a ^ n) k = Fq12.frobenius_map a k ^ n := by
  induction n with
  | zero => simp [frob12_one]
  | succ n ih => rw [pow_succ, frob12_mul h, ih, pow_succ]

/-- the `_oa` variants are the same functions -/
theorem frob2_oa (a : Q2 R) (k : Nat) : Fq2.frobenius_map_oa a k = Fq2.frobenius_map a k :=
  Fq2.frobenius_map_oa_alias a k

theorem frob6_oa (a : Q6 R) (k : Nat) : Fq6.frobenius_map_oa a k = Fq6.frobenius_map a k :=
  Fq6.frobenius_map_oa_alias a k

theorem frob12_oa (a : Q12 R) (k : Nat) : Fq12.frobenius_map_oa a k = Fq12.frobenius_map a k :=
  Fq12.frobenius_map_oa_alias a k

end B

/-! ## C. the generated inverses -/

section Cring
variable {R : Type} [CommRing R]

/-- Fq2 ↪ Fq6 and Fq6 ↪ Fq12 -/
def of6 (x : Q2 R) : Q6 R := ⟨x, 0, 0⟩
def of12 (x : Q6 R) : Q12 R := ⟨x, 0⟩

theorem of6_mul (x y : Q2 R) : of6 (x * y) = of6 x * of6 y := by ext1 <;> simp [of6]
theorem of6_one : of6 (1 : Q2 R) = 1 := by ext1 <;> simp [of6]
theorem of12_mul (x y : Q6 R) : of12 (x * y) = of12 x * of12 y := by ext1 <;> simp [of12]
theorem of12_one : of12 (1 : Q6 R) = 1 := by ext1 <;> simp [of12]

/-- the adjugate of an Fq6 element over Fq2 (product of its two other conjugates): `a * adj6 a = norm6 a` -/
def adj6 (a : Q6 R) : Q6 R :=
  ⟨a.c0 * a.c0 - Q2.xi * (a.c1 * a.c2), Q2.xi * (a.c2 * a.c2) - a.c0 * a.c1, a.c1 * a.c1 - a.c0 * a.c2⟩

/-- the norm Fq6 → Fq2: `a0³ + ξ a1³ + ξ² a2³ − 3 ξ a0 a1 a2` -/
def norm6 (a : Q6 R) : Q2 R :=
  a.c0 * (adj6 a).c0 + Q2.xi * (a.c2 * (adj6 a).c1 + a.c1 * (adj6 a).c2)

/-- the norm Fq12 → Fq6: `a0² − v a1²` (`= a * conj a`) -/
def norm12 (a : Q12 R) : Q6 R := a.c0 * a.c0 - Q6.v * (a.c1 * a.c1)

/-- the norm Fq12 → Fq (composition of the three relative norms) -/
def normBase (a : Q12 R) : R := Q2.norm (norm6 (norm12 a))

theorem norm2_mul (a b : Q2 R) : Q2.norm (a * b) = Q2.norm a * Q2.norm b := by
  simp only [Q2.norm, Q2.mul_c0, Q2.mul_c1]; ring

theorem norm2_one : Q2.norm (1 : Q2 R) = 1 := by simp [Q2.norm]

theorem conj2_mul_self (a : Q2 R) : a * (⟨a.c0, -a.c1⟩ : Q2 R) = ⟨Q2.norm a, 0⟩ := by
  ext <;> simp [Q2.norm] <;> ring

theorem adj6_mul (a b : Q6 R) : adj6 (a * b) = adj6 a * adj6 b := by
  ext1 <;> simp only [adj6, Q6.mul_c0, Q6.mul_c1, Q6.mul_c2] <;> ring

theorem adj6_one : adj6 (1 : Q6 R) = 1 := by ext1 <;> simp [adj6]

theorem mul_adj6 (a : Q6 R) : a * adj6 a = of6 (norm6 a) := by
  ext1 <;> simp only [adj6, norm6, of6, Q6.mul_c0, Q6.mul_c1, Q6.mul_c2] <;> ring

theorem norm6_mul (a b : Q6 R) : norm6 (a * b) = norm6 a * norm6 b := by
  simp only [norm6, adj6, Q6.mul_c0, Q6.mul_c1, Q6.mul_c2]; ring

theorem norm6_one : norm6 (1 : Q6 R) = 1 := by simp [norm6, adj6]

theorem norm12_mul (a b : Q12 R) : norm12 (a * b) = norm12 a * norm12 b := by
  simp only [norm12, Q12.mul_c0, Q12.mul_c1]; ring

theorem norm12_one : norm12 (1 : Q12 R) = 1 := by simp [norm12]

theorem mul_conj12 (a : Q12 R) : a * Q12.conj a = of12 (norm12 a) := by
  ext1 <;> simp only [Q12.conj, norm12, of12, Q12.mul_c0, Q12.mul_c1] <;> ring

theorem normBase_mul (a b : Q12 R) : normBase (a * b) = normBase a * normBase b := by
  simp only [normBase, norm12_mul, norm6_mul, norm2_mul]

theorem normBase_one : normBase (1 : Q12 R) = 1 := by
  simp only [normBase, norm12_one, norm6_one, norm2_one]

end Cring

section Cfield
variable {K : Type} [Field K]

/-- generated `Fq2::inverse`: conjugate times the inverse of the norm -/
theorem inv2_eq (a : Q2 K) : Fq2.inverse a = ⟨a.c0 * (Q2.norm a)⁻¹, -(a.c1 * (Q2.norm a)⁻¹)⟩ := rfl

/-- generated `Fq6::inverse`: adjugate times the (generated Fq2) inverse of the norm -/
theorem inv6_eq (a : Q6 K) : Fq6.inverse a = adj6 a * of6 (Fq2.inverse (norm6 a)) := by
  simp only [Fq6.inverse, tower_spec, Q2.mulXi_eq]
  have hn : Q2.xi * (a.c2 * (Q2.xi * (a.c2 * a.c2) - a.c0 * a.c1) + a.c1 * (a.c1 * a.c1 - a.c0 * a.c2)) +
      a.c0 * (-(Q2.xi * a.c2 * a.c1) + a.c0 * a.c0) = norm6 a := by
    simp only [norm6, adj6]; ring
  rw [hn]
  ext1 <;> simp only [adj6, of6, Q6.mul_c0, Q6.mul_c1, Q6.mul_c2] <;> ring

/-- generated `Fq12::inverse`: conjugate times the (generated Fq6) inverse of the norm -/
theorem inv12_eq (a : Q12 K) : Fq12.inverse a = Q12.conj a * of12 (Fq6.inverse (norm12 a)) := by
  simp only [Fq12.inverse, tower_spec, Q6.mulV_eq]
  have hn : a.c0 * a.c0 - Q6.v * (a.c1 * a.c1) = norm12 a := rfl
  rw [hn]
  ext1 <;> simp only [Q12.conj, of12, Q12.mul_c0, Q12.mul_c1] <;> ring

theorem inv2_mul (a b : Q2 K) : Fq2.inverse (a * b) = Fq2.inverse a * Fq2.inverse b := by
  simp only [inv2_eq, norm2_mul, mul_inv]
  ext <;> simp only [Q2.mul_c0, Q2.mul_c1] <;> ring

theorem inv2_one : Fq2.inverse (1 : Q2 K) = 1 := by
  simp only [inv2_eq, norm2_one]; ext <;> simp

theorem inv6_mul (a b : Q6 K) : Fq6.inverse (a * b) = Fq6.inverse a * Fq6.inverse b := by
  simp only [inv6_eq, adj6_mul, norm6_mul, inv2_mul, of6_mul]; ring

theorem inv6_one : Fq6.inverse (1 : Q6 K) = 1 := by
  simp only [inv6_eq, adj6_one, norm6_one, inv2_one, of6_one, mul_one]

theorem inv12_mul (a b : Q12 K) : Fq12.inverse (a * b) = Fq12.inverse a * Fq12.inverse b := by
  simp only [inv12_eq, conj_mul, norm12_mul, inv6_mul, of12_mul]; ring

theorem inv12_one : Fq12.inverse (1 : Q12 K) = 1 := by
  simp only [inv12_eq, conj_one, norm12_one, inv6_one, of12_one, mul_one]

/-- `Fq2::inverse` inverts every element of non-zero norm -/
theorem mul_inv2 (a : Q2 K) (h : Q2.norm a ≠ 0) : a * Fq2.inverse a = 1 := by
  rw [inv2_eq]
  ext
  · simp only [Q2.mul_c0, Q2.one_c0]
    have : a.c0 * (a.c0 * (Q2.norm a)⁻¹) - a.c1 * -(a.c1 * (Q2.norm a)⁻¹) = Q2.norm a * (Q2.norm a)⁻¹ := by
      simp only [Q2.norm]; ring
    rw [this, mul_inv_cancel₀ h]
  · simp only [Q2.mul_c1, Q2.one_c1]; ring

/-- `Fq6::inverse` inverts every element whose norm down to the base field is non-zero -/
theorem mul_inv6 (a : Q6 K) (h : Q2.norm (norm6 a) ≠ 0) : a * Fq6.inverse a = 1 := by
  rw [inv6_eq, ← mul_assoc, mul_adj6, ← of6_mul, mul_inv2 _ h, of6_one]

/-- `Fq12::inverse` inverts every element whose norm down to the base field is non-zero -/
theorem mul_inv12 (a : Q12 K) (h : normBase a ≠ 0) : a * Fq12.inverse a = 1 := by
  rw [inv12_eq, ← mul_assoc, mul_conj12, ← of12_mul, mul_inv6 _ h, of12_one]

/-- the `_oa` variant is the same function -/
theorem inv12_oa (a : Q12 K) : Fq12.inverse_oa a = Fq12.inverse a := Fq12.inverse_oa_alias a

end Cfield

/-! ## D. the final exponentiation is multiplicative -/

section D
variable {K : Type} [Field K] [TowerConsts K]

/-- the all-distinct and the in-place (`pairing(result, …)` calls it with output = input) variants coincide -/
theorem final_exponentiation_oa_eq (a : Q12 K) : final_exponentiation_oa a = final_exponentiation a := rfl

theorem final_exponentiation_mul (h : LawfulFrob K) (x y : Q12 K) :
    final_exponentiation (x * y) = final_exponentiation x * final_exponentiation y := by
  simp only [final_exponentiation, tower_spec, frob12_oa, conj_mul, inv12_mul, frob12_mul h, expByX_mul]
  ring

theorem final_exponentiation_one (h : LawfulFrob K) : final_exponentiation (1 : Q12 K) = 1 := by
  simp only [final_exponentiation, tower_spec, frob12_oa, conj_one, inv12_one, frob12_one, expByX_one, mul_one]

theorem final_exponentiation_oa_mul (h : LawfulFrob K) (x y : Q12 K) :
    final_exponentiation_oa (x * y) = final_exponentiation_oa x * final_exponentiation_oa y :=
  final_exponentiation_mul h x y

theorem final_exponentiation_oa_one (h : LawfulFrob K) : final_exponentiation_oa (1 : Q12 K) = 1 :=
  final_exponentiation_one h

theorem final_exponentiation_prod (h : LawfulFrob K) (l : List (Q12 K)) :
    final_exponentiation l.prod = (l.map final_exponentiation).prod := by
  induction l with
  | nil => simp [final_exponentiation_one h]
  | cons a l ih => simp [final_exponentiation_mul h, ih]

theorem final_exponentiation_oa_prod (h : LawfulFrob K) (l : List (Q12 K)) :
    final_exponentiation_oa l.prod = (l.map final_exponentiation_oa).prod :=
  final_exponentiation_prod h l

end D

/-! ## E. C08: the pairing-product routine returns the product of the single pairings -/

section E
variable {K : Type} [Field K] [DecidableEq K] [TowerConsts K]

theorem pairingProduct_eq_prod (h : LawfulFrob K) (as : List (Aff K × Aff (Q2 K))) (ps : List (Aff K × Prepared K)) :
    pairingProduct as ps =
      (as.map fun p => pairing p.1 p.2).prod * (ps.map fun p => pairingPrepared p.1 p.2).prod := by
  unfold pairingProduct
  rw [millerLoop_eq_prod, final_exponentiation_oa_mul h, final_exponentiation_oa_prod h, final_exponentiation_oa_prod h,
    List.map_map, List.map_map]
  rfl

end E

/-! ## F. power form -/

/-- the facts about the Frobenius tables' entry for power 6 under which `Fq12::conjugate` is `frobenius_map(·, 6)`
(closed facts on the concrete tables: `decide +kernel`). -/
structure LawfulFrobPow (R : Type) [CommRing R] [TowerConsts R] : Prop where
  /-- `fq2_frobenius_coeff[6 & 1] = 1` -/
  c2_zero : (TowerConsts.fq2_frobenius_coeff 0 : R) = 1
  /-- `fq6_frobenius_coeff_c1[6 % 6] = 1` -/
  g1_zero : (TowerConsts.fq6_frobenius_coeff_c1 0 : Q2 R) = 1
  /-- `fq6_frobenius_coeff_c2[6 % 6] = 1` -/
  g2_zero : (TowerConsts.fq6_frobenius_coeff_c2 0 : Q2 R) = 1
  /-- `fq12_frobenius_coeff_c1[6] = −1` -/
  g12_six : (TowerConsts.fq12_frobenius_coeff_c1 6 : Q2 R) = -1

section Fconj
variable {R : Type} [CommRing R] [TowerConsts R]

/-- conjugation is the sixth Frobenius power (as computed by the table-driven code) -/
theorem conj_eq_frob6 (hp : LawfulFrobPow R) (a : Q12 R) : Q12.conj a = Fq12.frobenius_map a 6 := by
  have e1 : 6 % 12 = 6 := rfl
  have e2 : 6 % 6 = 0 := rfl
  have e3 : 6 &&& 1 = 0 := rfl
  simp only [frob12_eq, frob6_eq, Fq2.frobenius_map, e1, e2, e3, hp.c2_zero, hp.g1_zero, hp.g2_zero, hp.g12_six,
    mul_one, Q12.conj]
  ext <;> simp

end Fconj

/-- exponent of `exp_by_x_restrict<s, sq>` when conjugation is the power `n^6` -/
def xe (n s : Nat) (sq : Bool) : Nat := (Consts.bls_x >>> s) * (if sq then 2 else 1) * n ^ 6

/-- the exponent the chain of `final_exponentiation` computes, step by step (same names as the generated code), when
the Frobenius map of power `k` is `x ↦ x^(n^k)`, conjugation is `x ↦ x^(n^6)` and inversion is `x ↦ x^(n^12−2)`. -/
def feExp (n : Nat) : Nat :=
  let f1_1 := n ^ 6
  let f2_1 := n ^ 12 - 2
  let r_1 := f1_1 + f2_1
  let r_2 := r_1 * n ^ 2
  let r_3 := r_2 + r_1
  let y0_1 := r_3 + r_3
  let result_1 := y0_1 * xe n 0 false
  let y2_1 := result_1 * xe n 1 false
  let y3_1 := r_3 * n ^ 6
  let result_2 := result_1 + y3_1
  let result_3 := result_2 * n ^ 6
  let result_4 := result_3 + y2_1
  let y2_2 := result_4 * xe n 1 true
  let y3_2 := y2_2 * xe n 1 true
  let result_5 := result_4 * n ^ 6
  let y3_3 := y3_2 + result_5
  let result_6 := result_5 * n ^ 6
  let result_7 := result_6 * n ^ 3
  let y2_3 := y2_2 * n ^ 2
  let result_8 := result_7 + y2_3
  let y2_4 := y3_3 * xe n 1 true
  let y2_5 := y2_4 + y0_1
  let y2_6 := y2_5 + r_3
  let result_9 := result_8 + y2_6
  let y2_7 := y3_3 * n ^ 1
  let result_10 := result_9 + y2_7
  result_10

section F
variable {K : Type} [Field K] [TowerConsts K]

/-- inversion as a power, for an element of the unit group of exponent dividing `m + 1` -/
theorem inverse_eq_pow (a : Q12 K) (m : Nat) (hinv : a * Fq12.inverse a = 1) (hord : a ^ (m + 1) = 1) :
    Fq12.inverse a = a ^ m := by
  calc Fq12.inverse a = Fq12.inverse a * a ^ (m + 1) := by rw [hord, mul_one]
    _ = (a * Fq12.inverse a) * a ^ m := by rw [pow_succ]; ring
    _ = a ^ m := by rw [hinv, one_mul]

/-- **power form, symbolic**: if the table-driven Frobenius maps are the powers `x ↦ x^(n^k)`, then on every `a` that
`Fq12::inverse` inverts and whose order divides `n^12 − 1`, the generated chain computes `a ^ feExp n`. -/
theorem final_exponentiation_pow (n : Nat) (hn : 2 ≤ n ^ 12) (hp : LawfulFrobPow K)
    (hF : ∀ (a : Q12 K) (k : Nat), Fq12.frobenius_map a k = a ^ (n ^ k))
    (a : Q12 K) (hinv : a * Fq12.inverse a = 1) (hord : a ^ (n ^ 12 - 1) = 1) :
    final_exponentiation a = a ^ feExp n := by
  have hconj : ∀ b : Q12 K, Q12.conj b = b ^ (n ^ 6) := fun b => by rw [conj_eq_frob6 hp, hF]
  have hi : Fq12.inverse a = a ^ (n ^ 12 - 2) := by
    apply inverse_eq_pow a _ hinv
    have : n ^ 12 - 2 + 1 = n ^ 12 - 1 := by omega
    rw [this, hord]
  have hx : ∀ (s : Nat) (sq : Bool) (b : Q12 K), expByX s sq b = b ^ xe n s sq := fun s sq b => by
    rw [expByX_eq, hconj, ← pow_mul, ← pow_mul, xe, mul_assoc]
  simp only [final_exponentiation, tower_spec, frob12_oa, hx, hconj, hi, hF, ← pow_mul, ← pow_add]
  congr 1

/-- **closed fact** (kernel arithmetic on the 17070-bit exponent): modulo `q^12 − 1`, the exponent computed by the
library's chain is exactly three times the reduced-pairing exponent `(q^12 − 1)/r`. -/
theorem feExp_q_mod : feExp q % (q ^ 12 - 1) = 3 * ((q ^ 12 - 1) / r) := by decide +kernel

theorem feExp_q_mod' : feExp q % (q ^ 12 - 1) = (3 * ((q ^ 12 - 1) / r)) % (q ^ 12 - 1) := by decide +kernel

/-- `r` divides `q^12 − 1` (so the quotient above is the exact cofactor) -/
theorem r_dvd_q12_sub_one : (q ^ 12 - 1) % r = 0 := by decide +kernel

theorem two_le_q12 : 2 ≤ q ^ 12 := by decide +kernel

/-- **power form**: given that the table-driven `Fq12::frobenius_map(·, k)` is `x ↦ x^(q^k)` (discharged for the
concrete field in `Proofs/FqTower.lean`) and the closed table facts `LawfulFrobPow`, for every `a` with non-zero norm
and `a^(q^12−1) = 1` (every non-zero element of the concrete Fq12), the generated `final_exponentiation` returns
`a ^ (3·(q^12−1)/r)`: the cube of the reduced-pairing power. -/
theorem final_exponentiation_eq_pow (hp : LawfulFrobPow K)
    (hF : ∀ (a : Q12 K) (k : Nat), Fq12.frobenius_map a k = a ^ (q ^ k))
    (a : Q12 K) (hnorm : normBase a ≠ 0) (hord : a ^ (q ^ 12 - 1) = 1) :
    final_exponentiation a = a ^ (3 * ((q ^ 12 - 1) / r)) := by
  rw [final_exponentiation_pow q two_le_q12 hp hF a (mul_inv12 a hnorm) hord,
    ← Nat.div_add_mod (feExp q) (q ^ 12 - 1), pow_add, pow_mul, hord, one_pow, one_mul, feExp_q_mod]

theorem final_exponentiation_oa_eq_pow (hp : LawfulFrobPow K)
    (hF : ∀ (a : Q12 K) (k : Nat), Fq12.frobenius_map a k = a ^ (q ^ k))
    (a : Q12 K) (hnorm : normBase a ≠ 0) (hord : a ^ (q ^ 12 - 1) = 1) :
    final_exponentiation_oa a = a ^ (3 * ((q ^ 12 - 1) / r)) :=
  final_exponentiation_eq_pow hp hF a hnorm hord

/-- the result of the final exponentiation has order dividing `r` -/
theorem final_exponentiation_pow_r (hp : LawfulFrobPow K)
    (hF : ∀ (a : Q12 K) (k : Nat), Fq12.frobenius_map a k = a ^ (q ^ k))
    (a : Q12 K) (hnorm : normBase a ≠ 0) (hord : a ^ (q ^ 12 - 1) = 1) :
    final_exponentiation a ^ r = 1 := by
  have hr : (q ^ 12 - 1) / r * r = q ^ 12 - 1 := Nat.div_mul_cancel (Nat.dvd_of_mod_eq_zero r_dvd_q12_sub_one)
  rw [final_exponentiation_eq_pow hp hF a hnorm hord, ← pow_mul, mul_assoc, hr, mul_comm, pow_mul, hord, one_pow]

end F

section Fpairing
variable {K : Type} [Field K] [DecidableEq K] [TowerConsts K]

/-- the pairing routine as a power of its Miller value (same hypotheses as `final_exponentiation_eq_pow`, on the
Miller value) -/
theorem pairing_eq_pow (hp : LawfulFrobPow K)
    (hF : ∀ (a : Q12 K) (k : Nat), Fq12.frobenius_map a k = a ^ (q ^ k))
    (g1 : Aff K) (g2 : Aff (Q2 K)) (hnorm : normBase (millerLoop [(g1, g2)] []) ≠ 0)
    (hord : millerLoop [(g1, g2)] [] ^ (q ^ 12 - 1) = 1) :
    pairing g1 g2 = millerLoop [(g1, g2)] [] ^ (3 * ((q ^ 12 - 1) / r)) :=
  final_exponentiation_oa_eq_pow hp hF _ hnorm hord

end Fpairing

/-! ## non-vacuity -/

/-- `LawfulFrob` is satisfiable in every commutative ring (identity tables); the concrete tables of the library
satisfy it over Fq (`Proofs/FqTower.lean`). -/
example {R : Type} [CommRing R] :
    @LawfulFrob R _ ⟨fun _ => 1, fun _ => 1, fun _ => 1, fun _ => 1, 0, 0⟩ := by
  refine @LawfulFrob.mk R _ ⟨fun _ => 1, fun _ => 1, fun _ => 1, fun _ => 1, 0, 0⟩ ?_ ?_ ?_ ?_ <;> intro k <;>
    simp only [one_pow, one_mul]

/-- the norm hypothesis of `mul_inv12`/`final_exponentiation_eq_pow` holds e.g. for 1 in every field -/
example {K : Type} [Field K] : normBase (1 : Q12 K) ≠ 0 := by rw [normBase_one]; exact one_ne_zero

/-- the multiplicativity of the generated inverse at a zero divisor / zero: `inverse 0 = 0` -/
example {K : Type} [Field K] : Fq12.inverse (0 : Q12 K) = 0 := by
  rw [inv12_eq]; ext1 <;> simp [Q12.conj]

end Jedi.FinalExp
