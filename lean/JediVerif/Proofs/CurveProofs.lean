/-
Helper lemmas for property C05: the generated Jacobian/affine curve code (Gen/CurveGen.lean)
against the affine chord-and-tangent specification (Spec/Curve.lean), over an arbitrary field
of characteristic ≠ 2.
-/
import JediVerif.Gen.CurveGen
import JediVerif.Gen.TowerThms
import Mathlib.Tactic.Ring
import Mathlib.Tactic.FieldSimp
import Mathlib.Tactic.LinearCombination
import Mathlib.Algebra.Field.Defs
import Mathlib.Algebra.Field.Basic

namespace Jedi
open Jedi.Gen

section Field
variable {K : Type} [Field K] [DecidableEq K]

/-- Jacobian curve equation for y² = x³ + b; every triple with z = 0 (whatever x, y) is the
identity, exactly as in the C++ (`is_zero` only looks at z). -/
def OnCurveJ (b : K) (p : Jac K) : Prop := p.z = 0 ∨ p.y ^ 2 = p.x ^ 3 + b * p.z ^ 6

/-- the `Pt` an `Aff` (x, y, infinity flag) stands for. -/
def Aff.toPt {F : Type} (a : Aff F) : Pt F := if a.infinity then Pt.inf else Pt.aff a.x a.y

theorem Pt.ofJac_z0 {p : Jac K} (h : p.z = 0) : Pt.ofJac p = Pt.inf := by
  simp [Pt.ofJac, h]

theorem Pt.ofJac_zne {p : Jac K} (h : p.z ≠ 0) :
    Pt.ofJac p = Pt.aff (p.x / p.z ^ 2) (p.y / p.z ^ 3) := by
  simp only [Pt.ofJac, if_neg h]
  congr 1 <;> field_simp

theorem Pt.add_inf (p : Pt K) : Pt.add p Pt.inf = p := by cases p <;> rfl
theorem Pt.inf_add (p : Pt K) : Pt.add Pt.inf p = p := by cases p <;> rfl

omit [DecidableEq K] in
theorem two_y_ne {y : K} (h2 : (2 : K) ≠ 0) (hy : y ≠ 0) : y ≠ -y := by
  intro h
  have : 2 * y = 0 := by linear_combination h
  rcases mul_eq_zero.mp this with h | h
  · exact h2 h
  · exact hy h

/-! ### doubling -/

theorem Proj.multiply2_z0 {p : Jac K} (h : p.z = 0) : Proj.multiply2 p = p := by
  simp [Proj.multiply2, h]

theorem dbl_correct' (h2 : (2 : K) ≠ 0) (p : Jac K) :
    Pt.ofJac (Proj.multiply2 p) = Pt.dbl (Pt.ofJac p) := by
  by_cases hz : p.z = 0
  · rw [Proj.multiply2_z0 hz, Pt.ofJac_z0 hz]; rfl
  · rw [Pt.ofJac_zne hz]
    by_cases hy : p.y = 0
    · have hz3 : (Proj.multiply2 p).z = 0 := by
        simp [Proj.multiply2, hz, hy]
      rw [Pt.ofJac_z0 hz3]
      simp [Pt.dbl, hy]
    · have hz3 : (Proj.multiply2 p).z = 2 * p.z * p.y := by
        simp only [Proj.multiply2, decide_eq_true_eq, if_neg hz]; ring
      have hz3ne : (Proj.multiply2 p).z ≠ 0 := by
        rw [hz3]; exact mul_ne_zero (mul_ne_zero h2 hz) hy
      have hyne : p.y / p.z ^ 3 ≠ -(p.y / p.z ^ 3) :=
        two_y_ne h2 (div_ne_zero hy (pow_ne_zero _ hz))
      rw [Pt.ofJac_zne hz3ne, hz3]
      simp only [Pt.dbl, if_neg hyne, Pt.tangentSlope]
      have hx : (Proj.multiply2 p).x = 9 * p.x ^ 4 - 8 * p.x * p.y ^ 2 := by
        simp only [Proj.multiply2, decide_eq_true_eq, if_neg hz]; ring
      have hy3 : (Proj.multiply2 p).y =
          3 * p.x ^ 2 * (4 * p.x * p.y ^ 2 - (9 * p.x ^ 4 - 8 * p.x * p.y ^ 2)) - 8 * p.y ^ 4 := by
        simp only [Proj.multiply2, decide_eq_true_eq, if_neg hz]; ring
      rw [hx, hy3]
      have e1 : p.y / p.z ^ 3 + p.y / p.z ^ 3 = 2 * p.y / p.z ^ 3 := by ring
      rw [e1]
      congr 1
      · field_simp; ring
      · field_simp; ring

/-! ### addition -/

theorem Pt.add_self (P : Pt K) : Pt.add P P = Pt.dbl P := by
  cases P with
  | inf => rfl
  | aff x y =>
    simp only [Pt.add, Pt.dbl, if_true]
    split <;> rfl

omit [DecidableEq K] in
theorem chord_slope {X1 Y1 Z1 X2 Y2 Z2 : K} (hz1 : Z1 ≠ 0) (hz2 : Z2 ≠ 0)
    (hH : X2 * Z1 ^ 2 - X1 * Z2 ^ 2 ≠ 0) :
    (Y2 / Z2 ^ 3 - Y1 / Z1 ^ 3) * (X2 / Z2 ^ 2 - X1 / Z1 ^ 2)⁻¹ =
      (Y2 * Z1 ^ 3 - Y1 * Z2 ^ 3) / (Z1 * Z2 * (X2 * Z1 ^ 2 - X1 * Z2 ^ 2)) := by
  have e : X2 / Z2 ^ 2 - X1 / Z1 ^ 2 = (X2 * Z1 ^ 2 - X1 * Z2 ^ 2) / (Z1 ^ 2 * Z2 ^ 2) := by
    field_simp
  rw [e, inv_div]
  generalize X2 * Z1 ^ 2 - X1 * Z2 ^ 2 = H at hH ⊢
  field_simp

omit [DecidableEq K] in
/-- add-2007-bl output = affine chord formulas (no curve equation needed when H ≠ 0). -/
theorem chord_xy {X1 Y1 Z1 X2 Y2 Z2 l H r U1 S1 X3 : K} (h2 : (2 : K) ≠ 0)
    (hz1 : Z1 ≠ 0) (hz2 : Z2 ≠ 0) (hH : H ≠ 0) (hHd : H = X2 * Z1 ^ 2 - X1 * Z2 ^ 2)
    (hl : l = (Y2 * Z1 ^ 3 - Y1 * Z2 ^ 3) / (Z1 * Z2 * H))
    (hr : r = 2 * (Y2 * Z1 ^ 3 - Y1 * Z2 ^ 3)) (hU : U1 = X1 * Z2 ^ 2) (hS : S1 = Y1 * Z2 ^ 3)
    (hX : X3 = r ^ 2 - 4 * H ^ 3 - 8 * U1 * H ^ 2) :
    X3 / (2 * Z1 * Z2 * H) ^ 2 = l * l - X1 / Z1 ^ 2 - X2 / Z2 ^ 2 ∧
    (r * (4 * U1 * H ^ 2 - X3) - 8 * S1 * H ^ 3) / (2 * Z1 * Z2 * H) ^ 3 =
      l * (X1 / Z1 ^ 2 - (l * l - X1 / Z1 ^ 2 - X2 / Z2 ^ 2)) - Y1 / Z1 ^ 3 := by
  subst hl hr hU hS hX
  constructor
  · field_simp
    rw [hHd]; ring
  · field_simp
    rw [hHd]; ring

theorem Proj.add_qz0 {p q : Jac K} (h : q.z = 0) : Proj.add p q = p := by
  simp [Proj.add, h]

theorem Proj.add_pz0 {p q : Jac K} (hq : q.z ≠ 0) (h : p.z = 0) : Proj.add p q = q := by
  simp [Proj.add, h, hq]

theorem Proj.add_dbl {p q : Jac K} (hp : p.z ≠ 0) (hq : q.z ≠ 0)
    (hu : p.x * (q.z * q.z) = q.x * (p.z * p.z))
    (hs : p.y * q.z * (q.z * q.z) = q.y * p.z * (p.z * p.z)) :
    Proj.add p q = Proj.multiply2 p := by
  simp only [Proj.add, decide_eq_true_eq, if_neg hq, if_neg hp, Bool.and_eq_true, hu, hs,
    and_self, if_true]

/-- the general branch of `add` (add-2007-bl) in closed form. -/
theorem Proj.add_gen {p q : Jac K} (hp : p.z ≠ 0) (hq : q.z ≠ 0)
    (hne : ¬ (p.x * (q.z * q.z) = q.x * (p.z * p.z) ∧
      p.y * q.z * (q.z * q.z) = q.y * p.z * (p.z * p.z))) :
    Proj.add p q =
      (let U1 := p.x * q.z ^ 2
       let U2 := q.x * p.z ^ 2
       let S1 := p.y * q.z ^ 3
       let S2 := q.y * p.z ^ 3
       let H := U2 - U1
       let r := 2 * (S2 - S1)
       let X3 := r ^ 2 - 4 * H ^ 3 - 8 * U1 * H ^ 2
       ⟨X3, r * (4 * U1 * H ^ 2 - X3) - 8 * S1 * H ^ 3, 2 * p.z * q.z * H⟩) := by
  simp only [Proj.add, decide_eq_true_eq, if_neg hq, if_neg hp, Bool.and_eq_true, if_neg hne]
  congr 1 <;> ring

theorem add_correct' (h2 : (2 : K) ≠ 0) {b : K} {p q : Jac K}
    (hp : OnCurveJ b p) (hq : OnCurveJ b q) :
    Pt.ofJac (Proj.add p q) = Pt.add (Pt.ofJac p) (Pt.ofJac q) := by
  by_cases hqz : q.z = 0
  · rw [Proj.add_qz0 hqz, Pt.ofJac_z0 hqz, Pt.add_inf]
  by_cases hpz : p.z = 0
  · rw [Proj.add_pz0 hqz hpz, Pt.ofJac_z0 hpz, Pt.inf_add]
  have ep := hp.resolve_left hpz
  have eq := hq.resolve_left hqz
  by_cases hu : p.x * (q.z * q.z) = q.x * (p.z * p.z)
  · have hx : p.x / p.z ^ 2 = q.x / q.z ^ 2 := by
      rw [div_eq_div_iff (pow_ne_zero _ hpz) (pow_ne_zero _ hqz)]; linear_combination hu
    by_cases hs : p.y * q.z * (q.z * q.z) = q.y * p.z * (p.z * p.z)
    · -- same point: detour to doubling
      have hy : p.y / p.z ^ 3 = q.y / q.z ^ 3 := by
        rw [div_eq_div_iff (pow_ne_zero _ hpz) (pow_ne_zero _ hqz)]; linear_combination hs
      rw [Proj.add_dbl hpz hqz hu hs, dbl_correct' h2, Pt.ofJac_zne hqz, ← hx, ← hy,
        ← Pt.ofJac_zne hpz, Pt.add_self]
    · -- opposite points: H = 0, so Z3 = 0
      have hne : ¬ (p.x * (q.z * q.z) = q.x * (p.z * p.z) ∧
          p.y * q.z * (q.z * q.z) = q.y * p.z * (p.z * p.z)) := fun h => hs h.2
      have hz3 : (Proj.add p q).z = 0 := by
        rw [Proj.add_gen hpz hqz hne]
        simp only
        have : q.x * p.z ^ 2 - p.x * q.z ^ 2 = 0 := by linear_combination -hu
        rw [this, mul_zero]
      have hsq : (p.y * q.z ^ 3 - q.y * p.z ^ 3) * (p.y * q.z ^ 3 + q.y * p.z ^ 3) = 0 := by
        linear_combination q.z ^ 6 * ep - p.z ^ 6 * eq
          + (p.x ^ 2 * q.z ^ 4 + p.x * q.z ^ 2 * q.x * p.z ^ 2 + q.x ^ 2 * p.z ^ 4) * hu
      have hy : p.y / p.z ^ 3 = -(q.y / q.z ^ 3) := by
        rcases mul_eq_zero.mp hsq with h | h
        · exact absurd (by linear_combination h) hs
        · rw [← neg_div, div_eq_div_iff (pow_ne_zero _ hpz) (pow_ne_zero _ hqz)]
          linear_combination h
      rw [Pt.ofJac_z0 hz3, Pt.ofJac_zne hpz, Pt.ofJac_zne hqz]
      simp [Pt.add, hx, hy]
  · -- generic chord
    have hne : ¬ (p.x * (q.z * q.z) = q.x * (p.z * p.z) ∧
        p.y * q.z * (q.z * q.z) = q.y * p.z * (p.z * p.z)) := fun h => hu h.1
    have hH : q.x * p.z ^ 2 - p.x * q.z ^ 2 ≠ 0 := by
      intro h; exact hu (by linear_combination -h)
    have hx : p.x / p.z ^ 2 ≠ q.x / q.z ^ 2 := by
      rw [Ne, div_eq_div_iff (pow_ne_zero _ hpz) (pow_ne_zero _ hqz)]
      intro h; exact hu (by linear_combination h)
    have hxd : q.x / q.z ^ 2 - p.x / p.z ^ 2 ≠ 0 := fun h => hx (by linear_combination -h)
    rw [Proj.add_gen hpz hqz hne]
    have hz3 : 2 * p.z * q.z * (q.x * p.z ^ 2 - p.x * q.z ^ 2) ≠ 0 :=
      mul_ne_zero (mul_ne_zero (mul_ne_zero h2 hpz) hqz) hH
    rw [Pt.ofJac_zne (by simpa using hz3), Pt.ofJac_zne hpz, Pt.ofJac_zne hqz]
    simp only [Pt.add, if_neg hx, Pt.chordSlope]
    obtain ⟨h1, h2'⟩ := chord_xy h2 hpz hqz hH rfl (chord_slope hpz hqz hH) rfl rfl rfl rfl
    exact congrArg₂ Pt.aff h1 h2'

/-! ### mixed addition: literally `add` with the affine operand lifted to z = 1 -/

/-- the Jacobian triple (x, y, 1) of a finite affine operand. -/
def Aff.lift1 (a : Aff K) : Jac K := ⟨a.x, a.y, 1⟩

theorem Proj.addA_inf {p : Jac K} {a : Aff K} (h : a.infinity = true) : Proj.addA p a = p := by
  simp [Proj.addA, h]

theorem Proj.addA_eq_add {p : Jac K} {a : Aff K} (h : a.infinity = false) :
    Proj.addA p a = Proj.add p a.lift1 := by
  by_cases hpz : p.z = 0
  · rw [Proj.add_pz0 (by simp [Aff.lift1]) hpz]
    simp [Proj.addA, h, hpz, Aff.lift1]
  by_cases hc : p.x * ((1 : K) * 1) = a.x * (p.z * p.z) ∧
      p.y * 1 * ((1 : K) * 1) = a.y * p.z * (p.z * p.z)
  · rw [Proj.add_dbl hpz (by simp [Aff.lift1]) hc.1 hc.2]
    have h1 : p.x = a.x * (p.z * p.z) := by linear_combination hc.1
    have h2 : p.y = a.y * p.z * (p.z * p.z) := by linear_combination hc.2
    simp only [Proj.addA, h, decide_eq_true_eq, if_neg hpz, Bool.and_eq_true, ← h1, ← h2,
      and_self, if_true, Bool.false_eq_true, if_false]
  · rw [Proj.add_gen hpz (by simp [Aff.lift1]) hc]
    have hc' : ¬ (p.x = a.x * (p.z * p.z) ∧ p.y = a.y * p.z * (p.z * p.z)) := by
      intro h'; apply hc; constructor
      · linear_combination h'.1
      · linear_combination h'.2
    simp only [Proj.addA, h, decide_eq_true_eq, if_neg hpz, Bool.and_eq_true, if_neg hc',
      Bool.false_eq_true, if_false, Aff.lift1]
    congr 1 <;> ring

theorem Aff.ofJac_lift1 {a : Aff K} (h : a.infinity = false) : Pt.ofJac a.lift1 = a.toPt := by
  simp [Aff.lift1, Aff.toPt, h, Pt.ofJac]

theorem addA_correct' (h2 : (2 : K) ≠ 0) {b : K} {p : Jac K} {a : Aff K}
    (hp : OnCurveJ b p) (ha : a.infinity = true ∨ a.y ^ 2 = a.x ^ 3 + b) :
    Pt.ofJac (Proj.addA p a) = Pt.add (Pt.ofJac p) a.toPt := by
  cases hinf : a.infinity with
  | true => rw [Proj.addA_inf hinf]; simp [Aff.toPt, hinf, Pt.add_inf]
  | false =>
    have hq : OnCurveJ b a.lift1 := by
      right
      have := ha.resolve_left (by simp [hinf])
      simp only [Aff.lift1]; linear_combination this
    rw [Proj.addA_eq_add hinf, add_correct' h2 hp hq, Aff.ofJac_lift1 hinf]

/-! ### negation, conversions, equality, curve membership -/

theorem neg_correct' (p : Jac K) : Pt.ofJac (Proj.negate p) = Pt.neg (Pt.ofJac p) := by
  by_cases hz : p.z = 0
  · rw [Pt.ofJac_z0 hz, Pt.ofJac_z0 (p := Proj.negate p) hz]; rfl
  · rw [Pt.ofJac_zne hz, Pt.ofJac_zne (p := Proj.negate p) hz]
    simp [Proj.negate, Pt.neg, neg_div]

omit [DecidableEq K] in
theorem Aff.neg_correct (a : Aff K) : (Affn.negate a).toPt = Pt.neg a.toPt := by
  cases h : a.infinity <;> simp [Affn.negate, Aff.toPt, h, Pt.neg]

theorem from_affine_correct' (a : Aff K) : Pt.ofJac (Proj.from_affine a) = a.toPt := by
  cases h : a.infinity <;> simp [Proj.from_affine, Aff.toPt, h, Pt.ofJac]

theorem from_projective_correct' (p : Jac K) : (Affn.from_projective p).toPt = Pt.ofJac p := by
  by_cases hz : p.z = 0
  · simp [Affn.from_projective, hz, Aff.toPt, Pt.ofJac]
  by_cases h1 : p.z = 1
  · simp [Affn.from_projective, h1, Aff.toPt, Pt.ofJac]
  · simp [Affn.from_projective, hz, h1, Aff.toPt, Pt.ofJac]

/-- the flag/coordinates `from_projective` returns in the two shortcut cases. -/
theorem from_projective_z0 {p : Jac K} (hz : p.z = 0) :
    Affn.from_projective p = ⟨0, 1, true⟩ := by
  simp [Affn.from_projective, hz]

theorem from_projective_z1 {p : Jac K} (hz : p.z = 1) :
    Affn.from_projective p = ⟨p.x, p.y, false⟩ := by
  simp [Affn.from_projective, hz]

theorem equal_iff' (p q : Jac K) : Proj.equal p q = true ↔ Pt.ofJac p = Pt.ofJac q := by
  by_cases hpz : p.z = 0
  · by_cases hqz : q.z = 0
    · simp [Proj.equal, hpz, hqz, Pt.ofJac]
    · simp [Proj.equal, hpz, hqz, Pt.ofJac]
  · by_cases hqz : q.z = 0
    · simp [Proj.equal, hpz, hqz, Pt.ofJac]
    · rw [Pt.ofJac_zne hpz, Pt.ofJac_zne hqz]
      simp only [Proj.equal, decide_eq_true_eq, if_neg hpz, if_neg hqz, Bool.and_eq_true,
        Pt.aff.injEq, div_eq_div_iff (pow_ne_zero _ hpz) (pow_ne_zero _ hqz)]
      constructor
      · rintro ⟨h1, h2⟩; constructor
        · linear_combination h1
        · linear_combination -h2
      · rintro ⟨h1, h2⟩; constructor
        · linear_combination h1
        · linear_combination -h2

omit [Field K] in
theorem Aff.equal_iff (a c : Aff K) : Affn.equal a c = true ↔ a.toPt = c.toPt := by
  cases ha : a.infinity <;> cases hc : c.infinity <;> simp [Affn.equal, Aff.toPt, ha, hc]

theorem is_on_curve_iff' (b : K) (a : Aff K) :
    Affn.is_on_curve b a = true ↔ a.y ^ 2 = a.x ^ 3 + b := by
  simp only [Affn.is_on_curve, decide_eq_true_eq]
  constructor <;> intro h <;> linear_combination h

theorem Pt.isOnCurve_aff (b x y : K) : Pt.isOnCurve b (Pt.aff x y) = true ↔ y ^ 2 = x ^ 3 + b := by
  simp only [Pt.isOnCurve, beq_iff_eq]
  constructor <;> intro h <;> linear_combination h

/-- the Jacobian curve predicate is the Spec's affine one on the represented point. -/
theorem onCurveJ_iff (b : K) (p : Jac K) : OnCurveJ b p ↔ Pt.isOnCurve b (Pt.ofJac p) = true := by
  by_cases hz : p.z = 0
  · simp [OnCurveJ, hz, Pt.ofJac_z0 hz, Pt.isOnCurve]
  · rw [Pt.ofJac_zne hz, Pt.isOnCurve_aff]
    simp only [OnCurveJ, hz, false_or]
    have h6 : p.z ^ 6 ≠ 0 := pow_ne_zero _ hz
    constructor
    · intro h; field_simp; linear_combination h
    · intro h; field_simp at h; linear_combination h

/-! ### the Spec operations stay on the curve; hence so do the Jacobian results -/

theorem Pt.neg_isOnCurve {b : K} {P : Pt K} (h : Pt.isOnCurve b P = true) :
    Pt.isOnCurve b (Pt.neg P) = true := by
  cases P with
  | inf => rfl
  | aff x y =>
    rw [Pt.isOnCurve_aff] at h
    simp only [Pt.neg, Pt.isOnCurve_aff]; linear_combination h

theorem Pt.dbl_isOnCurve (h2 : (2 : K) ≠ 0) {b : K} {P : Pt K} (h : Pt.isOnCurve b P = true) :
    Pt.isOnCurve b (Pt.dbl P) = true := by
  cases P with
  | inf => rfl
  | aff x y =>
    rw [Pt.isOnCurve_aff] at h
    simp only [Pt.dbl]
    split
    · rfl
    · rename_i hy
      have hy0 : y ≠ 0 := by rintro rfl; exact hy (by simp)
      have hl : Pt.tangentSlope x y * (2 * y) = 3 * x ^ 2 := by
        simp only [Pt.tangentSlope]; rw [← two_mul y]; field_simp; ring
      generalize Pt.tangentSlope x y = l at hl ⊢
      rw [Pt.isOnCurve_aff]
      linear_combination h + (l * l - x - x - x) * hl

theorem Pt.add_isOnCurve (h2 : (2 : K) ≠ 0) {b : K} {P Q : Pt K}
    (hP : Pt.isOnCurve b P = true) (hQ : Pt.isOnCurve b Q = true) :
    Pt.isOnCurve b (Pt.add P Q) = true := by
  cases P with
  | inf => rw [Pt.inf_add]; exact hQ
  | aff x1 y1 =>
    cases Q with
    | inf => exact hP
    | aff x2 y2 =>
      simp only [Pt.add]
      split
      · split
        · rfl
        · exact Pt.dbl_isOnCurve h2 hP
      · rename_i hx
        rw [Pt.isOnCurve_aff] at hP hQ ⊢
        have hd : x2 - x1 ≠ 0 := fun h => hx (by linear_combination -h)
        simp only [Pt.chordSlope]
        have key : ∀ l : K, l = (y2 - y1) / (x2 - x1) →
            ((l * (x1 - (l * l - x1 - x2)) - y1) ^ 2 - (l * l - x1 - x2) ^ 3 - b) * (x2 - x1) =
            (x2 - (l * l - x1 - x2)) * (y1 ^ 2 - x1 ^ 3 - b) +
              ((l * l - x1 - x2) - x1) * (y2 ^ 2 - x2 ^ 3 - b) := by
          intro l hl; subst hl; field_simp; ring
        have k := key _ (div_eq_mul_inv (y2 - y1) (x2 - x1)).symm
        rw [hP, hQ] at k
        have k0 : ((y2 - y1) * (x2 - x1)⁻¹ * (x1 - ((y2 - y1) * (x2 - x1)⁻¹ * ((y2 - y1) * (x2 - x1)⁻¹)
            - x1 - x2)) - y1) ^ 2 - ((y2 - y1) * (x2 - x1)⁻¹ * ((y2 - y1) * (x2 - x1)⁻¹) - x1 - x2) ^ 3
            - b = 0 := by
          rcases mul_eq_zero.mp (k.trans (by ring)) with h | h
          · exact h
          · exact absurd h hd
        linear_combination k0

theorem onCurve_multiply2 (h2 : (2 : K) ≠ 0) {b : K} {p : Jac K} (hp : OnCurveJ b p) :
    OnCurveJ b (Proj.multiply2 p) := by
  rw [onCurveJ_iff] at hp ⊢
  rw [dbl_correct' h2]; exact Pt.dbl_isOnCurve h2 hp

theorem onCurve_add (h2 : (2 : K) ≠ 0) {b : K} {p q : Jac K}
    (hp : OnCurveJ b p) (hq : OnCurveJ b q) : OnCurveJ b (Proj.add p q) := by
  rw [onCurveJ_iff, add_correct' h2 hp hq]
  exact Pt.add_isOnCurve h2 ((onCurveJ_iff _ _).mp hp) ((onCurveJ_iff _ _).mp hq)

theorem Aff.isOnCurve_toPt {b : K} {a : Aff K} (ha : a.infinity = true ∨ a.y ^ 2 = a.x ^ 3 + b) :
    Pt.isOnCurve b a.toPt = true := by
  cases h : a.infinity with
  | true => simp [Aff.toPt, h, Pt.isOnCurve]
  | false =>
    simp only [Aff.toPt, h, Bool.false_eq_true, if_false, Pt.isOnCurve_aff]
    exact ha.resolve_left (by simp [h])

theorem onCurve_addA (h2 : (2 : K) ≠ 0) {b : K} {p : Jac K} {a : Aff K}
    (hp : OnCurveJ b p) (ha : a.infinity = true ∨ a.y ^ 2 = a.x ^ 3 + b) :
    OnCurveJ b (Proj.addA p a) := by
  rw [onCurveJ_iff, addA_correct' h2 hp ha]
  exact Pt.add_isOnCurve h2 ((onCurveJ_iff _ _).mp hp) (Aff.isOnCurve_toPt ha)

theorem onCurve_negate {b : K} {p : Jac K} (hp : OnCurveJ b p) : OnCurveJ b (Proj.negate p) := by
  rw [onCurveJ_iff, neg_correct']
  exact Pt.neg_isOnCurve ((onCurveJ_iff _ _).mp hp)

theorem is_zero_iff' (p : Jac K) : Proj.is_zero p = true ↔ Pt.ofJac p = Pt.inf := by
  by_cases hz : p.z = 0
  · simp [Proj.is_zero, hz, Pt.ofJac_z0 hz]
  · simp [Proj.is_zero, hz, Pt.ofJac_zne hz]

omit [Field K] [DecidableEq K] in
theorem Aff.is_zero_iff (a : Aff K) : Affn.is_zero a = true ↔ a.toPt = Pt.inf := by
  cases h : a.infinity <;> simp [Affn.is_zero, Aff.toPt, h]

theorem Aff.isOnCurve_toPt_iff (b : K) (a : Aff K) :
    Pt.isOnCurve b a.toPt = true ↔ (a.infinity = true ∨ a.y ^ 2 = a.x ^ 3 + b) := by
  cases h : a.infinity with
  | true => simp [Aff.toPt, h, Pt.isOnCurve]
  | false => simp [Aff.toPt, h, Pt.isOnCurve_aff]

theorem Pt.add_neg_self (P : Pt K) : Pt.add P (Pt.neg P) = Pt.inf := by
  cases P with
  | inf => rfl
  | aff x y => simp [Pt.add, Pt.neg]

/-! ### the judge's Jacobian evaluation `smulFast` equals the definitional affine `smul` -/

theorem Pt.ofJac_toJac (P : Pt K) : Pt.ofJac (Pt.toJac P) = P := by
  cases P <;> simp [Pt.toJac, Pt.ofJac]

theorem Pt.ofJac_scale {c : K} (hc : c ≠ 0) (x y z : K) :
    Pt.ofJac ⟨c ^ 2 * x, c ^ 3 * y, c * z⟩ = Pt.ofJac ⟨x, y, z⟩ := by
  by_cases hz : z = 0
  · rw [Pt.ofJac_z0 (p := ⟨x, y, z⟩) hz, Pt.ofJac_z0]; simp [hz]
  · have hcz : c * z ≠ 0 := mul_ne_zero hc hz
    rw [Pt.ofJac_zne (p := ⟨x, y, z⟩) hz, Pt.ofJac_zne (p := ⟨_, _, c * z⟩) hcz]
    congr 1 <;> (simp only []; field_simp)

theorem Pt.ofJac_jdbl (p : Jac K) : Pt.ofJac (Pt.jdbl p) = Pt.ofJac (Proj.multiply2 p) := by
  by_cases hz : p.z = 0
  · rw [Proj.multiply2_z0 hz]; simp [Pt.jdbl, hz]
  by_cases hy : p.y = 0
  · have hz3 : (Proj.multiply2 p).z = 0 := by simp [Proj.multiply2, hz, hy]
    rw [Pt.ofJac_z0 hz3]; simp [Pt.jdbl, hz, hy, Pt.ofJac]
  · congr 1
    simp only [Pt.jdbl, if_neg hz, if_neg hy, Proj.multiply2, decide_eq_true_eq]
    congr 1 <;> ring

theorem Pt.jdbl_correct (h2 : (2 : K) ≠ 0) (p : Jac K) :
    Pt.ofJac (Pt.jdbl p) = Pt.dbl (Pt.ofJac p) := by
  rw [Pt.ofJac_jdbl, dbl_correct' h2]

theorem Pt.ofJac_jadd (h2 : (2 : K) ≠ 0) (p q : Jac K) :
    Pt.ofJac (Pt.jadd p q) = Pt.ofJac (Proj.add p q) := by
  by_cases hpz : p.z = 0
  · by_cases hqz : q.z = 0
    · rw [Proj.add_qz0 hqz]; simp [Pt.jadd, hpz, Pt.ofJac_z0 hpz, Pt.ofJac_z0 hqz]
    · rw [Proj.add_pz0 hqz hpz]; simp [Pt.jadd, hpz]
  by_cases hqz : q.z = 0
  · rw [Proj.add_qz0 hqz]; simp [Pt.jadd, hpz, hqz]
  by_cases hu : p.x * (q.z * q.z) = q.x * (p.z * p.z)
  · by_cases hs : p.y * q.z * (q.z * q.z) = q.y * p.z * (p.z * p.z)
    · rw [Proj.add_dbl hpz hqz hu hs, ← Pt.ofJac_jdbl]
      simp only [Pt.jadd, if_neg hpz, if_neg hqz, hu, hs, if_true]
    · have hne : ¬ (p.x * (q.z * q.z) = q.x * (p.z * p.z) ∧
          p.y * q.z * (q.z * q.z) = q.y * p.z * (p.z * p.z)) := fun h => hs h.2
      have hz3 : (Proj.add p q).z = 0 := by
        rw [Proj.add_gen hpz hqz hne]
        simp only
        have : q.x * p.z ^ 2 - p.x * q.z ^ 2 = 0 := by linear_combination -hu
        rw [this, mul_zero]
      rw [Pt.ofJac_z0 hz3]
      simp only [Pt.jadd, if_neg hpz, if_neg hqz, hu, if_neg hs, if_true]
      exact Pt.ofJac_z0 rfl
  · have hne : ¬ (p.x * (q.z * q.z) = q.x * (p.z * p.z) ∧
        p.y * q.z * (q.z * q.z) = q.y * p.z * (p.z * p.z)) := fun h => hu h.1
    rw [Proj.add_gen hpz hqz hne]
    simp only [Pt.jadd, if_neg hpz, if_neg hqz, if_neg hu]
    rw [← Pt.ofJac_scale h2]
    congr 1
    congr 1 <;> ring

theorem Pt.jadd_correct (h2 : (2 : K) ≠ 0) {b : K} {p q : Jac K}
    (hp : OnCurveJ b p) (hq : OnCurveJ b q) :
    Pt.ofJac (Pt.jadd p q) = Pt.add (Pt.ofJac p) (Pt.ofJac q) := by
  rw [Pt.ofJac_jadd h2, add_correct' h2 hp hq]

theorem Pt.smul_isOnCurve (h2 : (2 : K) ≠ 0) {b : K} {P : Pt K} (hP : Pt.isOnCurve b P = true)
    (k : Nat) : Pt.isOnCurve b (Pt.smul k P) = true := by
  induction k using Nat.strong_induction_on with
  | _ k ih =>
    cases k with
    | zero => rw [Pt.smul]; rfl
    | succ k =>
      rw [Pt.smul]
      have hd := Pt.dbl_isOnCurve h2 (ih ((k + 1) / 2) (by omega))
      split
      · exact Pt.add_isOnCurve h2 hd hP
      · exact hd

theorem Pt.jsmul_correct (h2 : (2 : K) ≠ 0) {b : K} {P : Pt K} (hP : Pt.isOnCurve b P = true)
    (k : Nat) : Pt.ofJac (Pt.jsmul k (Pt.toJac P)) = Pt.smul k P := by
  induction k using Nat.strong_induction_on with
  | _ k ih =>
    cases k with
    | zero => rw [Pt.smul, Pt.jsmul]; exact Pt.ofJac_z0 rfl
    | succ k =>
      rw [Pt.smul, Pt.jsmul]
      have ihh := ih ((k + 1) / 2) (by omega)
      have hd : Pt.ofJac (Pt.jdbl (Pt.jsmul ((k + 1) / 2) (Pt.toJac P))) =
          Pt.dbl (Pt.smul ((k + 1) / 2) P) := by rw [Pt.jdbl_correct h2, ihh]
      split
      · have hcd : OnCurveJ b (Pt.jdbl (Pt.jsmul ((k + 1) / 2) (Pt.toJac P))) := by
          rw [onCurveJ_iff, hd]
          exact Pt.dbl_isOnCurve h2 (Pt.smul_isOnCurve h2 hP _)
        have hcp : OnCurveJ b (Pt.toJac P) := by rw [onCurveJ_iff, Pt.ofJac_toJac]; exact hP
        rw [Pt.jadd_correct h2 hcd hcp, hd, Pt.ofJac_toJac]
      · exact hd

theorem smulFast_eq' (h2 : (2 : K) ≠ 0) {b : K} {P : Pt K} (hP : Pt.isOnCurve b P = true)
    (k : Nat) : Pt.smulFast k P = Pt.smul k P := Pt.jsmul_correct h2 hP k

end Field

/-! ### alias variants (C18): the models translated with output = input coincide -/
section Alias
variable {F : Type}

theorem Proj.multiply2_oother_eq [Add F] [Sub F] [Mul F] [Zero F] [DecidableEq F] (p : Jac F) :
    Proj.multiply2_oother p = Proj.multiply2 p := rfl
theorem Proj.add_oa_eq [Add F] [Sub F] [Mul F] [Zero F] [DecidableEq F] (p q : Jac F) :
    Proj.add_oa p q = Proj.add p q := by
  simp only [Proj.add_oa, Proj.add, Proj.multiply2_oother_eq]
theorem Proj.addA_oa_eq [Add F] [Sub F] [Mul F] [Zero F] [One F] [DecidableEq F]
    (p : Jac F) (a : Aff F) : Proj.addA_oa p a = Proj.addA p a := by
  simp only [Proj.addA_oa, Proj.addA, Proj.multiply2_oother_eq]
theorem Proj.negate_oa_eq [Neg F] (p : Jac F) : Proj.negate_oa p = Proj.negate p := rfl
theorem Affn.negate_oa_eq [Neg F] (a : Aff F) : Affn.negate_oa a = Affn.negate a := rfl
theorem Proj.equal_oa_eq [Mul F] [Zero F] [DecidableEq F] (p q : Jac F) :
    Proj.equal_oa p q = Proj.equal p q := rfl
theorem Proj.equal_ob_eq [Mul F] [Zero F] [DecidableEq F] (p q : Jac F) :
    Proj.equal_ob p q = Proj.equal p q := rfl
theorem Proj.equal_oab_eq [Mul F] [Zero F] [DecidableEq F] (p : Jac F) :
    Proj.equal_oab p = Proj.equal p p := rfl
theorem Affn.equal_oa_eq [DecidableEq F] (a c : Aff F) : Affn.equal_oa a c = Affn.equal a c := rfl
theorem Affn.equal_ob_eq [DecidableEq F] (a c : Aff F) : Affn.equal_ob a c = Affn.equal a c := rfl
theorem Affn.equal_oab_eq [DecidableEq F] (a : Aff F) : Affn.equal_oab a = Affn.equal a a := rfl

end Alias

/-! ### the Fq2 instantiation is the generic code at `F := Q2 R` -/
section Inst2
set_option linter.unusedSectionVars false
variable {R : Type} [CommRing R] [DecidableEq R]

theorem Fq2.is_zero_eq (x : Q2 R) : Fq2.is_zero x = decide (x = 0) := by
  rw [Bool.eq_iff_iff]
  simp only [Fq2.is_zero, Bool.and_eq_true, decide_eq_true_eq, Q2.ext_iff, Q2.zero_c0, Q2.zero_c1]

theorem Fq2.equal_eq (a b : Q2 R) : Fq2.equal a b = decide (a = b) := by
  rw [Bool.eq_iff_iff]
  simp only [Fq2.equal, Bool.and_eq_true, decide_eq_true_eq, Q2.ext_iff]

theorem Proj2.is_zero_eq (p : Jac (Q2 R)) : Proj2.is_zero p = Proj.is_zero p := by
  simp only [Proj2.is_zero, Proj.is_zero, Fq2.is_zero_eq]

theorem Proj2.is_normalized_eq (p : Jac (Q2 R)) : Proj2.is_normalized p = Proj.is_normalized p := by
  simp only [Proj2.is_normalized, Proj.is_normalized, Fq2.is_zero_eq, Fq2.equal_eq]

theorem Proj2.equal_eq (p q : Jac (Q2 R)) : Proj2.equal p q = Proj.equal p q := by
  simp only [Proj2.equal, Proj.equal, Fq2.is_zero_eq, Fq2.equal_eq, tower_spec]

theorem Proj2.multiply2_eq (p : Jac (Q2 R)) : Proj2.multiply2 p = Proj.multiply2 p := by
  simp only [Proj2.multiply2, Proj.multiply2, Fq2.is_zero_eq, tower_spec]

theorem Proj2.multiply2_oother_eq (p : Jac (Q2 R)) : Proj2.multiply2_oother p = Proj.multiply2 p := by
  simp only [Proj2.multiply2_oother, Proj.multiply2, Fq2.is_zero_eq, tower_spec]

theorem Proj2.add_eq (p q : Jac (Q2 R)) : Proj2.add p q = Proj.add p q := by
  simp only [Proj2.add, Proj.add, Fq2.is_zero_eq, Fq2.equal_eq, tower_spec, Proj2.multiply2_eq]

theorem Proj2.add_oa_eq (p q : Jac (Q2 R)) : Proj2.add_oa p q = Proj.add p q := by
  simp only [Proj2.add_oa, Proj.add, Fq2.is_zero_eq, Fq2.equal_eq, tower_spec,
    Proj2.multiply2_oother_eq]

theorem Proj2.addA_eq (p : Jac (Q2 R)) (a : Aff (Q2 R)) : Proj2.addA p a = Proj.addA p a := by
  simp only [Proj2.addA, Proj.addA, Fq2.is_zero_eq, Fq2.equal_eq, tower_spec, Proj2.multiply2_eq]

theorem Proj2.addA_oa_eq (p : Jac (Q2 R)) (a : Aff (Q2 R)) : Proj2.addA_oa p a = Proj.addA p a := by
  simp only [Proj2.addA_oa, Proj.addA, Fq2.is_zero_eq, Fq2.equal_eq, tower_spec,
    Proj2.multiply2_oother_eq]

theorem Proj2.negate_eq (p : Jac (Q2 R)) : Proj2.negate p = Proj.negate p := by
  simp only [Proj2.negate, Proj.negate, tower_spec]

theorem Proj2.negate_oa_eq (p : Jac (Q2 R)) : Proj2.negate_oa p = Proj.negate p := by
  simp only [Proj2.negate_oa, Proj.negate, tower_spec]

theorem Proj2.from_affine_eq (a : Aff (Q2 R)) : Proj2.from_affine a = Proj.from_affine a := rfl

theorem Affn2.negate_eq (a : Aff (Q2 R)) : Affn2.negate a = Affn.negate a := by
  simp only [Affn2.negate, Affn.negate, tower_spec]

theorem Affn2.negate_oa_eq (a : Aff (Q2 R)) : Affn2.negate_oa a = Affn.negate a := by
  simp only [Affn2.negate_oa, Affn.negate, tower_spec]

theorem Affn2.is_on_curve_eq (b : Q2 R) (a : Aff (Q2 R)) :
    Affn2.is_on_curve b a = Affn.is_on_curve b a := by
  simp only [Affn2.is_on_curve, Affn.is_on_curve, Fq2.equal_eq, tower_spec]

theorem Affn2.equal_eq (a c : Aff (Q2 R)) : Affn2.equal a c = Affn.equal a c := by
  simp only [Affn2.equal, Affn.equal, Fq2.equal_eq]

theorem Fq2.inverse_eq [Inv R] (a : Q2 R) : Fq2.inverse a = a⁻¹ := rfl

theorem Affn2.from_projective_eq [Inv R] (p : Jac (Q2 R)) :
    Affn2.from_projective p = Affn.from_projective p := by
  simp only [Affn2.from_projective, Affn.from_projective, Fq2.is_zero_eq, Fq2.equal_eq,
    Fq2.inverse_eq, tower_spec]

end Inst2
/-! ### `Q2 R` as a field, and the generic theorems transported to the Fq2 instantiation.
All statements below mention only the Spec's own operations on `Q2 R` (`Q2.instAdd`, `Q2.instMul`,
`Q2.instInv`, …); the `Field (Q2 R)` structure exists only inside the proofs. -/
section Q2Field
variable {R : Type} [Field R]

/-- `Q2 R = R[u]/(u²+1)` is a field, with the Spec operations and the Spec inverse, as soon as
x² + y² = 0 only for x = y = 0 in `R` (−1 is a non-square), e.g. `R = Fq`, q ≡ 3 (mod 4) prime. -/
@[reducible] def Q2.instField (hnr : ∀ x y : R, x * x + y * y = 0 → x = 0 ∧ y = 0) :
    Field (Q2 R) :=
  { (inferInstance : CommRing (Q2 R)) with
    inv := Q2.inv
    exists_pair_ne := ⟨0, 1, fun h => by
      have := congrArg Q2.c0 h
      simp at this⟩
    mul_inv_cancel := fun a ha => by
      have hn : a.c0 * a.c0 + a.c1 * a.c1 ≠ 0 := by
        intro h
        obtain ⟨h0, h1⟩ := hnr _ _ h
        exact ha (Q2.ext h0 h1)
      ext
      · show a.c0 * (a.c0 * (Q2.norm a)⁻¹) - a.c1 * (-(a.c1 * (Q2.norm a)⁻¹)) = 1
        simp only [Q2.norm]; linear_combination mul_inv_cancel₀ hn
      · show a.c0 * (-(a.c1 * (Q2.norm a)⁻¹)) + a.c1 * (a.c0 * (Q2.norm a)⁻¹) = 0
        ring
    inv_zero := by
      show Q2.inv (0 : Q2 R) = 0
      ext <;> simp [Q2.inv]
    nnqsmul := _
    nnqsmul_def := fun _ _ => rfl
    qsmul := _
    qsmul_def := fun _ _ => rfl }

theorem Q2.two_ne_zero (hnr : ∀ x y : R, x * x + y * y = 0 → x = 0 ∧ y = 0) (h2 : (2 : R) ≠ 0) :
    letI := Q2.instField hnr
    (2 : Q2 R) ≠ 0 := by
  let _ := Q2.instField hnr
  intro h
  have h' : ((1 : Q2 R) + 1).c0 = (0 : Q2 R).c0 := by rw [one_add_one_eq_two, h]
  simp at h'
  exact h2 (by rw [← one_add_one_eq_two]; exact h')

variable [DecidableEq R]
variable (hnr : ∀ x y : R, x * x + y * y = 0 → x = 0 ∧ y = 0) (h2 : (2 : R) ≠ 0)
include hnr h2

theorem fq2_dbl_correct' (p : Jac (Q2 R)) :
    Pt.ofJac (Proj2.multiply2 p) = Pt.dbl (Pt.ofJac p) := by
  let _ := Q2.instField hnr
  rw [Proj2.multiply2_eq]
  exact dbl_correct' (Q2.two_ne_zero hnr h2) p

theorem fq2_add_correct' {b : Q2 R} {p q : Jac (Q2 R)}
    (hp : Pt.isOnCurve b (Pt.ofJac p) = true) (hq : Pt.isOnCurve b (Pt.ofJac q) = true) :
    Pt.ofJac (Proj2.add p q) = Pt.add (Pt.ofJac p) (Pt.ofJac q) := by
  let _ := Q2.instField hnr
  rw [Proj2.add_eq]
  exact add_correct' (Q2.two_ne_zero hnr h2) ((onCurveJ_iff b p).mpr hp) ((onCurveJ_iff b q).mpr hq)

theorem fq2_addA_correct' {b : Q2 R} {p : Jac (Q2 R)} {a : Aff (Q2 R)}
    (hp : Pt.isOnCurve b (Pt.ofJac p) = true) (ha : Pt.isOnCurve b a.toPt = true) :
    Pt.ofJac (Proj2.addA p a) = Pt.add (Pt.ofJac p) a.toPt := by
  let _ := Q2.instField hnr
  rw [Proj2.addA_eq]
  exact addA_correct' (Q2.two_ne_zero hnr h2) ((onCurveJ_iff b p).mpr hp)
    ((Aff.isOnCurve_toPt_iff b a).mp ha)

omit h2 in
theorem fq2_neg_correct' (p : Jac (Q2 R)) :
    Pt.ofJac (Proj2.negate p) = Pt.neg (Pt.ofJac p) := by
  let _ := Q2.instField hnr
  rw [Proj2.negate_eq]
  exact neg_correct' p

omit h2 in
theorem fq2_equal_iff' (p q : Jac (Q2 R)) :
    Proj2.equal p q = true ↔ Pt.ofJac p = Pt.ofJac q := by
  let _ := Q2.instField hnr
  rw [Proj2.equal_eq]
  exact equal_iff' p q

omit h2 in
theorem fq2_from_affine_correct' (a : Aff (Q2 R)) :
    Pt.ofJac (Proj2.from_affine a) = a.toPt := by
  let _ := Q2.instField hnr
  rw [Proj2.from_affine_eq]
  exact from_affine_correct' a

omit h2 in
theorem fq2_from_projective_correct' (p : Jac (Q2 R)) :
    (Affn2.from_projective p).toPt = Pt.ofJac p := by
  let _ := Q2.instField hnr
  rw [Affn2.from_projective_eq]
  exact from_projective_correct' p

omit h2 in
theorem fq2_is_on_curve_iff' (b : Q2 R) (a : Aff (Q2 R)) (h : a.infinity = false) :
    Affn2.is_on_curve b a = true ↔ Pt.isOnCurve b a.toPt = true := by
  let _ := Q2.instField hnr
  rw [Affn2.is_on_curve_eq, is_on_curve_iff' b a, Aff.isOnCurve_toPt_iff b a]
  simp [h]

theorem fq2_onCurve_multiply2 {b : Q2 R} {p : Jac (Q2 R)}
    (hp : Pt.isOnCurve b (Pt.ofJac p) = true) :
    Pt.isOnCurve b (Pt.ofJac (Proj2.multiply2 p)) = true := by
  let _ := Q2.instField hnr
  rw [fq2_dbl_correct' hnr h2]
  exact Pt.dbl_isOnCurve (Q2.two_ne_zero hnr h2) hp

theorem fq2_onCurve_add {b : Q2 R} {p q : Jac (Q2 R)}
    (hp : Pt.isOnCurve b (Pt.ofJac p) = true) (hq : Pt.isOnCurve b (Pt.ofJac q) = true) :
    Pt.isOnCurve b (Pt.ofJac (Proj2.add p q)) = true := by
  let _ := Q2.instField hnr
  rw [fq2_add_correct' hnr h2 hp hq]
  exact Pt.add_isOnCurve (Q2.two_ne_zero hnr h2) hp hq

theorem fq2_onCurve_addA {b : Q2 R} {p : Jac (Q2 R)} {a : Aff (Q2 R)}
    (hp : Pt.isOnCurve b (Pt.ofJac p) = true) (ha : Pt.isOnCurve b a.toPt = true) :
    Pt.isOnCurve b (Pt.ofJac (Proj2.addA p a)) = true := by
  let _ := Q2.instField hnr
  rw [fq2_addA_correct' hnr h2 hp ha]
  exact Pt.add_isOnCurve (Q2.two_ne_zero hnr h2) hp ha

omit h2 in
theorem fq2_onCurve_negate {b : Q2 R} {p : Jac (Q2 R)}
    (hp : Pt.isOnCurve b (Pt.ofJac p) = true) :
    Pt.isOnCurve b (Pt.ofJac (Proj2.negate p)) = true := by
  let _ := Q2.instField hnr
  rw [fq2_neg_correct' hnr]
  exact Pt.neg_isOnCurve hp

end Q2Field
end Jedi
