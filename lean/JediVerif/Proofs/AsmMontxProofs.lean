/-
`bmi2_adx_fpbase_384_montgomery_reduce` (/repo/src/core/arch/x86_64/multiply_bmi2_adx.s): the same
contract as the baseline routine (`AsmMontProofs.lean`): for `T < P·2^384`, `inv·P ≡ −1 (mod 2^64)`,
`2P ≤ 2^384` the six result limbs are `< P` and `≡ T·2^{-384} (mod P)`.

One round = `mulx` by `u = inv·w0`, the CF chain (`adcx`) accumulating into the window and the OF chain
(`adox`) carrying the high words (`montx_round`); the top word receives the next input word through the
OF chain and the meta-carry through the CF chain, and `seto %bl; adc $0, %rbx` turns the two carries out
into the next meta-carry while clearing CF and OF (`montx_meta` — the next round's chains rely on that).
-/
import JediVerif.Proofs.AsmMontProofs

set_option linter.unusedSimpArgs false
set_option exponentiation.threshold 800

namespace Jedi.X86
open Jedi.Impl (val WF val_cons val_nil val_lt val_inj)

/-! ## one Montgomery round of the `mulx`/`adcx`/`adox` family at the Nat level -/

/-- `u = inv·w0 mod 2^64` (low half of `mulx`) makes the low word of `w0 + u·p0` vanish -/
theorem montx_low {inv w0 p0 u lo : Word} {t : ArithRes} {P' : Nat}
    (hinv : (inv.toNat * (p0.toNat + 2 ^ 64 * P') + 1) % 2 ^ 64 = 0)
    (hu : u = mulLo inv w0) (hlo : lo = mulLo u p0) (ht : t = addc .q w0 lo false) : t.val.toNat = 0 := by
  have hinv' : (inv.toNat * p0.toNat + 1) % 2 ^ 64 = 0 := by
    have : inv.toNat * (p0.toNat + 2 ^ 64 * P') + 1 = inv.toNat * p0.toNat + 1 + 2 ^ 64 * (inv.toNat * P') := by ring
    rw [this, Nat.add_mul_mod_self_left] at hinv; exact hinv
  have key := Jedi.Impl.mont_low_word (t0 := w0.toNat) hinv'
  subst hu hlo ht
  simp only [addc, mulLo, Width.bits, Bool.toNat_false, Nat.add_zero, BitVec.toNat_ofNat, Nat.mod_mod]
  rw [Nat.mul_comm inv.toNat w0.toNat, Nat.add_comm, Nat.mod_add_mod]
  exact key

section roundx
variable {inv uu w0 w1 w2 w3 w4 w5 p0 p1 p2 p3 p4 p5 l0 l1 l2 l3 l4 l5 h0 h1 h2 h3 h4 h5 xn mc : Word} {c o : Bool}
variable {t s1 s2 s3 s4 s5 u1 u2 u3 u4 u5 a b : ArithRes}

set_option maxHeartbeats 1000000 in
/-- `montgomeryreduceloopiterationraw_bmi2_adx` and the two additions into the top word:
`window + u·P + 2^384·(next input word + meta-carry) = 2^64 · new window + 2^448 · (the two carries out)` -/
theorem montx_round
    (hinv : (inv.toNat * val (2 ^ 64) [p0.toNat, p1.toNat, p2.toNat, p3.toNat, p4.toNat, p5.toNat] + 1) % 2 ^ 64 = 0)
    (hu : uu = mulLo inv w0)
    (hl0 : l0 = mulLo uu p0) (hh0 : h0 = mulHi uu p0) (ht : t = addc .q w0 l0 c)
    (hl1 : l1 = mulLo uu p1) (hh1 : h1 = mulHi uu p1) (hs1 : s1 = addc .q l1 h0 o) (hu1 : u1 = addc .q w1 s1.val t.cf)
    (hl2 : l2 = mulLo uu p2) (hh2 : h2 = mulHi uu p2) (hs2 : s2 = addc .q l2 h1 s1.cf) (hu2 : u2 = addc .q w2 s2.val u1.cf)
    (hl3 : l3 = mulLo uu p3) (hh3 : h3 = mulHi uu p3) (hs3 : s3 = addc .q l3 h2 s2.cf) (hu3 : u3 = addc .q w3 s3.val u2.cf)
    (hl4 : l4 = mulLo uu p4) (hh4 : h4 = mulHi uu p4) (hs4 : s4 = addc .q l4 h3 s3.cf) (hu4 : u4 = addc .q w4 s4.val u3.cf)
    (hl5 : l5 = mulLo uu p5) (hh5 : h5 = mulHi uu p5) (hs5 : s5 = addc .q l5 h4 s4.cf) (hu5 : u5 = addc .q w5 s5.val u4.cf)
    (ha : a = addc .q h5 xn s5.cf) (hb : b = addc .q a.val mc u5.cf) (hc : c = false) (ho : o = false) :
    2 ^ 64 * val (2 ^ 64) [u1.val.toNat, u2.val.toNat, u3.val.toNat, u4.val.toNat, u5.val.toNat, b.val.toNat]
        + 2 ^ 448 * (a.cf.toNat + b.cf.toNat)
      = val (2 ^ 64) [w0.toNat, w1.toNat, w2.toNat, w3.toNat, w4.toNat, w5.toNat]
        + uu.toNat * val (2 ^ 64) [p0.toNat, p1.toNat, p2.toNat, p3.toNat, p4.toNat, p5.toNat]
        + 2 ^ 384 * (xn.toNat + mc.toNat) := by
  subst hc ho
  have z : t.val.toNat = 0 := by
    simp only [val_cons] at hinv
    exact montx_low hinv hu hl0 ht
  have m0 := mul_spec uu p0; rw [← hl0, ← hh0] at m0
  have m1 := mul_spec uu p1; rw [← hl1, ← hh1] at m1
  have m2 := mul_spec uu p2; rw [← hl2, ← hh2] at m2
  have m3 := mul_spec uu p3; rw [← hl3, ← hh3] at m3
  have m4 := mul_spec uu p4; rw [← hl4, ← hh4] at m4
  have m5 := mul_spec uu p5; rw [← hl5, ← hh5] at m5
  have et := addc_spec w0 l0 false; rw [← ht, z] at et
  have es1 := addc_spec l1 h0 false; rw [← hs1] at es1
  have es2 := addc_spec l2 h1 s1.cf; rw [← hs2] at es2
  have es3 := addc_spec l3 h2 s2.cf; rw [← hs3] at es3
  have es4 := addc_spec l4 h3 s3.cf; rw [← hs4] at es4
  have es5 := addc_spec l5 h4 s4.cf; rw [← hs5] at es5
  have eu1 := addc_spec w1 s1.val t.cf; rw [← hu1] at eu1
  have eu2 := addc_spec w2 s2.val u1.cf; rw [← hu2] at eu2
  have eu3 := addc_spec w3 s3.val u2.cf; rw [← hu3] at eu3
  have eu4 := addc_spec w4 s4.val u3.cf; rw [← hu4] at eu4
  have eu5 := addc_spec w5 s5.val u4.cf; rw [← hu5] at eu5
  have ea := addc_spec h5 xn s5.cf; rw [← ha] at ea
  have eb := addc_spec a.val mc u5.cf; rw [← hb] at eb
  simp only [Bool.toNat_false, Nat.add_zero] at et es1
  simp only [val_cons, val_nil]
  linear_combination m0 + 2 ^ 64 * m1 + 2 ^ 128 * m2 + 2 ^ 192 * m3 + 2 ^ 256 * m4 + 2 ^ 320 * m5
    + et + 2 ^ 64 * es1 + 2 ^ 128 * es2 + 2 ^ 192 * es3 + 2 ^ 256 * es4 + 2 ^ 320 * es5
    + 2 ^ 64 * eu1 + 2 ^ 128 * eu2 + 2 ^ 192 * eu3 + 2 ^ 256 * eu4 + 2 ^ 320 * eu5 + 2 ^ 384 * ea + 2 ^ 384 * eb

end roundx

/-- `seto %bl; adc $0, %rbx` on a meta-carry register holding at most 2: the new meta-carry is the sum of
the two carries, and CF = OF = 0 afterwards (what the next round's two chains start from) -/
theorem montx_meta {mc q : Word} {oa cb : Bool} {m : ArithRes}
    (hq : q = BitVec.ofNat 64 (mc.toNat / 256 * 256 + oa.toNat)) (hm : m = addc .q q (0#64) cb) (hmc : mc.toNat ≤ 2) :
    m.val.toNat = oa.toNat + cb.toNat ∧ m.cf = false ∧ m.of = false ∧ m.val.toNat ≤ 2 := by
  have h1 := Bool.toNat_le oa; have h2 := Bool.toNat_le cb
  have hq' : q.toNat = oa.toNat := by
    rw [hq, BitVec.toNat_ofNat]; omega
  have e := addc_spec q (0#64) cb; rw [← hm] at e
  have hcf := Bool.toNat_le m.cf
  simp only [BitVec.toNat_ofNat, Nat.zero_mod, Nat.add_zero] at e
  have hv : m.val.toNat = oa.toNat + cb.toNat := by omega
  have hcf0 : m.cf = false := by
    cases h : m.cf
    · rfl
    · rw [h] at e; simp at e; omega
  refine ⟨hv, hcf0, ?_, by omega⟩
  have hr : m.val.toNat < 2 ^ 63 := by omega
  have hx : q.toNat < 2 ^ 63 := by omega
  rw [hm] at hr ⊢
  simp only [addc, msb, Width.bits] at hr ⊢
  rw [Nat.testBit_lt_two_pow hx, Nat.testBit_lt_two_pow hr]
  rfl

open Jedi.Gen.AsmX86

/-! ## symbolic execution, cut into pieces -/

set_option maxHeartbeats 1600000 in
theorem montx_part0 (s : State) (pr pt pp inv : Word)
    (hr : Buf s pr 6 true) (ht : Buf s pt 12 false) (hp : Buf s pp 6 false)
    (hrp : X86.Disjoint pr 6 pp 6) (hstk : Stack s 5)
    (hrs : OffStack s 5 pr 6) (hts : OffStack s 5 pt 12) (hps : OffStack s 5 pp 6) {p0 p1 p2 p3 p4 p5 x0 x1 x2 x3 x4 x5 x6 q35 m15l m16h m16l m18h m18l m21h m21l m24h m24l m27h m27l m30h m30l : Word} {t17 t19 t20 t22 t23 t25 t26 t28 t29 t31 t32 t33 t34 t36 : ArithRes}
    (hst : s.status = .running) (hpc : s.pc = 0) (hdi : s.rdi = pr) (hsi : s.rsi = pt) (hdx : s.rdx = pp) (hcx : s.rcx = inv) (hp0 : p0 = s.mem (pp.toNat + 0)) (hp1 : p1 = s.mem (pp.toNat + 8)) (hp2 : p2 = s.mem (pp.toNat + 16))
    (hp3 : p3 = s.mem (pp.toNat + 24)) (hp4 : p4 = s.mem (pp.toNat + 32)) (hp5 : p5 = s.mem (pp.toNat + 40))
    (hx0 : x0 = s.mem (pt.toNat + 0)) (hx1 : x1 = s.mem (pt.toNat + 8)) (hx2 : x2 = s.mem (pt.toNat + 16))
    (hx3 : x3 = s.mem (pt.toNat + 24)) (hx4 : x4 = s.mem (pt.toNat + 32)) (hx5 : x5 = s.mem (pt.toNat + 40))
    (hx6 : x6 = s.mem (pt.toNat + 48)) (hm15l : m15l = mulLo inv x0) (hm15h : m15h = mulHi inv x0)
    (hm16l : m16l = mulLo m15l p0) (hm16h : m16h = mulHi m15l p0) (ht17 : t17 = addc .q x0 m16l false)
    (hm18l : m18l = mulLo m15l p1) (hm18h : m18h = mulHi m15l p1) (ht19 : t19 = addc .q m18l m16h false)
    (ht20 : t20 = addc .q x1 t19.val t17.cf) (hm21l : m21l = mulLo m15l p2) (hm21h : m21h = mulHi m15l p2)
    (ht22 : t22 = addc .q m21l m18h t19.cf) (ht23 : t23 = addc .q x2 t22.val t20.cf) (hm24l : m24l = mulLo m15l p3)
    (hm24h : m24h = mulHi m15l p3) (ht25 : t25 = addc .q m24l m21h t22.cf) (ht26 : t26 = addc .q x3 t25.val t23.cf)
    (hm27l : m27l = mulLo m15l p4) (hm27h : m27h = mulHi m15l p4) (ht28 : t28 = addc .q m27l m24h t25.cf)
    (ht29 : t29 = addc .q x4 t28.val t26.cf) (hm30l : m30l = mulLo m15l p5) (hm30h : m30h = mulHi m15l p5)
    (ht31 : t31 = addc .q m30l m27h t28.cf) (ht32 : t32 = addc .q x5 t31.val t29.cf) (ht33 : t33 = addc .q m30h x6 t31.cf)
    (ht34 : t34 = addc .q t33.val (0#64) t32.cf) (hq35 : q35 = BitVec.ofNat 64 ((0#64).toNat / 256 * 256 + t33.cf.toNat) )
    (ht36 : t36 = addc .q q35 (0#64) t34.cf) :
    run embedded_pairing_core_arch_x86_64_bmi2_adx_fpbase_384_montgomery_reduce s 37
      = ({ rax := t31.val, rcx := m27h, rdx := m15l, rbx := t36.val, rsp := s.rsp - 8 - 8 - 8 - 8 - 8, rbp := pp, rsi := pt, rdi := pr, r8 := t32.val, r9 := inv, r10 := t34.val, r11 := t20.val, r12 := t23.val, r13 := t26.val, r14 := t29.val, r15 := s.r15, cf := some t36.cf, zf := some t36.zf, sf := some t36.sf, of := some t36.of, mem := setMem (setMem (setMem (setMem (setMem (s.mem) (s.rsp.toNat - 8) s.rbp) (s.rsp.toNat - 8 - 8) s.rbx) (s.rsp.toNat - 8 - 8 - 8) s.r12) (s.rsp.toNat - 8 - 8 - 8 - 8) s.r13) (s.rsp.toNat - 8 - 8 - 8 - 8 - 8) s.r14, readable := s.readable, writable := s.writable, cpuidFn := s.cpuidFn, pc := 37, status := .running } : State) := by
  obtain ⟨rt0, rt1, rt2, rt3, rt4, rt5, rt6, rt7, rt8, rt9, rt10, rt11⟩ := ht.r12
  obtain ⟨⟨alrt0, alrt1, alrt2, alrt3, alrt4, alrt5, alrt6, alrt7, alrt8, alrt9, alrt10, alrt11⟩, frt0, frt1, frt2, frt3, frt4, frt5, frt6, frt7, frt8, frt9, frt10, frt11⟩ := ht.addr12
  obtain ⟨rp0, rp1, rp2, rp3, rp4, rp5⟩ := hp.r6
  obtain ⟨⟨alrp0, alrp1, alrp2, alrp3, alrp4, alrp5⟩, frp0, frp1, frp2, frp3, frp4, frp5⟩ := hp.addr6
  obtain ⟨rr0, rr1, rr2, rr3, rr4, rr5⟩ := hr.r6
  obtain ⟨wr0, wr1, wr2, wr3, wr4, wr5⟩ := hr.w6
  obtain ⟨⟨alrr0, alrr1, alrr2, alrr3, alrr4, alrr5⟩, frr0, frr1, frr2, frr3, frr4, frr5⟩ := hr.addr6
  obtain ⟨als0, rs0⟩ := hstk.f0
  obtain ⟨room1, als1, sr1, sw1⟩ := hstk.f1 (by omega)
  obtain ⟨room2, als2, sr2, sw2⟩ := hstk.f2 (by omega)
  obtain ⟨room3, als3, sr3, sw3⟩ := hstk.f3 (by omega)
  obtain ⟨room4, als4, sr4, sw4⟩ := hstk.f4 (by omega)
  obtain ⟨room5, als5, sr5, sw5⟩ := hstk.f5 (by omega)
  replace hrp := Hide.mk hrp; replace hrs := Hide.mk hrs; replace hts := Hide.mk hts; replace hps := Hide.mk hps
  simp only [X86.Disjoint, OffStack] at hrp hrs hts hps
  clear ht hp hr hstk
  rw [State.eta s]
  x86_sym [hst, hpc, hdi, hsi, hdx, hcx, sub8x3_toNat, sub8x4_toNat, sub8x5_toNat, mulLo_fold, mulHi_fold, logic, BitVec.xor_self, ← hp0, ← hp1, ← hp2, ← hp3, ← hp4, ← hp5, ← hx0, ← hx1, ← hx2, ← hx3, ← hx4, ← hx5, ← hx6, ← hm15l, ← hm15h, ← hm16l, ← hm16h, ← ht17, ← hm18l, ← hm18h, ← ht19, ← ht20, ← hm21l, ← hm21h, ← ht22, ← ht23, ← hm24l, ← hm24h, ← ht25, ← ht26, ← hm27l, ← hm27h, ← ht28, ← ht29, ← hm30l, ← hm30h, ← ht31, ← ht32, ← ht33, ← ht34, ← hq35, ← ht36]

set_option maxHeartbeats 1600000 in
theorem montx_part1 (s : State) (pr pt pp inv : Word)
    (hr : Buf s pr 6 true) (ht : Buf s pt 12 false) (hp : Buf s pp 6 false)
    (hrp : X86.Disjoint pr 6 pp 6) (hstk : Stack s 5)
    (hrs : OffStack s 5 pr 6) (hts : OffStack s 5 pt 12) (hps : OffStack s 5 pp 6) {p0 p1 p2 p3 p4 p5 x7 q58 m15l m27h m38l m39h m39l m41h m41l m44h m44l m47h m47l m50h m50l m53h m53l : Word} {t20 t23 t26 t29 t31 t32 t34 t36 t40 t42 t43 t45 t46 t48 t49 t51 t52 t54 t55 t56 t57 t59 : ArithRes}
    (hp0 : p0 = s.mem (pp.toNat + 0)) (hp1 : p1 = s.mem (pp.toNat + 8)) (hp2 : p2 = s.mem (pp.toNat + 16))
    (hp3 : p3 = s.mem (pp.toNat + 24)) (hp4 : p4 = s.mem (pp.toNat + 32)) (hp5 : p5 = s.mem (pp.toNat + 40))
    (hx7 : x7 = s.mem (pt.toNat + 56)) (hm38l : m38l = mulLo inv t20.val) (hm38h : m38h = mulHi inv t20.val)
    (hm39l : m39l = mulLo m38l p0) (hm39h : m39h = mulHi m38l p0) (ht40 : t40 = addc .q t20.val m39l t36.cf)
    (hm41l : m41l = mulLo m38l p1) (hm41h : m41h = mulHi m38l p1) (ht42 : t42 = addc .q m41l m39h t36.of)
    (ht43 : t43 = addc .q t23.val t42.val t40.cf) (hm44l : m44l = mulLo m38l p2) (hm44h : m44h = mulHi m38l p2)
    (ht45 : t45 = addc .q m44l m41h t42.cf) (ht46 : t46 = addc .q t26.val t45.val t43.cf) (hm47l : m47l = mulLo m38l p3)
    (hm47h : m47h = mulHi m38l p3) (ht48 : t48 = addc .q m47l m44h t45.cf) (ht49 : t49 = addc .q t29.val t48.val t46.cf)
    (hm50l : m50l = mulLo m38l p4) (hm50h : m50h = mulHi m38l p4) (ht51 : t51 = addc .q m50l m47h t48.cf)
    (ht52 : t52 = addc .q t32.val t51.val t49.cf) (hm53l : m53l = mulLo m38l p5) (hm53h : m53h = mulHi m38l p5)
    (ht54 : t54 = addc .q m53l m50h t51.cf) (ht55 : t55 = addc .q t34.val t54.val t52.cf)
    (ht56 : t56 = addc .q m53h x7 t54.cf) (ht57 : t57 = addc .q t56.val t36.val t55.cf)
    (hq58 : q58 = BitVec.ofNat 64 (t36.val.toNat / 256 * 256 + t56.cf.toNat)) (ht59 : t59 = addc .q q58 (0#64) t57.cf) :
    run embedded_pairing_core_arch_x86_64_bmi2_adx_fpbase_384_montgomery_reduce ({ rax := t31.val, rcx := m27h, rdx := m15l, rbx := t36.val, rsp := s.rsp - 8 - 8 - 8 - 8 - 8, rbp := pp, rsi := pt, rdi := pr, r8 := t32.val, r9 := inv, r10 := t34.val, r11 := t20.val, r12 := t23.val, r13 := t26.val, r14 := t29.val, r15 := s.r15, cf := some t36.cf, zf := some t36.zf, sf := some t36.sf, of := some t36.of, mem := setMem (setMem (setMem (setMem (setMem (s.mem) (s.rsp.toNat - 8) s.rbp) (s.rsp.toNat - 8 - 8) s.rbx) (s.rsp.toNat - 8 - 8 - 8) s.r12) (s.rsp.toNat - 8 - 8 - 8 - 8) s.r13) (s.rsp.toNat - 8 - 8 - 8 - 8 - 8) s.r14, readable := s.readable, writable := s.writable, cpuidFn := s.cpuidFn, pc := 37, status := .running } : State) 23
      = ({ rax := t54.val, rcx := m50h, rdx := m38l, rbx := t59.val, rsp := s.rsp - 8 - 8 - 8 - 8 - 8, rbp := pp, rsi := pt, rdi := pr, r8 := t52.val, r9 := inv, r10 := t55.val, r11 := t57.val, r12 := t43.val, r13 := t46.val, r14 := t49.val, r15 := s.r15, cf := some t59.cf, zf := some t59.zf, sf := some t59.sf, of := some t59.of, mem := setMem (setMem (setMem (setMem (setMem (s.mem) (s.rsp.toNat - 8) s.rbp) (s.rsp.toNat - 8 - 8) s.rbx) (s.rsp.toNat - 8 - 8 - 8) s.r12) (s.rsp.toNat - 8 - 8 - 8 - 8) s.r13) (s.rsp.toNat - 8 - 8 - 8 - 8 - 8) s.r14, readable := s.readable, writable := s.writable, cpuidFn := s.cpuidFn, pc := 60, status := .running } : State) := by
  obtain ⟨rt0, rt1, rt2, rt3, rt4, rt5, rt6, rt7, rt8, rt9, rt10, rt11⟩ := ht.r12
  obtain ⟨⟨alrt0, alrt1, alrt2, alrt3, alrt4, alrt5, alrt6, alrt7, alrt8, alrt9, alrt10, alrt11⟩, frt0, frt1, frt2, frt3, frt4, frt5, frt6, frt7, frt8, frt9, frt10, frt11⟩ := ht.addr12
  obtain ⟨rp0, rp1, rp2, rp3, rp4, rp5⟩ := hp.r6
  obtain ⟨⟨alrp0, alrp1, alrp2, alrp3, alrp4, alrp5⟩, frp0, frp1, frp2, frp3, frp4, frp5⟩ := hp.addr6
  obtain ⟨rr0, rr1, rr2, rr3, rr4, rr5⟩ := hr.r6
  obtain ⟨wr0, wr1, wr2, wr3, wr4, wr5⟩ := hr.w6
  obtain ⟨⟨alrr0, alrr1, alrr2, alrr3, alrr4, alrr5⟩, frr0, frr1, frr2, frr3, frr4, frr5⟩ := hr.addr6
  obtain ⟨als0, rs0⟩ := hstk.f0
  obtain ⟨room1, als1, sr1, sw1⟩ := hstk.f1 (by omega)
  obtain ⟨room2, als2, sr2, sw2⟩ := hstk.f2 (by omega)
  obtain ⟨room3, als3, sr3, sw3⟩ := hstk.f3 (by omega)
  obtain ⟨room4, als4, sr4, sw4⟩ := hstk.f4 (by omega)
  obtain ⟨room5, als5, sr5, sw5⟩ := hstk.f5 (by omega)
  replace hrp := Hide.mk hrp; replace hrs := Hide.mk hrs; replace hts := Hide.mk hts; replace hps := Hide.mk hps
  simp only [X86.Disjoint, OffStack] at hrp hrs hts hps
  clear ht hp hr hstk
  x86_sym [sub8x3_toNat, sub8x4_toNat, sub8x5_toNat, mulLo_fold, mulHi_fold, logic, BitVec.xor_self, ← hp0, ← hp1, ← hp2, ← hp3, ← hp4, ← hp5, ← hx7, ← hm38l, ← hm38h, ← hm39l, ← hm39h, ← ht40, ← hm41l, ← hm41h, ← ht42, ← ht43, ← hm44l, ← hm44h, ← ht45, ← ht46, ← hm47l, ← hm47h, ← ht48, ← ht49, ← hm50l, ← hm50h, ← ht51, ← ht52, ← hm53l, ← hm53h, ← ht54, ← ht55, ← ht56, ← ht57, ← hq58, ← ht59]

set_option maxHeartbeats 1600000 in
theorem montx_part2 (s : State) (pr pt pp inv : Word)
    (hr : Buf s pr 6 true) (ht : Buf s pt 12 false) (hp : Buf s pp 6 false)
    (hrp : X86.Disjoint pr 6 pp 6) (hstk : Stack s 5)
    (hrs : OffStack s 5 pr 6) (hts : OffStack s 5 pt 12) (hps : OffStack s 5 pp 6) {p0 p1 p2 p3 p4 p5 x8 q81 m38l m50h m61l m62h m62l m64h m64l m67h m67l m70h m70l m73h m73l m76h m76l : Word} {t43 t46 t49 t52 t54 t55 t57 t59 t63 t65 t66 t68 t69 t71 t72 t74 t75 t77 t78 t79 t80 t82 : ArithRes}
    (hp0 : p0 = s.mem (pp.toNat + 0)) (hp1 : p1 = s.mem (pp.toNat + 8)) (hp2 : p2 = s.mem (pp.toNat + 16))
    (hp3 : p3 = s.mem (pp.toNat + 24)) (hp4 : p4 = s.mem (pp.toNat + 32)) (hp5 : p5 = s.mem (pp.toNat + 40))
    (hx8 : x8 = s.mem (pt.toNat + 64)) (hm61l : m61l = mulLo inv t43.val) (hm61h : m61h = mulHi inv t43.val)
    (hm62l : m62l = mulLo m61l p0) (hm62h : m62h = mulHi m61l p0) (ht63 : t63 = addc .q t43.val m62l t59.cf)
    (hm64l : m64l = mulLo m61l p1) (hm64h : m64h = mulHi m61l p1) (ht65 : t65 = addc .q m64l m62h t59.of)
    (ht66 : t66 = addc .q t46.val t65.val t63.cf) (hm67l : m67l = mulLo m61l p2) (hm67h : m67h = mulHi m61l p2)
    (ht68 : t68 = addc .q m67l m64h t65.cf) (ht69 : t69 = addc .q t49.val t68.val t66.cf) (hm70l : m70l = mulLo m61l p3)
    (hm70h : m70h = mulHi m61l p3) (ht71 : t71 = addc .q m70l m67h t68.cf) (ht72 : t72 = addc .q t52.val t71.val t69.cf)
    (hm73l : m73l = mulLo m61l p4) (hm73h : m73h = mulHi m61l p4) (ht74 : t74 = addc .q m73l m70h t71.cf)
    (ht75 : t75 = addc .q t55.val t74.val t72.cf) (hm76l : m76l = mulLo m61l p5) (hm76h : m76h = mulHi m61l p5)
    (ht77 : t77 = addc .q m76l m73h t74.cf) (ht78 : t78 = addc .q t57.val t77.val t75.cf)
    (ht79 : t79 = addc .q m76h x8 t77.cf) (ht80 : t80 = addc .q t79.val t59.val t78.cf)
    (hq81 : q81 = BitVec.ofNat 64 (t59.val.toNat / 256 * 256 + t79.cf.toNat)) (ht82 : t82 = addc .q q81 (0#64) t80.cf) :
    run embedded_pairing_core_arch_x86_64_bmi2_adx_fpbase_384_montgomery_reduce ({ rax := t54.val, rcx := m50h, rdx := m38l, rbx := t59.val, rsp := s.rsp - 8 - 8 - 8 - 8 - 8, rbp := pp, rsi := pt, rdi := pr, r8 := t52.val, r9 := inv, r10 := t55.val, r11 := t57.val, r12 := t43.val, r13 := t46.val, r14 := t49.val, r15 := s.r15, cf := some t59.cf, zf := some t59.zf, sf := some t59.sf, of := some t59.of, mem := setMem (setMem (setMem (setMem (setMem (s.mem) (s.rsp.toNat - 8) s.rbp) (s.rsp.toNat - 8 - 8) s.rbx) (s.rsp.toNat - 8 - 8 - 8) s.r12) (s.rsp.toNat - 8 - 8 - 8 - 8) s.r13) (s.rsp.toNat - 8 - 8 - 8 - 8 - 8) s.r14, readable := s.readable, writable := s.writable, cpuidFn := s.cpuidFn, pc := 60, status := .running } : State) 23
      = ({ rax := t77.val, rcx := m73h, rdx := m61l, rbx := t82.val, rsp := s.rsp - 8 - 8 - 8 - 8 - 8, rbp := pp, rsi := pt, rdi := pr, r8 := t72.val, r9 := inv, r10 := t75.val, r11 := t78.val, r12 := t80.val, r13 := t66.val, r14 := t69.val, r15 := s.r15, cf := some t82.cf, zf := some t82.zf, sf := some t82.sf, of := some t82.of, mem := setMem (setMem (setMem (setMem (setMem (s.mem) (s.rsp.toNat - 8) s.rbp) (s.rsp.toNat - 8 - 8) s.rbx) (s.rsp.toNat - 8 - 8 - 8) s.r12) (s.rsp.toNat - 8 - 8 - 8 - 8) s.r13) (s.rsp.toNat - 8 - 8 - 8 - 8 - 8) s.r14, readable := s.readable, writable := s.writable, cpuidFn := s.cpuidFn, pc := 83, status := .running } : State) := by
  obtain ⟨rt0, rt1, rt2, rt3, rt4, rt5, rt6, rt7, rt8, rt9, rt10, rt11⟩ := ht.r12
  obtain ⟨⟨alrt0, alrt1, alrt2, alrt3, alrt4, alrt5, alrt6, alrt7, alrt8, alrt9, alrt10, alrt11⟩, frt0, frt1, frt2, frt3, frt4, frt5, frt6, frt7, frt8, frt9, frt10, frt11⟩ := ht.addr12
  obtain ⟨rp0, rp1, rp2, rp3, rp4, rp5⟩ := hp.r6
  obtain ⟨⟨alrp0, alrp1, alrp2, alrp3, alrp4, alrp5⟩, frp0, frp1, frp2, frp3, frp4, frp5⟩ := hp.addr6
  obtain ⟨rr0, rr1, rr2, rr3, rr4, rr5⟩ := hr.r6
  obtain ⟨wr0, wr1, wr2, wr3, wr4, wr5⟩ := hr.w6
  obtain ⟨⟨alrr0, alrr1, alrr2, alrr3, alrr4, alrr5⟩, frr0, frr1, frr2, frr3, frr4, frr5⟩ := hr.addr6
  obtain ⟨als0, rs0⟩ := hstk.f0
  obtain ⟨room1, als1, sr1, sw1⟩ := hstk.f1 (by omega)
  obtain ⟨room2, als2, sr2, sw2⟩ := hstk.f2 (by omega)
  obtain ⟨room3, als3, sr3, sw3⟩ := hstk.f3 (by omega)
  obtain ⟨room4, als4, sr4, sw4⟩ := hstk.f4 (by omega)
  obtain ⟨room5, als5, sr5, sw5⟩ := hstk.f5 (by omega)
  replace hrp := Hide.mk hrp; replace hrs := Hide.mk hrs; replace hts := Hide.mk hts; replace hps := Hide.mk hps
  simp only [X86.Disjoint, OffStack] at hrp hrs hts hps
  clear ht hp hr hstk
  x86_sym [sub8x3_toNat, sub8x4_toNat, sub8x5_toNat, mulLo_fold, mulHi_fold, logic, BitVec.xor_self, ← hp0, ← hp1, ← hp2, ← hp3, ← hp4, ← hp5, ← hx8, ← hm61l, ← hm61h, ← hm62l, ← hm62h, ← ht63, ← hm64l, ← hm64h, ← ht65, ← ht66, ← hm67l, ← hm67h, ← ht68, ← ht69, ← hm70l, ← hm70h, ← ht71, ← ht72, ← hm73l, ← hm73h, ← ht74, ← ht75, ← hm76l, ← hm76h, ← ht77, ← ht78, ← ht79, ← ht80, ← hq81, ← ht82]

set_option maxHeartbeats 1600000 in
theorem montx_part3 (s : State) (pr pt pp inv : Word)
    (hr : Buf s pr 6 true) (ht : Buf s pt 12 false) (hp : Buf s pp 6 false)
    (hrp : X86.Disjoint pr 6 pp 6) (hstk : Stack s 5)
    (hrs : OffStack s 5 pr 6) (hts : OffStack s 5 pt 12) (hps : OffStack s 5 pp 6) {p0 p1 p2 p3 p4 p5 x9 m61l m73h m84l m85h m85l m87h m87l m90h m90l m93h m93l m96h m96l m99h m99l q104 : Word} {t66 t69 t72 t75 t77 t78 t80 t82 t86 t88 t89 t91 t92 t94 t95 t97 t98 t100 t101 t102 t103 t105 : ArithRes}
    (hp0 : p0 = s.mem (pp.toNat + 0)) (hp1 : p1 = s.mem (pp.toNat + 8)) (hp2 : p2 = s.mem (pp.toNat + 16))
    (hp3 : p3 = s.mem (pp.toNat + 24)) (hp4 : p4 = s.mem (pp.toNat + 32)) (hp5 : p5 = s.mem (pp.toNat + 40))
    (hx9 : x9 = s.mem (pt.toNat + 72)) (hm84l : m84l = mulLo inv t66.val) (hm84h : m84h = mulHi inv t66.val)
    (hm85l : m85l = mulLo m84l p0) (hm85h : m85h = mulHi m84l p0) (ht86 : t86 = addc .q t66.val m85l t82.cf)
    (hm87l : m87l = mulLo m84l p1) (hm87h : m87h = mulHi m84l p1) (ht88 : t88 = addc .q m87l m85h t82.of)
    (ht89 : t89 = addc .q t69.val t88.val t86.cf) (hm90l : m90l = mulLo m84l p2) (hm90h : m90h = mulHi m84l p2)
    (ht91 : t91 = addc .q m90l m87h t88.cf) (ht92 : t92 = addc .q t72.val t91.val t89.cf) (hm93l : m93l = mulLo m84l p3)
    (hm93h : m93h = mulHi m84l p3) (ht94 : t94 = addc .q m93l m90h t91.cf) (ht95 : t95 = addc .q t75.val t94.val t92.cf)
    (hm96l : m96l = mulLo m84l p4) (hm96h : m96h = mulHi m84l p4) (ht97 : t97 = addc .q m96l m93h t94.cf)
    (ht98 : t98 = addc .q t78.val t97.val t95.cf) (hm99l : m99l = mulLo m84l p5) (hm99h : m99h = mulHi m84l p5)
    (ht100 : t100 = addc .q m99l m96h t97.cf) (ht101 : t101 = addc .q t80.val t100.val t98.cf)
    (ht102 : t102 = addc .q m99h x9 t100.cf) (ht103 : t103 = addc .q t102.val t82.val t101.cf)
    (hq104 : q104 = BitVec.ofNat 64 (t82.val.toNat / 256 * 256 + t102.cf.toNat))
    (ht105 : t105 = addc .q q104 (0#64) t103.cf) :
    run embedded_pairing_core_arch_x86_64_bmi2_adx_fpbase_384_montgomery_reduce ({ rax := t77.val, rcx := m73h, rdx := m61l, rbx := t82.val, rsp := s.rsp - 8 - 8 - 8 - 8 - 8, rbp := pp, rsi := pt, rdi := pr, r8 := t72.val, r9 := inv, r10 := t75.val, r11 := t78.val, r12 := t80.val, r13 := t66.val, r14 := t69.val, r15 := s.r15, cf := some t82.cf, zf := some t82.zf, sf := some t82.sf, of := some t82.of, mem := setMem (setMem (setMem (setMem (setMem (s.mem) (s.rsp.toNat - 8) s.rbp) (s.rsp.toNat - 8 - 8) s.rbx) (s.rsp.toNat - 8 - 8 - 8) s.r12) (s.rsp.toNat - 8 - 8 - 8 - 8) s.r13) (s.rsp.toNat - 8 - 8 - 8 - 8 - 8) s.r14, readable := s.readable, writable := s.writable, cpuidFn := s.cpuidFn, pc := 83, status := .running } : State) 23
      = ({ rax := t100.val, rcx := m96h, rdx := m84l, rbx := t105.val, rsp := s.rsp - 8 - 8 - 8 - 8 - 8, rbp := pp, rsi := pt, rdi := pr, r8 := t92.val, r9 := inv, r10 := t95.val, r11 := t98.val, r12 := t101.val, r13 := t103.val, r14 := t89.val, r15 := s.r15, cf := some t105.cf, zf := some t105.zf, sf := some t105.sf, of := some t105.of, mem := setMem (setMem (setMem (setMem (setMem (s.mem) (s.rsp.toNat - 8) s.rbp) (s.rsp.toNat - 8 - 8) s.rbx) (s.rsp.toNat - 8 - 8 - 8) s.r12) (s.rsp.toNat - 8 - 8 - 8 - 8) s.r13) (s.rsp.toNat - 8 - 8 - 8 - 8 - 8) s.r14, readable := s.readable, writable := s.writable, cpuidFn := s.cpuidFn, pc := 106, status := .running } : State) := by
  obtain ⟨rt0, rt1, rt2, rt3, rt4, rt5, rt6, rt7, rt8, rt9, rt10, rt11⟩ := ht.r12
  obtain ⟨⟨alrt0, alrt1, alrt2, alrt3, alrt4, alrt5, alrt6, alrt7, alrt8, alrt9, alrt10, alrt11⟩, frt0, frt1, frt2, frt3, frt4, frt5, frt6, frt7, frt8, frt9, frt10, frt11⟩ := ht.addr12
  obtain ⟨rp0, rp1, rp2, rp3, rp4, rp5⟩ := hp.r6
  obtain ⟨⟨alrp0, alrp1, alrp2, alrp3, alrp4, alrp5⟩, frp0, frp1, frp2, frp3, frp4, frp5⟩ := hp.addr6
  obtain ⟨rr0, rr1, rr2, rr3, rr4, rr5⟩ := hr.r6
  obtain ⟨wr0, wr1, wr2, wr3, wr4, wr5⟩ := hr.w6
  obtain ⟨⟨alrr0, alrr1, alrr2, alrr3, alrr4, alrr5⟩, frr0, frr1, frr2, frr3, frr4, frr5⟩ := hr.addr6
  obtain ⟨als0, rs0⟩ := hstk.f0
  obtain ⟨room1, als1, sr1, sw1⟩ := hstk.f1 (by omega)
  obtain ⟨room2, als2, sr2, sw2⟩ := hstk.f2 (by omega)
  obtain ⟨room3, als3, sr3, sw3⟩ := hstk.f3 (by omega)
  obtain ⟨room4, als4, sr4, sw4⟩ := hstk.f4 (by omega)
  obtain ⟨room5, als5, sr5, sw5⟩ := hstk.f5 (by omega)
  replace hrp := Hide.mk hrp; replace hrs := Hide.mk hrs; replace hts := Hide.mk hts; replace hps := Hide.mk hps
  simp only [X86.Disjoint, OffStack] at hrp hrs hts hps
  clear ht hp hr hstk
  x86_sym [sub8x3_toNat, sub8x4_toNat, sub8x5_toNat, mulLo_fold, mulHi_fold, logic, BitVec.xor_self, ← hp0, ← hp1, ← hp2, ← hp3, ← hp4, ← hp5, ← hx9, ← hm84l, ← hm84h, ← hm85l, ← hm85h, ← ht86, ← hm87l, ← hm87h, ← ht88, ← ht89, ← hm90l, ← hm90h, ← ht91, ← ht92, ← hm93l, ← hm93h, ← ht94, ← ht95, ← hm96l, ← hm96h, ← ht97, ← ht98, ← hm99l, ← hm99h, ← ht100, ← ht101, ← ht102, ← ht103, ← hq104, ← ht105]

set_option maxHeartbeats 1600000 in
theorem montx_part4 (s : State) (pr pt pp inv : Word)
    (hr : Buf s pr 6 true) (ht : Buf s pt 12 false) (hp : Buf s pp 6 false)
    (hrp : X86.Disjoint pr 6 pp 6) (hstk : Stack s 5)
    (hrs : OffStack s 5 pr 6) (hts : OffStack s 5 pt 12) (hps : OffStack s 5 pp 6) {p0 p1 p2 p3 p4 p5 x10 m84l m96h q127 m107l m108h m108l m110h m110l m113h m113l m116h m116l m119h m119l m122h m122l : Word} {t89 t92 t95 t98 t100 t101 t103 t105 t109 t111 t112 t114 t115 t117 t118 t120 t121 t123 t124 t125 t126 t128 : ArithRes}
    (hp0 : p0 = s.mem (pp.toNat + 0)) (hp1 : p1 = s.mem (pp.toNat + 8)) (hp2 : p2 = s.mem (pp.toNat + 16))
    (hp3 : p3 = s.mem (pp.toNat + 24)) (hp4 : p4 = s.mem (pp.toNat + 32)) (hp5 : p5 = s.mem (pp.toNat + 40))
    (hx10 : x10 = s.mem (pt.toNat + 80)) (hm107l : m107l = mulLo inv t89.val) (hm107h : m107h = mulHi inv t89.val)
    (hm108l : m108l = mulLo m107l p0) (hm108h : m108h = mulHi m107l p0) (ht109 : t109 = addc .q t89.val m108l t105.cf)
    (hm110l : m110l = mulLo m107l p1) (hm110h : m110h = mulHi m107l p1) (ht111 : t111 = addc .q m110l m108h t105.of)
    (ht112 : t112 = addc .q t92.val t111.val t109.cf) (hm113l : m113l = mulLo m107l p2) (hm113h : m113h = mulHi m107l p2)
    (ht114 : t114 = addc .q m113l m110h t111.cf) (ht115 : t115 = addc .q t95.val t114.val t112.cf)
    (hm116l : m116l = mulLo m107l p3) (hm116h : m116h = mulHi m107l p3) (ht117 : t117 = addc .q m116l m113h t114.cf)
    (ht118 : t118 = addc .q t98.val t117.val t115.cf) (hm119l : m119l = mulLo m107l p4) (hm119h : m119h = mulHi m107l p4)
    (ht120 : t120 = addc .q m119l m116h t117.cf) (ht121 : t121 = addc .q t101.val t120.val t118.cf)
    (hm122l : m122l = mulLo m107l p5) (hm122h : m122h = mulHi m107l p5) (ht123 : t123 = addc .q m122l m119h t120.cf)
    (ht124 : t124 = addc .q t103.val t123.val t121.cf) (ht125 : t125 = addc .q m122h x10 t123.cf)
    (ht126 : t126 = addc .q t125.val t105.val t124.cf)
    (hq127 : q127 = BitVec.ofNat 64 (t105.val.toNat / 256 * 256 + t125.cf.toNat))
    (ht128 : t128 = addc .q q127 (0#64) t126.cf) :
    run embedded_pairing_core_arch_x86_64_bmi2_adx_fpbase_384_montgomery_reduce ({ rax := t100.val, rcx := m96h, rdx := m84l, rbx := t105.val, rsp := s.rsp - 8 - 8 - 8 - 8 - 8, rbp := pp, rsi := pt, rdi := pr, r8 := t92.val, r9 := inv, r10 := t95.val, r11 := t98.val, r12 := t101.val, r13 := t103.val, r14 := t89.val, r15 := s.r15, cf := some t105.cf, zf := some t105.zf, sf := some t105.sf, of := some t105.of, mem := setMem (setMem (setMem (setMem (setMem (s.mem) (s.rsp.toNat - 8) s.rbp) (s.rsp.toNat - 8 - 8) s.rbx) (s.rsp.toNat - 8 - 8 - 8) s.r12) (s.rsp.toNat - 8 - 8 - 8 - 8) s.r13) (s.rsp.toNat - 8 - 8 - 8 - 8 - 8) s.r14, readable := s.readable, writable := s.writable, cpuidFn := s.cpuidFn, pc := 106, status := .running } : State) 23
      = ({ rax := t123.val, rcx := m119h, rdx := m107l, rbx := t128.val, rsp := s.rsp - 8 - 8 - 8 - 8 - 8, rbp := pp, rsi := pt, rdi := pr, r8 := t112.val, r9 := inv, r10 := t115.val, r11 := t118.val, r12 := t121.val, r13 := t124.val, r14 := t126.val, r15 := s.r15, cf := some t128.cf, zf := some t128.zf, sf := some t128.sf, of := some t128.of, mem := setMem (setMem (setMem (setMem (setMem (s.mem) (s.rsp.toNat - 8) s.rbp) (s.rsp.toNat - 8 - 8) s.rbx) (s.rsp.toNat - 8 - 8 - 8) s.r12) (s.rsp.toNat - 8 - 8 - 8 - 8) s.r13) (s.rsp.toNat - 8 - 8 - 8 - 8 - 8) s.r14, readable := s.readable, writable := s.writable, cpuidFn := s.cpuidFn, pc := 129, status := .running } : State) := by
  obtain ⟨rt0, rt1, rt2, rt3, rt4, rt5, rt6, rt7, rt8, rt9, rt10, rt11⟩ := ht.r12
  obtain ⟨⟨alrt0, alrt1, alrt2, alrt3, alrt4, alrt5, alrt6, alrt7, alrt8, alrt9, alrt10, alrt11⟩, frt0, frt1, frt2, frt3, frt4, frt5, frt6, frt7, frt8, frt9, frt10, frt11⟩ := ht.addr12
  obtain ⟨rp0, rp1, rp2, rp3, rp4, rp5⟩ := hp.r6
  obtain ⟨⟨alrp0, alrp1, alrp2, alrp3, alrp4, alrp5⟩, frp0, frp1, frp2, frp3, frp4, frp5⟩ := hp.addr6
  obtain ⟨rr0, rr1, rr2, rr3, rr4, rr5⟩ := hr.r6
  obtain ⟨wr0, wr1, wr2, wr3, wr4, wr5⟩ := hr.w6
  obtain ⟨⟨alrr0, alrr1, alrr2, alrr3, alrr4, alrr5⟩, frr0, frr1, frr2, frr3, frr4, frr5⟩ := hr.addr6
  obtain ⟨als0, rs0⟩ := hstk.f0
  obtain ⟨room1, als1, sr1, sw1⟩ := hstk.f1 (by omega)
  obtain ⟨room2, als2, sr2, sw2⟩ := hstk.f2 (by omega)
  obtain ⟨room3, als3, sr3, sw3⟩ := hstk.f3 (by omega)
  obtain ⟨room4, als4, sr4, sw4⟩ := hstk.f4 (by omega)
  obtain ⟨room5, als5, sr5, sw5⟩ := hstk.f5 (by omega)
  replace hrp := Hide.mk hrp; replace hrs := Hide.mk hrs; replace hts := Hide.mk hts; replace hps := Hide.mk hps
  simp only [X86.Disjoint, OffStack] at hrp hrs hts hps
  clear ht hp hr hstk
  x86_sym [sub8x3_toNat, sub8x4_toNat, sub8x5_toNat, mulLo_fold, mulHi_fold, logic, BitVec.xor_self, ← hp0, ← hp1, ← hp2, ← hp3, ← hp4, ← hp5, ← hx10, ← hm107l, ← hm107h, ← hm108l, ← hm108h, ← ht109, ← hm110l, ← hm110h, ← ht111, ← ht112, ← hm113l, ← hm113h, ← ht114, ← ht115, ← hm116l, ← hm116h, ← ht117, ← ht118, ← hm119l, ← hm119h, ← ht120, ← ht121, ← hm122l, ← hm122h, ← ht123, ← ht124, ← ht125, ← ht126, ← hq127, ← ht128]

set_option maxHeartbeats 1600000 in
theorem montx_part5 (s : State) (pr pt pp inv : Word)
    (hr : Buf s pr 6 true) (ht : Buf s pt 12 false) (hp : Buf s pp 6 false)
    (hrp : X86.Disjoint pr 6 pp 6) (hstk : Stack s 5)
    (hrs : OffStack s 5 pr 6) (hts : OffStack s 5 pt 12) (hps : OffStack s 5 pp 6) {p0 p1 p2 p3 p4 p5 x11 m107l m119h m130l m131h m131l m133h m133l m136h m136l m139h m139l m142h m142l m145h m145l : Word} {t112 t115 t118 t121 t123 t124 t126 t128 t132 t134 t135 t137 t138 t140 t141 t143 t144 t146 t147 t148 t149 : ArithRes}
    (hp0 : p0 = s.mem (pp.toNat + 0)) (hp1 : p1 = s.mem (pp.toNat + 8)) (hp2 : p2 = s.mem (pp.toNat + 16))
    (hp3 : p3 = s.mem (pp.toNat + 24)) (hp4 : p4 = s.mem (pp.toNat + 32)) (hp5 : p5 = s.mem (pp.toNat + 40))
    (hx11 : x11 = s.mem (pt.toNat + 88)) (hm130l : m130l = mulLo inv t112.val) (hm130h : m130h = mulHi inv t112.val)
    (hm131l : m131l = mulLo m130l p0) (hm131h : m131h = mulHi m130l p0) (ht132 : t132 = addc .q t112.val m131l t128.cf)
    (hm133l : m133l = mulLo m130l p1) (hm133h : m133h = mulHi m130l p1) (ht134 : t134 = addc .q m133l m131h t128.of)
    (ht135 : t135 = addc .q t115.val t134.val t132.cf) (hm136l : m136l = mulLo m130l p2) (hm136h : m136h = mulHi m130l p2)
    (ht137 : t137 = addc .q m136l m133h t134.cf) (ht138 : t138 = addc .q t118.val t137.val t135.cf)
    (hm139l : m139l = mulLo m130l p3) (hm139h : m139h = mulHi m130l p3) (ht140 : t140 = addc .q m139l m136h t137.cf)
    (ht141 : t141 = addc .q t121.val t140.val t138.cf) (hm142l : m142l = mulLo m130l p4) (hm142h : m142h = mulHi m130l p4)
    (ht143 : t143 = addc .q m142l m139h t140.cf) (ht144 : t144 = addc .q t124.val t143.val t141.cf)
    (hm145l : m145l = mulLo m130l p5) (hm145h : m145h = mulHi m130l p5) (ht146 : t146 = addc .q m145l m142h t143.cf)
    (ht147 : t147 = addc .q t126.val t146.val t144.cf) (ht148 : t148 = addc .q m145h x11 t146.cf)
    (ht149 : t149 = addc .q t148.val t128.val t147.cf) :
    run embedded_pairing_core_arch_x86_64_bmi2_adx_fpbase_384_montgomery_reduce ({ rax := t123.val, rcx := m119h, rdx := m107l, rbx := t128.val, rsp := s.rsp - 8 - 8 - 8 - 8 - 8, rbp := pp, rsi := pt, rdi := pr, r8 := t112.val, r9 := inv, r10 := t115.val, r11 := t118.val, r12 := t121.val, r13 := t124.val, r14 := t126.val, r15 := s.r15, cf := some t128.cf, zf := some t128.zf, sf := some t128.sf, of := some t128.of, mem := setMem (setMem (setMem (setMem (setMem (s.mem) (s.rsp.toNat - 8) s.rbp) (s.rsp.toNat - 8 - 8) s.rbx) (s.rsp.toNat - 8 - 8 - 8) s.r12) (s.rsp.toNat - 8 - 8 - 8 - 8) s.r13) (s.rsp.toNat - 8 - 8 - 8 - 8 - 8) s.r14, readable := s.readable, writable := s.writable, cpuidFn := s.cpuidFn, pc := 129, status := .running } : State) 21
      = ({ rax := t146.val, rcx := m142h, rdx := m130l, rbx := t128.val, rsp := s.rsp - 8 - 8 - 8 - 8 - 8, rbp := pp, rsi := pt, rdi := pr, r8 := t149.val, r9 := inv, r10 := t135.val, r11 := t138.val, r12 := t141.val, r13 := t144.val, r14 := t147.val, r15 := s.r15, cf := some t149.cf, zf := some t149.zf, sf := some t149.sf, of := some t149.of, mem := setMem (setMem (setMem (setMem (setMem (s.mem) (s.rsp.toNat - 8) s.rbp) (s.rsp.toNat - 8 - 8) s.rbx) (s.rsp.toNat - 8 - 8 - 8) s.r12) (s.rsp.toNat - 8 - 8 - 8 - 8) s.r13) (s.rsp.toNat - 8 - 8 - 8 - 8 - 8) s.r14, readable := s.readable, writable := s.writable, cpuidFn := s.cpuidFn, pc := 150, status := .running } : State) := by
  obtain ⟨rt0, rt1, rt2, rt3, rt4, rt5, rt6, rt7, rt8, rt9, rt10, rt11⟩ := ht.r12
  obtain ⟨⟨alrt0, alrt1, alrt2, alrt3, alrt4, alrt5, alrt6, alrt7, alrt8, alrt9, alrt10, alrt11⟩, frt0, frt1, frt2, frt3, frt4, frt5, frt6, frt7, frt8, frt9, frt10, frt11⟩ := ht.addr12
  obtain ⟨rp0, rp1, rp2, rp3, rp4, rp5⟩ := hp.r6
  obtain ⟨⟨alrp0, alrp1, alrp2, alrp3, alrp4, alrp5⟩, frp0, frp1, frp2, frp3, frp4, frp5⟩ := hp.addr6
  obtain ⟨rr0, rr1, rr2, rr3, rr4, rr5⟩ := hr.r6
  obtain ⟨wr0, wr1, wr2, wr3, wr4, wr5⟩ := hr.w6
  obtain ⟨⟨alrr0, alrr1, alrr2, alrr3, alrr4, alrr5⟩, frr0, frr1, frr2, frr3, frr4, frr5⟩ := hr.addr6
  obtain ⟨als0, rs0⟩ := hstk.f0
  obtain ⟨room1, als1, sr1, sw1⟩ := hstk.f1 (by omega)
  obtain ⟨room2, als2, sr2, sw2⟩ := hstk.f2 (by omega)
  obtain ⟨room3, als3, sr3, sw3⟩ := hstk.f3 (by omega)
  obtain ⟨room4, als4, sr4, sw4⟩ := hstk.f4 (by omega)
  obtain ⟨room5, als5, sr5, sw5⟩ := hstk.f5 (by omega)
  replace hrp := Hide.mk hrp; replace hrs := Hide.mk hrs; replace hts := Hide.mk hts; replace hps := Hide.mk hps
  simp only [X86.Disjoint, OffStack] at hrp hrs hts hps
  clear ht hp hr hstk
  x86_sym [sub8x3_toNat, sub8x4_toNat, sub8x5_toNat, mulLo_fold, mulHi_fold, logic, BitVec.xor_self, ← hp0, ← hp1, ← hp2, ← hp3, ← hp4, ← hp5, ← hx11, ← hm130l, ← hm130h, ← hm131l, ← hm131h, ← ht132, ← hm133l, ← hm133h, ← ht134, ← ht135, ← hm136l, ← hm136h, ← ht137, ← ht138, ← hm139l, ← hm139h, ← ht140, ← ht141, ← hm142l, ← hm142h, ← ht143, ← ht144, ← hm145l, ← hm145h, ← ht146, ← ht147, ← ht148, ← ht149]

set_option maxHeartbeats 1600000 in
theorem montx_tail_lt (s : State) (pr pt pp inv : Word)
    (hr : Buf s pr 6 true) (ht : Buf s pt 12 false) (hp : Buf s pp 6 false)
    (hrp : X86.Disjoint pr 6 pp 6) (hstk : Stack s 5)
    (hrs : OffStack s 5 pr 6) (hts : OffStack s 5 pt 12) (hps : OffStack s 5 pp 6) {p5 m130l m142h : Word} {t128 t135 t138 t141 t144 t146 t147 t149 t150 : ArithRes}
    (hp5 : p5 = s.mem (pp.toNat + 40)) (ht150 : t150 = subb .q t149.val p5 false) (hlt : t150.cf = true) :
    run embedded_pairing_core_arch_x86_64_bmi2_adx_fpbase_384_montgomery_reduce ({ rax := t146.val, rcx := m142h, rdx := m130l, rbx := t128.val, rsp := s.rsp - 8 - 8 - 8 - 8 - 8, rbp := pp, rsi := pt, rdi := pr, r8 := t149.val, r9 := inv, r10 := t135.val, r11 := t138.val, r12 := t141.val, r13 := t144.val, r14 := t147.val, r15 := s.r15, cf := some t149.cf, zf := some t149.zf, sf := some t149.sf, of := some t149.of, mem := setMem (setMem (setMem (setMem (setMem (s.mem) (s.rsp.toNat - 8) s.rbp) (s.rsp.toNat - 8 - 8) s.rbx) (s.rsp.toNat - 8 - 8 - 8) s.r12) (s.rsp.toNat - 8 - 8 - 8 - 8) s.r13) (s.rsp.toNat - 8 - 8 - 8 - 8 - 8) s.r14, readable := s.readable, writable := s.writable, cpuidFn := s.cpuidFn, pc := 150, status := .running } : State) 14
      = ({ rax := t146.val, rcx := m142h, rdx := m130l, rbx := s.rbx, rsp := s.rsp + 8, rbp := s.rbp, rsi := pt, rdi := pr, r8 := t149.val, r9 := inv, r10 := t135.val, r11 := t138.val, r12 := s.r12, r13 := s.r13, r14 := s.r14, r15 := s.r15, cf := some t150.cf, zf := some t150.zf, sf := some t150.sf, of := some t150.of, mem := setMem (setMem (setMem (setMem (setMem (setMem (setMem (setMem (setMem (setMem (setMem (s.mem) (s.rsp.toNat - 8) s.rbp) (s.rsp.toNat - 8 - 8) s.rbx) (s.rsp.toNat - 8 - 8 - 8) s.r12) (s.rsp.toNat - 8 - 8 - 8 - 8) s.r13) (s.rsp.toNat - 8 - 8 - 8 - 8 - 8) s.r14) (pr.toNat + 0) t135.val) (pr.toNat + 8) t138.val) (pr.toNat + 16) t141.val) (pr.toNat + 24) t144.val) (pr.toNat + 32) t147.val) (pr.toNat + 40) t149.val, readable := s.readable, writable := s.writable, cpuidFn := s.cpuidFn, pc := (s.mem s.rsp.toNat).toNat, status := .halted } : State) := by
  obtain ⟨rt0, rt1, rt2, rt3, rt4, rt5, rt6, rt7, rt8, rt9, rt10, rt11⟩ := ht.r12
  obtain ⟨⟨alrt0, alrt1, alrt2, alrt3, alrt4, alrt5, alrt6, alrt7, alrt8, alrt9, alrt10, alrt11⟩, frt0, frt1, frt2, frt3, frt4, frt5, frt6, frt7, frt8, frt9, frt10, frt11⟩ := ht.addr12
  obtain ⟨rp0, rp1, rp2, rp3, rp4, rp5⟩ := hp.r6
  obtain ⟨⟨alrp0, alrp1, alrp2, alrp3, alrp4, alrp5⟩, frp0, frp1, frp2, frp3, frp4, frp5⟩ := hp.addr6
  obtain ⟨rr0, rr1, rr2, rr3, rr4, rr5⟩ := hr.r6
  obtain ⟨wr0, wr1, wr2, wr3, wr4, wr5⟩ := hr.w6
  obtain ⟨⟨alrr0, alrr1, alrr2, alrr3, alrr4, alrr5⟩, frr0, frr1, frr2, frr3, frr4, frr5⟩ := hr.addr6
  obtain ⟨als0, rs0⟩ := hstk.f0
  obtain ⟨room1, als1, sr1, sw1⟩ := hstk.f1 (by omega)
  obtain ⟨room2, als2, sr2, sw2⟩ := hstk.f2 (by omega)
  obtain ⟨room3, als3, sr3, sw3⟩ := hstk.f3 (by omega)
  obtain ⟨room4, als4, sr4, sw4⟩ := hstk.f4 (by omega)
  obtain ⟨room5, als5, sr5, sw5⟩ := hstk.f5 (by omega)
  replace hrp := Hide.mk hrp; replace hrs := Hide.mk hrs; replace hts := Hide.mk hts; replace hps := Hide.mk hps
  simp only [X86.Disjoint, OffStack] at hrp hrs hts hps
  clear ht hp hr hstk
  x86_sym [sub8x3_toNat, sub8x4_toNat, sub8x5_toNat, mulLo_fold, mulHi_fold, logic, BitVec.xor_self, ← hp5, ← ht150, hlt]

set_option maxHeartbeats 1600000 in
theorem montx_tail_gt (s : State) (pr pt pp inv : Word)
    (hr : Buf s pr 6 true) (ht : Buf s pt 12 false) (hp : Buf s pp 6 false)
    (hrp : X86.Disjoint pr 6 pp 6) (hstk : Stack s 5)
    (hrs : OffStack s 5 pr 6) (hts : OffStack s 5 pt 12) (hps : OffStack s 5 pp 6) {p0 p1 p2 p3 p4 p5 m130l m142h : Word} {t128 t135 t138 t141 t144 t146 t147 t149 t153 t155 t157 t159 t161 t163 : ArithRes}
    (hp0 : p0 = s.mem (pp.toNat + 0)) (hp1 : p1 = s.mem (pp.toNat + 8)) (hp2 : p2 = s.mem (pp.toNat + 16))
    (hp3 : p3 = s.mem (pp.toNat + 24)) (hp4 : p4 = s.mem (pp.toNat + 32)) (hp5 : p5 = s.mem (pp.toNat + 40))
    (ht150 : t150 = subb .q t149.val p5 false) (ht153 : t153 = subb .q t135.val p0 false)
    (ht155 : t155 = subb .q t138.val p1 t153.cf) (ht157 : t157 = subb .q t141.val p2 t155.cf)
    (ht159 : t159 = subb .q t144.val p3 t157.cf) (ht161 : t161 = subb .q t147.val p4 t159.cf)
    (ht163 : t163 = subb .q t149.val p5 t161.cf) (hlt : t150.cf = false) (hz : t150.zf = false) :
    run embedded_pairing_core_arch_x86_64_bmi2_adx_fpbase_384_montgomery_reduce ({ rax := t146.val, rcx := m142h, rdx := m130l, rbx := t128.val, rsp := s.rsp - 8 - 8 - 8 - 8 - 8, rbp := pp, rsi := pt, rdi := pr, r8 := t149.val, r9 := inv, r10 := t135.val, r11 := t138.val, r12 := t141.val, r13 := t144.val, r14 := t147.val, r15 := s.r15, cf := some t149.cf, zf := some t149.zf, sf := some t149.sf, of := some t149.of, mem := setMem (setMem (setMem (setMem (setMem (s.mem) (s.rsp.toNat - 8) s.rbp) (s.rsp.toNat - 8 - 8) s.rbx) (s.rsp.toNat - 8 - 8 - 8) s.r12) (s.rsp.toNat - 8 - 8 - 8 - 8) s.r13) (s.rsp.toNat - 8 - 8 - 8 - 8 - 8) s.r14, readable := s.readable, writable := s.writable, cpuidFn := s.cpuidFn, pc := 150, status := .running } : State) 21
      = ({ rax := t146.val, rcx := m142h, rdx := m130l, rbx := s.rbx, rsp := s.rsp + 8, rbp := s.rbp, rsi := pt, rdi := pr, r8 := t163.val, r9 := inv, r10 := t153.val, r11 := t155.val, r12 := s.r12, r13 := s.r13, r14 := s.r14, r15 := s.r15, cf := some t163.cf, zf := some t163.zf, sf := some t163.sf, of := some t163.of, mem := setMem (setMem (setMem (setMem (setMem (setMem (setMem (setMem (setMem (setMem (setMem (s.mem) (s.rsp.toNat - 8) s.rbp) (s.rsp.toNat - 8 - 8) s.rbx) (s.rsp.toNat - 8 - 8 - 8) s.r12) (s.rsp.toNat - 8 - 8 - 8 - 8) s.r13) (s.rsp.toNat - 8 - 8 - 8 - 8 - 8) s.r14) (pr.toNat + 0) t153.val) (pr.toNat + 8) t155.val) (pr.toNat + 16) t157.val) (pr.toNat + 24) t159.val) (pr.toNat + 32) t161.val) (pr.toNat + 40) t163.val, readable := s.readable, writable := s.writable, cpuidFn := s.cpuidFn, pc := (s.mem s.rsp.toNat).toNat, status := .halted } : State) := by
  obtain ⟨rt0, rt1, rt2, rt3, rt4, rt5, rt6, rt7, rt8, rt9, rt10, rt11⟩ := ht.r12
  obtain ⟨⟨alrt0, alrt1, alrt2, alrt3, alrt4, alrt5, alrt6, alrt7, alrt8, alrt9, alrt10, alrt11⟩, frt0, frt1, frt2, frt3, frt4, frt5, frt6, frt7, frt8, frt9, frt10, frt11⟩ := ht.addr12
  obtain ⟨rp0, rp1, rp2, rp3, rp4, rp5⟩ := hp.r6
  obtain ⟨⟨alrp0, alrp1, alrp2, alrp3, alrp4, alrp5⟩, frp0, frp1, frp2, frp3, frp4, frp5⟩ := hp.addr6
  obtain ⟨rr0, rr1, rr2, rr3, rr4, rr5⟩ := hr.r6
  obtain ⟨wr0, wr1, wr2, wr3, wr4, wr5⟩ := hr.w6
  obtain ⟨⟨alrr0, alrr1, alrr2, alrr3, alrr4, alrr5⟩, frr0, frr1, frr2, frr3, frr4, frr5⟩ := hr.addr6
  obtain ⟨als0, rs0⟩ := hstk.f0
  obtain ⟨room1, als1, sr1, sw1⟩ := hstk.f1 (by omega)
  obtain ⟨room2, als2, sr2, sw2⟩ := hstk.f2 (by omega)
  obtain ⟨room3, als3, sr3, sw3⟩ := hstk.f3 (by omega)
  obtain ⟨room4, als4, sr4, sw4⟩ := hstk.f4 (by omega)
  obtain ⟨room5, als5, sr5, sw5⟩ := hstk.f5 (by omega)
  replace hrp := Hide.mk hrp; replace hrs := Hide.mk hrs; replace hts := Hide.mk hts; replace hps := Hide.mk hps
  simp only [X86.Disjoint, OffStack] at hrp hrs hts hps
  clear ht hp hr hstk
  x86_sym [sub8x3_toNat, sub8x4_toNat, sub8x5_toNat, mulLo_fold, mulHi_fold, logic, BitVec.xor_self, ← hp0, ← hp1, ← hp2, ← hp3, ← hp4, ← hp5, ← ht150, ← ht153, ← ht155, ← ht157, ← ht159, ← ht161, ← ht163, hlt, hz]

set_option maxHeartbeats 1600000 in
theorem montx_tail_eqb (s : State) (pr pt pp inv : Word)
    (hr : Buf s pr 6 true) (ht : Buf s pt 12 false) (hp : Buf s pp 6 false)
    (hrp : X86.Disjoint pr 6 pp 6) (hstk : Stack s 5)
    (hrs : OffStack s 5 pr 6) (hts : OffStack s 5 pt 12) (hps : OffStack s 5 pp 6) {p0 p1 p2 p3 p4 p5 m130l m142h : Word} {t128 t135 t138 t141 t144 t146 t147 t149 t172 t174 t176 t178 t180 t182 : ArithRes}
    (hp0 : p0 = s.mem (pp.toNat + 0)) (hp1 : p1 = s.mem (pp.toNat + 8)) (hp2 : p2 = s.mem (pp.toNat + 16))
    (hp3 : p3 = s.mem (pp.toNat + 24)) (hp4 : p4 = s.mem (pp.toNat + 32)) (hp5 : p5 = s.mem (pp.toNat + 40))
    (ht150 : t150 = subb .q t149.val p5 false) (ht172 : t172 = subb .q t135.val p0 false)
    (ht174 : t174 = subb .q t138.val p1 t172.cf) (ht176 : t176 = subb .q t141.val p2 t174.cf)
    (ht178 : t178 = subb .q t144.val p3 t176.cf) (ht180 : t180 = subb .q t147.val p4 t178.cf)
    (ht182 : t182 = subb .q t149.val p5 t180.cf) (hlt : t150.cf = false) (hz : t150.zf = true) (hbw : t182.cf = true) :
    run embedded_pairing_core_arch_x86_64_bmi2_adx_fpbase_384_montgomery_reduce ({ rax := t146.val, rcx := m142h, rdx := m130l, rbx := t128.val, rsp := s.rsp - 8 - 8 - 8 - 8 - 8, rbp := pp, rsi := pt, rdi := pr, r8 := t149.val, r9 := inv, r10 := t135.val, r11 := t138.val, r12 := t141.val, r13 := t144.val, r14 := t147.val, r15 := s.r15, cf := some t149.cf, zf := some t149.zf, sf := some t149.sf, of := some t149.of, mem := setMem (setMem (setMem (setMem (setMem (s.mem) (s.rsp.toNat - 8) s.rbp) (s.rsp.toNat - 8 - 8) s.rbx) (s.rsp.toNat - 8 - 8 - 8) s.r12) (s.rsp.toNat - 8 - 8 - 8 - 8) s.r13) (s.rsp.toNat - 8 - 8 - 8 - 8 - 8) s.r14, readable := s.readable, writable := s.writable, cpuidFn := s.cpuidFn, pc := 150, status := .running } : State) 22
      = ({ rax := t146.val, rcx := m142h, rdx := m130l, rbx := s.rbx, rsp := s.rsp + 8, rbp := s.rbp, rsi := pt, rdi := pr, r8 := t182.val, r9 := inv, r10 := t172.val, r11 := t174.val, r12 := s.r12, r13 := s.r13, r14 := s.r14, r15 := s.r15, cf := some t182.cf, zf := some t182.zf, sf := some t182.sf, of := some t182.of, mem := setMem (setMem (setMem (setMem (setMem (setMem (setMem (setMem (setMem (setMem (setMem (s.mem) (s.rsp.toNat - 8) s.rbp) (s.rsp.toNat - 8 - 8) s.rbx) (s.rsp.toNat - 8 - 8 - 8) s.r12) (s.rsp.toNat - 8 - 8 - 8 - 8) s.r13) (s.rsp.toNat - 8 - 8 - 8 - 8 - 8) s.r14) (pr.toNat + 0) t135.val) (pr.toNat + 8) t138.val) (pr.toNat + 16) t141.val) (pr.toNat + 24) t144.val) (pr.toNat + 32) t147.val) (pr.toNat + 40) t149.val, readable := s.readable, writable := s.writable, cpuidFn := s.cpuidFn, pc := (s.mem s.rsp.toNat).toNat, status := .halted } : State) := by
  obtain ⟨rt0, rt1, rt2, rt3, rt4, rt5, rt6, rt7, rt8, rt9, rt10, rt11⟩ := ht.r12
  obtain ⟨⟨alrt0, alrt1, alrt2, alrt3, alrt4, alrt5, alrt6, alrt7, alrt8, alrt9, alrt10, alrt11⟩, frt0, frt1, frt2, frt3, frt4, frt5, frt6, frt7, frt8, frt9, frt10, frt11⟩ := ht.addr12
  obtain ⟨rp0, rp1, rp2, rp3, rp4, rp5⟩ := hp.r6
  obtain ⟨⟨alrp0, alrp1, alrp2, alrp3, alrp4, alrp5⟩, frp0, frp1, frp2, frp3, frp4, frp5⟩ := hp.addr6
  obtain ⟨rr0, rr1, rr2, rr3, rr4, rr5⟩ := hr.r6
  obtain ⟨wr0, wr1, wr2, wr3, wr4, wr5⟩ := hr.w6
  obtain ⟨⟨alrr0, alrr1, alrr2, alrr3, alrr4, alrr5⟩, frr0, frr1, frr2, frr3, frr4, frr5⟩ := hr.addr6
  obtain ⟨als0, rs0⟩ := hstk.f0
  obtain ⟨room1, als1, sr1, sw1⟩ := hstk.f1 (by omega)
  obtain ⟨room2, als2, sr2, sw2⟩ := hstk.f2 (by omega)
  obtain ⟨room3, als3, sr3, sw3⟩ := hstk.f3 (by omega)
  obtain ⟨room4, als4, sr4, sw4⟩ := hstk.f4 (by omega)
  obtain ⟨room5, als5, sr5, sw5⟩ := hstk.f5 (by omega)
  replace hrp := Hide.mk hrp; replace hrs := Hide.mk hrs; replace hts := Hide.mk hts; replace hps := Hide.mk hps
  simp only [X86.Disjoint, OffStack] at hrp hrs hts hps
  clear ht hp hr hstk
  x86_sym [sub8x3_toNat, sub8x4_toNat, sub8x5_toNat, mulLo_fold, mulHi_fold, logic, BitVec.xor_self, ← hp0, ← hp1, ← hp2, ← hp3, ← hp4, ← hp5, ← ht150, ← ht172, ← ht174, ← ht176, ← ht178, ← ht180, ← ht182, hlt, hz, hbw]

set_option maxHeartbeats 1600000 in
theorem montx_tail_eqn (s : State) (pr pt pp inv : Word)
    (hr : Buf s pr 6 true) (ht : Buf s pt 12 false) (hp : Buf s pp 6 false)
    (hrp : X86.Disjoint pr 6 pp 6) (hstk : Stack s 5)
    (hrs : OffStack s 5 pr 6) (hts : OffStack s 5 pt 12) (hps : OffStack s 5 pp 6) {p0 p1 p2 p3 p4 p5 m130l m142h : Word} {t128 t135 t138 t141 t144 t146 t147 t149 t172 t174 t176 t178 t180 t182 : ArithRes}
    (hp0 : p0 = s.mem (pp.toNat + 0)) (hp1 : p1 = s.mem (pp.toNat + 8)) (hp2 : p2 = s.mem (pp.toNat + 16))
    (hp3 : p3 = s.mem (pp.toNat + 24)) (hp4 : p4 = s.mem (pp.toNat + 32)) (hp5 : p5 = s.mem (pp.toNat + 40))
    (ht150 : t150 = subb .q t149.val p5 false) (ht172 : t172 = subb .q t135.val p0 false)
    (ht174 : t174 = subb .q t138.val p1 t172.cf) (ht176 : t176 = subb .q t141.val p2 t174.cf)
    (ht178 : t178 = subb .q t144.val p3 t176.cf) (ht180 : t180 = subb .q t147.val p4 t178.cf)
    (ht182 : t182 = subb .q t149.val p5 t180.cf) (hlt : t150.cf = false) (hz : t150.zf = true) (hbw : t182.cf = false) :
    run embedded_pairing_core_arch_x86_64_bmi2_adx_fpbase_384_montgomery_reduce ({ rax := t146.val, rcx := m142h, rdx := m130l, rbx := t128.val, rsp := s.rsp - 8 - 8 - 8 - 8 - 8, rbp := pp, rsi := pt, rdi := pr, r8 := t149.val, r9 := inv, r10 := t135.val, r11 := t138.val, r12 := t141.val, r13 := t144.val, r14 := t147.val, r15 := s.r15, cf := some t149.cf, zf := some t149.zf, sf := some t149.sf, of := some t149.of, mem := setMem (setMem (setMem (setMem (setMem (s.mem) (s.rsp.toNat - 8) s.rbp) (s.rsp.toNat - 8 - 8) s.rbx) (s.rsp.toNat - 8 - 8 - 8) s.r12) (s.rsp.toNat - 8 - 8 - 8 - 8) s.r13) (s.rsp.toNat - 8 - 8 - 8 - 8 - 8) s.r14, readable := s.readable, writable := s.writable, cpuidFn := s.cpuidFn, pc := 150, status := .running } : State) 28
      = ({ rax := t146.val, rcx := m142h, rdx := m130l, rbx := s.rbx, rsp := s.rsp + 8, rbp := s.rbp, rsi := pt, rdi := pr, r8 := t182.val, r9 := inv, r10 := t172.val, r11 := t174.val, r12 := s.r12, r13 := s.r13, r14 := s.r14, r15 := s.r15, cf := some t182.cf, zf := some t182.zf, sf := some t182.sf, of := some t182.of, mem := setMem (setMem (setMem (setMem (setMem (setMem (setMem (setMem (setMem (setMem (setMem (setMem (setMem (setMem (setMem (setMem (setMem (s.mem) (s.rsp.toNat - 8) s.rbp) (s.rsp.toNat - 8 - 8) s.rbx) (s.rsp.toNat - 8 - 8 - 8) s.r12) (s.rsp.toNat - 8 - 8 - 8 - 8) s.r13) (s.rsp.toNat - 8 - 8 - 8 - 8 - 8) s.r14) (pr.toNat + 0) t135.val) (pr.toNat + 8) t138.val) (pr.toNat + 16) t141.val) (pr.toNat + 24) t144.val) (pr.toNat + 32) t147.val) (pr.toNat + 40) t149.val) (pr.toNat + 0) t172.val) (pr.toNat + 8) t174.val) (pr.toNat + 16) t176.val) (pr.toNat + 24) t178.val) (pr.toNat + 32) t180.val) (pr.toNat + 40) t182.val, readable := s.readable, writable := s.writable, cpuidFn := s.cpuidFn, pc := (s.mem s.rsp.toNat).toNat, status := .halted } : State) := by
  obtain ⟨rt0, rt1, rt2, rt3, rt4, rt5, rt6, rt7, rt8, rt9, rt10, rt11⟩ := ht.r12
  obtain ⟨⟨alrt0, alrt1, alrt2, alrt3, alrt4, alrt5, alrt6, alrt7, alrt8, alrt9, alrt10, alrt11⟩, frt0, frt1, frt2, frt3, frt4, frt5, frt6, frt7, frt8, frt9, frt10, frt11⟩ := ht.addr12
  obtain ⟨rp0, rp1, rp2, rp3, rp4, rp5⟩ := hp.r6
  obtain ⟨⟨alrp0, alrp1, alrp2, alrp3, alrp4, alrp5⟩, frp0, frp1, frp2, frp3, frp4, frp5⟩ := hp.addr6
  obtain ⟨rr0, rr1, rr2, rr3, rr4, rr5⟩ := hr.r6
  obtain ⟨wr0, wr1, wr2, wr3, wr4, wr5⟩ := hr.w6
  obtain ⟨⟨alrr0, alrr1, alrr2, alrr3, alrr4, alrr5⟩, frr0, frr1, frr2, frr3, frr4, frr5⟩ := hr.addr6
  obtain ⟨als0, rs0⟩ := hstk.f0
  obtain ⟨room1, als1, sr1, sw1⟩ := hstk.f1 (by omega)
  obtain ⟨room2, als2, sr2, sw2⟩ := hstk.f2 (by omega)
  obtain ⟨room3, als3, sr3, sw3⟩ := hstk.f3 (by omega)
  obtain ⟨room4, als4, sr4, sw4⟩ := hstk.f4 (by omega)
  obtain ⟨room5, als5, sr5, sw5⟩ := hstk.f5 (by omega)
  replace hrp := Hide.mk hrp; replace hrs := Hide.mk hrs; replace hts := Hide.mk hts; replace hps := Hide.mk hps
  simp only [X86.Disjoint, OffStack] at hrp hrs hts hps
  clear ht hp hr hstk
  x86_sym [sub8x3_toNat, sub8x4_toNat, sub8x5_toNat, mulLo_fold, mulHi_fold, logic, BitVec.xor_self, ← hp0, ← hp1, ← hp2, ← hp3, ← hp4, ← hp5, ← ht150, ← ht172, ← ht174, ← ht176, ← ht178, ← ht180, ← ht182, hlt, hz, hbw]


/-! ## the theorem -/

set_option maxHeartbeats 1600000 in
/-- `void bmi2_adx_fpbase_384_montgomery_reduce(res, T, p, inv)`: `res < P` and `res·2^384 ≡ T (mod P)` -/
theorem bmi2_adx_fpbase_384_montgomery_reduce_run (s : State) (pr pt pp inv : Word)
    (hst : s.status = .running) (hpc : s.pc = 0) (hdi : s.rdi = pr) (hsi : s.rsi = pt) (hdx : s.rdx = pp) (hcx : s.rcx = inv)
    (hr : Buf s pr 6 true) (ht : Buf s pt 12 false) (hp : Buf s pp 6 false)
    (hrp : X86.Disjoint pr 6 pp 6) (hstk : Stack s 5)
    (hrs : OffStack s 5 pr 6) (hts : OffStack s 5 pt 12) (hps : OffStack s 5 pp 6)
    (hinv : (inv.toNat * val (2 ^ 64) (limbs s.mem pp.toNat 6) + 1) % 2 ^ 64 = 0)
    (hT : val (2 ^ 64) (limbs s.mem pt.toNat 12) < val (2 ^ 64) (limbs s.mem pp.toNat 6) * 2 ^ 384)
    (h2P : 2 * val (2 ^ 64) (limbs s.mem pp.toNat 6) ≤ 2 ^ 384) :
    ∃ s', run embedded_pairing_core_arch_x86_64_bmi2_adx_fpbase_384_montgomery_reduce s 196 = s' ∧ Returned s s' ∧
      val (2 ^ 64) (limbs s'.mem pr.toNat 6) < val (2 ^ 64) (limbs s.mem pp.toNat 6) ∧
      (val (2 ^ 64) (limbs s'.mem pr.toNat 6) * 2 ^ 384) % val (2 ^ 64) (limbs s.mem pp.toNat 6)
        = val (2 ^ 64) (limbs s.mem pt.toNat 12) % val (2 ^ 64) (limbs s.mem pp.toNat 6) ∧
      (∀ k, ¬(pr.toNat ≤ k ∧ k < pr.toNat + 48) → ¬(s.rsp.toNat - 40 ≤ k ∧ k < s.rsp.toNat) → s'.mem k = s.mem k) := by
  simp only [limbs_six, limbs_twelve] at hinv hT h2P ⊢
  obtain ⟨x0, hx0⟩ : ∃ x, x = s.mem (pt.toNat + 0) := ⟨_, rfl⟩
  obtain ⟨x1, hx1⟩ : ∃ x, x = s.mem (pt.toNat + 8) := ⟨_, rfl⟩
  obtain ⟨x2, hx2⟩ : ∃ x, x = s.mem (pt.toNat + 16) := ⟨_, rfl⟩
  obtain ⟨x3, hx3⟩ : ∃ x, x = s.mem (pt.toNat + 24) := ⟨_, rfl⟩
  obtain ⟨x4, hx4⟩ : ∃ x, x = s.mem (pt.toNat + 32) := ⟨_, rfl⟩
  obtain ⟨x5, hx5⟩ : ∃ x, x = s.mem (pt.toNat + 40) := ⟨_, rfl⟩
  obtain ⟨x6, hx6⟩ : ∃ x, x = s.mem (pt.toNat + 48) := ⟨_, rfl⟩
  obtain ⟨x7, hx7⟩ : ∃ x, x = s.mem (pt.toNat + 56) := ⟨_, rfl⟩
  obtain ⟨x8, hx8⟩ : ∃ x, x = s.mem (pt.toNat + 64) := ⟨_, rfl⟩
  obtain ⟨x9, hx9⟩ : ∃ x, x = s.mem (pt.toNat + 72) := ⟨_, rfl⟩
  obtain ⟨x10, hx10⟩ : ∃ x, x = s.mem (pt.toNat + 80) := ⟨_, rfl⟩
  obtain ⟨x11, hx11⟩ : ∃ x, x = s.mem (pt.toNat + 88) := ⟨_, rfl⟩
  obtain ⟨p0, hp0⟩ : ∃ x, x = s.mem (pp.toNat + 0) := ⟨_, rfl⟩
  obtain ⟨p1, hp1⟩ : ∃ x, x = s.mem (pp.toNat + 8) := ⟨_, rfl⟩
  obtain ⟨p2, hp2⟩ : ∃ x, x = s.mem (pp.toNat + 16) := ⟨_, rfl⟩
  obtain ⟨p3, hp3⟩ : ∃ x, x = s.mem (pp.toNat + 24) := ⟨_, rfl⟩
  obtain ⟨p4, hp4⟩ : ∃ x, x = s.mem (pp.toNat + 32) := ⟨_, rfl⟩
  obtain ⟨p5, hp5⟩ : ∃ x, x = s.mem (pp.toNat + 40) := ⟨_, rfl⟩
  simp only [← hx0, ← hx1, ← hx2, ← hx3, ← hx4, ← hx5, ← hx6, ← hx7, ← hx8, ← hx9, ← hx10, ← hx11, ← hp0, ← hp1, ← hp2, ← hp3, ← hp4, ← hp5] at hinv hT h2P ⊢
  obtain ⟨m15l, hm15l⟩ : ∃ x, x = mulLo inv x0 := ⟨_, rfl⟩
  obtain ⟨m15h, hm15h⟩ : ∃ x, x = mulHi inv x0 := ⟨_, rfl⟩
  obtain ⟨m16l, hm16l⟩ : ∃ x, x = mulLo m15l p0 := ⟨_, rfl⟩
  obtain ⟨m16h, hm16h⟩ : ∃ x, x = mulHi m15l p0 := ⟨_, rfl⟩
  obtain ⟨t17, ht17⟩ : ∃ x, x = addc .q x0 m16l false := ⟨_, rfl⟩
  obtain ⟨m18l, hm18l⟩ : ∃ x, x = mulLo m15l p1 := ⟨_, rfl⟩
  obtain ⟨m18h, hm18h⟩ : ∃ x, x = mulHi m15l p1 := ⟨_, rfl⟩
  obtain ⟨t19, ht19⟩ : ∃ x, x = addc .q m18l m16h false := ⟨_, rfl⟩
  obtain ⟨t20, ht20⟩ : ∃ x, x = addc .q x1 t19.val t17.cf := ⟨_, rfl⟩
  obtain ⟨m21l, hm21l⟩ : ∃ x, x = mulLo m15l p2 := ⟨_, rfl⟩
  obtain ⟨m21h, hm21h⟩ : ∃ x, x = mulHi m15l p2 := ⟨_, rfl⟩
  obtain ⟨t22, ht22⟩ : ∃ x, x = addc .q m21l m18h t19.cf := ⟨_, rfl⟩
  obtain ⟨t23, ht23⟩ : ∃ x, x = addc .q x2 t22.val t20.cf := ⟨_, rfl⟩
  obtain ⟨m24l, hm24l⟩ : ∃ x, x = mulLo m15l p3 := ⟨_, rfl⟩
  obtain ⟨m24h, hm24h⟩ : ∃ x, x = mulHi m15l p3 := ⟨_, rfl⟩
  obtain ⟨t25, ht25⟩ : ∃ x, x = addc .q m24l m21h t22.cf := ⟨_, rfl⟩
  obtain ⟨t26, ht26⟩ : ∃ x, x = addc .q x3 t25.val t23.cf := ⟨_, rfl⟩
  obtain ⟨m27l, hm27l⟩ : ∃ x, x = mulLo m15l p4 := ⟨_, rfl⟩
  obtain ⟨m27h, hm27h⟩ : ∃ x, x = mulHi m15l p4 := ⟨_, rfl⟩
  obtain ⟨t28, ht28⟩ : ∃ x, x = addc .q m27l m24h t25.cf := ⟨_, rfl⟩
  obtain ⟨t29, ht29⟩ : ∃ x, x = addc .q x4 t28.val t26.cf := ⟨_, rfl⟩
  obtain ⟨m30l, hm30l⟩ : ∃ x, x = mulLo m15l p5 := ⟨_, rfl⟩
  obtain ⟨m30h, hm30h⟩ : ∃ x, x = mulHi m15l p5 := ⟨_, rfl⟩
  obtain ⟨t31, ht31⟩ : ∃ x, x = addc .q m30l m27h t28.cf := ⟨_, rfl⟩
  obtain ⟨t32, ht32⟩ : ∃ x, x = addc .q x5 t31.val t29.cf := ⟨_, rfl⟩
  obtain ⟨t33, ht33⟩ : ∃ x, x = addc .q m30h x6 t31.cf := ⟨_, rfl⟩
  obtain ⟨t34, ht34⟩ : ∃ x, x = addc .q t33.val (0#64) t32.cf := ⟨_, rfl⟩
  obtain ⟨q35, hq35⟩ : ∃ x, x = BitVec.ofNat 64 ((0#64).toNat / 256 * 256 + t33.cf.toNat) := ⟨_, rfl⟩
  obtain ⟨t36, ht36⟩ : ∃ x, x = addc .q q35 (0#64) t34.cf := ⟨_, rfl⟩
  obtain ⟨m38l, hm38l⟩ : ∃ x, x = mulLo inv t20.val := ⟨_, rfl⟩
  obtain ⟨m38h, hm38h⟩ : ∃ x, x = mulHi inv t20.val := ⟨_, rfl⟩
  obtain ⟨m39l, hm39l⟩ : ∃ x, x = mulLo m38l p0 := ⟨_, rfl⟩
  obtain ⟨m39h, hm39h⟩ : ∃ x, x = mulHi m38l p0 := ⟨_, rfl⟩
  obtain ⟨t40, ht40⟩ : ∃ x, x = addc .q t20.val m39l t36.cf := ⟨_, rfl⟩
  obtain ⟨m41l, hm41l⟩ : ∃ x, x = mulLo m38l p1 := ⟨_, rfl⟩
  obtain ⟨m41h, hm41h⟩ : ∃ x, x = mulHi m38l p1 := ⟨_, rfl⟩
  obtain ⟨t42, ht42⟩ : ∃ x, x = addc .q m41l m39h t36.of := ⟨_, rfl⟩
  obtain ⟨t43, ht43⟩ : ∃ x, x = addc .q t23.val t42.val t40.cf := ⟨_, rfl⟩
  obtain ⟨m44l, hm44l⟩ : ∃ x, x = mulLo m38l p2 := ⟨_, rfl⟩
  obtain ⟨m44h, hm44h⟩ : ∃ x, x = mulHi m38l p2 := ⟨_, rfl⟩
  obtain ⟨t45, ht45⟩ : ∃ x, x = addc .q m44l m41h t42.cf := ⟨_, rfl⟩
  obtain ⟨t46, ht46⟩ : ∃ x, x = addc .q t26.val t45.val t43.cf := ⟨_, rfl⟩
  obtain ⟨m47l, hm47l⟩ : ∃ x, x = mulLo m38l p3 := ⟨_, rfl⟩
  obtain ⟨m47h, hm47h⟩ : ∃ x, x = mulHi m38l p3 := ⟨_, rfl⟩
  obtain ⟨t48, ht48⟩ : ∃ x, x = addc .q m47l m44h t45.cf := ⟨_, rfl⟩
  obtain ⟨t49, ht49⟩ : ∃ x, x = addc .q t29.val t48.val t46.cf := ⟨_, rfl⟩
  obtain ⟨m50l, hm50l⟩ : ∃ x, x = mulLo m38l p4 := ⟨_, rfl⟩
  obtain ⟨m50h, hm50h⟩ : ∃ x, x = mulHi m38l p4 := ⟨_, rfl⟩
  obtain ⟨t51, ht51⟩ : ∃ x, x = addc .q m50l m47h t48.cf := ⟨_, rfl⟩
  obtain ⟨t52, ht52⟩ : ∃ x, x = addc .q t32.val t51.val t49.cf := ⟨_, rfl⟩
  obtain ⟨m53l, hm53l⟩ : ∃ x, x = mulLo m38l p5 := ⟨_, rfl⟩
  obtain ⟨m53h, hm53h⟩ : ∃ x, x = mulHi m38l p5 := ⟨_, rfl⟩
  obtain ⟨t54, ht54⟩ : ∃ x, x = addc .q m53l m50h t51.cf := ⟨_, rfl⟩
  obtain ⟨t55, ht55⟩ : ∃ x, x = addc .q t34.val t54.val t52.cf := ⟨_, rfl⟩
  obtain ⟨t56, ht56⟩ : ∃ x, x = addc .q m53h x7 t54.cf := ⟨_, rfl⟩
  obtain ⟨t57, ht57⟩ : ∃ x, x = addc .q t56.val t36.val t55.cf := ⟨_, rfl⟩
  obtain ⟨q58, hq58⟩ : ∃ x, x = BitVec.ofNat 64 (t36.val.toNat / 256 * 256 + t56.cf.toNat) := ⟨_, rfl⟩
  obtain ⟨t59, ht59⟩ : ∃ x, x = addc .q q58 (0#64) t57.cf := ⟨_, rfl⟩
  obtain ⟨m61l, hm61l⟩ : ∃ x, x = mulLo inv t43.val := ⟨_, rfl⟩
  obtain ⟨m61h, hm61h⟩ : ∃ x, x = mulHi inv t43.val := ⟨_, rfl⟩
  obtain ⟨m62l, hm62l⟩ : ∃ x, x = mulLo m61l p0 := ⟨_, rfl⟩
  obtain ⟨m62h, hm62h⟩ : ∃ x, x = mulHi m61l p0 := ⟨_, rfl⟩
  obtain ⟨t63, ht63⟩ : ∃ x, x = addc .q t43.val m62l t59.cf := ⟨_, rfl⟩
  obtain ⟨m64l, hm64l⟩ : ∃ x, x = mulLo m61l p1 := ⟨_, rfl⟩
  obtain ⟨m64h, hm64h⟩ : ∃ x, x = mulHi m61l p1 := ⟨_, rfl⟩
  obtain ⟨t65, ht65⟩ : ∃ x, x = addc .q m64l m62h t59.of := ⟨_, rfl⟩
  obtain ⟨t66, ht66⟩ : ∃ x, x = addc .q t46.val t65.val t63.cf := ⟨_, rfl⟩
  obtain ⟨m67l, hm67l⟩ : ∃ x, x = mulLo m61l p2 := ⟨_, rfl⟩
  obtain ⟨m67h, hm67h⟩ : ∃ x, x = mulHi m61l p2 := ⟨_, rfl⟩
  obtain ⟨t68, ht68⟩ : ∃ x, x = addc .q m67l m64h t65.cf := ⟨_, rfl⟩
  obtain ⟨t69, ht69⟩ : ∃ x, x = addc .q t49.val t68.val t66.cf := ⟨_, rfl⟩
  obtain ⟨m70l, hm70l⟩ : ∃ x, x = mulLo m61l p3 := ⟨_, rfl⟩
  obtain ⟨m70h, hm70h⟩ : ∃ x, x = mulHi m61l p3 := ⟨_, rfl⟩
  obtain ⟨t71, ht71⟩ : ∃ x, x = addc .q m70l m67h t68.cf := ⟨_, rfl⟩
  obtain ⟨t72, ht72⟩ : ∃ x, x = addc .q t52.val t71.val t69.cf := ⟨_, rfl⟩
  obtain ⟨m73l, hm73l⟩ : ∃ x, x = mulLo m61l p4 := ⟨_, rfl⟩
  obtain ⟨m73h, hm73h⟩ : ∃ x, x = mulHi m61l p4 := ⟨_, rfl⟩
  obtain ⟨t74, ht74⟩ : ∃ x, x = addc .q m73l m70h t71.cf := ⟨_, rfl⟩
  obtain ⟨t75, ht75⟩ : ∃ x, x = addc .q t55.val t74.val t72.cf := ⟨_, rfl⟩
  obtain ⟨m76l, hm76l⟩ : ∃ x, x = mulLo m61l p5 := ⟨_, rfl⟩
  obtain ⟨m76h, hm76h⟩ : ∃ x, x = mulHi m61l p5 := ⟨_, rfl⟩
  obtain ⟨t77, ht77⟩ : ∃ x, x = addc .q m76l m73h t74.cf := ⟨_, rfl⟩
  obtain ⟨t78, ht78⟩ : ∃ x, x = addc .q t57.val t77.val t75.cf := ⟨_, rfl⟩
  obtain ⟨t79, ht79⟩ : ∃ x, x = addc .q m76h x8 t77.cf := ⟨_, rfl⟩
  obtain ⟨t80, ht80⟩ : ∃ x, x = addc .q t79.val t59.val t78.cf := ⟨_, rfl⟩
  obtain ⟨q81, hq81⟩ : ∃ x, x = BitVec.ofNat 64 (t59.val.toNat / 256 * 256 + t79.cf.toNat) := ⟨_, rfl⟩
  obtain ⟨t82, ht82⟩ : ∃ x, x = addc .q q81 (0#64) t80.cf := ⟨_, rfl⟩
  obtain ⟨m84l, hm84l⟩ : ∃ x, x = mulLo inv t66.val := ⟨_, rfl⟩
  obtain ⟨m84h, hm84h⟩ : ∃ x, x = mulHi inv t66.val := ⟨_, rfl⟩
  obtain ⟨m85l, hm85l⟩ : ∃ x, x = mulLo m84l p0 := ⟨_, rfl⟩
  obtain ⟨m85h, hm85h⟩ : ∃ x, x = mulHi m84l p0 := ⟨_, rfl⟩
  obtain ⟨t86, ht86⟩ : ∃ x, x = addc .q t66.val m85l t82.cf := ⟨_, rfl⟩
  obtain ⟨m87l, hm87l⟩ : ∃ x, x = mulLo m84l p1 := ⟨_, rfl⟩
  obtain ⟨m87h, hm87h⟩ : ∃ x, x = mulHi m84l p1 := ⟨_, rfl⟩
  obtain ⟨t88, ht88⟩ : ∃ x, x = addc .q m87l m85h t82.of := ⟨_, rfl⟩
  obtain ⟨t89, ht89⟩ : ∃ x, x = addc .q t69.val t88.val t86.cf := ⟨_, rfl⟩
  obtain ⟨m90l, hm90l⟩ : ∃ x, x = mulLo m84l p2 := ⟨_, rfl⟩
  obtain ⟨m90h, hm90h⟩ : ∃ x, x = mulHi m84l p2 := ⟨_, rfl⟩
  obtain ⟨t91, ht91⟩ : ∃ x, x = addc .q m90l m87h t88.cf := ⟨_, rfl⟩
  obtain ⟨t92, ht92⟩ : ∃ x, x = addc .q t72.val t91.val t89.cf := ⟨_, rfl⟩
  obtain ⟨m93l, hm93l⟩ : ∃ x, x = mulLo m84l p3 := ⟨_, rfl⟩
  obtain ⟨m93h, hm93h⟩ : ∃ x, x = mulHi m84l p3 := ⟨_, rfl⟩
  obtain ⟨t94, ht94⟩ : ∃ x, x = addc .q m93l m90h t91.cf := ⟨_, rfl⟩
  obtain ⟨t95, ht95⟩ : ∃ x, x = addc .q t75.val t94.val t92.cf := ⟨_, rfl⟩
  obtain ⟨m96l, hm96l⟩ : ∃ x, x = mulLo m84l p4 := ⟨_, rfl⟩
  obtain ⟨m96h, hm96h⟩ : ∃ x, x = mulHi m84l p4 := ⟨_, rfl⟩
  obtain ⟨t97, ht97⟩ : ∃ x, x = addc .q m96l m93h t94.cf := ⟨_, rfl⟩
  obtain ⟨t98, ht98⟩ : ∃ x, x = addc .q t78.val t97.val t95.cf := ⟨_, rfl⟩
  obtain ⟨m99l, hm99l⟩ : ∃ x, x = mulLo m84l p5 := ⟨_, rfl⟩
  obtain ⟨m99h, hm99h⟩ : ∃ x, x = mulHi m84l p5 := ⟨_, rfl⟩
  obtain ⟨t100, ht100⟩ : ∃ x, x = addc .q m99l m96h t97.cf := ⟨_, rfl⟩
  obtain ⟨t101, ht101⟩ : ∃ x, x = addc .q t80.val t100.val t98.cf := ⟨_, rfl⟩
  obtain ⟨t102, ht102⟩ : ∃ x, x = addc .q m99h x9 t100.cf := ⟨_, rfl⟩
  obtain ⟨t103, ht103⟩ : ∃ x, x = addc .q t102.val t82.val t101.cf := ⟨_, rfl⟩
  obtain ⟨q104, hq104⟩ : ∃ x, x = BitVec.ofNat 64 (t82.val.toNat / 256 * 256 + t102.cf.toNat) := ⟨_, rfl⟩
  obtain ⟨t105, ht105⟩ : ∃ x, x = addc .q q104 (0#64) t103.cf := ⟨_, rfl⟩
  obtain ⟨m107l, hm107l⟩ : ∃ x, x = mulLo inv t89.val := ⟨_, rfl⟩
  obtain ⟨m107h, hm107h⟩ : ∃ x, x = mulHi inv t89.val := ⟨_, rfl⟩
  obtain ⟨m108l, hm108l⟩ : ∃ x, x = mulLo m107l p0 := ⟨_, rfl⟩
  obtain ⟨m108h, hm108h⟩ : ∃ x, x = mulHi m107l p0 := ⟨_, rfl⟩
  obtain ⟨t109, ht109⟩ : ∃ x, x = addc .q t89.val m108l t105.cf := ⟨_, rfl⟩
  obtain ⟨m110l, hm110l⟩ : ∃ x, x = mulLo m107l p1 := ⟨_, rfl⟩
  obtain ⟨m110h, hm110h⟩ : ∃ x, x = mulHi m107l p1 := ⟨_, rfl⟩
  obtain ⟨t111, ht111⟩ : ∃ x, x = addc .q m110l m108h t105.of := ⟨_, rfl⟩
  obtain ⟨t112, ht112⟩ : ∃ x, x = addc .q t92.val t111.val t109.cf := ⟨_, rfl⟩
  obtain ⟨m113l, hm113l⟩ : ∃ x, x = mulLo m107l p2 := ⟨_, rfl⟩
  obtain ⟨m113h, hm113h⟩ : ∃ x, x = mulHi m107l p2 := ⟨_, rfl⟩
  obtain ⟨t114, ht114⟩ : ∃ x, x = addc .q m113l m110h t111.cf := ⟨_, rfl⟩
  obtain ⟨t115, ht115⟩ : ∃ x, x = addc .q t95.val t114.val t112.cf := ⟨_, rfl⟩
  obtain ⟨m116l, hm116l⟩ : ∃ x, x = mulLo m107l p3 := ⟨_, rfl⟩
  obtain ⟨m116h, hm116h⟩ : ∃ x, x = mulHi m107l p3 := ⟨_, rfl⟩
  obtain ⟨t117, ht117⟩ : ∃ x, x = addc .q m116l m113h t114.cf := ⟨_, rfl⟩
  obtain ⟨t118, ht118⟩ : ∃ x, x = addc .q t98.val t117.val t115.cf := ⟨_, rfl⟩
  obtain ⟨m119l, hm119l⟩ : ∃ x, x = mulLo m107l p4 := ⟨_, rfl⟩
  obtain ⟨m119h, hm119h⟩ : ∃ x, x = mulHi m107l p4 := ⟨_, rfl⟩
  obtain ⟨t120, ht120⟩ : ∃ x, x = addc .q m119l m116h t117.cf := ⟨_, rfl⟩
  obtain ⟨t121, ht121⟩ : ∃ x, x = addc .q t101.val t120.val t118.cf := ⟨_, rfl⟩
  obtain ⟨m122l, hm122l⟩ : ∃ x, x = mulLo m107l p5 := ⟨_, rfl⟩
  obtain ⟨m122h, hm122h⟩ : ∃ x, x = mulHi m107l p5 := ⟨_, rfl⟩
  obtain ⟨t123, ht123⟩ : ∃ x, x = addc .q m122l m119h t120.cf := ⟨_, rfl⟩
  obtain ⟨t124, ht124⟩ : ∃ x, x = addc .q t103.val t123.val t121.cf := ⟨_, rfl⟩
  obtain ⟨t125, ht125⟩ : ∃ x, x = addc .q m122h x10 t123.cf := ⟨_, rfl⟩
  obtain ⟨t126, ht126⟩ : ∃ x, x = addc .q t125.val t105.val t124.cf := ⟨_, rfl⟩
  obtain ⟨q127, hq127⟩ : ∃ x, x = BitVec.ofNat 64 (t105.val.toNat / 256 * 256 + t125.cf.toNat) := ⟨_, rfl⟩
  obtain ⟨t128, ht128⟩ : ∃ x, x = addc .q q127 (0#64) t126.cf := ⟨_, rfl⟩
  obtain ⟨m130l, hm130l⟩ : ∃ x, x = mulLo inv t112.val := ⟨_, rfl⟩
  obtain ⟨m130h, hm130h⟩ : ∃ x, x = mulHi inv t112.val := ⟨_, rfl⟩
  obtain ⟨m131l, hm131l⟩ : ∃ x, x = mulLo m130l p0 := ⟨_, rfl⟩
  obtain ⟨m131h, hm131h⟩ : ∃ x, x = mulHi m130l p0 := ⟨_, rfl⟩
  obtain ⟨t132, ht132⟩ : ∃ x, x = addc .q t112.val m131l t128.cf := ⟨_, rfl⟩
  obtain ⟨m133l, hm133l⟩ : ∃ x, x = mulLo m130l p1 := ⟨_, rfl⟩
  obtain ⟨m133h, hm133h⟩ : ∃ x, x = mulHi m130l p1 := ⟨_, rfl⟩
  obtain ⟨t134, ht134⟩ : ∃ x, x = addc .q m133l m131h t128.of := ⟨_, rfl⟩
  obtain ⟨t135, ht135⟩ : ∃ x, x = addc .q t115.val t134.val t132.cf := ⟨_, rfl⟩
  obtain ⟨m136l, hm136l⟩ : ∃ x, x = mulLo m130l p2 := ⟨_, rfl⟩
  obtain ⟨m136h, hm136h⟩ : ∃ x, x = mulHi m130l p2 := ⟨_, rfl⟩
  obtain ⟨t137, ht137⟩ : ∃ x, x = addc .q m136l m133h t134.cf := ⟨_, rfl⟩
  obtain ⟨t138, ht138⟩ : ∃ x, x = addc .q t118.val t137.val t135.cf := ⟨_, rfl⟩
  obtain ⟨m139l, hm139l⟩ : ∃ x, x = mulLo m130l p3 := ⟨_, rfl⟩
  obtain ⟨m139h, hm139h⟩ : ∃ x, x = mulHi m130l p3 := ⟨_, rfl⟩
  obtain ⟨t140, ht140⟩ : ∃ x, x = addc .q m139l m136h t137.cf := ⟨_, rfl⟩
  obtain ⟨t141, ht141⟩ : ∃ x, x = addc .q t121.val t140.val t138.cf := ⟨_, rfl⟩
  obtain ⟨m142l, hm142l⟩ : ∃ x, x = mulLo m130l p4 := ⟨_, rfl⟩
  obtain ⟨m142h, hm142h⟩ : ∃ x, x = mulHi m130l p4 := ⟨_, rfl⟩
  obtain ⟨t143, ht143⟩ : ∃ x, x = addc .q m142l m139h t140.cf := ⟨_, rfl⟩
  obtain ⟨t144, ht144⟩ : ∃ x, x = addc .q t124.val t143.val t141.cf := ⟨_, rfl⟩
  obtain ⟨m145l, hm145l⟩ : ∃ x, x = mulLo m130l p5 := ⟨_, rfl⟩
  obtain ⟨m145h, hm145h⟩ : ∃ x, x = mulHi m130l p5 := ⟨_, rfl⟩
  obtain ⟨t146, ht146⟩ : ∃ x, x = addc .q m145l m142h t143.cf := ⟨_, rfl⟩
  obtain ⟨t147, ht147⟩ : ∃ x, x = addc .q t126.val t146.val t144.cf := ⟨_, rfl⟩
  obtain ⟨t148, ht148⟩ : ∃ x, x = addc .q m145h x11 t146.cf := ⟨_, rfl⟩
  obtain ⟨t149, ht149⟩ : ∃ x, x = addc .q t148.val t128.val t147.cf := ⟨_, rfl⟩
  obtain ⟨t150, ht150⟩ : ∃ x, x = subb .q t149.val p5 false := ⟨_, rfl⟩
  obtain ⟨t153, ht153⟩ : ∃ x, x = subb .q t135.val p0 false := ⟨_, rfl⟩
  obtain ⟨t155, ht155⟩ : ∃ x, x = subb .q t138.val p1 t153.cf := ⟨_, rfl⟩
  obtain ⟨t157, ht157⟩ : ∃ x, x = subb .q t141.val p2 t155.cf := ⟨_, rfl⟩
  obtain ⟨t159, ht159⟩ : ∃ x, x = subb .q t144.val p3 t157.cf := ⟨_, rfl⟩
  obtain ⟨t161, ht161⟩ : ∃ x, x = subb .q t147.val p4 t159.cf := ⟨_, rfl⟩
  obtain ⟨t163, ht163⟩ : ∃ x, x = subb .q t149.val p5 t161.cf := ⟨_, rfl⟩
  obtain ⟨t172, ht172⟩ : ∃ x, x = subb .q t135.val p0 false := ⟨_, rfl⟩
  obtain ⟨t174, ht174⟩ : ∃ x, x = subb .q t138.val p1 t172.cf := ⟨_, rfl⟩
  obtain ⟨t176, ht176⟩ : ∃ x, x = subb .q t141.val p2 t174.cf := ⟨_, rfl⟩
  obtain ⟨t178, ht178⟩ : ∃ x, x = subb .q t144.val p3 t176.cf := ⟨_, rfl⟩
  obtain ⟨t180, ht180⟩ : ∃ x, x = subb .q t147.val p4 t178.cf := ⟨_, rfl⟩
  obtain ⟨t182, ht182⟩ : ∃ x, x = subb .q t149.val p5 t180.cf := ⟨_, rfl⟩
  have c0 : (false : Bool) = false := rfl
  have o0 : (false : Bool) = false := rfl
  have mc0 : (0#64 : Word).toNat ≤ 2 := by decide
  have r0 := montx_round hinv hm15l hm16l hm16h ht17 hm18l hm18h ht19 ht20 hm21l hm21h ht22 ht23 hm24l hm24h ht25 ht26 hm27l hm27h ht28 ht29 hm30l hm30h ht31 ht32 ht33 ht34 c0 o0
  obtain ⟨k0, c1, o1, mc1⟩ := montx_meta hq35 ht36 mc0
  have r1 := montx_round hinv hm38l hm39l hm39h ht40 hm41l hm41h ht42 ht43 hm44l hm44h ht45 ht46 hm47l hm47h ht48 ht49 hm50l hm50h ht51 ht52 hm53l hm53h ht54 ht55 ht56 ht57 c1 o1
  obtain ⟨k1, c2, o2, mc2⟩ := montx_meta hq58 ht59 mc1
  have r2 := montx_round hinv hm61l hm62l hm62h ht63 hm64l hm64h ht65 ht66 hm67l hm67h ht68 ht69 hm70l hm70h ht71 ht72 hm73l hm73h ht74 ht75 hm76l hm76h ht77 ht78 ht79 ht80 c2 o2
  obtain ⟨k2, c3, o3, mc3⟩ := montx_meta hq81 ht82 mc2
  have r3 := montx_round hinv hm84l hm85l hm85h ht86 hm87l hm87h ht88 ht89 hm90l hm90h ht91 ht92 hm93l hm93h ht94 ht95 hm96l hm96h ht97 ht98 hm99l hm99h ht100 ht101 ht102 ht103 c3 o3
  obtain ⟨k3, c4, o4, mc4⟩ := montx_meta hq104 ht105 mc3
  have r4 := montx_round hinv hm107l hm108l hm108h ht109 hm110l hm110h ht111 ht112 hm113l hm113h ht114 ht115 hm116l hm116h ht117 ht118 hm119l hm119h ht120 ht121 hm122l hm122h ht123 ht124 ht125 ht126 c4 o4
  obtain ⟨k4, c5, o5, mc5⟩ := montx_meta hq127 ht128 mc4
  have r5 := montx_round hinv hm130l hm131l hm131h ht132 hm133l hm133h ht134 ht135 hm136l hm136h ht137 ht138 hm139l hm139h ht140 ht141 hm142l hm142h ht143 ht144 hm145l hm145h ht146 ht147 ht148 ht149 c5 o5
  have tot : 2 ^ 384 * (val (2 ^ 64) [t135.val.toNat, t138.val.toNat, t141.val.toNat, t144.val.toNat, t147.val.toNat, t149.val.toNat] + 2 ^ 384 * (t148.cf.toNat + t149.cf.toNat))
      = val (2 ^ 64) [x0.toNat, x1.toNat, x2.toNat, x3.toNat, x4.toNat, x5.toNat, x6.toNat, x7.toNat, x8.toNat, x9.toNat, x10.toNat, x11.toNat] + val (2 ^ 64) [m15l.toNat, m38l.toNat, m61l.toNat, m84l.toNat, m107l.toNat, m130l.toNat] * val (2 ^ 64) [p0.toNat, p1.toNat, p2.toNat, p3.toNat, p4.toNat, p5.toNat] := by
    rw [← k0] at r0; rw [← k1] at r1; rw [← k2] at r2; rw [← k3] at r3; rw [← k4] at r4
    simp only [val_cons, val_nil, BitVec.toNat_ofNat, Nat.zero_mod] at r0 r1 r2 r3 r4 r5 ⊢
    linear_combination r0 + 2 ^ 64 * r1 + 2 ^ 128 * r2 + 2 ^ 192 * r3 + 2 ^ 256 * r4 + 2 ^ 320 * r5
  obtain ⟨-, hR, hE⟩ := mont_finish tot (val6_lt m15l m38l m61l m84l m107l m130l) hT h2P
  clear r0 r1 r2 r3 r4 r5 k0 k1 k2 k3 k4 tot
  obtain ⟨room1, -⟩ := hstk.f1 (by omega)
  obtain ⟨room5, -⟩ := hstk.f5 (by omega)
  cases hlt : t150.cf
  · cases hz : t150.zf
    · -- top word above the top word of P: subtract
      have hq0 := montx_part0 s pr pt pp inv hr ht hp hrp hstk hrs hts hps hst hpc hdi hsi hdx hcx (t17 := t17) (t19 := t19) (t20 := t20) (t22 := t22) (t23 := t23) (t25 := t25) (t26 := t26) (t28 := t28) (t29 := t29) (t31 := t31) (t32 := t32) (t33 := t33) (t34 := t34) (t36 := t36) (p0 := p0) (p1 := p1) (p2 := p2) (p3 := p3) (p4 := p4) (p5 := p5) (x0 := x0) (x1 := x1) (x2 := x2) (x3 := x3) (x4 := x4) (x5 := x5) (x6 := x6) (q35 := q35) (m15l := m15l) (m16h := m16h) (m16l := m16l) (m18h := m18h) (m18l := m18l) (m21h := m21h) (m21l := m21l) (m24h := m24h) (m24l := m24l) (m27h := m27h) (m27l := m27l) (m30h := m30h) (m30l := m30l) hp0 hp1 hp2 hp3 hp4 hp5 hx0 hx1 hx2 hx3 hx4 hx5 hx6 hm15l hm15h hm16l hm16h ht17 hm18l hm18h ht19 ht20 hm21l hm21h ht22 ht23 hm24l hm24h ht25 ht26 hm27l hm27h ht28 ht29 hm30l hm30h ht31 ht32 ht33 ht34 hq35 ht36
      have hq1 := montx_part1 s pr pt pp inv hr ht hp hrp hstk hrs hts hps (t20 := t20) (t23 := t23) (t26 := t26) (t29 := t29) (t31 := t31) (t32 := t32) (t34 := t34) (t36 := t36) (t40 := t40) (t42 := t42) (t43 := t43) (t45 := t45) (t46 := t46) (t48 := t48) (t49 := t49) (t51 := t51) (t52 := t52) (t54 := t54) (t55 := t55) (t56 := t56) (t57 := t57) (t59 := t59) (p0 := p0) (p1 := p1) (p2 := p2) (p3 := p3) (p4 := p4) (p5 := p5) (x7 := x7) (q58 := q58) (m15l := m15l) (m27h := m27h) (m38l := m38l) (m39h := m39h) (m39l := m39l) (m41h := m41h) (m41l := m41l) (m44h := m44h) (m44l := m44l) (m47h := m47h) (m47l := m47l) (m50h := m50h) (m50l := m50l) (m53h := m53h) (m53l := m53l) hp0 hp1 hp2 hp3 hp4 hp5 hx7 hm38l hm38h hm39l hm39h ht40 hm41l hm41h ht42 ht43 hm44l hm44h ht45 ht46 hm47l hm47h ht48 ht49 hm50l hm50h ht51 ht52 hm53l hm53h ht54 ht55 ht56 ht57 hq58 ht59
      have hq2 := montx_part2 s pr pt pp inv hr ht hp hrp hstk hrs hts hps (t43 := t43) (t46 := t46) (t49 := t49) (t52 := t52) (t54 := t54) (t55 := t55) (t57 := t57) (t59 := t59) (t63 := t63) (t65 := t65) (t66 := t66) (t68 := t68) (t69 := t69) (t71 := t71) (t72 := t72) (t74 := t74) (t75 := t75) (t77 := t77) (t78 := t78) (t79 := t79) (t80 := t80) (t82 := t82) (p0 := p0) (p1 := p1) (p2 := p2) (p3 := p3) (p4 := p4) (p5 := p5) (x8 := x8) (q81 := q81) (m38l := m38l) (m50h := m50h) (m61l := m61l) (m62h := m62h) (m62l := m62l) (m64h := m64h) (m64l := m64l) (m67h := m67h) (m67l := m67l) (m70h := m70h) (m70l := m70l) (m73h := m73h) (m73l := m73l) (m76h := m76h) (m76l := m76l) hp0 hp1 hp2 hp3 hp4 hp5 hx8 hm61l hm61h hm62l hm62h ht63 hm64l hm64h ht65 ht66 hm67l hm67h ht68 ht69 hm70l hm70h ht71 ht72 hm73l hm73h ht74 ht75 hm76l hm76h ht77 ht78 ht79 ht80 hq81 ht82
      have hq3 := montx_part3 s pr pt pp inv hr ht hp hrp hstk hrs hts hps (t66 := t66) (t69 := t69) (t72 := t72) (t75 := t75) (t77 := t77) (t78 := t78) (t80 := t80) (t82 := t82) (t86 := t86) (t88 := t88) (t89 := t89) (t91 := t91) (t92 := t92) (t94 := t94) (t95 := t95) (t97 := t97) (t98 := t98) (t100 := t100) (t101 := t101) (t102 := t102) (t103 := t103) (t105 := t105) (p0 := p0) (p1 := p1) (p2 := p2) (p3 := p3) (p4 := p4) (p5 := p5) (x9 := x9) (m61l := m61l) (m73h := m73h) (m84l := m84l) (m85h := m85h) (m85l := m85l) (m87h := m87h) (m87l := m87l) (m90h := m90h) (m90l := m90l) (m93h := m93h) (m93l := m93l) (m96h := m96h) (m96l := m96l) (m99h := m99h) (m99l := m99l) (q104 := q104) hp0 hp1 hp2 hp3 hp4 hp5 hx9 hm84l hm84h hm85l hm85h ht86 hm87l hm87h ht88 ht89 hm90l hm90h ht91 ht92 hm93l hm93h ht94 ht95 hm96l hm96h ht97 ht98 hm99l hm99h ht100 ht101 ht102 ht103 hq104 ht105
      have hq4 := montx_part4 s pr pt pp inv hr ht hp hrp hstk hrs hts hps (t89 := t89) (t92 := t92) (t95 := t95) (t98 := t98) (t100 := t100) (t101 := t101) (t103 := t103) (t105 := t105) (t109 := t109) (t111 := t111) (t112 := t112) (t114 := t114) (t115 := t115) (t117 := t117) (t118 := t118) (t120 := t120) (t121 := t121) (t123 := t123) (t124 := t124) (t125 := t125) (t126 := t126) (t128 := t128) (p0 := p0) (p1 := p1) (p2 := p2) (p3 := p3) (p4 := p4) (p5 := p5) (x10 := x10) (m84l := m84l) (m96h := m96h) (q127 := q127) (m107l := m107l) (m108h := m108h) (m108l := m108l) (m110h := m110h) (m110l := m110l) (m113h := m113h) (m113l := m113l) (m116h := m116h) (m116l := m116l) (m119h := m119h) (m119l := m119l) (m122h := m122h) (m122l := m122l) hp0 hp1 hp2 hp3 hp4 hp5 hx10 hm107l hm107h hm108l hm108h ht109 hm110l hm110h ht111 ht112 hm113l hm113h ht114 ht115 hm116l hm116h ht117 ht118 hm119l hm119h ht120 ht121 hm122l hm122h ht123 ht124 ht125 ht126 hq127 ht128
      have hq5 := montx_part5 s pr pt pp inv hr ht hp hrp hstk hrs hts hps (t112 := t112) (t115 := t115) (t118 := t118) (t121 := t121) (t123 := t123) (t124 := t124) (t126 := t126) (t128 := t128) (t132 := t132) (t134 := t134) (t135 := t135) (t137 := t137) (t138 := t138) (t140 := t140) (t141 := t141) (t143 := t143) (t144 := t144) (t146 := t146) (t147 := t147) (t148 := t148) (t149 := t149) (p0 := p0) (p1 := p1) (p2 := p2) (p3 := p3) (p4 := p4) (p5 := p5) (x11 := x11) (m107l := m107l) (m119h := m119h) (m130l := m130l) (m131h := m131h) (m131l := m131l) (m133h := m133h) (m133l := m133l) (m136h := m136h) (m136l := m136l) (m139h := m139h) (m139l := m139l) (m142h := m142h) (m142l := m142l) (m145h := m145h) (m145l := m145l) hp0 hp1 hp2 hp3 hp4 hp5 hx11 hm130l hm130h hm131l hm131h ht132 hm133l hm133h ht134 ht135 hm136l hm136h ht137 ht138 hm139l hm139h ht140 ht141 hm142l hm142h ht143 ht144 hm145l hm145h ht146 ht147 ht148 ht149
      have hq6 := montx_tail_gt s pr pt pp inv hr ht hp hrp hstk hrs hts hps (t128 := t128) (t135 := t135) (t138 := t138) (t141 := t141) (t144 := t144) (t146 := t146) (t147 := t147) (t149 := t149) (t153 := t153) (t155 := t155) (t157 := t157) (t159 := t159) (t161 := t161) (t163 := t163) (p0 := p0) (p1 := p1) (p2 := p2) (p3 := p3) (p4 := p4) (p5 := p5) (m130l := m130l) (m142h := m142h) hp0 hp1 hp2 hp3 hp4 hp5 ht150 ht153 ht155 ht157 ht159 ht161 ht163 hlt hz
      have hall : run embedded_pairing_core_arch_x86_64_bmi2_adx_fpbase_384_montgomery_reduce s 171 = _ := show run embedded_pairing_core_arch_x86_64_bmi2_adx_fpbase_384_montgomery_reduce s (37 + (23 + (23 + (23 + (23 + (21 + (21))))))) = _ from run_chain hq0 (run_chain hq1 (run_chain hq2 (run_chain hq3 (run_chain hq4 (run_chain hq5 (hq6))))))
      refine ⟨_, run_fuel hall rfl 196 (by omega), ?_⟩
      clear hq0 hq1 hq2 hq3 hq4 hq5 hq6 hall
      refine ⟨⟨rfl, ?_, ?_, ?_, ?_, ?_, ?_, ?_, ?_⟩, and_assoc.mp ⟨?_, ?_⟩⟩
      · rfl
      · rfl
      · rfl
      · rfl
      · rfl
      · rfl
      · rfl
      · rfl
      · x86_mem
        obtain ⟨loR, hloR, hRs, hRb⟩ := val6_split t135.val t138.val t141.val t144.val t147.val t149.val
        obtain ⟨loP, hloP, hPs, hPb⟩ := val6_split p0 p1 p2 p3 p4 p5
        have hlt' := subb_cf_iff t149.val p5; rw [← ht150] at hlt'
        have hz' := subb_zf_iff t149.val p5; rw [← ht150] at hz'
        have hD := sub6_val ht153 ht155 ht157 ht159 ht161 ht163
        obtain ⟨loD, hloD, hDs, hDb⟩ := val6_split t153.val t155.val t157.val t159.val t161.val t163.val
        have := Bool.toNat_le t163.cf
        simp only [hlt, hz, Bool.toNat_true, Bool.toNat_false, Bool.false_eq_true, false_iff, true_iff, Nat.not_lt, Nat.add_zero] at hlt' hz' hD
        refine mont_result hR hE (Or.inr ?_)
        omega
      · intro k hk1 hk2
        simp (disch := (clear * - hk1 hk2 room1 room5; omega)) only [setMem_ne]
    · cases hbw : t182.cf
      · -- tie, the subtraction does not borrow: the difference
        have hq0 := montx_part0 s pr pt pp inv hr ht hp hrp hstk hrs hts hps hst hpc hdi hsi hdx hcx (t17 := t17) (t19 := t19) (t20 := t20) (t22 := t22) (t23 := t23) (t25 := t25) (t26 := t26) (t28 := t28) (t29 := t29) (t31 := t31) (t32 := t32) (t33 := t33) (t34 := t34) (t36 := t36) (p0 := p0) (p1 := p1) (p2 := p2) (p3 := p3) (p4 := p4) (p5 := p5) (x0 := x0) (x1 := x1) (x2 := x2) (x3 := x3) (x4 := x4) (x5 := x5) (x6 := x6) (q35 := q35) (m15l := m15l) (m16h := m16h) (m16l := m16l) (m18h := m18h) (m18l := m18l) (m21h := m21h) (m21l := m21l) (m24h := m24h) (m24l := m24l) (m27h := m27h) (m27l := m27l) (m30h := m30h) (m30l := m30l) hp0 hp1 hp2 hp3 hp4 hp5 hx0 hx1 hx2 hx3 hx4 hx5 hx6 hm15l hm15h hm16l hm16h ht17 hm18l hm18h ht19 ht20 hm21l hm21h ht22 ht23 hm24l hm24h ht25 ht26 hm27l hm27h ht28 ht29 hm30l hm30h ht31 ht32 ht33 ht34 hq35 ht36
        have hq1 := montx_part1 s pr pt pp inv hr ht hp hrp hstk hrs hts hps (t20 := t20) (t23 := t23) (t26 := t26) (t29 := t29) (t31 := t31) (t32 := t32) (t34 := t34) (t36 := t36) (t40 := t40) (t42 := t42) (t43 := t43) (t45 := t45) (t46 := t46) (t48 := t48) (t49 := t49) (t51 := t51) (t52 := t52) (t54 := t54) (t55 := t55) (t56 := t56) (t57 := t57) (t59 := t59) (p0 := p0) (p1 := p1) (p2 := p2) (p3 := p3) (p4 := p4) (p5 := p5) (x7 := x7) (q58 := q58) (m15l := m15l) (m27h := m27h) (m38l := m38l) (m39h := m39h) (m39l := m39l) (m41h := m41h) (m41l := m41l) (m44h := m44h) (m44l := m44l) (m47h := m47h) (m47l := m47l) (m50h := m50h) (m50l := m50l) (m53h := m53h) (m53l := m53l) hp0 hp1 hp2 hp3 hp4 hp5 hx7 hm38l hm38h hm39l hm39h ht40 hm41l hm41h ht42 ht43 hm44l hm44h ht45 ht46 hm47l hm47h ht48 ht49 hm50l hm50h ht51 ht52 hm53l hm53h ht54 ht55 ht56 ht57 hq58 ht59
        have hq2 := montx_part2 s pr pt pp inv hr ht hp hrp hstk hrs hts hps (t43 := t43) (t46 := t46) (t49 := t49) (t52 := t52) (t54 := t54) (t55 := t55) (t57 := t57) (t59 := t59) (t63 := t63) (t65 := t65) (t66 := t66) (t68 := t68) (t69 := t69) (t71 := t71) (t72 := t72) (t74 := t74) (t75 := t75) (t77 := t77) (t78 := t78) (t79 := t79) (t80 := t80) (t82 := t82) (p0 := p0) (p1 := p1) (p2 := p2) (p3 := p3) (p4 := p4) (p5 := p5) (x8 := x8) (q81 := q81) (m38l := m38l) (m50h := m50h) (m61l := m61l) (m62h := m62h) (m62l := m62l) (m64h := m64h) (m64l := m64l) (m67h := m67h) (m67l := m67l) (m70h := m70h) (m70l := m70l) (m73h := m73h) (m73l := m73l) (m76h := m76h) (m76l := m76l) hp0 hp1 hp2 hp3 hp4 hp5 hx8 hm61l hm61h hm62l hm62h ht63 hm64l hm64h ht65 ht66 hm67l hm67h ht68 ht69 hm70l hm70h ht71 ht72 hm73l hm73h ht74 ht75 hm76l hm76h ht77 ht78 ht79 ht80 hq81 ht82
        have hq3 := montx_part3 s pr pt pp inv hr ht hp hrp hstk hrs hts hps (t66 := t66) (t69 := t69) (t72 := t72) (t75 := t75) (t77 := t77) (t78 := t78) (t80 := t80) (t82 := t82) (t86 := t86) (t88 := t88) (t89 := t89) (t91 := t91) (t92 := t92) (t94 := t94) (t95 := t95) (t97 := t97) (t98 := t98) (t100 := t100) (t101 := t101) (t102 := t102) (t103 := t103) (t105 := t105) (p0 := p0) (p1 := p1) (p2 := p2) (p3 := p3) (p4 := p4) (p5 := p5) (x9 := x9) (m61l := m61l) (m73h := m73h) (m84l := m84l) (m85h := m85h) (m85l := m85l) (m87h := m87h) (m87l := m87l) (m90h := m90h) (m90l := m90l) (m93h := m93h) (m93l := m93l) (m96h := m96h) (m96l := m96l) (m99h := m99h) (m99l := m99l) (q104 := q104) hp0 hp1 hp2 hp3 hp4 hp5 hx9 hm84l hm84h hm85l hm85h ht86 hm87l hm87h ht88 ht89 hm90l hm90h ht91 ht92 hm93l hm93h ht94 ht95 hm96l hm96h ht97 ht98 hm99l hm99h ht100 ht101 ht102 ht103 hq104 ht105
        have hq4 := montx_part4 s pr pt pp inv hr ht hp hrp hstk hrs hts hps (t89 := t89) (t92 := t92) (t95 := t95) (t98 := t98) (t100 := t100) (t101 := t101) (t103 := t103) (t105 := t105) (t109 := t109) (t111 := t111) (t112 := t112) (t114 := t114) (t115 := t115) (t117 := t117) (t118 := t118) (t120 := t120) (t121 := t121) (t123 := t123) (t124 := t124) (t125 := t125) (t126 := t126) (t128 := t128) (p0 := p0) (p1 := p1) (p2 := p2) (p3 := p3) (p4 := p4) (p5 := p5) (x10 := x10) (m84l := m84l) (m96h := m96h) (q127 := q127) (m107l := m107l) (m108h := m108h) (m108l := m108l) (m110h := m110h) (m110l := m110l) (m113h := m113h) (m113l := m113l) (m116h := m116h) (m116l := m116l) (m119h := m119h) (m119l := m119l) (m122h := m122h) (m122l := m122l) hp0 hp1 hp2 hp3 hp4 hp5 hx10 hm107l hm107h hm108l hm108h ht109 hm110l hm110h ht111 ht112 hm113l hm113h ht114 ht115 hm116l hm116h ht117 ht118 hm119l hm119h ht120 ht121 hm122l hm122h ht123 ht124 ht125 ht126 hq127 ht128
        have hq5 := montx_part5 s pr pt pp inv hr ht hp hrp hstk hrs hts hps (t112 := t112) (t115 := t115) (t118 := t118) (t121 := t121) (t123 := t123) (t124 := t124) (t126 := t126) (t128 := t128) (t132 := t132) (t134 := t134) (t135 := t135) (t137 := t137) (t138 := t138) (t140 := t140) (t141 := t141) (t143 := t143) (t144 := t144) (t146 := t146) (t147 := t147) (t148 := t148) (t149 := t149) (p0 := p0) (p1 := p1) (p2 := p2) (p3 := p3) (p4 := p4) (p5 := p5) (x11 := x11) (m107l := m107l) (m119h := m119h) (m130l := m130l) (m131h := m131h) (m131l := m131l) (m133h := m133h) (m133l := m133l) (m136h := m136h) (m136l := m136l) (m139h := m139h) (m139l := m139l) (m142h := m142h) (m142l := m142l) (m145h := m145h) (m145l := m145l) hp0 hp1 hp2 hp3 hp4 hp5 hx11 hm130l hm130h hm131l hm131h ht132 hm133l hm133h ht134 ht135 hm136l hm136h ht137 ht138 hm139l hm139h ht140 ht141 hm142l hm142h ht143 ht144 hm145l hm145h ht146 ht147 ht148 ht149
        have hq6 := montx_tail_eqn s pr pt pp inv hr ht hp hrp hstk hrs hts hps (t128 := t128) (t135 := t135) (t138 := t138) (t141 := t141) (t144 := t144) (t146 := t146) (t147 := t147) (t149 := t149) (t172 := t172) (t174 := t174) (t176 := t176) (t178 := t178) (t180 := t180) (t182 := t182) (p0 := p0) (p1 := p1) (p2 := p2) (p3 := p3) (p4 := p4) (p5 := p5) (m130l := m130l) (m142h := m142h) hp0 hp1 hp2 hp3 hp4 hp5 ht150 ht172 ht174 ht176 ht178 ht180 ht182 hlt hz hbw
        have hall : run embedded_pairing_core_arch_x86_64_bmi2_adx_fpbase_384_montgomery_reduce s 178 = _ := show run embedded_pairing_core_arch_x86_64_bmi2_adx_fpbase_384_montgomery_reduce s (37 + (23 + (23 + (23 + (23 + (21 + (28))))))) = _ from run_chain hq0 (run_chain hq1 (run_chain hq2 (run_chain hq3 (run_chain hq4 (run_chain hq5 (hq6))))))
        refine ⟨_, run_fuel hall rfl 196 (by omega), ?_⟩
        clear hq0 hq1 hq2 hq3 hq4 hq5 hq6 hall
        refine ⟨⟨rfl, ?_, ?_, ?_, ?_, ?_, ?_, ?_, ?_⟩, and_assoc.mp ⟨?_, ?_⟩⟩
        · rfl
        · rfl
        · rfl
        · rfl
        · rfl
        · rfl
        · rfl
        · rfl
        · x86_mem
          obtain ⟨loR, hloR, hRs, hRb⟩ := val6_split t135.val t138.val t141.val t144.val t147.val t149.val
          obtain ⟨loP, hloP, hPs, hPb⟩ := val6_split p0 p1 p2 p3 p4 p5
          have hlt' := subb_cf_iff t149.val p5; rw [← ht150] at hlt'
          have hz' := subb_zf_iff t149.val p5; rw [← ht150] at hz'
          have hD := sub6_val ht172 ht174 ht176 ht178 ht180 ht182
          obtain ⟨loD, hloD, hDs, hDb⟩ := val6_split t172.val t174.val t176.val t178.val t180.val t182.val
          have := Bool.toNat_le t182.cf
          simp only [hlt, hz, hbw, Bool.toNat_true, Bool.toNat_false, Bool.false_eq_true, false_iff, true_iff, Nat.not_lt, Nat.add_zero] at hlt' hz' hD
          refine mont_result hR hE (Or.inr ?_)
          omega
        · intro k hk1 hk2
          simp (disch := (clear * - hk1 hk2 room1 room5; omega)) only [setMem_ne]
      · -- tie, the subtraction borrows: the stored window stays
        have hq0 := montx_part0 s pr pt pp inv hr ht hp hrp hstk hrs hts hps hst hpc hdi hsi hdx hcx (t17 := t17) (t19 := t19) (t20 := t20) (t22 := t22) (t23 := t23) (t25 := t25) (t26 := t26) (t28 := t28) (t29 := t29) (t31 := t31) (t32 := t32) (t33 := t33) (t34 := t34) (t36 := t36) (p0 := p0) (p1 := p1) (p2 := p2) (p3 := p3) (p4 := p4) (p5 := p5) (x0 := x0) (x1 := x1) (x2 := x2) (x3 := x3) (x4 := x4) (x5 := x5) (x6 := x6) (q35 := q35) (m15l := m15l) (m16h := m16h) (m16l := m16l) (m18h := m18h) (m18l := m18l) (m21h := m21h) (m21l := m21l) (m24h := m24h) (m24l := m24l) (m27h := m27h) (m27l := m27l) (m30h := m30h) (m30l := m30l) hp0 hp1 hp2 hp3 hp4 hp5 hx0 hx1 hx2 hx3 hx4 hx5 hx6 hm15l hm15h hm16l hm16h ht17 hm18l hm18h ht19 ht20 hm21l hm21h ht22 ht23 hm24l hm24h ht25 ht26 hm27l hm27h ht28 ht29 hm30l hm30h ht31 ht32 ht33 ht34 hq35 ht36
        have hq1 := montx_part1 s pr pt pp inv hr ht hp hrp hstk hrs hts hps (t20 := t20) (t23 := t23) (t26 := t26) (t29 := t29) (t31 := t31) (t32 := t32) (t34 := t34) (t36 := t36) (t40 := t40) (t42 := t42) (t43 := t43) (t45 := t45) (t46 := t46) (t48 := t48) (t49 := t49) (t51 := t51) (t52 := t52) (t54 := t54) (t55 := t55) (t56 := t56) (t57 := t57) (t59 := t59) (p0 := p0) (p1 := p1) (p2 := p2) (p3 := p3) (p4 := p4) (p5 := p5) (x7 := x7) (q58 := q58) (m15l := m15l) (m27h := m27h) (m38l := m38l) (m39h := m39h) (m39l := m39l) (m41h := m41h) (m41l := m41l) (m44h := m44h) (m44l := m44l) (m47h := m47h) (m47l := m47l) (m50h := m50h) (m50l := m50l) (m53h := m53h) (m53l := m53l) hp0 hp1 hp2 hp3 hp4 hp5 hx7 hm38l hm38h hm39l hm39h ht40 hm41l hm41h ht42 ht43 hm44l hm44h ht45 ht46 hm47l hm47h ht48 ht49 hm50l hm50h ht51 ht52 hm53l hm53h ht54 ht55 ht56 ht57 hq58 ht59
        have hq2 := montx_part2 s pr pt pp inv hr ht hp hrp hstk hrs hts hps (t43 := t43) (t46 := t46) (t49 := t49) (t52 := t52) (t54 := t54) (t55 := t55) (t57 := t57) (t59 := t59) (t63 := t63) (t65 := t65) (t66 := t66) (t68 := t68) (t69 := t69) (t71 := t71) (t72 := t72) (t74 := t74) (t75 := t75) (t77 := t77) (t78 := t78) (t79 := t79) (t80 := t80) (t82 := t82) (p0 := p0) (p1 := p1) (p2 := p2) (p3 := p3) (p4 := p4) (p5 := p5) (x8 := x8) (q81 := q81) (m38l := m38l) (m50h := m50h) (m61l := m61l) (m62h := m62h) (m62l := m62l) (m64h := m64h) (m64l := m64l) (m67h := m67h) (m67l := m67l) (m70h := m70h) (m70l := m70l) (m73h := m73h) (m73l := m73l) (m76h := m76h) (m76l := m76l) hp0 hp1 hp2 hp3 hp4 hp5 hx8 hm61l hm61h hm62l hm62h ht63 hm64l hm64h ht65 ht66 hm67l hm67h ht68 ht69 hm70l hm70h ht71 ht72 hm73l hm73h ht74 ht75 hm76l hm76h ht77 ht78 ht79 ht80 hq81 ht82
        have hq3 := montx_part3 s pr pt pp inv hr ht hp hrp hstk hrs hts hps (t66 := t66) (t69 := t69) (t72 := t72) (t75 := t75) (t77 := t77) (t78 := t78) (t80 := t80) (t82 := t82) (t86 := t86) (t88 := t88) (t89 := t89) (t91 := t91) (t92 := t92) (t94 := t94) (t95 := t95) (t97 := t97) (t98 := t98) (t100 := t100) (t101 := t101) (t102 := t102) (t103 := t103) (t105 := t105) (p0 := p0) (p1 := p1) (p2 := p2) (p3 := p3) (p4 := p4) (p5 := p5) (x9 := x9) (m61l := m61l) (m73h := m73h) (m84l := m84l) (m85h := m85h) (m85l := m85l) (m87h := m87h) (m87l := m87l) (m90h := m90h) (m90l := m90l) (m93h := m93h) (m93l := m93l) (m96h := m96h) (m96l := m96l) (m99h := m99h) (m99l := m99l) (q104 := q104) hp0 hp1 hp2 hp3 hp4 hp5 hx9 hm84l hm84h hm85l hm85h ht86 hm87l hm87h ht88 ht89 hm90l hm90h ht91 ht92 hm93l hm93h ht94 ht95 hm96l hm96h ht97 ht98 hm99l hm99h ht100 ht101 ht102 ht103 hq104 ht105
        have hq4 := montx_part4 s pr pt pp inv hr ht hp hrp hstk hrs hts hps (t89 := t89) (t92 := t92) (t95 := t95) (t98 := t98) (t100 := t100) (t101 := t101) (t103 := t103) (t105 := t105) (t109 := t109) (t111 := t111) (t112 := t112) (t114 := t114) (t115 := t115) (t117 := t117) (t118 := t118) (t120 := t120) (t121 := t121) (t123 := t123) (t124 := t124) (t125 := t125) (t126 := t126) (t128 := t128) (p0 := p0) (p1 := p1) (p2 := p2) (p3 := p3) (p4 := p4) (p5 := p5) (x10 := x10) (m84l := m84l) (m96h := m96h) (q127 := q127) (m107l := m107l) (m108h := m108h) (m108l := m108l) (m110h := m110h) (m110l := m110l) (m113h := m113h) (m113l := m113l) (m116h := m116h) (m116l := m116l) (m119h := m119h) (m119l := m119l) (m122h := m122h) (m122l := m122l) hp0 hp1 hp2 hp3 hp4 hp5 hx10 hm107l hm107h hm108l hm108h ht109 hm110l hm110h ht111 ht112 hm113l hm113h ht114 ht115 hm116l hm116h ht117 ht118 hm119l hm119h ht120 ht121 hm122l hm122h ht123 ht124 ht125 ht126 hq127 ht128
        have hq5 := montx_part5 s pr pt pp inv hr ht hp hrp hstk hrs hts hps (t112 := t112) (t115 := t115) (t118 := t118) (t121 := t121) (t123 := t123) (t124 := t124) (t126 := t126) (t128 := t128) (t132 := t132) (t134 := t134) (t135 := t135) (t137 := t137) (t138 := t138) (t140 := t140) (t141 := t141) (t143 := t143) (t144 := t144) (t146 := t146) (t147 := t147) (t148 := t148) (t149 := t149) (p0 := p0) (p1 := p1) (p2 := p2) (p3 := p3) (p4 := p4) (p5 := p5) (x11 := x11) (m107l := m107l) (m119h := m119h) (m130l := m130l) (m131h := m131h) (m131l := m131l) (m133h := m133h) (m133l := m133l) (m136h := m136h) (m136l := m136l) (m139h := m139h) (m139l := m139l) (m142h := m142h) (m142l := m142l) (m145h := m145h) (m145l := m145l) hp0 hp1 hp2 hp3 hp4 hp5 hx11 hm130l hm130h hm131l hm131h ht132 hm133l hm133h ht134 ht135 hm136l hm136h ht137 ht138 hm139l hm139h ht140 ht141 hm142l hm142h ht143 ht144 hm145l hm145h ht146 ht147 ht148 ht149
        have hq6 := montx_tail_eqb s pr pt pp inv hr ht hp hrp hstk hrs hts hps (t128 := t128) (t135 := t135) (t138 := t138) (t141 := t141) (t144 := t144) (t146 := t146) (t147 := t147) (t149 := t149) (t172 := t172) (t174 := t174) (t176 := t176) (t178 := t178) (t180 := t180) (t182 := t182) (p0 := p0) (p1 := p1) (p2 := p2) (p3 := p3) (p4 := p4) (p5 := p5) (m130l := m130l) (m142h := m142h) hp0 hp1 hp2 hp3 hp4 hp5 ht150 ht172 ht174 ht176 ht178 ht180 ht182 hlt hz hbw
        have hall : run embedded_pairing_core_arch_x86_64_bmi2_adx_fpbase_384_montgomery_reduce s 172 = _ := show run embedded_pairing_core_arch_x86_64_bmi2_adx_fpbase_384_montgomery_reduce s (37 + (23 + (23 + (23 + (23 + (21 + (22))))))) = _ from run_chain hq0 (run_chain hq1 (run_chain hq2 (run_chain hq3 (run_chain hq4 (run_chain hq5 (hq6))))))
        refine ⟨_, run_fuel hall rfl 196 (by omega), ?_⟩
        clear hq0 hq1 hq2 hq3 hq4 hq5 hq6 hall
        refine ⟨⟨rfl, ?_, ?_, ?_, ?_, ?_, ?_, ?_, ?_⟩, and_assoc.mp ⟨?_, ?_⟩⟩
        · rfl
        · rfl
        · rfl
        · rfl
        · rfl
        · rfl
        · rfl
        · rfl
        · x86_mem
          obtain ⟨loR, hloR, hRs, hRb⟩ := val6_split t135.val t138.val t141.val t144.val t147.val t149.val
          obtain ⟨loP, hloP, hPs, hPb⟩ := val6_split p0 p1 p2 p3 p4 p5
          have hlt' := subb_cf_iff t149.val p5; rw [← ht150] at hlt'
          have hz' := subb_zf_iff t149.val p5; rw [← ht150] at hz'
          have hD := sub6_val ht172 ht174 ht176 ht178 ht180 ht182
          obtain ⟨loD, hloD, hDs, hDb⟩ := val6_split t172.val t174.val t176.val t178.val t180.val t182.val
          have := Bool.toNat_le t182.cf
          simp only [hlt, hz, hbw, Bool.toNat_true, Bool.toNat_false, Bool.false_eq_true, false_iff, true_iff, Nat.not_lt, Nat.add_zero] at hlt' hz' hD
          refine mont_result hR hE (Or.inl ⟨rfl, ?_⟩)
          omega
        · intro k hk1 hk2
          simp (disch := (clear * - hk1 hk2 room1 room5; omega)) only [setMem_ne]
  · -- top word below the top word of P: copy
    have hq0 := montx_part0 s pr pt pp inv hr ht hp hrp hstk hrs hts hps hst hpc hdi hsi hdx hcx (t17 := t17) (t19 := t19) (t20 := t20) (t22 := t22) (t23 := t23) (t25 := t25) (t26 := t26) (t28 := t28) (t29 := t29) (t31 := t31) (t32 := t32) (t33 := t33) (t34 := t34) (t36 := t36) (p0 := p0) (p1 := p1) (p2 := p2) (p3 := p3) (p4 := p4) (p5 := p5) (x0 := x0) (x1 := x1) (x2 := x2) (x3 := x3) (x4 := x4) (x5 := x5) (x6 := x6) (q35 := q35) (m15l := m15l) (m16h := m16h) (m16l := m16l) (m18h := m18h) (m18l := m18l) (m21h := m21h) (m21l := m21l) (m24h := m24h) (m24l := m24l) (m27h := m27h) (m27l := m27l) (m30h := m30h) (m30l := m30l) hp0 hp1 hp2 hp3 hp4 hp5 hx0 hx1 hx2 hx3 hx4 hx5 hx6 hm15l hm15h hm16l hm16h ht17 hm18l hm18h ht19 ht20 hm21l hm21h ht22 ht23 hm24l hm24h ht25 ht26 hm27l hm27h ht28 ht29 hm30l hm30h ht31 ht32 ht33 ht34 hq35 ht36
    have hq1 := montx_part1 s pr pt pp inv hr ht hp hrp hstk hrs hts hps (t20 := t20) (t23 := t23) (t26 := t26) (t29 := t29) (t31 := t31) (t32 := t32) (t34 := t34) (t36 := t36) (t40 := t40) (t42 := t42) (t43 := t43) (t45 := t45) (t46 := t46) (t48 := t48) (t49 := t49) (t51 := t51) (t52 := t52) (t54 := t54) (t55 := t55) (t56 := t56) (t57 := t57) (t59 := t59) (p0 := p0) (p1 := p1) (p2 := p2) (p3 := p3) (p4 := p4) (p5 := p5) (x7 := x7) (q58 := q58) (m15l := m15l) (m27h := m27h) (m38l := m38l) (m39h := m39h) (m39l := m39l) (m41h := m41h) (m41l := m41l) (m44h := m44h) (m44l := m44l) (m47h := m47h) (m47l := m47l) (m50h := m50h) (m50l := m50l) (m53h := m53h) (m53l := m53l) hp0 hp1 hp2 hp3 hp4 hp5 hx7 hm38l hm38h hm39l hm39h ht40 hm41l hm41h ht42 ht43 hm44l hm44h ht45 ht46 hm47l hm47h ht48 ht49 hm50l hm50h ht51 ht52 hm53l hm53h ht54 ht55 ht56 ht57 hq58 ht59
    have hq2 := montx_part2 s pr pt pp inv hr ht hp hrp hstk hrs hts hps (t43 := t43) (t46 := t46) (t49 := t49) (t52 := t52) (t54 := t54) (t55 := t55) (t57 := t57) (t59 := t59) (t63 := t63) (t65 := t65) (t66 := t66) (t68 := t68) (t69 := t69) (t71 := t71) (t72 := t72) (t74 := t74) (t75 := t75) (t77 := t77) (t78 := t78) (t79 := t79) (t80 := t80) (t82 := t82) (p0 := p0) (p1 := p1) (p2 := p2) (p3 := p3) (p4 := p4) (p5 := p5) (x8 := x8) (q81 := q81) (m38l := m38l) (m50h := m50h) (m61l := m61l) (m62h := m62h) (m62l := m62l) (m64h := m64h) (m64l := m64l) (m67h := m67h) (m67l := m67l) (m70h := m70h) (m70l := m70l) (m73h := m73h) (m73l := m73l) (m76h := m76h) (m76l := m76l) hp0 hp1 hp2 hp3 hp4 hp5 hx8 hm61l hm61h hm62l hm62h ht63 hm64l hm64h ht65 ht66 hm67l hm67h ht68 ht69 hm70l hm70h ht71 ht72 hm73l hm73h ht74 ht75 hm76l hm76h ht77 ht78 ht79 ht80 hq81 ht82
    have hq3 := montx_part3 s pr pt pp inv hr ht hp hrp hstk hrs hts hps (t66 := t66) (t69 := t69) (t72 := t72) (t75 := t75) (t77 := t77) (t78 := t78) (t80 := t80) (t82 := t82) (t86 := t86) (t88 := t88) (t89 := t89) (t91 := t91) (t92 := t92) (t94 := t94) (t95 := t95) (t97 := t97) (t98 := t98) (t100 := t100) (t101 := t101) (t102 := t102) (t103 := t103) (t105 := t105) (p0 := p0) (p1 := p1) (p2 := p2) (p3 := p3) (p4 := p4) (p5 := p5) (x9 := x9) (m61l := m61l) (m73h := m73h) (m84l := m84l) (m85h := m85h) (m85l := m85l) (m87h := m87h) (m87l := m87l) (m90h := m90h) (m90l := m90l) (m93h := m93h) (m93l := m93l) (m96h := m96h) (m96l := m96l) (m99h := m99h) (m99l := m99l) (q104 := q104) hp0 hp1 hp2 hp3 hp4 hp5 hx9 hm84l hm84h hm85l hm85h ht86 hm87l hm87h ht88 ht89 hm90l hm90h ht91 ht92 hm93l hm93h ht94 ht95 hm96l hm96h ht97 ht98 hm99l hm99h ht100 ht101 ht102 ht103 hq104 ht105
    have hq4 := montx_part4 s pr pt pp inv hr ht hp hrp hstk hrs hts hps (t89 := t89) (t92 := t92) (t95 := t95) (t98 := t98) (t100 := t100) (t101 := t101) (t103 := t103) (t105 := t105) (t109 := t109) (t111 := t111) (t112 := t112) (t114 := t114) (t115 := t115) (t117 := t117) (t118 := t118) (t120 := t120) (t121 := t121) (t123 := t123) (t124 := t124) (t125 := t125) (t126 := t126) (t128 := t128) (p0 := p0) (p1 := p1) (p2 := p2) (p3 := p3) (p4 := p4) (p5 := p5) (x10 := x10) (m84l := m84l) (m96h := m96h) (q127 := q127) (m107l := m107l) (m108h := m108h) (m108l := m108l) (m110h := m110h) (m110l := m110l) (m113h := m113h) (m113l := m113l) (m116h := m116h) (m116l := m116l) (m119h := m119h) (m119l := m119l) (m122h := m122h) (m122l := m122l) hp0 hp1 hp2 hp3 hp4 hp5 hx10 hm107l hm107h hm108l hm108h ht109 hm110l hm110h ht111 ht112 hm113l hm113h ht114 ht115 hm116l hm116h ht117 ht118 hm119l hm119h ht120 ht121 hm122l hm122h ht123 ht124 ht125 ht126 hq127 ht128
    have hq5 := montx_part5 s pr pt pp inv hr ht hp hrp hstk hrs hts hps (t112 := t112) (t115 := t115) (t118 := t118) (t121 := t121) (t123 := t123) (t124 := t124) (t126 := t126) (t128 := t128) (t132 := t132) (t134 := t134) (t135 := t135) (t137 := t137) (t138 := t138) (t140 := t140) (t141 := t141) (t143 := t143) (t144 := t144) (t146 := t146) (t147 := t147) (t148 := t148) (t149 := t149) (p0 := p0) (p1 := p1) (p2 := p2) (p3 := p3) (p4 := p4) (p5 := p5) (x11 := x11) (m107l := m107l) (m119h := m119h) (m130l := m130l) (m131h := m131h) (m131l := m131l) (m133h := m133h) (m133l := m133l) (m136h := m136h) (m136l := m136l) (m139h := m139h) (m139l := m139l) (m142h := m142h) (m142l := m142l) (m145h := m145h) (m145l := m145l) hp0 hp1 hp2 hp3 hp4 hp5 hx11 hm130l hm130h hm131l hm131h ht132 hm133l hm133h ht134 ht135 hm136l hm136h ht137 ht138 hm139l hm139h ht140 ht141 hm142l hm142h ht143 ht144 hm145l hm145h ht146 ht147 ht148 ht149
    have hq6 := montx_tail_lt s pr pt pp inv hr ht hp hrp hstk hrs hts hps (t128 := t128) (t135 := t135) (t138 := t138) (t141 := t141) (t144 := t144) (t146 := t146) (t147 := t147) (t149 := t149) (t150 := t150) (p5 := p5) (m130l := m130l) (m142h := m142h) hp5 ht150 hlt
    have hall : run embedded_pairing_core_arch_x86_64_bmi2_adx_fpbase_384_montgomery_reduce s 164 = _ := show run embedded_pairing_core_arch_x86_64_bmi2_adx_fpbase_384_montgomery_reduce s (37 + (23 + (23 + (23 + (23 + (21 + (14))))))) = _ from run_chain hq0 (run_chain hq1 (run_chain hq2 (run_chain hq3 (run_chain hq4 (run_chain hq5 (hq6))))))
    refine ⟨_, run_fuel hall rfl 196 (by omega), ?_⟩
    clear hq0 hq1 hq2 hq3 hq4 hq5 hq6 hall
    refine ⟨⟨rfl, ?_, ?_, ?_, ?_, ?_, ?_, ?_, ?_⟩, and_assoc.mp ⟨?_, ?_⟩⟩
    · rfl
    · rfl
    · rfl
    · rfl
    · rfl
    · rfl
    · rfl
    · rfl
    · x86_mem
      obtain ⟨loR, hloR, hRs, hRb⟩ := val6_split t135.val t138.val t141.val t144.val t147.val t149.val
      obtain ⟨loP, hloP, hPs, hPb⟩ := val6_split p0 p1 p2 p3 p4 p5
      have hlt' := subb_cf_iff t149.val p5; rw [← ht150] at hlt'
      have hz' := subb_zf_iff t149.val p5; rw [← ht150] at hz'
      simp only [hlt, Bool.toNat_true, Bool.toNat_false, Bool.false_eq_true, false_iff, true_iff, Nat.not_lt, Nat.add_zero] at hlt' hz'
      refine mont_result hR hE (Or.inl ⟨rfl, ?_⟩)
      omega
    · intro k hk1 hk2
      simp (disch := (clear * - hk1 hk2 room1 room5; omega)) only [setMem_ne]

end Jedi.X86
