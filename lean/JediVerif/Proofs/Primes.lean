/-
Primality of the two BLS12-381 moduli `Jedi.q` and `Jedi.r`, by machine-checked Pratt
(Lucas) certificates.  Each node `n` of the certificate tree is checked by kernel evaluation
of `lucasCheck n a ps k`: `a ^ (n-1) ≡ 1`, `a ^ ((n-1)/p) ≢ 1 (mod n)` for every `p ∈ ps`, and
`n - 1 ∣ (∏ ps) ^ k` (so every prime divisor of `n - 1` is in `ps`).  The primes in `ps` are
certified recursively; primes below 10^5 by `norm_num`.
-/
import Mathlib.NumberTheory.LucasPrimality
import Mathlib.Tactic.NormNum.Prime
import JediVerif.Spec.Basic

namespace Jedi.Primes

/-- Right-to-left binary modular exponentiation with fuel: returns `acc * b ^ e mod n`
as long as `e < 2 ^ fuel`.  Structural on the fuel, so the kernel can evaluate it. -/
def powModAux (n : ℕ) : ℕ → ℕ → ℕ → ℕ → ℕ
  | 0, acc, _, _ => acc
  | fuel + 1, acc, b, e =>
    if e = 0 then acc
    else powModAux n fuel (if e % 2 = 1 then acc * b % n else acc) (b * b % n) (e / 2)

/-- `a ^ e mod n` (for `e < 2 ^ 400`). -/
def powMod (a e n : ℕ) : ℕ := powModAux n 400 1 a e

theorem powModAux_cast (n : ℕ) : ∀ (fuel acc b e : ℕ), e < 2 ^ fuel →
    ((powModAux n fuel acc b e : ℕ) : ZMod n) = (acc : ZMod n) * (b : ZMod n) ^ e := by
  intro fuel
  induction fuel with
  | zero =>
    intro acc b e he
    have : e = 0 := by simpa using he
    subst this
    simp [powModAux]
  | succ f ih =>
    intro acc b e he
    unfold powModAux
    by_cases h0 : e = 0
    · simp [h0]
    · rw [if_neg h0]
      have he2 : e / 2 < 2 ^ f := by
        rw [Nat.div_lt_iff_lt_mul (by norm_num)]
        rw [pow_succ] at he
        exact he
      rw [ih _ _ _ he2]
      have hsq : ((b * b % n : ℕ) : ZMod n) ^ (e / 2) = (b : ZMod n) ^ (2 * (e / 2)) := by
        rw [ZMod.natCast_mod, Nat.cast_mul, pow_mul, pow_two]
      rw [hsq]
      by_cases h1 : e % 2 = 1
      · rw [if_pos h1, ZMod.natCast_mod, Nat.cast_mul, mul_assoc, ← pow_succ']
        congr 2
        omega
      · rw [if_neg h1]
        congr 2
        omega

theorem powMod_cast (a e n : ℕ) (he : e < 2 ^ 400) :
    ((powMod a e n : ℕ) : ZMod n) = (a : ZMod n) ^ e := by
  rw [powMod, powModAux_cast n 400 1 a e he, Nat.cast_one, one_mul]

/-- The kernel-evaluable Lucas check for `n` with witness `a`, prime list `ps` (covering all
prime divisors of `n - 1`, as `n - 1 ∣ (∏ ps) ^ k`). -/
def lucasCheck (n a : ℕ) (ps : List ℕ) (k : ℕ) : Bool :=
  decide (n < 2 ^ 400) && (ps.prod ^ k % (n - 1) == 0) &&
    (powMod a (n - 1) n % n == 1 % n) &&
    ps.all (fun p => powMod a ((n - 1) / p) n % n != 1 % n)

theorem prime_of_lucasCheck (n a : ℕ) (ps : List ℕ) (k : ℕ)
    (hps : ∀ p ∈ ps, Nat.Prime p) (h : lucasCheck n a ps k = true) : Nat.Prime n := by
  simp only [lucasCheck, Bool.and_eq_true, decide_eq_true_eq, beq_iff_eq, List.all_eq_true,
    bne_iff_ne, ne_eq] at h
  obtain ⟨⟨⟨hn, hdiv⟩, h1⟩, hall⟩ := h
  have hlt : ∀ e, e ≤ n - 1 → e < 2 ^ 400 := fun e he => lt_of_le_of_lt (he.trans (Nat.sub_le _ _)) hn
  refine lucas_primality n (a : ZMod n) ?_ ?_
  · rw [← powMod_cast a (n - 1) n (hlt _ le_rfl), ← Nat.cast_one (R := ZMod n),
      ZMod.natCast_eq_natCast_iff']
    exact h1
  · intro q hq hqd
    have hq' : q ∣ ps.prod ^ k := hqd.trans (Nat.dvd_of_mod_eq_zero hdiv)
    have hq'' : q ∣ ps.prod := hq.dvd_of_dvd_pow hq'
    obtain ⟨p, hp, hqp⟩ := (Prime.dvd_prod_iff hq.prime).mp hq''
    have hpq : q = p := (Nat.prime_dvd_prime_iff_eq hq (hps p hp)).mp hqp
    subst hpq
    rw [← powMod_cast a ((n - 1) / q) n (hlt _ (Nat.div_le_self _ _)),
      ← Nat.cast_one (R := ZMod n), Ne, ZMod.natCast_eq_natCast_iff']
    exact hall q hp

theorem all_nil : ∀ p ∈ ([] : List ℕ), Nat.Prime p := by simp

theorem all_cons {a : ℕ} {l : List ℕ} (ha : Nat.Prime a) (hl : ∀ p ∈ l, Nat.Prime p) :
    ∀ p ∈ a :: l, Nat.Prime p := List.forall_mem_cons.mpr ⟨ha, hl⟩

/-! ### Small primes (below 10^5), by `norm_num` -/

theorem prime_2 : Nat.Prime 2 := by norm_num
theorem prime_3 : Nat.Prime 3 := by norm_num
theorem prime_5 : Nat.Prime 5 := by norm_num
theorem prime_7 : Nat.Prime 7 := by norm_num
theorem prime_11 : Nat.Prime 11 := by norm_num
theorem prime_13 : Nat.Prime 13 := by norm_num
theorem prime_17 : Nat.Prime 17 := by norm_num
theorem prime_19 : Nat.Prime 19 := by norm_num
theorem prime_23 : Nat.Prime 23 := by norm_num
theorem prime_31 : Nat.Prime 31 := by norm_num
theorem prime_41 : Nat.Prime 41 := by norm_num
theorem prime_43 : Nat.Prime 43 := by norm_num
theorem prime_47 : Nat.Prime 47 := by norm_num
theorem prime_53 : Nat.Prime 53 := by norm_num
theorem prime_67 : Nat.Prime 67 := by norm_num
theorem prime_79 : Nat.Prime 79 := by norm_num
theorem prime_89 : Nat.Prime 89 := by norm_num
theorem prime_97 : Nat.Prime 97 := by norm_num
theorem prime_113 : Nat.Prime 113 := by norm_num
theorem prime_151 : Nat.Prime 151 := by norm_num
theorem prime_191 : Nat.Prime 191 := by norm_num
theorem prime_359 : Nat.Prime 359 := by norm_num
theorem prime_409 : Nat.Prime 409 := by norm_num
theorem prime_449 : Nat.Prime 449 := by norm_num
theorem prime_467 : Nat.Prime 467 := by norm_num
theorem prime_941 : Nat.Prime 941 := by norm_num
theorem prime_1151 : Nat.Prime 1151 := by norm_num
theorem prime_1327 : Nat.Prime 1327 := by norm_num
theorem prime_1607 : Nat.Prime 1607 := by norm_num
theorem prime_3373 : Nat.Prime 3373 := by norm_num
theorem prime_4349 : Nat.Prime 4349 := by norm_num
theorem prime_7577 : Nat.Prime 7577 := by norm_num
theorem prime_8101 : Nat.Prime 8101 := by norm_num
theorem prime_10177 : Nat.Prime 10177 := by norm_num
theorem prime_16447 : Nat.Prime 16447 := by norm_num
theorem prime_18329 : Nat.Prime 18329 := by norm_num
theorem prime_20921 : Nat.Prime 20921 := by norm_num
theorem prime_43591 : Nat.Prime 43591 := by norm_num
theorem prime_47737 : Nat.Prime 47737 := by norm_num

/-! ### Lucas steps -/

/-- `125527 - 1 = 2 * 3 * 20921`, witness `5`. -/
theorem prime_125527 : Nat.Prime 125527 :=
  prime_of_lucasCheck 125527 5 [2, 3, 20921] 1
    (all_cons prime_2 (all_cons prime_3 (all_cons prime_20921 all_nil)))
    (by decide +kernel)

/-- `859267 - 1 = 2 * 3^2 * 47737`, witness `2`. -/
theorem prime_859267 : Nat.Prime 859267 :=
  prime_of_lucasCheck 859267 2 [2, 3, 47737] 2
    (all_cons prime_2 (all_cons prime_3 (all_cons prime_47737 all_nil)))
    (by decide +kernel)

/-- `906349 - 1 = 2^2 * 3 * 47 * 1607`, witness `2`. -/
theorem prime_906349 : Nat.Prime 906349 :=
  prime_of_lucasCheck 906349 2 [2, 3, 47, 1607] 2
    (all_cons prime_2 (all_cons prime_3 (all_cons prime_47 (all_cons prime_1607 all_nil))))
    (by decide +kernel)

/-- `2508409 - 1 = 2^3 * 3^4 * 7^2 * 79`, witness `11`. -/
theorem prime_2508409 : Nat.Prime 2508409 :=
  prime_of_lucasCheck 2508409 11 [2, 3, 7, 79] 4
    (all_cons prime_2 (all_cons prime_3 (all_cons prime_7 (all_cons prime_79 all_nil))))
    (by decide +kernel)

/-- `2529403 - 1 = 2 * 3 * 23 * 18329`, witness `2`. -/
theorem prime_2529403 : Nat.Prime 2529403 :=
  prime_of_lucasCheck 2529403 2 [2, 3, 23, 18329] 1
    (all_cons prime_2 (all_cons prime_3 (all_cons prime_23 (all_cons prime_18329 all_nil))))
    (by decide +kernel)

/-- `609743 - 1 = 2 * 7 * 97 * 449`, witness `5`. -/
theorem prime_609743 : Nat.Prime 609743 :=
  prime_of_lucasCheck 609743 5 [2, 7, 97, 449] 1
    (all_cons prime_2 (all_cons prime_7 (all_cons prime_97 (all_cons prime_449 all_nil))))
    (by decide +kernel)

/-- `52437899 - 1 = 2 * 43 * 609743`, witness `2`. -/
theorem prime_52437899 : Nat.Prime 52437899 :=
  prime_of_lucasCheck 52437899 2 [2, 43, 609743] 1
    (all_cons prime_2 (all_cons prime_43 (all_cons prime_609743 all_nil)))
    (by decide +kernel)

/-- `110573 - 1 = 2^2 * 7 * 11 * 359`, witness `3`. -/
theorem prime_110573 : Nat.Prime 110573 :=
  prime_of_lucasCheck 110573 3 [2, 7, 11, 359] 2
    (all_cons prime_2 (all_cons prime_7 (all_cons prime_11 (all_cons prime_359 all_nil))))
    (by decide +kernel)

/-- `2653753 - 1 = 2^3 * 3 * 110573`, witness `5`. -/
theorem prime_2653753 : Nat.Prime 2653753 :=
  prime_of_lucasCheck 2653753 5 [2, 3, 110573] 3
    (all_cons prime_2 (all_cons prime_3 (all_cons prime_110573 all_nil)))
    (by decide +kernel)

/-- `63690073 - 1 = 2^3 * 3 * 2653753`, witness `7`. -/
theorem prime_63690073 : Nat.Prime 63690073 :=
  prime_of_lucasCheck 63690073 7 [2, 3, 2653753] 3
    (all_cons prime_2 (all_cons prime_3 (all_cons prime_2653753 all_nil)))
    (by decide +kernel)

/-- `254760293 - 1 = 2^2 * 63690073`, witness `2`. -/
theorem prime_254760293 : Nat.Prime 254760293 :=
  prime_of_lucasCheck 254760293 2 [2, 63690073] 2
    (all_cons prime_2 (all_cons prime_63690073 all_nil))
    (by decide +kernel)

/-- `52435875175126190479447740508185965837690552500527637822603658699938581184513 - 1 = 2^32 * 3 * 11 * 19 * 10177 * 125527 * 859267 * 906349^2 * 2508409 * 2529403 * 52437899 * 254760293^2`, witness `7`. -/
theorem prime_52435875175126190479447740508185965837690552500527637822603658699938581184513 : Nat.Prime 52435875175126190479447740508185965837690552500527637822603658699938581184513 :=
  prime_of_lucasCheck 52435875175126190479447740508185965837690552500527637822603658699938581184513 7 [2, 3, 11, 19, 10177, 125527, 859267, 906349, 2508409, 2529403, 52437899, 254760293] 32
    (all_cons prime_2 (all_cons prime_3 (all_cons prime_11 (all_cons prime_19 (all_cons prime_10177 (all_cons prime_125527 (all_cons prime_859267 (all_cons prime_906349 (all_cons prime_2508409 (all_cons prime_2529403 (all_cons prime_52437899 (all_cons prime_254760293 all_nil))))))))))))
    (by decide +kernel)

/-- `582767 - 1 = 2 * 67 * 4349`, witness `5`. -/
theorem prime_582767 : Nat.Prime 582767 :=
  prime_of_lucasCheck 582767 5 [2, 67, 4349] 1
    (all_cons prime_2 (all_cons prime_67 (all_cons prime_4349 all_nil)))
    (by decide +kernel)

/-- `9272813673901 - 1 = 2^2 * 3 * 5^2 * 7 * 7577 * 582767`, witness `2`. -/
theorem prime_9272813673901 : Nat.Prime 9272813673901 :=
  prime_of_lucasCheck 9272813673901 2 [2, 3, 5, 7, 7577, 582767] 2
    (all_cons prime_2 (all_cons prime_3 (all_cons prime_5 (all_cons prime_7 (all_cons prime_7577 (all_cons prime_582767 all_nil))))))
    (by decide +kernel)

/-- `1928745244171409 - 1 = 2^4 * 13 * 9272813673901`, witness `3`. -/
theorem prime_1928745244171409 : Nat.Prime 1928745244171409 :=
  prime_of_lucasCheck 1928745244171409 3 [2, 13, 9272813673901] 4
    (all_cons prime_2 (all_cons prime_13 (all_cons prime_9272813673901 all_nil)))
    (by decide +kernel)

/-- `7259797099061183477 - 1 = 2^2 * 941 * 1928745244171409`, witness `2`. -/
theorem prime_7259797099061183477 : Nat.Prime 7259797099061183477 :=
  prime_of_lucasCheck 7259797099061183477 2 [2, 941, 1928745244171409] 2
    (all_cons prime_2 (all_cons prime_941 (all_cons prime_1928745244171409 all_nil)))
    (by decide +kernel)

/-- `2584487767265781317813 - 1 = 2^2 * 89 * 7259797099061183477`, witness `2`. -/
theorem prime_2584487767265781317813 : Nat.Prime 2584487767265781317813 :=
  prime_of_lucasCheck 2584487767265781317813 2 [2, 89, 7259797099061183477] 2
    (all_cons prime_2 (all_cons prime_89 (all_cons prime_7259797099061183477 all_nil)))
    (by decide +kernel)

/-- `1686913 - 1 = 2^7 * 3 * 23 * 191`, witness `10`. -/
theorem prime_1686913 : Nat.Prime 1686913 :=
  prime_of_lucasCheck 1686913 10 [2, 3, 23, 191] 7
    (all_cons prime_2 (all_cons prime_3 (all_cons prime_23 (all_cons prime_191 all_nil))))
    (by decide +kernel)

/-- `475709467 - 1 = 2 * 3 * 47 * 1686913`, witness `2`. -/
theorem prime_475709467 : Nat.Prime 475709467 :=
  prime_of_lucasCheck 475709467 2 [2, 3, 47, 1686913] 1
    (all_cons prime_2 (all_cons prime_3 (all_cons prime_47 (all_cons prime_1686913 all_nil))))
    (by decide +kernel)

/-- `927093389 - 1 = 2^2 * 13 * 409 * 43591`, witness `3`. -/
theorem prime_927093389 : Nat.Prime 927093389 :=
  prime_of_lucasCheck 927093389 3 [2, 13, 409, 43591] 2
    (all_cons prime_2 (all_cons prime_13 (all_cons prime_409 (all_cons prime_43591 all_nil))))
    (by decide +kernel)

/-- `64881703735777 - 1 = 2^5 * 3^7 * 927093389`, witness `5`. -/
theorem prime_64881703735777 : Nat.Prime 64881703735777 :=
  prime_of_lucasCheck 64881703735777 5 [2, 3, 927093389] 7
    (all_cons prime_2 (all_cons prime_3 (all_cons prime_927093389 all_nil)))
    (by decide +kernel)

/-- `92691255082156974996979 - 1 = 2 * 3 * 31 * 467 * 16447 * 64881703735777`, witness `3`. -/
theorem prime_92691255082156974996979 : Nat.Prime 92691255082156974996979 :=
  prime_of_lucasCheck 92691255082156974996979 3 [2, 3, 31, 467, 16447, 64881703735777] 1
    (all_cons prime_2 (all_cons prime_3 (all_cons prime_31 (all_cons prime_467 (all_cons prime_16447 (all_cons prime_64881703735777 all_nil))))))
    (by decide +kernel)

/-- `51376543 - 1 = 2 * 3 * 7 * 151 * 8101`, witness `3`. -/
theorem prime_51376543 : Nat.Prime 51376543 :=
  prime_of_lucasCheck 51376543 3 [2, 3, 7, 151, 8101] 1
    (all_cons prime_2 (all_cons prime_3 (all_cons prime_7 (all_cons prime_151 (all_cons prime_8101 all_nil)))))
    (by decide +kernel)

/-- `43670061551 - 1 = 2 * 5^2 * 17 * 51376543`, witness `7`. -/
theorem prime_43670061551 : Nat.Prime 43670061551 :=
  prime_of_lucasCheck 43670061551 7 [2, 5, 17, 51376543] 2
    (all_cons prime_2 (all_cons prime_5 (all_cons prime_17 (all_cons prime_51376543 all_nil))))
    (by decide +kernel)

/-- `755057 - 1 = 2^4 * 41 * 1151`, witness `3`. -/
theorem prime_755057 : Nat.Prime 755057 :=
  prime_of_lucasCheck 755057 3 [2, 41, 1151] 4
    (all_cons prime_2 (all_cons prime_41 (all_cons prime_1151 all_nil)))
    (by decide +kernel)

/-- `421987 - 1 = 2 * 3 * 53 * 1327`, witness `2`. -/
theorem prime_421987 : Nat.Prime 421987 :=
  prime_of_lucasCheck 421987 2 [2, 3, 53, 1327] 1
    (all_cons prime_2 (all_cons prime_3 (all_cons prime_53 (all_cons prime_1327 all_nil))))
    (by decide +kernel)

/-- `13090036741 - 1 = 2^2 * 3 * 5 * 11 * 47 * 421987`, witness `10`. -/
theorem prime_13090036741 : Nat.Prime 13090036741 :=
  prime_of_lucasCheck 13090036741 10 [2, 3, 5, 11, 47, 421987] 2
    (all_cons prime_2 (all_cons prime_3 (all_cons prime_5 (all_cons prime_11 (all_cons prime_47 (all_cons prime_421987 all_nil))))))
    (by decide +kernel)

/-- `3819663927398918131021 - 1 = 2^2 * 3^2 * 5 * 19 * 113 * 755057 * 13090036741`, witness `6`. -/
theorem prime_3819663927398918131021 : Nat.Prime 3819663927398918131021 :=
  prime_of_lucasCheck 3819663927398918131021 6 [2, 3, 5, 19, 113, 755057, 13090036741] 2
    (all_cons prime_2 (all_cons prime_3 (all_cons prime_5 (all_cons prime_19 (all_cons prime_113 (all_cons prime_755057 (all_cons prime_13090036741 all_nil)))))))
    (by decide +kernel)

/-- `1125266252156850182658904441386709967 - 1 = 2 * 3373 * 43670061551 * 3819663927398918131021`, witness `5`. -/
theorem prime_1125266252156850182658904441386709967 : Nat.Prime 1125266252156850182658904441386709967 :=
  prime_of_lucasCheck 1125266252156850182658904441386709967 5 [2, 3373, 43670061551, 3819663927398918131021] 1
    (all_cons prime_2 (all_cons prime_3373 (all_cons prime_43670061551 (all_cons prime_3819663927398918131021 all_nil))))
    (by decide +kernel)

/-- `15778400344354997994418419698270088123916926905054652752758194827714659 - 1 = 2 * 3 * 53 * 475709467 * 92691255082156974996979 * 1125266252156850182658904441386709967`, witness `2`. -/
theorem prime_15778400344354997994418419698270088123916926905054652752758194827714659 : Nat.Prime 15778400344354997994418419698270088123916926905054652752758194827714659 :=
  prime_of_lucasCheck 15778400344354997994418419698270088123916926905054652752758194827714659 2 [2, 3, 53, 475709467, 92691255082156974996979, 1125266252156850182658904441386709967] 1
    (all_cons prime_2 (all_cons prime_3 (all_cons prime_53 (all_cons prime_475709467 (all_cons prime_92691255082156974996979 (all_cons prime_1125266252156850182658904441386709967 all_nil))))))
    (by decide +kernel)

/-- `4002409555221667393417789825735904156556882819939007885332058136124031650490837864442687629129015664037894272559787 - 1 = 2 * 3^2 * 11 * 23 * 47 * 10177 * 859267 * 52437899 * 2584487767265781317813 * 15778400344354997994418419698270088123916926905054652752758194827714659`, witness `2`. -/
theorem prime_4002409555221667393417789825735904156556882819939007885332058136124031650490837864442687629129015664037894272559787 : Nat.Prime 4002409555221667393417789825735904156556882819939007885332058136124031650490837864442687629129015664037894272559787 :=
  prime_of_lucasCheck 4002409555221667393417789825735904156556882819939007885332058136124031650490837864442687629129015664037894272559787 2 [2, 3, 11, 23, 47, 10177, 859267, 52437899, 2584487767265781317813, 15778400344354997994418419698270088123916926905054652752758194827714659] 2
    (all_cons prime_2 (all_cons prime_3 (all_cons prime_11 (all_cons prime_23 (all_cons prime_47 (all_cons prime_10177 (all_cons prime_859267 (all_cons prime_52437899 (all_cons prime_2584487767265781317813 (all_cons prime_15778400344354997994418419698270088123916926905054652752758194827714659 all_nil))))))))))
    (by decide +kernel)

end Jedi.Primes

namespace Jedi

/-- The scalar-field modulus (group order) of BLS12-381 is prime. -/
theorem r_prime : Nat.Prime Jedi.r := Primes.prime_52435875175126190479447740508185965837690552500527637822603658699938581184513

/-- The base-field modulus of BLS12-381 is prime. -/
theorem q_prime : Nat.Prime Jedi.q := Primes.prime_4002409555221667393417789825735904156556882819939007885332058136124031650490837864442687629129015664037894272559787

instance : Fact (Nat.Prime Jedi.q) := ⟨q_prime⟩
instance : Fact (Nat.Prime Jedi.r) := ⟨r_prime⟩

end Jedi
